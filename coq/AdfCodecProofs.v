(* AdfCodecProofs.v -- C13: lemmas about the decoders of AdfCodec.v / AdfWalk.v. *)
From Coq Require Import ZArith List Bool Lia.
From CgnsV Require Import ListX Fuel AdfCodec AdfWalk.
Import ListNotations.
Local Open Scope Z_scope.

(* ================================================================ 1. the hex decoder *)
Definition is_hexchar (c : Z) : Prop := 48 <= c <= 57 \/ 65 <= c <= 70 \/ 97 <= c <= 102.

(* positional value, defined without any reference to the C loop *)
Fixpoint hexpos (s : bytes) : option Z :=
  match s with
  | [] => Some 0
  | c :: t => match hexdig c, hexpos t with
              | Some d, Some r => Some (d * 16 ^ Z.of_nat (length t) + r)
              | _, _ => None
              end
  end.

Lemma hexdig_range c d : hexdig c = Some d -> 0 <= d < 16.
Proof.
  unfold hexdig. intros H.
  destruct (48 <=? c) eqn:A; destruct (c <=? 57) eqn:B; simpl in H; try (inversion H; lia);
  destruct (65 <=? c) eqn:C; destruct (c <=? 70) eqn:D; simpl in H; try (inversion H; lia);
  destruct (97 <=? c) eqn:E; destruct (c <=? 102) eqn:F; simpl in H; try (inversion H; lia); discriminate.
Qed.

Lemma hexdig_some_iff c : hexdig c <> None <-> is_hexchar c.
Proof.
  unfold hexdig, is_hexchar.
  destruct (Z.leb_spec 48 c); destruct (Z.leb_spec c 57); simpl; [split; [lia|discriminate]| | |];
  (destruct (Z.leb_spec 65 c); destruct (Z.leb_spec c 70); simpl; [split; [lia|discriminate]| | |];
   (destruct (Z.leb_spec 97 c); destruct (Z.leb_spec c 102); simpl; split; try lia; try discriminate; try congruence)).
Qed.

Lemma hexpos_range s v : hexpos s = Some v -> 0 <= v < 16 ^ Z.of_nat (length s).
Proof.
  revert v; induction s as [|c t IH]; intros v H; simpl in H.
  - inversion H. simpl. lia.
  - destruct (hexdig c) as [d|] eqn:Hd; [|discriminate]. destruct (hexpos t) as [r|] eqn:Hr; [|discriminate].
    inversion H; subst. specialize (IH r eq_refl). apply hexdig_range in Hd.
    change (length (c :: t)) with (S (length t)). rewrite Nat2Z.inj_succ, Z.pow_succ_r by lia. nia.
Qed.

Lemma hexpos_some_iff s : hexpos s <> None <-> Forall is_hexchar s.
Proof.
  induction s as [|c t IH]; simpl.
  - split; [constructor|discriminate].
  - split.
    + intros H. destruct (hexdig c) eqn:Hd; [|congruence]. destruct (hexpos t) eqn:Ht; [|congruence].
      constructor; [apply hexdig_some_iff; congruence|apply IH; congruence].
    + intros H. inversion H; subst. apply hexdig_some_iff in H2. apply IH in H3.
      destruct (hexdig c); [|congruence]. destruct (hexpos t); congruence.
Qed.

Lemma pow16 k : 0 <= k -> 2 ^ (4 * k) = 16 ^ k.
Proof. intros. rewrite Z.pow_mul_r by lia. reflexivity. Qed.

(* the C loop (shift / add in unsigned int) computes num + positional value as long as nothing can overflow *)
Lemma hexloop_spec s : forall num, 0 <= num -> num + 16 ^ Z.of_nat (length s) <= W32 ->
  hexloop s (4 * (Z.of_nat (length s) - 1)) num = option_map (Z.add num) (hexpos s).
Proof.
  induction s as [|c t IH]; intros num H0 Hb.
  - simpl. f_equal. lia.
  - cbn [hexloop hexpos]. destruct (hexdig c) as [d|] eqn:Hd; [|reflexivity].
    pose proof (hexdig_range _ _ Hd) as Hr.
    change (length (c :: t)) with (S (length t)) in *. rewrite Nat2Z.inj_succ in *.
    rewrite Z.pow_succ_r in Hb by lia.
    replace (4 * (Z.succ (Z.of_nat (length t)) - 1)) with (4 * Z.of_nat (length t)) by lia.
    rewrite Z.shiftl_mul_pow2 by lia. rewrite pow16 by lia.
    assert (Hp : 0 < 16 ^ Z.of_nat (length t)) by (apply Z.pow_pos_nonneg; lia).
    rewrite Z.mod_small by nia.
    replace (4 * Z.of_nat (length t) - 4) with (4 * (Z.of_nat (length t) - 1)) by lia.
    rewrite IH by nia. destruct (hexpos t) as [r|]; simpl; [f_equal; lia|reflexivity].
Qed.

Lemma pow16_le8 n : (n <= 8)%nat -> 16 ^ Z.of_nat n <= W32.
Proof.
  intros H. apply Z.le_trans with (16 ^ 8); [apply Z.pow_le_mono_r; lia|]. unfold W32. vm_compute. discriminate.
Qed.

(* C13_hex: acceptance set, value, range, and nothing but Ok / Err *)
Theorem hex2uint_spec mn mx s v :
  hex2uint mn mx s = Ok v <->
  (1 <= length s <= 8)%nat /\ mn <= mx /\ hexpos s = Some v /\ mn <= v <= mx.
Proof.
  unfold hex2uint.
  destruct (Z.eqb_spec (Z.of_nat (length s)) 0) as [E0|E0]; [split; [discriminate|intros (H & _); lia]|].
  destruct (Z.gtb_spec (Z.of_nat (length s)) 8) as [E8|E8]; [split; [discriminate|intros (H & _); lia]|].
  destruct (Z.gtb_spec mn mx) as [Em|Em]; [split; [discriminate|intros (_ & H & _); lia]|].
  rewrite hexloop_spec by (try lia; simpl; apply pow16_le8; lia).
  destruct (hexpos s) as [r|] eqn:Hr; simpl.
  - replace (0 + r) with r by lia.
    destruct (Z.ltb_spec r mn); [split; [discriminate|intros (_ & _ & H1 & H2); inversion H1; lia]|].
    destruct (Z.gtb_spec r mx); [split; [discriminate|intros (_ & _ & H1 & H2); inversion H1; lia]|].
    split; [intros H1; inversion H1; subst; repeat split; try lia|intros (_ & _ & H1 & _); congruence].
  - split; [discriminate|intros (_ & _ & H & _); discriminate].
Qed.

Theorem hex2uint_total mn mx s : (exists v, hex2uint mn mx s = Ok v) \/ (exists e, hex2uint mn mx s = Err e).
Proof.
  unfold hex2uint.
  destruct (_ =? 0); [right; eauto|]. destruct (_ >? 8); [right; eauto|]. destruct (mn >? mx); [right; eauto|].
  destruct (hexloop _ _ _); [|right; eauto]. destruct (_ <? _); [right; eauto|]. destruct (_ >? _); [right; eauto|left; eauto].
Qed.

Theorem hex2uint_accepts mn mx s :
  (1 <= length s <= 8)%nat -> mn <= mx ->
  ((exists v, hex2uint mn mx s = Ok v \/ hex2uint mn mx s = Err E_LT_MIN \/ hex2uint mn mx s = Err E_GT_MAX)
   <-> Forall is_hexchar s).
Proof.
  intros Hl Hm. rewrite <- hexpos_some_iff. unfold hex2uint.
  destruct (Z.eqb_spec (Z.of_nat (length s)) 0); [lia|]. destruct (Z.gtb_spec (Z.of_nat (length s)) 8); [lia|].
  destruct (Z.gtb_spec mn mx); [lia|].
  rewrite hexloop_spec by (try lia; simpl; apply pow16_le8; lia).
  destruct (hexpos s) as [r|]; simpl.
  - split; [congruence|intros _]. exists r. destruct (_ <? _); [auto|]. destruct (_ >? _); auto.
  - split; [|congruence]. intros (v & [H1|[H2|H3]]); discriminate.
Qed.

(* ================================================================ 2. encoders: lengths and round trips *)
Lemma hexenc_length n v : length (hexenc n v) = n.
Proof. revert v; induction n; intros; simpl; [reflexivity|]. rewrite app_length, IHn. simpl. lia. Qed.

Lemma hexdig_hexchar d : 0 <= d < 16 -> hexdig (hexchar d) = Some d.
Proof.
  intros H. assert (C : d = 0 \/ d = 1 \/ d = 2 \/ d = 3 \/ d = 4 \/ d = 5 \/ d = 6 \/ d = 7 \/ d = 8 \/ d = 9 \/
                         d = 10 \/ d = 11 \/ d = 12 \/ d = 13 \/ d = 14 \/ d = 15) by lia.
  repeat (destruct C as [C|C]; [subst; reflexivity|]). subst; reflexivity.
Qed.

Lemma hexpos_snoc a c : hexpos (a ++ [c]) =
  match hexpos a, hexdig c with Some x, Some d => Some (x * 16 + d) | _, _ => None end.
Proof.
  induction a as [|h t IH]; simpl.
  - destruct (hexdig c); [f_equal; lia|reflexivity].
  - rewrite IH. destruct (hexdig h) as [dh|]; [|reflexivity]. destruct (hexpos t) as [x|]; [|reflexivity].
    destruct (hexdig c) as [d|]; [|reflexivity]. f_equal.
    rewrite app_length. simpl. rewrite Nat2Z.inj_add. simpl. rewrite Z.pow_add_r by lia. lia.
Qed.

Lemma hexpos_hexenc n : forall v, 0 <= v < 16 ^ Z.of_nat n -> hexpos (hexenc n v) = Some v.
Proof.
  induction n as [|n IH]; intros v H.
  - simpl in *. f_equal. lia.
  - cbn [hexenc]. rewrite hexpos_snoc. rewrite Nat2Z.inj_succ, Z.pow_succ_r in H by lia.
    rewrite IH by (split; [apply Z.div_pos; lia|apply Z.div_lt_upper_bound; lia]).
    rewrite hexdig_hexchar by (apply Z.mod_pos_bound; lia). f_equal.
    pose proof (Z.div_mod v 16). lia.
Qed.

Theorem hex_roundtrip n mx v : (1 <= n <= 8)%nat -> 0 <= v < 16 ^ Z.of_nat n -> v <= mx ->
  hex2uint 0 mx (hexenc n v) = Ok v.
Proof.
  intros Hn Hv Hm. apply hex2uint_spec. rewrite hexenc_length. repeat split; try lia. apply hexpos_hexenc; lia.
Qed.

Lemma hex8_rt v mx : 0 <= v < W32 -> v <= mx -> hex2uint 0 mx (hexenc 8 v) = Ok v.
Proof. intros. apply hex_roundtrip; try lia; change (16 ^ Z.of_nat 8) with W32; lia. Qed.
Lemma hex4_rt v mx : 0 <= v < 65536 -> v <= mx -> hex2uint 0 mx (hexenc 4 v) = Ok v.
Proof. intros. apply hex_roundtrip; try lia; change (16 ^ Z.of_nat 4) with 65536; lia. Qed.
Lemma hex2_rt v mx : 0 <= v < 256 -> v <= mx -> hex2uint 0 mx (hexenc 2 v) = Ok v.
Proof. intros. apply hex_roundtrip; try lia; change (16 ^ Z.of_nat 2) with 256; lia. Qed.

(* little-endian integers *)
Lemma le_enc_length n v : length (le_enc n v) = n.
Proof. revert v; induction n; intros; simpl; auto. Qed.
Lemma le_roundtrip n : forall v, 0 <= v < 256 ^ Z.of_nat n -> le_dec (le_enc n v) = v.
Proof.
  induction n as [|n IH]; intros v H.
  - simpl in *. lia.
  - cbn [le_enc le_dec]. rewrite Nat2Z.inj_succ, Z.pow_succ_r in H by lia.
    rewrite IH by (split; [apply Z.div_pos; lia|apply Z.div_lt_upper_bound; lia]).
    pose proof (Z.div_mod v 256). lia.
Qed.
Lemma le_dec_range s : Forall (fun b => 0 <= b < 256) s -> 0 <= le_dec s < 256 ^ Z.of_nat (length s).
Proof.
  induction 1 as [|b t Hb Ht IH]; [simpl; lia|].
  cbn [le_dec]. change (length (b :: t)) with (S (length t)). rewrite Nat2Z.inj_succ, Z.pow_succ_r by lia. lia.
Qed.

Definition fmt_ok (fmt : Z) : Prop := fmt = 76 \/ fmt = 66 \/ fmt = 67.

Lemma conv_int_enc_length fmt n v : length (conv_int_enc fmt n v) = n.
Proof. unfold conv_int_enc. destruct (_ || _); [rewrite rev_length|]; apply le_enc_length. Qed.

Lemma conv_int_roundtrip fmt n v : fmt_ok fmt -> 0 <= v < 256 ^ Z.of_nat n ->
  conv_int fmt (conv_int_enc fmt n v) = Ok v.
Proof.
  intros [F|[F|F]] H; subst; unfold conv_int, conv_int_enc, conv_mode; simpl; rewrite ?rev_involutive, le_roundtrip; auto.
Qed.

(* slicing an append *)
Lemma sub_app_hit (a b : bytes) n : length a = n -> sub (a ++ b) 0 n = a.
Proof. intros <-. unfold sub. simpl. rewrite firstn_app, Nat.sub_diag, firstn_all. simpl. apply app_nil_r. Qed.
Lemma sub_app_skip (a b : bytes) n off len : length a = n -> (n <= off)%nat -> sub (a ++ b) off len = sub b (off - n) len.
Proof.
  intros <- H. unfold sub. rewrite skipn_app. rewrite skipn_all2 by lia. reflexivity.
Qed.
Lemma sub_all (a : bytes) n : length a = n -> sub a 0 n = a.
Proof. intros <-. unfold sub. simpl. apply firstn_all. Qed.
Lemma skipn_app_skip (a b : bytes) n off : length a = n -> (n <= off)%nat -> skipn off (a ++ b) = skipn (off - n) b.
Proof. intros <- H. rewrite skipn_app. rewrite skipn_all2 by lia. reflexivity. Qed.
Lemma firstn_app_hit (a b : bytes) n : length a = n -> firstn n (a ++ b) = a.
Proof. intros <-. rewrite firstn_app, Nat.sub_diag, firstn_all. simpl. apply app_nil_r. Qed.
Lemma skipn_app_hit (a b : bytes) n : length a = n -> skipn n (a ++ b) = b.
Proof. intros <-. rewrite skipn_app, skipn_all, Nat.sub_diag. reflexivity. Qed.

(* disk pointers *)
Definition ptr_ok (a : fattr) (p : ptr) : Prop :=
  if fa_old a then 0 <= fst p < W32 /\ 0 <= snd p <= BLK
  else fmt_ok (fa_fmt a) /\ 0 <= fst p < W64 /\ 0 <= snd p < W32.

Lemma dp_enc_length a p : length (dp_enc a p) = 12%nat.
Proof.
  unfold dp_enc, dp_to_hex. destruct (fa_old a); rewrite app_length, ?hexenc_length, ?conv_int_enc_length; reflexivity.
Qed.

Theorem dp_roundtrip a p : ptr_ok a p -> dp_dec a (dp_enc a p) = Ok p.
Proof.
  unfold ptr_ok, dp_dec, dp_enc, dp_from_hex, dp_to_hex. destruct p as [b o]. simpl fst; simpl snd.
  destruct (fa_old a); intros H.
  - destruct H as [Hb Ho].
    rewrite sub_app_hit by apply hexenc_length.
    rewrite (sub_app_skip _ _ 8) by (try apply hexenc_length; lia). simpl (8 - 8)%nat.
    rewrite sub_all by apply hexenc_length.
    rewrite hex8_rt by lia. cbn [bind].
    rewrite hex4_rt by (unfold BLK in *; lia). reflexivity.
  - destruct H as (Hf & Hb & Ho).
    rewrite sub_app_hit by apply conv_int_enc_length.
    rewrite (sub_app_skip _ _ 8) by (try apply conv_int_enc_length; lia). simpl (8 - 8)%nat.
    rewrite sub_all by apply conv_int_enc_length.
    rewrite conv_int_roundtrip by (auto; change (256 ^ Z.of_nat 8) with W64; lia). cbn [bind].
    rewrite conv_int_roundtrip by (auto; change (256 ^ Z.of_nat 4) with W32; lia). reflexivity.
Qed.

(* ================================================================ 3. structure round trips *)
Ltac slice1 :=
  match goal with
  | H : length ?a = ?k |- context [sub (?a ++ ?b) 0 ?k] => rewrite (sub_app_hit a b k H)
  | H : length ?a = ?k |- context [sub (?a ++ ?b) ?off ?len] =>
      rewrite (sub_app_skip a b k off len H) by lia; simpl (off - k)%nat
  | H : length ?a = ?k |- context [skipn ?off (?a ++ ?b)] =>
      rewrite (skipn_app_skip a b k off H) by lia; simpl (off - k)%nat
  | H : length ?a = ?k |- context [sub ?a 0 ?k] => rewrite (sub_all a k H)
  end.

Lemma hex_fields_flat w mx : (1 <= w <= 8)%nat -> forall vs, Forall (fun v => 0 <= v < 16 ^ Z.of_nat w /\ v <= mx) vs ->
  hex_fields (flat_map (hexenc w) vs) w (length vs) mx = Ok vs.
Proof.
  intros Hw. induction 1 as [|v t [Hv Hm] Ht IH]; [reflexivity|].
  cbn [flat_map length hex_fields]. rewrite firstn_app_hit by apply hexenc_length.
  rewrite hex_roundtrip by lia. cbn [bind]. rewrite skipn_app_hit by apply hexenc_length. rewrite IH. reflexivity.
Qed.

Lemma int_fields_flat fmt w : fmt_ok fmt -> forall vs, Forall (fun v => 0 <= v < 256 ^ Z.of_nat w) vs ->
  int_fields fmt (flat_map (conv_int_enc fmt w) vs) w (length vs) = Ok vs.
Proof.
  intros Hf. induction 1 as [|v t Hv Ht IH]; [reflexivity|].
  cbn [flat_map length int_fields]. rewrite firstn_app_hit by apply conv_int_enc_length.
  rewrite conv_int_roundtrip by auto. cbn [bind]. rewrite skipn_app_hit by apply conv_int_enc_length. rewrite IH. reflexivity.
Qed.

Lemma flat_map_length_const {A} (f : A -> bytes) k l : (forall x, length (f x) = k) -> length (flat_map f l) = (k * length l)%nat.
Proof. intros H. induction l; simpl; [lia|]. rewrite app_length, H, IHl. lia. Qed.

Lemma tagscan_NoDe r : tagscan (tag_NoDe ++ r) tag_NoDe = Ok true. Proof. reflexivity. Qed.
Lemma tagscan_TaiL : tagscan tag_TaiL tag_TaiL = Ok true. Proof. reflexivity. Qed.
Lemma tagscan_fCbt r : tagscan (tag_fCbt ++ r) tag_fCbt = Ok true. Proof. reflexivity. Qed.
Lemma tagscan_Fcte : tagscan tag_Fcte tag_Fcte = Ok true. Proof. reflexivity. Qed.

Definition str32 (s : bytes) : Prop := length s = 32%nat /\ cstrn s = s.

Definition nh_ok (a : fattr) (h : node_header) : Prop :=
  str32 (nh_name h) /\ str32 (nh_label h) /\ str32 (nh_dtype h) /\
  0 <= nh_nsub h < W32 /\ 0 <= nh_entries h < W32 /\ ptr_ok a (nh_snt h) /\
  0 <= nh_ndims h <= 12 /\ length (nh_dims h) = 12%nat /\
  Forall (fun d => 0 <= d < (if fa_old a then W32 else W64)) (nh_dims h) /\
  0 <= nh_nchunks h <= 65535 /\ ptr_ok a (nh_data h).

Lemma enc_dims_length a dims : length dims = 12%nat -> length (enc_dims a dims) = 96%nat.
Proof.
  intros H. unfold enc_dims. destruct (fa_old a).
  - rewrite (flat_map_length_const _ 8) by apply hexenc_length. lia.
  - rewrite (flat_map_length_const _ 8) by (intros; apply conv_int_enc_length). lia.
Qed.

Theorem node_header_roundtrip a h : nh_ok a h -> dec_node_header a (enc_node_header a h) = Ok h.
Proof.
  intros ((Ln & Cn) & (Ll & Cl) & (Lt & Ct) & Hs & He & Hp1 & Hnd & Ld & Fd & Hc & Hp2).
  unfold dec_node_header, enc_node_header.
  assert (LT0 : length tag_NoDe = 4%nat) by reflexivity. assert (LT1 : length tag_TaiL = 4%nat) by reflexivity.
  pose proof (hexenc_length 8 (nh_nsub h)) as L1. pose proof (hexenc_length 8 (nh_entries h)) as L2.
  pose proof (dp_enc_length a (nh_snt h)) as L3. pose proof (hexenc_length 2 (nh_ndims h)) as L4.
  pose proof (enc_dims_length a _ Ld) as L5. pose proof (hexenc_length 4 (nh_nchunks h)) as L6.
  pose proof (dp_enc_length a (nh_data h)) as L7.
  rewrite tagscan_NoDe. cbn [bind negb].
  repeat slice1.
  change (skipn 0 tag_TaiL) with tag_TaiL. rewrite tagscan_TaiL. cbn [bind negb].
  rewrite hex8_rt by lia. cbn [bind]. rewrite hex8_rt by lia. cbn [bind].
  rewrite dp_roundtrip by assumption. cbn [bind].
  rewrite hex2_rt by lia. cbn [bind].
  assert (Hdims : (if fa_old a then hex_fields (enc_dims a (nh_dims h)) 8 12 (W32 - 1)
                   else int_fields (fa_fmt a) (enc_dims a (nh_dims h)) 8 12) = Ok (nh_dims h)).
  { unfold enc_dims. rewrite <- Ld. destruct (fa_old a) eqn:Eo.
    - apply hex_fields_flat; [lia|]. eapply Forall_impl; [|exact Fd]. cbn beta. intros d Hd.
      change (16 ^ Z.of_nat 8) with W32. lia.
    - apply int_fields_flat; [unfold ptr_ok in Hp1; rewrite Eo in Hp1; tauto|].
      eapply Forall_impl; [|exact Fd]. cbn beta. intros d Hd. change (256 ^ Z.of_nat 8) with W64. lia. }
  rewrite Hdims. cbn [bind].
  rewrite hex4_rt by lia. cbn [bind]. rewrite dp_roundtrip by assumption. cbn [bind].
  rewrite Cn, Cl, Ct. destruct h; reflexivity.
Qed.

(* sub-node table entry *)
Theorem snt_entry_roundtrip a nm p : str32 nm -> ptr_ok a p -> dec_snt_entry a (enc_snt_entry a (nm, p)) = Ok (nm, p).
Proof.
  intros (Ln & Cn) Hp. unfold dec_snt_entry, enc_snt_entry. cbn [fst snd].
  pose proof (dp_enc_length a p) as L1. repeat slice1.
  rewrite dp_roundtrip by assumption. cbn [bind]. rewrite Cn. reflexivity.
Qed.

(* free-chunk table *)
Lemma dp_fields_flat a : forall ps, Forall (ptr_ok a) ps -> dp_fields a (flat_map (dp_enc a) ps) (length ps) = Ok ps.
Proof.
  induction 1 as [|p t Hp Ht IH]; [reflexivity|].
  cbn [flat_map length dp_fields]. rewrite firstn_app_hit by apply dp_enc_length.
  rewrite dp_roundtrip by assumption. cbn [bind]. rewrite skipn_app_hit by apply dp_enc_length. rewrite IH. reflexivity.
Qed.

Theorem fct_roundtrip a ps : length ps = 6%nat -> Forall (ptr_ok a) ps -> dec_fct a (enc_fct a ps) = Ok ps.
Proof.
  intros L F. unfold dec_fct, enc_fct.
  assert (LT0 : length tag_fCbt = 4%nat) by reflexivity. assert (LT1 : length tag_Fcte = 4%nat) by reflexivity.
  assert (LP : length (flat_map (dp_enc a) ps) = 72%nat)
    by (rewrite (flat_map_length_const _ 12) by apply dp_enc_length; lia).
  rewrite tagscan_fCbt. cbn [bind negb].
  repeat slice1.
  change (skipn 0 tag_Fcte) with tag_Fcte. rewrite tagscan_Fcte. cbn [bind negb].
  rewrite <- L. apply dp_fields_flat; assumption.
Qed.

(* file header *)
Lemma beq_refl a : beq a a = true.
Proof. unfold beq. destruct (list_eq_dec Z.eq_dec a a); congruence. Qed.
Lemma beq_true a b : beq a b = true -> a = b.
Proof. unfold beq. destruct (list_eq_dec Z.eq_dec a b); congruence. Qed.

Definition fh_ok (a : fattr) (h : file_header) : Prop :=
  (length (fh_what h) = 32%nat /\ cstrn (fh_what h) = fh_what h) /\
  (length (fh_cdate h) = 28%nat /\ cstrn (fh_cdate h) = fh_cdate h) /\
  (length (fh_mdate h) = 28%nat /\ cstrn (fh_mdate h) = fh_mdate h) /\
  fa_fmt a <> 0 /\ fa_os a <> 0 /\
  length (fh_sizes h) = 12%nat /\ Forall (fun v => 0 <= v < 256) (fh_sizes h) /\
  ptr_ok a (fh_root h) /\ ptr_ok a (fh_eof h) /\ ptr_ok a (fh_free h) /\ ptr_ok a (fh_extra h).

Ltac nth1 :=
  match goal with
  | H : length ?a = ?k |- context [nth ?i (?a ++ ?b) ?d] =>
      rewrite (app_nth2 a b d) by (rewrite H; lia); rewrite H; simpl (i - k)%nat
  end.

Theorem file_header_roundtrip a h : fh_ok a h -> dec_file_header a (enc_file_header a h) = Ok h.
Proof.
  intros ((Lw & Cw) & (Lc & Cc) & (Lm & Cm) & Hf & Ho & Ls & Fs & P1 & P2 & P3 & P4).
  unfold dec_file_header, enc_file_header, header_tags_ok.
  assert (LT0 : length (tag_AdF 0) = 4%nat) by reflexivity. assert (LT1 : length (tag_AdF 1) = 4%nat) by reflexivity.
  assert (LT2 : length (tag_AdF 2) = 4%nat) by reflexivity. assert (LT3 : length (tag_AdF 3) = 4%nat) by reflexivity.
  assert (LT4 : length (tag_AdF 4) = 4%nat) by reflexivity. assert (LT5 : length (tag_AdF 5) = 4%nat) by reflexivity.
  assert (LF : length [fh_fmt h; fh_os h] = 2%nat) by reflexivity.
  assert (LS : length (flat_map (hexenc 2) (fh_sizes h)) = 24%nat)
    by (rewrite (flat_map_length_const _ 2) by apply hexenc_length; lia).
  pose proof (dp_enc_length a (fh_root h)) as L1. pose proof (dp_enc_length a (fh_eof h)) as L2.
  pose proof (dp_enc_length a (fh_free h)) as L3. pose proof (dp_enc_length a (fh_extra h)) as L4.
  repeat slice1. repeat nth1. cbn [nth].
  rewrite !beq_refl. cbn [andb negb].
  destruct (Z.eqb_spec (fa_fmt a) 0); [contradiction|]. destruct (Z.eqb_spec (fa_os a) 0); [contradiction|]. cbn [orb].
  rewrite <- Ls at 1. rewrite hex_fields_flat
    by (first [lia | eapply Forall_impl; [|exact Fs]; cbn beta; intros v Hv; change (16 ^ Z.of_nat 2) with 256; lia]).
  cbn [bind]. rewrite !dp_roundtrip by assumption. cbn [bind].
  rewrite Cw, Cc, Cm. destruct h; reflexivity.
Qed.

(* ================================================================ 4. soundness of the decoders *)
Definition bytes_ok (d : bytes) : Prop := Forall (fun b => 0 <= b < 256) d.

Lemma bind_ok {A B} (x : out A) (f : A -> out B) b : bind x f = Ok b -> exists a, x = Ok a /\ f a = Ok b.
Proof. destruct x; simpl; intros H; try discriminate. eauto. Qed.

Lemma hex2uint_ok_range mn mx s v : hex2uint mn mx s = Ok v -> mn <= v <= mx /\ 0 <= v < 16 ^ Z.of_nat (length s) /\ Forall is_hexchar s.
Proof.
  intros H. apply hex2uint_spec in H. destruct H as (Hl & Hm & Hp & Hr). repeat split; try lia.
  - apply hexpos_range in Hp; lia.
  - apply hexpos_range in Hp; lia.
  - apply hexpos_some_iff. congruence.
Qed.

Lemma sub_length_le (d : bytes) off len : (length (sub d off len) <= len)%nat.
Proof. unfold sub. rewrite firstn_length. lia. Qed.
Lemma bytes_ok_sub d off len : bytes_ok d -> bytes_ok (sub d off len).
Proof.
  unfold bytes_ok, sub. intros H. apply Forall_forall. intros x Hx.
  assert (FI : forall (l : bytes) n y, In y (firstn n l) -> In y l).
  { induction l; intros [|n] y Hy; simpl in *; try contradiction. destruct Hy; [auto|right; eauto]. }
  apply FI in Hx. rewrite Forall_forall in H. apply H. clear H.
  revert d Hx. induction off; intros d Hx; simpl in *; auto. destruct d; simpl in *; [contradiction|]. right. auto.
Qed.
Lemma bytes_ok_rev d : bytes_ok d -> bytes_ok (rev d).
Proof. unfold bytes_ok. intros. apply Forall_rev. assumption. Qed.

Lemma conv_int_ok_range fmt s v : bytes_ok s -> conv_int fmt s = Ok v -> fmt_ok fmt /\ 0 <= v < 256 ^ Z.of_nat (length s).
Proof.
  unfold conv_int, conv_mode, fmt_ok. intros Hs H.
  destruct (Z.eqb_spec fmt 78); [discriminate|]. destruct (Z.eqb_spec fmt 76).
  - simpl in H. inversion H; subst. split; [auto|]. apply le_dec_range. assumption.
  - destruct (Z.eqb_spec fmt 66); destruct (Z.eqb_spec fmt 67); simpl in H; try discriminate;
      (inversion H; subst; split; [auto|]; rewrite <- (rev_length s); apply le_dec_range; apply bytes_ok_rev; assumption).
Qed.

(* a decoded disk pointer is within the declared range of its format *)
Theorem dp_dec_sound a s p : bytes_ok s -> dp_dec a s = Ok p ->
  if fa_old a then 0 <= fst p < W32 /\ 0 <= snd p <= BLK /\ Forall is_hexchar (sub s 0 8) /\ Forall is_hexchar (sub s 8 4)
  else fmt_ok (fa_fmt a) /\ 0 <= fst p < W64 /\ 0 <= snd p < W32.
Proof.
  intros Hs. unfold dp_dec, dp_from_hex. destruct (fa_old a); intros H.
  - apply bind_ok in H. destruct H as (b & Hb & H). apply bind_ok in H. destruct H as (o & Ho & H). inversion H; subst.
    apply hex2uint_ok_range in Hb. apply hex2uint_ok_range in Ho. simpl. unfold W32, BLK in *. repeat split; try lia; tauto.
  - apply bind_ok in H. destruct H as (b & Hb & H). apply bind_ok in H. destruct H as (o & Ho & H). inversion H; subst.
    apply conv_int_ok_range in Hb; [|apply bytes_ok_sub; assumption].
    apply conv_int_ok_range in Ho; [|apply bytes_ok_sub; assumption].
    destruct Hb as (Hf & Hb). destruct Ho as (_ & Ho). simpl.
    pose proof (sub_length_le s 0 8). pose proof (sub_length_le s 8 4).
    assert (256 ^ Z.of_nat (length (sub s 0 8)) <= W64)
      by (change W64 with (256 ^ 8); apply Z.pow_le_mono_r; lia).
    assert (256 ^ Z.of_nat (length (sub s 8 4)) <= W32)
      by (change W32 with (256 ^ 4); apply Z.pow_le_mono_r; lia).
    repeat split; try lia; assumption.
Qed.

(* C13_decode_total_sound, node header: acceptance implies both boundary tags matched (case-insensitively, at
   position 0 -- what ADFI_stridx_c(..) == 0 means), every hex field is made of hex digits, and every value is
   inside its declared range *)
Theorem node_header_sound a d h : dec_node_header a d = Ok h ->
  tagscan d tag_NoDe = Ok true /\ tagscan (skipn 242 d) tag_TaiL = Ok true /\
  0 <= nh_nsub h < W32 /\ 0 <= nh_entries h < W32 /\ 0 <= nh_ndims h <= 12 /\ 0 <= nh_nchunks h <= 65535 /\
  Forall is_hexchar (sub d 68 8) /\ Forall is_hexchar (sub d 76 8) /\ Forall is_hexchar (sub d 128 2) /\
  Forall is_hexchar (sub d 226 4) /\
  dp_dec a (sub d 84 12) = Ok (nh_snt h) /\ dp_dec a (sub d 230 12) = Ok (nh_data h).
Proof.
  unfold dec_node_header. intros H.
  apply bind_ok in H. destruct H as (s & Hs & H). destruct s; [|discriminate]. cbn [negb] in H.
  apply bind_ok in H. destruct H as (e & He & H). destruct e; [|discriminate]. cbn [negb] in H.
  apply bind_ok in H. destruct H as (nsub & H1 & H). apply bind_ok in H. destruct H as (ent & H2 & H).
  apply bind_ok in H. destruct H as (snt & H3 & H). apply bind_ok in H. destruct H as (nd & H4 & H).
  apply bind_ok in H. destruct H as (dims & H5 & H). apply bind_ok in H. destruct H as (nch & H6 & H).
  apply bind_ok in H. destruct H as (dc & H7 & H). inversion H; subst; clear H. cbn.
  apply hex2uint_ok_range in H1, H2, H4, H6. unfold W32 in *.
  repeat split; try lia; try tauto.
Qed.

Theorem node_header_total a d : (exists h, dec_node_header a d = Ok h) \/ (exists e, dec_node_header a d = Err e) \/
  dec_node_header a d = OOBR 5.
Proof.
  assert (T : forall t tag f, (exists b, tagscan_from t tag f = Ok b) \/ tagscan_from t tag f = OOBR 5).
  { induction t as [|x t IH]; intros tag f; simpl; [auto|]. destruct (x =? 0); [left; eauto|].
    destruct (pref (x :: t) tag) as [[|]|]; [left; eauto|apply IH|auto]. }
  assert (HX : forall mn mx s, (exists v, hex2uint mn mx s = Ok v) \/ (exists e, hex2uint mn mx s = Err e))
    by (intros; apply hex2uint_total).
  assert (CI : forall fmt s, (exists v, conv_int fmt s = Ok v) \/ (exists e, conv_int fmt s = Err e)).
  { intros fmt s. unfold conv_int, conv_mode. destruct (fmt =? 78); [right; simpl; eauto|].
    destruct (fmt =? 76); [left; simpl; eauto|].
    destruct ((fmt =? 66) || (fmt =? 67)); [left; simpl; eauto|right; simpl; eauto]. }
  assert (DP : forall s, (exists p, dp_dec a s = Ok p) \/ (exists e, dp_dec a s = Err e)).
  { intros. unfold dp_dec, dp_from_hex. destruct (fa_old a).
    - destruct (HX 0 (W32 - 1) (sub s 0 8)) as [(v & ->)|(e & ->)]; simpl; [|right; eauto].
      destruct (HX 0 BLK (sub s 8 4)) as [(v2 & ->)|(e & ->)]; simpl; [left|right]; eauto.
    - destruct (CI (fa_fmt a) (sub s 0 8)) as [(v & ->)|(e & ->)]; simpl; [|right; eauto].
      destruct (CI (fa_fmt a) (sub s 8 4)) as [(v2 & ->)|(e & ->)]; simpl; [left|right]; eauto. }
  assert (HF : forall n s w mx, (exists v, hex_fields s w n mx = Ok v) \/ (exists e, hex_fields s w n mx = Err e)).
  { induction n; intros; simpl; [left; eauto|].
    destruct (HX 0 mx (firstn w s)) as [(v & ->)|(e & ->)]; simpl; [|right; eauto].
    destruct (IHn (skipn w s) w mx) as [(v2 & ->)|(e & ->)]; simpl; [left|right]; eauto. }
  assert (IF : forall n fmt s w, (exists v, int_fields fmt s w n = Ok v) \/ (exists e, int_fields fmt s w n = Err e)).
  { induction n; intros; simpl; [left; eauto|].
    destruct (CI fmt (firstn w s)) as [(v & ->)|(e & ->)]; simpl; [|right; eauto].
    destruct (IHn fmt (skipn w s) w) as [(v2 & ->)|(e & ->)]; simpl; [left|right]; eauto. }
  unfold dec_node_header, tagscan.
  destruct (T d tag_NoDe true) as [(b & ->)| ->]; [|auto]. cbn [bind]. destruct b; cbn [negb]; [|right; left; eauto].
  destruct (T (skipn 242 d) tag_TaiL true) as [(b & ->)| ->]; [|auto]. cbn [bind]. destruct b; cbn [negb]; [|right; left; eauto].
  destruct (HX 0 (W32 - 1) (sub d 68 8)) as [(v1 & ->)|(e & ->)]; cbn [bind]; [|right; left; eauto].
  destruct (HX 0 (W32 - 1) (sub d 76 8)) as [(v2 & ->)|(e & ->)]; cbn [bind]; [|right; left; eauto].
  destruct (DP (sub d 84 12)) as [(p1 & ->)|(e & ->)]; cbn [bind]; [|right; left; eauto].
  destruct (HX 0 12 (sub d 128 2)) as [(v3 & ->)|(e & ->)]; cbn [bind]; [|right; left; eauto].
  assert (DM : (exists v, (if fa_old a then hex_fields (sub d 130 96) 8 12 (W32 - 1)
                            else int_fields (fa_fmt a) (sub d 130 96) 8 12) = Ok v) \/
               (exists e, (if fa_old a then hex_fields (sub d 130 96) 8 12 (W32 - 1)
                            else int_fields (fa_fmt a) (sub d 130 96) 8 12) = Err e))
    by (destruct (fa_old a); [apply HF|apply IF]).
  destruct DM as [(dm & ->)|(e & ->)]; cbn [bind]; [|right; left; eauto].
  destruct (HX 0 65535 (sub d 226 4)) as [(v4 & ->)|(e & ->)]; cbn [bind]; [|right; left; eauto].
  destruct (DP (sub d 230 12)) as [(p2 & ->)|(e & ->)]; cbn [bind]; [|right; left; eauto].
  left; eauto.
Qed.

(* file header: acceptance implies the six tags are exactly "AdF0".."AdF5" and the sizes are bytes *)
Theorem file_header_sound a d h : dec_file_header a d = Ok h ->
  sub d 32 4 = tag_AdF 0 /\ sub d 64 4 = tag_AdF 1 /\ sub d 96 4 = tag_AdF 2 /\ sub d 102 4 = tag_AdF 3 /\
  sub d 130 4 = tag_AdF 4 /\ sub d 182 4 = tag_AdF 5 /\ fa_fmt a <> 0 /\ fa_os a <> 0 /\
  dp_dec a (sub d 134 12) = Ok (fh_root h).
Proof.
  unfold dec_file_header, header_tags_ok. intros H.
  destruct (beq (sub d 32 4) (tag_AdF 0)) eqn:T0; [|discriminate].
  destruct (beq (sub d 64 4) (tag_AdF 1)) eqn:T1; [|discriminate].
  destruct (beq (sub d 96 4) (tag_AdF 2)) eqn:T2; [|discriminate].
  destruct (beq (sub d 102 4) (tag_AdF 3)) eqn:T3; [|discriminate].
  destruct (beq (sub d 130 4) (tag_AdF 4)) eqn:T4; [|discriminate].
  destruct (beq (sub d 182 4) (tag_AdF 5)) eqn:T5; [|discriminate]. cbn [andb negb] in H.
  destruct (Z.eqb_spec (fa_fmt a) 0); [discriminate|]. destruct (Z.eqb_spec (fa_os a) 0); [discriminate|]. cbn [orb] in H.
  apply bind_ok in H. destruct H as (sz & _ & H). apply bind_ok in H. destruct H as (r & Hr & H).
  apply bind_ok in H. destruct H as (e & _ & H). apply bind_ok in H. destruct H as (f & _ & H).
  apply bind_ok in H. destruct H as (x & _ & H). inversion H; subst. cbn.
  repeat split; auto using beq_true.
Qed.

(* ================================================================ 5. refutations by witness (AdfWalk.wit_* files) *)
Definition on_open {P : Type} (bs : bytes) (k : fstate -> ptr -> P) (d : P) : P :=
  match database_open bs with Ok (f, r) => k f r | _ => d end.

(* the valid witness: opens, both children are found, the walk is clean *)
Lemma wit_valid_ok :
  on_open wit_valid (fun f r => check_4_child_name f r [66] = Ok (Some (0, 1130)) /\
                                 get_node_id LINK_FUEL f r [66] = Ok (0, 1130)) False /\
  forallb (fun e => match e with EvG r => clean r | EvN _ r => clean r | EvFuel => false | _ => true end)
          (walk_events (walk 10 wit_valid)) = true.
Proof. vm_compute. repeat split; reflexivity. Qed.

(* section 6 #12: same file, header field entries_for_sub_nodes 00000008 -> 00000002 *)
Lemma wit_oobw_is_one_field : wit_oobw = firstn 342 wit_valid ++ hexenc 8 2 ++ skipn 350 wit_valid.
Proof. vm_compute. reflexivity. Qed.

Theorem oob_write_refuted :
  exists bs, on_open bs (fun f r => check_4_child_name f r [66] = OOBW 1 /\
                                    get_node_id LINK_FUEL f r [66] = OOBW 1) False.
Proof. exists wit_oobw. vm_compute. split; reflexivity. Qed.

Theorem oob_read_refuted :
  exists bs, on_open bs (fun f r => check_4_child_name f r [66] = OOBR 1) False.
Proof. exists wit_oobr. vm_compute. reflexivity. Qed.

Theorem link_buffer_refuted :
  exists bs, on_open bs (fun f r => get_link_path f (0, 884) 5200 5200 = OOBW 3 /\
                                    match chase_link f (0, 884) with OOBW 3 => True | _ => False end) False.
Proof. exists wit_biglink. vm_compute. split; [reflexivity|exact I]. Qed.

Theorem link_recursion_refuted :
  exists bs, on_open bs (fun f r => get_node_id LINK_FUEL f r [76] = Ok (0, 884) /\
                                    match chase_link f (0, 884) with OutOfFuel => True | _ => False end) False.
Proof. exists wit_linkrec. vm_compute. split; [reflexivity|exact I]. Qed.

Theorem abort_refuted : exists bs, database_open bs = Abort.
Proof. exists wit_abort. vm_compute. reflexivity. Qed.

Theorem tagscan_refuted : exists bs, on_open bs (fun f r => match read_node_header f r with OOBR 5 => True | _ => False end) False.
Proof. exists wit_tagscan. vm_compute. exact I. Qed.

Theorem stale_refuted : exists bs, on_open bs (fun f r => match read_node_header f r with Stale => True | _ => False end) False.
Proof. exists wit_stale. vm_compute. exact I. Qed.

(* a child pointer redirected to an ancestor: the walk runs out of fuel whatever the fuel *)
Definition cyc_f : fstate := on_open wit_cycle (fun f _ => f) (mkfile []).
Definition cyc_root : ptr := (0, 266).

Lemma cyc_gni : get_node_id LINK_FUEL cyc_f cyc_root [65] = Ok cyc_root.
Proof. vm_compute. reflexivity. Qed.
Lemma cyc_visit d : snd (visit cyc_f cyc_root d) = Some [(cyc_root, [65], d + 1); (cyc_root, [66], d + 1)].
Proof. vm_compute. reflexivity. Qed.

Lemma last_cons_app {A} (a : A) l1 l2 d : l2 <> [] -> last (a :: l1 ++ l2) d = last l2 d.
Proof.
  intros H. change (a :: l1 ++ l2) with ((a :: l1) ++ l2). generalize (a :: l1). clear a l1.
  induction l as [|x l IH]; simpl; [reflexivity|].
  destruct (l ++ l2) eqn:E; [apply app_eq_nil in E; destruct E; contradiction|]. exact IH.
Qed.

Lemma last_nonnil {A} (l : list A) d x : last l d = x -> x <> d -> l <> [].
Proof. intros H Hx Hl. subst l. simpl in H. congruence. Qed.

Lemma cyc_loop : forall n d rest, last (walk_loop n cyc_f ((cyc_root, [65], d) :: rest)) (EvD 0) = EvFuel.
Proof.
  induction n as [|n IH]; intros d rest; [reflexivity|].
  cbn [walk_loop]. rewrite cyc_gni. destruct (visit cyc_f cyc_root d) as [evs k] eqn:E.
  pose proof (cyc_visit d) as Hk. rewrite E in Hk. simpl in Hk. subst k.
  change ([(cyc_root, [65], d + 1); (cyc_root, [66], d + 1)] ++ rest)
    with ((cyc_root, [65], d + 1) :: (cyc_root, [66], d + 1) :: rest).
  pose proof (IH (d + 1) ((cyc_root, [66], d + 1) :: rest)) as HW.
  rewrite last_cons_app; [exact HW|]. eapply last_nonnil; [exact HW|discriminate].
Qed.

Theorem cycle_refuted : exists bs, forall n, last (walk_events (walk n bs)) (EvD 0) = EvFuel.
Proof.
  exists wit_cycle. intros n. unfold walk.
  assert (Ho : database_open wit_cycle = Ok (cyc_f, cyc_root)) by (vm_compute; reflexivity).
  rewrite Ho. destruct (visit cyc_f cyc_root 0) as [evs k] eqn:E.
  pose proof (cyc_visit 0) as Hk. rewrite E in Hk. simpl in Hk. subst k. cbn [walk_events].
  pose proof (cyc_loop n 1 [(cyc_root, [66], 1)]) as HL.
  destruct evs as [|e evs]; [exact HL|].
  change ((e :: evs) ++ ?x) with (e :: evs ++ x).
  rewrite last_cons_app; [exact HL|]. eapply last_nonnil; [exact HL|discriminate].
Qed.

(* ================================================================ 6. the proposed repair closes site 1 for EVERY file *)
(* [safe1 r]: r is not a memory error, except possibly the tag-scan over-read (site 5), which the repair of
   ADFI_read_sub_node_table does not address *)
Definition safe1 {A} (r : out A) : Prop :=
  match r with OOBW _ => False | OOBR s => s = 5 | Uninit => False | _ => True end.

Lemma bind_safe1 {A B} (x : out A) (f : A -> out B) : safe1 x -> (forall a, safe1 (f a)) -> safe1 (bind x f).
Proof. destruct x; simpl; auto; try contradiction. Qed.
Lemma recast_safe1 {A B} (r : out A) : safe1 r -> safe1 (@recast A B r).
Proof. destruct r; simpl; auto. Qed.

Lemma hex2uint_safe1 mn mx s : safe1 (hex2uint mn mx s).
Proof. destruct (hex2uint_total mn mx s) as [(v & ->)|(e & ->)]; exact I. Qed.
Lemma adjust_safe1 p : safe1 (adjust p).
Proof. unfold adjust. destruct p as [b o]. destruct (_ <? _); [exact I|]. destruct (_ <? _); exact I. Qed.
Lemma conv_int_safe1 fmt s : safe1 (conv_int fmt s).
Proof.
  unfold conv_int, conv_mode. destruct (fmt =? 78); [exact I|]. destruct (fmt =? 76); [exact I|].
  destruct ((fmt =? 66) || (fmt =? 67)); exact I.
Qed.
Lemma dp_dec_safe1 a s : safe1 (dp_dec a s).
Proof.
  unfold dp_dec, dp_from_hex. destruct (fa_old a).
  - apply bind_safe1; [apply hex2uint_safe1|intros]. apply bind_safe1; [apply hex2uint_safe1|intros; exact I].
  - apply bind_safe1; [apply conv_int_safe1|intros]. apply bind_safe1; [apply conv_int_safe1|intros; exact I].
Qed.
Lemma read_file_safe1 f p len : 0 <= len -> safe1 (read_file f p len).
Proof.
  intros H. unfold read_file. destruct p as [b o].
  destruct (_ >? BLK).
  - destruct (_ >=? _); [exact I|]. destruct (Z.ltb_spec len 0); [exact I|]. destruct (_ =? _); [exact I|].
    destruct (_ <=? _); exact I.
  - destruct (_ >=? _); [exact I|]. destruct (_ <=? 0); [exact I|]. destruct (Z.ltb_spec len 0); [lia|].
    destruct (_ =? _); [exact I|]. destruct (_ <=? _); exact I.
Qed.
Lemma rdpfd_safe1 f p : safe1 (rdpfd f p).
Proof.
  unfold rdpfd. destruct (_ >? _); [exact I|]. apply bind_safe1; [apply read_file_safe1; lia|intros; apply dp_dec_safe1].
Qed.
Lemma dec_node_header_safe1 a d : safe1 (dec_node_header a d).
Proof. destruct (node_header_total a d) as [(h & ->)|[(e & ->)| ->]]; simpl; auto. Qed.
Lemma read_node_header_safe1 f p : safe1 (read_node_header f p).
Proof. unfold read_node_header. apply bind_safe1; [apply read_file_safe1; lia|intros; apply dec_node_header_safe1]. Qed.

Lemma loopN_safe1 {S A} (step : S -> S + out A) :
  (forall s r, step s = inr r -> safe1 r) -> forall n s, safe1 (of_loop (loopN step n s)).
Proof.
  intros H. induction n as [|n IH]; intros s; simpl; [exact I|].
  destruct (step s) as [s'|r] eqn:E; [apply IH|]. simpl. eapply H; eauto.
Qed.

Lemma zstep_safe1 f s r : zstep f s = inr r -> safe1 r.
Proof.
  unfold zstep. destruct s as [count cur].
  pose proof (adjust_safe1 (fst cur, snd cur + 1)) as HA.
  destruct (adjust (fst cur, snd cur + 1)) as [cur'| | | | | | | | |] eqn:EA; intros H; try (inversion H; subst; simpl in *; auto; fail).
  pose proof (read_file_safe1 f cur' 1 ltac:(lia)) as HR.
  destruct (read_file f cur' 1) as [c| e | | | | | | | |] eqn:ER; try (inversion H; subst; simpl in *; auto; fail).
  - destruct (_ =? 122); inversion H; subst; exact I.
  - destruct (_ || _); inversion H; subst; exact I.
Qed.

Lemma read_chunk_length_safe1 f p : safe1 (read_chunk_length f p).
Proof.
  unfold read_chunk_length. destruct (_ && _); [exact I|]. destruct (_ && _); [exact I|].
  apply bind_safe1; [apply read_file_safe1; lia|intros c0]. destruct (_ =? 122).
  - apply bind_safe1; [apply loopN_safe1; apply zstep_safe1|intros]. apply bind_safe1; [apply adjust_safe1|intros; exact I].
  - apply bind_safe1; [apply read_file_safe1; lia|intros info]. destruct (tag_eq_ci _ _).
    + apply bind_safe1; [apply adjust_safe1|intros; exact I].
    + apply bind_safe1; [apply dp_dec_safe1|intros; exact I].
Qed.

Lemma snt_step_safe1 f n cap : n <= cap -> forall s r, snt_step f n cap s = inr r -> safe1 r.
Proof.
  intros Hn [[i cur] acc] r. unfold snt_step. destruct (Z.geb_spec i n) as [Hi|Hi]; [intros H; inversion H; exact I|].
  match goal with |- match ?X with _ => _ end = _ -> _ => assert (HS : safe1 X); [|destruct X; intros H; inversion H; subst; simpl in *; auto] end.
  apply bind_safe1; [apply adjust_safe1|intros cur1]. apply bind_safe1; [apply read_file_safe1; lia|intros nm].
  destruct (Z.geb_spec i cap); [lia|]. apply bind_safe1; [apply adjust_safe1|intros cur2].
  apply bind_safe1; [apply rdpfd_safe1|intros; exact I].
Qed.

Lemma read_snt_fixed_safe1 f p cap : safe1 (read_sub_node_table_fixed f p cap).
Proof.
  unfold read_sub_node_table_fixed. apply bind_safe1; [apply read_chunk_length_safe1|intros [tag e]].
  destruct (Z.gtb_spec (snt_count p e) cap); [exact I|].
  apply bind_safe1; [apply adjust_safe1|intros cur]. apply loopN_safe1. apply snt_step_safe1. lia.
Qed.

Lemma c4c_loop_safe1 tbl cap snt name : forall n i, 0 <= i -> i + Z.of_nat n <= Z.of_nat (length tbl) ->
  safe1 (c4c_loop true tbl cap snt name n i).
Proof.
  induction n as [|n IH]; intros i Hi Hb; [exact I|]. cbn [c4c_loop].
  unfold tbl_get. destruct (nth_error tbl (Z.to_nat i)) as [e|] eqn:E.
  - cbn [bind]. destruct (names_match _ _).
    + apply bind_safe1; [apply adjust_safe1|intros; exact I].
    + apply IH; lia.
  - apply nth_error_None in E. lia.
Qed.

(* with the repair, ADFI_check_4_child_name performs no access outside sub_node_table[] and reads no cell it
   did not fill -- for every file, every parent pointer, every name *)
Theorem check_4_child_name_fixed_safe f parent name : safe1 (check_4_child_name_gen true f parent name).
Proof.
  unfold check_4_child_name_gen. apply bind_safe1; [apply read_node_header_safe1|intros h].
  destruct (_ =? 0); [exact I|].
  apply bind_safe1; [destruct (_ >? 0); [apply read_snt_fixed_safe1|exact I]|intros tbl].
  apply c4c_loop_safe1; lia.
Qed.

(* ================================================================ 7. termination of the open-time operations *)
Definition nofuel {A} (r : out A) : Prop := match r with OutOfFuel => False | _ => True end.
Lemma bind_nofuel {A B} (x : out A) (f : A -> out B) : nofuel x -> (forall a, nofuel (f a)) -> nofuel (bind x f).
Proof. destruct x; simpl; auto. Qed.
Lemma hex2uint_nofuel mn mx s : nofuel (hex2uint mn mx s).
Proof. destruct (hex2uint_total mn mx s) as [(v & ->)|(e & ->)]; exact I. Qed.
Lemma conv_int_nofuel fmt s : nofuel (conv_int fmt s).
Proof.
  unfold conv_int, conv_mode. destruct (fmt =? 78); [exact I|]. destruct (fmt =? 76); [exact I|].
  destruct ((fmt =? 66) || (fmt =? 67)); exact I.
Qed.
Lemma dp_dec_nofuel a s : nofuel (dp_dec a s).
Proof.
  unfold dp_dec, dp_from_hex. destruct (fa_old a).
  - apply bind_nofuel; [apply hex2uint_nofuel|intros]. apply bind_nofuel; [apply hex2uint_nofuel|intros; exact I].
  - apply bind_nofuel; [apply conv_int_nofuel|intros]. apply bind_nofuel; [apply conv_int_nofuel|intros; exact I].
Qed.
Lemma read_file_nofuel f p len : nofuel (read_file f p len).
Proof.
  unfold read_file. destruct p as [b o]. destruct (_ >? BLK).
  - destruct (_ >=? _); [exact I|]. destruct (_ <? 0); [exact I|]. destruct (_ =? _); [exact I|]. destruct (_ <=? _); exact I.
  - destruct (_ >=? _); [exact I|]. destruct (_ <=? 0); [exact I|]. destruct (_ <? 0); [exact I|].
    destruct (_ =? _); [exact I|]. destruct (_ <=? _); exact I.
Qed.
Lemma hex_fields_nofuel n : forall s w mx, nofuel (hex_fields s w n mx).
Proof.
  induction n; intros; simpl; [exact I|]. apply bind_nofuel; [apply hex2uint_nofuel|intros].
  apply bind_nofuel; [apply IHn|intros; exact I].
Qed.
Lemma dec_file_header_nofuel a d : nofuel (dec_file_header a d).
Proof.
  unfold dec_file_header. destruct (negb _); [exact I|]. destruct (_ || _); [exact I|].
  apply bind_nofuel; [apply hex_fields_nofuel|intros]. repeat (apply bind_nofuel; [apply dp_dec_nofuel|intros]). exact I.
Qed.

(* cgio_check_file (ADF branch) is a pure function of the first 32 bytes; ADF_Database_Open performs a fixed
   number of reads and decodes and no loop driven by file content: it returns Ok or Err (or one of the
   distinguished outcomes Stale / Abort) on EVERY byte string, never OutOfFuel *)
Theorem database_open_terminates bs : nofuel (database_open bs).
Proof.
  unfold database_open, read_file_header.
  apply bind_nofuel; [apply bind_nofuel; [apply read_file_nofuel|intros; apply dec_file_header_nofuel]|intros h].
  apply bind_nofuel; [destruct (_ =? 66); [exact I|destruct (_ =? 65); exact I]|intros old].
  destruct (_ =? 62); [exact I|]. apply bind_nofuel; [apply hex2uint_nofuel|intros minor].
  destruct (_ >? 2); [exact I|]. apply bind_nofuel; [unfold id_of_ptr; destruct (_ >=? _); exact I|intros root].
  destruct (_ =? 78); [destruct (beq _ _); exact I|exact I].
Qed.
