(* AdfCodecProofs.v -- C13: lemmas about the decoders of AdfCodec.v / AdfWalk.v. *)
From Coq Require Import ZArith List Bool Lia.
From CgnsV Require Import ListX Fuel AdfCodec AdfWalk.
Import ListNotations.
Local Open Scope Z_scope.

(* ================================================================ 1. the hex decoder *)
Definition is_hexchar (c : Z) : Prop := 48 <= c <= 57 \/ 65 <= c <= 70 \/ 97 <= c <= 102.

(* positional value, defined without any reference to the C loop *)
Fixpoint hexpos (s : bytes) : option Z :=
  match s with
  | [] => Some 0
  | c :: t => match hexdig c, hexpos t with
              | Some d, Some r => Some (d * 16 ^ Z.of_nat (length t) + r)
              | _, _ => None
              end
  end.

Lemma hexdig_range c d : hexdig c = Some d -> 0 <= d < 16.
Proof.
  unfold hexdig. intros H.
  destruct (48 <=? c) eqn:A; destruct (c <=? 57) eqn:B; simpl in H; try (inversion H; lia);
  destruct (65 <=? c) eqn:C; destruct (c <=? 70) eqn:D; simpl in H; try (inversion H; lia);
  destruct (97 <=? c) eqn:E; destruct (c <=? 102) eqn:F; simpl in H; try (inversion H; lia); discriminate.
Qed.

Lemma hexdig_some_iff c : hexdig c <> None <-> is_hexchar c.
Proof.
  unfold hexdig, is_hexchar.
  destruct (Z.leb_spec 48 c); destruct (Z.leb_spec c 57); simpl; [split; [lia|discriminate]| | |];
  (destruct (Z.leb_spec 65 c); destruct (Z.leb_spec c 70); simpl; [split; [lia|discriminate]| | |];
   (destruct (Z.leb_spec 97 c); destruct (Z.leb_spec c 102); simpl; split; try lia; try discriminate; try congruence)).
Qed.

Lemma hexpos_range s v : hexpos s = Some v -> 0 <= v < 16 ^ Z.of_nat (length s).
Proof.
  revert v; induction s as [|c t IH]; intros v H; simpl in H.
  - inversion H. simpl. lia.
  - destruct (hexdig c) as [d|] eqn:Hd; [|discriminate]. destruct (hexpos t) as [r|] eqn:Hr; [|discriminate].
    inversion H; subst. specialize (IH r eq_refl). apply hexdig_range in Hd.
    change (length (c :: t)) with (S (length t)). rewrite Nat2Z.inj_succ, Z.pow_succ_r by lia. nia.
Qed.

Lemma hexpos_some_iff s : hexpos s <> None <-> Forall is_hexchar s.
Proof.
  induction s as [|c t IH]; simpl.
  - split; [constructor|discriminate].
  - split.
    + intros H. destruct (hexdig c) eqn:Hd; [|congruence]. destruct (hexpos t) eqn:Ht; [|congruence].
      constructor; [apply hexdig_some_iff; congruence|apply IH; congruence].
    + intros H. inversion H; subst. apply hexdig_some_iff in H2. apply IH in H3.
      destruct (hexdig c); [|congruence]. destruct (hexpos t); congruence.
Qed.

Lemma pow16 k : 0 <= k -> 2 ^ (4 * k) = 16 ^ k.
Proof. intros. rewrite Z.pow_mul_r by lia. reflexivity. Qed.

(* the C loop (shift / add in unsigned int) computes num + positional value as long as nothing can overflow *)
Lemma hexloop_spec s : forall num, 0 <= num -> num + 16 ^ Z.of_nat (length s) <= W32 ->
  hexloop s (4 * (Z.of_nat (length s) - 1)) num = option_map (Z.add num) (hexpos s).
Proof.
  induction s as [|c t IH]; intros num H0 Hb.
  - simpl. f_equal. lia.
  - cbn [hexloop hexpos]. destruct (hexdig c) as [d|] eqn:Hd; [|reflexivity].
    pose proof (hexdig_range _ _ Hd) as Hr.
    change (length (c :: t)) with (S (length t)) in *. rewrite Nat2Z.inj_succ in *.
    rewrite Z.pow_succ_r in Hb by lia.
    replace (4 * (Z.succ (Z.of_nat (length t)) - 1)) with (4 * Z.of_nat (length t)) by lia.
    rewrite Z.shiftl_mul_pow2 by lia. rewrite pow16 by lia.
    assert (Hp : 0 < 16 ^ Z.of_nat (length t)) by (apply Z.pow_pos_nonneg; lia).
    rewrite Z.mod_small by nia.
    replace (4 * Z.of_nat (length t) - 4) with (4 * (Z.of_nat (length t) - 1)) by lia.
    rewrite IH by nia. destruct (hexpos t) as [r|]; simpl; [f_equal; lia|reflexivity].
Qed.

Lemma pow16_le8 n : (n <= 8)%nat -> 16 ^ Z.of_nat n <= W32.
Proof.
  intros H. apply Z.le_trans with (16 ^ 8); [apply Z.pow_le_mono_r; lia|]. unfold W32. vm_compute. discriminate.
Qed.

(* C13_hex: acceptance set, value, range, and nothing but Ok / Err *)
Theorem hex2uint_spec mn mx s v :
  hex2uint mn mx s = Ok v <->
  (1 <= length s <= 8)%nat /\ mn <= mx /\ hexpos s = Some v /\ mn <= v <= mx.
Proof.
  unfold hex2uint.
  destruct (Z.eqb_spec (Z.of_nat (length s)) 0) as [E0|E0]; [split; [discriminate|intros (H & _); lia]|].
  destruct (Z.gtb_spec (Z.of_nat (length s)) 8) as [E8|E8]; [split; [discriminate|intros (H & _); lia]|].
  destruct (Z.gtb_spec mn mx) as [Em|Em]; [split; [discriminate|intros (_ & H & _); lia]|].
  rewrite hexloop_spec by (try lia; simpl; apply pow16_le8; lia).
  destruct (hexpos s) as [r|] eqn:Hr; simpl.
  - replace (0 + r) with r by lia.
    destruct (Z.ltb_spec r mn); [split; [discriminate|intros (_ & _ & H1 & H2); inversion H1; lia]|].
    destruct (Z.gtb_spec r mx); [split; [discriminate|intros (_ & _ & H1 & H2); inversion H1; lia]|].
    split; [intros H1; inversion H1; subst; repeat split; try lia|intros (_ & _ & H1 & _); congruence].
  - split; [discriminate|intros (_ & _ & H & _); discriminate].
Qed.

Theorem hex2uint_total mn mx s : (exists v, hex2uint mn mx s = Ok v) \/ (exists e, hex2uint mn mx s = Err e).
Proof.
  unfold hex2uint.
  destruct (_ =? 0); [right; eauto|]. destruct (_ >? 8); [right; eauto|]. destruct (mn >? mx); [right; eauto|].
  destruct (hexloop _ _ _); [|right; eauto]. destruct (_ <? _); [right; eauto|]. destruct (_ >? _); [right; eauto|left; eauto].
Qed.

Theorem hex2uint_accepts mn mx s :
  (1 <= length s <= 8)%nat -> mn <= mx ->
  ((exists v, hex2uint mn mx s = Ok v \/ hex2uint mn mx s = Err E_LT_MIN \/ hex2uint mn mx s = Err E_GT_MAX)
   <-> Forall is_hexchar s).
Proof.
  intros Hl Hm. rewrite <- hexpos_some_iff. unfold hex2uint.
  destruct (Z.eqb_spec (Z.of_nat (length s)) 0); [lia|]. destruct (Z.gtb_spec (Z.of_nat (length s)) 8); [lia|].
  destruct (Z.gtb_spec mn mx); [lia|].
  rewrite hexloop_spec by (try lia; simpl; apply pow16_le8; lia).
  destruct (hexpos s) as [r|]; simpl.
  - split; [congruence|intros _]. exists r. destruct (_ <? _); [auto|]. destruct (_ >? _); auto.
  - split; [|congruence]. intros (v & [H1|[H2|H3]]); discriminate.
Qed.

(* ================================================================ 2. encoders: lengths and round trips *)
Lemma hexenc_length n v : length (hexenc n v) = n.
Proof. revert v; induction n; intros; simpl; [reflexivity|]. rewrite app_length, IHn. simpl. lia. Qed.

Lemma hexdig_hexchar d : 0 <= d < 16 -> hexdig (hexchar d) = Some d.
Proof.
  intros H. assert (C : d = 0 \/ d = 1 \/ d = 2 \/ d = 3 \/ d = 4 \/ d = 5 \/ d = 6 \/ d = 7 \/ d = 8 \/ d = 9 \/
                         d = 10 \/ d = 11 \/ d = 12 \/ d = 13 \/ d = 14 \/ d = 15) by lia.
  repeat (destruct C as [C|C]; [subst; reflexivity|]). subst; reflexivity.
Qed.

Lemma hexpos_snoc a c : hexpos (a ++ [c]) =
  match hexpos a, hexdig c with Some x, Some d => Some (x * 16 + d) | _, _ => None end.
Proof.
  induction a as [|h t IH]; simpl.
  - destruct (hexdig c); [f_equal; lia|reflexivity].
  - rewrite IH. destruct (hexdig h) as [dh|]; [|reflexivity]. destruct (hexpos t) as [x|]; [|reflexivity].
    destruct (hexdig c) as [d|]; [|reflexivity]. f_equal.
    rewrite app_length. simpl. rewrite Nat2Z.inj_add. simpl. rewrite Z.pow_add_r by lia. lia.
Qed.

Lemma hexpos_hexenc n : forall v, 0 <= v < 16 ^ Z.of_nat n -> hexpos (hexenc n v) = Some v.
Proof.
  induction n as [|n IH]; intros v H.
  - simpl in *. f_equal. lia.
  - cbn [hexenc]. rewrite hexpos_snoc. rewrite Nat2Z.inj_succ, Z.pow_succ_r in H by lia.
    rewrite IH by (split; [apply Z.div_pos; lia|apply Z.div_lt_upper_bound; lia]).
    rewrite hexdig_hexchar by (apply Z.mod_pos_bound; lia). f_equal.
    pose proof (Z.div_mod v 16). lia.
Qed.

Theorem hex_roundtrip n mx v : (1 <= n <= 8)%nat -> 0 <= v < 16 ^ Z.of_nat n -> v <= mx ->
  hex2uint 0 mx (hexenc n v) = Ok v.
Proof.
  intros Hn Hv Hm. apply hex2uint_spec. rewrite hexenc_length. repeat split; try lia. apply hexpos_hexenc; lia.
Qed.

Lemma hex8_rt v mx : 0 <= v < W32 -> v <= mx -> hex2uint 0 mx (hexenc 8 v) = Ok v.
Proof. intros. apply hex_roundtrip; try lia; change (16 ^ Z.of_nat 8) with W32; lia. Qed.
Lemma hex4_rt v mx : 0 <= v < 65536 -> v <= mx -> hex2uint 0 mx (hexenc 4 v) = Ok v.
Proof. intros. apply hex_roundtrip; try lia; change (16 ^ Z.of_nat 4) with 65536; lia. Qed.
Lemma hex2_rt v mx : 0 <= v < 256 -> v <= mx -> hex2uint 0 mx (hexenc 2 v) = Ok v.
Proof. intros. apply hex_roundtrip; try lia; change (16 ^ Z.of_nat 2) with 256; lia. Qed.

(* little-endian integers *)
Lemma le_enc_length n v : length (le_enc n v) = n.
Proof. revert v; induction n; intros; simpl; auto. Qed.
Lemma le_roundtrip n : forall v, 0 <= v < 256 ^ Z.of_nat n -> le_dec (le_enc n v) = v.
Proof.
  induction n as [|n IH]; intros v H.
  - simpl in *. lia.
  - cbn [le_enc le_dec]. rewrite Nat2Z.inj_succ, Z.pow_succ_r in H by lia.
    rewrite IH by (split; [apply Z.div_pos; lia|apply Z.div_lt_upper_bound; lia]).
    pose proof (Z.div_mod v 256). lia.
Qed.
Lemma le_dec_range s : Forall (fun b => 0 <= b < 256) s -> 0 <= le_dec s < 256 ^ Z.of_nat (length s).
Proof.
  induction 1 as [|b t Hb Ht IH]; [simpl; lia|].
  cbn [le_dec]. change (length (b :: t)) with (S (length t)). rewrite Nat2Z.inj_succ, Z.pow_succ_r by lia. lia.
Qed.

Definition fmt_ok (fmt : Z) : Prop := fmt = 76 \/ fmt = 66 \/ fmt = 67.

Lemma conv_int_enc_length fmt n v : length (conv_int_enc fmt n v) = n.
Proof. unfold conv_int_enc. destruct (_ || _); [rewrite rev_length|]; apply le_enc_length. Qed.

Lemma conv_int_roundtrip fmt n v : fmt_ok fmt -> 0 <= v < 256 ^ Z.of_nat n ->
  conv_int fmt (conv_int_enc fmt n v) = Ok v.
Proof.
  intros [F|[F|F]] H; subst; unfold conv_int, conv_int_enc, conv_mode; simpl; rewrite ?rev_involutive, le_roundtrip; auto.
Qed.

(* slicing an append *)
Lemma sub_app_hit (a b : bytes) n : length a = n -> sub (a ++ b) 0 n = a.
Proof. intros <-. unfold sub. simpl. rewrite firstn_app, Nat.sub_diag, firstn_all. simpl. apply app_nil_r. Qed.
Lemma sub_app_skip (a b : bytes) n off len : length a = n -> (n <= off)%nat -> sub (a ++ b) off len = sub b (off - n) len.
Proof.
  intros <- H. unfold sub. rewrite skipn_app. rewrite skipn_all2 by lia. reflexivity.
Qed.
Lemma sub_all (a : bytes) n : length a = n -> sub a 0 n = a.
Proof. intros <-. unfold sub. simpl. apply firstn_all. Qed.
Lemma skipn_app_skip (a b : bytes) n off : length a = n -> (n <= off)%nat -> skipn off (a ++ b) = skipn (off - n) b.
Proof. intros <- H. rewrite skipn_app. rewrite skipn_all2 by lia. reflexivity. Qed.
Lemma firstn_app_hit (a b : bytes) n : length a = n -> firstn n (a ++ b) = a.
Proof. intros <-. rewrite firstn_app, Nat.sub_diag, firstn_all. simpl. apply app_nil_r. Qed.
Lemma skipn_app_hit (a b : bytes) n : length a = n -> skipn n (a ++ b) = b.
Proof. intros <-. rewrite skipn_app, skipn_all, Nat.sub_diag. reflexivity. Qed.

(* disk pointers *)
Definition ptr_ok (a : fattr) (p : ptr) : Prop :=
  if fa_old a then 0 <= fst p < W32 /\ 0 <= snd p <= BLK
  else fmt_ok (fa_fmt a) /\ 0 <= fst p < W64 /\ 0 <= snd p < W32.

Lemma dp_enc_length a p : length (dp_enc a p) = 12%nat.
Proof.
  unfold dp_enc, dp_to_hex. destruct (fa_old a); rewrite app_length, ?hexenc_length, ?conv_int_enc_length; reflexivity.
Qed.

Theorem dp_roundtrip a p : ptr_ok a p -> dp_dec a (dp_enc a p) = Ok p.
Proof.
  unfold ptr_ok, dp_dec, dp_enc, dp_from_hex, dp_to_hex. destruct p as [b o]. simpl fst; simpl snd.
  destruct (fa_old a); intros H.
  - destruct H as [Hb Ho].
    rewrite sub_app_hit by apply hexenc_length.
    rewrite (sub_app_skip _ _ 8) by (try apply hexenc_length; lia). simpl (8 - 8)%nat.
    rewrite sub_all by apply hexenc_length.
    rewrite hex8_rt by lia. cbn [bind].
    rewrite hex4_rt by (unfold BLK in *; lia). reflexivity.
  - destruct H as (Hf & Hb & Ho).
    rewrite sub_app_hit by apply conv_int_enc_length.
    rewrite (sub_app_skip _ _ 8) by (try apply conv_int_enc_length; lia). simpl (8 - 8)%nat.
    rewrite sub_all by apply conv_int_enc_length.
    rewrite conv_int_roundtrip by (auto; change (256 ^ Z.of_nat 8) with W64; lia). cbn [bind].
    rewrite conv_int_roundtrip by (auto; change (256 ^ Z.of_nat 4) with W32; lia). reflexivity.
Qed.

(* ================================================================ 3. structure round trips *)
Ltac slice1 :=
  match goal with
  | H : length ?a = ?k |- context [sub (?a ++ ?b) 0 ?k] => rewrite (sub_app_hit a b k H)
  | H : length ?a = ?k |- context [sub (?a ++ ?b) ?off ?len] =>
      rewrite (sub_app_skip a b k off len H) by lia; simpl (off - k)%nat
  | H : length ?a = ?k |- context [skipn ?off (?a ++ ?b)] =>
      rewrite (skipn_app_skip a b k off H) by lia; simpl (off - k)%nat
  | H : length ?a = ?k |- context [sub ?a 0 ?k] => rewrite (sub_all a k H)
  end.

Lemma hex_fields_flat w mx : (1 <= w <= 8)%nat -> forall vs, Forall (fun v => 0 <= v < 16 ^ Z.of_nat w /\ v <= mx) vs ->
  hex_fields (flat_map (hexenc w) vs) w (length vs) mx = Ok vs.
Proof.
  intros Hw. induction 1 as [|v t [Hv Hm] Ht IH]; [reflexivity|].
  cbn [flat_map length hex_fields]. rewrite firstn_app_hit by apply hexenc_length.
  rewrite hex_roundtrip by lia. cbn [bind]. rewrite skipn_app_hit by apply hexenc_length. rewrite IH. reflexivity.
Qed.

Lemma int_fields_flat fmt w : fmt_ok fmt -> forall vs, Forall (fun v => 0 <= v < 256 ^ Z.of_nat w) vs ->
  int_fields fmt (flat_map (conv_int_enc fmt w) vs) w (length vs) = Ok vs.
Proof.
  intros Hf. induction 1 as [|v t Hv Ht IH]; [reflexivity|].
  cbn [flat_map length int_fields]. rewrite firstn_app_hit by apply conv_int_enc_length.
  rewrite conv_int_roundtrip by auto. cbn [bind]. rewrite skipn_app_hit by apply conv_int_enc_length. rewrite IH. reflexivity.
Qed.

Lemma flat_map_length_const {A} (f : A -> bytes) k l : (forall x, length (f x) = k) -> length (flat_map f l) = (k * length l)%nat.
Proof. intros H. induction l; simpl; [lia|]. rewrite app_length, H, IHl. lia. Qed.

Lemma tagcheck_NoDe c r : tagcheck c (tag_NoDe ++ r) tag_NoDe = Ok true.
Proof. unfold tagcheck. destruct (fx_tag c); reflexivity. Qed.
Lemma tagcheck_TaiL c : tagcheck c tag_TaiL tag_TaiL = Ok true.
Proof. unfold tagcheck. destruct (fx_tag c); reflexivity. Qed.
Lemma tagcheck_fCbt c r : tagcheck c (tag_fCbt ++ r) tag_fCbt = Ok true.
Proof. unfold tagcheck. destruct (fx_tag c); reflexivity. Qed.
Lemma tagcheck_Fcte c : tagcheck c tag_Fcte tag_Fcte = Ok true.
Proof. unfold tagcheck. destruct (fx_tag c); reflexivity. Qed.

Definition str32 (s : bytes) : Prop := length s = 32%nat /\ cstrn s = s.

Definition nh_ok (a : fattr) (h : node_header) : Prop :=
  str32 (nh_name h) /\ str32 (nh_label h) /\ str32 (nh_dtype h) /\
  0 <= nh_nsub h < W32 /\ 0 <= nh_entries h < W32 /\ nh_nsub h <= nh_entries h /\ ptr_ok a (nh_snt h) /\
  0 <= nh_ndims h <= 12 /\ length (nh_dims h) = 12%nat /\
  Forall (fun d => 0 <= d < (if fa_old a then W32 else W64)) (nh_dims h) /\
  0 <= nh_nchunks h <= 65535 /\ ptr_ok a (nh_data h).

Lemma enc_dims_length a dims : length dims = 12%nat -> length (enc_dims a dims) = 96%nat.
Proof.
  intros H. unfold enc_dims. destruct (fa_old a).
  - rewrite (flat_map_length_const _ 8) by apply hexenc_length. lia.
  - rewrite (flat_map_length_const _ 8) by (intros; apply conv_int_enc_length). lia.
Qed.

Theorem node_header_roundtrip c a h : nh_ok a h -> dec_node_header c a (enc_node_header a h) = Ok h.
Proof.
  intros ((Ln & Cn) & (Ll & Cl) & (Lt & Ct) & Hs & He & Hse & Hp1 & Hnd & Ld & Fd & Hc & Hp2).
  unfold dec_node_header, enc_node_header.
  assert (LT0 : length tag_NoDe = 4%nat) by reflexivity. assert (LT1 : length tag_TaiL = 4%nat) by reflexivity.
  pose proof (hexenc_length 8 (nh_nsub h)) as L1. pose proof (hexenc_length 8 (nh_entries h)) as L2.
  pose proof (dp_enc_length a (nh_snt h)) as L3. pose proof (hexenc_length 2 (nh_ndims h)) as L4.
  pose proof (enc_dims_length a _ Ld) as L5. pose proof (hexenc_length 4 (nh_nchunks h)) as L6.
  pose proof (dp_enc_length a (nh_data h)) as L7.
  rewrite tagcheck_NoDe. cbn [bind negb].
  repeat slice1.
  change (skipn 0 tag_TaiL) with tag_TaiL. rewrite tagcheck_TaiL. cbn [bind negb].
  rewrite hex8_rt by lia. cbn [bind]. rewrite hex8_rt by lia. cbn [bind].
  destruct (Z.gtb_spec (nh_nsub h) (nh_entries h)) as [G|G]; [lia|]. rewrite Bool.andb_false_r.
  rewrite dp_roundtrip by assumption. cbn [bind].
  rewrite hex2_rt by lia. cbn [bind].
  assert (Hdims : (if fa_old a then hex_fields (enc_dims a (nh_dims h)) 8 12 (W32 - 1)
                   else int_fields (fa_fmt a) (enc_dims a (nh_dims h)) 8 12) = Ok (nh_dims h)).
  { unfold enc_dims. rewrite <- Ld. destruct (fa_old a) eqn:Eo.
    - apply hex_fields_flat; [lia|]. eapply Forall_impl; [|exact Fd]. cbn beta. intros d Hd.
      change (16 ^ Z.of_nat 8) with W32. lia.
    - apply int_fields_flat; [unfold ptr_ok in Hp1; rewrite Eo in Hp1; tauto|].
      eapply Forall_impl; [|exact Fd]. cbn beta. intros d Hd. change (256 ^ Z.of_nat 8) with W64. lia. }
  rewrite Hdims. cbn [bind].
  rewrite hex4_rt by lia. cbn [bind]. rewrite dp_roundtrip by assumption. cbn [bind].
  rewrite Cn, Cl, Ct. destruct h; reflexivity.
Qed.

(* sub-node table entry *)
Theorem snt_entry_roundtrip a nm p : str32 nm -> ptr_ok a p -> dec_snt_entry a (enc_snt_entry a (nm, p)) = Ok (nm, p).
Proof.
  intros (Ln & Cn) Hp. unfold dec_snt_entry, enc_snt_entry. cbn [fst snd].
  pose proof (dp_enc_length a p) as L1. repeat slice1.
  rewrite dp_roundtrip by assumption. cbn [bind]. rewrite Cn. reflexivity.
Qed.

(* free-chunk table *)
Lemma dp_fields_flat a : forall ps, Forall (ptr_ok a) ps -> dp_fields a (flat_map (dp_enc a) ps) (length ps) = Ok ps.
Proof.
  induction 1 as [|p t Hp Ht IH]; [reflexivity|].
  cbn [flat_map length dp_fields]. rewrite firstn_app_hit by apply dp_enc_length.
  rewrite dp_roundtrip by assumption. cbn [bind]. rewrite skipn_app_hit by apply dp_enc_length. rewrite IH. reflexivity.
Qed.

Theorem fct_roundtrip c a ps : length ps = 6%nat -> Forall (ptr_ok a) ps -> dec_fct c a (enc_fct a ps) = Ok ps.
Proof.
  intros L F. unfold dec_fct, enc_fct.
  assert (LT0 : length tag_fCbt = 4%nat) by reflexivity. assert (LT1 : length tag_Fcte = 4%nat) by reflexivity.
  assert (LP : length (flat_map (dp_enc a) ps) = 72%nat)
    by (rewrite (flat_map_length_const _ 12) by apply dp_enc_length; lia).
  rewrite tagcheck_fCbt. cbn [bind negb].
  repeat slice1.
  change (skipn 0 tag_Fcte) with tag_Fcte. rewrite tagcheck_Fcte. cbn [bind negb].
  rewrite <- L. apply dp_fields_flat; assumption.
Qed.

(* file header *)
Lemma beq_refl a : beq a a = true.
Proof. unfold beq. destruct (list_eq_dec Z.eq_dec a a); congruence. Qed.
Lemma beq_true a b : beq a b = true -> a = b.
Proof. unfold beq. destruct (list_eq_dec Z.eq_dec a b); congruence. Qed.

Definition fh_ok (a : fattr) (h : file_header) : Prop :=
  (length (fh_what h) = 32%nat /\ cstrn (fh_what h) = fh_what h) /\
  (length (fh_cdate h) = 28%nat /\ cstrn (fh_cdate h) = fh_cdate h) /\
  (length (fh_mdate h) = 28%nat /\ cstrn (fh_mdate h) = fh_mdate h) /\
  fmt_letter (fa_fmt a) = true /\ os_letter (fa_os a) = true /\
  length (fh_sizes h) = 12%nat /\ Forall (fun v => 0 <= v < 256) (fh_sizes h) /\
  ptr_ok a (fh_root h) /\ ptr_ok a (fh_eof h) /\ ptr_ok a (fh_free h) /\ ptr_ok a (fh_extra h).

Ltac nth1 :=
  match goal with
  | H : length ?a = ?k |- context [nth ?i (?a ++ ?b) ?d] =>
      rewrite (app_nth2 a b d) by (rewrite H; lia); rewrite H; simpl (i - k)%nat
  end.

Lemma fmt_letter_nz x : fmt_letter x = true -> (x =? 0) = false.
Proof.
  unfold fmt_letter. intros H. destruct (Z.eqb_spec x 0); [subst; discriminate|reflexivity].
Qed.
Lemma os_letter_nz x : os_letter x = true -> (x =? 0) = false.
Proof.
  unfold os_letter. intros H. destruct (Z.eqb_spec x 0); [subst; discriminate|reflexivity].
Qed.

Theorem file_header_roundtrip c a h : fh_ok a h -> dec_file_header c a (enc_file_header a h) = Ok h.
Proof.
  intros ((Lw & Cw) & (Lc & Cc) & (Lm & Cm) & Hf & Ho & Ls & Fs & P1 & P2 & P3 & P4).
  unfold dec_file_header, enc_file_header, header_tags_ok.
  assert (LT0 : length (tag_AdF 0) = 4%nat) by reflexivity. assert (LT1 : length (tag_AdF 1) = 4%nat) by reflexivity.
  assert (LT2 : length (tag_AdF 2) = 4%nat) by reflexivity. assert (LT3 : length (tag_AdF 3) = 4%nat) by reflexivity.
  assert (LT4 : length (tag_AdF 4) = 4%nat) by reflexivity. assert (LT5 : length (tag_AdF 5) = 4%nat) by reflexivity.
  assert (LF : length [fh_fmt h; fh_os h] = 2%nat) by reflexivity.
  assert (LS : length (flat_map (hexenc 2) (fh_sizes h)) = 24%nat)
    by (rewrite (flat_map_length_const _ 2) by apply hexenc_length; lia).
  pose proof (dp_enc_length a (fh_root h)) as L1. pose proof (dp_enc_length a (fh_eof h)) as L2.
  pose proof (dp_enc_length a (fh_free h)) as L3. pose proof (dp_enc_length a (fh_extra h)) as L4.
  repeat slice1. repeat nth1. cbn [nth].
  rewrite !beq_refl. cbn [andb negb].
  rewrite Hf, Ho, (fmt_letter_nz _ Hf), (os_letter_nz _ Ho). cbn [andb orb negb]. rewrite !Bool.andb_false_r.
  rewrite <- Ls at 1. rewrite hex_fields_flat
    by (first [lia | eapply Forall_impl; [|exact Fs]; cbn beta; intros v Hv; change (16 ^ Z.of_nat 2) with 256; lia]).
  cbn [bind]. rewrite !dp_roundtrip by assumption. cbn [bind].
  rewrite Cw, Cc, Cm. destruct h; reflexivity.
Qed.

(* ================================================================ 4. soundness of the decoders *)
Definition bytes_ok (d : bytes) : Prop := Forall (fun b => 0 <= b < 256) d.

Lemma bind_ok {A B} (x : out A) (f : A -> out B) b : bind x f = Ok b -> exists a, x = Ok a /\ f a = Ok b.
Proof. destruct x; simpl; intros H; try discriminate. eauto. Qed.

Lemma hex2uint_ok_range mn mx s v : hex2uint mn mx s = Ok v -> mn <= v <= mx /\ 0 <= v < 16 ^ Z.of_nat (length s) /\ Forall is_hexchar s.
Proof.
  intros H. apply hex2uint_spec in H. destruct H as (Hl & Hm & Hp & Hr). repeat split; try lia.
  - apply hexpos_range in Hp; lia.
  - apply hexpos_range in Hp; lia.
  - apply hexpos_some_iff. congruence.
Qed.

Lemma sub_length_le (d : bytes) off len : (length (sub d off len) <= len)%nat.
Proof. unfold sub. rewrite firstn_length. lia. Qed.
Lemma bytes_ok_sub d off len : bytes_ok d -> bytes_ok (sub d off len).
Proof.
  unfold bytes_ok, sub. intros H. apply Forall_forall. intros x Hx.
  assert (FI : forall (l : bytes) n y, In y (firstn n l) -> In y l).
  { induction l; intros [|n] y Hy; simpl in *; try contradiction. destruct Hy; [auto|right; eauto]. }
  apply FI in Hx. rewrite Forall_forall in H. apply H. clear H.
  revert d Hx. induction off; intros d Hx; simpl in *; auto. destruct d; simpl in *; [contradiction|]. right. auto.
Qed.
Lemma bytes_ok_rev d : bytes_ok d -> bytes_ok (rev d).
Proof. unfold bytes_ok. intros. apply Forall_rev. assumption. Qed.

Lemma conv_int_ok_range fmt s v : bytes_ok s -> conv_int fmt s = Ok v -> fmt_ok fmt /\ 0 <= v < 256 ^ Z.of_nat (length s).
Proof.
  unfold conv_int, conv_mode, fmt_ok. intros Hs H.
  destruct (Z.eqb_spec fmt 78); [discriminate|]. destruct (Z.eqb_spec fmt 76).
  - simpl in H. inversion H; subst. split; [auto|]. apply le_dec_range. assumption.
  - destruct (fmt >=? 128); [discriminate|].
    destruct (Z.eqb_spec fmt 66); destruct (Z.eqb_spec fmt 67); simpl in H; try discriminate;
      (inversion H; subst; split; [auto|]; rewrite <- (rev_length s); apply le_dec_range; apply bytes_ok_rev; assumption).
Qed.

(* a decoded disk pointer is within the declared range of its format *)
Theorem dp_dec_sound a s p : bytes_ok s -> dp_dec a s = Ok p ->
  if fa_old a then 0 <= fst p < W32 /\ 0 <= snd p <= BLK /\ Forall is_hexchar (sub s 0 8) /\ Forall is_hexchar (sub s 8 4)
  else fmt_ok (fa_fmt a) /\ 0 <= fst p < W64 /\ 0 <= snd p < W32.
Proof.
  intros Hs. unfold dp_dec, dp_from_hex. destruct (fa_old a); intros H.
  - apply bind_ok in H. destruct H as (b & Hb & H). apply bind_ok in H. destruct H as (o & Ho & H). inversion H; subst.
    apply hex2uint_ok_range in Hb. apply hex2uint_ok_range in Ho. simpl. unfold W32, BLK in *. repeat split; try lia; tauto.
  - apply bind_ok in H. destruct H as (b & Hb & H). apply bind_ok in H. destruct H as (o & Ho & H). inversion H; subst.
    apply conv_int_ok_range in Hb; [|apply bytes_ok_sub; assumption].
    apply conv_int_ok_range in Ho; [|apply bytes_ok_sub; assumption].
    destruct Hb as (Hf & Hb). destruct Ho as (_ & Ho). simpl.
    pose proof (sub_length_le s 0 8). pose proof (sub_length_le s 8 4).
    assert (256 ^ Z.of_nat (length (sub s 0 8)) <= W64)
      by (change W64 with (256 ^ 8); apply Z.pow_le_mono_r; lia).
    assert (256 ^ Z.of_nat (length (sub s 8 4)) <= W32)
      by (change W32 with (256 ^ 4); apply Z.pow_le_mono_r; lia).
    repeat split; try lia; assumption.
Qed.

(* C13_decode_total_sound, node header: acceptance implies both boundary tags matched (case-insensitively, at
   position 0 -- what ADFI_stridx_c(..) == 0 means), every hex field is made of hex digits, and every value is
   inside its declared range *)
Theorem node_header_sound c a d h : dec_node_header c a d = Ok h ->
  tagcheck c d tag_NoDe = Ok true /\ tagcheck c (skipn 242 d) tag_TaiL = Ok true /\
  (fx_snt c = true -> nh_nsub h <= nh_entries h) /\
  0 <= nh_nsub h < W32 /\ 0 <= nh_entries h < W32 /\ 0 <= nh_ndims h <= 12 /\ 0 <= nh_nchunks h <= 65535 /\
  Forall is_hexchar (sub d 68 8) /\ Forall is_hexchar (sub d 76 8) /\ Forall is_hexchar (sub d 128 2) /\
  Forall is_hexchar (sub d 226 4) /\
  dp_dec a (sub d 84 12) = Ok (nh_snt h) /\ dp_dec a (sub d 230 12) = Ok (nh_data h).
Proof.
  unfold dec_node_header. intros H.
  apply bind_ok in H. destruct H as (s & Hs & H). destruct s; [|discriminate]. cbn [negb] in H.
  apply bind_ok in H. destruct H as (e & He & H). destruct e; [|discriminate]. cbn [negb] in H.
  apply bind_ok in H. destruct H as (nsub & H1 & H). apply bind_ok in H. destruct H as (ent & H2 & H).
  destruct (fx_snt c && (nsub >? ent)) eqn:Esn; [discriminate|].
  apply bind_ok in H. destruct H as (snt & H3 & H). apply bind_ok in H. destruct H as (nd & H4 & H).
  apply bind_ok in H. destruct H as (dims & H5 & H). apply bind_ok in H. destruct H as (nch & H6 & H).
  apply bind_ok in H. destruct H as (dc & H7 & H). inversion H; subst; clear H. cbn.
  apply hex2uint_ok_range in H1, H2, H4, H6. unfold W32 in *.
  repeat split; try lia; try tauto.
  intros Hc. rewrite Hc in Esn. cbn [andb] in Esn. destruct (Z.gtb_spec nsub ent); [discriminate|lia].
Qed.

Theorem node_header_total c a d : fa_fmt a < 128 ->
  (exists h, dec_node_header c a d = Ok h) \/ (exists e, dec_node_header c a d = Err e) \/
  dec_node_header c a d = OOBR 5.
Proof.
  intros Hfmt.
  assert (T : forall t tag f, (exists b, tagscan_from t tag f = Ok b) \/ tagscan_from t tag f = OOBR 5).
  { induction t as [|x t IH]; intros tag f; simpl; [auto|]. destruct (x =? 0); [left; eauto|].
    destruct (pref (x :: t) tag) as [[|]|]; [left; eauto|apply IH|auto]. }
  assert (HX : forall mn mx s, (exists v, hex2uint mn mx s = Ok v) \/ (exists e, hex2uint mn mx s = Err e))
    by (intros; apply hex2uint_total).
  assert (CI : forall s, (exists v, conv_int (fa_fmt a) s = Ok v) \/ (exists e, conv_int (fa_fmt a) s = Err e)).
  { intros s. unfold conv_int, conv_mode. destruct (fa_fmt a =? 78); [right; simpl; eauto|].
    destruct (fa_fmt a =? 76); [left; simpl; eauto|]. destruct (Z.geb_spec (fa_fmt a) 128); [lia|].
    destruct ((fa_fmt a =? 66) || (fa_fmt a =? 67)); [left; simpl; eauto|right; simpl; eauto]. }
  assert (DP : forall s, (exists p, dp_dec a s = Ok p) \/ (exists e, dp_dec a s = Err e)).
  { intros. unfold dp_dec, dp_from_hex. destruct (fa_old a).
    - destruct (HX 0 (W32 - 1) (sub s 0 8)) as [(v & ->)|(e & ->)]; simpl; [|right; eauto].
      destruct (HX 0 BLK (sub s 8 4)) as [(v2 & ->)|(e & ->)]; simpl; [left|right]; eauto.
    - destruct (CI (sub s 0 8)) as [(v & ->)|(e & ->)]; simpl; [|right; eauto].
      destruct (CI (sub s 8 4)) as [(v2 & ->)|(e & ->)]; simpl; [left|right]; eauto. }
  assert (HF : forall n s w mx, (exists v, hex_fields s w n mx = Ok v) \/ (exists e, hex_fields s w n mx = Err e)).
  { induction n; intros; simpl; [left; eauto|].
    destruct (HX 0 mx (firstn w s)) as [(v & ->)|(e & ->)]; simpl; [|right; eauto].
    destruct (IHn (skipn w s) w mx) as [(v2 & ->)|(e & ->)]; simpl; [left|right]; eauto. }
  assert (IF : forall n s w, (exists v, int_fields (fa_fmt a) s w n = Ok v) \/ (exists e, int_fields (fa_fmt a) s w n = Err e)).
  { induction n; intros; simpl; [left; eauto|].
    destruct (CI (firstn w s)) as [(v & ->)|(e & ->)]; simpl; [|right; eauto].
    destruct (IHn (skipn w s) w) as [(v2 & ->)|(e & ->)]; simpl; [left|right]; eauto. }
  assert (TC : forall t tag, (exists b, tagcheck c t tag = Ok b) \/ tagcheck c t tag = OOBR 5).
  { intros. unfold tagcheck, tagscan. destruct (fx_tag c); [left; eauto|apply T]. }
  unfold dec_node_header.
  destruct (TC d tag_NoDe) as [(b & ->)| ->]; [|auto]. cbn [bind]. destruct b; cbn [negb]; [|right; left; eauto].
  destruct (TC (skipn 242 d) tag_TaiL) as [(b & ->)| ->]; [|auto]. cbn [bind]. destruct b; cbn [negb]; [|right; left; eauto].
  destruct (HX 0 (W32 - 1) (sub d 68 8)) as [(v1 & ->)|(e & ->)]; cbn [bind]; [|right; left; eauto].
  destruct (HX 0 (W32 - 1) (sub d 76 8)) as [(v2 & ->)|(e & ->)]; cbn [bind]; [|right; left; eauto].
  destruct (fx_snt c && (v1 >? v2)); [right; left; eauto|].
  destruct (DP (sub d 84 12)) as [(p1 & ->)|(e & ->)]; cbn [bind]; [|right; left; eauto].
  destruct (HX 0 12 (sub d 128 2)) as [(v3 & ->)|(e & ->)]; cbn [bind]; [|right; left; eauto].
  assert (DM : (exists v, (if fa_old a then hex_fields (sub d 130 96) 8 12 (W32 - 1)
                            else int_fields (fa_fmt a) (sub d 130 96) 8 12) = Ok v) \/
               (exists e, (if fa_old a then hex_fields (sub d 130 96) 8 12 (W32 - 1)
                            else int_fields (fa_fmt a) (sub d 130 96) 8 12) = Err e))
    by (destruct (fa_old a); [apply HF|apply IF]).
  destruct DM as [(dm & ->)|(e & ->)]; cbn [bind]; [|right; left; eauto].
  destruct (HX 0 65535 (sub d 226 4)) as [(v4 & ->)|(e & ->)]; cbn [bind]; [|right; left; eauto].
  destruct (DP (sub d 230 12)) as [(p2 & ->)|(e & ->)]; cbn [bind]; [|right; left; eauto].
  left; eauto.
Qed.

(* file header: acceptance implies the six tags are exactly "AdF0".."AdF5" and the sizes are bytes *)
Theorem file_header_sound c a d h : dec_file_header c a d = Ok h ->
  sub d 32 4 = tag_AdF 0 /\ sub d 64 4 = tag_AdF 1 /\ sub d 96 4 = tag_AdF 2 /\ sub d 102 4 = tag_AdF 3 /\
  sub d 130 4 = tag_AdF 4 /\ sub d 182 4 = tag_AdF 5 /\ fa_fmt a <> 0 /\ fa_os a <> 0 /\
  dp_dec a (sub d 134 12) = Ok (fh_root h).
Proof.
  unfold dec_file_header, header_tags_ok. intros H.
  destruct (beq (sub d 32 4) (tag_AdF 0)) eqn:T0; [|discriminate].
  destruct (beq (sub d 64 4) (tag_AdF 1)) eqn:T1; [|discriminate].
  destruct (beq (sub d 96 4) (tag_AdF 2)) eqn:T2; [|discriminate].
  destruct (beq (sub d 102 4) (tag_AdF 3)) eqn:T3; [|discriminate].
  destruct (beq (sub d 130 4) (tag_AdF 4)) eqn:T4; [|discriminate].
  destruct (beq (sub d 182 4) (tag_AdF 5)) eqn:T5; [|discriminate]. cbn [andb negb] in H.
  assert (NZ : fa_fmt a <> 0 /\ fa_os a <> 0).
  { destruct (fx_fmt c); cbn [andb negb] in H.
    - destruct (fmt_letter (fa_fmt a)) eqn:F; [|discriminate]. destruct (os_letter (fa_os a)) eqn:O; [|discriminate].
      apply fmt_letter_nz in F. apply os_letter_nz in O. split; [destruct (Z.eqb_spec (fa_fmt a) 0)|destruct (Z.eqb_spec (fa_os a) 0)]; congruence.
    - destruct (Z.eqb_spec (fa_fmt a) 0); [discriminate|]. destruct (Z.eqb_spec (fa_os a) 0); [discriminate|]. auto. }
  destruct (fx_fmt c && negb (fmt_letter (fa_fmt a) && os_letter (fa_os a))); [discriminate|].
  destruct (negb (fx_fmt c) && ((fa_fmt a =? 0) || (fa_os a =? 0))); [discriminate|].
  apply bind_ok in H. destruct H as (sz & _ & H). apply bind_ok in H. destruct H as (r & Hr & H).
  apply bind_ok in H. destruct H as (e & _ & H). apply bind_ok in H. destruct H as (f & _ & H).
  apply bind_ok in H. destruct H as (x & _ & H). inversion H; subst. cbn.
  destruct NZ. repeat split; auto using beq_true.
Qed.

(* ================================================================ 5. the code before the repairs: refutations by witness
   (AdfWalk.wit_* files; every one is a file of corpus/C13 and is run on the implementation by checks/C13.py) *)
Definition on_open {P : Type} (c : fixes) (bs : bytes) (k : fstate -> ptr -> P) (d : P) : P :=
  match database_open c bs with Ok (f, r) => k f r | _ => d end.
Notation L := legacy.

(* the valid witness: opens, both children are found, the walk is clean -- in both states of the code *)
Lemma wit_valid_ok c : c = legacy \/ c = repaired ->
  on_open c wit_valid (fun f r => check_4_child_name c f r [66] = Ok (Some (0, 1130)) /\
                                   get_node_id_top c f r [66] = Ok (0, 1130)) False /\
  forallb (fun e => match e with EvG r => clean r | EvN _ r => clean r | EvFuel => false | _ => true end)
          (walk_events (walk c 10 wit_valid)) = true.
Proof. intros [->| ->]; vm_compute; repeat split; reflexivity. Qed.

(* section 6 #12: same file, header field entries_for_sub_nodes 00000008 -> 00000002 *)
Lemma wit_oobw_is_one_field : wit_oobw = firstn 342 wit_valid ++ hexenc 8 2 ++ skipn 350 wit_valid.
Proof. vm_compute. reflexivity. Qed.

Theorem oob_write_refuted :
  exists bs, on_open L bs (fun f r => check_4_child_name L f r [66] = OOBW 1 /\
                                      get_node_id_top L f r [66] = OOBW 1) False.
Proof. exists wit_oobw. vm_compute. split; reflexivity. Qed.

Theorem oob_read_refuted :
  exists bs, on_open L bs (fun f r => check_4_child_name L f r [66] = OOBR 1) False.
Proof. exists wit_oobr. vm_compute. reflexivity. Qed.

Definition is_out {A} (r x : out A) : Prop :=     (* r is the argument-free outcome x *)
  match r, x with
  | OOBW a, OOBW b => a = b | OOBR a, OOBR b => a = b | Uninit, Uninit | Stale, Stale | Abort, Abort | UB, UB
  | Ext, Ext | OutOfFuel, OutOfFuel => True | _, _ => False
  end.

Theorem dct_refuted :
  exists bs, on_open L bs (fun f r => match read_node_header L f (0, 884) with
                                      | Ok h => is_out (read_all_data L f h [73; 52] 8) (OOBW 2)
                                      | _ => False end) False.
Proof. exists wit_dct. vm_compute. reflexivity. Qed.

Theorem link_buffer_refuted :
  exists bs, on_open L bs (fun f r => get_link_path L f (0, 884) 5200 5200 = OOBW 3 /\
                                      is_out (chase_link L f (0, 884)) (OOBW 3)) False.
Proof. exists wit_biglink. vm_compute. split; reflexivity. Qed.

Theorem link_negative_refuted : exists bs, on_open L bs (fun f r => is_out (chase_link L f (0, 884)) (OOBW 6)) False.
Proof. exists wit_neglink. vm_compute. reflexivity. Qed.

Theorem link_index_refuted : exists bs, on_open L bs (fun f r => is_out (chase_link L f (0, 884)) (OOBW 3)) False.
Proof. exists wit_hugelink. vm_compute. reflexivity. Qed.

Theorem link_tokens_refuted : exists bs, on_open L bs (fun f r => get_link_path L f (0, 884) 5200 5200 = OOBW 4) False.
Proof. exists wit_toklink. vm_compute. reflexivity. Qed.

Theorem link_file_part_refuted :
  exists bs, on_open L bs (fun f r => clean (get_link_path L f (0, 884) 5200 5200) = true /\
                                      is_out (chase_link L f (0, 884)) (OOBW 8)) False.
Proof. exists wit_longfile. vm_compute. split; reflexivity. Qed.

Theorem link_path_part_refuted :
  exists bs, on_open L bs (fun f r => clean (get_link_path L f (0, 884) 5200 5200) = true /\
                                      is_out (chase_link L f (0, 884)) (OOBW 8)) False.
Proof. exists wit_longpath. vm_compute. split; reflexivity. Qed.

(* the same with every other repair in place: each of the three output-side guards is needed on its own *)
Definition without (g : Z) : fixes :=
  {| fx_snt := true; fx_dct := true; fx_link := true; fx_nest := true; fx_fmt := true; fx_tag := true; fx_dtov := true;
     fx_rtype := true; fx_dim := true; fx_short := true; fx_sizes := true; fx_rad := true;
     fx_lfile := negb (g =? 1); fx_lpath := negb (g =? 2); fx_lnosep := negb (g =? 3); fx_ver := true |}.
Theorem link_no_separator_refuted :
  exists bs, on_open L bs (fun f r => clean (get_link_path L f (0, 884) 5200 5200) = true /\
                                      is_out (chase_link L f (0, 884)) (OOBW 8)) False /\
             on_open (without 3) bs (fun f r => is_out (chase_link (without 3) f (0, 884)) (OOBW 8)) False.
Proof. exists wit_nosep. vm_compute. repeat split; reflexivity. Qed.
Lemma link_guards_independent :
  on_open (without 1) wit_longfile (fun f r => is_out (chase_link (without 1) f (0, 884)) (OOBW 8)) False /\
  on_open (without 2) wit_longpath (fun f r => is_out (chase_link (without 2) f (0, 884)) (OOBW 8)) False /\
  on_open repaired wit_longpath (fun f r => chase_link repaired f (0, 884)) (Err 0) = Err 4 /\
  on_open repaired wit_nosep (fun f r => chase_link repaired f (0, 884)) (Err 0) = Err 4.
Proof. vm_compute. repeat split; reflexivity. Qed.

Theorem version_refuted : exists bs, on_open L bs (fun f r => is_out (database_version L f VER_CAP) (OOBW 9)) False.
Proof. exists wit_ver. vm_compute. reflexivity. Qed.
Lemma version_repaired : on_open repaired wit_ver (fun f r => database_version repaired f VER_CAP) (Err 0)
                         = Ok [65; 68; 70; 32; 68; 97; 116; 97; 98; 97; 115; 101; 32; 86; 101; 114; 115; 105; 111; 110; 32; 66; 48; 50; 48; 49; 50; 88].
Proof. vm_compute. reflexivity. Qed.

Theorem link_recursion_refuted :
  exists bs, on_open L bs (fun f r => get_node_id_top L f r [76] = Ok (0, 884) /\
                                      is_out (chase_link L f (0, 884)) OutOfFuel) False.
Proof. exists wit_linkrec. vm_compute. split; reflexivity. Qed.

Theorem abort_refuted : exists bs, database_open L bs = Abort.
Proof. exists wit_abort. vm_compute. reflexivity. Qed.

Theorem format_shift_refuted : exists bs, database_open L bs = UB.
Proof. exists wit_fmtneg. vm_compute. reflexivity. Qed.

Theorem tagscan_refuted : exists bs, on_open L bs (fun f r => is_out (read_node_header L f r) (OOBR 5)) False.
Proof. exists wit_tagscan. vm_compute. reflexivity. Qed.

Theorem stale_refuted : exists bs, on_open L bs (fun f r => is_out (read_node_header L f r) Stale) False.
Proof. exists wit_stale. vm_compute. reflexivity. Qed.

Definition data_of (c : fixes) (bs : bytes) (t : bytes) (cap : Z) : out (Z * bytes) :=
  on_open c bs (fun f r => h <- read_node_header c f (0, 884) ;; read_all_data c f h t cap) (Err 0).

Theorem datatype_overflow_refuted : exists bs, data_of L bs [73; 52] 4 = UB.
Proof. exists wit_dtov. vm_compute. reflexivity. Qed.
Theorem compound_type_refuted : exists bs, data_of L bs [73; 52] 4 = OOBW 7.
Proof. exists wit_rtype. vm_compute. reflexivity. Qed.
Theorem header_sizes_refuted : exists bs, data_of L bs [73; 52] 4 = OOBW 7.
Proof. exists wit_sizes. vm_compute. reflexivity. Qed.
Theorem zero_fill_refuted : exists bs, data_of L bs [73; 52] 4 = OOBW 7.
Proof. exists wit_radset. vm_compute. reflexivity. Qed.
Theorem negative_chunk_refuted : exists bs, data_of L bs [73; 52] 8 = OOBW 6.
Proof. exists wit_radneg. vm_compute. reflexivity. Qed.

(* the same witnesses are rejected with an error code by the repaired code *)
Lemma witnesses_rejected_when_repaired :
  on_open repaired wit_oobw (fun f r => get_node_id_top repaired f r [66]) (Err 0) = Err 24 /\
  database_open repaired wit_oobr = Ok ({| f_bytes := wit_oobr; f_len := 1376; f_attr := wa |}, (0, 266)) /\
  on_open repaired wit_oobr (fun f r => read_node_header repaired f r) (Err 0) = Err 24 /\
  data_of repaired wit_dct [73; 52] 8 = Err 17 /\
  on_open repaired wit_biglink (fun f r => chase_link repaired f (0, 884)) (Err 0) = Err 47 /\
  on_open repaired wit_neglink (fun f r => chase_link repaired f (0, 884)) (Err 0) = Err 47 /\
  on_open repaired wit_hugelink (fun f r => chase_link repaired f (0, 884)) (Err 0) = Err 47 /\
  on_open repaired wit_toklink (fun f r => chase_link repaired f (0, 884)) (Err 0) = Err 31 /\
  on_open repaired wit_longfile (fun f r => chase_link repaired f (0, 884)) (Err 0) = Err 4 /\
  on_open repaired wit_linkrec (fun f r => chase_link repaired f (0, 884)) (Err 0) = Err 50 /\
  database_open repaired wit_abort = Err 19 /\ database_open repaired wit_fmtneg = Err 19 /\
  on_open repaired wit_tagscan (fun f r => read_node_header repaired f r) (Err 0) = Err 17 /\
  on_open repaired wit_stale (fun f r => read_node_header repaired f r) (Err 0) = Err 15 /\
  data_of repaired wit_dtov [73; 52] 4 = Err 31 /\ data_of repaired wit_rtype [73; 52] 4 = Err 31 /\
  data_of repaired wit_sizes [73; 52] 4 = Err 41 /\ data_of repaired wit_radset [73; 52] 4 = Ok (55, []) /\
  data_of repaired wit_radneg [73; 52] 8 = Err 17.
Proof. vm_compute. repeat split; reflexivity. Qed.

(* a child pointer redirected to an ancestor: the walk runs out of fuel whatever the fuel -- in both states
   (it is the client that walks; the ADF library has no tree walk of its own) *)
Section Cycle.
Variable c : fixes.
Hypothesis Hc : c = legacy \/ c = repaired.
Definition cyc_f : fstate := on_open c wit_cycle (fun f _ => f) (mkfile []).
Definition cyc_root : ptr := (0, 266).

Lemma cyc_gni : get_node_id_top c cyc_f cyc_root [65] = Ok cyc_root.
Proof. unfold cyc_f. destruct Hc as [->| ->]; vm_compute; reflexivity. Qed.
Lemma cyc_visit d : snd (visit c cyc_f cyc_root d) = Some [(cyc_root, [65], d + 1); (cyc_root, [66], d + 1)].
Proof. unfold cyc_f. destruct Hc as [->| ->]; vm_compute; reflexivity. Qed.

Lemma last_cons_app {A} (a : A) l1 l2 d : l2 <> [] -> last (a :: l1 ++ l2) d = last l2 d.
Proof.
  intros H. change (a :: l1 ++ l2) with ((a :: l1) ++ l2). generalize (a :: l1). clear a l1.
  induction l as [|x l IH]; simpl; [reflexivity|].
  destruct (l ++ l2) eqn:E; [apply app_eq_nil in E; destruct E; contradiction|]. exact IH.
Qed.

Lemma last_nonnil {A} (l : list A) d x : last l d = x -> x <> d -> l <> [].
Proof. intros H Hx Hl. subst l. simpl in H. congruence. Qed.

Lemma cyc_loop : forall n d rest, last (walk_loop c n cyc_f ((cyc_root, [65], d) :: rest)) (EvD 0) = EvFuel.
Proof.
  induction n as [|n IH]; intros d rest; [reflexivity|].
  cbn [walk_loop]. rewrite cyc_gni. destruct (visit c cyc_f cyc_root d) as [evs k] eqn:E.
  pose proof (cyc_visit d) as Hk. rewrite E in Hk. simpl in Hk. subst k.
  change ([(cyc_root, [65], d + 1); (cyc_root, [66], d + 1)] ++ rest)
    with ((cyc_root, [65], d + 1) :: (cyc_root, [66], d + 1) :: rest).
  pose proof (IH (d + 1) ((cyc_root, [66], d + 1) :: rest)) as HW.
  rewrite last_cons_app; [exact HW|]. eapply last_nonnil; [exact HW|discriminate].
Qed.

Lemma cycle_any_fuel : forall n, last (walk_events (walk c n wit_cycle)) (EvD 0) = EvFuel.
Proof.
  intros n. unfold walk.
  assert (Ho : database_open c wit_cycle = Ok (cyc_f, cyc_root))
    by (unfold cyc_f; destruct Hc as [->| ->]; vm_compute; reflexivity).
  rewrite Ho.
  assert (Hv : clean (database_version c cyc_f VER_CAP) = true) by (unfold cyc_f; destruct Hc as [->| ->]; vm_compute; reflexivity).
  rewrite Hv. cbn [negb]. destruct (visit c cyc_f cyc_root 0) as [evs k] eqn:E.
  pose proof (cyc_visit 0) as Hk. rewrite E in Hk. simpl in Hk. subst k. cbn [walk_events].
  pose proof (cyc_loop n 1 [(cyc_root, [66], 1)]) as HL.
  rewrite last_cons_app; [exact HL|]. eapply last_nonnil; [exact HL|discriminate].
Qed.
End Cycle.

Theorem cycle_refuted : forall c, c = legacy \/ c = repaired ->
  exists bs, forall n, last (walk_events (walk c n bs)) (EvD 0) = EvFuel.
Proof. intros c Hc. exists wit_cycle. apply cycle_any_fuel. exact Hc. Qed.

(* ================================================================ 6. the repaired code: no forbidden outcome, on EVERY byte string *)
Notation R := repaired.

(* [safe r]: r is none of the outcomes the property forbids.  Ok, Err (clean error return), Ext (the operation leaves the
   modelled fragment: another file, number-format translation) and OutOfFuel (excluded separately, section 7) remain. *)
Definition safe {A} (r : out A) : Prop :=
  match r with OOBW _ | OOBR _ | Uninit | Stale | Abort | UB => False | _ => True end.

Lemma bind_safe {A B} (x : out A) (f : A -> out B) : safe x -> (forall a, x = Ok a -> safe (f a)) -> safe (bind x f).
Proof. destruct x; simpl; auto. Qed.
Lemma recast_safe {A B} (r : out A) : safe r -> safe (@recast A B r).
Proof. destruct r; simpl; auto. Qed.
Lemma safe_ok {A} (a : A) : safe (Ok a). Proof. exact I. Qed.
Lemma safe_err {A} e : safe (@Err A e). Proof. exact I. Qed.
Lemma safe_ext {A} : safe (@Ext A). Proof. exact I. Qed.
#[local] Hint Resolve safe_ok safe_err safe_ext : safe.

(* invariant rule for the early-exit loops *)
Lemma loopN_inv {S A} (step : S -> S + A) (Inv : S -> Prop) (Post : A -> Prop) :
  (forall s, Inv s -> match step s with inl s' => Inv s' | inr r => Post r end) ->
  forall n s, Inv s -> match loopN step n s with inl s' => Inv s' | inr r => Post r end.
Proof.
  intros H. induction n as [|n IH]; intros s Hs; cbn [loopN]; [exact Hs|].
  specialize (H s Hs). destruct (step s) as [s'|r]; [apply IH; exact H|exact H].
Qed.

Lemma hex2uint_safe mn mx s : safe (hex2uint mn mx s).
Proof. destruct (hex2uint_total mn mx s) as [(v & ->)|(e & ->)]; exact I. Qed.
Lemma adjust_safe p : safe (adjust p).
Proof. unfold adjust. destruct p as [b o]. destruct (_ <? _); [exact I|]. destruct (_ <? _); exact I. Qed.
Lemma conv_int_safe fmt s : fmt < 128 -> safe (conv_int fmt s).
Proof.
  intros H. unfold conv_int, conv_mode. destruct (fmt =? 78); [exact I|]. destruct (fmt =? 76); [exact I|].
  destruct (Z.geb_spec fmt 128); [lia|]. destruct ((fmt =? 66) || (fmt =? 67)); exact I.
Qed.
Lemma dp_dec_safe a s : fa_fmt a < 128 -> safe (dp_dec a s).
Proof.
  intros H. unfold dp_dec, dp_from_hex. destruct (fa_old a).
  - apply bind_safe; [apply hex2uint_safe|intros]. apply bind_safe; [apply hex2uint_safe|intros; exact I].
  - apply bind_safe; [apply conv_int_safe; exact H|intros]. apply bind_safe; [apply conv_int_safe; exact H|intros; exact I].
Qed.
Lemma hex_fields_safe n : forall s w mx, safe (hex_fields s w n mx).
Proof.
  induction n; intros; simpl; [exact I|]. apply bind_safe; [apply hex2uint_safe|intros].
  apply bind_safe; [apply IHn|intros; exact I].
Qed.
Lemma int_fields_safe fmt n : fmt < 128 -> forall s w, safe (int_fields fmt s w n).
Proof.
  intros H. induction n; intros; simpl; [exact I|]. apply bind_safe; [apply conv_int_safe; exact H|intros].
  apply bind_safe; [apply IHn|intros; exact I].
Qed.

(* repair 13: ADFI_read_file never serves stale bytes and never copies a negative length *)
Lemma read_file_safe f p len : safe (read_file R f p len).
Proof.
  unfold read_file. destruct p as [b o]. cbn [fx_short repaired andb].
  destruct (_ >? BLK).
  - destruct (_ >=? _); [exact I|]. destruct (len <? 0); [exact I|]. destruct (_ =? _); [exact I|].
    destruct (_ <=? _); exact I.
  - destruct (_ >=? _); [exact I|]. destruct (_ <=? 0); [exact I|].
    destruct (Z.ltb_spec len 0) as [Hl|Hl]; cbn [orb]; [exact I|].
    destruct (Z.gtb_spec (o + len) (Z.min BLK (f_len f - (b * BLK) mod W64))) as [Hg|Hg]; [exact I|].
    destruct (_ =? _); [exact I|]. destruct (Z.leb_spec (o + len) (Z.min BLK (f_len f - (b * BLK) mod W64))); [exact I|lia].
Qed.

(* repair 06: the tag comparison looks at four bytes *)
Lemma tagcheck_safe t tag : safe (tagcheck R t tag).
Proof. exact I. Qed.

Section SafeFile.
Variable f : fstate.
Hypothesis Hf : fa_fmt (f_attr f) < 128.       (* established by ADF_Database_Open, repair 05 *)

Lemma rdpfd_safe p : safe (rdpfd R f p).
Proof.
  unfold rdpfd. destruct (_ >? _); [exact I|]. apply bind_safe; [apply read_file_safe|intros; apply dp_dec_safe; exact Hf].
Qed.

Lemma dec_node_header_safe d : safe (dec_node_header R (f_attr f) d).
Proof.
  unfold dec_node_header. apply bind_safe; [apply tagcheck_safe|intros s _]. destruct (negb s); [exact I|].
  apply bind_safe; [apply tagcheck_safe|intros e _]. destruct (negb e); [exact I|].
  apply bind_safe; [apply hex2uint_safe|intros nsub _]. apply bind_safe; [apply hex2uint_safe|intros ent _].
  destruct (_ && _); [exact I|].
  apply bind_safe; [apply dp_dec_safe; exact Hf|intros snt _]. apply bind_safe; [apply hex2uint_safe|intros nd _].
  apply bind_safe; [destruct (fa_old (f_attr f)); [apply hex_fields_safe|apply int_fields_safe; exact Hf]|intros dims _].
  apply bind_safe; [apply hex2uint_safe|intros nch _]. apply bind_safe; [apply dp_dec_safe; exact Hf|intros dc _]. exact I.
Qed.

Lemma read_node_header_safe p : safe (read_node_header R f p).
Proof. unfold read_node_header. apply bind_safe; [apply read_file_safe|intros; apply dec_node_header_safe]. Qed.

(* what an accepted node header guarantees (repair 01 adds the first item) *)
Lemma read_node_header_post p h : read_node_header R f p = Ok h ->
  nh_nsub h <= nh_entries h /\ 0 <= nh_nsub h < W32 /\ 0 <= nh_entries h < W32 /\ 0 <= nh_ndims h <= 12 /\ 0 <= nh_nchunks h <= 65535.
Proof.
  unfold read_node_header. intros H. apply bind_ok in H. destruct H as (d & _ & H).
  apply node_header_sound in H. destruct H as (_ & _ & Hs & H1 & H2 & H3 & H4 & _).
  specialize (Hs eq_refl). repeat split; lia.
Qed.

(* repair 05: no assert *)
Lemma dec_file_header_safe a d : fa_fmt a < 128 -> safe (dec_file_header R a d).
Proof.
  intros Ha. unfold dec_file_header. destruct (negb _); [exact I|]. cbn [fx_fmt repaired andb negb].
  destruct (negb (fmt_letter (fa_fmt a) && os_letter (fa_os a))); [exact I|].
  apply bind_safe; [apply hex_fields_safe|intros]. repeat (apply bind_safe; [apply dp_dec_safe; exact Ha|intros]). exact I.
Qed.
Lemma read_file_header_safe : safe (read_file_header R f).
Proof. unfold read_file_header. apply bind_safe; [apply read_file_safe|intros; apply dec_file_header_safe; exact Hf]. Qed.

Lemma of_loop_safe {S A} (step : S -> S + out A) n s :
  (forall s r, step s = inr r -> safe r) -> safe (of_loop (loopN step n s)).
Proof.
  intros H. revert s. induction n as [|n IH]; intros s; simpl; [exact I|].
  destruct (step s) as [s'|r] eqn:E; [apply IH|]. simpl. eapply H; eauto.
Qed.

Lemma zstep_safe s r : zstep R f s = inr r -> safe r.
Proof.
  unfold zstep. destruct s as [count cur].
  pose proof (adjust_safe (fst cur, snd cur + 1)) as HA.
  destruct (adjust (fst cur, snd cur + 1)) as [cur'| | | | | | | | |] eqn:EA; intros H; try (inversion H; subst; simpl in *; auto; fail).
  pose proof (read_file_safe f cur' 1) as HR.
  destruct (read_file R f cur' 1) as [c| e | | | | | | | |] eqn:ER; try (inversion H; subst; simpl in *; auto; fail).
  - destruct (_ =? 122); inversion H; subst; exact I.
  - destruct (_ || _); inversion H; subst; exact I.
Qed.

Lemma read_chunk_length_safe p : safe (read_chunk_length R f p).
Proof.
  unfold read_chunk_length. destruct (_ && _); [exact I|]. destruct (_ && _); [exact I|].
  apply bind_safe; [apply read_file_safe|intros c0 _]. destruct (_ =? 122).
  - apply bind_safe; [apply of_loop_safe; apply zstep_safe|intros]. apply bind_safe; [apply adjust_safe|intros; exact I].
  - apply bind_safe; [apply read_file_safe|intros info _]. destruct (tag_eq_ci _ _).
    + apply bind_safe; [apply adjust_safe|intros; exact I].
    + apply bind_safe; [apply dp_dec_safe; exact Hf|intros; exact I].
Qed.

(* ---- repair 01: the sub-node table fits the caller's array and fills it *)
Lemma snt_loop_post n cap : forall fuel st tbl,
  (let '(i, cur, acc) := st in i = Z.of_nat (length acc) /\ 0 <= i <= n) -> n <= cap ->
  loopN (snt_step R f n cap) fuel st = inr (Ok tbl) -> Z.of_nat (length tbl) = n.
Proof.
  induction fuel as [|fuel IH]; intros [[i cur] acc] tbl (Hi & Hr) Hn H; cbn [loopN] in H; [discriminate|].
  unfold snt_step in H at 1. destruct (Z.geb_spec i n) as [G|G].
  - inversion H; subst. rewrite rev_length. lia.
  - match type of H with match (match ?X with _ => _ end) with _ => _ end = _ => destruct X as [[[i' cur'] acc']| | | | | | | | |] eqn:E end;
      try discriminate.
    apply (IH (i', cur', acc') tbl); [|exact Hn|exact H].
    apply bind_ok in E. destruct E as (cur1 & _ & E). apply bind_ok in E. destruct E as (nm & _ & E).
    destruct (Z.geb_spec i cap); [discriminate|].
    apply bind_ok in E. destruct E as (cur2 & _ & E). apply bind_ok in E. destruct E as (cp & _ & E).
    inversion E; subst. cbn [length]. rewrite Nat2Z.inj_succ. lia.
Qed.

Lemma snt_step_safe n cap : n <= cap -> forall s r, snt_step R f n cap s = inr r -> safe r.
Proof.
  intros Hn [[i cur] acc] r. unfold snt_step. destruct (Z.geb_spec i n) as [Hi|Hi]; [intros H; inversion H; exact I|].
  match goal with |- match ?X with _ => _ end = _ -> _ => assert (HS : safe X); [|destruct X; intros H; inversion H; subst; simpl in *; auto] end.
  apply bind_safe; [apply adjust_safe|intros cur1 _]. apply bind_safe; [apply read_file_safe|intros nm _].
  destruct (Z.geb_spec i cap); [lia|]. apply bind_safe; [apply adjust_safe|intros cur2 _].
  apply bind_safe; [apply rdpfd_safe|intros; exact I].
Qed.

Lemma read_snt_safe p cap : safe (read_sub_node_table R f p cap).
Proof.
  unfold read_sub_node_table. apply bind_safe; [apply read_chunk_length_safe|intros [tag e] _].
  cbn [fx_snt repaired andb]. destruct (Z.eqb_spec (snt_count p e) cap) as [E|E]; cbn [negb]; [|exact I].
  apply bind_safe; [apply adjust_safe|intros cur _]. apply of_loop_safe. apply snt_step_safe. lia.
Qed.

Lemma snt_count_nonneg p e : 0 <= snt_count p e.
Proof. unfold snt_count. apply Z.div_pos; [apply Z.mod_pos_bound; reflexivity|reflexivity]. Qed.

Lemma read_snt_length p cap tbl : read_sub_node_table R f p cap = Ok tbl -> Z.of_nat (length tbl) = cap.
Proof.
  unfold read_sub_node_table. intros H. apply bind_ok in H. destruct H as ([tag e] & _ & H).
  cbn [fx_snt repaired andb] in H. destruct (Z.eqb_spec (snt_count p e) cap) as [E|E]; cbn [negb] in H; [|discriminate].
  apply bind_ok in H. destruct H as (cur & _ & H).
  destruct (loopN (snt_step R f (snt_count p e) cap) (Z.to_nat (f_len f / 44) + 2) (0, cur, [])) as [s|r] eqn:EL; [discriminate|].
  cbn [of_loop] in H. subst r. rewrite <- E.
  eapply snt_loop_post; [| |exact EL]; [cbn; pose proof (snt_count_nonneg p e); lia|lia].
Qed.

Lemma c4c_loop_safe tbl cap snt name : forall n i, 0 <= i -> i + Z.of_nat n <= Z.of_nat (length tbl) ->
  safe (c4c_loop tbl cap snt name n i).
Proof.
  induction n as [|n IH]; intros i Hi Hb; [exact I|]. cbn [c4c_loop].
  unfold tbl_get. destruct (nth_error tbl (Z.to_nat i)) as [e|] eqn:E.
  - cbn [bind]. destruct (names_match _ _).
    + apply bind_safe; [apply adjust_safe|intros; exact I].
    + apply IH; lia.
  - apply nth_error_None in E. lia.
Qed.

Lemma toS32_le x : 0 <= x < W32 -> toS32 x <= x.
Proof.
  intros H. unfold toS32. rewrite Z.mod_small by exact H. destruct (_ <? _); unfold W32 in *; lia.
Qed.

(* ADFI_check_4_child_name: every access stays inside sub_node_table[] and reads a cell that was filled *)
Lemma check_4_child_name_safe parent name : safe (check_4_child_name R f parent name).
Proof.
  unfold check_4_child_name. apply bind_safe; [apply read_node_header_safe|intros h Hh].
  apply read_node_header_post in Hh. destruct Hh as (Hle & Hn & He & _).
  destruct (Z.eqb_spec (nh_nsub h) 0); [exact I|].
  destruct (Z.gtb_spec (nh_entries h) 0) as [G|G]; [|lia].
  apply bind_safe; [apply read_snt_safe|intros tbl Ht]. apply read_snt_length in Ht.
  apply c4c_loop_safe; [lia|]. pose proof (toS32_le _ Hn). lia.
Qed.

(* ---- repair 07: data-type sizes *)
Lemma dt_digits_safe : forall s acc, safe (dt_digits R s acc).
Proof.
  induction s as [|c t IH]; intros acc; cbn [dt_digits]; [exact I|].
  destruct (Z.leb_spec 48 c); destruct (Z.leb_spec c 57); cbn [andb]; try exact I. cbn [fx_dtov repaired andb].
  destruct (Z.gtb_spec acc 214748363); [exact I|].
  destruct (Z.gtb_spec (acc * 10 + (c - 48)) INTMAX) as [G|G]; [unfold INTMAX in G; lia|apply IH].
Qed.

Lemma dt_digits_len : forall s acc n r, dt_digits R s acc = Ok (n, r) -> (length r <= length s)%nat /\ 0 <= acc -> (length r <= length s)%nat.
Proof. intros. tauto. Qed.

Lemma dt_digits_suffix : forall s acc n r, dt_digits R s acc = Ok (n, r) -> (length r <= length s)%nat.
Proof.
  induction s as [|c t IH]; intros acc n r H; cbn [dt_digits] in H; [inversion H; subst; simpl; lia|].
  destruct (_ && _).
  - destruct (_ && _); [discriminate|]. destruct (_ >? INTMAX); [discriminate|]. apply IH in H. simpl. lia.
  - inversion H; subst. simpl. lia.
Qed.

Lemma add_bytes_safe t s c : safe (add_bytes R t s c).
Proof. unfold add_bytes. cbn [fx_dtov repaired]. destruct (_ >? _); exact I. Qed.

(* the token array: a token that stays in the array takes at least four characters of the (at most 32) of the type,
   except the last one *)
Definition tok_room (s : bytes) (ntok : Z) : Prop :=
  match s with [] => ntok <= 8 | _ => 4 * ntok + Z.of_nat (length s) <= 32 end.

Lemma dt_parse_safe12 sz : forall fuel s pos0 ntok fb mb teq, 0 <= ntok -> tok_room s ntok ->
  safe (dt_parse R fuel sz 12 s pos0 ntok fb mb teq).
Proof.
  induction fuel as [|fu IH]; intros s pos0 ntok fb mb teq H0 Hr; cbn [dt_parse]; [exact I|].
  destruct s as [|c1 r1].
  - cbn [tok_room] in Hr. destruct (Z.geb_spec ntok 12); [lia|exact I].
  - assert (Hn : ntok <= 7) by (cbn [tok_room length] in Hr; lia).
    destruct (_ && _).
    + destruct (Z.geb_spec ntok 12); [lia|]. destruct (_ && _); exact I.
    + destruct (dt_sizes sz c1 (nth 0 r1 0)) as [[sf sm]|]; [|exact I].
      destruct (Z.geb_spec ntok 12); [lia|].
      destruct r1 as [|c2 r2]; cbn [tl].
      * apply bind_safe; [apply add_bytes_safe|intros]. apply bind_safe; [apply add_bytes_safe|intros].
        apply IH; [lia|cbn; lia].
      * destruct r2 as [|c3 r3].
        -- apply bind_safe; [apply add_bytes_safe|intros]. apply bind_safe; [apply add_bytes_safe|intros].
           apply IH; [lia|cbn; lia].
        -- cbn [tok_room length] in Hr. destruct (c3 =? 91).
           ++ apply bind_safe; [apply dt_digits_safe|intros [n r4] Hd]. apply dt_digits_suffix in Hd.
              destruct r4 as [|c4 r5]; [exact I|]. destruct (negb (c4 =? 93)); [exact I|].
              apply bind_safe; [apply add_bytes_safe|intros]. apply bind_safe; [apply add_bytes_safe|intros].
              cbn [length] in Hd. apply IH; [lia|].
              destruct r5 as [|c5 r6]; [cbn; lia|].
              destruct (c5 =? 44); [destruct r6; cbn [tok_room length] in *; lia|cbn [tok_room length] in *; lia].
           ++ destruct (c3 =? 44); [|exact I].
              apply bind_safe; [apply add_bytes_safe|intros]. apply bind_safe; [apply add_bytes_safe|intros].
              apply IH; [lia|]. destruct r3; cbn [tok_room length] in *; lia.
Qed.

Lemma cstr_len : forall s r, cstr s = Some r -> (length r <= length s)%nat.
Proof.
  induction s as [|c t IH]; intros r H; cbn [cstr] in H; [discriminate|].
  destruct (c =? 0); [inversion H; subst; simpl; lia|].
  destruct (cstr t) as [r'|]; [|discriminate]. inversion H; subst. specialize (IH r' eq_refl). simpl. lia.
Qed.
Lemma cstr_or_all_len s : (length (cstr_or_all s) <= length s)%nat.
Proof. unfold cstr_or_all. destruct (cstr s) eqn:E; [apply cstr_len; exact E|lia]. Qed.
Lemma drop_blanks_len : forall r, (length (drop_blanks r) <= length r)%nat.
Proof. induction r as [|c t IH]; simpl; [lia|]. destruct (c =? 32); simpl; lia. Qed.
Lemma c_string_len s n : (length (c_string s n) <= n)%nat.
Proof.
  unfold c_string. rewrite rev_length.
  eapply Nat.le_trans; [apply drop_blanks_len|]. rewrite rev_length.
  eapply Nat.le_trans; [apply cstr_or_all_len|]. apply firstn_le_length.
Qed.

Lemma eval_dtype_safe12 dtype : safe (eval_dtype R f dtype 12).
Proof.
  unfold eval_dtype. destruct (map upc (c_string dtype 32)) as [|c s] eqn:E; [exact I|].
  apply bind_safe; [apply read_file_header_safe|intros h _].
  apply dt_parse_safe12; [lia|]. cbn [tok_room].
  pose proof (c_string_len dtype 32) as L. rewrite <- (map_length upc), E in L. lia.
Qed.

(* ADFI_string_2_C_string cuts trailing blanks only: what it returns is a prefix of its argument (up to the NUL), and
   what it cuts is blank *)
Lemma drop_blanks_split : forall r, exists b, r = b ++ drop_blanks r /\ Forall (fun c => c = 32) b.
Proof.
  induction r as [|c t (b & E & F)]; [exists []; split; [reflexivity|constructor]|].
  cbn [drop_blanks]. destruct (Z.eqb_spec c 32) as [->|N].
  - exists (32 :: b). split; [simpl; f_equal; exact E|constructor; [reflexivity|exact F]].
  - exists []. split; [reflexivity|constructor].
Qed.
Lemma strip_prefix l : exists t, l = rev (drop_blanks (rev l)) ++ t /\ Forall (fun c => c = 32) t.
Proof.
  destruct (drop_blanks_split (rev l)) as (b & E & F). exists (rev b). split.
  - rewrite <- rev_app_distr, <- E, rev_involutive. reflexivity.
  - apply Forall_rev. exact F.
Qed.

(* a type field that starts with two significant characters and goes on with a blank or a NUL reads as those two
   characters, or as them, a blank and more *)
Lemma two_char_shape t a b : nth 0 t 0 = a -> nth 1 t 0 = b -> a <> 0 -> b <> 0 -> b <> 32 -> (nth 2 t 0 = 32 \/ nth 2 t 0 = 0) ->
  c_string t 32 = [a; b] \/ exists w, c_string t 32 = a :: b :: 32 :: w.
Proof.
  intros H0 H1 Ha Hb Hb32 H2. destruct t as [|a' [|b' [|c u]]]; cbn [nth] in *; try congruence.
  - subst a' b'. left. unfold c_string, cstr_or_all. cbn [firstn cstr].
    destruct (Z.eqb_spec a 0); [contradiction|]. destruct (Z.eqb_spec b 0); [contradiction|]. cbn [option_map rev app drop_blanks].
    destruct (Z.eqb_spec b 32); [contradiction|]. reflexivity.
  - subst a' b'. unfold c_string.
    assert (S : exists w, cstr_or_all (firstn 32 (a :: b :: c :: u)) = [a; b] \/
                          cstr_or_all (firstn 32 (a :: b :: c :: u)) = a :: b :: 32 :: w).
    { change (firstn 32 (a :: b :: c :: u)) with (a :: b :: c :: firstn 29 u). unfold cstr_or_all. cbn [cstr].
      destruct (Z.eqb_spec a 0); [contradiction|]. destruct (Z.eqb_spec b 0); [contradiction|].
      destruct H2 as [->| ->].
      - change (32 =? 0) with false. cbv iota. destruct (cstr (firstn 29 u)) as [r|]; cbn [option_map]; eauto.
      - exists []. left. reflexivity. }
    destruct S as (w & [E|E]); rewrite E.
    + left. cbn [rev app drop_blanks]. destruct (Z.eqb_spec b 32); [contradiction|]. reflexivity.
    + destruct (strip_prefix (a :: b :: 32 :: w)) as (tl & Es & Fb).
      destruct (rev (drop_blanks (rev (a :: b :: 32 :: w)))) as [|x [|y [|z p]]]; cbn [app] in Es.
      * subst tl. inversion Fb as [|? ? ? Fb']; subst. inversion Fb'; subst. contradiction.
      * inversion Es; subst. inversion Fb; subst. contradiction.
      * inversion Es; subst. left. reflexivity.
      * inversion Es; subst. right. eexists. reflexivity.
Qed.

(* the data type of a link node accepted by repair 03: "LK", or "LK" and a blank before anything else *)
Lemma lk_shape t : nth 0 t 0 = 76 -> nth 1 t 0 = 75 -> (nth 2 t 0 = 32 \/ nth 2 t 0 = 0) ->
  map upc (c_string t 32) = [76; 75] \/ exists w, map upc (c_string t 32) = 76 :: 75 :: 32 :: w.
Proof.
  intros H0 H1 H2. destruct (two_char_shape t 76 75 H0 H1 ltac:(lia) ltac:(lia) ltac:(lia) H2) as [E|(w & E)]; rewrite E.
  - left. reflexivity.
  - right. exists (map upc w). reflexivity.
Qed.

(* with such a type ADFI_evaluate_datatype stores one token and the terminator: tokenized_data_type[2] is enough *)
Lemma dt_parse_safe_lk sz s fu : (s = [76; 75] \/ exists w, s = 76 :: 75 :: 32 :: w) ->
  safe (dt_parse R (S (S fu)) sz 2 s true 0 0 0 true).
Proof.
  intros [->|(w & ->)].
  - cbn [dt_parse nth tl]. change ((76 =? 77) && (75 =? 84)) with false. cbv iota.
    destruct (dt_sizes sz 76 75) as [[sf sm]|]; [|exact I]. change (0 >=? 2) with false. cbv iota.
    apply bind_safe; [apply add_bytes_safe|intros]. apply bind_safe; [apply add_bytes_safe|intros]. exact I.
  - cbn [dt_parse nth tl]. change ((76 =? 77) && (75 =? 84)) with false. cbv iota.
    destruct (dt_sizes sz 76 75) as [[sf sm]|]; [|exact I]. change (0 >=? 2) with false. cbv iota.
    change (32 =? 91) with false. change (32 =? 44) with false. exact I.
Qed.

(* ---- data *)
Lemma read_data_chunk_safe p fb teq cb st total room site :
  (direct_read_ok R f teq = true -> total <= room) -> safe (read_data_chunk R f p fb teq cb st total room site).
Proof.
  intros Hd. unfold read_data_chunk. destruct (_ >? cb); [exact I|].
  apply bind_safe; [apply read_chunk_length_safe|intros [tag e] _]. destruct (negb _); [exact I|].
  apply bind_safe; [apply read_file_safe|intros t _]. destruct (negb _); [exact I|].
  apply bind_safe; [apply adjust_safe|intros ds _]. destruct (cb >? _); [exact I|].
  destruct (direct_read_ok R f teq).
  - apply bind_safe; [apply read_file_safe|intros d _]. specialize (Hd eq_refl).
    destruct (Z.gtb_spec total room); [lia|exact I].
  - destruct (_ && _); [|exact I]. destruct (_ =? 0); [exact I|].
    apply bind_safe; [apply read_file_safe|intros; exact I].
Qed.

(* direct copy under repair 14 means: every token of the type has the machine's size; in particular the totals agree *)
Lemma direct_teq teq : direct_read_ok R f teq = true -> teq = true.
Proof. unfold direct_read_ok. cbn [fx_sizes repaired]. destruct (_ =? 76); [cbn; auto|discriminate]. Qed.

Lemma dct_step_safe n cap : n <= cap -> forall s r, dct_step R f n cap s = inr r -> safe r.
Proof.
  intros Hn [[i cur] acc] r. unfold dct_step. destruct (Z.geb_spec i n) as [Hi|Hi]; [intros H; inversion H; exact I|].
  match goal with |- match ?X with _ => _ end = _ -> _ => assert (HS : safe X); [|destruct X; intros H; inversion H; subst; simpl in *; auto] end.
  apply bind_safe; [apply adjust_safe|intros cur1 _]. apply bind_safe; [apply rdpfd_safe|intros s _].
  destruct (Z.geb_spec i cap); [lia|]. apply bind_safe; [apply adjust_safe|intros cur2 _].
  apply bind_safe; [apply rdpfd_safe|intros; exact I].
Qed.

Lemma dct_loop_post n cap : forall fuel st tbl,
  (let '(i, cur, acc) := st in i = Z.of_nat (length acc) /\ 0 <= i <= n) -> n <= cap ->
  loopN (dct_step R f n cap) fuel st = inr (Ok tbl) -> Z.of_nat (length tbl) = n.
Proof.
  induction fuel as [|fuel IH]; intros [[i cur] acc] tbl (Hi & Hr) Hn H; cbn [loopN] in H; [discriminate|].
  unfold dct_step in H at 1. destruct (Z.geb_spec i n) as [G|G].
  - inversion H; subst. rewrite rev_length. lia.
  - match type of H with match (match ?X with _ => _ end) with _ => _ end = _ => destruct X as [[[i' cur'] acc']| | | | | | | | |] eqn:E end;
      try discriminate.
    apply (IH (i', cur', acc') tbl); [|exact Hn|exact H].
    apply bind_ok in E. destruct E as (cur1 & _ & E). apply bind_ok in E. destruct E as (s & _ & E).
    destruct (Z.geb_spec i cap); [discriminate|].
    apply bind_ok in E. destruct E as (cur2 & _ & E). apply bind_ok in E. destruct E as (en & _ & E).
    inversion E; subst. cbn [length]. rewrite Nat2Z.inj_succ. lia.
Qed.

Lemma read_dct_safe p cap : safe (read_dct R f p cap).
Proof.
  unfold read_dct. apply bind_safe; [apply read_chunk_length_safe|intros [tag e] _]. destruct (negb _); [exact I|].
  cbn [fx_dct repaired andb]. destruct (Z.eqb_spec (dct_count p e) cap) as [E|E]; cbn [negb]; [|exact I].
  apply bind_safe; [apply of_loop_safe; apply dct_step_safe; lia|intros tbl _].
  apply bind_safe; [apply read_file_safe|intros t _]. destruct (negb _); exact I.
Qed.

Lemma read_dct_length p cap tbl : 0 <= cap -> read_dct R f p cap = Ok tbl -> Z.of_nat (length tbl) = cap.
Proof.
  unfold read_dct. intros Hc H. apply bind_ok in H. destruct H as ([tag e] & _ & H).
  destruct (negb (tag_eq_ci tag tag_DCtb)); [discriminate|].
  cbn [fx_dct repaired andb] in H. destruct (Z.eqb_spec (dct_count p e) cap) as [E|E]; cbn [negb] in H; [|discriminate].
  apply bind_ok in H. destruct H as (tb & HL & H).
  apply bind_ok in H. destruct H as (t & _ & H). destruct (negb (tag_eq_ci t tag_dcTE)); [discriminate|]. inversion H; subst tb.
  destruct (loopN (dct_step R f (dct_count p e) cap) (Z.to_nat (f_len f / 24) + 2) (0, (fst p, snd p + 4), [])) as [s|r] eqn:EL;
    [discriminate|]. cbn [of_loop] in HL. subst r. rewrite <- E.
  eapply dct_loop_post; [| |exact EL]; [cbn; lia|lia].
Qed.

Lemma div_add_le a b c : 0 <= a -> 0 <= b -> 0 < c -> a / c + b / c <= (a + b) / c.
Proof.
  intros Ha Hb Hc.
  pose proof (Z.div_mod a c ltac:(lia)). pose proof (Z.div_mod b c ltac:(lia)). pose proof (Z.div_mod (a + b) c ltac:(lia)).
  pose proof (Z.mod_pos_bound a c Hc). pose proof (Z.mod_pos_bound b c Hc). pose proof (Z.mod_pos_bound (a + b) c Hc).
  nia.
Qed.

(* repair 15: the loop of ADF_Read_All_Data over the data-chunk table.  [room] = bytes left in the caller's buffer behind
   data_pointer; the invariant says the zero fill of what is still missing fits *)
Section RadLoop.
Variables (teq : bool) (total mb fb : Z).
Hypothesis Hfb : 0 < fb.
Hypothesis Hmb : 0 <= mb.
Hypothesis Hteq : teq = true -> mb = fb.
Definition rad_inv (nread room : Z) : Prop := 0 <= nread <= total /\ ((total - nread) * mb) / fb <= room.

Lemma rad_loop_spec tbl cap : forall n i nread room acc, 0 <= i -> i + Z.of_nat n <= Z.of_nat (length tbl) ->
  rad_inv nread room ->
  safe (rad_loop R f teq tbl cap n i total nread mb fb room acc) /\
  forall nr rm d, rad_loop R f teq tbl cap n i total nread mb fb room acc = Ok (nr, rm, d) -> rad_inv nr rm.
Proof.
  induction n as [|n IH]; intros i nread room acc Hi Hb Hinv.
  - cbn [rad_loop]. split; [exact I|]. intros nr rm d H. inversion H; subst. exact Hinv.
  - cbn [rad_loop]. unfold tbl_get. destruct (nth_error tbl (Z.to_nat i)) as [[s en]|] eqn:E;
      [|apply nth_error_None in E; lia].
    cbn [bind]. cbn [fx_rad repaired andb].
    set (btr0 := toS64 ((fst en - fst s) * BLK + (snd en - snd s) - 16)).
    destruct (Z.ltb_spec btr0 0) as [Hneg|Hpos]; [split; [exact I|discriminate]|].
    set (btr := if nread + btr0 >? total then total - nread else btr0).
    destruct Hinv as (Hn & Hq).
    assert (Hbtr : 0 <= btr <= total - nread) by (unfold btr; destruct (Z.gtb_spec (nread + btr0) total); lia).
    destruct (Z.eqb_spec btr 0) as [Hz|Hz]; [split; [exact I|]; intros nr rm d H; inversion H; subst; split; assumption|].
    assert (Hstep : rad_inv (nread + btr) (room - Z.quot (btr * mb) fb)).
    { split; [lia|]. rewrite Z.quot_div_nonneg by nia.
      pose proof (div_add_le (btr * mb) ((total - (nread + btr)) * mb) fb ltac:(nia) ltac:(nia) Hfb) as D.
      replace (btr * mb + (total - (nread + btr)) * mb) with ((total - nread) * mb) in D by ring. lia. }
    assert (Hread : safe (read_data_chunk R f s fb teq btr 0 btr room 7)).
    { apply read_data_chunk_safe. intros Hd. apply direct_teq in Hd. rewrite (Hteq Hd) in Hq.
      rewrite Z.div_mul in Hq by lia. lia. }
    destruct (read_data_chunk R f s fb teq btr 0 btr room 7) as [d| | | | | | | | |] eqn:Er; cbn [bind];
      try (split; [exact Hread|discriminate]).
    apply IH; [lia|lia|exact Hstep].
Qed.
End RadLoop.

(* ---- repair 08 / 14 / 15: the caller's buffer.  The client (harness/c13_adf.c, cgio_read_all_data_type) brings
   mach_size(type) * count bytes and names the type it was told *)
Definition simple_types : list (Z * Z) :=
  [(67, 49); (66, 49); (73, 52); (85, 52); (82, 52); (73, 56); (85, 56); (82, 56); (88, 52); (88, 56)].

Lemma mach_size_types t : 0 < mach_size t -> exists c1 c2, t = [c1; c2] /\ In (c1, c2) simple_types.
Proof.
  unfold mach_size. intros H. destruct t as [|c1 [|c2 [|c3 u]]]; cbv iota in H; try lia.
  exists c1, c2. split; [reflexivity|].
  destruct (Z.eqb_spec c2 49) as [E2|N1]; [|destruct (Z.eqb_spec c2 52) as [E2|N2]; [|destruct (Z.eqb_spec c2 56) as [E2|N3]]];
    try subst c2.
  - destruct (Z.eqb_spec c1 67) as [E1|]; [subst c1; cbn; tauto|]. destruct (Z.eqb_spec c1 66) as [E1|]; [subst c1; cbn; tauto|].
    cbn in H. rewrite ?Bool.andb_false_r in H. cbn in H. lia.
  - destruct (Z.eqb_spec c1 73) as [E1|]; [subst c1; cbn; tauto|]. destruct (Z.eqb_spec c1 85) as [E1|]; [subst c1; cbn; tauto|].
    destruct (Z.eqb_spec c1 82) as [E1|]; [subst c1; cbn; tauto|]. destruct (Z.eqb_spec c1 88) as [E1|]; [subst c1; cbn; tauto|].
    cbn in H. rewrite ?Bool.andb_false_r in H. cbn in H. lia.
  - destruct (Z.eqb_spec c1 73) as [E1|]; [subst c1; cbn; tauto|]. destruct (Z.eqb_spec c1 85) as [E1|]; [subst c1; cbn; tauto|].
    destruct (Z.eqb_spec c1 82) as [E1|]; [subst c1; cbn; tauto|]. destruct (Z.eqb_spec c1 88) as [E1|]; [subst c1; cbn; tauto|].
    cbn in H. rewrite ?Bool.andb_false_r in H. cbn in H. lia.
  - rewrite ?Bool.andb_false_r in H. cbn in H. lia.
Qed.

Lemma hex_fields_range n : forall s w mx vs, hex_fields s w n mx = Ok vs -> Forall (fun v => 0 <= v <= mx) vs.
Proof.
  induction n as [|n IH]; intros s w mx vs H; cbn [hex_fields] in H; [inversion H; constructor|].
  apply bind_ok in H. destruct H as (v & Hv & H). apply bind_ok in H. destruct H as (r & Hr & H). inversion H; subst.
  constructor; [apply hex2uint_ok_range in Hv; lia|eapply IH; exact Hr].
Qed.
Lemma nth_bound (sz : list Z) i mx : Forall (fun v => 0 <= v <= mx) sz -> 0 <= mx -> 0 <= nth i sz 0 <= mx.
Proof.
  intros F Hm. revert i. induction F as [|v t Hv Ht IH]; intros [|i]; cbn [nth]; try lia. apply IH.
Qed.
Lemma read_file_header_sizes h : read_file_header R f = Ok h -> Forall (fun v => 0 <= v <= 255) (fh_sizes h).
Proof.
  unfold read_file_header. intros H. apply bind_ok in H. destruct H as (d & _ & H). unfold dec_file_header in H.
  destruct (negb (header_tags_ok d)); [discriminate|]. destruct (_ && _); [discriminate|]. destruct (_ && _); [discriminate|].
  apply bind_ok in H. destruct H as (sz & Hs & H). apply hex_fields_range in Hs.
  apply bind_ok in H. destruct H as (r & _ & H). apply bind_ok in H. destruct H as (e & _ & H).
  apply bind_ok in H. destruct H as (fr & _ & H). apply bind_ok in H. destruct H as (x & _ & H). inversion H; subst. exact Hs.
Qed.

Lemma add_bytes_first s : add_bytes R 0 s 1 = if s >? INTMAX then Err E_INVALID_DATA_TYPE else Ok s.
Proof. unfold add_bytes. cbn [fx_dtov repaired]. rewrite Z.mul_1_r, Z.add_0_l. reflexivity. Qed.

(* the outcome of ADFI_evaluate_datatype on a two-character type: the machine size is mach_size, the file size comes
   from the header, and "sizes agree" means exactly that *)
Lemma dt_parse_simple sz c1 c2 fu fb mb teq : In (c1, c2) simple_types -> Forall (fun v => 0 <= v <= 255) sz ->
  dt_parse R (S (S fu)) sz 12 [c1; c2] true 0 0 0 true = Ok (fb, mb, teq) ->
  mb = mach_size [c1; c2] /\ 0 <= fb <= 510 /\ (teq = true -> fb = mb).
Proof.
  intros Hin Hsz H.
  pose proof (nth_bound sz 0 255 Hsz ltac:(lia)) as B0. pose proof (nth_bound sz 2 255 Hsz ltac:(lia)) as B2.
  pose proof (nth_bound sz 3 255 Hsz ltac:(lia)) as B3. pose proof (nth_bound sz 4 255 Hsz ltac:(lia)) as B4.
  pose proof (nth_bound sz 5 255 Hsz ltac:(lia)) as B5.
  unfold simple_types in Hin. cbn [In] in Hin.
  repeat (destruct Hin as [E|Hin]; [inversion E; subst c1 c2; clear E|]); try contradiction;
    cbn [dt_parse tl] in H; cbv beta iota delta [nth] in H; unfold dt_sizes in H;
    cbn [Z.eqb Pos.eqb andb orb] in H; change (0 >=? 12) with false in H; change (0 + 1 >=? 12) with false in H;
    cbv iota in H; rewrite !add_bytes_first in H;
    repeat match type of H with context [?x >? INTMAX] => destruct (Z.gtb_spec x INTMAX); [exfalso; unfold INTMAX in *; lia|] end;
    cbv beta iota delta [bind] in H;
    match goal with |- context [mach_size ?t] => let v := eval vm_compute in (mach_size t) in change (mach_size t) with v end;
    inversion H; subst;
    (split; [reflexivity|split; [first [lia | destruct (nth 4 sz 0); lia | destruct (nth 5 sz 0); lia]|]]); intros Ht;
    first [reflexivity | apply Bool.andb_true_iff in Ht; destruct Ht as [_ Ht]; apply Z.eqb_eq in Ht; exact Ht].
Qed.

Lemma toS64_small x : 0 <= x < H63 -> toS64 x = x.
Proof.
  intros H. unfold toS64. rewrite Z.mod_small by (unfold W64, H63 in *; lia). destruct (Z.ltb_spec x H63); lia.
Qed.
Lemma upc_simple c1 c2 : In (c1, c2) simple_types -> map upc [c1; c2] = [c1; c2].
Proof.
  unfold simple_types. cbn [In]. intros H.
  repeat (destruct H as [E|H]; [inversion E; subst; reflexivity|]). contradiction.
Qed.

Lemma upc_simple2 c1 c2 : In (c1, c2) simple_types -> upc c1 = c1 /\ upc c2 = c2.
Proof.
  unfold simple_types. cbn [In]. intros H.
  repeat (destruct H as [E|H]; [inversion E; subst; split; reflexivity|]). contradiction.
Qed.
Lemma simple_type_chars c1 c2 : In (c1, c2) simple_types -> c1 <> 0 /\ c2 <> 0 /\ c2 <> 32.
Proof.
  unfold simple_types. cbn [In]. intros H.
  repeat (destruct H as [E|H]; [inversion E; subst; repeat split; discriminate|]). contradiction.
Qed.
Lemma dt_sizes_some sz c1 c2 : In (c1, c2) simple_types -> exists p, dt_sizes sz c1 c2 = Some p /\ ((c1 =? 77) && (c2 =? 84)) = false.
Proof.
  unfold simple_types. cbn [In]. intros H.
  repeat (destruct H as [E|H]; [inversion E; subst; eexists; split; reflexivity|]). contradiction.
Qed.

Lemma dt_parse_blank_err sz c1 c2 w fu : In (c1, c2) simple_types ->
  dt_parse R (S (S fu)) sz 12 (c1 :: c2 :: 32 :: w) true 0 0 0 true = Err E_INVALID_DATA_TYPE.
Proof.
  intros Hin. destruct (dt_sizes_some sz _ _ Hin) as ([sf sm] & Ep & Emt).
  cbn [dt_parse tl]. cbv beta iota delta [nth]. rewrite Emt, Ep.
  change (0 >=? 12) with false. change (32 =? 91) with false. change (32 =? 44) with false. reflexivity.
Qed.

(* ADF_Read_All_Data into a buffer of mach_size(type) * count bytes, the type being the one ADF_Get_Data_Type names *)
Lemma read_all_data_safe h t cnt : 0 < mach_size t -> cnt = prod_dims h -> 0 <= cnt -> cnt * mach_size t <= DATA_CAP ->
  0 <= nh_nchunks h -> safe (read_all_data R f h t (cnt * mach_size t)).
Proof.
  intros Hms Hcnt Hc0 Hcap Hnch. unfold read_all_data. cbn [fx_rtype repaired andb].
  destruct (mach_size_types t Hms) as (c1 & c2 & Et & Hin). rewrite Et in *.
  destruct (simple_type_chars _ _ Hin) as (Hc1 & Hc2 & Hc3).
  destruct (strncmp2_eq [c1; c2] (nh_dtype h)) eqn:Es; cbn [negb orb]; [|exact I].
  change (nth 2 ([c1; c2] ++ [0; 0; 0]) 0 =? 0) with true. cbn [andb].
  destruct ((nth 2 (nh_dtype h) 0 =? 32) || (nth 2 (nh_dtype h) 0 =? 0)) eqn:E2; cbn [negb]; [|exact I].
  unfold strncmp2_eq in Es. cbn [app nth] in Es. apply Bool.andb_true_iff in Es. destruct Es as [Es0 Es1].
  apply Z.eqb_eq in Es0. destruct (Z.eqb_spec c1 0); [contradiction|]. cbn [orb] in Es1. apply Z.eqb_eq in Es1.
  assert (H2 : nth 2 (nh_dtype h) 0 = 32 \/ nth 2 (nh_dtype h) 0 = 0)
    by (apply Bool.orb_true_iff in E2; destruct E2 as [E|E]; apply Z.eqb_eq in E; auto).
  pose proof read_file_header_safe as HS. unfold eval_dtype.
  destruct (two_char_shape (nh_dtype h) c1 c2 (eq_sym Es0) (eq_sym Es1) Hc1 Hc2 Hc3 H2) as [Eb|(w & Eb)]; rewrite Eb.
  2:{ (* the type goes on after a blank: ADFI_evaluate_datatype refuses it *)
      destruct (upc_simple2 _ _ Hin) as (U1 & U2). cbn [map]. rewrite U1, U2. change (upc 32) with 32.
      destruct (read_file_header R f) as [h0| | | | | | | | |]; cbn [bind]; try exact HS.
      change 40%nat with (S (S 38)). rewrite (dt_parse_blank_err _ _ _ _ _ Hin). exact I. }
  rewrite (upc_simple _ _ Hin).
  destruct (read_file_header R f) as [h0| | | | | | | | |] eqn:Eh; cbn [bind]; try exact HS.
  pose proof (read_file_header_sizes _ Eh) as Hsz.
  change 40%nat with (S (S 38)).
  pose proof (dt_parse_safe12 (fh_sizes h0) (S (S 38)) [c1; c2] true 0 0 0 true ltac:(lia) ltac:(cbn; lia)) as HD.
  destruct (dt_parse R (S (S 38)) (fh_sizes h0) 12 [c1; c2] true 0 0 0 true) as [[[fb mb] teq]| | | | | | | | |] eqn:Ed;
    cbn [bind]; try exact HD.
  apply (dt_parse_simple _ _ _ _ _ _ _ Hin Hsz) in Ed. destruct Ed as (Emb & Hfb & Hteq).
  set (ms := mach_size [c1; c2]) in *. subst mb.
  destruct (Z.eqb_spec fb 0) as [|Hnz]; [exact I|]. cbn [orb]. destruct (nh_ndims h =? 0); [exact I|].
  rewrite <- Hcnt. unfold DATA_CAP in Hcap.
  assert (Hms16 : ms <= 16).
  { unfold ms, simple_types in *. cbn [In] in Hin. repeat (destruct Hin as [E|Hin]; [inversion E; subst; cbn; lia|]). contradiction. }
  rewrite (toS64_small (fb * cnt)) by (unfold H63; nia).
  destruct (nh_nchunks h =? 0) eqn:E0; [|destruct (nh_nchunks h =? 1) eqn:E1].
  - rewrite (toS64_small (fb * cnt * ms)) by (unfold H63; nia).
    replace (fb * cnt * ms) with (cnt * ms * fb) by ring. rewrite Z.quot_mul by lia.
    rewrite Z.mod_small by (unfold W64; nia). destruct (Z.gtb_spec (cnt * ms) (cnt * ms)); [lia|exact I].
  - apply bind_safe; [|intros; exact I]. apply read_data_chunk_safe. intros Hd. apply direct_teq in Hd. rewrite (Hteq Hd). lia.
  - apply bind_safe; [apply read_dct_safe|intros tbl Ht]. apply read_dct_length in Ht; [|exact Hnch].
    assert (Hinv : rad_inv (fb * cnt) ms fb 0 (cnt * ms)).
    { split; [nia|]. rewrite Z.sub_0_r. replace (fb * cnt * ms) with (cnt * ms * fb) by ring. rewrite Z.div_mul by lia. lia. }
    destruct (rad_loop_spec teq (fb * cnt) ms fb ltac:(lia) ltac:(lia) (fun E => eq_sym (Hteq E)) tbl (nh_nchunks h) (Z.to_nat (nh_nchunks h)) 0 0 (cnt * ms) []
                ltac:(lia) ltac:(lia) Hinv) as (Hsafe & Hpost).
    destruct (rad_loop R f teq tbl (nh_nchunks h) (Z.to_nat (nh_nchunks h)) 0 (fb * cnt) 0 ms fb (cnt * ms) [])
      as [[[nread room] d]| | | | | | | | |] eqn:Er; cbn [bind]; try exact Hsafe.
    destruct (Hpost _ _ _ eq_refl) as (Hn & Hq). cbn [fx_rad repaired].
    destruct (nread <? fb * cnt); [|exact I].
    assert (HX0 : 0 <= (fb * cnt - nread) * ms < H63) by (unfold H63; nia).
    rewrite (toS64_small _ HX0). clear HX0.
    assert (HX : 0 <= (fb * cnt - nread) * ms <= 510 * 65536 * 16) by nia.
    set (X := (fb * cnt - nread) * ms) in *.
    rewrite Z.quot_div_nonneg by lia.
    assert (0 <= X / fb) by (apply Z.div_pos; lia).
    assert (X / fb <= X) by (apply Z.div_le_upper_bound; nia).
    rewrite Z.mod_small by (unfold W64; lia).
    destruct (Z.gtb_spec (X / fb) room); [lia|exact I].
Qed.

(* ---- repair 03: link nodes *)
Hypothesis Hlen : f_len f = Z.of_nat (length (f_bytes f)).      (* mkfile *)

Lemma iter_tl_length {A} (l : list A) p : length (Pos.iter (@tl A) l p) = (length l - Pos.to_nat p)%nat.
Proof.
  induction p using Pos.peano_ind.
  - simpl. destruct l; simpl; lia.
  - rewrite Pos.iter_succ, Pos2Nat.inj_succ. destruct (Pos.iter (@tl A) l p) eqn:E; simpl in *; lia.
Qed.
Lemma sliceZ_length (bs : bytes) off len : 0 <= off -> 0 <= len -> off + len <= Z.of_nat (length bs) ->
  length (sliceZ bs off len) = Z.to_nat len.
Proof.
  intros Ho Hl Hb. unfold sliceZ, skipZ. rewrite firstn_length. destruct off as [|p|p]; try lia.
  rewrite iter_tl_length. lia.
Qed.
Lemma read_file_nonempty p len d : 1 <= len -> read_file R f p len = Ok d -> (1 <= length d)%nat.
Proof.
  intros Hl. unfold read_file. destruct p as [b o]. cbn [fx_short repaired andb]. destruct (_ >? BLK).
  - destruct (Z.geb_spec ((b * BLK + o) mod W64) H63); [discriminate|]. destruct (len <? 0); [discriminate|].
    destruct (Z.eqb_spec len 0); [lia|].
    destruct (Z.leb_spec ((b * BLK + o) mod W64 + len) (f_len f)); [|discriminate].
    intros HH; inversion HH; subst. rewrite sliceZ_length; try lia. apply Z.mod_pos_bound. reflexivity.
  - destruct (Z.geb_spec ((b * BLK) mod W64) H63); [discriminate|].
    destruct (Z.leb_spec (Z.min BLK (f_len f - (b * BLK) mod W64)) 0) as [|Hav]; [discriminate|].
    destruct (Z.ltb_spec len 0); [lia|]. cbn [orb].
    destruct (Z.gtb_spec (o + len) (Z.min BLK (f_len f - (b * BLK) mod W64))); [discriminate|].
    destruct (Z.eqb_spec len 0); [lia|].
    destruct (Z.leb_spec (o + len) (Z.min BLK (f_len f - (b * BLK) mod W64))); [|lia].
    intros HH; inversion HH; subst.
    assert (0 <= (b * BLK) mod W64) by (apply Z.mod_pos_bound; reflexivity).
    destruct (Z.ltb_spec ((b * BLK) mod W64 + o) 0) as [Hneg|Hpos].
    + unfold sliceZ, skipZ. rewrite firstn_length. destruct ((b * BLK) mod W64 + o) as [|q|q] eqn:Eo; lia.
    + rewrite sliceZ_length; lia.
Qed.

Lemma read_data_chunk_nonempty p fb teq cb st total room site d :
  1 <= total -> (Z.quot total fb) mod W64 <> 0 -> read_data_chunk R f p fb teq cb st total room site = Ok d -> (1 <= length d)%nat.
Proof.
  intros Ht Hq. unfold read_data_chunk. destruct (_ >? cb); [discriminate|]. intros H.
  apply bind_ok in H. destruct H as ([tag e] & _ & H). destruct (negb _); [discriminate|].
  apply bind_ok in H. destruct H as (t & _ & H). destruct (negb _); [discriminate|].
  apply bind_ok in H. destruct H as (ds & _ & H). destruct (cb >? _); [discriminate|].
  destruct (direct_read_ok R f teq).
  - apply bind_ok in H. destruct H as (d' & Hd & H). destruct (total >? room); [discriminate|]. inversion H; subst.
    eapply read_file_nonempty; [|exact Hd]. lia.
  - destruct (_ && _); [|discriminate]. destruct (Z.eqb_spec ((Z.quot total fb) mod W64) 0); [contradiction|].
    apply bind_ok in H. destruct H as (x & _ & H). discriminate.
Qed.

Lemma split_link_safe full capf capp : 1025 <= capf -> 4097 <= capp -> (2 <= length full)%nat ->
  safe (split_link R full capf capp).
Proof.
  intros Hf1 Hp1 Hl. unfold split_link. cbn [fx_lfile fx_lpath fx_lnosep repaired andb].
  destruct (index_of 62 (cstr_or_all full)) as [[|k]|].
  - destruct full as [|x [|y t]]; cbn [length] in Hl; try lia.
    destruct (Z.gtb_spec (Z.of_nat (length (cstr_or_all (y :: t)))) 4096); [exact I|].
    destruct (Z.gtb_spec (Z.of_nat (length (cstr_or_all (y :: t))) + 1) capp); [lia|exact I].
  - destruct (Z.gtb_spec (Z.of_nat (S k)) 1024); cbn [orb]; [exact I|].
    destruct (Z.gtb_spec (Z.of_nat (length (skipn (S (S k)) (cstr_or_all full)))) 4096); [exact I|].
    destruct (Z.gtb_spec (Z.of_nat (S k) + 1) capf); [lia|]. cbn [orb].
    destruct (Z.gtb_spec (Z.of_nat (length (skipn (S (S k)) (cstr_or_all full))) + 1) capp); [lia|exact I].
  - destruct full as [|x [|y t]]; cbn [length] in Hl; try lia.
    destruct (Z.gtb_spec (Z.of_nat (length (cstr_or_all (y :: t)))) 4096); [exact I|].
    destruct (Z.gtb_spec (Z.of_nat (length (cstr_or_all (y :: t))) + 1) capp); [lia|exact I].
Qed.

Lemma toS32_small x : 0 <= x < 2147483648 -> toS32 x = x.
Proof. intros H. unfold toS32. rewrite Z.mod_small by (unfold W32; lia). destruct (Z.ltb_spec x 2147483648); lia. Qed.

(* ADF_Get_Link_Path with the caller's buffers no smaller than ADFI_chase_link's *)
Lemma get_link_path_safe id capf capp : 1025 <= capf -> 4097 <= capp -> safe (get_link_path R f id capf capp).
Proof.
  intros Hf1 Hp1. unfold get_link_path. apply bind_safe; [apply read_node_header_safe|intros h _].
  destruct (is_LK h) eqn:ELK; cbn [negb]; [|exact I]. cbn [fx_link repaired andb negb].
  destruct ((nth 2 (nh_dtype h) 0 =? 32) || (nth 2 (nh_dtype h) 0 =? 0)) eqn:E2; cbn [negb]; [|exact I].
  assert (Hshape : map upc (c_string (nh_dtype h) 32) = [76; 75] \/ exists w, map upc (c_string (nh_dtype h) 32) = 76 :: 75 :: 32 :: w).
  { unfold is_LK in ELK. apply Bool.andb_true_iff in ELK. destruct ELK as [A B]. apply Z.eqb_eq in A, B.
    apply lk_shape; [exact A|exact B|]. apply Bool.orb_true_iff in E2. destruct E2 as [E|E]; apply Z.eqb_eq in E; auto. }
  assert (HE : safe (eval_dtype R f (nh_dtype h) 2)).
  { unfold eval_dtype. destruct (map upc (c_string (nh_dtype h) 32)) as [|c s] eqn:Es; [exact I|].
    apply bind_safe; [apply read_file_header_safe|intros h0 _]. change 40%nat with (S (S 38)). apply dt_parse_safe_lk.
    destruct Hshape as [Hs|(w & Hs)]; [left; exact Hs|right; exists w; exact Hs]. }
  destruct (eval_dtype R f (nh_dtype h) 2) as [[[fb mb] teq]| | | | | | | | |]; cbn [bind]; try exact HE.
  destruct (nh_ndims h =? 1); cbn [negb]; [|exact I].
  set (d0 := nth 0 (nh_dims h) 0).
  destruct (Z.ltb_spec fb 1) as [|Hfb]; cbn [orb]; [exact I|].
  destruct (Z.ltb_spec d0 1) as [|Hd0]; cbn [orb]; [exact I|].
  destruct (Z.gtb_spec d0 ((LINK_BUF - 1) / fb)) as [|Hmax]; [exact I|].
  assert (Hprod : fb * d0 <= 5121).
  { unfold LINK_BUF in Hmax. change (5122 - 1) with 5121 in Hmax.
    pose proof (Z.mul_div_le 5121 fb ltac:(lia)). nia. }
  assert (Hd5 : d0 <= 5121) by nia.
  rewrite (toS32_small d0) by lia. rewrite (toS32_small (fb * d0)) by nia.
  pose proof (read_data_chunk_safe (nh_data h) fb teq (fb * d0) 0 (fb * d0) LINK_BUF 3 ltac:(unfold LINK_BUF; lia)) as HR.
  destruct (read_data_chunk R f (nh_data h) fb teq (fb * d0) 0 (fb * d0) LINK_BUF 3) as [d| | | | | | | | |] eqn:Er; cbn [bind]; try exact HR.
  destruct (Z.geb_spec d0 LINK_BUF); [unfold LINK_BUF in *; lia|].
  apply split_link_safe; [exact Hf1|exact Hp1|].
  apply read_data_chunk_nonempty in Er; [|nia|].
  - rewrite app_length, firstn_length. cbn [length]. lia.
  - replace (fb * d0) with (d0 * fb) by ring. rewrite Z.quot_mul by lia. rewrite Z.mod_small by (unfold W64; lia). lia.
Qed.

(* ---- links are chased by mutually recursive ADFI_chase_link / ADF_Get_Node_ID *)
Lemma id_of_ptr_safe p : safe (id_of_ptr p).
Proof. unfold id_of_ptr. destruct (_ >=? _); exact I. Qed.

Lemma chase_loop_safe g : (forall x y, safe (g x y)) -> forall n id depth, safe (chase_loop R g f n id depth).
Proof.
  intros Hg. induction n as [|n IH]; intros id depth; cbn [chase_loop]; [exact I|].
  apply bind_safe; [apply read_node_header_safe|intros h _]. destruct (is_LK h); [|exact I].
  apply bind_safe; [apply get_link_path_safe; lia|intros [file path] _].
  destruct file; [|exact I].
  apply bind_safe; [apply Hg|intros t _].
  apply bind_safe; [|intros t2 _; destruct (_ >? 100); [exact I|apply IH]].
  pose proof (Hg t path) as H. destruct (g t path); try exact H. destruct (_ =? 29); exact I.
Qed.

Lemma chase_loop_post g : forall n id depth lid h, chase_loop R g f n id depth = Ok (lid, h) -> read_node_header R f lid = Ok h.
Proof.
  induction n as [|n IH]; intros id depth lid h H; cbn [chase_loop] in H; [discriminate|].
  destruct (read_node_header R f id) as [h0| | | | | | | | |] eqn:E; cbn [bind] in H; try discriminate.
  destruct (is_LK h0).
  - apply bind_ok in H. destruct H as ([file path] & _ & H). destruct file; [|discriminate].
    apply bind_ok in H. destruct H as (t & _ & H). apply bind_ok in H. destruct H as (t2 & _ & H).
    destruct (_ >? 100); [discriminate|]. eapply IH; exact H.
  - inversion H; subst. exact E.
Qed.

Lemma gni_tokens_safe chase : (forall x, safe (chase x)) -> forall toks parent cur, safe (gni_tokens R chase f toks parent cur).
Proof.
  intros Hc. induction toks as [|tok rest IH]; intros parent cur; cbn [gni_tokens]; [exact I|].
  apply bind_safe; [apply check_4_child_name_safe|intros r _]. destruct r as [loc|]; [|exact I].
  destruct rest as [|tok2 rest2]; [apply id_of_ptr_safe|].
  apply bind_safe; [apply Hc|intros [lid hh] _]. apply IH.
Qed.

Lemma chase_at_safe g nest id : (forall x y, safe (g x y)) -> safe (chase_at R g f nest id).
Proof. intros Hg. unfold chase_at. destruct (_ && _); [exact I|]. apply chase_loop_safe. exact Hg. Qed.

Lemma get_node_id_safe : forall fuel nest pid name, safe (get_node_id R fuel f nest pid name).
Proof.
  induction fuel as [|fu IH]; intros nest pid name; cbn [get_node_id]; [exact I|].
  destruct name as [|c rest]; [exact I|].
  apply bind_safe.
  { destruct (c =? 47); [|exact I]. apply bind_safe; [apply read_file_header_safe|intros; apply id_of_ptr_safe]. }
  intros id0 _. destruct (_ && _); [exact I|].
  destruct (split_slash (c :: rest)) as [|t0 ts]; [exact I|].
  assert (Hc : forall x, safe (chase_at R (get_node_id R fu f (nest + 1)) f nest x))
    by (intros; apply chase_at_safe; intros; apply IH).
  apply bind_safe; [apply Hc|intros [lid hh] _]. apply gni_tokens_safe. exact Hc.
Qed.

Lemma chase_link_safe id : safe (chase_link R f id).
Proof. unfold chase_link. apply chase_at_safe. intros. apply get_node_id_safe. Qed.
Lemma chase_link_post id lid h : chase_link R f id = Ok (lid, h) -> read_node_header R f lid = Ok h.
Proof.
  unfold chase_link, chase_at. destruct (_ && _); [discriminate|]. apply chase_loop_post.
Qed.

(* ---- children *)
Lemma children_loop_safe : forall n cur, safe (children_loop R f n cur).
Proof.
  induction n as [|n IH]; intros cur; cbn [children_loop]; [exact I|].
  apply bind_safe; [apply adjust_safe|intros cur1 _]. apply bind_safe; [apply read_file_safe|intros d _].
  apply bind_safe; [unfold dec_snt_entry; apply bind_safe; [apply dp_dec_safe; exact Hf|intros; exact I]|intros e _].
  apply bind_safe; [apply IH|intros; exact I].
Qed.
Lemma children_entries_safe h imax : safe (children_entries R f h imax).
Proof. unfold children_entries. destruct (_ =? 0); [exact I|]. apply children_loop_safe. Qed.
Lemma ids_of_safe : forall es, safe (ids_of es).
Proof.
  induction es as [|e t IH]; cbn [ids_of]; [exact I|]. apply bind_safe; [apply id_of_ptr_safe|intros].
  apply bind_safe; [exact IH|intros; exact I].
Qed.
Lemma is_link_safe id : safe (is_link R f id).
Proof. unfold is_link. apply bind_safe; [apply read_node_header_safe|intros; exact I]. Qed.

(* ---- what the client sees *)
Definition ev_safe (e : ev) : Prop :=
  match e with
  | EvN _ r => safe r | EvK0 r => safe r | EvK r => safe r | EvL r => safe r | EvV r => safe r | EvX r => safe r
  | EvM r => safe r | EvI r => safe r | EvG r => safe r | EvVer r => safe r | _ => True
  end.

Lemma Forall_app2 {A} (P : A -> Prop) l1 l2 : Forall P l1 -> Forall P l2 -> Forall P (l1 ++ l2).
Proof. intros. apply Forall_app. split; assumption. Qed.

Lemma visit_kids_safe id depth h head : Forall ev_safe head -> Forall ev_safe (fst (visit_kids R f id depth h head)).
Proof.
  intros Hh. unfold visit_kids. destruct (_ >? 0); [|exact Hh].
  pose proof (children_entries_safe h (Z.min (toS32 (nh_nsub h)) KIDS_CAP)) as HC.
  destruct (children_entries R f h (Z.min (toS32 (nh_nsub h)) KIDS_CAP)) as [es| | | | | | | | |]; cbn [fst];
    try solve [apply Forall_app2; [exact Hh|constructor; [exact HC|constructor]]].
  apply Forall_app2; [exact Hh|]. constructor; [exact I|]. constructor; [apply ids_of_safe|constructor].
Qed.

Lemma prod_pos : forall l acc, 0 <= acc -> forallb (fun d => (0 <? d) && (d <=? DATA_CAP)) l = true -> 0 <= fold_left Z.mul l acc.
Proof.
  induction l as [|d t IH]; intros acc Ha H; cbn [fold_left]; [exact Ha|].
  cbn [forallb] in H. apply Bool.andb_true_iff in H. destruct H as [Hd Ht]. apply Bool.andb_true_iff in Hd. destruct Hd as [Hd _].
  apply Z.ltb_lt in Hd. apply IH; [nia|exact Ht].
Qed.

Lemma visit_chased_safe id depth pre : Forall ev_safe pre -> Forall ev_safe (fst (visit_chased R f id depth pre)).
Proof.
  intros Hp. unfold visit_chased.
  pose proof (chase_link_safe id) as HC. pose proof (chase_link_post id) as HP.
  destruct (chase_link R f id) as [[lid h]| | | | | | | | |]; cbn [fst];
    try solve [apply Forall_app2; [exact Hp|constructor; [exact HC|constructor]]].
  specialize (HP lid h eq_refl). apply read_node_header_post in HP. destruct HP as (_ & _ & _ & _ & Hnch).
  assert (Hpre2 : Forall ev_safe (pre ++ [EvL (Ok (c_string (nh_label h) 32)); EvT (c_string (nh_dtype h) 2); EvD (nh_ndims h)]))
    by (apply Forall_app2; [exact Hp|repeat constructor]).
  cbn [fx_dim repaired andb].
  destruct ((nh_ndims h >? 0) && negb (forallb (fun d => d <? H63) (firstn (Z.to_nat (nh_ndims h)) (nh_dims h)))); cbn [fst].
  - apply Forall_app2; [exact Hpre2|repeat constructor].
  - set (head := (pre ++ _) ++ _ ++ _).
    assert (Hhead : Forall ev_safe head).
    { unfold head. apply Forall_app2; [exact Hpre2|]. apply Forall_app2; [destruct (_ >? 0); repeat constructor|repeat constructor]. }
    destruct ((mach_size (c_string (nh_dtype h) 2) >? 0) && (nh_ndims h >? 0) &&
              forallb (fun d => (0 <? d) && (d <=? DATA_CAP)) (firstn (Z.to_nat (nh_ndims h)) (nh_dims h)) &&
              (prod_dims h * mach_size (c_string (nh_dtype h) 2) <=? DATA_CAP)) eqn:Ew; [|apply visit_kids_safe; exact Hhead].
    apply Bool.andb_true_iff in Ew. destruct Ew as [Ew E4]. apply Bool.andb_true_iff in Ew. destruct Ew as [Ew E3].
    apply Bool.andb_true_iff in Ew. destruct Ew as [E1 E2]. apply Z.gtb_lt in E1. apply Z.leb_le in E4.
    assert (Hcnt : 0 <= prod_dims h) by (unfold prod_dims; apply prod_pos; [lia|exact E3]).
    pose proof (read_all_data_safe h (c_string (nh_dtype h) 2) (prod_dims h) E1 eq_refl Hcnt E4 ltac:(lia)) as HX.
    set (r := match read_all_data R f h (c_string (nh_dtype h) 2) (prod_dims h * mach_size (c_string (nh_dtype h) 2)) with
              | Ok (w, d) => Ok (w, d ++ repeat 0 (Z.to_nat (prod_dims h * mach_size (c_string (nh_dtype h) 2)) - length d))
              | r => r end).
    assert (Hr : safe r).
    { unfold r. destruct (read_all_data R f h _ _) as [[w d]| | | | | | | | |]; exact HX. }
    destruct (clean r); [apply visit_kids_safe|cbn [fst]]; (apply Forall_app2; [exact Hhead|constructor; [exact Hr|constructor]]).
Qed.

Lemma visit_safe id depth : Forall ev_safe (fst (visit R f id depth)).
Proof.
  unfold visit.
  set (rn := (h <- read_node_header R f id ;; Ok (c_string (nh_name h) 32))).
  assert (Hrn : safe rn) by (unfold rn; apply bind_safe; [apply read_node_header_safe|intros; exact I]).
  destruct rn as [nm| | | | | | | | |] eqn:En; cbn [fst]; try solve [constructor; [exact Hrn|constructor]].
  pose proof (is_link_safe id) as HK0.
  destruct (is_link R f id) as [len| | | | | | | | |] eqn:Ek0; cbn [fst]; try solve [repeat constructor; assumption].
  destruct (len >? 0).
  - pose proof (get_link_path_safe id 5200 5200 ltac:(lia) ltac:(lia)) as HK.
    destruct (get_link_path R f id 5200 5200) as [[file path]| | | | | | | | |] eqn:Ek; cbn [fst]; try solve [repeat constructor; assumption].
    destruct file; [apply visit_chased_safe|cbn [fst]]; repeat constructor; assumption.
  - apply visit_chased_safe. repeat constructor; assumption.
Qed.

Lemma walk_loop_safe : forall fuel stack, Forall ev_safe (walk_loop R fuel f stack).
Proof.
  induction fuel as [|fu IH]; intros stack; destruct stack as [|[[pid nm] d] rest]; cbn [walk_loop]; try constructor; try exact I.
  - constructor.
  - pose proof (get_node_id_safe (S LINK_FUEL) 0 pid nm) as HG. unfold get_node_id_top.
    destruct (get_node_id R (S LINK_FUEL) f 0 pid nm) as [cid| e | | | | | | | |] eqn:Eg; cbn [clean];
      try solve [constructor; [exact HG|constructor]].
    + pose proof (visit_safe cid d) as HV. destruct (visit R f cid d) as [evs k]. cbn [fst] in HV.
      destruct k as [kids|]; constructor; try exact I; [apply Forall_app2; [exact HV|apply IH]|exact HV].
    + constructor; [exact I|apply IH].
Qed.
End SafeFile.

(* ---- ADF_Database_Open (repair 05) establishes what the lemmas above assume about the open file *)
Lemma fmt_letter_lt x : fmt_letter x = true -> x < 128.
Proof.
  unfold fmt_letter. intros H. repeat (apply Bool.orb_true_iff in H; destruct H as [H|H]); apply Z.eqb_eq in H; lia.
Qed.

Lemma dec_file_header_safe0 a d : safe (dec_file_header R a d).
Proof.
  unfold dec_file_header. destruct (negb _); [exact I|]. cbn [fx_fmt repaired andb negb].
  destruct (fmt_letter (fa_fmt a)) eqn:F; cbn [andb negb]; [|exact I]. destruct (os_letter (fa_os a)); cbn [negb]; [|exact I].
  apply fmt_letter_lt in F.
  apply bind_safe; [apply hex_fields_safe|intros]. repeat (apply bind_safe; [apply dp_dec_safe; exact F|intros]). exact I.
Qed.

Lemma database_open_safe bs : safe (database_open R bs).
Proof.
  unfold database_open, read_file_header.
  apply bind_safe; [apply bind_safe; [apply read_file_safe|intros; apply dec_file_header_safe0]|intros h _].
  apply bind_safe; [destruct (_ =? 66); [exact I|destruct (_ =? 65); exact I]|intros old _].
  destruct (_ =? 62); [exact I|]. apply bind_safe; [apply hex2uint_safe|intros minor _].
  destruct (_ >? 2); [exact I|]. apply bind_safe; [apply id_of_ptr_safe|intros root _].
  destruct (_ =? 78); [destruct (beq _ _); exact I|exact I].
Qed.

Lemma nth_firstn_lt {A} (d : A) : forall n i (l : list A), (i < n)%nat -> nth i (firstn n l) d = nth i l d.
Proof.
  induction n as [|n IH]; intros i l H; [lia|]. destruct l as [|x l]; [destruct i; reflexivity|].
  destruct i as [|i]; [reflexivity|]. cbn [firstn nth]. apply IH. lia.
Qed.

Lemma read_header_bytes c f d : read_file c f (0, 0) 186 = Ok d -> d = firstn 186 (f_bytes f) /\ 186 <= f_len f.
Proof.
  unfold read_file. change ((186 + 0) mod W64 >? BLK) with false. cbv iota.
  change ((0 * BLK) mod W64) with 0. change (0 >=? H63) with false. cbv iota. rewrite Z.sub_0_r.
  destruct (Z.leb_spec (Z.min BLK (f_len f)) 0); [discriminate|].
  change (186 <? 0) with false. cbn [orb]. change (0 + 186) with 186.
  destruct (Z.gtb_spec 186 (Z.min BLK (f_len f))) as [G|G].
  - rewrite Bool.andb_true_r. destruct (fx_short c); [discriminate|]. change (186 =? 0) with false. cbv iota.
    destruct (Z.leb_spec 186 (Z.min BLK (f_len f))); [lia|discriminate].
  - rewrite Bool.andb_false_r. change (186 =? 0) with false. cbv iota.
    destruct (Z.leb_spec 186 (Z.min BLK (f_len f))); [|discriminate].
    intros HH; inversion HH; subst. split; [reflexivity|lia].
Qed.

Lemma database_open_post bs f root : database_open R bs = Ok (f, root) ->
  fa_fmt (f_attr f) < 128 /\ f_len f = Z.of_nat (length (f_bytes f)).
Proof.
  unfold database_open. intros H. apply bind_ok in H. destruct H as (h & Hh & H).
  apply bind_ok in H. destruct H as (old & _ & H). destruct (_ =? 62); [discriminate|].
  apply bind_ok in H. destruct H as (minor & _ & H). destruct (_ >? 2); [discriminate|].
  apply bind_ok in H. destruct H as (rt & _ & H).
  assert (Hfmt : fh_fmt h < 128).
  { unfold read_file_header in Hh. apply bind_ok in Hh. destruct Hh as (d & Hd & Hh).
    apply read_header_bytes in Hd. destruct Hd as (Ed & Hl). cbn [mkfile f_bytes f_len] in Ed, Hl.
    unfold dec_file_header in Hh. destruct (negb (header_tags_ok d)); [discriminate|]. cbn [fx_fmt repaired andb negb] in Hh.
    cbn [mkfile f_attr] in Hh.
    destruct (fmt_letter (fa_fmt (open_attr bs))) eqn:F; cbn [andb negb] in Hh; [|discriminate].
    destruct (os_letter (fa_os (open_attr bs))); cbn [negb] in Hh; [|discriminate].
    apply bind_ok in Hh. destruct Hh as (sz & _ & Hh). apply bind_ok in Hh. destruct Hh as (r & _ & Hh).
    apply bind_ok in Hh. destruct Hh as (e & _ & Hh). apply bind_ok in Hh. destruct Hh as (fr & _ & Hh).
    apply bind_ok in Hh. destruct Hh as (x & _ & Hh). inversion Hh; subst h. cbn [fh_fmt].
    apply fmt_letter_lt in F. unfold open_attr in F.
    destruct (Z.leb_spec 102 (Z.of_nat (length bs))); [|lia]. cbn [fa_fmt] in F.
    rewrite Ed, nth_firstn_lt by lia. exact F. }
  destruct (fh_fmt h =? 78); [destruct (beq _ _); [|discriminate]|]; inversion H; subst; cbn; split; (exact Hfmt || reflexivity).
Qed.

(* repair 20: ADF_Database_Version stays inside the what field, hence inside version[33] *)
Lemma first_stop_lt : forall s k, first_stop s = Some k -> (k < length s)%nat.
Proof.
  induction s as [|c t IH]; intros k H; cbn [first_stop] in H; [discriminate|].
  destruct (_ || _); [inversion H; subst; simpl; lia|].
  destruct (first_stop t) as [j|]; [|discriminate]. inversion H; subst. specialize (IH j eq_refl). simpl. lia.
Qed.
Lemma database_version_safe f : fa_fmt (f_attr f) < 128 -> safe (database_version R f VER_CAP).
Proof.
  intros Hf. unfold database_version. apply bind_safe; [apply read_file_header_safe; exact Hf|intros h _].
  cbn [fx_ver repaired].
  set (L := match first_stop (firstn 32 (fh_what h)) with Some k => k | None => length (firstn 32 (fh_what h)) end).
  assert (HL : (L <= 32)%nat).
  { unfold L. pose proof (firstn_le_length 32 (fh_what h)). destruct (first_stop _) eqn:E; [apply first_stop_lt in E; lia|lia]. }
  pose proof (c_string_len (skipn 4 (fh_what h)) (L - 4)) as HC.
  destruct (Z.gtb_spec (Z.of_nat (length (c_string (skipn 4 (fh_what h)) (L - 4))) + 1) VER_CAP); [unfold VER_CAP in *; lia|exact I].
Qed.

Definition walk_safe (r : walk_result) : Prop :=
  match r with WOpenFail o => safe o | WOk _ evs => Forall ev_safe evs end.

(* C13_no_oob: with the repairs, opening and walking ANY byte string yields no out-of-bounds store or load, no read of
   an unwritten or stale byte, no failed assert and no signed overflow -- whatever the fuel *)
Theorem walk_repaired_safe bs fuel : walk_safe (walk R fuel bs).
Proof.
  unfold walk. pose proof (database_open_safe bs) as HS. pose proof (database_open_post bs) as HP.
  destruct (database_open R bs) as [[f root]| | | | | | | | |]; cbn [walk_safe bind]; try exact HS; try exact I.
  destruct (HP f root eq_refl) as (Hf & Hlen).
  pose proof (database_version_safe f Hf) as HVer.
  destruct (negb (clean (database_version R f VER_CAP))); [constructor; [exact HVer|constructor]|].
  pose proof (visit_safe f Hf Hlen root 0) as HV. destruct (visit R f root 0) as [evs k]. cbn [fst] in HV.
  constructor; [exact HVer|].
  destruct k as [kids|]; [apply Forall_app2; [exact HV|apply walk_loop_safe; assumption]|exact HV].
Qed.

(* the single operations, for an open file *)
Theorem ops_repaired_safe bs f root : database_open R bs = Ok (f, root) ->
  (forall id name, safe (check_4_child_name R f id name)) /\ (forall id name, safe (get_node_id_top R f id name)) /\
  (forall id, safe (chase_link R f id)) /\ (forall id, safe (get_link_path R f id 1025 4097)) /\
  (forall id, safe (read_node_header R f id)) /\
  (forall h t, 0 < mach_size t -> 0 <= prod_dims h -> prod_dims h * mach_size t <= DATA_CAP -> 0 <= nh_nchunks h ->
               safe (read_all_data R f h t (prod_dims h * mach_size t))).
Proof.
  intros H. apply database_open_post in H. destruct H as (Hf & Hlen). repeat split; intros.
  - apply check_4_child_name_safe; assumption.
  - apply get_node_id_safe; assumption.
  - apply chase_link_safe; assumption.
  - apply get_link_path_safe; try assumption; lia.
  - apply read_node_header_safe; assumption.
  - apply read_all_data_safe; auto.
Qed.

(* ================================================================ 7. repair 04: the nesting of link chasing is bounded by the code,
   not by the fuel of the model: beyond 101 - nest units the fuel does not matter *)
Lemma chase_loop_ext g1 g2 f : (forall x y, g1 x y = g2 x y) -> forall n id depth, chase_loop R g1 f n id depth = chase_loop R g2 f n id depth.
Proof.
  intros Hg. induction n as [|n IH]; intros id depth; cbn [chase_loop]; [reflexivity|].
  destruct (read_node_header R f id); cbn [bind]; try reflexivity. destruct (is_LK _); [|reflexivity].
  destruct (get_link_path R f id 1025 4097) as [[file path]| | | | | | | | |]; cbn [bind]; try reflexivity.
  destruct file; [|reflexivity]. rewrite (Hg id [47]). destruct (g2 id [47]); cbn [bind]; try reflexivity.
  rewrite (Hg _ path). destruct (g2 _ path); cbn [bind]; try reflexivity.
  - destruct (_ >? 100); [reflexivity|apply IH].
  - destruct (_ =? 29); reflexivity.
Qed.
Lemma gni_tokens_ext c1 c2 f : (forall x, c1 x = c2 x) -> forall toks parent cur, gni_tokens R c1 f toks parent cur = gni_tokens R c2 f toks parent cur.
Proof.
  intros Hc. induction toks as [|tok rest IH]; intros parent cur; cbn [gni_tokens]; [reflexivity|].
  destruct (check_4_child_name R f parent tok) as [[loc|]| | | | | | | | |]; cbn [bind]; try reflexivity.
  destruct rest; [reflexivity|]. rewrite Hc. destruct (c2 _) as [[lid hh]| | | | | | | | |]; cbn [bind]; try reflexivity. apply IH.
Qed.

Lemma bind_ext {A B} (x : out A) (k1 k2 : A -> out B) : (forall a, k1 a = k2 a) -> bind x k1 = bind x k2.
Proof. intros H. destruct x; simpl; auto. Qed.

Theorem link_fuel_irrelevant f : forall fuel1 fuel2 nest pid name,
  nest <= 100 -> 101 <= Z.of_nat fuel1 + nest -> 101 <= Z.of_nat fuel2 + nest ->
  get_node_id R fuel1 f nest pid name = get_node_id R fuel2 f nest pid name.
Proof.
  induction fuel1 as [|fu1 IH]; intros fuel2 nest pid name Hn H1 H2; [cbn in H1; lia|].
  destruct fuel2 as [|fu2]; [cbn in H2; lia|]. cbn [get_node_id].
  destruct name as [|c rest]; [reflexivity|].
  assert (Hc : forall x, chase_at R (get_node_id R fu1 f (nest + 1)) f nest x = chase_at R (get_node_id R fu2 f (nest + 1)) f nest x).
  { intros x. unfold chase_at. cbn [fx_nest repaired andb]. destruct (Z.geb_spec nest 100) as [G|G]; [reflexivity|].
    apply chase_loop_ext. intros a b. apply IH; lia. }
  apply bind_ext. intros id0. destruct (_ && _); [reflexivity|].
  destruct (split_slash (c :: rest)) as [|t0 ts]; [reflexivity|].
  rewrite Hc. apply bind_ext. intros [lid hh]. apply gni_tokens_ext. exact Hc.
Qed.

(* ADF_Get_Node_ID / ADFI_chase_link as the API calls them: any fuel from 101 (resp. 100) on gives the same answer *)
Corollary link_recursion_bounded f pid name id : forall fuel, (101 <= fuel)%nat ->
  get_node_id R fuel f 0 pid name = get_node_id_top R f pid name /\
  chase_at R (get_node_id R (pred fuel) f 1) f 0 id = chase_link R f id.
Proof.
  intros fuel Hfu. split.
  - unfold get_node_id_top. apply link_fuel_irrelevant; unfold LINK_FUEL; lia.
  - unfold chase_link, chase_at. cbn [fx_nest repaired andb]. change (0 >=? 100) with false. cbv iota.
    apply chase_loop_ext. intros a b. apply link_fuel_irrelevant; unfold LINK_FUEL; lia.
Qed.

(* ================================================================ 8. termination of the open-time operations (both states) *)
Definition nofuel {A} (r : out A) : Prop := match r with OutOfFuel => False | _ => True end.
Lemma bind_nofuel {A B} (x : out A) (f : A -> out B) : nofuel x -> (forall a, nofuel (f a)) -> nofuel (bind x f).
Proof. destruct x; simpl; auto. Qed.
Lemma hex2uint_nofuel mn mx s : nofuel (hex2uint mn mx s).
Proof. destruct (hex2uint_total mn mx s) as [(v & ->)|(e & ->)]; exact I. Qed.
Lemma conv_int_nofuel fmt s : nofuel (conv_int fmt s).
Proof.
  unfold conv_int, conv_mode. destruct (fmt =? 78); [exact I|]. destruct (fmt =? 76); [exact I|]. destruct (fmt >=? 128); [exact I|].
  destruct ((fmt =? 66) || (fmt =? 67)); exact I.
Qed.
Lemma dp_dec_nofuel a s : nofuel (dp_dec a s).
Proof.
  unfold dp_dec, dp_from_hex. destruct (fa_old a).
  - apply bind_nofuel; [apply hex2uint_nofuel|intros]. apply bind_nofuel; [apply hex2uint_nofuel|intros; exact I].
  - apply bind_nofuel; [apply conv_int_nofuel|intros]. apply bind_nofuel; [apply conv_int_nofuel|intros; exact I].
Qed.
Lemma read_file_nofuel c f p len : nofuel (read_file c f p len).
Proof.
  unfold read_file. destruct p as [b o]. destruct (_ >? BLK).
  - destruct (_ >=? _); [exact I|]. destruct (_ <? 0); [exact I|]. destruct (_ =? _); [exact I|]. destruct (_ <=? _); exact I.
  - destruct (_ >=? _); [exact I|]. destruct (_ <=? 0); [exact I|]. destruct (_ && _); [exact I|]. destruct (_ <? 0); [exact I|].
    destruct (_ =? _); [exact I|]. destruct (_ <=? _); exact I.
Qed.
Lemma hex_fields_nofuel n : forall s w mx, nofuel (hex_fields s w n mx).
Proof.
  induction n; intros; simpl; [exact I|]. apply bind_nofuel; [apply hex2uint_nofuel|intros].
  apply bind_nofuel; [apply IHn|intros; exact I].
Qed.
Lemma dec_file_header_nofuel c a d : nofuel (dec_file_header c a d).
Proof.
  unfold dec_file_header. destruct (negb _); [exact I|]. destruct (_ && _); [exact I|]. destruct (_ && _); [exact I|].
  apply bind_nofuel; [apply hex_fields_nofuel|intros]. repeat (apply bind_nofuel; [apply dp_dec_nofuel|intros]). exact I.
Qed.

(* cgio_check_file (ADF branch) is a pure function of the first 32 bytes; ADF_Database_Open performs a fixed
   number of reads and decodes and no loop driven by file content: on EVERY byte string it returns one of the
   other outcomes, never OutOfFuel -- before and after the repairs *)
Theorem database_open_terminates c bs : nofuel (database_open c bs).
Proof.
  unfold database_open, read_file_header.
  apply bind_nofuel; [apply bind_nofuel; [apply read_file_nofuel|intros; apply dec_file_header_nofuel]|intros h].
  apply bind_nofuel; [destruct (_ =? 66); [exact I|destruct (_ =? 65); exact I]|intros old].
  destruct (_ =? 62); [exact I|]. apply bind_nofuel; [apply hex2uint_nofuel|intros minor].
  destruct (_ >? 2); [exact I|]. apply bind_nofuel; [unfold id_of_ptr; destruct (_ >=? _); exact I|intros root].
  destruct (_ =? 78); [destruct (beq _ _); exact I|exact I].
Qed.

(* the full-strength statement, and its failure for the code before the repairs *)
Definition C13_full (c : fixes) : Prop := forall bs n, walk_safe (walk c n bs).
Theorem full_refuted : ~ C13_full legacy.
Proof.
  intros H. specialize (H wit_oobw 5%nat).
  assert (E : walk_events (walk legacy 5 wit_oobw) <> [] /\ last (walk_events (walk legacy 5 wit_oobw)) EvFuel = EvG (OOBW 1))
    by (vm_compute; split; [discriminate|reflexivity]).
  destruct (walk legacy 5 wit_oobw) as [o|root evs]; cbn [walk_events walk_safe] in *; [destruct E as [E _]; congruence|].
  destruct E as [Hne El]. clear Hne. revert El. induction H as [|e l He Hl IH]; cbn [last]; [discriminate|].
  destruct l; [intros ->; exact He|exact IH].
Qed.
Theorem full_repaired : C13_full repaired.
Proof. intros bs n. apply walk_repaired_safe. Qed.
