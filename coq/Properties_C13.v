(* Properties_C13.v -- exported theorems for C13 (corrupt or truncated files are rejected without memory errors
   or hangs).  Only statements, each closed by [exact] of a lemma proved in AdfCodecProofs.v, each followed by
   Print Assumptions.

   Reading guide.  AdfCodec.v / AdfWalk.v transcribe the ADF decoders and the read-only client operations into
   total functions over the byte string of the file; their result type [out] has, besides [Ok] and [Err code],
   the outcomes the property forbids: [OOBW s] / [OOBR s] (store / load outside the buffer of site s, buffers
   carrying the sizes the C gives them), [Uninit], [Stale] (bytes served past what read() obtained), [Abort]
   (assert), [UB] (signed overflow) and [OutOfFuel].  The full-strength statement

        C13_full : for every byte string, the walk yields only Ok / Err outcomes

   is FALSE of the faithful model: the _refuted theorems below exhibit witness files (built with the model's
   encoders) for eight distinct forbidden outcomes; each witness is replayed on the implementation by
   checks/C13.py (ASan / UBSan / assert / watchdog) on every run. *)
From Coq Require Import ZArith List Bool.
From CgnsV Require Import ListX Fuel AdfCodec AdfWalk AdfCodecProofs.
Import ListNotations.
Local Open Scope Z_scope.

Definition C13_full : Prop :=
  forall bs n, forallb (fun e => match e with
                                 | EvN _ r => clean r | EvK0 r => clean r | EvK r => clean r | EvL r => clean r
                                 | EvX r => clean r | EvM r => clean r | EvI r => clean r | EvG r => clean r
                                 | EvFuel => false | _ => true end) (walk_events (walk n bs)) = true.

(* ---- 1. C13_hex: ADFI_ASCII_Hex_2_unsigned_int accepts exactly 1..8 characters of [0-9A-Fa-f] whose positional
        value (defined independently of the C loop, [hexpos]) lies in [mn, mx]; the value is < 16^n; every other
        input is an error return *)
Theorem C13_hex : forall mn mx s v,
  hex2uint mn mx s = Ok v <-> (1 <= length s <= 8)%nat /\ mn <= mx /\ hexpos s = Some v /\ mn <= v <= mx.
Proof. exact hex2uint_spec. Qed.
Print Assumptions C13_hex.

Theorem C13_hex_value_range : forall s v, hexpos s = Some v -> 0 <= v < 16 ^ Z.of_nat (length s).
Proof. exact hexpos_range. Qed.
Print Assumptions C13_hex_value_range.

Theorem C13_hex_acceptance_set : forall s, hexpos s <> None <-> Forall is_hexchar s.
Proof. exact hexpos_some_iff. Qed.
Print Assumptions C13_hex_acceptance_set.

Theorem C13_hex_total : forall mn mx s, (exists v, hex2uint mn mx s = Ok v) \/ (exists e, hex2uint mn mx s = Err e).
Proof. exact hex2uint_total. Qed.
Print Assumptions C13_hex_total.

(* ---- 2. C13_decode_total_sound *)
(* node header: only Ok / Err / the tag-scan over-read; acceptance implies both boundary tags matched, every
   ASCII-hex field consists of hex digits, every value is inside its declared range *)
Theorem C13_decode_total : forall a d,
  (exists h, dec_node_header a d = Ok h) \/ (exists e, dec_node_header a d = Err e) \/ dec_node_header a d = OOBR 5.
Proof. exact node_header_total. Qed.
Print Assumptions C13_decode_total.

Theorem C13_decode_total_sound : forall a d h, dec_node_header a d = Ok h ->
  tagscan d tag_NoDe = Ok true /\ tagscan (skipn 242 d) tag_TaiL = Ok true /\
  0 <= nh_nsub h < W32 /\ 0 <= nh_entries h < W32 /\ 0 <= nh_ndims h <= 12 /\ 0 <= nh_nchunks h <= 65535 /\
  Forall is_hexchar (sub d 68 8) /\ Forall is_hexchar (sub d 76 8) /\ Forall is_hexchar (sub d 128 2) /\
  Forall is_hexchar (sub d 226 4) /\
  dp_dec a (sub d 84 12) = Ok (nh_snt h) /\ dp_dec a (sub d 230 12) = Ok (nh_data h).
Proof. exact node_header_sound. Qed.
Print Assumptions C13_decode_total_sound.

Theorem C13_decode_disk_pointer_sound : forall a s p, bytes_ok s -> dp_dec a s = Ok p ->
  if fa_old a then 0 <= fst p < W32 /\ 0 <= snd p <= BLK /\ Forall is_hexchar (sub s 0 8) /\ Forall is_hexchar (sub s 8 4)
  else fmt_ok (fa_fmt a) /\ 0 <= fst p < W64 /\ 0 <= snd p < W32.
Proof. exact dp_dec_sound. Qed.
Print Assumptions C13_decode_disk_pointer_sound.

Theorem C13_decode_file_header_sound : forall a d h, dec_file_header a d = Ok h ->
  sub d 32 4 = tag_AdF 0 /\ sub d 64 4 = tag_AdF 1 /\ sub d 96 4 = tag_AdF 2 /\ sub d 102 4 = tag_AdF 3 /\
  sub d 130 4 = tag_AdF 4 /\ sub d 182 4 = tag_AdF 5 /\ fa_fmt a <> 0 /\ fa_os a <> 0 /\
  dp_dec a (sub d 134 12) = Ok (fh_root h).
Proof. exact file_header_sound. Qed.
Print Assumptions C13_decode_file_header_sound.

(* ---- 3. C13_codec_roundtrip: decode (encode x) = Ok x within the field ranges, both pointer formats *)
Theorem C13_codec_roundtrip : forall a h, nh_ok a h -> dec_node_header a (enc_node_header a h) = Ok h.
Proof. exact node_header_roundtrip. Qed.
Print Assumptions C13_codec_roundtrip.

Theorem C13_codec_roundtrip_file_header : forall a h, fh_ok a h -> dec_file_header a (enc_file_header a h) = Ok h.
Proof. exact file_header_roundtrip. Qed.
Print Assumptions C13_codec_roundtrip_file_header.

Theorem C13_codec_roundtrip_free_chunk_table : forall a ps, length ps = 6%nat -> Forall (ptr_ok a) ps ->
  dec_fct a (enc_fct a ps) = Ok ps.
Proof. exact fct_roundtrip. Qed.
Print Assumptions C13_codec_roundtrip_free_chunk_table.

Theorem C13_codec_roundtrip_sub_node_entry : forall a nm p, str32 nm -> ptr_ok a p ->
  dec_snt_entry a (enc_snt_entry a (nm, p)) = Ok (nm, p).
Proof. exact snt_entry_roundtrip. Qed.
Print Assumptions C13_codec_roundtrip_sub_node_entry.

Theorem C13_codec_roundtrip_disk_pointer : forall a p, ptr_ok a p -> dp_dec a (dp_enc a p) = Ok p.
Proof. exact dp_roundtrip. Qed.
Print Assumptions C13_codec_roundtrip_disk_pointer.

Theorem C13_codec_roundtrip_hex : forall n mx v, (1 <= n <= 8)%nat -> 0 <= v < 16 ^ Z.of_nat n -> v <= mx ->
  hex2uint 0 mx (hexenc n v) = Ok v.
Proof. exact hex_roundtrip. Qed.
Print Assumptions C13_codec_roundtrip_hex.

(* non-vacuity of the hypotheses: the root header of the valid witness file satisfies nh_ok and decodes *)
Example C13_roundtrip_example :
  exists h, dec_node_header wa (sub wit_valid 266 246) = Ok h /\ nh_nsub h = 2 /\ nh_entries h = 8 /\
            enc_node_header wa h = sub wit_valid 266 246.
Proof. eexists. split; [vm_compute; reflexivity|]. split; [reflexivity|]. split; [reflexivity|]. vm_compute. reflexivity. Qed.

(* ---- 4. C13_walk_terminates (partial): what the library does at open -- cgio_check_file's ADF branch is a pure
        function of 32 bytes; ADF_Database_Open performs a fixed number of reads and decodes -- never runs out of
        fuel, on EVERY byte string.  The recursive operations have no bound in the code: see C13_cycle_refuted
        and C13_link_recursion_refuted. *)
Theorem C13_walk_terminates : forall bs, nofuel (database_open bs).
Proof. exact database_open_terminates. Qed.
Print Assumptions C13_walk_terminates.

(* ---- 5. C13_no_oob is FALSE of the faithful model: witnesses *)
(* section 6 #12: valid file, root with two children, header field entries_for_sub_nodes 00000008 -> 00000002:
   ADFI_read_sub_node_table stores 8 entries into a 2-entry malloc *)
Theorem C13_oob_refuted :
  exists bs, on_open bs (fun f r => check_4_child_name f r [66] = OOBW 1 /\
                                    get_node_id LINK_FUEL f r [66] = OOBW 1) False.
Proof. exact oob_write_refuted. Qed.
Print Assumptions C13_oob_refuted.

Example C13_oob_witness_is_one_field_from_valid :
  wit_oobw = firstn 342 wit_valid ++ hexenc 8 2 ++ skipn 350 wit_valid /\
  on_open wit_valid (fun f r => check_4_child_name f r [66] = Ok (Some (0, 1130)) /\
                                 get_node_id LINK_FUEL f r [66] = Ok (0, 1130)) False.
Proof. split; [exact wit_oobw_is_one_field|exact (proj1 wit_valid_ok)]. Qed.

(* entries_for_sub_nodes = 0 with num_sub_nodes = 2: the name loop loads from a zero-size malloc *)
Theorem C13_oob_read_refuted : exists bs, on_open bs (fun f r => check_4_child_name f r [66] = OOBR 1) False.
Proof. exact oob_read_refuted. Qed.
Print Assumptions C13_oob_read_refuted.

(* a link node whose dimension value / data chunk (6000 bytes) exceed link_data[5122] *)
Theorem C13_link_buffer_refuted :
  exists bs, on_open bs (fun f r => get_link_path f (0, 884) 5200 5200 = OOBW 3 /\
                                    match chase_link f (0, 884) with OOBW 3 => True | _ => False end) False.
Proof. exact link_buffer_refuted. Qed.
Print Assumptions C13_link_buffer_refuted.

(* a link whose target path passes through the link itself: Get_Node_ID -> chase_link -> Get_Node_ID ... nests
   deeper than LINK_FUEL = 48 (in the C: unbounded recursion, link_depth is a local of each activation) *)
Theorem C13_link_recursion_refuted :
  exists bs, on_open bs (fun f r => get_node_id LINK_FUEL f r [76] = Ok (0, 884) /\
                                    match chase_link f (0, 884) with OutOfFuel => True | _ => False end) False.
Proof. exact link_recursion_refuted. Qed.
Print Assumptions C13_link_recursion_refuted.

(* format byte NUL: assert(ADF_file[..].format != UNDEFINED_FORMAT) in ADFI_read_file_header *)
Theorem C13_abort_refuted : exists bs, database_open bs = Abort.
Proof. exact abort_refuted. Qed.
Print Assumptions C13_abort_refuted.

(* "TaiL" -> "XaiL": ADFI_stridx_c scans beyond char disk_node_data[246] *)
Theorem C13_tagscan_refuted :
  exists bs, on_open bs (fun f r => match read_node_header f r with OOBR 5 => True | _ => False end) False.
Proof. exact tagscan_refuted. Qed.
Print Assumptions C13_tagscan_refuted.

(* file cut inside the root node header: ADFI_read_file hands out buffer bytes it never read *)
Theorem C13_stale_refuted :
  exists bs, on_open bs (fun f r => match read_node_header f r with Stale => True | _ => False end) False.
Proof. exact stale_refuted. Qed.
Print Assumptions C13_stale_refuted.

(* child pointer redirected to an ancestor: the walk exhausts ANY amount of fuel *)
Theorem C13_cycle_refuted : exists bs, forall n, last (walk_events (walk n bs)) (EvD 0) = EvFuel.
Proof. exact cycle_refuted. Qed.
Print Assumptions C13_cycle_refuted.

Theorem C13_full_refuted : ~ C13_full.
Proof.
  intros H. specialize (H wit_oobw 5%nat). vm_compute in H. discriminate.
Qed.
Print Assumptions C13_full_refuted.

(* non-vacuity: the valid witness opens and walks cleanly *)
Example C13_valid_witness_clean :
  forallb (fun e => match e with EvG r => clean r | EvN _ r => clean r | EvFuel => false | _ => true end)
          (walk_events (walk 10 wit_valid)) = true.
Proof. exact (proj2 wit_valid_ok). Qed.

(* ---- 6. the repair proposed in notes/C13.md (reject a table that does not fit the caller's buffer, bound the
        name loop by what was read) closes site 1 for EVERY file, parent pointer and name *)
Theorem C13_no_oob_with_fix : forall f parent name, safe1 (check_4_child_name_gen true f parent name).
Proof. exact check_4_child_name_fixed_safe. Qed.
Print Assumptions C13_no_oob_with_fix.
