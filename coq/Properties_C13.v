(* Properties_C13.v -- exported theorems for C13 (corrupt or truncated files are rejected without memory errors
   or hangs).  Only statements, each closed by [exact] of a lemma proved in AdfCodecProofs.v, each followed by
   Print Assumptions.

   Reading guide.  AdfCodec.v / AdfWalk.v transcribe the ADF decoders and the read-only client operations into
   total functions over the byte string of the file; their result type [out] has, besides [Ok] and [Err code],
   the outcomes the property forbids: [OOBW s] / [OOBR s] (store / load outside the buffer of site s, buffers
   carrying the sizes the C gives them), [Uninit], [Stale] (bytes served past what read() obtained), [Abort]
   (assert), [UB] (signed overflow, shift of a negative char) and [OutOfFuel].

   The transcription exists in two states, selected by the record [fixes] (one switch per repair of
   notes/C13-fixes/NN-*.diff): [legacy] is the code before the repairs, [repaired] the code with them.
   checks/C13.py finds out at run time which state the library built from the working tree is in (by running the
   witness files of corpus/C13) and compares the library with the model in that state.

     * [repaired] is the code as it is in /repo today (all sixteen repairs committed).  For it the full-strength
       statement is TRUE: C13_no_oob (section 5), for every byte string and every fuel; C13_link_recursion_bounded
       (section 6): the nesting of link chasing is cut by the code, the fuel of the model is irrelevant from 101 on;
     * [legacy] is kept for regression: section 8 exhibits a witness file (built with the model's encoders; every
       one is a file of corpus/C13 and is run on the implementation on every run) for each forbidden outcome of the
       code before the repairs (the _old_refuted theorems).
   What stays outside both: a client that walks a tree whose child pointers form a cycle never finishes
   (C13_cycle_refuted holds in both states: the ADF library has no tree walk of its own, the recursive readers are
   in cgns_io.c / cgns_internals.c and are covered by the mutation campaign only). *)
From Coq Require Import ZArith List Bool.
From CgnsV Require Import ListX Fuel AdfCodec AdfWalk AdfCodecProofs.
Import ListNotations.
Local Open Scope Z_scope.

(* ---- 1. C13_hex: ADFI_ASCII_Hex_2_unsigned_int accepts exactly 1..8 characters of [0-9A-Fa-f] whose positional
        value (defined independently of the C loop, [hexpos]) lies in [mn, mx]; the value is < 16^n; every other
        input is an error return *)
Theorem C13_hex : forall mn mx s v,
  hex2uint mn mx s = Ok v <-> (1 <= length s <= 8)%nat /\ mn <= mx /\ hexpos s = Some v /\ mn <= v <= mx.
Proof. exact hex2uint_spec. Qed.
Print Assumptions C13_hex.

Theorem C13_hex_value_range : forall s v, hexpos s = Some v -> 0 <= v < 16 ^ Z.of_nat (length s).
Proof. exact hexpos_range. Qed.
Print Assumptions C13_hex_value_range.

Theorem C13_hex_acceptance_set : forall s, hexpos s <> None <-> Forall is_hexchar s.
Proof. exact hexpos_some_iff. Qed.
Print Assumptions C13_hex_acceptance_set.

Theorem C13_hex_total : forall mn mx s, (exists v, hex2uint mn mx s = Ok v) \/ (exists e, hex2uint mn mx s = Err e).
Proof. exact hex2uint_total. Qed.
Print Assumptions C13_hex_total.

(* ---- 2. C13_decode_total_sound (both states: [c] is arbitrary) *)
(* node header: only Ok / Err / the tag-scan over-read (legacy only); acceptance implies both boundary tags matched,
   every ASCII-hex field consists of hex digits, every value is inside its declared range *)
Theorem C13_decode_total : forall c a d, fa_fmt a < 128 ->
  (exists h, dec_node_header c a d = Ok h) \/ (exists e, dec_node_header c a d = Err e) \/ dec_node_header c a d = OOBR 5.
Proof. exact node_header_total. Qed.
Print Assumptions C13_decode_total.

Theorem C13_decode_total_sound : forall c a d h, dec_node_header c a d = Ok h ->
  tagcheck c d tag_NoDe = Ok true /\ tagcheck c (skipn 242 d) tag_TaiL = Ok true /\
  (fx_snt c = true -> nh_nsub h <= nh_entries h) /\
  0 <= nh_nsub h < W32 /\ 0 <= nh_entries h < W32 /\ 0 <= nh_ndims h <= 12 /\ 0 <= nh_nchunks h <= 65535 /\
  Forall is_hexchar (sub d 68 8) /\ Forall is_hexchar (sub d 76 8) /\ Forall is_hexchar (sub d 128 2) /\
  Forall is_hexchar (sub d 226 4) /\
  dp_dec a (sub d 84 12) = Ok (nh_snt h) /\ dp_dec a (sub d 230 12) = Ok (nh_data h).
Proof. exact node_header_sound. Qed.
Print Assumptions C13_decode_total_sound.

Theorem C13_decode_disk_pointer_sound : forall a s p, bytes_ok s -> dp_dec a s = Ok p ->
  if fa_old a then 0 <= fst p < W32 /\ 0 <= snd p <= BLK /\ Forall is_hexchar (sub s 0 8) /\ Forall is_hexchar (sub s 8 4)
  else fmt_ok (fa_fmt a) /\ 0 <= fst p < W64 /\ 0 <= snd p < W32.
Proof. exact dp_dec_sound. Qed.
Print Assumptions C13_decode_disk_pointer_sound.

Theorem C13_decode_file_header_sound : forall c a d h, dec_file_header c a d = Ok h ->
  sub d 32 4 = tag_AdF 0 /\ sub d 64 4 = tag_AdF 1 /\ sub d 96 4 = tag_AdF 2 /\ sub d 102 4 = tag_AdF 3 /\
  sub d 130 4 = tag_AdF 4 /\ sub d 182 4 = tag_AdF 5 /\ fa_fmt a <> 0 /\ fa_os a <> 0 /\
  dp_dec a (sub d 134 12) = Ok (fh_root h).
Proof. exact file_header_sound. Qed.
Print Assumptions C13_decode_file_header_sound.

(* ---- 3. C13_codec_roundtrip: decode (encode x) = Ok x within the field ranges, both pointer formats, both states *)
Theorem C13_codec_roundtrip : forall c a h, nh_ok a h -> dec_node_header c a (enc_node_header a h) = Ok h.
Proof. exact node_header_roundtrip. Qed.
Print Assumptions C13_codec_roundtrip.

Theorem C13_codec_roundtrip_file_header : forall c a h, fh_ok a h -> dec_file_header c a (enc_file_header a h) = Ok h.
Proof. exact file_header_roundtrip. Qed.
Print Assumptions C13_codec_roundtrip_file_header.

Theorem C13_codec_roundtrip_free_chunk_table : forall c a ps, length ps = 6%nat -> Forall (ptr_ok a) ps ->
  dec_fct c a (enc_fct a ps) = Ok ps.
Proof. exact fct_roundtrip. Qed.
Print Assumptions C13_codec_roundtrip_free_chunk_table.

Theorem C13_codec_roundtrip_sub_node_entry : forall a nm p, str32 nm -> ptr_ok a p ->
  dec_snt_entry a (enc_snt_entry a (nm, p)) = Ok (nm, p).
Proof. exact snt_entry_roundtrip. Qed.
Print Assumptions C13_codec_roundtrip_sub_node_entry.

Theorem C13_codec_roundtrip_disk_pointer : forall a p, ptr_ok a p -> dp_dec a (dp_enc a p) = Ok p.
Proof. exact dp_roundtrip. Qed.
Print Assumptions C13_codec_roundtrip_disk_pointer.

Theorem C13_codec_roundtrip_hex : forall n mx v, (1 <= n <= 8)%nat -> 0 <= v < 16 ^ Z.of_nat n -> v <= mx ->
  hex2uint 0 mx (hexenc n v) = Ok v.
Proof. exact hex_roundtrip. Qed.
Print Assumptions C13_codec_roundtrip_hex.

(* non-vacuity of the hypotheses: the root header of the valid witness file satisfies nh_ok and decodes *)
Example C13_roundtrip_example :
  exists h, dec_node_header repaired wa (sub wit_valid 266 246) = Ok h /\ nh_nsub h = 2 /\ nh_entries h = 8 /\
            enc_node_header wa h = sub wit_valid 266 246.
Proof. eexists. split; [vm_compute; reflexivity|]. split; [reflexivity|]. split; [reflexivity|]. vm_compute. reflexivity. Qed.

(* ---- 4. C13_walk_terminates (partial): what the library does at open -- cgio_check_file's ADF branch is a pure
        function of 32 bytes; ADF_Database_Open performs a fixed number of reads and decodes -- never runs out of
        fuel, on EVERY byte string, in both states. *)
Theorem C13_walk_terminates : forall c bs, nofuel (database_open c bs).
Proof. exact database_open_terminates. Qed.
Print Assumptions C13_walk_terminates.

(* ---- 5. THE CODE AS IT IS (all repairs of notes/C13-fixes are in /repo).  C13_no_oob: opening ANY byte string and walking it with ANY fuel yields, in every
        event the client sees (and in the open itself), none of OOBW / OOBR / Uninit / Stale / Abort / UB.  The
        client is harness/c13_adf.c: buffers of ADF_NAME_LENGTH+1 .. , link buffers of 5200 bytes, a data buffer of
        mach_size(type) * count bytes, the type named to ADF_Read_All_Data being the one ADF_Get_Data_Type returned *)
Theorem C13_no_oob : forall bs fuel, walk_safe (walk repaired fuel bs).
Proof. exact walk_repaired_safe. Qed.
Print Assumptions C13_no_oob.

(* the same for the single operations on an open file, for every node ID, name and header they may be handed:
   no abort and no tag over-scan in ADFI_read_node_header, no overflow of sub_node_table[] in
   ADFI_check_4_child_name, of link_data[] / tokenized_data_type[] / link_file[] / link_path[] in
   ADF_Get_Link_Path and ADFI_chase_link, of the caller's buffer in ADF_Read_All_Data *)
Theorem C13_no_oob_operations : forall bs f root, database_open repaired bs = Ok (f, root) ->
  (forall id name, safe (check_4_child_name repaired f id name)) /\ (forall id name, safe (get_node_id_top repaired f id name)) /\
  (forall id, safe (chase_link repaired f id)) /\ (forall id, safe (get_link_path repaired f id 1025 4097)) /\
  (forall id, safe (read_node_header repaired f id)) /\
  (forall h t, 0 < mach_size t -> 0 <= prod_dims h -> prod_dims h * mach_size t <= DATA_CAP -> 0 <= nh_nchunks h ->
               safe (read_all_data repaired f h t (prod_dims h * mach_size t))).
Proof. exact ops_repaired_safe. Qed.
Print Assumptions C13_no_oob_operations.

Theorem C13_open_never_aborts : forall bs, safe (database_open repaired bs).
Proof. exact database_open_safe. Qed.
Print Assumptions C13_open_never_aborts.

(* ---- 6. C13_link_recursion_bounded: ADF_Get_Node_ID / ADFI_chase_link of the repaired code give, for every file,
        node and name, the same answer with any fuel from 101 units on: the nesting is cut by the code
        (LINKS_TOO_DEEP at 100 nested activations), not by the fuel of the model *)
Theorem C13_link_recursion_bounded : forall f pid name id fuel, (101 <= fuel)%nat ->
  get_node_id repaired fuel f 0 pid name = get_node_id_top repaired f pid name /\
  chase_at repaired (get_node_id repaired (pred fuel) f 1) f 0 id = chase_link repaired f id.
Proof. exact link_recursion_bounded. Qed.
Print Assumptions C13_link_recursion_bounded.

(* ---- 7. what no repair of the ADF core changes: a child pointer redirected to an ancestor makes the CLIENT's walk
        exhaust any amount of fuel (both states) *)
Theorem C13_cycle_refuted : forall c, c = legacy \/ c = repaired ->
  exists bs, forall n, last (walk_events (walk c n bs)) (EvD 0) = EvFuel.
Proof. exact cycle_refuted. Qed.
Print Assumptions C13_cycle_refuted.

(* ---- 8. regression witnesses: the code BEFORE the repairs ([legacy]) violates the property; one witness file per
        forbidden outcome.  The files are corpus/C13/wit_*.adf and are run on the implementation on every run: if a
        repair is lost, the witness's finding key fires and the model switch of that repair goes back to [legacy] *)
(* 01. section 6 #12: valid file, root with two children, header field entries_for_sub_nodes 00000008 -> 00000002:
   ADFI_read_sub_node_table stores 8 entries into a 2-entry malloc *)
Theorem C13_oob_old_refuted :
  exists bs, on_open legacy bs (fun f r => check_4_child_name legacy f r [66] = OOBW 1 /\
                                           get_node_id_top legacy f r [66] = OOBW 1) False.
Proof. exact oob_write_refuted. Qed.
Print Assumptions C13_oob_old_refuted.

Example C13_oob_witness_is_one_field_from_valid :
  wit_oobw = firstn 342 wit_valid ++ hexenc 8 2 ++ skipn 350 wit_valid /\
  on_open legacy wit_valid (fun f r => check_4_child_name legacy f r [66] = Ok (Some (0, 1130)) /\
                                        get_node_id_top legacy f r [66] = Ok (0, 1130)) False.
Proof. split; [exact wit_oobw_is_one_field|exact (proj1 (wit_valid_ok legacy (or_introl eq_refl)))]. Qed.

(* 01. entries_for_sub_nodes = 0 with num_sub_nodes = 2: the name loop loads from a zero-size malloc *)
Theorem C13_oob_read_old_refuted : exists bs, on_open legacy bs (fun f r => check_4_child_name legacy f r [66] = OOBR 1) False.
Proof. exact oob_read_refuted. Qed.
Print Assumptions C13_oob_read_old_refuted.

(* 02. a data-chunk table whose end pointer claims 6 entries, read into malloc(2 entries) *)
Theorem C13_data_chunk_table_old_refuted :
  exists bs, on_open legacy bs (fun f r => match read_node_header legacy f (0, 884) with
                                           | Ok h => is_out (read_all_data legacy f h [73; 52] 8) (OOBW 2)
                                           | _ => False end) False.
Proof. exact dct_refuted. Qed.
Print Assumptions C13_data_chunk_table_old_refuted.

(* 03. link nodes: payload of 6000 bytes; dimension 2^64-1 (negative as int); dimension 2^63 (0 as int, then
   link_data[2^63] = 0); a five-token data type; a 3000-character file part *)
Theorem C13_link_buffer_old_refuted :
  exists bs, on_open legacy bs (fun f r => get_link_path legacy f (0, 884) 5200 5200 = OOBW 3 /\
                                           is_out (chase_link legacy f (0, 884)) (OOBW 3)) False.
Proof. exact link_buffer_refuted. Qed.
Print Assumptions C13_link_buffer_old_refuted.
Theorem C13_link_negative_length_old_refuted :
  exists bs, on_open legacy bs (fun f r => is_out (chase_link legacy f (0, 884)) (OOBW 6)) False.
Proof. exact link_negative_refuted. Qed.
Print Assumptions C13_link_negative_length_old_refuted.
Theorem C13_link_truncated_length_old_refuted :
  exists bs, on_open legacy bs (fun f r => is_out (chase_link legacy f (0, 884)) (OOBW 3)) False.
Proof. exact link_index_refuted. Qed.
Print Assumptions C13_link_truncated_length_old_refuted.
Theorem C13_link_tokens_old_refuted :
  exists bs, on_open legacy bs (fun f r => get_link_path legacy f (0, 884) 5200 5200 = OOBW 4) False.
Proof. exact link_tokens_refuted. Qed.
Print Assumptions C13_link_tokens_old_refuted.
Theorem C13_link_file_part_old_refuted :
  exists bs, on_open legacy bs (fun f r => clean (get_link_path legacy f (0, 884) 5200 5200) = true /\
                                           is_out (chase_link legacy f (0, 884)) (OOBW 8)) False.
Proof. exact link_file_part_refuted. Qed.
Print Assumptions C13_link_file_part_old_refuted.

Theorem C13_link_path_part_old_refuted :
  exists bs, on_open legacy bs (fun f r => clean (get_link_path legacy f (0, 884) 5200 5200) = true /\
                                           is_out (chase_link legacy f (0, 884)) (OOBW 8)) False.
Proof. exact link_path_part_refuted. Qed.
Print Assumptions C13_link_path_part_old_refuted.
(* a payload of 4901 characters without separator overflows link_path[4097] -- also when the guard for that shape is
   the ONLY one missing ([without 3]: every other repair in place) *)
Theorem C13_link_no_separator_old_refuted :
  exists bs, on_open legacy bs (fun f r => clean (get_link_path legacy f (0, 884) 5200 5200) = true /\
                                           is_out (chase_link legacy f (0, 884)) (OOBW 8)) False /\
             on_open (without 3) bs (fun f r => is_out (chase_link (without 3) f (0, 884)) (OOBW 8)) False.
Proof. exact link_no_separator_refuted. Qed.
Print Assumptions C13_link_no_separator_old_refuted.
Example C13_link_guards_independent :
  on_open (without 1) wit_longfile (fun f r => is_out (chase_link (without 1) f (0, 884)) (OOBW 8)) False /\
  on_open (without 2) wit_longpath (fun f r => is_out (chase_link (without 2) f (0, 884)) (OOBW 8)) False /\
  on_open repaired wit_longpath (fun f r => chase_link repaired f (0, 884)) (Err 0) = Err 4 /\
  on_open repaired wit_nosep (fun f r => chase_link repaired f (0, 884)) (Err 0) = Err 4.
Proof. exact link_guards_independent. Qed.

(* 04. a link whose target path passes through the link itself: Get_Node_ID -> chase_link -> Get_Node_ID ... nests
   deeper than any fuel (in the C: unbounded recursion, link_depth is a local of each activation) *)
Theorem C13_link_recursion_old_refuted :
  exists bs, on_open legacy bs (fun f r => get_node_id_top legacy f r [76] = Ok (0, 884) /\
                                           is_out (chase_link legacy f (0, 884)) OutOfFuel) False.
Proof. exact link_recursion_refuted. Qed.
Print Assumptions C13_link_recursion_old_refuted.

(* 05. format byte NUL: assert(format != UNDEFINED_FORMAT); format byte 0xFF: shift of a negative char *)
Theorem C13_abort_old_refuted : exists bs, database_open legacy bs = Abort.
Proof. exact abort_refuted. Qed.
Print Assumptions C13_abort_old_refuted.
Theorem C13_format_shift_old_refuted : exists bs, database_open legacy bs = UB.
Proof. exact format_shift_refuted. Qed.
Print Assumptions C13_format_shift_old_refuted.

(* 20. the '>' that ends the version string (byte 31 of the file) damaged: ADF_Database_Version copies on through
   the header structure into the caller's version[33]; the repaired code returns the 28 characters of the field *)
Theorem C13_version_old_refuted :
  exists bs, on_open legacy bs (fun f r => is_out (database_version legacy f VER_CAP) (OOBW 9)) False.
Proof. exact version_refuted. Qed.
Print Assumptions C13_version_old_refuted.
Example C13_version_repaired :
  on_open repaired wit_ver (fun f r => database_version repaired f VER_CAP) (Err 0)
  = Ok [65; 68; 70; 32; 68; 97; 116; 97; 98; 97; 115; 101; 32; 86; 101; 114; 115; 105; 111; 110; 32; 66; 48; 50; 48; 49; 50; 88].
Proof. exact version_repaired. Qed.

(* 06. "TaiL" -> "XaiL": ADFI_stridx_c scans beyond char disk_node_data[246] *)
Theorem C13_tagscan_old_refuted :
  exists bs, on_open legacy bs (fun f r => is_out (read_node_header legacy f r) (OOBR 5)) False.
Proof. exact tagscan_refuted. Qed.
Print Assumptions C13_tagscan_old_refuted.

(* 07 / 08 / 14 / 15. the caller's data buffer: I4[99999999999999]; a node typed I4,I4 read as I4; a header that
   declares sizeof(int) = 8; the zero fill of missing data; a data chunk of negative length *)
Theorem C13_datatype_overflow_old_refuted : exists bs, data_of legacy bs [73; 52] 4 = UB.
Proof. exact datatype_overflow_refuted. Qed.
Print Assumptions C13_datatype_overflow_old_refuted.
Theorem C13_compound_type_old_refuted : exists bs, data_of legacy bs [73; 52] 4 = OOBW 7.
Proof. exact compound_type_refuted. Qed.
Print Assumptions C13_compound_type_old_refuted.
Theorem C13_header_sizes_old_refuted : exists bs, data_of legacy bs [73; 52] 4 = OOBW 7.
Proof. exact header_sizes_refuted. Qed.
Print Assumptions C13_header_sizes_old_refuted.
Theorem C13_zero_fill_old_refuted : exists bs, data_of legacy bs [73; 52] 4 = OOBW 7.
Proof. exact zero_fill_refuted. Qed.
Print Assumptions C13_zero_fill_old_refuted.
Theorem C13_negative_chunk_old_refuted : exists bs, data_of legacy bs [73; 52] 8 = OOBW 6.
Proof. exact negative_chunk_refuted. Qed.
Print Assumptions C13_negative_chunk_old_refuted.

(* 13. file cut inside the root node header: ADFI_read_file hands out buffer bytes it never read *)
Theorem C13_stale_old_refuted :
  exists bs, on_open legacy bs (fun f r => is_out (read_node_header legacy f r) Stale) False.
Proof. exact stale_refuted. Qed.
Print Assumptions C13_stale_old_refuted.

Theorem C13_full_old_refuted : ~ C13_full legacy.
Proof. exact full_refuted. Qed.
Print Assumptions C13_full_old_refuted.

(* every one of these files is rejected with an error code by the repaired code *)
Example C13_witnesses_rejected_when_repaired :
  on_open repaired wit_oobw (fun f r => get_node_id_top repaired f r [66]) (Err 0) = Err 24 /\
  database_open repaired wit_oobr = Ok ({| f_bytes := wit_oobr; f_len := 1376; f_attr := wa |}, (0, 266)) /\
  on_open repaired wit_oobr (fun f r => read_node_header repaired f r) (Err 0) = Err 24 /\
  data_of repaired wit_dct [73; 52] 8 = Err 17 /\
  on_open repaired wit_biglink (fun f r => chase_link repaired f (0, 884)) (Err 0) = Err 47 /\
  on_open repaired wit_neglink (fun f r => chase_link repaired f (0, 884)) (Err 0) = Err 47 /\
  on_open repaired wit_hugelink (fun f r => chase_link repaired f (0, 884)) (Err 0) = Err 47 /\
  on_open repaired wit_toklink (fun f r => chase_link repaired f (0, 884)) (Err 0) = Err 31 /\
  on_open repaired wit_longfile (fun f r => chase_link repaired f (0, 884)) (Err 0) = Err 4 /\
  on_open repaired wit_linkrec (fun f r => chase_link repaired f (0, 884)) (Err 0) = Err 50 /\
  database_open repaired wit_abort = Err 19 /\ database_open repaired wit_fmtneg = Err 19 /\
  on_open repaired wit_tagscan (fun f r => read_node_header repaired f r) (Err 0) = Err 17 /\
  on_open repaired wit_stale (fun f r => read_node_header repaired f r) (Err 0) = Err 15 /\
  data_of repaired wit_dtov [73; 52] 4 = Err 31 /\ data_of repaired wit_rtype [73; 52] 4 = Err 31 /\
  data_of repaired wit_sizes [73; 52] 4 = Err 41 /\ data_of repaired wit_radset [73; 52] 4 = Ok (55, []) /\
  data_of repaired wit_radneg [73; 52] 8 = Err 17.
Proof. exact witnesses_rejected_when_repaired. Qed.

(* non-vacuity: the valid witness opens and walks cleanly in both states *)
Example C13_valid_witness_clean :
  forallb (fun e => match e with EvG r => clean r | EvN _ r => clean r | EvFuel => false | _ => true end)
          (walk_events (walk repaired 10 wit_valid)) = true /\
  forallb (fun e => match e with EvG r => clean r | EvN _ r => clean r | EvFuel => false | _ => true end)
          (walk_events (walk legacy 10 wit_valid)) = true.
Proof. split; [exact (proj2 (wit_valid_ok repaired (or_intror eq_refl)))|exact (proj2 (wit_valid_ok legacy (or_introl eq_refl)))]. Qed.

