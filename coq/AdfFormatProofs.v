(* AdfFormatProofs.v -- lemmas and proofs about the AdfFormat model (property C19). *)
From Coq Require Import ZArith List Bool Lia.
From CgnsV Require Import ListX AdfFormat.
Import ListNotations.
Local Open Scope Z_scope.

(* ================================================================= specification vocabulary *)
(* little / big endian encoding of the low 8n bits of v *)
Fixpoint enc_le (n : nat) (v : Z) : list Z :=
  match n with O => [] | S k => v mod 256 :: enc_le k (v / 256) end.
Definition enc_be (n : nat) (v : Z) : list Z := rev (enc_le n v).
Definition enc (fmt : Z) (n : nat) (v : Z) : list Z := if fmt =? chB then enc_be n v else enc_le n v.
Fixpoint dec_le (l : list Z) : Z := match l with [] => 0 | b :: r => b + 256 * dec_le r end.

Definition is_fmt (c : Z) : Prop := c = chB \/ c = chL.

(* what an equal-width translation must do to one element *)
Definition xlate (ff tf : Z) (x : list Z) : list Z := if ff =? tf then x else rev x.

(* width in bytes of the scalar types (X4 / X8 are two scalars) *)
Definition width (t : dtype) : nat :=
  match t with
  | MT => 0 | B1 | C1 => 1 | I4 | U4 | R4 => 4 | I8 | U8 | R8 => 8 | X4 => 8 | X8 => 16
  end%nat.
Definition scalar (t : dtype) : bool :=
  match t with I4 | I8 | U4 | U8 | R4 | R8 | B1 | C1 => true | _ => false end.

(* a header as this library writes it for format (f, o): ADFI_fill_initial_file_header gives the same
   char / int / long / float / double sizes for every (format, os) in {B,L} x {B,L} *)
Definition std_sizes (h : header) : Prop :=
  h_char h = 1 /\ h_int h = 4 /\ h_long h = 8 /\ h_float h = 4 /\ h_double h = 8.
(* a foreign header of a 32-bit writer: long is 4 bytes *)
Definition long4_sizes (h : header) : Prop :=
  h_char h = 1 /\ h_int h = 4 /\ h_long h = 4 /\ h_float h = 4 /\ h_double h = 8.

(* ================================================================= list facts *)
Lemma enc_le_length n v : length (enc_le n v) = n.
Proof. revert v; induction n; simpl; auto. Qed.
Lemma enc_length f n v : length (enc f n v) = n.
Proof. unfold enc, enc_be. destruct (f =? chB); rewrite ?rev_length; apply enc_le_length. Qed.

Lemma enc_le_dec n v : dec_le (enc_le n v) = v mod 256 ^ Z.of_nat n.
Proof.
  revert v; induction n as [|n IH]; intros v.
  - simpl. now rewrite Z.mod_1_r.
  - cbn [enc_le dec_le]. rewrite IH. rewrite Nat2Z.inj_succ, Z.pow_succ_r by lia.
    rewrite Z.rem_mul_r; [reflexivity|lia|]. apply Z.pow_pos_nonneg; lia.
Qed.

Lemma enc_le_bytes n v : Forall (fun b => 0 <= b < 256) (enc_le n v).
Proof.
  revert v; induction n; intros v; simpl; constructor; auto. apply Z.mod_pos_bound; lia.
Qed.

Lemma xlate_enc mf hf n v : is_fmt mf -> is_fmt hf -> xlate mf hf (enc mf n v) = enc hf n v.
Proof.
  intros [->| ->] [->| ->]; unfold xlate, enc, enc_be; simpl; auto using rev_involutive.
Qed.

Lemma xlate_inv a b x : xlate b a (xlate a b x) = x.
Proof.
  unfold xlate. rewrite (Z.eqb_sym b a). destruct (a =? b); auto using rev_involutive.
Qed.

Lemma xlate_length a b x : length (xlate a b x) = length x.
Proof. unfold xlate. destruct (a =? b); auto using rev_length. Qed.

Lemma concat_uniform_length {A} (es : list (list A)) m :
  Forall (fun e => length e = m) es -> length (concat es) = (length es * m)%nat.
Proof. induction 1; simpl; auto. rewrite app_length. lia. Qed.

Lemma takeZ_app_exact {A} (a b : list A) n : n = lenZ a -> takeZ n (a ++ b) = a.
Proof.
  intros ->. unfold takeZ, lenZ. rewrite Nat2Z.id, firstn_app, Nat.sub_diag, firstn_all. simpl. apply app_nil_r.
Qed.
Lemma dropZ_app_exact {A} (a b : list A) n : n = lenZ a -> dropZ n (a ++ b) = b.
Proof.
  intros ->. unfold dropZ, lenZ. rewrite Nat2Z.id, skipn_app, Nat.sub_diag, skipn_all. reflexivity.
Qed.
Lemma takeZ_all {A} (a : list A) n : n = lenZ a -> takeZ n a = a.
Proof. intros H. rewrite <- (app_nil_r a) at 1. now apply takeZ_app_exact. Qed.

(* ================================================================= finite checks over bytes *)
Lemma forallb_seqZ f n : forallb f (seqZ n) = true -> forall x, 0 <= x < n -> f x = true.
Proof.
  intros H x Hx. rewrite forallb_forall in H. apply H. unfold seqZ.
  apply in_map_iff. exists (Z.to_nat x). split; [lia|]. apply in_seq. lia.
Qed.

Lemma land128 b : 0 <= b < 256 -> (Z.land b 128 =? 128) = (128 <=? b).
Proof.
  intros H. apply Bool.eqb_prop.
  apply (forallb_seqZ (fun b => Bool.eqb (Z.land b 128 =? 128) (128 <=? b)) 256); [vm_compute; reflexivity|exact H].
Qed.

(* ================================================================= one element, equal widths *)
Ltac explode x H := repeat (destruct x as [|? x]; simpl in H; try discriminate H).

Lemma leaf_equal_width ff fos tf tos ty (w : nat) x rest temp :
  is_fmt ff -> is_fmt fos -> is_fmt tf -> is_fmt tos ->
  formats_equal ff tf fos tos = false ->
  In w [1; 4; 8; 16]%nat -> length x = w ->
  fst (conv_leaf (classify ff tf fos tos) ff tf fos tos ty (Z.of_nat w) (Z.of_nat w) (x ++ rest) temp)
  = Ok (xlate ff tf x).
Proof.
  intros [->| ->] [->| ->] [->| ->] [->| ->] Hne Hw Hl;
    try (vm_compute in Hne; discriminate Hne); clear Hne;
    simpl in Hw; destruct Hw as [<-|[<-|[<-|[<-|[]]]]];
    explode x Hl; vm_compute; reflexivity.
Qed.

(* ================================================================= arrays of elements: the converter is element-wise *)
Section Elementwise.
  Variables (cc : conv_case) (ff tf fos tos : Z) (ty : dtype) (dfrom dto : Z) (f : list Z -> list Z).
  Hypothesis leaf_ok : forall x rest temp, lenZ x = dfrom ->
      fst (conv_leaf cc ff tf fos tos ty dfrom dto (x ++ rest) temp) = Ok (f x) /\ lenZ (f x) = dto.

  Lemma conv_elems_elementwise (dir : bool) (tok : token) :
    tk_type tok = ty -> tk_len tok = 1 ->
    (if dir then tk_fsize tok else tk_msize tok) = dfrom ->
    (if dir then tk_msize tok else tk_fsize tok) = dto ->
    forall es rest temp, Forall (fun e => lenZ e = dfrom) es ->
      exists temp', conv_elems cc ff tf fos tos dir [tok] (length es) (concat es ++ rest) temp
                    = Ok (concat (map f es), rest, temp').
  Proof.
    intros Hty Hlen Hfrom Hto es. induction es as [|e es IH]; intros rest temp Hall.
    - simpl. eauto.
    - apply Forall_cons_iff in Hall as [He Hes].
      cbn [length conv_elems conv_tokens]. rewrite Hlen. change (Z.to_nat 1) with 1%nat.
      rewrite Hfrom, Hto, Hty. cbn [conv_array concat]. rewrite <- app_assoc.
      destruct (leaf_ok e (concat es ++ rest) temp He) as [Hl Hlen'].
      destruct (conv_leaf cc ff tf fos tos ty dfrom dto (e ++ concat es ++ rest) temp) as [r temp1].
      simpl in Hl. subst r. rewrite Hlen', Z.eqb_refl.
      rewrite dropZ_app_exact by (symmetry; exact He).
      destruct (IH rest temp1 Hes) as [temp' IH']. rewrite IH'.
      exists temp'. cbn [map concat]. now rewrite !app_nil_r.
  Qed.
End Elementwise.

(* ================================================================= the chunk loops *)
Fixpoint contiguous (off : Z) (ws : list (Z * list Z)) : Prop :=
  match ws with [] => True | w :: r => fst w = off /\ contiguous (off + lenZ (snd w)) r end.

Lemma lenZ_app {A} (a b : list A) : lenZ (a ++ b) = lenZ a + lenZ b.
Proof. unfold lenZ. rewrite app_length. lia. Qed.
Lemma lenZ_nonneg {A} (a : list A) : 0 <= lenZ a.
Proof. unfold lenZ. lia. Qed.
Lemma lenZ_concat_uniform (es : list (list Z)) m :
  Forall (fun e => lenZ e = m) es -> lenZ (concat es) = lenZ es * m.
Proof.
  induction 1 as [|e es He _ IH]; [reflexivity|]. cbn [concat]. rewrite lenZ_app, IH, He.
  unfold lenZ. cbn [length]. lia.
Qed.
Lemma Forall_map_len (f : list Z -> list Z) es a b :
  (forall x, lenZ x = a -> lenZ (f x) = b) -> Forall (fun e => lenZ e = a) es ->
  Forall (fun e => lenZ e = b) (map f es).
Proof. intros Hf H. induction H; simpl; constructor; auto. Qed.
Lemma lenZ_map {A B} (g : A -> B) l : lenZ (map g l) = lenZ l.
Proof. unfold lenZ. now rewrite map_length. Qed.

Section Chunking.
  Variables (conv : Z -> list Z -> res (list Z)) (f : list Z -> list Z) (isz osz : Z).
  (* isz = bytes of one element on the input side, osz = on the output side *)
  Hypothesis Hconv : forall es rest, es <> [] -> Forall (fun e => lenZ e = isz) es ->
      conv (lenZ es) (concat es ++ rest) = Ok (concat (map f es)).
  Hypothesis Hf : forall x, lenZ x = isz -> lenZ (f x) = osz.

  Lemma out_len es : Forall (fun e => lenZ e = isz) es -> lenZ (concat (map f es)) = lenZ es * osz.
  Proof.
    intros H. rewrite (lenZ_concat_uniform _ osz), lenZ_map; [reflexivity|].
    eapply Forall_map_len; eauto.
  Qed.

  Lemma split_at (c : Z) (es : list (list Z)) :
    1 <= c <= lenZ es ->
    let xs := firstn (Z.to_nat c) es in let ys := skipn (Z.to_nat c) es in
    es = xs ++ ys /\ lenZ xs = c /\ xs <> [] /\ (length ys < length es)%nat.
  Proof.
    intros Hc xs ys. unfold lenZ in *. repeat split.
    - symmetry. apply firstn_skipn.
    - subst xs. rewrite firstn_length. lia.
    - subst xs. intros E. apply (f_equal (@length _)) in E. rewrite firstn_length in E. simpl in E. lia.
    - subst ys. rewrite skipn_length. lia.
  Qed.

  (* ---- write: data_size = osz (file side), machine_size = isz *)
  Lemma write_loop_exit n fuel st acc :
    n <= ws_done st -> write_loop conv osz isz n fuel st acc = (rev acc, NO_ERROR).
  Proof.
    intros H. destruct fuel; cbn [write_loop]; (destruct (Z.ltb_spec (ws_done st) n); [lia|reflexivity]).
  Qed.

  Lemma write_loop_inv : forall fuel es d c off acc n,
      Forall (fun e => lenZ e = isz) es -> 1 <= c -> d + lenZ es = n -> (length es < fuel)%nat ->
      exists ws,
        write_loop conv osz isz n fuel
          {| ws_done := d; ws_chunk := c; ws_dfrom := c * isz; ws_dto := c * osz; ws_data := concat es;
             ws_off := off |} acc = (rev acc ++ ws, NO_ERROR)
        /\ concat (map snd ws) = concat (map f es) /\ contiguous off ws
        /\ Forall (fun w => lenZ (snd w) <= c * osz) ws.
  Proof.
    induction fuel as [|fuel IH]; intros es d c off acc n Hall Hc Hn Hfuel; [lia|].
    destruct es as [|e0 es0].
    - exists []. rewrite write_loop_exit by (cbn; unfold lenZ in Hn; simpl in Hn; lia).
      rewrite app_nil_r. simpl. auto.
    - remember (e0 :: es0) as es eqn:Ees.
      assert (Hpos : 1 <= lenZ es) by (subst es; unfold lenZ; simpl; lia).
      cbn [write_loop ws_done ws_chunk ws_dfrom ws_dto ws_data ws_off].
      destruct (Z.ltb_spec d n) as [_|]; [|lia].
      destruct (Z.gtb_spec (d + c) n) as [Hlim|Hlim].
      + (* last, shortened chunk *)
        replace (c - (d + c - n)) with (lenZ es) by lia.
        assert (Hcv : conv (lenZ es) (concat es) = Ok (concat (map f es))).
        { rewrite <- (app_nil_r (concat es)). apply Hconv; auto. subst es; discriminate. }
        assert (0 <= osz).
        { subst es. apply Forall_cons_iff in Hall as [He _]. rewrite <- (Hf e0 He). apply lenZ_nonneg. }
        eexists. split; [|split; [|split]].
        * rewrite Hcv. rewrite write_loop_exit by (cbn; lia).
          rewrite takeZ_all by (rewrite out_len; auto). cbn [rev]. reflexivity.
        * cbn [map snd concat]. apply app_nil_r.
        * cbn [contiguous fst]. auto.
        * constructor; [|constructor]. cbn [snd]. rewrite out_len by auto. nia.
      + (* a full chunk of c elements *)
        destruct (split_at c es ltac:(lia)) as (Es & Hxs & Hne & Hlt).
        set (xs := firstn (Z.to_nat c) es) in *. set (ys := skipn (Z.to_nat c) es) in *.
        assert (Hall' : Forall (fun e => lenZ e = isz) (xs ++ ys)) by (rewrite <- Es; exact Hall).
        apply Forall_app in Hall' as [Hxa Hya].
        assert (Hcv : conv c (concat es) = Ok (concat (map f xs))).
        { rewrite Es, concat_app. rewrite <- Hxs at 1. apply Hconv; auto. }
        assert (Hdrop : dropZ (c * isz) (concat es) = concat ys).
        { rewrite Es, concat_app. apply dropZ_app_exact. rewrite (lenZ_concat_uniform _ isz), Hxs; auto. }
        destruct (IH ys (d + c) c (off + c * osz) ((off, concat (map f xs)) :: acc) n Hya Hc) as (ws & Hw & Hcat & Hcont & Hsz).
        { rewrite Es, lenZ_app in Hn. lia. }
        { lia. }
        eexists. split; [|split; [|split]].
        * rewrite Hcv, Hdrop. rewrite takeZ_all by (rewrite out_len, Hxs; auto).
          rewrite Hw. cbn [rev]. rewrite <- app_assoc. reflexivity.
        * cbn [app map snd concat]. rewrite Hcat.
          transitivity (concat (map f (xs ++ ys))); [now rewrite map_app, concat_app | now rewrite <- Es].
        * cbn [app contiguous fst snd]. split; auto. rewrite out_len, Hxs by auto. exact Hcont.
        * cbn [app]. constructor; auto. cbn [snd]. rewrite out_len, Hxs by auto. lia.
  Qed.

  (* ---- read: data_size = isz (file side), machine_size = osz *)
  Lemma read_loop_exit n fuel st acc :
    n <= ws_done st -> read_loop conv isz osz n fuel st acc = (concat (rev acc), NO_ERROR).
  Proof.
    intros H. destruct fuel; cbn [read_loop]; (destruct (Z.ltb_spec (ws_done st) n); [lia|reflexivity]).
  Qed.

  Lemma read_loop_inv : forall fuel es tail d c off acc n,
      Forall (fun e => lenZ e = isz) es -> 1 <= c -> d + lenZ es = n -> (length es < fuel)%nat ->
      read_loop conv isz osz n fuel
        {| ws_done := d; ws_chunk := c; ws_dfrom := c * isz; ws_dto := c * osz; ws_data := concat es ++ tail;
           ws_off := off |} acc = (concat (rev acc) ++ concat (map f es), NO_ERROR).
  Proof.
    induction fuel as [|fuel IH]; intros es tail d c off acc n Hall Hc Hn Hfuel; [lia|].
    destruct es as [|e0 es0].
    - rewrite read_loop_exit by (cbn; unfold lenZ in Hn; simpl in Hn; lia). simpl. now rewrite app_nil_r.
    - remember (e0 :: es0) as es eqn:Ees.
      assert (Hpos : 1 <= lenZ es) by (subst es; unfold lenZ; simpl; lia).
      cbn [read_loop ws_done ws_chunk ws_dfrom ws_dto ws_data ws_off].
      destruct (Z.ltb_spec d n) as [_|]; [|lia].
      destruct (Z.gtb_spec (d + c) n) as [Hlim|Hlim].
      + replace (c - (d + c - n)) with (lenZ es) by lia.
        rewrite takeZ_app_exact by (rewrite (lenZ_concat_uniform _ isz); auto).
        assert (Hcv : conv (lenZ es) (concat es) = Ok (concat (map f es))).
        { rewrite <- (app_nil_r (concat es)). apply Hconv; auto. subst es; discriminate. }
        rewrite Hcv. rewrite read_loop_exit by (cbn; lia).
        rewrite takeZ_all by (rewrite out_len; auto). cbn [rev]. rewrite concat_app. cbn [concat].
        now rewrite app_nil_r.
      + destruct (split_at c es ltac:(lia)) as (Es & Hxs & Hne & Hlt).
        set (xs := firstn (Z.to_nat c) es) in *. set (ys := skipn (Z.to_nat c) es) in *.
        assert (Hall' : Forall (fun e => lenZ e = isz) (xs ++ ys)) by (rewrite <- Es; exact Hall).
        apply Forall_app in Hall' as [Hxa Hya].
        assert (Hsplit : concat es ++ tail = concat xs ++ (concat ys ++ tail)).
        { rewrite Es at 1. rewrite concat_app. now rewrite app_assoc. }
        rewrite Hsplit.
        rewrite takeZ_app_exact by (rewrite (lenZ_concat_uniform _ isz), Hxs; auto).
        rewrite dropZ_app_exact by (rewrite (lenZ_concat_uniform _ isz), Hxs; auto).
        assert (Hcv : conv c (concat xs) = Ok (concat (map f xs))).
        { rewrite <- (app_nil_r (concat xs)). rewrite <- Hxs at 1. apply Hconv; auto. }
        rewrite Hcv. rewrite takeZ_all by (rewrite out_len, Hxs; auto).
        rewrite IH; auto; [|rewrite Es, lenZ_app in Hn; lia|lia].
        cbn [rev]. rewrite concat_app. cbn [concat]. rewrite app_nil_r, <- app_assoc. apply f_equal.
        transitivity (concat (map f (xs ++ ys))); [now rewrite map_app, concat_app | now rewrite <- Es].
  Qed.
End Chunking.
