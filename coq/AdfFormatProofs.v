(* AdfFormatProofs.v -- lemmas and proofs about the AdfFormat model (property C19). *)
From Coq Require Import ZArith List Bool Lia.
From CgnsV Require Import ListX AdfFormat.
Import ListNotations.
Local Open Scope Z_scope.

(* ================================================================= specification vocabulary *)
(* little / big endian encoding of the low 8n bits of v *)
Fixpoint enc_le (n : nat) (v : Z) : list Z :=
  match n with O => [] | S k => v mod 256 :: enc_le k (v / 256) end.
Definition enc_be (n : nat) (v : Z) : list Z := rev (enc_le n v).
Definition enc (fmt : Z) (n : nat) (v : Z) : list Z := if fmt =? chB then enc_be n v else enc_le n v.
Fixpoint dec_le (l : list Z) : Z := match l with [] => 0 | b :: r => b + 256 * dec_le r end.

Definition is_fmt (c : Z) : Prop := c = chB \/ c = chL.

(* what an equal-width translation must do to one element *)
Definition xlate (ff tf : Z) (x : list Z) : list Z := if ff =? tf then x else rev x.

(* width in bytes of the scalar types (X4 / X8 are two scalars) *)
Definition width (t : dtype) : nat :=
  match t with
  | MT => 0 | B1 | C1 => 1 | I4 | U4 | R4 => 4 | I8 | U8 | R8 => 8 | X4 => 8 | X8 => 16
  end%nat.
Definition scalar (t : dtype) : bool :=
  match t with I4 | I8 | U4 | U8 | R4 | R8 | B1 | C1 => true | _ => false end.

(* a header as this library writes it for format (f, o): ADFI_fill_initial_file_header gives the same
   char / int / long / float / double sizes for every (format, os) in {B,L} x {B,L} *)
Definition std_sizes (h : header) : Prop :=
  h_char h = 1 /\ h_int h = 4 /\ h_long h = 8 /\ h_float h = 4 /\ h_double h = 8.
(* a foreign header of a 32-bit writer: long is 4 bytes *)
Definition long4_sizes (h : header) : Prop :=
  h_char h = 1 /\ h_int h = 4 /\ h_long h = 4 /\ h_float h = 4 /\ h_double h = 8.

(* ================================================================= list facts *)
Lemma enc_le_length n v : length (enc_le n v) = n.
Proof. revert v; induction n; simpl; auto. Qed.
Lemma enc_length f n v : length (enc f n v) = n.
Proof. unfold enc, enc_be. destruct (f =? chB); rewrite ?rev_length; apply enc_le_length. Qed.

Lemma enc_le_dec n v : dec_le (enc_le n v) = v mod 256 ^ Z.of_nat n.
Proof.
  revert v; induction n as [|n IH]; intros v.
  - simpl. now rewrite Z.mod_1_r.
  - cbn [enc_le dec_le]. rewrite IH. rewrite Nat2Z.inj_succ, Z.pow_succ_r by lia.
    rewrite Z.rem_mul_r; [reflexivity|lia|]. apply Z.pow_pos_nonneg; lia.
Qed.

Lemma enc_le_bytes n v : Forall (fun b => 0 <= b < 256) (enc_le n v).
Proof.
  revert v; induction n; intros v; simpl; constructor; auto. apply Z.mod_pos_bound; lia.
Qed.

Lemma xlate_enc mf hf n v : is_fmt mf -> is_fmt hf -> xlate mf hf (enc mf n v) = enc hf n v.
Proof.
  intros [->| ->] [->| ->]; unfold xlate, enc, enc_be; simpl; auto using rev_involutive.
Qed.

Lemma xlate_inv a b x : xlate b a (xlate a b x) = x.
Proof.
  unfold xlate. rewrite (Z.eqb_sym b a). destruct (a =? b); auto using rev_involutive.
Qed.

Lemma xlate_length a b x : length (xlate a b x) = length x.
Proof. unfold xlate. destruct (a =? b); auto using rev_length. Qed.

Lemma concat_uniform_length {A} (es : list (list A)) m :
  Forall (fun e => length e = m) es -> length (concat es) = (length es * m)%nat.
Proof. induction 1; simpl; auto. rewrite app_length. lia. Qed.

Lemma takeZ_app_exact {A} (a b : list A) n : n = lenZ a -> takeZ n (a ++ b) = a.
Proof.
  intros ->. unfold takeZ, lenZ. rewrite Nat2Z.id, firstn_app, Nat.sub_diag, firstn_all. simpl. apply app_nil_r.
Qed.
Lemma dropZ_app_exact {A} (a b : list A) n : n = lenZ a -> dropZ n (a ++ b) = b.
Proof.
  intros ->. unfold dropZ, lenZ. rewrite Nat2Z.id, skipn_app, Nat.sub_diag, skipn_all. reflexivity.
Qed.
Lemma takeZ_all {A} (a : list A) n : n = lenZ a -> takeZ n a = a.
Proof. intros H. rewrite <- (app_nil_r a) at 1. now apply takeZ_app_exact. Qed.

(* ================================================================= finite checks over bytes *)
Lemma forallb_seqZ f n : forallb f (seqZ n) = true -> forall x, 0 <= x < n -> f x = true.
Proof.
  intros H x Hx. rewrite forallb_forall in H. apply H. unfold seqZ.
  apply in_map_iff. exists (Z.to_nat x). split; [lia|]. apply in_seq. lia.
Qed.

Lemma land128 b : 0 <= b < 256 -> (Z.land b 128 =? 128) = (128 <=? b).
Proof.
  intros H. apply Bool.eqb_prop.
  apply (forallb_seqZ (fun b => Bool.eqb (Z.land b 128 =? 128) (128 <=? b)) 256); [vm_compute; reflexivity|exact H].
Qed.

(* ================================================================= one element, equal widths *)
Ltac explode x H := repeat (destruct x as [|? x]; simpl in H; try discriminate H).

Lemma leaf_equal_width ff fos tf tos ty (w : nat) x rest temp :
  is_fmt ff -> is_fmt fos -> is_fmt tf -> is_fmt tos ->
  formats_equal ff tf fos tos = false ->
  In w [1; 4; 8; 16]%nat -> length x = w ->
  fst (conv_leaf (classify ff tf fos tos) ff tf fos tos ty (Z.of_nat w) (Z.of_nat w) (x ++ rest) temp)
  = Ok (xlate ff tf x).
Proof.
  intros [->| ->] [->| ->] [->| ->] [->| ->] Hne Hw Hl;
    try (vm_compute in Hne; discriminate Hne); clear Hne;
    simpl in Hw; destruct Hw as [<-|[<-|[<-|[<-|[]]]]];
    explode x Hl; vm_compute; reflexivity.
Qed.

(* ================================================================= arrays of elements: the converter is element-wise *)
Section Elementwise.
  Variables (cc : conv_case) (ff tf fos tos : Z) (ty : dtype) (dfrom dto : Z) (f : list Z -> list Z).
  Hypothesis leaf_ok : forall x rest temp, lenZ x = dfrom ->
      fst (conv_leaf cc ff tf fos tos ty dfrom dto (x ++ rest) temp) = Ok (f x) /\ lenZ (f x) = dto.

  Lemma conv_elems_elementwise (dir : bool) (tok : token) :
    tk_type tok = ty -> tk_len tok = 1 ->
    (if dir then tk_fsize tok else tk_msize tok) = dfrom ->
    (if dir then tk_msize tok else tk_fsize tok) = dto ->
    forall es rest temp, Forall (fun e => lenZ e = dfrom) es ->
      exists temp', conv_elems cc ff tf fos tos dir [tok] (length es) (concat es ++ rest) temp
                    = Ok (concat (map f es), rest, temp').
  Proof.
    intros Hty Hlen Hfrom Hto es. induction es as [|e es IH]; intros rest temp Hall.
    - simpl. eauto.
    - apply Forall_cons_iff in Hall as [He Hes].
      cbn [length conv_elems conv_tokens]. rewrite Hlen. change (Z.to_nat 1) with 1%nat.
      rewrite Hfrom, Hto, Hty. cbn [conv_array concat]. rewrite <- app_assoc.
      destruct (leaf_ok e (concat es ++ rest) temp He) as [Hl Hlen'].
      destruct (conv_leaf cc ff tf fos tos ty dfrom dto (e ++ concat es ++ rest) temp) as [r temp1].
      simpl in Hl. subst r. rewrite Hlen', Z.eqb_refl.
      rewrite dropZ_app_exact by (symmetry; exact He).
      destruct (IH rest temp1 Hes) as [temp' IH']. rewrite IH'.
      exists temp'. cbn [map concat]. now rewrite !app_nil_r.
  Qed.
End Elementwise.

(* ================================================================= the chunk loops *)
Fixpoint contiguous (off : Z) (ws : list (Z * list Z)) : Prop :=
  match ws with [] => True | w :: r => fst w = off /\ contiguous (off + lenZ (snd w)) r end.

Lemma lenZ_app {A} (a b : list A) : lenZ (a ++ b) = lenZ a + lenZ b.
Proof. unfold lenZ. rewrite app_length. lia. Qed.
Lemma lenZ_nonneg {A} (a : list A) : 0 <= lenZ a.
Proof. unfold lenZ. lia. Qed.
Lemma lenZ_concat_uniform (es : list (list Z)) m :
  Forall (fun e => lenZ e = m) es -> lenZ (concat es) = lenZ es * m.
Proof.
  induction 1 as [|e es He _ IH]; [reflexivity|]. cbn [concat]. rewrite lenZ_app, IH, He.
  unfold lenZ. cbn [length]. lia.
Qed.
Lemma Forall_map_len (f : list Z -> list Z) es a b :
  (forall x, lenZ x = a -> lenZ (f x) = b) -> Forall (fun e => lenZ e = a) es ->
  Forall (fun e => lenZ e = b) (map f es).
Proof. intros Hf H. induction H; simpl; constructor; auto. Qed.
Lemma lenZ_map {A B} (g : A -> B) l : lenZ (map g l) = lenZ l.
Proof. unfold lenZ. now rewrite map_length. Qed.

Section Chunking.
  Variables (conv : Z -> list Z -> res (list Z)) (f : list Z -> list Z) (isz osz : Z).
  (* isz = bytes of one element on the input side, osz = on the output side *)
  Hypothesis Hconv : forall es rest, es <> [] -> Forall (fun e => lenZ e = isz) es ->
      conv (lenZ es) (concat es ++ rest) = Ok (concat (map f es)).
  Hypothesis Hf : forall x, lenZ x = isz -> lenZ (f x) = osz.

  Lemma out_len es : Forall (fun e => lenZ e = isz) es -> lenZ (concat (map f es)) = lenZ es * osz.
  Proof.
    intros H. rewrite (lenZ_concat_uniform _ osz), lenZ_map; [reflexivity|].
    eapply Forall_map_len; eauto.
  Qed.

  Lemma split_at (c : Z) (es : list (list Z)) :
    1 <= c <= lenZ es ->
    let xs := firstn (Z.to_nat c) es in let ys := skipn (Z.to_nat c) es in
    es = xs ++ ys /\ lenZ xs = c /\ xs <> [] /\ (length ys < length es)%nat.
  Proof.
    intros Hc xs ys. unfold lenZ in *. repeat split.
    - symmetry. apply firstn_skipn.
    - subst xs. rewrite firstn_length. lia.
    - subst xs. intros E. apply (f_equal (@length _)) in E. rewrite firstn_length in E. simpl in E. lia.
    - subst ys. rewrite skipn_length. lia.
  Qed.

  (* ---- write: data_size = osz (file side), machine_size = isz *)
  Lemma write_loop_exit n fuel st acc :
    n <= ws_done st -> write_loop conv osz isz n fuel st acc = (rev acc, NO_ERROR).
  Proof.
    intros H. destruct fuel; cbn [write_loop]; (destruct (Z.ltb_spec (ws_done st) n); [lia|reflexivity]).
  Qed.

  Lemma write_loop_inv : forall fuel es d c off acc n,
      Forall (fun e => lenZ e = isz) es -> 1 <= c -> d + lenZ es = n -> (length es < fuel)%nat ->
      exists ws,
        write_loop conv osz isz n fuel
          {| ws_done := d; ws_chunk := c; ws_dfrom := c * isz; ws_dto := c * osz; ws_data := concat es;
             ws_off := off |} acc = (rev acc ++ ws, NO_ERROR)
        /\ concat (map snd ws) = concat (map f es) /\ contiguous off ws
        /\ Forall (fun w => lenZ (snd w) <= c * osz) ws.
  Proof.
    induction fuel as [|fuel IH]; intros es d c off acc n Hall Hc Hn Hfuel; [lia|].
    destruct es as [|e0 es0].
    - exists []. rewrite write_loop_exit by (cbn; unfold lenZ in Hn; simpl in Hn; lia).
      rewrite app_nil_r. simpl. auto.
    - remember (e0 :: es0) as es eqn:Ees.
      assert (Hpos : 1 <= lenZ es) by (subst es; unfold lenZ; simpl; lia).
      cbn [write_loop ws_done ws_chunk ws_dfrom ws_dto ws_data ws_off].
      destruct (Z.ltb_spec d n) as [_|]; [|lia].
      destruct (Z.gtb_spec (d + c) n) as [Hlim|Hlim].
      + (* last, shortened chunk *)
        replace (c - (d + c - n)) with (lenZ es) by lia.
        assert (Hcv : conv (lenZ es) (concat es) = Ok (concat (map f es))).
        { rewrite <- (app_nil_r (concat es)). apply Hconv; auto. subst es; discriminate. }
        assert (0 <= osz).
        { subst es. apply Forall_cons_iff in Hall as [He _]. rewrite <- (Hf e0 He). apply lenZ_nonneg. }
        eexists. split; [|split; [|split]].
        * rewrite Hcv. rewrite write_loop_exit by (cbn; lia).
          rewrite takeZ_all by (rewrite out_len; auto). cbn [rev]. reflexivity.
        * cbn [map snd concat]. apply app_nil_r.
        * cbn [contiguous fst]. auto.
        * constructor; [|constructor]. cbn [snd]. rewrite out_len by auto. nia.
      + (* a full chunk of c elements *)
        destruct (split_at c es ltac:(lia)) as (Es & Hxs & Hne & Hlt).
        set (xs := firstn (Z.to_nat c) es) in *. set (ys := skipn (Z.to_nat c) es) in *.
        assert (Hall' : Forall (fun e => lenZ e = isz) (xs ++ ys)) by (rewrite <- Es; exact Hall).
        apply Forall_app in Hall' as [Hxa Hya].
        assert (Hcv : conv c (concat es) = Ok (concat (map f xs))).
        { rewrite Es, concat_app. rewrite <- Hxs at 1. apply Hconv; auto. }
        assert (Hdrop : dropZ (c * isz) (concat es) = concat ys).
        { rewrite Es, concat_app. apply dropZ_app_exact. rewrite (lenZ_concat_uniform _ isz), Hxs; auto. }
        destruct (IH ys (d + c) c (off + c * osz) ((off, concat (map f xs)) :: acc) n Hya Hc) as (ws & Hw & Hcat & Hcont & Hsz).
        { rewrite Es, lenZ_app in Hn. lia. }
        { lia. }
        eexists. split; [|split; [|split]].
        * rewrite Hcv, Hdrop. rewrite takeZ_all by (rewrite out_len, Hxs; auto).
          rewrite Hw. cbn [rev]. rewrite <- app_assoc. reflexivity.
        * cbn [app map snd concat]. rewrite Hcat.
          transitivity (concat (map f (xs ++ ys))); [now rewrite map_app, concat_app | now rewrite <- Es].
        * cbn [app contiguous fst snd]. split; auto. rewrite out_len, Hxs by auto. exact Hcont.
        * cbn [app]. constructor; auto. cbn [snd]. rewrite out_len, Hxs by auto. lia.
  Qed.

  (* ---- read: data_size = isz (file side), machine_size = osz *)
  Lemma read_loop_exit n fuel st acc :
    n <= ws_done st -> read_loop conv isz osz n fuel st acc = (concat (rev acc), NO_ERROR).
  Proof.
    intros H. destruct fuel; cbn [read_loop]; (destruct (Z.ltb_spec (ws_done st) n); [lia|reflexivity]).
  Qed.

  Lemma read_loop_inv : forall fuel es tail d c off acc n,
      Forall (fun e => lenZ e = isz) es -> 1 <= c -> d + lenZ es = n -> (length es < fuel)%nat ->
      read_loop conv isz osz n fuel
        {| ws_done := d; ws_chunk := c; ws_dfrom := c * isz; ws_dto := c * osz; ws_data := concat es ++ tail;
           ws_off := off |} acc = (concat (rev acc) ++ concat (map f es), NO_ERROR).
  Proof.
    induction fuel as [|fuel IH]; intros es tail d c off acc n Hall Hc Hn Hfuel; [lia|].
    destruct es as [|e0 es0].
    - rewrite read_loop_exit by (cbn; unfold lenZ in Hn; simpl in Hn; lia). simpl. now rewrite app_nil_r.
    - remember (e0 :: es0) as es eqn:Ees.
      assert (Hpos : 1 <= lenZ es) by (subst es; unfold lenZ; simpl; lia).
      cbn [read_loop ws_done ws_chunk ws_dfrom ws_dto ws_data ws_off].
      destruct (Z.ltb_spec d n) as [_|]; [|lia].
      destruct (Z.gtb_spec (d + c) n) as [Hlim|Hlim].
      + replace (c - (d + c - n)) with (lenZ es) by lia.
        rewrite takeZ_app_exact by (rewrite (lenZ_concat_uniform _ isz); auto).
        assert (Hcv : conv (lenZ es) (concat es) = Ok (concat (map f es))).
        { rewrite <- (app_nil_r (concat es)). apply Hconv; auto. subst es; discriminate. }
        rewrite Hcv. rewrite read_loop_exit by (cbn; lia).
        rewrite takeZ_all by (rewrite out_len; auto). cbn [rev]. rewrite concat_app. cbn [concat].
        now rewrite app_nil_r.
      + destruct (split_at c es ltac:(lia)) as (Es & Hxs & Hne & Hlt).
        set (xs := firstn (Z.to_nat c) es) in *. set (ys := skipn (Z.to_nat c) es) in *.
        assert (Hall' : Forall (fun e => lenZ e = isz) (xs ++ ys)) by (rewrite <- Es; exact Hall).
        apply Forall_app in Hall' as [Hxa Hya].
        assert (Hsplit : concat es ++ tail = concat xs ++ (concat ys ++ tail)).
        { rewrite Es at 1. rewrite concat_app. now rewrite app_assoc. }
        rewrite Hsplit.
        rewrite takeZ_app_exact by (rewrite (lenZ_concat_uniform _ isz), Hxs; auto).
        rewrite dropZ_app_exact by (rewrite (lenZ_concat_uniform _ isz), Hxs; auto).
        assert (Hcv : conv c (concat xs) = Ok (concat (map f xs))).
        { rewrite <- (app_nil_r (concat xs)). rewrite <- Hxs at 1. apply Hconv; auto. }
        rewrite Hcv. rewrite takeZ_all by (rewrite out_len, Hxs; auto).
        rewrite IH; auto; [|rewrite Es, lenZ_app in Hn; lia|lia].
        cbn [rev]. rewrite concat_app. cbn [concat]. rewrite app_nil_r, <- app_assoc.
        replace (concat (map f es)) with (concat (map f xs) ++ concat (map f ys)); [reflexivity|].
        transitivity (concat (map f (xs ++ ys))); [now rewrite map_app, concat_app | now rewrite <- Es].
  Qed.
End Chunking.

(* ================================================================= top level: library-created headers *)
Definition wz (t : dtype) : Z := Z.of_nat (width t).
Definition std_tt (t : dtype) : toktype :=
  {| tt_toks := [ {| tk_type := t; tk_len := 1; tk_fsize := wz t; tk_msize := wz t |} ];
     tt_fbytes := wz t; tt_mbytes := wz t |}.

Lemma eval_std h t : std_sizes h -> t <> MT -> evaluate_datatype h t = Ok (std_tt t).
Proof.
  intros (Hc & Hi & Hl & Hf & Hd) Ht. destruct t; try congruence; unfold evaluate_datatype, std_tt, wz;
    rewrite ?Hc, ?Hi, ?Hl, ?Hf, ?Hd; reflexivity.
Qed.

Lemma width_in t : t <> MT -> In (width t) [1; 4; 8; 16]%nat.
Proof. destruct t; simpl; intros; try congruence; auto 10. Qed.

Lemma is_fmt_notN c : is_fmt c -> (c =? chN) = false.
Proof. intros [->| ->]; reflexivity. Qed.

(* ADFI_convert_number_format on an array of equal-width elements is element-wise [xlate] *)
Lemma convert_std ff fos tf tos dir t es rest temp :
  is_fmt ff -> is_fmt fos -> is_fmt tf -> is_fmt tos -> formats_equal ff tf fos tos = false ->
  t <> MT -> es <> [] -> Forall (fun e => lenZ e = wz t) es ->
  convert_number_format ff fos tf tos dir (std_tt t) (lenZ es) (concat es ++ rest) temp
  = Ok (concat (map (xlate ff tf) es)).
Proof.
  intros Hff Hfos Htf Htos Hne Ht Hes Hall. unfold convert_number_format, convert_with.
  assert (lenZ es <> 0) by (destruct es; [congruence|unfold lenZ; simpl; lia]).
  destruct (Z.eqb_spec (lenZ es) 0); [contradiction|].
  rewrite (is_fmt_notN ff), (is_fmt_notN tf), Hne by assumption. cbn [orb].
  unfold lenZ at 1. rewrite Nat2Z.id.
  destruct (conv_elems_elementwise (classify ff tf fos tos) ff tf fos tos t (wz t) (wz t) (xlate ff tf))
    with (dir := dir) (tok := {| tk_type := t; tk_len := 1; tk_fsize := wz t; tk_msize := wz t |})
         (es := es) (rest := rest) (temp := temp) as [temp' E]; auto.
  - intros x r tp Hx. split.
    + apply leaf_equal_width; auto using width_in. unfold lenZ, wz in Hx. lia.
    + unfold lenZ in *. now rewrite xlate_length.
  - destruct dir; reflexivity.
  - destruct dir; reflexivity.
  - cbn [std_tt tt_toks]. now rewrite E.
Qed.

Lemma wz_pos t : t <> MT -> 1 <= wz t <= 16.
Proof. destruct t; unfold wz; simpl; intros; try congruence; lia. Qed.

(* ---- single element: semantic statement *)
Lemma to_file1_std m mf mo h t x temp :
  machine_format_of m = (mf, mo) -> is_fmt mf -> is_fmt mo -> is_fmt (h_format h) -> is_fmt (h_os h) ->
  formats_equal mf (h_format h) mo (h_os h) = false -> std_sizes h -> t <> MT -> lenZ x = wz t ->
  to_file1 m h t x temp = Ok (xlate mf (h_format h) x).
Proof.
  intros Hm Hmf Hmo Hhf Hho Hne Hstd Ht Hx. unfold to_file1. rewrite Hm, (eval_std h t Hstd Ht). cbn [bindr].
  pose proof (convert_std mf mo (h_format h) (h_os h) false t [x] [] temp Hmf Hmo Hhf Hho Hne Ht) as E.
  cbn [concat map] in E. rewrite !app_nil_r in E. apply E; [discriminate|]. constructor; auto.
Qed.

Lemma from_file1_std m mf mo h t y temp :
  machine_format_of m = (mf, mo) -> is_fmt mf -> is_fmt mo -> is_fmt (h_format h) -> is_fmt (h_os h) ->
  formats_equal (h_format h) mf (h_os h) mo = false -> std_sizes h -> t <> MT -> lenZ y = wz t ->
  from_file1 m h t y temp = Ok (xlate (h_format h) mf y).
Proof.
  intros Hm Hmf Hmo Hhf Hho Hne Hstd Ht Hx. unfold from_file1. rewrite Hm, (eval_std h t Hstd Ht). cbn [bindr].
  pose proof (convert_std (h_format h) (h_os h) mf mo true t [y] [] temp Hhf Hho Hmf Hmo Hne Ht) as E.
  cbn [concat map] in E. rewrite !app_nil_r in E. apply E; [discriminate|]. constructor; auto.
Qed.

Lemma formats_equal_sym a b c d : is_fmt a -> is_fmt b -> is_fmt c -> is_fmt d ->
  formats_equal b a d c = formats_equal a b c d.
Proof. intros [->| ->] [->| ->] [->| ->] [->| ->]; reflexivity. Qed.

Lemma scalar_notMT t : scalar t = true -> t <> MT.
Proof. destruct t; simpl; congruence. Qed.

Lemma to_file_is_encoding m mf mo h t v temp :
  machine_format_of m = (mf, mo) -> is_fmt mf -> is_fmt mo -> is_fmt (h_format h) -> is_fmt (h_os h) ->
  formats_equal mf (h_format h) mo (h_os h) = false -> std_sizes h -> scalar t = true ->
  to_file1 m h t (enc mf (width t) v) temp = Ok (enc (h_format h) (width t) v).
Proof.
  intros. rewrite (to_file1_std m mf mo); auto using scalar_notMT.
  - now rewrite xlate_enc.
  - unfold lenZ, wz. now rewrite enc_length.
Qed.

(* layout documentation: a complex element is translated as ONE 8/16-byte unit, so with different byte orders
   the file holds (imaginary, real) in the file's byte order *)
Lemma complex_layout m mf mo h t (n : nat) re im temp :
  machine_format_of m = (mf, mo) -> is_fmt mf -> is_fmt mo -> is_fmt (h_format h) -> is_fmt (h_os h) ->
  formats_equal mf (h_format h) mo (h_os h) = false -> std_sizes h ->
  (t = X4 /\ n = 4%nat) \/ (t = X8 /\ n = 8%nat) -> mf <> h_format h ->
  to_file1 m h t (enc mf n re ++ enc mf n im) temp = Ok (enc (h_format h) n im ++ enc (h_format h) n re).
Proof.
  intros Hm Hmf Hmo Hhf Hho Hne Hstd Ht Hdiff.
  rewrite (to_file1_std m mf mo); auto.
  - assert (Hr : forall v, rev (enc mf n v) = enc (h_format h) n v).
    { intros v. pose proof (xlate_enc mf (h_format h) n v Hmf Hhf) as E. unfold xlate in E.
      destruct (Z.eqb_spec mf (h_format h)); [contradiction|exact E]. }
    unfold xlate. destruct (Z.eqb_spec mf (h_format h)); [contradiction|].
    now rewrite rev_app_distr, !Hr.
  - destruct Ht as [[-> ->]|[-> ->]]; discriminate.
  - unfold lenZ. rewrite app_length, !enc_length. destruct Ht as [[-> ->]|[-> ->]]; reflexivity.
Qed.

Lemma roundtrip1 m mf mo h t x temp temp' :
  machine_format_of m = (mf, mo) -> is_fmt mf -> is_fmt mo -> is_fmt (h_format h) -> is_fmt (h_os h) ->
  formats_equal mf (h_format h) mo (h_os h) = false -> std_sizes h -> t <> MT -> lenZ x = wz t ->
  bindr (to_file1 m h t x temp) (fun y => from_file1 m h t y temp') = Ok x.
Proof.
  intros. rewrite (to_file1_std m mf mo) by auto. cbn [bindr].
  rewrite (from_file1_std m mf mo); auto.
  - now rewrite xlate_inv.
  - now rewrite formats_equal_sym.
  - unfold lenZ in *. now rewrite xlate_length.
Qed.

(* ---- the chunk loops, for any element-wise converter (C19_chunking) *)
Lemma chunk_bounds osz : 0 < osz <= CONVERSION_BUFF_SIZE ->
  1 <= CONVERSION_BUFF_SIZE / osz /\ CONVERSION_BUFF_SIZE / osz * osz <= CONVERSION_BUFF_SIZE.
Proof.
  intros H. split.
  - apply Z.div_le_lower_bound; lia.
  - rewrite Z.mul_comm. apply Z.mul_div_le. lia.
Qed.

Lemma write_translated_gen_spec conv f isz osz total es :
  (forall es rest, es <> [] -> Forall (fun e => lenZ e = isz) es ->
      conv (lenZ es) (concat es ++ rest) = Ok (concat (map f es))) ->
  (forall x, lenZ x = isz -> lenZ (f x) = osz) ->
  0 < osz <= CONVERSION_BUFF_SIZE -> Forall (fun e => lenZ e = isz) es -> total / osz = lenZ es ->
  exists ws, write_translated_gen conv isz osz total (concat es) = (ws, NO_ERROR)
    /\ concat (map snd ws) = concat (map f es) /\ contiguous 0 ws
    /\ Forall (fun w => lenZ (snd w) <= CONVERSION_BUFF_SIZE) ws.
Proof.
  intros Hconv Hf Hosz Hall Hn. unfold write_translated_gen.
  destruct (Z.leb_spec osz 0); [lia|].
  destruct (chunk_bounds osz Hosz) as [Hc1 Hc2].
  destruct (Z.ltb_spec (CONVERSION_BUFF_SIZE / osz) 1); [lia|].
  rewrite Hn.
  destruct (write_loop_inv conv f isz osz Hconv Hf (S (Z.to_nat (lenZ es))) es 0 (CONVERSION_BUFF_SIZE / osz) 0 []
              (lenZ es) Hall Hc1) as (ws & E & Hcat & Hcont & Hsz); [lia|unfold lenZ; lia|].
  exists ws. rewrite E. cbn [rev app]. repeat split; auto.
  eapply Forall_impl; [|exact Hsz]. cbv beta. intros. lia.
Qed.

Lemma read_translated_gen_spec conv f isz osz total es tail :
  (forall es rest, es <> [] -> Forall (fun e => lenZ e = isz) es ->
      conv (lenZ es) (concat es ++ rest) = Ok (concat (map f es))) ->
  (forall x, lenZ x = isz -> lenZ (f x) = osz) ->
  0 < isz <= CONVERSION_BUFF_SIZE -> Forall (fun e => lenZ e = isz) es -> total / isz = lenZ es ->
  read_translated_gen conv osz isz total (concat es ++ tail) = (concat (map f es), NO_ERROR).
Proof.
  intros Hconv Hf Hisz Hall Hn. unfold read_translated_gen.
  destruct (Z.leb_spec isz 0); [lia|].
  destruct (chunk_bounds isz Hisz) as [Hc1 Hc2].
  destruct (Z.ltb_spec (CONVERSION_BUFF_SIZE / isz) 1); [lia|].
  rewrite Hn.
  rewrite (read_loop_inv conv f isz osz Hconv Hf); auto; try (unfold lenZ; lia).
Qed.

(* a converter that refuses (whatever the data) makes the write loop issue no ADFI_write_file at all *)
Lemma refused_writes_nothing conv isz osz total data :
  (forall k d, 0 < k -> exists e, conv k d = Err e /\ e <> NO_ERROR) ->
  fst (write_translated_gen conv isz osz total data) = []
  /\ (0 < osz <= CONVERSION_BUFF_SIZE -> 0 < total / osz -> snd (write_translated_gen conv isz osz total data) <> NO_ERROR).
Proof.
  intros Hc. unfold write_translated_gen.
  destruct (Z.leb_spec osz 0); [split; [reflexivity|lia]|].
  destruct (Z.ltb_spec (CONVERSION_BUFF_SIZE / osz) 1).
  { split; [reflexivity|]. intros Hb. destruct (chunk_bounds osz Hb). lia. }
  cbn [write_loop ws_done ws_chunk ws_data].
  destruct (Z.ltb_spec 0 (total / osz)); [|split; [reflexivity|lia]].
  match goal with |- context [conv ?k ?d] => destruct (Hc k d) as (e & E & Hne) end.
  { destruct (Z.gtb_spec (0 + CONVERSION_BUFF_SIZE / osz) (total / osz)); lia. }
  rewrite E. split; [reflexivity|]. intros _ _. exact Hne.
Qed.

(* ---- arrays through both loops: what reaches the file, and the round trip *)
Lemma array_roundtrip mf mo hf ho t es tail temp temp' :
  is_fmt mf -> is_fmt mo -> is_fmt hf -> is_fmt ho -> formats_equal mf hf mo ho = false ->
  t <> MT -> Forall (fun e => lenZ e = wz t) es ->
  let total := lenZ es * wz t in
  exists ws,
    write_data_translated mf mo hf ho (std_tt t) (wz t) total (concat es) temp = (ws, NO_ERROR)
    /\ contiguous 0 ws /\ Forall (fun w => lenZ (snd w) <= CONVERSION_BUFF_SIZE) ws
    /\ concat (map snd ws) = concat (map (xlate mf hf) es)
    /\ read_data_translated hf ho mf mo (std_tt t) (wz t) total (concat (map snd ws) ++ tail) temp'
       = (concat es, NO_ERROR).
Proof.
  intros Hmf Hmo Hhf Hho Hne Ht Hall total.
  pose proof (wz_pos t Ht) as Hw.
  assert (Hdiv : total / wz t = lenZ es) by (unfold total; apply Z.div_mul; lia).
  assert (Hb : 0 < wz t <= CONVERSION_BUFF_SIZE) by (unfold CONVERSION_BUFF_SIZE; lia).
  destruct (write_translated_gen_spec
              (fun k d => convert_number_format mf mo hf ho false (std_tt t) k d temp)
              (xlate mf hf) (wz t) (wz t) total es) as (ws & E & Hcat & Hcont & Hsz); auto.
  { intros es0 rest Hes0 Hall0. apply convert_std; auto. }
  { intros x Hx. unfold lenZ in *. now rewrite xlate_length. }
  exists ws. unfold write_data_translated. cbn [std_tt tt_mbytes]. rewrite E. repeat split; auto.
  rewrite Hcat. unfold read_data_translated. cbn [std_tt tt_mbytes].
  rewrite (read_translated_gen_spec
             (fun k d => convert_number_format hf ho mf mo true (std_tt t) k d temp')
             (xlate hf mf) (wz t) (wz t) total (map (xlate mf hf) es) tail); auto.
  - rewrite map_map. rewrite (map_ext _ (fun x => x)) by (intros; apply xlate_inv). now rewrite map_id.
  - intros es0 rest Hes0 Hall0. apply convert_std; auto. now rewrite formats_equal_sym.
  - intros x Hx. unfold lenZ in *. now rewrite xlate_length.
  - eapply Forall_map_len; [|exact Hall]. intros x Hx. unfold lenZ in *. now rewrite xlate_length.
  - now rewrite lenZ_map.
Qed.

(* ================================================================= foreign headers: sizeof(long) = 4 *)
Lemma this_host_format : machine_format_of this_host = (chL, chB).
Proof. reflexivity. Qed.

Definition sgn (b : Z) : Z := if Z.land b 128 =? 128 then 255 else 0.

Lemma eval_long4 h t : long4_sizes h -> (t = I8 \/ t = U8) ->
  evaluate_datatype h t = Ok {| tt_toks := [ {| tk_type := t; tk_len := 1; tk_fsize := 4; tk_msize := 8 |} ];
                                tt_fbytes := 4; tt_mbytes := 8 |}.
Proof. intros (_ & _ & Hl & _ & _) [->| ->]; unfold evaluate_datatype; rewrite Hl; reflexivity. Qed.

(* I8 through a 32-bit file of either byte order, on this host: 4 bytes are stored, sign-extended on read *)
Lemma i8_long4_to_file h b0 b1 b2 b3 b4 b5 b6 b7 temp :
  long4_sizes h -> h_os h = chL -> is_fmt (h_format h) ->
  to_file1 this_host h I8 [b0; b1; b2; b3; b4; b5; b6; b7] temp = Ok (xlate chL (h_format h) [b0; b1; b2; b3]).
Proof.
  intros Hs Ho Hf. unfold to_file1. rewrite this_host_format, (eval_long4 h I8 Hs) by auto. rewrite Ho.
  destruct Hf as [E|E]; rewrite E; vm_compute; reflexivity.
Qed.

Lemma i8_long4_roundtrip_bytes h b0 b1 b2 b3 b4 b5 b6 b7 temp temp' :
  long4_sizes h -> h_os h = chL -> is_fmt (h_format h) ->
  bindr (to_file1 this_host h I8 [b0; b1; b2; b3; b4; b5; b6; b7] temp)
        (fun y => from_file1 this_host h I8 y temp')
  = Ok [b0; b1; b2; b3; sgn b3; sgn b3; sgn b3; sgn b3].
Proof.
  intros Hs Ho Hf. unfold to_file1, from_file1. rewrite this_host_format, (eval_long4 h I8 Hs) by auto. rewrite Ho.
  destruct Hf as [E|E]; rewrite E; vm_compute; reflexivity.
Qed.

Ltac Zify.zify_post_hook ::= Z.div_mod_to_equations.

Lemma i8_long4_iff h v temp temp' :
  long4_sizes h -> h_os h = chL -> is_fmt (h_format h) -> - 2 ^ 63 <= v < 2 ^ 63 ->
  (bindr (to_file1 this_host h I8 (enc_le 8 v) temp) (fun y => from_file1 this_host h I8 y temp')
   = Ok (enc_le 8 v)) <-> - 2 ^ 31 <= v < 2 ^ 31.
Proof.
  intros Hs Ho Hf Hv.
  pose proof (enc_le_dec 8 v) as Hdec. pose proof (enc_le_bytes 8 v) as Hb. pose proof (enc_le_length 8 v) as Hl.
  remember (enc_le 8 v) as l eqn:El. clear El.
  explode l Hl. clear Hl.
  rewrite i8_long4_roundtrip_bytes by auto.
  repeat match goal with H : Forall _ (_ :: _) |- _ => apply Forall_cons_iff in H; destruct H as [? H] end.
  cbn [dec_le] in Hdec. change (256 ^ Z.of_nat 8) with 18446744073709551616 in Hdec.
  unfold sgn. rewrite land128 by assumption.
  change (2 ^ 63) with 9223372036854775808 in Hv. change (2 ^ 31) with 2147483648.
  destruct (Z.leb_spec 128 z2); split; intros G.
  - injection G as E1 E2 E3 E4. lia.
  - assert (z3 = 255 /\ z4 = 255 /\ z5 = 255 /\ z6 = 255) as (-> & -> & -> & ->) by lia. reflexivity.
  - injection G as E1 E2 E3 E4. lia.
  - assert (z3 = 0 /\ z4 = 0 /\ z5 = 0 /\ z6 = 0) as (-> & -> & -> & ->) by lia. reflexivity.
Qed.

(* ================================================================= what cannot be honoured is refused *)
Definition tt_long4 (t : dtype) : toktype :=
  {| tt_toks := [ {| tk_type := t; tk_len := 1; tk_fsize := 4; tk_msize := 8 |} ]; tt_fbytes := 4; tt_mbytes := 8 |}.

(* U8 in a 32-bit file (either byte order) whose long is 4 bytes: both directions, any count, any data *)
Lemma u8_long4_refused hf dir k d temp :
  is_fmt hf -> 0 < k ->
  (if dir : bool then convert_number_format hf chL chL chB true (tt_long4 U8) k d temp
   else convert_number_format chL chB hf chL false (tt_long4 U8) k d temp) = Err INVALID_DATA_TYPE.
Proof.
  intros Hf Hk. unfold convert_number_format, convert_with.
  destruct (Z.eqb_spec k 0); [lia|].
  destruct (Z.to_nat k) as [|n'] eqn:Ek; [lia|].
  destruct Hf as [-> | ->]; destruct dir; vm_compute; reflexivity.
Qed.

(* a 64-bit big-endian file whose header nevertheless says long = 4: I8 and U8 are refused *)
Lemma long4_big64_refused t dir k d temp :
  t = I8 \/ t = U8 -> 0 < k ->
  (if dir : bool then convert_number_format chB chB chL chB true (tt_long4 t) k d temp
   else convert_number_format chL chB chB chB false (tt_long4 t) k d temp) = Err DATA_TYPE_NOT_SUPPORTED.
Proof.
  intros Ht Hk. unfold convert_number_format, convert_with.
  destruct (Z.eqb_spec k 0); [lia|].
  destruct (Z.to_nat k) as [|n'] eqn:Ek; [lia|].
  destruct Ht as [-> | ->]; destruct dir; vm_compute; reflexivity.
Qed.

(* native 'N' on either side *)
Lemma native_refused ff fos tf tos dir tt k d temp :
  k <> 0 -> ff = chN \/ tf = chN ->
  convert_number_format ff fos tf tos dir tt k d temp = Err CANNOT_CONVERT_NATIVE_FORMAT.
Proof.
  intros Hk H. unfold convert_number_format, convert_with.
  destruct (Z.eqb_spec k 0); [contradiction|].
  destruct H as [-> | ->]; [reflexivity|]. now rewrite Bool.orb_true_r.
Qed.

(* a combination of format / os letters outside the switch (unknown letters, or a known pair the switch does
   not list) reaches "default:" on the first element *)
Lemma unknown_letters_refused ff fos tf tos dir t k d temp :
  0 < k -> t <> MT -> (ff =? chN) || (tf =? chN) = false -> formats_equal ff tf fos tos = false ->
  classify ff tf fos tos = CNone ->
  convert_number_format ff fos tf tos dir (std_tt t) k d temp = Err MACHINE_FORMAT_NOT_RECOGNIZED.
Proof.
  intros Hk Ht HN Hne Hc. unfold convert_number_format, convert_with.
  destruct (Z.eqb_spec k 0); [lia|]. rewrite HN, Hne, Hc.
  destruct (Z.to_nat k) as [|n'] eqn:Ek; [lia|].
  cbn [conv_elems std_tt tt_toks conv_tokens tk_len]. change (Z.to_nat 1) with 1%nat.
  cbn [conv_array conv_leaf]. reflexivity.
Qed.

(* every refusal of the converter means: ADFI_write_data_translated issues no write and reports the error *)
Lemma refused_no_write mf mo ff fo tt e total data temp :
  (forall k d, 0 < k -> convert_number_format mf mo ff fo false tt k d temp = Err e) -> e <> NO_ERROR ->
  fst (write_data_translated mf mo ff fo tt (tt_fbytes tt) total data temp) = []
  /\ (0 < tt_fbytes tt <= CONVERSION_BUFF_SIZE -> 0 < total / tt_fbytes tt ->
      snd (write_data_translated mf mo ff fo tt (tt_fbytes tt) total data temp) <> NO_ERROR).
Proof.
  intros H He. unfold write_data_translated. apply refused_writes_nothing.
  intros k d Hk. exists e. split; auto.
Qed.

(* ---- the historical defect (before /repo commit e4e8197): the resize error was masked *)
Lemma masked_error_refuted :
  exists x1 x2 temp,
    x1 <> x2 /\
    convert_number_format_old chL chB chB chL false (tt_long4 U8) 1 x1 temp = Ok [0; 0; 0; 0] /\
    convert_number_format_old chL chB chB chL false (tt_long4 U8) 1 x2 temp = Ok [0; 0; 0; 0] /\
    convert_number_format chL chB chB chL false (tt_long4 U8) 1 x1 temp = Err INVALID_DATA_TYPE.
Proof.
  exists [1; 2; 3; 4; 5; 6; 7; 8], [17; 18; 19; 20; 21; 22; 23; 24], (repeat 0 16).
  split; [discriminate|]. repeat split; vm_compute; reflexivity.
Qed.

(* ================================================================= the format that is reported *)
(* the letters ADF_Database_Get_Format looks at are bytes 100 and 101 of the file, which are the letters
   ADFI_fill_initial_file_header put there *)
Lemma header_bytes_letters h : nthZ (header_bytes h) 0 0 = h_format h /\ nthZ (header_bytes h) 1 0 = h_os h.
Proof. split; reflexivity. Qed.

Lemma parse_header_letters b h : parse_header_bytes b = Ok h -> h_format h = nthZ b 0 0 /\ h_os h = nthZ b 1 0.
Proof.
  unfold parse_header_bytes. intros H.
  repeat match type of H with
         | bindr ?r _ = _ => destruct r; cbn [bindr] in H; [|discriminate H]
         end.
  injection H as <-. split; reflexivity.
Qed.

Lemma reported_is_written h h' : parse_header_bytes (header_bytes h) = Ok h' -> get_format h' = get_format h.
Proof.
  intros H. apply parse_header_letters in H as [Hf Ho]. destruct (header_bytes_letters h) as [Ef Eo].
  unfold get_format. now rewrite Hf, Ho, Ef, Eo.
Qed.

(* the six format names of C19 on this host: creation succeeds and the reported name is the requested one,
   NATIVE and LEGACY being resolved to the host's own format *)
Definition resolved_name (s : list Z) : list Z :=
  if stridx0 S_NATIVE s || stridx0 S_LEGACY s then S_IEEE_LITTLE_64 else s.
Definition list_eqb (a b : list Z) : bool :=
  (length a =? length b)%nat && forallb (fun p => fst p =? snd p) (combine a b).
Definition reported_ok (garb : Z * Z * Z) (s : list Z) : bool :=
  match database_open_new this_host (Some s) garb with
  | Ok h => match get_format h with Ok r => list_eqb r (resolved_name s) | Err _ => false end
  | Err _ => false
  end.
Definition six_formats := [S_IEEE_BIG_32; S_IEEE_BIG_64; S_IEEE_LITTLE_32; S_IEEE_LITTLE_64; S_NATIVE; S_LEGACY].

Lemma format_reported garb : forallb (reported_ok garb) six_formats = true.
Proof. destruct garb as [[g1 g2] g3]. vm_compute. reflexivity. Qed.

(* and every one of them writes sizeof(long) = 8, int 4, float 4, double 8, char 1 into the header *)
Definition std_sizes_b (h : header) : bool :=
  (h_char h =? 1) && (h_int h =? 4) && (h_long h =? 8) && (h_float h =? 4) && (h_double h =? 8).
Lemma created_headers_std garb :
  forallb (fun s => match database_open_new this_host (Some s) garb with Ok h => std_sizes_b h | Err _ => false end)
          six_formats = true.
Proof. destruct garb as [[g1 g2] g3]. vm_compute. reflexivity. Qed.

(* an unrecognised format name: ADFI_figure_machine_format reports error 19 and leaves format_to_use /
   os_to_use unwritten; ADF_Database_Open overwrites the error and goes on with whatever those two
   variables held.  With values outside {B,L,C,N} the creation is refused (what happens in practice) ... *)
Lemma bogus_name_refused_if_garbage_is_not_a_letter g1 g2 g3 :
  (g2 =? chB) || (g2 =? chL) || (g2 =? chC) || (g2 =? chN) = false ->
  database_open_new this_host (Some [66; 79; 71; 85; 83]) (g1, g2, g3) = Err ADF_FILE_FORMAT_NOT_RECOGNIZED.
Proof.
  intros H. unfold database_open_new. cbn [figure_machine_format requested_format].
  change (figure_machine_format this_host (Some [66; 79; 71; 85; 83]) (g1, g2, g3))
    with (ADF_FILE_FORMAT_NOT_RECOGNIZED, g1, g2, g3).
  unfold fill_initial_file_header. rewrite this_host_format. rewrite H. reflexivity.
Qed.
(* ... but the refusal is an accident of the stack content *)
Lemma bogus_name_accepted_refuted :
  exists g h, database_open_new this_host (Some [66; 79; 71; 85; 83]) g = Ok h.
Proof. eexists (0, chB, chL), _. vm_compute. reflexivity. Qed.

(* opening: a header that claims the native format 'N' but other sizes than the host's is refused *)
Lemma native_size_mismatch_refused h tt :
  h_format h = chN -> h_long h <> 8 ->
  file_and_machine_compare this_host false h tt = Err MACHINE_FILE_INCOMPATABLE.
Proof.
  intros Hf Hl. unfold file_and_machine_compare. rewrite this_host_format, Hf.
  destruct (Z.eqb_spec (h_long h) SZ_CGLONG) as [E|E]; [unfold SZ_CGLONG in E; contradiction|].
  cbn. rewrite !Bool.orb_true_r. reflexivity.
Qed.

(* a format / os letter pair that ADF_Database_Get_Format does not know is an error, never a guess *)
Lemma get_format_unknown h :
  get_format h = Err ADF_FILE_FORMAT_NOT_RECOGNIZED \/
  exists s, get_format h = Ok s /\ In s [S_IEEE_BIG_32; S_IEEE_LITTLE_32; S_IEEE_BIG_64; S_IEEE_LITTLE_64; S_CRAY; S_NATIVE].
Proof.
  unfold get_format.
  repeat match goal with
         | |- context [if ?c then _ else _] => destruct c; [right; eexists; split; [reflexivity|simpl; auto 10]|]
         end.
  now left.
Qed.
