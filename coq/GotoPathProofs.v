(* GotoPathProofs.v -- the character loop of cg_gopath (Goto.v: skip_sl, take_seg, path_loop, gopath) for property C11.

   A path is SPELLED from a list of segments: before each segment one or more '/', after the last any number of '/'.
   For every list of admissible segments (non-empty, no '/', at most 32 characters), every choice of the numbers of
   slashes and any fuel above the number of segments, the loop returns exactly the segments, each with index 0
   (path_loop_spelled).  Hence
     - an absolute path "/Base/a/b" is cg_goto(fn, B, "a", 0, "b", 0, NULL) for the base number B that the name
       search finds (gopath_abs_is_goto), whatever the spelling;
     - a relative path "a/b" is cg_gorel(fn, "a", 0, "b", 0, NULL) (gopath_rel_is_gorel);
     - two spellings of the same segments behave identically (gopath_spelling_irrelevant).
   cg_goto / cg_gorel stop at a label "", "end" or "END" and after 20 pairs; cg_gopath does not treat these names
   specially, so the statements carry [no_terminator] and the length bound as hypotheses (a child named "end" is
   reachable by path but not by name through the variadic calls: documented behaviour of the variadic API).
   No axioms. *)
From Coq Require Import ZArith List String Bool Ascii Lia.
From CgnsV Require Import Goto.
Import ListNotations.
Local Open Scope Z_scope.
Local Open Scope list_scope.
Local Open Scope string_scope.

(* ------------------------------------------------------------------------------------------------ spelling *)
Fixpoint no_slash (s : string) : bool :=
  match s with
  | EmptyString => true
  | String c s' => negb (Ascii.eqb c slash) && no_slash s'
  end.

Definition seg_ok (s : string) : Prop := s <> EmptyString /\ no_slash s = true /\ strlenZ s <= 32.

Fixpoint slashes (k : nat) : string :=
  match k with O => EmptyString | S k' => String slash (slashes k') end.

(* each segment preceded by S k slashes; [t] slashes at the end *)
Fixpoint spelled (segs : list (nat * string)) (t : nat) : string :=
  match segs with
  | [] => slashes t
  | (k, s) :: r => String slash (slashes k) ++ s ++ spelled r t
  end.

Definition starts_sl_or_empty (s : string) : Prop :=
  match s with EmptyString => True | String c _ => Ascii.eqb c slash = true end.

Lemma spelled_starts segs t : starts_sl_or_empty (spelled segs t).
Proof.
  destruct segs as [|[k s] r]; simpl.
  - destruct t; simpl; auto using Ascii.eqb_refl.
  - first [reflexivity | apply Ascii.eqb_refl].
Qed.

Lemma skip_sl_slashes k s : skip_sl (slashes k ++ s) = skip_sl s.
Proof. induction k as [|k IH]; simpl; auto. Qed.

Lemma skip_sl_only k : skip_sl (slashes k) = EmptyString.
Proof. induction k as [|k IH]; simpl; auto. Qed.

Lemma skip_sl_seg s r : s <> EmptyString -> no_slash s = true -> skip_sl (s ++ r) = s ++ r.
Proof.
  destruct s as [|c s']; [congruence|]. intros _ H. simpl in *.
  apply andb_prop in H as [H _]. apply negb_true_iff in H. now rewrite H.
Qed.

Lemma take_seg_app s r : no_slash s = true -> starts_sl_or_empty r -> take_seg (s ++ r) = (s, r).
Proof.
  induction s as [|c s' IH]; simpl; intros H Hr.
  - destruct r as [|c r']; simpl in *; auto. now rewrite Hr.
  - apply andb_prop in H as [Hc H]. apply negb_true_iff in Hc. rewrite Hc. now rewrite (IH H Hr).
Qed.

Lemma seg_app_nonempty s r : s <> EmptyString -> exists c x, s ++ r = String c x.
Proof. destruct s as [|c s']; [congruence|]. intros _. simpl. eauto. Qed.

(* ------------------------------------------------------------------------------------------------ the loop *)
Definition items_of (segs : list (nat * string)) : list (string * Z) := map (fun ks => (snd ks, 0)) segs.

Lemma path_loop_spelled segs : forall t fuel n,
  Forall (fun ks => seg_ok (snd ks)) segs ->
  n + lenZ segs <= MAX_DEPTH -> (List.length segs < fuel)%nat ->
  path_loop fuel (spelled segs t) n = inr (items_of segs).
Proof.
  induction segs as [|[k s] r IH]; intros t fuel n Hok Hn Hf.
  - destruct fuel as [|f]; [simpl in Hf; lia|]. cbn [spelled path_loop]. now rewrite skip_sl_only.
  - destruct fuel as [|f]; [simpl in Hf; lia|].
    inversion Hok as [|x l [Hne [Hns Hlen]] Hr]; subst. cbn [snd] in *.
    cbn [spelled path_loop].
    change (String slash (slashes k) ++ s ++ spelled r t) with (slashes (S k) ++ (s ++ spelled r t)).
    rewrite skip_sl_slashes, (skip_sl_seg _ _ Hne Hns).
    destruct (seg_app_nonempty s (spelled r t) Hne) as [c [x Ecx]].
    rewrite Ecx. rewrite <- Ecx.
    rewrite (take_seg_app _ _ Hns (spelled_starts r t)).
    assert (Hl : (32 <? strlenZ s)%Z = false) by (apply Z.ltb_ge; exact Hlen). rewrite Hl.
    unfold lenZ in Hn. cbn [List.length] in Hn.
    assert (Hd : (n =? MAX_DEPTH)%Z = false) by (apply Z.eqb_neq; unfold MAX_DEPTH in *; lia). rewrite Hd.
    rewrite (IH t f (n + 1) Hr).
    + reflexivity.
    + unfold lenZ. lia.
    + simpl in Hf. lia.
Qed.

(* the two error exits of the loop, for completeness: an over-long segment, or a 21st segment *)
Lemma path_loop_long_segment k s r t fuel n :
  s <> EmptyString -> no_slash s = true -> 32 < strlenZ s ->
  path_loop (S fuel) (spelled ((k, s) :: r) t) n = inl tt.
Proof.
  intros Hne Hns Hlen. cbn [spelled path_loop].
  change (String slash (slashes k) ++ s ++ spelled r t) with (slashes (S k) ++ (s ++ spelled r t)).
  rewrite skip_sl_slashes, (skip_sl_seg _ _ Hne Hns).
  destruct (seg_app_nonempty s (spelled r t) Hne) as [c [x Ecx]]. rewrite Ecx. rewrite <- Ecx.
  rewrite (take_seg_app _ _ Hns (spelled_starts r t)).
  assert (Hl : (32 <? strlenZ s)%Z = true) by (apply Z.ltb_lt; exact Hlen). now rewrite Hl.
Qed.

Lemma path_loop_too_deep k s r t fuel :
  seg_ok s -> path_loop (S fuel) (spelled ((k, s) :: r) t) MAX_DEPTH = inl tt.
Proof.
  intros [Hne [Hns Hlen]]. cbn [spelled path_loop].
  change (String slash (slashes k) ++ s ++ spelled r t) with (slashes (S k) ++ (s ++ spelled r t)).
  rewrite skip_sl_slashes, (skip_sl_seg _ _ Hne Hns).
  destruct (seg_app_nonempty s (spelled r t) Hne) as [c [x Ecx]]. rewrite Ecx. rewrite <- Ecx.
  rewrite (take_seg_app _ _ Hns (spelled_starts r t)).
  assert (Hl : (32 <? strlenZ s)%Z = false) by (apply Z.ltb_ge; exact Hlen). rewrite Hl.
  now rewrite Z.eqb_refl.
Qed.

(* ------------------------------------------------------------------------------------------------ lengths *)
Lemma length_app_str a b : String.length (a ++ b) = (String.length a + String.length b)%nat.
Proof. induction a as [|c a IH]; simpl; auto. Qed.

Lemma spelled_length segs t :
  Forall (fun ks => seg_ok (snd ks)) segs -> (List.length segs <= String.length (spelled segs t))%nat.
Proof.
  induction segs as [|[k s] r IH]; intros H; simpl; [lia|].
  inversion H as [|x l _ Hr]; subst. specialize (IH Hr).
  rewrite !length_app_str. lia.
Qed.

(* ------------------------------------------------------------------------------------------------ cg_gopath *)
Definition no_terminator (items : list (string * Z)) : Prop :=
  Forall (fun li => fst li <> "" /\ fst li <> "end" /\ fst li <> "END") items.

Lemma goto_args_id items : forall k, no_terminator items -> (List.length items <= k)%nat -> goto_args k items = items.
Proof.
  induction items as [|[l i] r IH]; intros k Hn Hk.
  - destruct k; reflexivity.
  - destruct k as [|k]; [simpl in Hk; lia|].
    inversion Hn as [|x y [H1 [H2 H3]] Hr]; subst. cbn [fst] in *. cbn [goto_args].
    apply String.eqb_neq in H1, H2, H3. rewrite H1, H2, H3. cbn [orb].
    rewrite (IH k Hr); [reflexivity|simpl in Hk; lia].
Qed.

(* cgi_set_posit(fn, B, items) = cgi_set_posit(fn, B, nothing) followed by cgi_update_posit(items) *)
Lemma set_posit_split tbl w fn B items root fdb :
  get_file w fn = Some (root, fdb) ->
  set_posit tbl w fn B items =
    (let '(c, st1) := set_posit tbl w fn B [] in
     if negb (c =? CG_OK)%Z then (c, st1) else update_posit tbl root fdb items st1).
Proof.
  intros Hg. unfold set_posit. rewrite Hg.
  destruct (get_int root "nbases") as [nb|]; [|reflexivity].
  destruct (get_ptr root "base") as [bases|]; [|reflexivity].
  destruct ((nb <? B)%Z || (B <=? 0)%Z); [reflexivity|].
  destruct (nth_opt bases (B - 1)) as [b|]; [|reflexivity].
  reflexivity.
Qed.

(* absolute path: "/" ... Base ("/" ... seg)* "/"*  =  cg_goto(fn, B, seg, 0, ..., NULL) for the B found by name *)
Theorem gopath_abs_is_goto tbl w fn k0 base segs t st root fdb nb bases B :
  seg_ok base -> Forall (fun ks => seg_ok (snd ks)) segs -> lenZ segs <= MAX_DEPTH ->
  no_terminator (items_of segs) ->
  get_file w fn = Some (root, fdb) -> get_int root "nbases" = Some nb -> get_ptr root "base" = Some bases ->
  find_base bases (Z.to_nat nb) 0 base = Some (Some B) ->
  gopath tbl w fn (spelled ((k0, base) :: segs) t) st = goto tbl w fn B (items_of segs) st.
Proof.
  intros [Hne [Hns Hlen]] Hsegs Hdepth Hterm Hg Hnb Hbs Hfb.
  unfold goto. rewrite Hg.
  rewrite (goto_args_id (items_of segs) 20 Hterm).
  2:{ unfold items_of. rewrite map_length. unfold lenZ, MAX_DEPTH in Hdepth. lia. }
  rewrite (set_posit_split tbl w fn B (items_of segs) root fdb Hg).
  unfold gopath. cbn [spelled].
  set (path := String slash (slashes k0) ++ base ++ spelled segs t).
  assert (Ep : path = String slash (slashes k0 ++ (base ++ spelled segs t))) by reflexivity.
  rewrite Ep. rewrite Ascii.eqb_refl. rewrite <- Ep.
  assert (Es : skip_sl path = base ++ spelled segs t).
  { rewrite Ep. change (String slash (slashes k0 ++ (base ++ spelled segs t)))
      with (slashes (S k0) ++ (base ++ spelled segs t)).
    rewrite skip_sl_slashes. apply skip_sl_seg; assumption. }
  rewrite Es.
  destruct (seg_app_nonempty base (spelled segs t) Hne) as [c [x Ecx]]. rewrite Ecx. rewrite <- Ecx.
  rewrite (take_seg_app _ _ Hns (spelled_starts segs t)).
  assert (Hl : (32 <? strlenZ base)%Z = false) by (apply Z.ltb_ge; exact Hlen). rewrite Hl.
  rewrite Hg, Hnb, Hbs, Hfb.
  destruct (set_posit tbl w fn B []) as [c1 st1].
  destruct (negb (c1 =? CG_OK)%Z); [reflexivity|].
  rewrite (path_loop_spelled segs t _ 0 Hsegs).
  - reflexivity.
  - lia.
  - pose proof (spelled_length segs t Hsegs) as Hle.
    assert (String.length (spelled segs t) <= String.length path)%nat.
    { unfold path. cbn [String.length append]. rewrite !length_app_str. lia. }
    lia.
Qed.

(* relative path: seg ("/" ... seg)* "/"*  =  cg_gorel(fn, seg, 0, ..., NULL) *)
Theorem gopath_rel_is_gorel tbl w fn s0 segs t st :
  seg_ok s0 -> Forall (fun ks => seg_ok (snd ks)) segs -> 1 + lenZ segs <= MAX_DEPTH ->
  no_terminator ((s0, 0) :: items_of segs) ->
  gopath tbl w fn (s0 ++ spelled segs t) st = gorel tbl w fn ((s0, 0) :: items_of segs) st.
Proof.
  intros Hs0 Hsegs Hdepth Hterm. pose proof Hs0 as [Hne [Hns Hlen]].
  unfold gorel, gopath.
  destruct (seg_app_nonempty s0 (spelled segs t) Hne) as [c [x Ecx]]. rewrite Ecx.
  assert (Hc : Ascii.eqb c slash = false).
  { destruct s0 as [|c' s']; [congruence|]. simpl in Ecx. inversion Ecx; subst.
    simpl in Hns. apply andb_prop in Hns as [Hns _]. now apply negb_true_iff in Hns. }
  rewrite Hc. rewrite <- Ecx.
  destruct (ps_posit st); [|reflexivity].
  destruct (negb (fn =? ps_file st)%Z); [reflexivity|].
  destruct (get_file w (ps_file st)) as [[root fdb]|]; [|reflexivity].
  rewrite (goto_args_id _ 20 Hterm).
  2:{ cbn [List.length]. unfold items_of. rewrite map_length. unfold lenZ, MAX_DEPTH in Hdepth. lia. }
  (* the relative path is the spelling with zero leading slashes: run the first iteration by hand *)
  assert (Hpl : forall fuel, (List.length segs < fuel)%nat ->
            path_loop (S fuel) (s0 ++ spelled segs t) 0 = inr ((s0, 0) :: items_of segs)).
  { intros fuel Hf. cbn [path_loop]. rewrite (skip_sl_seg _ _ Hne Hns).
    rewrite Ecx. rewrite <- Ecx.
    rewrite (take_seg_app _ _ Hns (spelled_starts segs t)).
    assert (Hl : (32 <? strlenZ s0)%Z = false) by (apply Z.ltb_ge; exact Hlen). rewrite Hl.
    assert (Hd : (0 =? MAX_DEPTH)%Z = false) by reflexivity. rewrite Hd.
    rewrite (path_loop_spelled segs t fuel (0 + 1) Hsegs); [reflexivity|lia|exact Hf]. }
  rewrite Hpl; [reflexivity|].
  pose proof (spelled_length segs t Hsegs) as Hle. rewrite length_app_str.
  destruct s0 as [|c' s']; [congruence|]. cbn [String.length]. lia.
Qed.

(* the numbers of slashes do not matter *)
Theorem gopath_spelling_irrelevant tbl w fn st k0 k0' base segs segs' t t' root fdb nb bases B :
  seg_ok base -> Forall (fun ks => seg_ok (snd ks)) segs -> lenZ segs <= MAX_DEPTH ->
  no_terminator (items_of segs) -> map snd segs' = map snd segs ->
  get_file w fn = Some (root, fdb) -> get_int root "nbases" = Some nb -> get_ptr root "base" = Some bases ->
  find_base bases (Z.to_nat nb) 0 base = Some (Some B) ->
  gopath tbl w fn (spelled ((k0, base) :: segs) t) st = gopath tbl w fn (spelled ((k0', base) :: segs') t') st.
Proof.
  intros Hb Hsegs Hd Hterm Hsame Hg Hnb Hbs Hfb.
  assert (Hitems : items_of segs' = items_of segs).
  { unfold items_of. rewrite <- (map_map snd (fun s => (s, 0))), <- (map_map snd (fun s => (s, 0)) segs). now rewrite Hsame. }
  assert (Hsegs' : Forall (fun ks => seg_ok (snd ks)) segs').
  { apply Forall_forall. intros ks Hin.
    assert (In (snd ks) (map snd segs)) by (rewrite <- Hsame; now apply in_map).
    apply in_map_iff in H as [ks0 [E Hin0]]. rewrite <- E.
    rewrite Forall_forall in Hsegs. now apply Hsegs. }
  assert (Hd' : lenZ segs' <= MAX_DEPTH).
  { unfold lenZ in *. rewrite <- (map_length snd segs'), Hsame, map_length. exact Hd. }
  rewrite (gopath_abs_is_goto tbl w fn k0 base segs t st root fdb nb bases B); auto.
  rewrite (gopath_abs_is_goto tbl w fn k0' base segs' t' st root fdb nb bases B); auto.
  - now rewrite Hitems.
  - now rewrite Hitems.
Qed.

(* non-vacuity: a concrete spelling and what the loop makes of it *)
Example spelled_example :
  spelled [(0%nat, "Base"); (2%nat, "Zone 1"); (0%nat, "..")] 1 = "/Base///Zone 1/../" /\
  path_loop 30 "/Base///Zone 1/../" 0 = inr [("Base", 0); ("Zone 1", 0); ("..", 0)] /\
  seg_ok "Zone 1".
Proof. repeat split; try reflexivity; try discriminate; unfold strlenZ; simpl; lia. Qed.
