(* ValidateProofs.v -- proofs about the structured skeleton machine of Validate.v (property C12).

   Generic part (ANY table, ANY sets passing the kernel-evaluated closedness / consistency checks, ANY state, oracle, fuel):
     run_pure        a function outside a closed "may touch" set leaves file and tree unchanged;
     run_clean       a function in V that returns at a failing validation (RINV), and a function in C that fails at all,
                     has changed neither file nor tree                                     (validation before effect);
     run_guarded     if every argument check of a body is tested at once and its failing arm always returns a failure, then
                     a run in which such a check fails does not return success              (failing checks return failures);
     run_noisy       a function in NS that returns a failure has recorded an error message   (error message non-empty);
     getter_run_*    the canonical index getter accepts exactly 1..count and returns element i-1 of ANY array of that length.
   Table part: the boolean checks of Validate.v imply the hypotheses of the generic theorems. *)
From Coq Require Import List String Bool PArith ZArith Lia FSetPositive.
From CgnsV Require Import Gates GatesProofs Validate.
Import ListNotations.

Definition vsame (x x' : vst) : Prop := v_file x' = v_file x /\ v_mir x' = v_mir x.
Lemma vsame_refl : forall x, vsame x x. Proof. intros; split; reflexivity. Qed.
Lemma vsame_trans : forall a b c, vsame a b -> vsame b c -> vsame a c.
Proof. intros a b c [H1 H2] [H3 H4]; split; congruence. Qed.
Lemma vsame_err : forall x, vsame x (vset_err x). Proof. intros; split; reflexivity. Qed.
Lemma vsame_vf : forall x b, vsame x (vset_vf x b). Proof. intros; split; reflexivity. Qed.
Lemma vsame_vf_r : forall x y b, vsame x y -> vsame x (vset_vf y b).
Proof. intros x y b [H1 H2]; split; assumption. Qed.

Lemma is_fail_adjust : forall a r, is_fail (adjust a r) = true -> is_fail r = true.
Proof. intros a r; destruct a as [v i l1 l2 [|]|a0 i l1 l2 [|]| | |]; destruct r; simpl; auto. Qed.
Lemma adjust_inv : forall a r, adjust a r = RINV -> r = RINV.
Proof. intros a r; destruct a as [v i l1 l2 [|]|a0 i l1 l2 [|]| | |]; destruct r; simpl; congruence. Qed.
Lemma adjust_ok : forall a r, adjust a r = ROK -> r = ROK.
Proof. intros a r; destruct a as [v i l1 l2 [|]|a0 i l1 l2 [|]| | |]; destruct r; simpl; congruence. Qed.

(* ------------------------------------------------------------------------------------------------ loops *)
(* P: holds at the start of every iteration; Q: what the loop guarantees when it is left (oracle says stop, or `break`);
   R: what a returning body guarantees *)
Lemma loop_inv : forall (P Q : vst -> Prop) (R : res -> vst -> Prop) body,
    (forall x, P x -> Q x) ->
    (forall x, P x -> R RFUEL x) ->
    (forall o x out x' o', P x -> body o x = (out, x', o') ->
                           match out with Fall => P x' | Brk => Q x' | Ret r => R r x' end) ->
    forall n o x out x' o', P x -> loop n body o x = (out, x', o') ->
                            match out with Fall => Q x' | Brk => False | Ret r => R r x' end.
Proof.
  intros P Q R body HPQ HRF Hb. induction n as [|n IH]; intros o x out x' o' HP HL; simpl in HL.
  - inversion HL; subst. apply HRF; assumption.
  - destruct (pop o) as [go o1]. destruct go; simpl in HL.
    + destruct (body o1 x) as [[ob xb] o2] eqn:Eb. pose proof (Hb _ _ _ _ _ HP Eb) as Hx.
      destruct ob.
      * eapply IH; eauto.
      * inversion HL; subst. exact Hx.
      * inversion HL; subst. exact Hx.
    + inversion HL; subst. apply HPQ; assumption.
Qed.

(* the first iteration starts from P1, the later ones from P *)
Lemma loop_inv2 : forall (P1 P Q : vst -> Prop) (R : res -> vst -> Prop) body,
    (forall x, P1 x -> Q x) -> (forall x, P x -> Q x) ->
    (forall x, P1 x -> R RFUEL x) -> (forall x, P x -> R RFUEL x) ->
    (forall o x out x' o', P1 x -> body o x = (out, x', o') ->
                           match out with Fall => P x' | Brk => Q x' | Ret r => R r x' end) ->
    (forall o x out x' o', P x -> body o x = (out, x', o') ->
                           match out with Fall => P x' | Brk => Q x' | Ret r => R r x' end) ->
    forall n o x out x' o', P1 x -> loop n body o x = (out, x', o') ->
                            match out with Fall => Q x' | Brk => False | Ret r => R r x' end.
Proof.
  intros P1 P Q R body H1Q HPQ H1F HPF Hb1 Hb n o x out x' o' HP HL.
  destruct n as [|n]; simpl in HL.
  - inversion HL; subst. apply H1F; assumption.
  - destruct (pop o) as [go o1]. destruct go; simpl in HL.
    + destruct (body o1 x) as [[ob xb] o2] eqn:Eb. pose proof (Hb1 _ _ _ _ _ HP Eb) as Hx.
      destruct ob.
      * eapply (loop_inv P Q R body); eauto.
      * inversion HL; subst. exact Hx.
      * inversion HL; subst. exact Hx.
    + inversion HL; subst. apply H1Q; assumption.
Qed.

(* ------------------------------------------------------------------------------------------------ purity *)
Section Pure.
  Variable rows : positive -> option vrow.
  Variable prim benign : positive -> bool.
  Variable T : positive -> ctx -> bool.
  Hypothesis Hclosed : forall id r c, rows id = Some r -> may_touch prim benign T c (vbody r) = true -> T id c = true.

  Section ExecPure.
    Variable call : ctx -> positive -> list bool -> vst -> res * vst * list bool.
    Variable lf : nat.
    Variable c : ctx.
    Hypothesis Hcall : forall c' id o x r x' o', T id c' = false -> call c' id o x = (r, x', o') -> vsame x x'.

    Lemma do_callee_pure : forall i a0 o x r x1 o1,
        prim i = false -> T i (tgt a0 c) = false ->
        do_callee rows prim call c i a0 o x = (r, x1, o1) -> vsame x x1.
    Proof.
      intros i a0 o x r x1 o1 Hp Ht Hd. unfold do_callee in Hd. rewrite Hp in Hd.
      destruct (rows i).
      - destruct (call (tgt a0 c) i o x) as [[r2 x2] o2] eqn:Ec. inversion Hd; subst.
        apply vsame_vf_r. eapply Hcall; eauto.
      - destruct (pop o) as [b o2]. inversion Hd; subst. apply vsame_refl.
    Qed.

    Lemma act_status_pure : forall a o x r x1 o1,
        match act_callee a with Some (i, a0) => callee_touch prim T c i a0 = false | None => True end ->
        act_status rows prim call c a o x = (r, x1, o1) -> vsame x x1.
    Proof.
      intros a o x r x1 o1 Hc He. unfold act_status in He. destruct (act_callee a) as [[i a0]|].
      - unfold callee_touch in Hc. apply orb_false_iff in Hc. destruct Hc. eapply do_callee_pure; eauto.
      - destruct (pop o) as [b o3]. inversion He; subst. apply vsame_refl.
    Qed.

    Lemma do_act_pure : forall a o x r x1 o1,
        touch_act prim benign T c a = false ->
        do_act rows prim benign call c a o x = (r, x1, o1) -> vsame x x1.
    Proof.
      intros a o x r x1 o1 Ht Hd. unfold touch_act in Ht. unfold do_act in Hd.
      destruct a as [v i l1 l2 fr|a0 i l1 l2 mi|m| |].
      - destruct (act_status rows prim call c (ACheck v i l1 l2 fr) o x) as [[r0 x2] o2] eqn:E.
        assert (Hs : vsame x x2) by (eapply act_status_pure; [|exact E]; destruct (act_callee (ACheck v i l1 l2 fr)) as [[? ?]|]; [exact Ht|exact I]).
        inversion Hd; subst.
        match goal with |- vsame _ (if ?bb then _ else _) => destruct bb end; [apply vsame_vf_r|]; exact Hs.
      - destruct (act_status rows prim call c (ACall a0 i l1 l2 mi) o x) as [[r0 x2] o2] eqn:E.
        assert (Hs : vsame x x2) by (eapply act_status_pure; [|exact E]; destruct (act_callee (ACall a0 i l1 l2 mi)) as [[? ?]|]; [exact Ht|exact I]).
        inversion Hd; subst. simpl. exact Hs.
      - apply negb_false_iff in Ht. rewrite Ht in Hd. inversion Hd; subst. apply vsame_refl.
      - inversion Hd; subst. apply vsame_err.
      - discriminate.
    Qed.

    Lemma exec_pure : forall q g o x out x' o',
        may_touch prim benign T c q = false ->
        exec rows prim benign call lf c q g o x = (out, x', o') -> vsame x x'.
    Proof.
      induction q as [|r| |a k IHk|a t IHt e IHe k IHk|t IHt e IHe k IHk|t IHt e IHe k IHk|b IHb k IHk];
        intros g o x out x' o' Hm Hx; simpl in Hx, Hm.
      - inversion Hx; subst; apply vsame_refl.
      - unfold do_ret in Hx. destruct r; try (inversion Hx; subst; apply vsame_refl).
        destruct g; [inversion Hx; subst; apply vsame_refl|].
        destruct (pop o) as [b o1]; inversion Hx; subst; apply vsame_refl.
      - inversion Hx; subst; apply vsame_refl.
      - apply orb_false_iff in Hm. destruct Hm as [Ha Hk].
        destruct (do_act rows prim benign call c a o x) as [[r x1] o1] eqn:Ed.
        pose proof (do_act_pure _ _ _ _ _ _ Ha Ed) as Hs.
        destruct r; [eapply vsame_trans; [exact Hs|eapply IHk; eauto]|eapply vsame_trans; [exact Hs|eapply IHk; eauto]|
                     eapply vsame_trans; [exact Hs|eapply IHk; eauto]|inversion Hx; subst; exact Hs].
      - repeat (apply orb_false_iff in Hm; destruct Hm as [Hm ?]).
        destruct (do_act rows prim benign call c a o x) as [[r x1] o1] eqn:Ed.
        pose proof (do_act_pure _ _ _ _ _ _ Hm Ed) as Hs.
        assert (Harm : forall q0 g0, may_touch prim benign T c q0 = false ->
                                     (forall g o x out x' o', may_touch prim benign T c q0 = false ->
                                          exec rows prim benign call lf c q0 g o x = (out, x', o') -> vsame x x') ->
                     match exec rows prim benign call lf c q0 g0 o1 x1 with
                     | (Fall, x2, o2) => exec rows prim benign call lf c k g o2 x2
                     | z => z end = (out, x', o') -> vsame x x').
        { intros q0 g0 Hq0 IH0 Hy. destruct (exec rows prim benign call lf c q0 g0 o1 x1) as [[oa xa] oa'] eqn:Ea.
          pose proof (IH0 _ _ _ _ _ _ Hq0 Ea) as Hsa.
          destruct oa.
          - eapply vsame_trans; [exact Hs|eapply vsame_trans; [exact Hsa|eapply IHk; eauto]].
          - inversion Hy; subst. eapply vsame_trans; eauto.
          - inversion Hy; subst. eapply vsame_trans; eauto. }
        destruct r.
        + eapply (Harm e g); eauto.
        + eapply (Harm t); eauto.
        + eapply (Harm t); eauto.
        + inversion Hx; subst; exact Hs.
      - repeat (apply orb_false_iff in Hm; destruct Hm as [Hm ?]).
        destruct (pop o) as [b o1].
        destruct b.
        + destruct (exec rows prim benign call lf c t g o1 x) as [[oa xa] oa'] eqn:Ea.
          pose proof (IHt _ _ _ _ _ _ Hm Ea) as Hsa.
          destruct oa; [eapply vsame_trans; [exact Hsa|eapply IHk; eauto]|inversion Hx; subst; exact Hsa|inversion Hx; subst; exact Hsa].
        + destruct (exec rows prim benign call lf c e g o1 x) as [[oa xa] oa'] eqn:Ea.
          pose proof (IHe _ _ _ _ _ _ H0 Ea) as Hsa.
          destruct oa; [eapply vsame_trans; [exact Hsa|eapply IHk; eauto]|inversion Hx; subst; exact Hsa|inversion Hx; subst; exact Hsa].
      - apply orb_false_iff in Hm. destruct Hm as [Harm Hk].
        destruct (is_CR c).
        + destruct (exec rows prim benign call lf c e g o x) as [[oa xa] oa'] eqn:Ea.
          pose proof (IHe _ _ _ _ _ _ Harm Ea) as Hsa.
          destruct oa; [eapply vsame_trans; [exact Hsa|eapply IHk; eauto]|inversion Hx; subst; exact Hsa|inversion Hx; subst; exact Hsa].
        + destruct (exec rows prim benign call lf c t g o x) as [[oa xa] oa'] eqn:Ea.
          pose proof (IHt _ _ _ _ _ _ Harm Ea) as Hsa.
          destruct oa; [eapply vsame_trans; [exact Hsa|eapply IHk; eauto]|inversion Hx; subst; exact Hsa|inversion Hx; subst; exact Hsa].
      - apply orb_false_iff in Hm. destruct Hm as [Hb Hk].
        destruct (loop lf (fun o' x'0 => exec rows prim benign call lf c b g o' x'0) o x) as [[oa xa] oa'] eqn:El.
        assert (Hl : match oa with Fall => vsame x xa | Brk => False | Ret _ => vsame x xa end).
        { eapply (loop_inv (fun y => vsame x y) (fun y => vsame x y) (fun _ y => vsame x y)); [auto| | |apply vsame_refl|exact El].
          - auto.
          - intros o0 y ob y' o0' Hy Hbd. pose proof (IHb _ _ _ _ _ _ Hb Hbd) as Hs.
            destruct ob; eapply vsame_trans; eauto. }
        destruct oa; [eapply vsame_trans; [exact Hl|eapply IHk; eauto]|destruct Hl|inversion Hx; subst; exact Hl].
    Qed.
  End ExecPure.

  Lemma run_pure : forall fuel c id o x r x' o',
      T id c = false -> run rows prim benign fuel c id o x = (r, x', o') -> vsame x x'.
  Proof.
    induction fuel as [|n IH]; intros c id o x r x' o' Ht Hr; simpl in Hr.
    - inversion Hr; subst; apply vsame_refl.
    - destruct (rows id) as [r0|] eqn:Er.
      + destruct (exec rows prim benign (run rows prim benign n) n c (vbody r0) false o x) as [[oa xa] oa'] eqn:Ex.
        assert (Hs : vsame x xa).
        { eapply (exec_pure (run rows prim benign n) n c); [intros; eapply IH; eauto| |exact Ex].
          destruct (may_touch prim benign T c (vbody r0)) eqn:Em; [|reflexivity].
          rewrite (Hclosed id r0 c Er Em) in Ht. discriminate. }
        destruct oa; inversion Hr; subst; exact Hs.
      + inversion Hr; subst; apply vsame_refl.
  Qed.
End Pure.

(* ------------------------------------------------------------------------------------------------ validation before effect *)
Section Clean.
  Variable rows : positive -> option vrow.
  Variable prim benign : positive -> bool.
  Variable T : positive -> ctx -> bool.
  Variable Cs Vs : positive -> ctx -> bool.      (* fail-clean / validation-clean callees *)

  Section ExecClean.
    Variable call : ctx -> positive -> list bool -> vst -> res * vst * list bool.
    Variable lf : nat.
    Variable c : ctx.
    Variable allf : bool.
    Hypothesis HcT : forall c' id o x r x' o', T id c' = false -> call c' id o x = (r, x', o') -> vsame x x'.
    Hypothesis HcC : forall c' id o x r x' o', Cs id c' = true -> call c' id o x = (r, x', o') -> is_fail r = true -> vsame x x'.
    Hypothesis HcV : forall c' id o x x' o', Vs id c' = true -> call c' id o x = (RINV, x', o') -> vsame x x'.

    (* the act failed and is fail-clean: nothing was touched *)
    Lemma act_status_fail_clean : forall a o x r x1 o1,
        fail_clean prim T Cs c a = true ->
        act_status rows prim call c a o x = (r, x1, o1) -> is_fail r = true -> vsame x x1.
    Proof.
      intros a o x r x1 o1 Hf He Hr. unfold fail_clean in Hf. unfold act_status in He.
      destruct (act_callee a) as [[i a0]|].
      - apply andb_true_iff in Hf. destruct Hf as [Hp Hf]. apply negb_true_iff in Hp.
        unfold do_callee in He. rewrite Hp in He. destruct (rows i).
        + destruct (call (tgt a0 c) i o x) as [[r2 x2] o2] eqn:Ec. inversion He; subst.
          apply vsame_vf_r. apply orb_true_iff in Hf. destruct Hf as [Hf|Hf].
          * apply negb_true_iff in Hf. eapply HcT; eauto.
          * eapply HcC; eauto.
        + destruct (pop o) as [b o2]. inversion He; subst. apply vsame_refl.
      - destruct (pop o) as [b o2]. inversion He; subst. apply vsame_refl.
    Qed.

    Lemma act_status_inv_clean : forall a o x x1 o1,
        inv_clean prim T Vs c a = true ->
        act_status rows prim call c a o x = (RINV, x1, o1) -> vsame x x1.
    Proof.
      intros a o x x1 o1 Hf He. unfold inv_clean in Hf. unfold act_status in He.
      destruct (act_callee a) as [[i a0]|].
      - apply andb_true_iff in Hf. destruct Hf as [Hp Hf]. apply negb_true_iff in Hp.
        unfold do_callee in He. rewrite Hp in He. destruct (rows i).
        + destruct (call (tgt a0 c) i o x) as [[r2 x2] o2] eqn:Ec. inversion He; subst.
          apply vsame_vf_r. apply orb_true_iff in Hf. destruct Hf as [Hf|Hf].
          * apply negb_true_iff in Hf. eapply HcT; eauto.
          * eapply HcV; eauto.
        + destruct (pop o) as [b o2]. destruct b; inversion He.
      - destruct (pop o) as [b o2]. destruct b; inversion He.
    Qed.

    (* what a result promises about the state, relative to the state x0 the function was entered with *)
    Definition rprom (x0 : vst) (r : res) (x' : vst) : Prop :=
      match r with
      | RINV => vsame x0 x'
      | RERR => allf = true -> vsame x0 x'
      | _ => True
      end.
    Definition oprom (x0 : vst) (sres : bool * bool) (o : out) (x' : vst) : Prop :=
      match o with
      | Fall => fst sres = false -> vsame x0 x'
      | Brk => snd sres = false -> vsame x0 x'
      | Ret r => rprom x0 r x'
      end.

    Lemma oprom_then : forall x0 (sa sk : bool * bool) oa xa,
        oprom x0 sa oa xa -> oa <> Fall -> oprom x0 (fst sk, snd sa || snd sk) oa xa.
    Proof.
      intros x0 sa sk oa xa H Hn. destruct oa; simpl in *; [congruence| |exact H].
      intros Hb. apply orb_false_iff in Hb. destruct Hb. auto.
    Qed.
    Lemma oprom_k : forall x0 (sa sk : bool * bool) ok xk,
        oprom x0 sk ok xk -> oprom x0 (fst sk, snd sa || snd sk) ok xk.
    Proof.
      intros x0 sa sk ok xk H. destruct ok; simpl in *; [exact H| |exact H].
      intros Hb. apply orb_false_iff in Hb. destruct Hb. auto.
    Qed.
    Lemma oprom_join_l : forall x0 s1 s2 o x, oprom x0 s1 o x -> oprom x0 (join2 s1 s2) o x.
    Proof.
      intros x0 s1 s2 o x H. destruct o; simpl in *; [| |exact H]; intros Hb; apply orb_false_iff in Hb; destruct Hb; auto.
    Qed.
    Lemma oprom_join_r : forall x0 s1 s2 o x, oprom x0 s2 o x -> oprom x0 (join2 s1 s2) o x.
    Proof.
      intros x0 s1 s2 o x H. destruct o; simpl in *; [| |exact H]; intros Hb; apply orb_false_iff in Hb; destruct Hb; auto.
    Qed.

    Notation EX := (exec rows prim benign call lf c).
    Notation VS := (vscan prim benign T Cs Vs allf c).

    Lemma exec_vscan : forall q g seen sres o x out x' o' x0,
        VS q g seen = Some sres ->
        EX q g o x = (out, x', o') ->
        (seen = false -> vsame x0 x) ->
        oprom x0 sres out x'.
    Proof.
      induction q as [|r| |a k IHk|a t IHt e IHe k IHk|t IHt e IHe k IHk|t IHt e IHe k IHk|b IHb k IHk];
        intros g seen sres o x out x' o' x0 Hv Hx Hinv; simpl in Hv, Hx.
      - (* QEnd *) inversion Hv; subst. inversion Hx; subst. simpl. exact Hinv.
      - (* QRet *)
        destruct (failing r && (g || allf) && seen) eqn:Ef; [discriminate|]. inversion Hv; subst.
        unfold do_ret in Hx.
        destruct r; try (inversion Hx; subst; simpl; exact I).
        + (* RErr *) inversion Hx; subst out x' o'. clear Hx. destruct g; simpl.
          * apply Hinv. simpl in Ef. exact Ef.
          * intros Ha. apply Hinv. rewrite Ha in Ef. simpl in Ef. exact Ef.
        + (* RVar *) destruct g.
          * inversion Hx; subst out x' o'. simpl. apply Hinv. simpl in Ef. exact Ef.
          * destruct (pop o) as [bb o1]. inversion Hx; subst out x' o'. destruct bb; simpl; [|exact I].
            intros Ha. apply Hinv. rewrite Ha in Ef. simpl in Ef. exact Ef.
      - (* QBrk *) inversion Hv; subst. inversion Hx; subst. simpl. exact Hinv.
      - (* QAct *)
        destruct (do_act rows prim benign call c a o x) as [[r x1] o1] eqn:Ed.
        assert (Hinv1 : seen || touch_act prim benign T c a = false -> vsame x0 x1).
        { intros Hb. apply orb_false_iff in Hb. destruct Hb as [Hs Ht].
          eapply vsame_trans; [apply Hinv; exact Hs|eapply (do_act_pure rows prim benign T call c HcT); eauto]. }
        destruct r; [eapply IHk; eauto|eapply IHk; eauto|eapply IHk; eauto|inversion Hx; subst; simpl; exact I].
      - (* QIfFail *)
        set (tch := touch_act prim benign T c a) in *.
        destruct (match a with
                  | ACall _ _ _ _ mi =>
                    obind (if mi then VS t true (seen || (tch && negb (inv_clean prim T Vs c a))) else Some (false, false)) (fun s1 =>
                    obind (VS t false (seen || (tch && negb (fail_clean prim T Cs c a)))) (fun s2 => Some (join2 s1 s2)))
                  | ACheck _ _ _ _ false => Some (false, false)
                  | _ => VS t (is_counted_check a) (seen || (tch && negb (fail_clean prim T Cs c a)))
                  end) as [s1|] eqn:Era; [|discriminate].
        simpl in Hv.
        destruct (VS e g (seen || tch)) as [s2|] eqn:Ee; [|discriminate]. simpl in Hv.
        unfold then2 in Hv. destruct (VS k g (fst (join2 s1 s2))) as [sk|] eqn:Ek; [|discriminate].
        simpl in Hv. inversion Hv; subst sres. clear Hv.
        destruct (do_act rows prim benign call c a o x) as [[r x1] o1] eqn:Ed.
        (* the continuation after an arm *)
        assert (Hcont : forall (sa : bool * bool) oa xa oa',
                   oprom x0 sa oa xa ->
                   (sa = s1 \/ sa = s2) ->
                   match oa with Fall => EX k g oa' xa | Brk => (Brk, xa, oa') | Ret r0 => (Ret r0, xa, oa') end = (out, x', o') ->
                   oprom x0 (fst sk, snd (join2 s1 s2) || snd sk) out x').
        { intros sa oa xa oa' Hp Hsa Hy.
          assert (Hj : oprom x0 (join2 s1 s2) oa xa) by (destruct Hsa; subst sa; [apply oprom_join_l|apply oprom_join_r]; exact Hp).
          destruct oa.
          - apply oprom_k. eapply IHk; [exact Ek|exact Hy|]. exact Hj.
          - inversion Hy; subst. apply oprom_then; [exact Hj|discriminate].
          - inversion Hy; subst. apply oprom_then; [exact Hj|discriminate]. }
        destruct r.
        + (* the act succeeded *)
          destruct (EX e g o1 x1) as [[oa xa] oa'] eqn:Ea.
          eapply (Hcont s2 oa xa oa'); [| right; reflexivity | exact Hx].
          eapply IHe; [exact Ee|exact Ea|].
          intros Hb. apply orb_false_iff in Hb. destruct Hb as [Hs Ht].
          eapply vsame_trans; [apply Hinv; exact Hs|eapply (do_act_pure rows prim benign T call c HcT); eauto].
        + (* the act failed (RERR) *)
          destruct (EX t (arm_guard a RERR) o1 x1) as [[oa xa] oa'] eqn:Ea.
          unfold do_act in Ed.
          destruct a as [v i l1 l2 fr|a0 i l1 l2 mi|m| |]; try (inversion Ed; fail).
          * destruct (act_status rows prim call c (ACheck v i l1 l2 fr) o x) as [[r0 x2] o2] eqn:Es.
            injection Ed as Hadj Hx1 Ho1. subst o2.
            destruct fr; [|destruct r0; simpl in Hadj; discriminate].
            simpl in Hadj. subst r0.
            eapply (Hcont s1 oa xa oa'); [| left; reflexivity | exact Hx].
            eapply IHt; [exact Era|exact Ea|].
            intros Hb. apply orb_false_iff in Hb. destruct Hb as [Hs Ht].
            assert (Hx2 : vsame x x2).
            { apply andb_false_iff in Ht. destruct Ht as [Ht|Ht].
              - eapply (act_status_pure rows prim T call c HcT); [|exact Es]. unfold tch, touch_act in Ht.
                destruct (act_callee (ACheck v i l1 l2 true)) as [[? ?]|]; [exact Ht|exact I].
              - apply negb_false_iff in Ht. eapply act_status_fail_clean; [exact Ht|exact Es|reflexivity]. }
            rewrite <- Hx1. eapply vsame_trans; [apply Hinv; exact Hs|].
            match goal with |- vsame _ (if ?bb then _ else _) => destruct bb end; [apply vsame_vf_r|]; exact Hx2.
          * destruct (act_status rows prim call c (ACall a0 i l1 l2 mi) o x) as [[r0 x2] o2] eqn:Es.
            injection Ed as Hadj Hx1 Ho1. subst o2. simpl in Hx1. subst x2.
            assert (Hr0 : is_fail r0 = true) by (destruct mi, r0; simpl in Hadj; try discriminate; reflexivity).
            simpl in Era.
            destruct (if mi then VS t true (seen || (tch && negb (inv_clean prim T Vs c (ACall a0 i l1 l2 mi)))) else Some (false, false)) as [sa1|] eqn:E1; [|discriminate].
            simpl in Era.
            destruct (VS t false (seen || (tch && negb (fail_clean prim T Cs c (ACall a0 i l1 l2 mi))))) as [sa2|] eqn:E2; [|discriminate].
            simpl in Era. inversion Era; subst s1. clear Era.
            eapply (Hcont (join2 sa1 sa2) oa xa oa'); [| left; reflexivity | exact Hx].
            apply oprom_join_r.
            simpl in Ea.
            eapply IHt; [exact E2|exact Ea|].
            intros Hb. apply orb_false_iff in Hb. destruct Hb as [Hs Ht].
            eapply vsame_trans; [apply Hinv; exact Hs|].
            apply andb_false_iff in Ht. destruct Ht as [Ht|Ht].
            -- eapply (act_status_pure rows prim T call c HcT); [|exact Es]. unfold tch, touch_act in Ht.
               destruct (act_callee (ACall a0 i l1 l2 mi)) as [[? ?]|]; [exact Ht|exact I].
            -- apply negb_false_iff in Ht. eapply act_status_fail_clean; [exact Ht|exact Es|exact Hr0].
        + (* the act failed with RINV *)
          destruct (EX t (arm_guard a RINV) o1 x1) as [[oa xa] oa'] eqn:Ea.
          unfold do_act in Ed.
          destruct a as [v i l1 l2 fr|a0 i l1 l2 mi|m| |]; try (inversion Ed; fail).
          * destruct (act_status rows prim call c (ACheck v i l1 l2 fr) o x) as [[r0 x2] o2] eqn:Es.
            injection Ed as Hadj Hx1 Ho1. subst o2.
            destruct fr; [|destruct r0; simpl in Hadj; discriminate].
            simpl in Hadj. subst r0.
            eapply (Hcont s1 oa xa oa'); [| left; reflexivity | exact Hx].
            eapply IHt; [exact Era|exact Ea|].
            intros Hb. apply orb_false_iff in Hb. destruct Hb as [Hs Ht].
            assert (Hx2 : vsame x x2).
            { apply andb_false_iff in Ht. destruct Ht as [Ht|Ht].
              - eapply (act_status_pure rows prim T call c HcT); [|exact Es]. unfold tch, touch_act in Ht.
                destruct (act_callee (ACheck v i l1 l2 true)) as [[? ?]|]; [exact Ht|exact I].
              - apply negb_false_iff in Ht. eapply act_status_fail_clean; [exact Ht|exact Es|reflexivity]. }
            rewrite <- Hx1. eapply vsame_trans; [apply Hinv; exact Hs|].
            match goal with |- vsame _ (if ?bb then _ else _) => destruct bb end; [apply vsame_vf_r|]; exact Hx2.
          * destruct (act_status rows prim call c (ACall a0 i l1 l2 mi) o x) as [[r0 x2] o2] eqn:Es.
            injection Ed as Hadj Hx1 Ho1. subst o2. simpl in Hx1. subst x2.
            assert (Hr0 : r0 = RINV /\ mi = true) by (destruct mi, r0; simpl in Hadj; try discriminate; auto).
            destruct Hr0; subst r0 mi.
            simpl in Era.
            destruct (VS t true (seen || (tch && negb (inv_clean prim T Vs c (ACall a0 i l1 l2 true))))) as [sa1|] eqn:E1; [|discriminate].
            simpl in Era.
            destruct (VS t false (seen || (tch && negb (fail_clean prim T Cs c (ACall a0 i l1 l2 true))))) as [sa2|] eqn:E2; [|discriminate].
            simpl in Era. inversion Era; subst s1. clear Era.
            eapply (Hcont (join2 sa1 sa2) oa xa oa'); [| left; reflexivity | exact Hx].
            apply oprom_join_l.
            simpl in Ea.
            eapply IHt; [exact E1|exact Ea|].
            intros Hb. apply orb_false_iff in Hb. destruct Hb as [Hs Ht].
            eapply vsame_trans; [apply Hinv; exact Hs|].
            apply andb_false_iff in Ht. destruct Ht as [Ht|Ht].
            -- eapply (act_status_pure rows prim T call c HcT); [|exact Es]. unfold tch, touch_act in Ht.
               destruct (act_callee (ACall a0 i l1 l2 true)) as [[? ?]|]; [exact Ht|exact I].
            -- apply negb_false_iff in Ht. eapply act_status_inv_clean; [exact Ht|exact Es].
        + (* out of fuel / excluded *) inversion Hx; subst. simpl. exact I.
      - (* QIf *)
        destruct (VS t g seen) as [s1|] eqn:Et; [|discriminate]. simpl in Hv.
        destruct (VS e g seen) as [s2|] eqn:Ee; [|discriminate]. simpl in Hv.
        unfold then2 in Hv. destruct (VS k g (fst (join2 s1 s2))) as [sk|] eqn:Ek; [|discriminate].
        simpl in Hv. inversion Hv; subst sres. clear Hv.
        destruct (pop o) as [bb o1].
        assert (Hcont : forall (sa : bool * bool) oa xa oa',
                   oprom x0 sa oa xa -> (sa = s1 \/ sa = s2) ->
                   match oa with Fall => EX k g oa' xa | Brk => (Brk, xa, oa') | Ret r0 => (Ret r0, xa, oa') end = (out, x', o') ->
                   oprom x0 (fst sk, snd (join2 s1 s2) || snd sk) out x').
        { intros sa oa xa oa' Hp Hsa Hy.
          assert (Hj : oprom x0 (join2 s1 s2) oa xa) by (destruct Hsa; subst sa; [apply oprom_join_l|apply oprom_join_r]; exact Hp).
          destruct oa.
          - apply oprom_k. eapply IHk; [exact Ek|exact Hy|]. exact Hj.
          - inversion Hy; subst. apply oprom_then; [exact Hj|discriminate].
          - inversion Hy; subst. apply oprom_then; [exact Hj|discriminate]. }
        destruct bb.
        + destruct (EX t g o1 x) as [[oa xa] oa'] eqn:Ea.
          eapply (Hcont s1 oa xa oa'); [| left; reflexivity | exact Hx]. eapply IHt; eauto.
        + destruct (EX e g o1 x) as [[oa xa] oa'] eqn:Ea.
          eapply (Hcont s2 oa xa oa'); [| right; reflexivity | exact Hx]. eapply IHe; eauto.
      - (* QIfLM *)
        destruct (if is_CR c then VS e g seen else VS t g seen) as [s1|] eqn:Ea1; [|discriminate]. simpl in Hv.
        unfold then2 in Hv. destruct (VS k g (fst s1)) as [sk|] eqn:Ek; [|discriminate].
        simpl in Hv. inversion Hv; subst sres. clear Hv.
        assert (Hcont : forall oa xa oa',
                   oprom x0 s1 oa xa ->
                   match oa with Fall => EX k g oa' xa | Brk => (Brk, xa, oa') | Ret r0 => (Ret r0, xa, oa') end = (out, x', o') ->
                   oprom x0 (fst sk, snd s1 || snd sk) out x').
        { intros oa xa oa' Hp Hy. destruct oa.
          - apply oprom_k. eapply IHk; [exact Ek|exact Hy|]. exact Hp.
          - inversion Hy; subst. apply oprom_then; [exact Hp|discriminate].
          - inversion Hy; subst. apply oprom_then; [exact Hp|discriminate]. }
        destruct (is_CR c).
        + destruct (EX e g o x) as [[oa xa] oa'] eqn:Ea. eapply (Hcont oa xa oa'); [|exact Hx]. eapply IHe; eauto.
        + destruct (EX t g o x) as [[oa xa] oa'] eqn:Ea. eapply (Hcont oa xa oa'); [|exact Hx]. eapply IHt; eauto.
      - (* QLoop *)
        destruct (VS b g seen) as [r1|] eqn:Eb; [|discriminate]. simpl in Hv.
        destruct (loop lf (fun o'0 x'0 => EX b g o'0 x'0) o x) as [[oa xa] oa'] eqn:El.
        destruct (implb (fst r1) seen) eqn:Ei.
        + (* every iteration starts like the first *)
          assert (Hl : match oa with Fall => (seen || snd r1 = false -> vsame x0 xa) | Brk => False | Ret r => rprom x0 r xa end).
          { eapply (loop_inv (fun y => seen = false -> vsame x0 y) (fun y => seen || snd r1 = false -> vsame x0 y)
                             (fun r y => rprom x0 r y)); [| | |exact Hinv|exact El].
            - intros y Hy Hb. apply orb_false_iff in Hb. destruct Hb. auto.
            - intros y Hy. simpl. exact I.
            - intros o0 y ob y' o0' Hy Hbd. pose proof (IHb _ _ _ _ _ _ _ _ x0 Eb Hbd Hy) as Hp.
              destruct ob; simpl in Hp.
              + intros Hs. apply Hp. destruct (fst r1); [rewrite Hs in Ei; discriminate|reflexivity].
              + intros Hb2. apply orb_false_iff in Hb2. destruct Hb2. auto.
              + exact Hp. }
          destruct oa.
          * eapply IHk; [exact Hv|exact Hx|exact Hl].
          * destruct Hl.
          * inversion Hx; subst. simpl. exact Hl.
        + (* a later iteration may start with something touched *)
          destruct seen; [destruct (fst r1); discriminate|].
          destruct (VS b g true) as [r2|] eqn:Eb2; [|discriminate]. simpl in Hv.
          assert (Hl : match oa with Fall => True | Brk => False | Ret r => rprom x0 r xa end).
          { eapply (loop_inv2 (fun y => vsame x0 y) (fun _ => True) (fun _ => True) (fun r y0 => rprom x0 r y0));
              [auto|auto| | | | |apply Hinv; reflexivity|exact El].
            - intros; simpl; exact I.
            - intros; simpl; exact I.
            - intros o0 y0 ob0 y' o0' Hy Hbd. pose proof (IHb _ _ _ _ _ _ _ _ x0 Eb Hbd (fun _ => Hy)) as Hp.
              destruct ob0; simpl; auto.
            - intros o0 y0 ob0 y' o0' _ Hbd. pose proof (IHb _ _ _ _ _ _ _ _ x0 Eb2 Hbd) as Hp.
              destruct ob0; simpl; auto. apply Hp. intros; discriminate. }
          destruct oa.
          * eapply IHk; [exact Hv|exact Hx|]. intros; discriminate.
          * destruct Hl.
          * inversion Hx; subst. simpl. exact Hl.
    Qed.
  End ExecClean.
End Clean.

Section RunClean.
  Variable rows : positive -> option vrow.
  Variable prim benign : positive -> bool.
  Variable T C V : positive -> ctx -> bool.
  Hypothesis Hclosed : forall id r c, rows id = Some r -> may_touch prim benign T c (vbody r) = true -> T id c = true.
  Hypothesis HC : forall id c, C id c = true ->
      exists r, rows id = Some r /\ is_some (vscan prim benign T C C true c (vbody r) false false) = true.
  Hypothesis HV : forall id c, V id c = true ->
      exists r, rows id = Some r /\ is_some (vscan prim benign T C V false c (vbody r) false false) = true.

  Theorem run_clean : forall fuel c id o x r x' o',
      run rows prim benign fuel c id o x = (r, x', o') ->
      (T id c = false -> vsame x x') /\
      (C id c = true -> is_fail r = true -> vsame x x') /\
      (V id c = true -> r = RINV -> vsame x x').
  Proof.
    induction fuel as [|n IH]; intros c id o x r x' o' Hr.
    - simpl in Hr. inversion Hr; subst. repeat split; intros; try apply vsame_refl; discriminate.
    - split; [intros Ht; eapply (run_pure rows prim benign T Hclosed); eauto|].
      simpl in Hr.
      assert (IHT : forall c' id o x r x' o', T id c' = false -> run rows prim benign n c' id o x = (r, x', o') -> vsame x x')
        by (intros; eapply (run_pure rows prim benign T Hclosed); eauto).
      assert (IHC : forall c' id o x r x' o', C id c' = true -> run rows prim benign n c' id o x = (r, x', o') -> is_fail r = true -> vsame x x')
        by (intros c' id0 o0 x1 r1 x1' o1 Hc Hrun Hf; destruct (IH _ _ _ _ _ _ _ Hrun) as [_ [H2 _]]; auto).
      assert (IHV : forall c' id o x x' o', V id c' = true -> run rows prim benign n c' id o x = (RINV, x', o') -> vsame x x')
        by (intros c' id0 o0 x1 x1' o1 Hc Hrun; destruct (IH _ _ _ _ _ _ _ Hrun) as [_ [_ H3]]; auto).
      assert (IHCV : forall c' id o x x' o', C id c' = true -> run rows prim benign n c' id o x = (RINV, x', o') -> vsame x x')
        by (intros c' id0 o0 x1 x1' o1 Hc Hrun; eapply IHC; eauto).
      split.
      + intros Hc Hf. destruct (HC _ _ Hc) as [r0 [Hr0 Hs]]. rewrite Hr0 in Hr.
        destruct (vscan prim benign T C C true c (vbody r0) false false) as [sres|] eqn:Ev; [|discriminate].
        destruct (exec rows prim benign (run rows prim benign n) n c (vbody r0) false o x) as [[oa xa] oa'] eqn:Ex.
        pose proof (exec_vscan rows prim benign T C C (run rows prim benign n) n c true IHT IHC IHCV
                               _ _ _ _ _ _ _ _ _ x Ev Ex (fun _ => vsame_refl x)) as Hp.
        destruct oa; inversion Hr; subst; simpl in Hf; try discriminate.
        simpl in Hp. destruct r; simpl in Hf; try discriminate; simpl in Hp; auto.
      + intros Hv Hinv. subst r. destruct (HV _ _ Hv) as [r0 [Hr0 Hs]]. rewrite Hr0 in Hr.
        destruct (vscan prim benign T C V false c (vbody r0) false false) as [sres|] eqn:Ev; [|discriminate].
        destruct (exec rows prim benign (run rows prim benign n) n c (vbody r0) false o x) as [[oa xa] oa'] eqn:Ex.
        pose proof (exec_vscan rows prim benign T C V (run rows prim benign n) n c false IHT IHC IHV
                               _ _ _ _ _ _ _ _ _ x Ev Ex (fun _ => vsame_refl x)) as Hp.
        destruct oa; inversion Hr; subst. simpl in Hp. exact Hp.
  Qed.
End RunClean.

(* ------------------------------------------------------------------------------------------------ failing checks return failures *)
Section Guarded.
  Variable rows : positive -> option vrow.
  Variable prim benign : positive -> bool.
  Variable call : ctx -> positive -> list bool -> vst -> res * vst * list bool.
  Variable lf : nat.
  Variable c : ctx.
  Notation EX := (exec rows prim benign call lf c).

  (* a sequence without `break` and without a non-failing `return`: it falls through (then it does not "always fail") or
     returns a failure *)
  Lemma no_ok_ret_exec : forall q g o x out x' o',
      no_ok_ret q = true -> EX q g o x = (out, x', o') ->
      (out = Fall /\ always_fails q = false) \/ (exists r, out = Ret r /\ r <> ROK).
  Proof.
    induction q as [|r| |a k IHk|a t IHt e IHe k IHk|t IHt e IHe k IHk|t IHt e IHe k IHk|b IHb k IHk];
      intros g o x out x' o' Hn Hx; simpl in Hn, Hx.
    - inversion Hx; subst. left; split; reflexivity.
    - destruct r; try discriminate. unfold do_ret in Hx. inversion Hx; subst. right.
      destruct g; eexists; split; try reflexivity; discriminate.
    - discriminate.
    - destruct (do_act rows prim benign call c a o x) as [[r x1] o1].
      destruct r; try (destruct (IHk _ _ _ _ _ _ Hn Hx) as [[H1 H2]|H]; [left; split; [exact H1|simpl; exact H2]|right; exact H]).
      inversion Hx; subst. right. eexists; split; [reflexivity|discriminate].
    - apply andb_true_iff in Hn. destruct Hn as [Hn Hk]. apply andb_true_iff in Hn. destruct Hn as [Ht He].
      assert (Harm : forall q0 g0 o1 x1, no_ok_ret q0 = true ->
                       (forall g o x out x' o', no_ok_ret q0 = true -> EX q0 g o x = (out, x', o') ->
                            (out = Fall /\ always_fails q0 = false) \/ (exists r, out = Ret r /\ r <> ROK)) ->
                       match EX q0 g0 o1 x1 with
                       | (Fall, x2, o2) => EX k g o2 x2
                       | (Brk, x2, o2) => (Brk, x2, o2)
                       | (Ret r0, x2, o2) => (Ret r0, x2, o2)
                       end = (out, x', o') ->
                       (out = Fall /\ always_fails q0 = false /\ always_fails k = false) \/ (exists r, out = Ret r /\ r <> ROK)).
      { intros q0 g0 o1 x1 Hq0 IH0 Hy. destruct (EX q0 g0 o1 x1) as [[oa xa] oa'] eqn:Ea.
        destruct (IH0 _ _ _ _ _ _ Hq0 Ea) as [[H1 H2]|[r0 [H1 H2]]]; subst oa.
        - destruct (IHk _ _ _ _ _ _ Hk Hy) as [[H3 H4]|H]; [left|right; exact H].
          split; [exact H3|]. split; assumption.
        - inversion Hy; subst. right. exists r0. split; [reflexivity|exact H2]. }
      destruct (do_act rows prim benign call c a o x) as [[r x1] o1].
      destruct r.
      + destruct (Harm e g o1 x1 He IHe Hx) as [[H1 [H2 H3]]|H]; [left|right; exact H].
        split; [exact H1|]. simpl. rewrite H2, H3. rewrite andb_false_r. reflexivity.
      + destruct (Harm t _ o1 x1 Ht IHt Hx) as [[H1 [H2 H3]]|H]; [left|right; exact H].
        split; [exact H1|]. simpl. rewrite H2, H3. reflexivity.
      + destruct (Harm t _ o1 x1 Ht IHt Hx) as [[H1 [H2 H3]]|H]; [left|right; exact H].
        split; [exact H1|]. simpl. rewrite H2, H3. reflexivity.
      + inversion Hx; subst. right. eexists; split; [reflexivity|discriminate].
    - apply andb_true_iff in Hn. destruct Hn as [Hn Hk]. apply andb_true_iff in Hn. destruct Hn as [Ht He].
      destruct (pop o) as [bb o1].
      destruct bb.
      + destruct (EX t g o1 x) as [[oa xa] oa'] eqn:Ea.
        destruct (IHt _ _ _ _ _ _ Ht Ea) as [[H1 H2]|[r0 [H1 H2]]]; subst oa.
        * destruct (IHk _ _ _ _ _ _ Hk Hx) as [[H3 H4]|H]; [left|right; exact H].
          split; [exact H3|]. simpl. rewrite H2, H4. reflexivity.
        * inversion Hx; subst. right. exists r0. split; [reflexivity|exact H2].
      + destruct (EX e g o1 x) as [[oa xa] oa'] eqn:Ea.
        destruct (IHe _ _ _ _ _ _ He Ea) as [[H1 H2]|[r0 [H1 H2]]]; subst oa.
        * destruct (IHk _ _ _ _ _ _ Hk Hx) as [[H3 H4]|H]; [left|right; exact H].
          split; [exact H3|]. simpl. rewrite H2, H4. rewrite andb_false_r. reflexivity.
        * inversion Hx; subst. right. exists r0. split; [reflexivity|exact H2].
    - apply andb_true_iff in Hn. destruct Hn as [Hn Hk]. apply andb_true_iff in Hn. destruct Hn as [Ht He].
      destruct (is_CR c).
      + destruct (EX e g o x) as [[oa xa] oa'] eqn:Ea.
        destruct (IHe _ _ _ _ _ _ He Ea) as [[H1 H2]|[r0 [H1 H2]]]; subst oa.
        * destruct (IHk _ _ _ _ _ _ Hk Hx) as [[H3 H4]|H]; [left|right; exact H].
          split; [exact H3|]. simpl. rewrite H2, H4. rewrite andb_false_r. reflexivity.
        * inversion Hx; subst. right. exists r0. split; [reflexivity|exact H2].
      + destruct (EX t g o x) as [[oa xa] oa'] eqn:Ea.
        destruct (IHt _ _ _ _ _ _ Ht Ea) as [[H1 H2]|[r0 [H1 H2]]]; subst oa.
        * destruct (IHk _ _ _ _ _ _ Hk Hx) as [[H3 H4]|H]; [left|right; exact H].
          split; [exact H3|]. simpl. rewrite H2, H4. reflexivity.
        * inversion Hx; subst. right. exists r0. split; [reflexivity|exact H2].
    - apply andb_true_iff in Hn. destruct Hn as [Hb Hk].
      destruct (loop lf (fun o'0 x'0 => EX b g o'0 x'0) o x) as [[oa xa] oa'] eqn:El.
      assert (Hl : match oa with Fall => True | Brk => False | Ret r => r <> ROK end).
      { eapply (loop_inv (fun _ => True) (fun _ => True) (fun r _ => r <> ROK)); [auto| | |exact I|exact El].
        - intros; discriminate.
        - intros o0 y ob y' o0' _ Hbd. destruct (IHb _ _ _ _ _ _ Hb Hbd) as [[H1 H2]|[r0 [H1 H2]]]; subst ob; auto. }
      destruct oa.
      + destruct (IHk _ _ _ _ _ _ Hk Hx) as [[H3 H4]|H]; [left; split; [exact H3|simpl; exact H4]|right; exact H].
      + destruct Hl.
      + inversion Hx; subst. right. exists r. split; [reflexivity|exact Hl].
  Qed.

  Lemma arm_fails_exec : forall q g o x out x' o',
      arm_fails q = true -> EX q g o x = (out, x', o') -> exists r, out = Ret r /\ r <> ROK.
  Proof.
    intros q g o x out x' o' Ha Hx. unfold arm_fails in Ha. apply andb_true_iff in Ha. destruct Ha as [Haf Hn].
    destruct (no_ok_ret_exec _ _ _ _ _ _ _ Hn Hx) as [[_ H2]|H]; [congruence|exact H].
  Qed.

  (* the callee's "a check failed" flag is local to the callee: after an act the flag is set iff the act was a counted
     check that failed *)
  Lemma do_act_vf : forall a o x r x1 o1,
      do_act rows prim benign call c a o x = (r, x1, o1) ->
      v_vf x1 = (v_vf x || (is_counted_check a && is_fail r)).
  Proof.
    intros a o x r x1 o1 Hd. unfold do_act in Hd.
    assert (Hst : forall r0 x2 o2, act_status rows prim call c a o x = (r0, x2, o2) -> v_vf x2 = v_vf x).
    { intros r0 x2 o2 Hs. unfold act_status in Hs. destruct (act_callee a) as [[i a0]|].
      - unfold do_callee in Hs. destruct (rows i).
        + destruct (call (tgt a0 c) i o (if prim i then vadd_file x i else x)) as [[r2 x3] o3]. inversion Hs; subst. reflexivity.
        + destruct (pop o) as [b o3]. inversion Hs; subst. destruct (prim i); reflexivity.
      - destruct (pop o) as [b o3]. inversion Hs; subst. reflexivity. }
    destruct a as [v i l1 l2 fr|a0 i l1 l2 mi|m| |].
    - destruct (act_status rows prim call c (ACheck v i l1 l2 fr) o x) as [[r0 x2] o2] eqn:Es.
      pose proof (Hst _ _ _ eq_refl) as Hv. injection Hd as Hr Hx1 Ho. subst r x1 o1.
      destruct fr, r0, (counted v) eqn:Ecv; simpl; rewrite ?Ecv; simpl; rewrite ?Hv, ?orb_true_r, ?orb_false_r; reflexivity.
    - destruct (act_status rows prim call c (ACall a0 i l1 l2 mi) o x) as [[r0 x2] o2] eqn:Es.
      pose proof (Hst _ _ _ eq_refl) as Hv. injection Hd as Hr Hx1 Ho. subst r x1 o1. simpl. rewrite Hv, orb_false_r. reflexivity.
    - inversion Hd; subst. simpl. rewrite orb_false_r. destruct (benign m); reflexivity.
    - inversion Hd; subst. simpl. rewrite orb_false_r. reflexivity.
    - inversion Hd; subst. simpl. rewrite orb_false_r. reflexivity.
  Qed.

  Lemma exec_guarded : forall q g o x out x' o',
      guarded q = true -> v_vf x = false -> EX q g o x = (out, x', o') -> v_vf x' = true ->
      exists r, out = Ret r /\ r <> ROK.
  Proof.
    induction q as [|r| |a k IHk|a t IHt e IHe k IHk|t IHt e IHe k IHk|t IHt e IHe k IHk|b IHb k IHk];
      intros g o x out x' o' Hg Hv Hx Hv'; simpl in Hg, Hx.
    - inversion Hx; subst. congruence.
    - unfold do_ret in Hx. destruct r; try (inversion Hx; subst; congruence).
      destruct g; [inversion Hx; subst; congruence|]. destruct (pop o) as [bb o1]. inversion Hx; subst. congruence.
    - inversion Hx; subst. congruence.
    - apply andb_true_iff in Hg. destruct Hg as [Ha Hk]. apply negb_true_iff in Ha.
      destruct (do_act rows prim benign call c a o x) as [[r x1] o1] eqn:Ed.
      pose proof (do_act_vf _ _ _ _ _ _ Ed) as Hvf. rewrite Hv, Ha in Hvf. simpl in Hvf.
      destruct r; [eapply IHk; eauto|eapply IHk; eauto|eapply IHk; eauto|].
      inversion Hx; subst. eexists; split; [reflexivity|discriminate].
    - apply andb_true_iff in Hg. destruct Hg as [Hg Hk]. apply andb_true_iff in Hg. destruct Hg as [Ht He].
      destruct (do_act rows prim benign call c a o x) as [[r x1] o1] eqn:Ed.
      pose proof (do_act_vf _ _ _ _ _ _ Ed) as Hvf. rewrite Hv in Hvf. simpl in Hvf.
      assert (Hcont : forall oa xa oa',
                 (v_vf xa = true -> exists r0, oa = Ret r0 /\ r0 <> ROK) ->
                 match oa with Fall => EX k g oa' xa | Brk => (Brk, xa, oa') | Ret r0 => (Ret r0, xa, oa') end = (out, x', o') ->
                 exists r0, out = Ret r0 /\ r0 <> ROK).
      { intros oa xa oa' Hp Hy. destruct oa.
        - destruct (v_vf xa) eqn:Evf; [destruct (Hp eq_refl) as [r0 [H1 _]]; discriminate|]. eapply IHk; eauto.
        - inversion Hy; subst. destruct (Hp Hv') as [r0 [H1 _]]; discriminate.
        - inversion Hy; subst. destruct (v_vf x') eqn:Evf; [|discriminate]. apply Hp; reflexivity. }
      destruct r.
      + rewrite andb_false_r in Hvf.
        destruct (EX e g o1 x1) as [[oa xa] oa'] eqn:Ea.
        eapply (Hcont oa xa oa'); [|exact Hx]. intros Hxa. eapply IHe; eauto.
      + destruct (EX t (arm_guard a RERR) o1 x1) as [[oa xa] oa'] eqn:Ea.
        eapply (Hcont oa xa oa'); [|exact Hx]. intros Hxa.
        destruct (is_counted_check a) eqn:Ec.
        * eapply arm_fails_exec; eauto.
        * simpl in Hvf. eapply IHt; eauto.
      + destruct (EX t (arm_guard a RINV) o1 x1) as [[oa xa] oa'] eqn:Ea.
        eapply (Hcont oa xa oa'); [|exact Hx]. intros Hxa.
        destruct (is_counted_check a) eqn:Ec.
        * eapply arm_fails_exec; eauto.
        * simpl in Hvf. eapply IHt; eauto.
      + inversion Hx; subst. eexists; split; [reflexivity|discriminate].
    - apply andb_true_iff in Hg. destruct Hg as [Hg Hk]. apply andb_true_iff in Hg. destruct Hg as [Ht He].
      destruct (pop o) as [bb o1].
      assert (Hcont : forall oa xa oa',
                 (v_vf xa = true -> exists r0, oa = Ret r0 /\ r0 <> ROK) ->
                 match oa with Fall => EX k g oa' xa | Brk => (Brk, xa, oa') | Ret r0 => (Ret r0, xa, oa') end = (out, x', o') ->
                 exists r0, out = Ret r0 /\ r0 <> ROK).
      { intros oa xa oa' Hp Hy. destruct oa.
        - destruct (v_vf xa) eqn:Evf; [destruct (Hp eq_refl) as [r0 [H1 _]]; discriminate|]. eapply IHk; eauto.
        - inversion Hy; subst. destruct (Hp Hv') as [r0 [H1 _]]; discriminate.
        - inversion Hy; subst. destruct (v_vf x') eqn:Evf; [|discriminate]. apply Hp; reflexivity. }
      destruct bb.
      + destruct (EX t g o1 x) as [[oa xa] oa'] eqn:Ea. eapply (Hcont oa xa oa'); [|exact Hx]. intros; eapply IHt; eauto.
      + destruct (EX e g o1 x) as [[oa xa] oa'] eqn:Ea. eapply (Hcont oa xa oa'); [|exact Hx]. intros; eapply IHe; eauto.
    - apply andb_true_iff in Hg. destruct Hg as [Hg Hk]. apply andb_true_iff in Hg. destruct Hg as [Ht He].
      assert (Hcont : forall oa xa oa',
                 (v_vf xa = true -> exists r0, oa = Ret r0 /\ r0 <> ROK) ->
                 match oa with Fall => EX k g oa' xa | Brk => (Brk, xa, oa') | Ret r0 => (Ret r0, xa, oa') end = (out, x', o') ->
                 exists r0, out = Ret r0 /\ r0 <> ROK).
      { intros oa xa oa' Hp Hy. destruct oa.
        - destruct (v_vf xa) eqn:Evf; [destruct (Hp eq_refl) as [r0 [H1 _]]; discriminate|]. eapply IHk; eauto.
        - inversion Hy; subst. destruct (Hp Hv') as [r0 [H1 _]]; discriminate.
        - inversion Hy; subst. destruct (v_vf x') eqn:Evf; [|discriminate]. apply Hp; reflexivity. }
      destruct (is_CR c).
      + destruct (EX e g o x) as [[oa xa] oa'] eqn:Ea. eapply (Hcont oa xa oa'); [|exact Hx]. intros; eapply IHe; eauto.
      + destruct (EX t g o x) as [[oa xa] oa'] eqn:Ea. eapply (Hcont oa xa oa'); [|exact Hx]. intros; eapply IHt; eauto.
    - apply andb_true_iff in Hg. destruct Hg as [Hb Hk].
      destruct (loop lf (fun o'0 x'0 => EX b g o'0 x'0) o x) as [[oa xa] oa'] eqn:El.
      assert (Hl : match oa with Fall => v_vf xa = false | Brk => False | Ret r => v_vf xa = true -> r <> ROK end).
      { eapply (loop_inv (fun y => v_vf y = false) (fun y => v_vf y = false) (fun r y => v_vf y = true -> r <> ROK)); [auto| | |exact Hv|exact El].
        - intros; discriminate.
        - intros o0 y ob y' o0' Hy Hbd.
          destruct (v_vf y') eqn:Evf.
          + destruct (IHb _ _ _ _ _ _ Hb Hy Hbd Evf) as [r0 [H1 H2]]. subst ob. intros _. exact H2.
          + destruct ob; auto. intros; discriminate. }
      destruct oa.
      + eapply IHk; eauto.
      + destruct Hl.
      + inversion Hx; subst. exists r. split; [reflexivity|auto].
  Qed.
End Guarded.

Theorem run_guarded : forall rows prim benign n c id r0 o x res x' o',
    rows id = Some r0 -> guarded (vbody r0) = true -> v_vf x = false ->
    run rows prim benign (S n) c id o x = (res, x', o') -> v_vf x' = true -> res <> ROK.
Proof.
  intros rows prim benign n c id r0 o x res x' o' Hr Hg Hv Hrun Hv'. simpl in Hrun. rewrite Hr in Hrun.
  destruct (exec rows prim benign (run rows prim benign n) n c (vbody r0) false o x) as [[oa xa] oa'] eqn:Ex.
  assert (Hxa : xa = x') by (destruct oa; inversion Hrun; reflexivity). subst xa.
  destruct (exec_guarded _ _ _ _ _ _ _ _ _ _ _ _ _ Hg Hv Ex Hv') as [r [H1 H2]]. subst oa. inversion Hrun; subst. exact H2.
Qed.

(* ------------------------------------------------------------------------------------------------ error messages *)
Section Noisy.
  Variable rows : positive -> option vrow.
  Variable prim benign : positive -> bool.
  Variable NS : positive -> ctx -> bool.

  Section ExecNoisy.
    Variable call : ctx -> positive -> list bool -> vst -> res * vst * list bool.
    Variable lf : nat.
    Variable c : ctx.
    Hypothesis Hmono : forall c' id o x r x' o', call c' id o x = (r, x', o') -> v_err x = true -> v_err x' = true.
    Hypothesis Hns : forall c' id o x r x' o', NS id c' = true -> call c' id o x = (r, x', o') -> is_fail r = true -> v_err x' = true.
    Hypothesis Hnsrow : forall id c', NS id c' = true -> rows id <> None.
    Notation EX := (exec rows prim benign call lf c).
    Notation ES := (escan NS c).

    Lemma act_status_mono : forall a o x r x1 o1,
        act_status rows prim call c a o x = (r, x1, o1) -> v_err x = true -> v_err x1 = true.
    Proof.
      intros a o x r x1 o1 Hs He. unfold act_status in Hs. destruct (act_callee a) as [[i a0]|].
      - unfold do_callee in Hs. destruct (rows i).
        + destruct (call (tgt a0 c) i o (if prim i then vadd_file x i else x)) as [[r2 x3] o3] eqn:Ec. inversion Hs; subst. simpl.
          eapply Hmono; [exact Ec|]. destruct (prim i); exact He.
        + destruct (pop o) as [b o3]. inversion Hs; subst. destruct (prim i); exact He.
      - destruct (pop o) as [b o3]. inversion Hs; subst. exact He.
    Qed.

    Lemma do_act_mono : forall a o x r x1 o1,
        do_act rows prim benign call c a o x = (r, x1, o1) -> v_err x = true -> v_err x1 = true.
    Proof.
      intros a o x r x1 o1 Hd He. unfold do_act in Hd.
      destruct a as [v i l1 l2 fr|a0 i l1 l2 mi|m| |].
      - destruct (act_status rows prim call c (ACheck v i l1 l2 fr) o x) as [[r0 x2] o2] eqn:Es.
        pose proof (act_status_mono _ _ _ _ _ _ Es He) as H2. injection Hd as Hr Hx1 Ho. subst x1.
        match goal with |- v_err (if ?bb then _ else _) = _ => destruct bb end; simpl; exact H2.
      - destruct (act_status rows prim call c (ACall a0 i l1 l2 mi) o x) as [[r0 x2] o2] eqn:Es.
        pose proof (act_status_mono _ _ _ _ _ _ Es He) as H2. injection Hd as Hr Hx1 Ho. subst x1. simpl. exact H2.
      - inversion Hd; subst. destruct (benign m); exact He.
      - inversion Hd; subst. reflexivity.
      - inversion Hd; subst. exact He.
    Qed.

    Lemma exec_mono : forall q g o x out x' o',
        EX q g o x = (out, x', o') -> v_err x = true -> v_err x' = true.
    Proof.
      induction q as [|r| |a k IHk|a t IHt e IHe k IHk|t IHt e IHe k IHk|t IHt e IHe k IHk|b IHb k IHk];
        intros g o x out x' o' Hx He; simpl in Hx.
      - inversion Hx; subst; exact He.
      - unfold do_ret in Hx. destruct r; try (inversion Hx; subst; exact He).
        destruct g; [inversion Hx; subst; exact He|]. destruct (pop o) as [bb o1]; inversion Hx; subst; exact He.
      - inversion Hx; subst; exact He.
      - destruct (do_act rows prim benign call c a o x) as [[r x1] o1] eqn:Ed.
        pose proof (do_act_mono _ _ _ _ _ _ Ed He) as H1.
        destruct r; [eapply IHk; eauto|eapply IHk; eauto|eapply IHk; eauto|inversion Hx; subst; exact H1].
      - destruct (do_act rows prim benign call c a o x) as [[r x1] o1] eqn:Ed.
        pose proof (do_act_mono _ _ _ _ _ _ Ed He) as H1.
        assert (Harm : forall q0 g0, (forall g o x out x' o', EX q0 g o x = (out, x', o') -> v_err x = true -> v_err x' = true) ->
                   match EX q0 g0 o1 x1 with
                   | (Fall, x2, o2) => EX k g o2 x2 | (Brk, x2, o2) => (Brk, x2, o2) | (Ret r0, x2, o2) => (Ret r0, x2, o2) end = (out, x', o') ->
                   v_err x' = true).
        { intros q0 g0 IH0 Hy. destruct (EX q0 g0 o1 x1) as [[oa xa] oa'] eqn:Ea. pose proof (IH0 _ _ _ _ _ _ Ea H1) as H2.
          destruct oa; [eapply IHk; eauto|inversion Hy; subst; exact H2|inversion Hy; subst; exact H2]. }
        destruct r; [eapply (Harm e); eauto|eapply (Harm t); eauto|eapply (Harm t); eauto|inversion Hx; subst; exact H1].
      - destruct (pop o) as [bb o1]. destruct bb.
        + destruct (EX t g o1 x) as [[oa xa] oa'] eqn:Ea. pose proof (IHt _ _ _ _ _ _ Ea He) as H2.
          destruct oa; [eapply IHk; eauto|inversion Hx; subst; exact H2|inversion Hx; subst; exact H2].
        + destruct (EX e g o1 x) as [[oa xa] oa'] eqn:Ea. pose proof (IHe _ _ _ _ _ _ Ea He) as H2.
          destruct oa; [eapply IHk; eauto|inversion Hx; subst; exact H2|inversion Hx; subst; exact H2].
      - destruct (is_CR c).
        + destruct (EX e g o x) as [[oa xa] oa'] eqn:Ea. pose proof (IHe _ _ _ _ _ _ Ea He) as H2.
          destruct oa; [eapply IHk; eauto|inversion Hx; subst; exact H2|inversion Hx; subst; exact H2].
        + destruct (EX t g o x) as [[oa xa] oa'] eqn:Ea. pose proof (IHt _ _ _ _ _ _ Ea He) as H2.
          destruct oa; [eapply IHk; eauto|inversion Hx; subst; exact H2|inversion Hx; subst; exact H2].
      - destruct (loop lf (fun o'0 x'0 => EX b g o'0 x'0) o x) as [[oa xa] oa'] eqn:El.
        assert (Hl : match oa with Fall => v_err xa = true | Brk => False | Ret _ => v_err xa = true end).
        { eapply (loop_inv (fun y => v_err y = true) (fun y => v_err y = true) (fun _ y => v_err y = true)); [auto|auto| |exact He|exact El].
          intros o0 y ob y' o0' Hy Hbd. pose proof (IHb _ _ _ _ _ _ Hbd Hy). destruct ob; assumption. }
        destruct oa; [eapply IHk; eauto|destruct Hl|inversion Hx; subst; exact Hl].
    Qed.

    Definition eprom (eres : bool * bool) (o : out) (x' : vst) : Prop :=
      match o with
      | Fall => fst eres = true -> v_err x' = true
      | Brk => snd eres = true -> v_err x' = true
      | Ret r => is_fail r = true -> v_err x' = true
      end.

    Lemma exec_escan : forall q g err eres o x out x' o',
        ES q err = Some eres ->
        EX q g o x = (out, x', o') ->
        (err = true -> v_err x = true) ->
        eprom eres out x'.
    Proof.
      induction q as [|r| |a k IHk|a t IHt e IHe k IHk|t IHt e IHe k IHk|t IHt e IHe k IHk|b IHb k IHk];
        intros g err eres o x out x' o' Hs Hx Hinv; simpl in Hs, Hx.
      - inversion Hs; subst. inversion Hx; subst. simpl. exact Hinv.
      - destruct (failing r && negb err) eqn:Ef; [discriminate|]. inversion Hs; subst eres.
        unfold do_ret in Hx. destruct r; try (inversion Hx; subst; simpl; intros; discriminate).
        + simpl in Ef. apply negb_false_iff in Ef. inversion Hx; subst out x' o'. simpl. intros _. apply Hinv. exact Ef.
        + simpl in Ef. apply negb_false_iff in Ef. destruct g.
          * inversion Hx; subst out x' o'. simpl. intros _. apply Hinv. exact Ef.
          * destruct (pop o) as [bb o1]. inversion Hx; subst out x' o'. simpl. intros _. apply Hinv. exact Ef.
      - inversion Hs; subst. inversion Hx; subst. simpl. exact Hinv.
      - destruct (do_act rows prim benign call c a o x) as [[r x1] o1] eqn:Ed.
        assert (H1 : err || is_err a = true -> v_err x1 = true).
        { intros Hb. apply orb_true_iff in Hb. destruct Hb as [Hb|Hb].
          - eapply do_act_mono; eauto.
          - destruct a; try discriminate. unfold do_act in Ed. inversion Ed; subst. reflexivity. }
        destruct r; [eapply IHk; eauto|eapply IHk; eauto|eapply IHk; eauto|].
        inversion Hx; subst. simpl. intros; discriminate.
      - destruct (ES t (err || act_noisy NS c a)) as [e1|] eqn:Et; [|discriminate]. simpl in Hs.
        destruct (ES e err) as [e2|] eqn:Ee; [|discriminate]. simpl in Hs.
        unfold ethen2 in Hs. destruct (ES k (fst (meet2 e1 e2))) as [ek|] eqn:Ek; [|discriminate]. simpl in Hs.
        inversion Hs; subst eres. clear Hs.
        destruct (do_act rows prim benign call c a o x) as [[r x1] o1] eqn:Ed.
        assert (Hcont : forall (ea : bool * bool) oa xa oa',
                   eprom ea oa xa -> (ea = e1 \/ ea = e2) ->
                   match oa with Fall => EX k g oa' xa | Brk => (Brk, xa, oa') | Ret r0 => (Ret r0, xa, oa') end = (out, x', o') ->
                   eprom (fst ek, snd (meet2 e1 e2) && snd ek) out x').
        { intros ea oa xa oa' Hp Hea Hy. destruct oa.
          - assert (Hk : eprom ek out x').
            { eapply IHk; [exact Ek|exact Hy|]. simpl. intros Hb. apply andb_true_iff in Hb. destruct Hb as [Hb1 Hb2].
              simpl in Hp. apply Hp. destruct Hea; subst ea; assumption. }
            destruct out; simpl in *; auto. intros Hb. apply andb_true_iff in Hb. destruct Hb. auto.
          - inversion Hy; subst. simpl in *. intros Hb. apply andb_true_iff in Hb. destruct Hb as [Hb _].
            apply andb_true_iff in Hb. destruct Hb as [Hb1 Hb2]. apply Hp. destruct Hea; subst ea; assumption.
          - inversion Hy; subst. simpl in *. exact Hp. }
        assert (Hx1 : err = true -> v_err x1 = true) by (intros; eapply do_act_mono; eauto).
        assert (Hfail : is_fail r = true -> err || act_noisy NS c a = true -> v_err x1 = true).
        { intros Hf Hb. apply orb_true_iff in Hb. destruct Hb as [Hb|Hb]; [auto|].
          unfold act_noisy in Hb. unfold do_act in Ed.
          destruct a as [v i l1 l2 fr|a0 i l1 l2 mi|m| |]; try (simpl in Hb; discriminate).
          - unfold act_callee in Hb. destruct (Pos.eqb i 1) eqn:Ei; [discriminate|].
            destruct (act_status rows prim call c (ACheck v i l1 l2 fr) o x) as [[r0 x2] o2] eqn:Es.
            injection Ed as Hr Hx2 Ho. subst r.
            assert (Hr0 : is_fail r0 = true) by (destruct fr, r0; simpl in Hf; try discriminate; reflexivity).
            assert (H2 : v_err x2 = true).
            { unfold act_status, act_callee in Es. rewrite Ei in Es.
              unfold do_callee in Es. destruct (rows i) eqn:Eri.
              - destruct (call (tgt ANone c) i o (if prim i then vadd_file x i else x)) as [[r2 x3] o3] eqn:Ec.
                inversion Es; subst. simpl. eapply Hns; eauto.
              - exfalso. eapply Hnsrow; eauto. }
            subst x1. match goal with |- v_err (if ?bb then _ else _) = _ => destruct bb end; simpl; exact H2.
          - unfold act_callee in Hb. destruct (Pos.eqb i 1) eqn:Ei; [discriminate|].
            destruct (act_status rows prim call c (ACall a0 i l1 l2 mi) o x) as [[r0 x2] o2] eqn:Es.
            injection Ed as Hr Hx2 Ho. subst r.
            assert (Hr0 : is_fail r0 = true) by (destruct mi, r0; simpl in Hf; try discriminate; reflexivity).
            subst x1. simpl.
            unfold act_status, act_callee in Es. rewrite Ei in Es.
            unfold do_callee in Es. destruct (rows i) eqn:Eri.
            + destruct (call (tgt a0 c) i o (if prim i then vadd_file x i else x)) as [[r2 x3] o3] eqn:Ec.
              inversion Es; subst. simpl. eapply Hns; eauto.
            + exfalso. eapply Hnsrow; eauto. }
        destruct r.
        + destruct (EX e g o1 x1) as [[oa xa] oa'] eqn:Ea.
          eapply (Hcont e2 oa xa oa'); [|right; reflexivity|exact Hx]. eapply IHe; eauto.
        + destruct (EX t (arm_guard a RERR) o1 x1) as [[oa xa] oa'] eqn:Ea.
          eapply (Hcont e1 oa xa oa'); [|left; reflexivity|exact Hx]. eapply IHt; [exact Et|exact Ea|]. apply Hfail; reflexivity.
        + destruct (EX t (arm_guard a RINV) o1 x1) as [[oa xa] oa'] eqn:Ea.
          eapply (Hcont e1 oa xa oa'); [|left; reflexivity|exact Hx]. eapply IHt; [exact Et|exact Ea|]. apply Hfail; reflexivity.
        + inversion Hx; subst. simpl. intros; discriminate.
      - destruct (ES t err) as [e1|] eqn:Et; [|discriminate]. simpl in Hs.
        destruct (ES e err) as [e2|] eqn:Ee; [|discriminate]. simpl in Hs.
        unfold ethen2 in Hs. destruct (ES k (fst (meet2 e1 e2))) as [ek|] eqn:Ek; [|discriminate]. simpl in Hs.
        inversion Hs; subst eres. clear Hs.
        destruct (pop o) as [bb o1].
        assert (Hcont : forall (ea : bool * bool) oa xa oa',
                   eprom ea oa xa -> (ea = e1 \/ ea = e2) ->
                   match oa with Fall => EX k g oa' xa | Brk => (Brk, xa, oa') | Ret r0 => (Ret r0, xa, oa') end = (out, x', o') ->
                   eprom (fst ek, snd (meet2 e1 e2) && snd ek) out x').
        { intros ea oa xa oa' Hp Hea Hy. destruct oa.
          - assert (Hk : eprom ek out x').
            { eapply IHk; [exact Ek|exact Hy|]. simpl. intros Hb. apply andb_true_iff in Hb. destruct Hb as [Hb1 Hb2].
              simpl in Hp. apply Hp. destruct Hea; subst ea; assumption. }
            destruct out; simpl in *; auto. intros Hb. apply andb_true_iff in Hb. destruct Hb. auto.
          - inversion Hy; subst. simpl in *. intros Hb. apply andb_true_iff in Hb. destruct Hb as [Hb _].
            apply andb_true_iff in Hb. destruct Hb as [Hb1 Hb2]. apply Hp. destruct Hea; subst ea; assumption.
          - inversion Hy; subst. simpl in *. exact Hp. }
        destruct bb.
        + destruct (EX t g o1 x) as [[oa xa] oa'] eqn:Ea. eapply (Hcont e1 oa xa oa'); [|left; reflexivity|exact Hx]. eapply IHt; eauto.
        + destruct (EX e g o1 x) as [[oa xa] oa'] eqn:Ea. eapply (Hcont e2 oa xa oa'); [|right; reflexivity|exact Hx]. eapply IHe; eauto.
      - destruct (if is_CR c then ES e err else ES t err) as [e1|] eqn:Ea1; [|discriminate]. simpl in Hs.
        unfold ethen2 in Hs. destruct (ES k (fst e1)) as [ek|] eqn:Ek; [|discriminate]. simpl in Hs.
        inversion Hs; subst eres. clear Hs.
        assert (Hcont : forall oa xa oa',
                   eprom e1 oa xa ->
                   match oa with Fall => EX k g oa' xa | Brk => (Brk, xa, oa') | Ret r0 => (Ret r0, xa, oa') end = (out, x', o') ->
                   eprom (fst ek, snd e1 && snd ek) out x').
        { intros oa xa oa' Hp Hy. destruct oa.
          - assert (Hk : eprom ek out x') by (eapply IHk; [exact Ek|exact Hy|exact Hp]).
            destruct out; simpl in *; auto. intros Hb. apply andb_true_iff in Hb. destruct Hb. auto.
          - inversion Hy; subst. simpl in *. intros Hb. apply andb_true_iff in Hb. destruct Hb. auto.
          - inversion Hy; subst. simpl in *. exact Hp. }
        destruct (is_CR c).
        + destruct (EX e g o x) as [[oa xa] oa'] eqn:Ea. eapply (Hcont oa xa oa'); [|exact Hx]. eapply IHe; eauto.
        + destruct (EX t g o x) as [[oa xa] oa'] eqn:Ea. eapply (Hcont oa xa oa'); [|exact Hx]. eapply IHt; eauto.
      - destruct (ES b err) as [eb|] eqn:Eb; [|discriminate]. simpl in Hs.
        destruct (loop lf (fun o'0 x'0 => EX b g o'0 x'0) o x) as [[oa xa] oa'] eqn:El.
        assert (Hl : match oa with Fall => (err = true -> v_err xa = true) | Brk => False
                               | Ret r => is_fail r = true -> v_err xa = true end).
        { eapply (loop_inv (fun y => err = true -> v_err y = true) (fun y => err = true -> v_err y = true)
                           (fun r y => is_fail r = true -> v_err y = true)); [auto| | |exact Hinv|exact El].
          - intros; discriminate.
          - intros o0 y ob y' o0' Hy Hbd. pose proof (IHb _ _ _ _ _ _ _ _ Eb Hbd Hy) as Hp.
            assert (Hm : err = true -> v_err y' = true) by (intros He; eapply exec_mono; [exact Hbd|apply Hy; exact He]).
            destruct ob; simpl in Hp; auto. }
        destruct oa.
        + eapply IHk; [exact Hs|exact Hx|exact Hl].
        + destruct Hl.
        + inversion Hx; subst. simpl. exact Hl.
    Qed.
  End ExecNoisy.

  Hypothesis HNS : forall id c, NS id c = true ->
      exists r, rows id = Some r /\ is_some (escan NS c (vbody r) false) = true.

  Lemma run_mono : forall fuel c id o x r x' o',
      run rows prim benign fuel c id o x = (r, x', o') -> v_err x = true -> v_err x' = true.
  Proof.
    induction fuel as [|n IH]; intros c id o x r x' o' Hr He; simpl in Hr.
    - inversion Hr; subst; exact He.
    - destruct (rows id) as [r0|]; [|inversion Hr; subst; exact He].
      destruct (exec rows prim benign (run rows prim benign n) n c (vbody r0) false o x) as [[oa xa] oa'] eqn:Ex.
      pose proof (exec_mono (run rows prim benign n) n c IH _ _ _ _ _ _ _ Ex He) as H2.
      destruct oa; inversion Hr; subst; exact H2.
  Qed.

  Theorem run_noisy : forall fuel c id o x r x' o',
      NS id c = true -> run rows prim benign fuel c id o x = (r, x', o') -> is_fail r = true -> v_err x' = true.
  Proof.
    induction fuel as [|n IH]; intros c id o x r x' o' Hn Hr Hf; simpl in Hr.
    - inversion Hr; subst. discriminate.
    - destruct (HNS _ _ Hn) as [r0 [Hr0 Hs]]. rewrite Hr0 in Hr.
      destruct (escan NS c (vbody r0) false) as [eres|] eqn:Ee; [|discriminate].
      destruct (exec rows prim benign (run rows prim benign n) n c (vbody r0) false o x) as [[oa xa] oa'] eqn:Ex.
      assert (Hrow : forall id0 c', NS id0 c' = true -> rows id0 <> None)
        by (intros id0 c' H0; destruct (HNS _ _ H0) as [r1 [Hr1 _]]; congruence).
      pose proof (exec_escan (run rows prim benign n) n c (run_mono n) IH Hrow _ _ _ _ _ _ _ _ _ Ee Ex (fun H => match Bool.diff_false_true H with end)) as Hp.
      destruct oa; inversion Hr; subst; simpl in Hf; try discriminate. simpl in Hp. auto.
  Qed.
End Noisy.

(* ------------------------------------------------------------------------------------------------ getters *)
Local Open Scope Z_scope.
Theorem getter_run_sound : forall (A : Type) pairs g idx parent cnt arr hi lo lo_val sub (n : Z) (a : list A) i r,
    getter_ok pairs (GIdx g idx parent cnt arr hi lo lo_val sub) = true ->
    Z.of_nat (List.length a) = n ->
    getter_run hi lo lo_val sub n a i = Some r ->
    1 <= i <= n /\ exists x, r = inl x /\ nth_error a (Z.to_nat (i - 1)) = Some x.
Proof.
  intros A pairs g idx parent cnt arr hi lo lo_val sub n a i r Hok Hlen Hrun.
  unfold getter_run in Hrun. destruct (getter_accepts hi lo lo_val i n) eqn:Ea; [|discriminate].
  destruct (getter_bounds _ _ _ _ _ _ _ _ _ _ _ _ Hok Ea) as [Hi [Hb [Hs _]]].
  split; [exact Hi|]. rewrite Hs in *.
  assert (Hin : (0 <=? i - 1) && (i - 1 <? Z.of_nat (List.length a)) = true).
  { apply andb_true_iff. split; [apply Z.leb_le; lia|apply Z.ltb_lt; lia]. }
  rewrite Hin in Hrun.
  destruct (nth_error a (Z.to_nat (i - 1))) as [x|] eqn:En.
  - exists x. inversion Hrun; subst. split; reflexivity.
  - exfalso. apply nth_error_None in En. lia.
Qed.

Theorem getter_run_complete : forall (A : Type) pairs g idx parent cnt arr hi lo lo_val sub (n : Z) (a : list A) i,
    getter_ok pairs (GIdx g idx parent cnt arr hi lo lo_val sub) = true ->
    Z.of_nat (List.length a) = n -> 1 <= i <= n ->
    exists x, getter_run hi lo lo_val sub n a i = Some (inl x) /\ nth_error a (Z.to_nat (i - 1)) = Some x.
Proof.
  intros A pairs g idx parent cnt arr hi lo lo_val sub n a i Hok Hlen Hi.
  pose proof (getter_complete _ _ _ _ _ _ _ _ _ _ _ _ Hok Hi) as Ea.
  destruct (getter_bounds _ _ _ _ _ _ _ _ _ _ _ _ Hok Ea) as [_ [Hb [Hs _]]].
  unfold getter_run. rewrite Ea. rewrite Hs.
  assert (Hin : (0 <=? i - 1) && (i - 1 <? Z.of_nat (List.length a)) = true).
  { apply andb_true_iff. split; [apply Z.leb_le; lia|apply Z.ltb_lt; lia]. }
  rewrite Hin.
  destruct (nth_error a (Z.to_nat (i - 1))) as [x|] eqn:En.
  - exists x. split; reflexivity.
  - exfalso. apply nth_error_None in En. lia.
Qed.

Theorem getter_run_rejects : forall (A : Type) pairs g idx parent cnt arr hi lo lo_val sub (n : Z) (a : list A) i,
    getter_ok pairs (GIdx g idx parent cnt arr hi lo lo_val sub) = true ->
    (i < 1 \/ i > n) -> getter_run hi lo lo_val sub n a i = None.
Proof.
  intros A pairs g idx parent cnt arr hi lo lo_val sub n a i Hok Hi.
  unfold getter_run. destruct (getter_accepts hi lo lo_val i n) eqn:Ea; [|reflexivity].
  destruct (getter_bounds _ _ _ _ _ _ _ _ _ _ _ _ Hok Ea) as [H1 _]. lia.
Qed.

(* the ADDRESS4MULTIPLE macro has the same shape *)
Theorem addr_macro_bounds : forall hi lo lo_val sub grows i n,
    addr_macro_ok (Some (hi, lo, lo_val, sub, grows)) = true ->
    getter_accepts hi lo lo_val i n = true -> 1 <= i <= n /\ i + sub = i - 1.
Proof.
  intros hi lo lo_val sub grows i n Hok Hacc. unfold addr_macro_ok in Hok.
  repeat (apply andb_true_iff in Hok; destruct Hok as [Hok ?]).
  destruct hi; try discriminate.
  assert (Hsub : sub = -1) by (apply Z.eqb_eq; assumption). subst sub.
  unfold getter_accepts in Hacc. apply negb_true_iff in Hacc. apply orb_false_iff in Hacc. destruct Hacc as [Hh Hl].
  simpl in Hh. rewrite Z.gtb_ltb in Hh. apply Z.ltb_ge in Hh.
  destruct lo; try discriminate.
  - destruct lo_val as [|[| |]|]; try discriminate. simpl in Hl. apply Z.ltb_ge in Hl. lia.
  - destruct lo_val; try discriminate. simpl in Hl. apply Z.leb_gt in Hl. lia.
Qed.
Local Close Scope Z_scope.

(* ------------------------------------------------------------------------------------------------ concrete tables *)
Lemma vrows_of_in : forall t id r, vrows_of t id = Some r -> In r t /\ vid r = id.
Proof.
  intros t id r H. unfold vrows_of in H. apply find_some in H. destruct H as [H1 H2].
  split; [exact H1|apply Pos.eqb_eq; exact H2].
Qed.

Lemma tclosed_b_sound : forall prim benign t S,
    tclosed_b prim benign t S = true ->
    forall id r c, vrows_of t id = Some r -> may_touch prim benign (inset S) c (vbody r) = true -> inset S id c = true.
Proof.
  intros prim benign t S H id r c Hr Hm.
  destruct (vrows_of_in _ _ _ Hr) as [Hin Hid]. subst id.
  unfold tclosed_b in H. rewrite forallb_forall in H. specialize (H r Hin).
  apply andb_true_iff in H. destruct H as [HR HW]. unfold vrow_touch in HR, HW.
  destruct c; [rewrite Hm in HR; exact HR|rewrite Hm in HW; exact HW].
Qed.

Lemma key_inj : forall i c j d, key i c = key j d -> i = j /\ c = d.
Proof. intros i c j d H. destruct c, d; simpl in H; inversion H; auto. Qed.

Lemma gconsistent_sound : forall ok t S,
    gconsistent_b ok t S = true ->
    forall id c, inset S id c = true -> exists r, vrows_of t id = Some r /\ ok S r c = true.
Proof.
  intros ok t S H id c Hs. unfold gconsistent_b in H. apply andb_true_iff in H. destruct H as [H1 H2].
  apply PositiveSet.for_all_2 in H2; [|intros x y ->; reflexivity].
  assert (Hin : PositiveSet.In (key id c) S) by (apply PositiveSet.mem_2; exact Hs).
  specialize (H2 _ Hin). simpl in H2.
  destruct (vrows_of t id) as [r|] eqn:Er.
  - exists r. split; [reflexivity|]. destruct (vrows_of_in _ _ _ Er) as [Hi Hid].
    rewrite forallb_forall in H1. specialize (H1 r Hi). rewrite Hid in H1.
    apply andb_true_iff in H1. destruct H1 as [HR HW].
    destruct c; [rewrite Hs in HR; exact HR|rewrite Hs in HW; exact HW].
  - exfalso. apply existsb_exists in H2. destruct H2 as [r [Hi He]].
    apply orb_true_iff in He.
    assert (Hv : vid r = id).
    { destruct He as [He|He]; apply Pos.eqb_eq in He;
        [change ((vid r)~0)%positive with (key (vid r) CR) in He|change ((vid r)~1)%positive with (key (vid r) CW) in He];
        apply key_inj in He; destruct He; assumption. }
    unfold vrows_of in Er. eapply find_none in Er; [|exact Hi]. rewrite Hv, Pos.eqb_refl in Er. discriminate.
Qed.

Section Table.
  Variable t : list vrow.
  Variable a : vanalysis.
  Hypothesis Hok : van_ok t a = true.
  Let pf := fun i => PositiveSet.mem i (va_prim a).
  Let bf := fun i => PositiveSet.mem i (va_benign a).

  Lemma van_parts :
    tclosed_b pf bf t (va_T a) = true /\
    gconsistent_b (c_ok pf bf (va_T a)) t (va_C a) = true /\
    gconsistent_b (v_ok pf bf (va_T a) (va_C a)) t (va_V a) = true /\
    gconsistent_b ns_ok t (va_NS a) = true.
  Proof.
    pose proof Hok as H. unfold van_ok in H. fold pf bf in H.
    apply andb_true_iff in H. destruct H as [H H4]. apply andb_true_iff in H. destruct H as [H H3].
    apply andb_true_iff in H. destruct H as [H1 H2]. repeat split; assumption.
  Qed.

  (* a function outside T changes nothing; a function of V that returns at a failing validation, and a function of C
     that fails, has changed nothing *)
  Theorem table_clean : forall fuel c id o x r x' o',
      run (vrows_of t) pf bf fuel c id o x = (r, x', o') ->
      (inset (va_T a) id c = false -> vsame x x') /\
      (inset (va_C a) id c = true -> is_fail r = true -> vsame x x') /\
      (inset (va_V a) id c = true -> r = RINV -> vsame x x').
  Proof.
    destruct van_parts as [HT [HC [HV _]]].
    intros fuel c id o x r x' o' Hr.
    eapply (run_clean (vrows_of t) pf bf (inset (va_T a)) (inset (va_C a)) (inset (va_V a))); [| | |exact Hr].
    - intros id0 r0 c0. eapply tclosed_b_sound; exact HT.
    - intros id0 c0 H0. destruct (gconsistent_sound _ _ _ HC _ _ H0) as [r0 [H1 H2]]. exists r0. split; assumption.
    - intros id0 c0 H0. destruct (gconsistent_sound _ _ _ HV _ _ H0) as [r0 [H1 H2]]. exists r0. split; assumption.
  Qed.

  Theorem table_noisy : forall fuel c id o x r x' o',
      inset (va_NS a) id c = true ->
      run (vrows_of t) pf bf fuel c id o x = (r, x', o') -> is_fail r = true -> v_err x' = true.
  Proof.
    destruct van_parts as [_ [_ [_ HN]]].
    intros fuel c id o x r x' o' Hn Hr Hf.
    eapply (run_noisy (vrows_of t) pf bf (inset (va_NS a))); [|exact Hn|exact Hr|exact Hf].
    intros id0 c0 H0. destruct (gconsistent_sound _ _ _ HN _ _ H0) as [r0 [H1 H2]]. exists r0. split; assumption.
  Qed.
End Table.
