(* ValidateProofs.v -- proofs about the structured skeleton machine of Validate.v (property C12).

   Generic part (ANY table, ANY sets passing the kernel-evaluated closedness / consistency checks, ANY state, oracle, fuel):
     run_pure        a function outside a closed "may touch" set leaves file and tree unchanged;
     run_clean       a function in V that returns at a failing validation (RINV), and a function in C that fails at all,
                     has changed neither file nor tree                                     (validation before effect);
     run_guarded     if every argument check of a body is tested at once and its failing arm always returns a failure, then
                     a run in which such a check fails does not return success              (failing checks return failures);
     run_noisy       a function in NS that returns a failure has recorded an error message   (error message non-empty);
     getter_run_*    the canonical index getter accepts exactly 1..count and returns element i-1 of ANY array of that length.
   Table part: the boolean checks of Validate.v imply the hypotheses of the generic theorems. *)
From Coq Require Import List String Bool PArith ZArith Lia FSetPositive.
From CgnsV Require Import Gates GatesProofs Validate.
Import ListNotations.

Definition vsame (x x' : vst) : Prop := v_file x' = v_file x /\ v_mir x' = v_mir x.
Lemma vsame_refl : forall x, vsame x x. Proof. intros; split; reflexivity. Qed.
Lemma vsame_trans : forall a b c, vsame a b -> vsame b c -> vsame a c.
Proof. intros a b c [H1 H2] [H3 H4]; split; congruence. Qed.
Lemma vsame_err : forall x, vsame x (vset_err x). Proof. intros; split; reflexivity. Qed.
Lemma vsame_vf : forall x b, vsame x (vset_vf x b). Proof. intros; split; reflexivity. Qed.
Lemma vsame_vf_r : forall x y b, vsame x y -> vsame x (vset_vf y b).
Proof. intros x y b [H1 H2]; split; assumption. Qed.

Lemma is_fail_adjust : forall a r, is_fail (adjust a r) = true -> is_fail r = true.
Proof. intros a r; destruct a as [v i l1 l2 [|]|a0 i l1 l2 [|]| | |]; destruct r; simpl; auto. Qed.
Lemma adjust_inv : forall a r, adjust a r = RINV -> r = RINV.
Proof. intros a r; destruct a as [v i l1 l2 [|]|a0 i l1 l2 [|]| | |]; destruct r; simpl; congruence. Qed.
Lemma adjust_ok : forall a r, adjust a r = ROK -> r = ROK.
Proof. intros a r; destruct a as [v i l1 l2 [|]|a0 i l1 l2 [|]| | |]; destruct r; simpl; congruence. Qed.

(* ------------------------------------------------------------------------------------------------ loops *)
(* P: holds at the start of every iteration; Q: what the loop guarantees when it is left (oracle says stop, or `break`);
   R: what a returning body guarantees *)
Lemma loop_inv : forall (P Q : vst -> Prop) (R : res -> vst -> Prop) body,
    (forall x, P x -> Q x) ->
    (forall x, P x -> R RFUEL x) ->
    (forall o x out x' o', P x -> body o x = (out, x', o') ->
                           match out with Fall => P x' | Brk => Q x' | Ret r => R r x' end) ->
    forall n o x out x' o', P x -> loop n body o x = (out, x', o') ->
                            match out with Fall => Q x' | Brk => False | Ret r => R r x' end.
Proof.
  intros P Q R body HPQ HRF Hb. induction n as [|n IH]; intros o x out x' o' HP HL; simpl in HL.
  - inversion HL; subst. apply HRF; assumption.
  - destruct (pop o) as [go o1]. destruct go; simpl in HL.
    + destruct (body o1 x) as [[ob xb] o2] eqn:Eb. pose proof (Hb _ _ _ _ _ HP Eb) as Hx.
      destruct ob.
      * eapply IH; eauto.
      * inversion HL; subst. exact Hx.
      * inversion HL; subst. exact Hx.
    + inversion HL; subst. apply HPQ; assumption.
Qed.

(* ------------------------------------------------------------------------------------------------ purity *)
Section Pure.
  Variable rows : positive -> option vrow.
  Variable prim benign : positive -> bool.
  Variable T : positive -> ctx -> bool.
  Hypothesis Hclosed : forall id r c, rows id = Some r -> may_touch prim benign T c (vbody r) = true -> T id c = true.

  Section ExecPure.
    Variable call : ctx -> positive -> list bool -> vst -> res * vst * list bool.
    Variable lf : nat.
    Variable c : ctx.
    Hypothesis Hcall : forall c' id o x r x' o', T id c' = false -> call c' id o x = (r, x', o') -> vsame x x'.

    Lemma do_callee_pure : forall i a0 o x r x1 o1,
        prim i = false -> T i (tgt a0 c) = false ->
        do_callee rows prim call c i a0 o x = (r, x1, o1) -> vsame x x1.
    Proof.
      intros i a0 o x r x1 o1 Hp Ht Hd. unfold do_callee in Hd. rewrite Hp in Hd.
      destruct (rows i).
      - destruct (call (tgt a0 c) i o x) as [[r2 x2] o2] eqn:Ec. inversion Hd; subst.
        apply vsame_vf_r. eapply Hcall; eauto.
      - destruct (pop o) as [b o2]. inversion Hd; subst. apply vsame_refl.
    Qed.

    Lemma act_status_pure : forall a o x r x1 o1,
        match act_callee a with Some (i, a0) => callee_touch prim T c i a0 = false | None => True end ->
        act_status rows prim call c a o x = (r, x1, o1) -> vsame x x1.
    Proof.
      intros a o x r x1 o1 Hc He. unfold act_status in He. destruct (act_callee a) as [[i a0]|].
      - unfold callee_touch in Hc. apply orb_false_iff in Hc. destruct Hc. eapply do_callee_pure; eauto.
      - destruct (pop o) as [b o3]. inversion He; subst. apply vsame_refl.
    Qed.

    Lemma do_act_pure : forall a o x r x1 o1,
        touch_act prim benign T c a = false ->
        do_act rows prim benign call c a o x = (r, x1, o1) -> vsame x x1.
    Proof.
      intros a o x r x1 o1 Ht Hd. unfold touch_act in Ht. unfold do_act in Hd.
      destruct a as [v i l1 l2 fr|a0 i l1 l2 mi|m| |].
      - destruct (act_status rows prim call c (ACheck v i l1 l2 fr) o x) as [[r0 x2] o2] eqn:E.
        assert (Hs : vsame x x2) by (eapply act_status_pure; [|exact E]; destruct (act_callee (ACheck v i l1 l2 fr)) as [[? ?]|]; [exact Ht|exact I]).
        inversion Hd; subst.
        match goal with |- vsame _ (if ?bb then _ else _) => destruct bb end; [apply vsame_vf_r|]; exact Hs.
      - destruct (act_status rows prim call c (ACall a0 i l1 l2 mi) o x) as [[r0 x2] o2] eqn:E.
        assert (Hs : vsame x x2) by (eapply act_status_pure; [|exact E]; destruct (act_callee (ACall a0 i l1 l2 mi)) as [[? ?]|]; [exact Ht|exact I]).
        inversion Hd; subst. simpl. exact Hs.
      - apply negb_false_iff in Ht. rewrite Ht in Hd. inversion Hd; subst. apply vsame_refl.
      - inversion Hd; subst. apply vsame_err.
      - discriminate.
    Qed.

    Lemma exec_pure : forall q g o x out x' o',
        may_touch prim benign T c q = false ->
        exec rows prim benign call lf c q g o x = (out, x', o') -> vsame x x'.
    Proof.
      induction q as [|r| |a k IHk|a t IHt e IHe k IHk|t IHt e IHe k IHk|t IHt e IHe k IHk|b IHb k IHk];
        intros g o x out x' o' Hm Hx; simpl in Hx, Hm.
      - inversion Hx; subst; apply vsame_refl.
      - unfold do_ret in Hx. destruct r; try (inversion Hx; subst; apply vsame_refl).
        destruct g; [inversion Hx; subst; apply vsame_refl|].
        destruct (pop o) as [b o1]; inversion Hx; subst; apply vsame_refl.
      - inversion Hx; subst; apply vsame_refl.
      - apply orb_false_iff in Hm. destruct Hm as [Ha Hk].
        destruct (do_act rows prim benign call c a o x) as [[r x1] o1] eqn:Ed.
        pose proof (do_act_pure _ _ _ _ _ _ Ha Ed) as Hs.
        destruct r; [eapply vsame_trans; [exact Hs|eapply IHk; eauto]|eapply vsame_trans; [exact Hs|eapply IHk; eauto]|
                     eapply vsame_trans; [exact Hs|eapply IHk; eauto]|inversion Hx; subst; exact Hs].
      - repeat (apply orb_false_iff in Hm; destruct Hm as [Hm ?]).
        destruct (do_act rows prim benign call c a o x) as [[r x1] o1] eqn:Ed.
        pose proof (do_act_pure _ _ _ _ _ _ Hm Ed) as Hs.
        assert (Harm : forall q0 g0, may_touch prim benign T c q0 = false ->
                                     (forall g o x out x' o', may_touch prim benign T c q0 = false ->
                                          exec rows prim benign call lf c q0 g o x = (out, x', o') -> vsame x x') ->
                     match exec rows prim benign call lf c q0 g0 o1 x1 with
                     | (Fall, x2, o2) => exec rows prim benign call lf c k g o2 x2
                     | z => z end = (out, x', o') -> vsame x x').
        { intros q0 g0 Hq0 IH0 Hy. destruct (exec rows prim benign call lf c q0 g0 o1 x1) as [[oa xa] oa'] eqn:Ea.
          pose proof (IH0 _ _ _ _ _ _ Hq0 Ea) as Hsa.
          destruct oa.
          - eapply vsame_trans; [exact Hs|eapply vsame_trans; [exact Hsa|eapply IHk; eauto]].
          - inversion Hy; subst. eapply vsame_trans; eauto.
          - inversion Hy; subst. eapply vsame_trans; eauto. }
        destruct r.
        + eapply (Harm e g); eauto.
        + eapply (Harm t); eauto.
        + eapply (Harm t); eauto.
        + inversion Hx; subst; exact Hs.
      - repeat (apply orb_false_iff in Hm; destruct Hm as [Hm ?]).
        destruct (pop o) as [b o1].
        destruct b.
        + destruct (exec rows prim benign call lf c t g o1 x) as [[oa xa] oa'] eqn:Ea.
          pose proof (IHt _ _ _ _ _ _ Hm Ea) as Hsa.
          destruct oa; [eapply vsame_trans; [exact Hsa|eapply IHk; eauto]|inversion Hx; subst; exact Hsa|inversion Hx; subst; exact Hsa].
        + destruct (exec rows prim benign call lf c e g o1 x) as [[oa xa] oa'] eqn:Ea.
          pose proof (IHe _ _ _ _ _ _ H0 Ea) as Hsa.
          destruct oa; [eapply vsame_trans; [exact Hsa|eapply IHk; eauto]|inversion Hx; subst; exact Hsa|inversion Hx; subst; exact Hsa].
      - apply orb_false_iff in Hm. destruct Hm as [Harm Hk].
        destruct (is_CR c).
        + destruct (exec rows prim benign call lf c e g o x) as [[oa xa] oa'] eqn:Ea.
          pose proof (IHe _ _ _ _ _ _ Harm Ea) as Hsa.
          destruct oa; [eapply vsame_trans; [exact Hsa|eapply IHk; eauto]|inversion Hx; subst; exact Hsa|inversion Hx; subst; exact Hsa].
        + destruct (exec rows prim benign call lf c t g o x) as [[oa xa] oa'] eqn:Ea.
          pose proof (IHt _ _ _ _ _ _ Harm Ea) as Hsa.
          destruct oa; [eapply vsame_trans; [exact Hsa|eapply IHk; eauto]|inversion Hx; subst; exact Hsa|inversion Hx; subst; exact Hsa].
      - apply orb_false_iff in Hm. destruct Hm as [Hb Hk].
        destruct (loop lf (fun o' x'0 => exec rows prim benign call lf c b g o' x'0) o x) as [[oa xa] oa'] eqn:El.
        assert (Hl : match oa with Fall => vsame x xa | Brk => False | Ret _ => vsame x xa end).
        { eapply (loop_inv (fun y => vsame x y) (fun y => vsame x y) (fun _ y => vsame x y)); [auto| | |apply vsame_refl|exact El].
          - auto.
          - intros o0 y ob y' o0' Hy Hbd. pose proof (IHb _ _ _ _ _ _ Hb Hbd) as Hs.
            destruct ob; eapply vsame_trans; eauto. }
        destruct oa; [eapply vsame_trans; [exact Hl|eapply IHk; eauto]|destruct Hl|inversion Hx; subst; exact Hl].
    Qed.
  End ExecPure.

  Lemma run_pure : forall fuel c id o x r x' o',
      T id c = false -> run rows prim benign fuel c id o x = (r, x', o') -> vsame x x'.
  Proof.
    induction fuel as [|n IH]; intros c id o x r x' o' Ht Hr; simpl in Hr.
    - inversion Hr; subst; apply vsame_refl.
    - destruct (rows id) as [r0|] eqn:Er.
      + destruct (exec rows prim benign (run rows prim benign n) n c (vbody r0) false o x) as [[oa xa] oa'] eqn:Ex.
        assert (Hs : vsame x xa).
        { eapply (exec_pure (run rows prim benign n) n c); [intros; eapply IH; eauto| |exact Ex].
          destruct (may_touch prim benign T c (vbody r0)) eqn:Em; [|reflexivity].
          rewrite (Hclosed id r0 c Er Em) in Ht. discriminate. }
        destruct oa; inversion Hr; subst; exact Hs.
      + inversion Hr; subst; apply vsame_refl.
  Qed.
End Pure.

(* ------------------------------------------------------------------------------------------------ validation before effect *)
Section Clean.
  Variable rows : positive -> option vrow.
  Variable prim benign : positive -> bool.
  Variable T : positive -> ctx -> bool.
  Variable Cs Vs : positive -> ctx -> bool.      (* fail-clean / validation-clean callees *)

  Section ExecClean.
    Variable call : ctx -> positive -> list bool -> vst -> res * vst * list bool.
    Variable lf : nat.
    Variable c : ctx.
    Variable allf : bool.
    Hypothesis HcT : forall c' id o x r x' o', T id c' = false -> call c' id o x = (r, x', o') -> vsame x x'.
    Hypothesis HcC : forall c' id o x r x' o', Cs id c' = true -> call c' id o x = (r, x', o') -> is_fail r = true -> vsame x x'.
    Hypothesis HcV : forall c' id o x x' o', Vs id c' = true -> call c' id o x = (RINV, x', o') -> vsame x x'.

    (* the act failed and is fail-clean: nothing was touched *)
    Lemma act_status_fail_clean : forall a o x r x1 o1,
        fail_clean prim T Cs c a = true ->
        act_status rows prim call c a o x = (r, x1, o1) -> is_fail r = true -> vsame x x1.
    Proof.
      intros a o x r x1 o1 Hf He Hr. unfold fail_clean in Hf. unfold act_status in He.
      destruct (act_callee a) as [[i a0]|].
      - apply andb_true_iff in Hf. destruct Hf as [Hp Hf]. apply negb_true_iff in Hp.
        unfold do_callee in He. rewrite Hp in He. destruct (rows i).
        + destruct (call (tgt a0 c) i o x) as [[r2 x2] o2] eqn:Ec. inversion He; subst.
          apply vsame_vf_r. apply orb_true_iff in Hf. destruct Hf as [Hf|Hf].
          * apply negb_true_iff in Hf. eapply HcT; eauto.
          * eapply HcC; eauto.
        + destruct (pop o) as [b o2]. inversion He; subst. apply vsame_refl.
      - destruct (pop o) as [b o2]. inversion He; subst. apply vsame_refl.
    Qed.

    Lemma act_status_inv_clean : forall a o x x1 o1,
        inv_clean prim T Vs c a = true ->
        act_status rows prim call c a o x = (RINV, x1, o1) -> vsame x x1.
    Proof.
      intros a o x x1 o1 Hf He. unfold inv_clean in Hf. unfold act_status in He.
      destruct (act_callee a) as [[i a0]|].
      - apply andb_true_iff in Hf. destruct Hf as [Hp Hf]. apply negb_true_iff in Hp.
        unfold do_callee in He. rewrite Hp in He. destruct (rows i).
        + destruct (call (tgt a0 c) i o x) as [[r2 x2] o2] eqn:Ec. inversion He; subst.
          apply vsame_vf_r. apply orb_true_iff in Hf. destruct Hf as [Hf|Hf].
          * apply negb_true_iff in Hf. eapply HcT; eauto.
          * eapply HcV; eauto.
        + destruct (pop o) as [b o2]. destruct b; inversion He.
      - destruct (pop o) as [b o2]. destruct b; inversion He.
    Qed.

    (* what a result promises about the state, relative to the state x0 the function was entered with *)
    Definition rprom (x0 : vst) (r : res) (x' : vst) : Prop :=
      match r with
      | RINV => vsame x0 x'
      | RERR => allf = true -> vsame x0 x'
      | _ => True
      end.
    Definition oprom (x0 : vst) (sres : bool * bool) (o : out) (x' : vst) : Prop :=
      match o with
      | Fall => fst sres = false -> vsame x0 x'
      | Brk => snd sres = false -> vsame x0 x'
      | Ret r => rprom x0 r x'
      end.

    Lemma oprom_then : forall x0 (sa sk : bool * bool) oa xa,
        oprom x0 sa oa xa -> oa <> Fall -> oprom x0 (fst sk, snd sa || snd sk) oa xa.
    Proof.
      intros x0 sa sk oa xa H Hn. destruct oa; simpl in *; [congruence| |exact H].
      intros Hb. apply orb_false_iff in Hb. destruct Hb. auto.
    Qed.
    Lemma oprom_k : forall x0 (sa sk : bool * bool) ok xk,
        oprom x0 sk ok xk -> oprom x0 (fst sk, snd sa || snd sk) ok xk.
    Proof.
      intros x0 sa sk ok xk H. destruct ok; simpl in *; [exact H| |exact H].
      intros Hb. apply orb_false_iff in Hb. destruct Hb. auto.
    Qed.
    Lemma oprom_join_l : forall x0 s1 s2 o x, oprom x0 s1 o x -> oprom x0 (join2 s1 s2) o x.
    Proof.
      intros x0 s1 s2 o x H. destruct o; simpl in *; [| |exact H]; intros Hb; apply orb_false_iff in Hb; destruct Hb; auto.
    Qed.
    Lemma oprom_join_r : forall x0 s1 s2 o x, oprom x0 s2 o x -> oprom x0 (join2 s1 s2) o x.
    Proof.
      intros x0 s1 s2 o x H. destruct o; simpl in *; [| |exact H]; intros Hb; apply orb_false_iff in Hb; destruct Hb; auto.
    Qed.

    Notation EX := (exec rows prim benign call lf c).
    Notation VS := (vscan prim benign T Cs Vs allf c).

    Lemma exec_vscan : forall q g seen sres o x out x' o' x0,
        VS q g seen = Some sres ->
        EX q g o x = (out, x', o') ->
        (seen = false -> vsame x0 x) ->
        oprom x0 sres out x'.
    Proof.
      induction q as [|r| |a k IHk|a t IHt e IHe k IHk|t IHt e IHe k IHk|t IHt e IHe k IHk|b IHb k IHk];
        intros g seen sres o x out x' o' x0 Hv Hx Hinv; simpl in Hv, Hx.
      - (* QEnd *) inversion Hv; subst. inversion Hx; subst. simpl. exact Hinv.
      - (* QRet *)
        destruct (failing r && (g || allf) && seen) eqn:Ef; [discriminate|]. inversion Hv; subst.
        unfold do_ret in Hx.
        destruct r; try (inversion Hx; subst; simpl; exact I).
        + (* RErr *) inversion Hx; subst out x' o'. clear Hx. destruct g; simpl.
          * apply Hinv. simpl in Ef. exact Ef.
          * intros Ha. apply Hinv. rewrite Ha in Ef. simpl in Ef. exact Ef.
        + (* RVar *) destruct g.
          * inversion Hx; subst out x' o'. simpl. apply Hinv. simpl in Ef. exact Ef.
          * destruct (pop o) as [bb o1]. inversion Hx; subst out x' o'. destruct bb; simpl; [|exact I].
            intros Ha. apply Hinv. rewrite Ha in Ef. simpl in Ef. exact Ef.
      - (* QBrk *) inversion Hv; subst. inversion Hx; subst. simpl. exact Hinv.
      - (* QAct *)
        destruct (do_act rows prim benign call c a o x) as [[r x1] o1] eqn:Ed.
        assert (Hinv1 : seen || touch_act prim benign T c a = false -> vsame x0 x1).
        { intros Hb. apply orb_false_iff in Hb. destruct Hb as [Hs Ht].
          eapply vsame_trans; [apply Hinv; exact Hs|eapply (do_act_pure rows prim benign T call c HcT); eauto]. }
        destruct r; [eapply IHk; eauto|eapply IHk; eauto|eapply IHk; eauto|inversion Hx; subst; simpl; exact I].
      - (* QIfFail *)
        set (tch := touch_act prim benign T c a) in *.
        destruct (match a with
                  | ACall _ _ _ _ mi =>
                    obind (if mi then VS t true (seen || (tch && negb (inv_clean prim T Vs c a))) else Some (false, false)) (fun s1 =>
                    obind (VS t false (seen || (tch && negb (fail_clean prim T Cs c a)))) (fun s2 => Some (join2 s1 s2)))
                  | ACheck _ _ _ _ false => Some (false, false)
                  | _ => VS t (is_counted_check a) (seen || (tch && negb (fail_clean prim T Cs c a)))
                  end) as [s1|] eqn:Era; [|discriminate].
        simpl in Hv.
        destruct (VS e g (seen || tch)) as [s2|] eqn:Ee; [|discriminate]. simpl in Hv.
        unfold then2 in Hv. destruct (VS k g (fst (join2 s1 s2))) as [sk|] eqn:Ek; [|discriminate].
        simpl in Hv. inversion Hv; subst sres. clear Hv.
        destruct (do_act rows prim benign call c a o x) as [[r x1] o1] eqn:Ed.
        (* the continuation after an arm *)
        assert (Hcont : forall (sa : bool * bool) oa xa oa',
                   oprom x0 sa oa xa ->
                   (sa = s1 \/ sa = s2) ->
                   match oa with (Fall) => EX k g oa' xa | _ => (oa, xa, oa') end = (out, x', o') ->
                   oprom x0 (fst sk, snd (join2 s1 s2) || snd sk) out x').
        { intros sa oa xa oa' Hp Hsa Hy.
          assert (Hj : oprom x0 (join2 s1 s2) oa xa) by (destruct Hsa; subst sa; [apply oprom_join_l|apply oprom_join_r]; exact Hp).
          destruct oa.
          - apply oprom_k. eapply IHk; [exact Ek|exact Hy|]. exact Hj.
          - inversion Hy; subst. apply oprom_then; [exact Hj|discriminate].
          - inversion Hy; subst. apply oprom_then; [exact Hj|discriminate]. }
        destruct r.
        + (* the act succeeded *)
          destruct (EX e g o1 x1) as [[oa xa] oa'] eqn:Ea.
          eapply (Hcont s2); [| right; reflexivity | exact Hx].
          eapply IHe; [exact Ee|exact Ea|].
          intros Hb. apply orb_false_iff in Hb. destruct Hb as [Hs Ht].
          eapply vsame_trans; [apply Hinv; exact Hs|eapply (do_act_pure rows prim benign T call c HcT); eauto].
        + (* the act failed (RERR) *)
          destruct (EX t (arm_guard a RERR) o1 x1) as [[oa xa] oa'] eqn:Ea.
          unfold do_act in Ed.
          destruct a as [v i l1 l2 fr|a0 i l1 l2 mi|m| |]; try (inversion Ed; fail).
          * destruct (act_status rows prim call c (ACheck v i l1 l2 fr) o x) as [[r0 x2] o2] eqn:Es.
            destruct fr; [|destruct r0; simpl in Ed; inversion Ed].
            simpl in Ed. inversion Ed; subst r0 o2. clear Ed.
            eapply (Hcont s1); [| left; reflexivity | exact Hx].
            eapply IHt; [exact Era|exact Ea|].
            intros Hb. apply orb_false_iff in Hb. destruct Hb as [Hs Ht].
            assert (Hx2 : vsame x x2).
            { apply andb_false_iff in Ht. destruct Ht as [Ht|Ht].
              - eapply (act_status_pure rows prim T call c HcT); [|exact Es]. unfold tch, touch_act in Ht.
                destruct (act_callee (ACheck v i l1 l2 true)) as [[? ?]|]; [exact Ht|exact I].
              - apply negb_false_iff in Ht. eapply act_status_fail_clean; [exact Ht|exact Es|reflexivity]. }
            subst x1. eapply vsame_trans; [apply Hinv; exact Hs|].
            match goal with |- vsame _ (if ?bb then _ else _) => destruct bb end; [apply vsame_vf_r|]; exact Hx2.
          * destruct (act_status rows prim call c (ACall a0 i l1 l2 mi) o x) as [[r0 x2] o2] eqn:Es.
            simpl in Ed. inversion Ed; subst x1 o2. clear Ed.
            simpl in Era.
            destruct (if mi then VS t true (seen || (tch && negb (inv_clean prim T Vs c (ACall a0 i l1 l2 mi)))) else Some (false, false)) as [sa1|] eqn:E1; [|discriminate].
            simpl in Era.
            destruct (VS t false (seen || (tch && negb (fail_clean prim T Cs c (ACall a0 i l1 l2 mi))))) as [sa2|] eqn:E2; [|discriminate].
            simpl in Era. inversion Era; subst s1. clear Era.
            eapply (Hcont (join2 sa1 sa2)); [| left; reflexivity | exact Hx].
            apply oprom_join_r.
            simpl in Ea.
            assert (Hr0 : is_fail r0 = true) by (apply (is_fail_adjust (ACall a0 i l1 l2 mi)); rewrite H0; reflexivity).
            eapply IHt; [exact E2|exact Ea|].
            intros Hb. apply orb_false_iff in Hb. destruct Hb as [Hs Ht].
            eapply vsame_trans; [apply Hinv; exact Hs|].
            apply andb_false_iff in Ht. destruct Ht as [Ht|Ht].
            -- eapply (act_status_pure rows prim T call c HcT); [|exact Es]. unfold tch, touch_act in Ht.
               destruct (act_callee (ACall a0 i l1 l2 mi)) as [[? ?]|]; [exact Ht|exact I].
            -- apply negb_false_iff in Ht. eapply act_status_fail_clean; [exact Ht|exact Es|exact Hr0].
        + (* the act failed with RINV *)
          destruct (EX t (arm_guard a RINV) o1 x1) as [[oa xa] oa'] eqn:Ea.
          unfold do_act in Ed.
          destruct a as [v i l1 l2 fr|a0 i l1 l2 mi|m| |]; try (inversion Ed; fail).
          * destruct (act_status rows prim call c (ACheck v i l1 l2 fr) o x) as [[r0 x2] o2] eqn:Es.
            destruct fr; [|destruct r0; simpl in Ed; inversion Ed].
            simpl in Ed. inversion Ed; subst r0 o2. clear Ed.
            eapply (Hcont s1); [| left; reflexivity | exact Hx].
            eapply IHt; [exact Era|exact Ea|].
            intros Hb. apply orb_false_iff in Hb. destruct Hb as [Hs Ht].
            assert (Hx2 : vsame x x2).
            { apply andb_false_iff in Ht. destruct Ht as [Ht|Ht].
              - eapply (act_status_pure rows prim T call c HcT); [|exact Es]. unfold tch, touch_act in Ht.
                destruct (act_callee (ACheck v i l1 l2 true)) as [[? ?]|]; [exact Ht|exact I].
              - apply negb_false_iff in Ht. eapply act_status_fail_clean; [exact Ht|exact Es|reflexivity]. }
            subst x1. eapply vsame_trans; [apply Hinv; exact Hs|].
            match goal with |- vsame _ (if ?bb then _ else _) => destruct bb end; [apply vsame_vf_r|]; exact Hx2.
          * destruct (act_status rows prim call c (ACall a0 i l1 l2 mi) o x) as [[r0 x2] o2] eqn:Es.
            simpl in Ed. inversion Ed; subst x1 o2. clear Ed.
            assert (Hr0 : r0 = RINV) by (apply (adjust_inv (ACall a0 i l1 l2 mi)); exact H0).
            subst r0.
            destruct mi; [|simpl in H0; discriminate].
            simpl in Era.
            destruct (VS t true (seen || (tch && negb (inv_clean prim T Vs c (ACall a0 i l1 l2 true))))) as [sa1|] eqn:E1; [|discriminate].
            simpl in Era.
            destruct (VS t false (seen || (tch && negb (fail_clean prim T Cs c (ACall a0 i l1 l2 true))))) as [sa2|] eqn:E2; [|discriminate].
            simpl in Era. inversion Era; subst s1. clear Era.
            eapply (Hcont (join2 sa1 sa2)); [| left; reflexivity | exact Hx].
            apply oprom_join_l.
            simpl in Ea.
            eapply IHt; [exact E1|exact Ea|].
            intros Hb. apply orb_false_iff in Hb. destruct Hb as [Hs Ht].
            eapply vsame_trans; [apply Hinv; exact Hs|].
            apply andb_false_iff in Ht. destruct Ht as [Ht|Ht].
            -- eapply (act_status_pure rows prim T call c HcT); [|exact Es]. unfold tch, touch_act in Ht.
               destruct (act_callee (ACall a0 i l1 l2 true)) as [[? ?]|]; [exact Ht|exact I].
            -- apply negb_false_iff in Ht. eapply act_status_inv_clean; [exact Ht|exact Es].
        + (* out of fuel / excluded *) inversion Hx; subst. simpl. exact I.
      - (* QIf *)
        destruct (VS t g seen) as [s1|] eqn:Et; [|discriminate]. simpl in Hv.
        destruct (VS e g seen) as [s2|] eqn:Ee; [|discriminate]. simpl in Hv.
        unfold then2 in Hv. destruct (VS k g (fst (join2 s1 s2))) as [sk|] eqn:Ek; [|discriminate].
        simpl in Hv. inversion Hv; subst sres. clear Hv.
        destruct (pop o) as [bb o1].
        assert (Hcont : forall (sa : bool * bool) oa xa oa',
                   oprom x0 sa oa xa -> (sa = s1 \/ sa = s2) ->
                   match oa with (Fall) => EX k g oa' xa | _ => (oa, xa, oa') end = (out, x', o') ->
                   oprom x0 (fst sk, snd (join2 s1 s2) || snd sk) out x').
        { intros sa oa xa oa' Hp Hsa Hy.
          assert (Hj : oprom x0 (join2 s1 s2) oa xa) by (destruct Hsa; subst sa; [apply oprom_join_l|apply oprom_join_r]; exact Hp).
          destruct oa.
          - apply oprom_k. eapply IHk; [exact Ek|exact Hy|]. exact Hj.
          - inversion Hy; subst. apply oprom_then; [exact Hj|discriminate].
          - inversion Hy; subst. apply oprom_then; [exact Hj|discriminate]. }
        destruct bb.
        + destruct (EX t g o1 x) as [[oa xa] oa'] eqn:Ea.
          eapply (Hcont s1); [| left; reflexivity | exact Hx]. eapply IHt; eauto.
        + destruct (EX e g o1 x) as [[oa xa] oa'] eqn:Ea.
          eapply (Hcont s2); [| right; reflexivity | exact Hx]. eapply IHe; eauto.
      - (* QIfLM *)
        destruct (if is_CR c then VS e g seen else VS t g seen) as [s1|] eqn:Ea1; [|discriminate]. simpl in Hv.
        unfold then2 in Hv. destruct (VS k g (fst s1)) as [sk|] eqn:Ek; [|discriminate].
        simpl in Hv. inversion Hv; subst sres. clear Hv.
        assert (Hcont : forall oa xa oa',
                   oprom x0 s1 oa xa ->
                   match oa with (Fall) => EX k g oa' xa | _ => (oa, xa, oa') end = (out, x', o') ->
                   oprom x0 (fst sk, snd s1 || snd sk) out x').
        { intros oa xa oa' Hp Hy. destruct oa.
          - apply oprom_k. eapply IHk; [exact Ek|exact Hy|]. exact Hp.
          - inversion Hy; subst. apply oprom_then; [exact Hp|discriminate].
          - inversion Hy; subst. apply oprom_then; [exact Hp|discriminate]. }
        destruct (is_CR c).
        + destruct (EX e g o x) as [[oa xa] oa'] eqn:Ea. eapply Hcont; [|exact Hx]. eapply IHe; eauto.
        + destruct (EX t g o x) as [[oa xa] oa'] eqn:Ea. eapply Hcont; [|exact Hx]. eapply IHt; eauto.
      - (* QLoop *)
        destruct (VS b g seen) as [r1|] eqn:Eb; [|discriminate]. simpl in Hv.
        destruct (loop lf (fun o'0 x'0 => EX b g o'0 x'0) o x) as [[oa xa] oa'] eqn:El.
        destruct (implb (fst r1) seen) eqn:Ei.
        + (* every iteration starts like the first *)
          assert (Hl : match oa with Fall => (seen || snd r1 = false -> vsame x0 xa) | Brk => False | Ret r => rprom x0 r xa end).
          { eapply (loop_inv (fun y => seen = false -> vsame x0 y) (fun y => seen || snd r1 = false -> vsame x0 y)
                             (fun r y => rprom x0 r y)); [| | |exact Hinv|exact El].
            - intros y Hy Hb. apply orb_false_iff in Hb. destruct Hb. auto.
            - intros y Hy. simpl. exact I.
            - intros o0 y ob y' o0' Hy Hbd. pose proof (IHb _ _ _ _ _ _ _ _ x0 Eb Hbd Hy) as Hp.
              destruct ob; simpl in Hp.
              + intros Hs. apply Hp. destruct (fst r1); [rewrite Hs in Ei; discriminate|reflexivity].
              + intros Hb2. apply orb_false_iff in Hb2. destruct Hb2. auto.
              + exact Hp. }
          destruct oa.
          * eapply IHk; [exact Hv|exact Hx|exact Hl].
          * destruct Hl.
          * inversion Hx; subst. simpl. exact Hl.
        + (* a later iteration may start with something touched *)
          destruct seen; [destruct (fst r1); discriminate|].
          destruct (VS b g true) as [r2|] eqn:Eb2; [|discriminate]. simpl in Hv.
          assert (Hrest : forall n o y oa xa oa',
                     loop n (fun o'0 x'0 => EX b g o'0 x'0) o y = (oa, xa, oa') ->
                     match oa with Fall => True | Brk => False | Ret r => rprom x0 r xa end).
          { intros n o2 y ob yb ob' Hl2.
            eapply (loop_inv (fun _ => True) (fun _ => True) (fun r y0 => rprom x0 r y0)); [auto| | |exact I|exact Hl2].
            - intros; simpl; exact I.
            - intros o0 y0 ob0 y' o0' _ Hbd. pose proof (IHb _ _ _ _ _ _ _ _ x0 Eb2 Hbd) as Hp.
              destruct ob0; simpl; auto. apply Hp. intros; discriminate. }
          assert (Hl : match oa with Fall => True | Brk => False | Ret r => rprom x0 r xa end).
          { destruct lf as [|n]; simpl in El.
            - inversion El; subst. simpl. exact I.
            - destruct (pop o) as [go o1]. destruct go; simpl in El.
              + destruct (EX b g o1 x) as [[ob xb] ob'] eqn:Ebd.
                pose proof (IHb _ _ _ _ _ _ _ _ x0 Eb Ebd Hinv) as Hp.
                destruct ob.
                * eapply Hrest; exact El.
                * inversion El; subst. exact I.
                * inversion El; subst. exact Hp.
              + inversion El; subst. exact I. }
          destruct oa.
          * eapply IHk; [exact Hv|exact Hx|]. intros; discriminate.
          * destruct Hl.
          * inversion Hx; subst. simpl. exact Hl.
    Qed.
  End ExecClean.
End Clean.
