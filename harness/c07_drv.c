/* c07_drv.c -- implementation-side driver of properties C07 and C12.
 *
 * The per-entry-point call stubs (one function per public entry point, one `case` per argument variant) are GENERATED
 * by checks/C07.py from the prototype table the translator extracts and #included below (c07_stubs.inc).
 *
 *   c07_drv build <adf|hdf5> <state> <path>              create a template file (states: rich, unstr, bare)
 *   c07_drv tree <path>                                  SHA-256 of the canonical cgio tree walk  (+ "full" = the walk)
 *   c07_drv list                                         index, name, number of variants of every stub
 *   c07_drv ro <template> <work> <from> <to>             every entry i in [from,to): call variant 0 on a READ-mode handle
 *   c07_drv md <template> <work> <from> <to> [mode]      same in MODIFY (default) / READ mode on a fresh copy per call;
 *                                                        tree digest of the file after close
 *   c07_drv inv <template> <work> <mode> <from> <to>     every variant >= 1 (one argument made invalid), fresh copy per call
 *   c07_drv seq <template> <work> <mode> <n> i1 i2 ...   a sequence of calls (variant 0) on one handle
 *   c07_drv uac <work1> <work2> <adf|hdf5>               the use-after-close scenario of C12
 *
 * Output: one line per call, no pointers, no floats:
 *   <name> v=<variant> st=<status> msg=<class> file=<same|CHANGED> view=<same|CHANGED|-> tree=<same|CHANGED|-> err=<0|1>
 */
#include <stdio.h>
#include <stdlib.h>
#include <string.h>
#include <stdint.h>
#include <limits.h>
#include <unistd.h>
#include "cgnslib.h"
#include "cgns_io.h"

/* ------------------------------------------------------------------------------------------------ SHA-256 */
typedef struct { uint32_t h[8]; uint8_t buf[64]; uint64_t len; size_t n; } sha_t;
static const uint32_t K256[64] = {
0x428a2f98,0x71374491,0xb5c0fbcf,0xe9b5dba5,0x3956c25b,0x59f111f1,0x923f82a4,0xab1c5ed5,0xd807aa98,0x12835b01,0x243185be,
0x550c7dc3,0x72be5d74,0x80deb1fe,0x9bdc06a7,0xc19bf174,0xe49b69c1,0xefbe4786,0x0fc19dc6,0x240ca1cc,0x2de92c6f,0x4a7484aa,
0x5cb0a9dc,0x76f988da,0x983e5152,0xa831c66d,0xb00327c8,0xbf597fc7,0xc6e00bf3,0xd5a79147,0x06ca6351,0x14292967,0x27b70a85,
0x2e1b2138,0x4d2c6dfc,0x53380d13,0x650a7354,0x766a0abb,0x81c2c92e,0x92722c85,0xa2bfe8a1,0xa81a664b,0xc24b8b70,0xc76c51a3,
0xd192e819,0xd6990624,0xf40e3585,0x106aa070,0x19a4c116,0x1e376c08,0x2748774c,0x34b0bcb5,0x391c0cb3,0x4ed8aa4a,0x5b9cca4f,
0x682e6ff3,0x748f82ee,0x78a5636f,0x84c87814,0x8cc70208,0x90befffa,0xa4506ceb,0xbef9a3f7,0xc67178f2};
#define ROR(x,n) (((x) >> (n)) | ((x) << (32 - (n))))
static void sha_block(sha_t *c, const uint8_t *p) {
    uint32_t w[64], a, b, d, e, f, g, h, cc, t1, t2; int i;
    for (i = 0; i < 16; i++) w[i] = (uint32_t)p[4*i] << 24 | (uint32_t)p[4*i+1] << 16 | (uint32_t)p[4*i+2] << 8 | p[4*i+3];
    for (; i < 64; i++) { uint32_t s0 = ROR(w[i-15],7) ^ ROR(w[i-15],18) ^ (w[i-15] >> 3), s1 = ROR(w[i-2],17) ^ ROR(w[i-2],19) ^ (w[i-2] >> 10);
        w[i] = w[i-16] + s0 + w[i-7] + s1; }
    a = c->h[0]; b = c->h[1]; cc = c->h[2]; d = c->h[3]; e = c->h[4]; f = c->h[5]; g = c->h[6]; h = c->h[7];
    for (i = 0; i < 64; i++) {
        t1 = h + (ROR(e,6) ^ ROR(e,11) ^ ROR(e,25)) + ((e & f) ^ (~e & g)) + K256[i] + w[i];
        t2 = (ROR(a,2) ^ ROR(a,13) ^ ROR(a,22)) + ((a & b) ^ (a & cc) ^ (b & cc));
        h = g; g = f; f = e; e = d + t1; d = cc; cc = b; b = a; a = t1 + t2; }
    c->h[0] += a; c->h[1] += b; c->h[2] += cc; c->h[3] += d; c->h[4] += e; c->h[5] += f; c->h[6] += g; c->h[7] += h;
}
static void sha_init(sha_t *c) { static const uint32_t i[8] = {0x6a09e667,0xbb67ae85,0x3c6ef372,0xa54ff53a,0x510e527f,0x9b05688c,0x1f83d9ab,0x5be0cd19};
    memcpy(c->h, i, sizeof i); c->len = 0; c->n = 0; }
static void sha_add(sha_t *c, const void *data, size_t len) { const uint8_t *p = (const uint8_t *)data;
    c->len += len;
    while (len) { size_t k = 64 - c->n; if (k > len) k = len; memcpy(c->buf + c->n, p, k); c->n += k; p += k; len -= k;
        if (c->n == 64) { sha_block(c, c->buf); c->n = 0; } } }
static void sha_hex(sha_t *c, char *out) { uint64_t bits = c->len * 8; uint8_t pad = 0x80, z = 0, lb[8]; int i;
    sha_add(c, &pad, 1); while (c->n != 56) sha_add(c, &z, 1);
    for (i = 0; i < 8; i++) lb[i] = (uint8_t)(bits >> (56 - 8*i));
    sha_add(c, lb, 8);
    for (i = 0; i < 8; i++) sprintf(out + 8*i, "%08x", c->h[i]); }
static void sha_str(sha_t *c, const char *s) { sha_add(c, s, strlen(s) + 1); }
static void sha_int(sha_t *c, long long v) { char b[32]; sprintf(b, "%lld", v); sha_str(c, b); }

static int file_sha(const char *path, char *out) {
    FILE *f = fopen(path, "rb"); sha_t c; static uint8_t buf[1 << 16]; size_t n;
    if (!f) { strcpy(out, "nofile"); return 1; }
    sha_init(&c); while ((n = fread(buf, 1, sizeof buf, f)) > 0) sha_add(&c, buf, n);
    fclose(f); sha_hex(&c, out); return 0;
}
static int copy_file(const char *from, const char *to) {
    FILE *a = fopen(from, "rb"), *b; static uint8_t buf[1 << 16]; size_t n;
    if (!a) return 1;
    unlink(to);
    b = fopen(to, "wb"); if (!b) { fclose(a); return 1; }
    while ((n = fread(buf, 1, sizeof buf, a)) > 0) fwrite(buf, 1, n, b);
    fclose(a); fclose(b); return 0;
}

/* ------------------------------------------------------------------------------------------------ cgio tree walk */
static int g_full = 0;
static void walk(int cg, double id, const char *path, sha_t *c, int depth) {
    char name[CGIO_MAX_NAME_LENGTH + 1] = "", label[CGIO_MAX_LABEL_LENGTH + 1] = "", dt[CGIO_MAX_DATATYPE_LENGTH + 1] = "";
    int ndim = 0, nch = 0, i, llen = 0, n; cgsize_t dims[CGIO_MAX_DIMENSIONS]; char line[1024];
    if (depth > 24) { sha_str(c, "<too deep>"); return; }
    cgio_get_name(cg, id, name); cgio_get_label(cg, id, label);
    if (cgio_is_link(cg, id, &llen) == 0 && llen > 0) {
        int fl = 0, nl = 0; char *fn_, *nn;
        cgio_link_size(cg, id, &fl, &nl);
        fn_ = (char *)calloc(fl + 2, 1); nn = (char *)calloc(nl + 2, 1);
        cgio_get_link(cg, id, fn_, nn);
        snprintf(line, sizeof line, "%s/%s LINK file=%s path=%s", path, name, fn_, nn);
        sha_str(c, line); if (g_full) puts(line);
        free(fn_); free(nn); return;
    }
    cgio_get_data_type(cg, id, dt);
    if (cgio_get_dimensions(cg, id, &ndim, dims)) ndim = -1;
    n = snprintf(line, sizeof line, "%s/%s [%s] %s nd=%d", path, name, label, dt, ndim);
    {   cglong_t cnt = ndim > 0 ? 1 : 0; size_t esz = 0;
        for (i = 0; i < ndim && i < CGIO_MAX_DIMENSIONS; i++) { n += snprintf(line + n, sizeof line - n, " %lld", (long long)dims[i]); cnt *= dims[i]; }
        if (!strcmp(dt, "C1") || !strcmp(dt, "B1")) esz = 1; else if (!strcmp(dt, "I4") || !strcmp(dt, "R4") || !strcmp(dt, "U4")) esz = 4;
        else if (!strcmp(dt, "I8") || !strcmp(dt, "R8") || !strcmp(dt, "U8") || !strcmp(dt, "X4")) esz = 8; else if (!strcmp(dt, "X8")) esz = 16;
        sha_str(c, line);
        if (cnt > 0 && esz && cnt < (1 << 24)) {
            void *d = calloc((size_t)cnt + 1, esz);
            if (cgio_read_all_data_type(cg, id, dt, d) == 0) {
                sha_add(c, d, (size_t)cnt * esz);
                if (g_full) { sha_t k; char hx[65]; sha_init(&k); sha_add(&k, d, (size_t)cnt * esz); sha_hex(&k, hx); printf("%s data=%.16s\n", line, hx); }
            } else { sha_str(c, "<unreadable>"); if (g_full) printf("%s <unreadable>\n", line); }
            free(d);
        } else if (g_full) puts(line);
    }
    if (cgio_number_children(cg, id, &nch)) nch = 0;
    if (nch > 0) {
        double *ids = (double *)calloc(nch, sizeof(double)); int got = 0; char sub[1024];
        cgio_children_ids(cg, id, 1, nch, &got, ids);
        snprintf(sub, sizeof sub, "%s/%s", path, name);
        /* children in the order the back end reports them: the order is part of what later reads return */
        for (i = 0; i < got; i++) walk(cg, ids[i], sub, c, depth + 1);
        free(ids);
    }
}
static int tree_digest(const char *path, char *out) {
    int cg; double root; sha_t c;
    if (cgio_open_file(path, CGIO_MODE_READ, CGIO_FILE_NONE, &cg)) { strcpy(out, "unopenable"); return 1; }
    cgio_get_root_id(cg, &root);
    sha_init(&c); walk(cg, root, "", &c, 0); sha_hex(&c, out);
    cgio_close_file(cg);
    return 0;
}

/* ------------------------------------------------------------------------------------------------ MLL view of a handle */
static void D(sha_t *c, const char *tag, int st) { sha_str(c, tag); sha_int(c, st); }
static void view_node(sha_t *c) {          /* at the current position */
    int n = 0, i, st; char name[64], *text;
    st = cg_ndescriptors(&n); D(c, "ndescr", st); if (st) n = 0;
    for (i = 1; i <= n; i++) { text = NULL; name[0] = 0; st = cg_descriptor_read(i, name, &text); D(c, name, st); if (!st && text) { sha_str(c, text); cg_free(text); } }
    n = 0; st = cg_nuser_data(&n); D(c, "nud", st); if (st) n = 0;
    for (i = 1; i <= n; i++) { name[0] = 0; st = cg_user_data_read(i, name); D(c, name, st); }
    n = 0; st = cg_narrays(&n); D(c, "narr", st); if (st) n = 0;
    for (i = 1; i <= n; i++) { CGNS_ENUMT(DataType_t) t; int nd = 0; cgsize_t dv[12]; name[0] = 0;
        st = cg_array_info(i, name, &t, &nd, dv); D(c, name, st);
        if (!st) { cglong_t cnt = 1; int k; sha_int(c, t); for (k = 0; k < nd; k++) { sha_int(c, dv[k]); cnt *= dv[k]; }
            if (cnt > 0 && cnt < 100000 && t != CGNS_ENUMV(Character)) { double *d = (double *)calloc(cnt, sizeof(double));
                st = cg_array_read_as(i, CGNS_ENUMV(RealDouble), d); sha_int(c, st); if (!st) sha_add(c, d, cnt * sizeof(double)); free(d); } } }
    { CGNS_ENUMT(DataClass_t) dc; st = cg_dataclass_read(&dc); D(c, "dclass", st); if (!st) sha_int(c, dc); }
    { int o = 0; st = cg_ordinal_read(&o); D(c, "ord", st); if (!st) sha_int(c, o); }
    { char fam[700]; fam[0] = 0; st = cg_famname_read(fam); D(c, "fam", st); if (!st) sha_str(c, fam); }
}
static void view(int fn, char *out) {
    sha_t c; int nb = 0, b, st; char name[64];
    sha_init(&c);
    st = cg_nbases(fn, &nb); D(&c, "nbases", st); if (st) nb = 0;
    for (b = 1; b <= nb; b++) {
        int cd = 0, pd = 0, nz = 0, z, nf = 0, f;
        st = cg_base_read(fn, b, name, &cd, &pd); D(&c, name, st); sha_int(&c, cd); sha_int(&c, pd);
        if (cg_goto(fn, b, "end") == 0) view_node(&c);
        { CGNS_ENUMT(SimulationType_t) t; st = cg_simulation_type_read(fn, b, &t); D(&c, "sim", st); if (!st) sha_int(&c, t); }
        { char bn[64]; int ns = 0; st = cg_biter_read(fn, b, bn, &ns); D(&c, "biter", st); if (!st) { sha_str(&c, bn); sha_int(&c, ns); } }
        st = cg_nfamilies(fn, b, &nf); D(&c, "nfam", st); if (st) nf = 0;
        for (f = 1; f <= nf; f++) { int nbc = 0, ng = 0, nn = 0; st = cg_family_read(fn, b, f, name, &nbc, &ng); D(&c, name, st); sha_int(&c, nbc); sha_int(&c, ng);
            if (cg_goto(fn, b, "Family_t", f, "end") == 0) { int k2;
                nn = 0; st = cg_node_nfamilies(&nn); D(&c, "nsubfam", st); sha_int(&c, nn);
                for (k2 = 1; k2 <= nn && !st; k2++) { int a1 = 0, a2 = 0; name[0] = 0; st = cg_node_family_read(k2, name, &a1, &a2); D(&c, name, st); }
                nn = 0; st = cg_node_nfamily_names(&nn); D(&c, "nfamnames", st); sha_int(&c, nn);
                view_node(&c); } }
        st = cg_nzones(fn, b, &nz); D(&c, "nzones", st); if (st) nz = 0;
        for (z = 1; z <= nz; z++) {
            cgsize_t size[9] = {0}; CGNS_ENUMT(ZoneType_t) zt; int n = 0, i, idim = 0;
            st = cg_zone_read(fn, b, z, name, size); D(&c, name, st); sha_add(&c, size, sizeof size);
            st = cg_zone_type(fn, b, z, &zt); D(&c, "zt", st); if (!st) sha_int(&c, zt);
            cg_index_dim(fn, b, z, &idim);
            n = 0; st = cg_ngrids(fn, b, z, &n); D(&c, "ngrids", st); sha_int(&c, n);
            n = 0; st = cg_ncoords(fn, b, z, &n); D(&c, "ncoords", st); if (st) n = 0; sha_int(&c, n);
            for (i = 1; i <= n; i++) { CGNS_ENUMT(DataType_t) t; st = cg_coord_info(fn, b, z, i, &t, name); D(&c, name, st); if (!st) sha_int(&c, t);
                if (!st && zt == CGNS_ENUMV(Structured)) { cgsize_t lo[3] = {1,1,1}, hi[3]; double *d; cglong_t cnt = 1; int k;
                    for (k = 0; k < idim && k < 3; k++) { hi[k] = size[k]; cnt *= size[k]; }
                    if (cnt > 0 && cnt < 100000) { d = (double *)calloc(cnt, sizeof(double)); st = cg_coord_read(fn, b, z, name, CGNS_ENUMV(RealDouble), lo, hi, d);
                        sha_int(&c, st); if (!st) sha_add(&c, d, cnt * sizeof(double)); free(d); } } }
            n = 0; st = cg_nsections(fn, b, z, &n); D(&c, "nsec", st); if (st) n = 0;
            for (i = 1; i <= n; i++) { CGNS_ENUMT(ElementType_t) et; cgsize_t s0 = 0, s1 = 0, eds = 0; int nbd = 0, pf = 0;
                st = cg_section_read(fn, b, z, i, name, &et, &s0, &s1, &nbd, &pf); D(&c, name, st);
                if (!st) { sha_int(&c, et); sha_int(&c, s0); sha_int(&c, s1); sha_int(&c, nbd); sha_int(&c, pf);
                    st = cg_ElementDataSize(fn, b, z, i, &eds); sha_int(&c, st); sha_int(&c, eds);
                    if (!st && eds > 0 && eds < 100000) { cgsize_t *e = (cgsize_t *)calloc(eds + 1, sizeof(cgsize_t)), *off = (cgsize_t *)calloc(s1 - s0 + 3, sizeof(cgsize_t));
                        if (et == CGNS_ENUMV(MIXED) || et == CGNS_ENUMV(NGON_n) || et == CGNS_ENUMV(NFACE_n)) st = cg_poly_elements_read(fn, b, z, i, e, off, NULL);
                        else st = cg_elements_read(fn, b, z, i, e, NULL);
                        sha_int(&c, st); if (!st) sha_add(&c, e, eds * sizeof(cgsize_t)); free(e); free(off); } } }
            n = 0; st = cg_nsols(fn, b, z, &n); D(&c, "nsol", st); if (st) n = 0;
            for (i = 1; i <= n; i++) { CGNS_ENUMT(GridLocation_t) loc; int nfl = 0, k;
                st = cg_sol_info(fn, b, z, i, name, &loc); D(&c, name, st); if (!st) sha_int(&c, loc);
                st = cg_nfields(fn, b, z, i, &nfl); D(&c, "nfl", st); if (st) nfl = 0;
                for (k = 1; k <= nfl; k++) { CGNS_ENUMT(DataType_t) t; st = cg_field_info(fn, b, z, i, k, &t, name); D(&c, name, st); if (!st) sha_int(&c, t); } }
            n = 0; st = cg_nbocos(fn, b, z, &n); D(&c, "nbc", st); if (st) n = 0;
            for (i = 1; i <= n; i++) { CGNS_ENUMT(BCType_t) bt; CGNS_ENUMT(PointSetType_t) pt; cgsize_t np = 0, nls = 0; int ni[3], nds = 0; CGNS_ENUMT(DataType_t) ndt;
                st = cg_boco_info(fn, b, z, i, name, &bt, &pt, &np, ni, &nls, &ndt, &nds); D(&c, name, st);
                if (!st) { sha_int(&c, bt); sha_int(&c, pt); sha_int(&c, np); sha_int(&c, nds); } }
            n = 0; st = cg_nconns(fn, b, z, &n); D(&c, "nconn", st); sha_int(&c, n);
            n = 0; st = cg_n1to1(fn, b, z, &n); D(&c, "n1to1", st); sha_int(&c, n);
            n = 0; st = cg_nholes(fn, b, z, &n); D(&c, "nholes", st); sha_int(&c, n);
            n = 0; st = cg_ndiscrete(fn, b, z, &n); D(&c, "ndisc", st); sha_int(&c, n);
            n = 0; st = cg_nsubregs(fn, b, z, &n); D(&c, "nsubreg", st); sha_int(&c, n);
            n = 0; st = cg_n_rigid_motions(fn, b, z, &n); D(&c, "nrm", st); sha_int(&c, n);
            n = 0; st = cg_n_arbitrary_motions(fn, b, z, &n); D(&c, "nam", st); sha_int(&c, n);
            { char zn[64]; zn[0] = 0; st = cg_ziter_read(fn, b, z, zn); D(&c, "ziter", st); if (!st) sha_str(&c, zn); }
            if (cg_goto(fn, b, "Zone_t", z, "end") == 0) view_node(&c);
            if (cg_goto(fn, b, "Zone_t", z, "UserDefinedData_t", 1, "end") == 0) view_node(&c);
        }
    }
    sha_hex(&c, out);
}

/* ------------------------------------------------------------------------------------------------ argument pools */
static int g_fn = 0, g_closed = 0, g_cgio = 0, g_cgio_closed = 0;
static double g_root = 0, g_node = 0, g_node2 = 0;         /* cgio ids: root, an existing child, a second one */
static long long OUTBUF[48][1 << 13];                       /* 64 KB scratch per output parameter */
static long long INZERO[1 << 13];
static double IND[1 << 12];
static float INF[64];
static cgsize_t SZ_ONES[64], SZ_TWOS[64], SZ_SIZE[9] = {2,2,2,1,1,1,0,0,0}, SZ_PR[12] = {1,1,1,2,2,2,1,1,1,2,2,2}, SZ_BAD_HI[64], SZ_ZERO[64];
static int IN_INT[64], IN_TRANSFORM[3] = {1,2,3};
static cglong_t LD_ONES[16];
static char NAME33[40], NAME1000[1008], FRESH[40];
static int fresh_n = 0;
static const char *fresh(void) { snprintf(FRESH, sizeof FRESH, "Vf%d", ++fresh_n); return FRESH; }
static void pools(void) { int i;
    for (i = 0; i < 64; i++) { SZ_ONES[i] = 1; SZ_TWOS[i] = 2; SZ_BAD_HI[i] = 1000000; SZ_ZERO[i] = 0; IN_INT[i] = 1; INF[i] = 1.0f; }
    for (i = 0; i < 16; i++) LD_ONES[i] = 1;
    for (i = 0; i < (1 << 12); i++) IND[i] = 0.5 * i;
    memset(NAME33, 'n', 33); NAME33[33] = 0; memset(NAME1000, 'L', 1000); NAME1000[1000] = 0;
    for (i = 0; i < (1 << 13); i++) INZERO[i] = 1; }
#define OUT(k) ((void *)OUTBUF[(k) % 48])
/* parameters of type T** are arrays of caller-allocated buffers (cg_1to1_read_global, cg_where ...) or receive one pointer */
static void *g_pp[8][64];
static long long PPBUF[8][64][64];
static void reset_pp(void) { int j, i; for (j = 0; j < 8; j++) for (i = 0; i < 64; i++) g_pp[j][i] = (void *)PPBUF[j][i]; }
#define PP(k) ((void *)g_pp[(k) % 8])

static int set_ctx(int fn, int ctx) {
    switch (ctx) {
    case 0: return 0;
    case 1: return cg_goto(fn, 1, "Zone_t", 1, "UserDefinedData_t", 1, "end");
    case 2: return cg_goto(fn, 1, "end");
    case 3: return cg_goto(fn, 1, "Zone_t", 1, "FlowSolution_t", 1, "end");
    case 4: return cg_goto(fn, 1, "Zone_t", 1, "UserDefinedData_t", 1, "DataArray_t", 1, "end");
    case 5: return cg_goto(fn, 1, "FlowEquationSet_t", 1, "end");
    case 6: return cg_goto(fn, 1, "Family_t", 1, "end");
    case 7: return cg_goto(fn, 1, "Family_t", 1, "FamilyBC_t", 1, "end");
    case 8: return cg_goto(fn, 1, "Zone_t", 1, "end");
    case 9: return cg_goto(fn, 1, "Zone_t", 1, "ZoneBC_t", 1, "BC_t", 1, "end");
    case 10: return cg_goto(fn, 1, "Zone_t", 1, "ZoneGridConnectivity_t", 1, "GridConnectivity_t", 1, "end");
    case 11: return cg_goto(fn, 1, "Family_t", 1, "GeometryReference_t", 1, "end");
    case 12: return cg_goto(fn, 1, "Zone_t", 1, "ZoneGridConnectivity_t", 1, "GridConnectivity1to1_t", 1, "end");
    case 13: return cg_goto(fn, 1, "ParticleZone_t", 1, "end");
    case 14: return cg_goto(fn, 1, "ParticleEquationSet_t", 1, "end");
    case 15: return cg_goto(fn, 1, "FlowEquationSet_t", 1, "GoverningEquations_t", 1, "end");
    }
    return 0;
}

static const char *g_work = "", *g_aux = "";
static char g_labbuf[32][40]; static char *g_lab[32];
typedef struct { const char *name; int (*call)(int v); int nvar; int ctx; int flags; const char *const *vdesc; } entry_t;
#define F_CGIO 1        /* a cgio_* entry point: uses g_cgio instead of g_fn */
#define F_NOFILE 2      /* takes no handle and no position */
#define F_REOPEN 4      /* the call closes / replaces the handle: reopen afterwards */
#define F_MUSTFAIL(v) 0
#include "c07_stubs.inc"

/* ------------------------------------------------------------------------------------------------ template files */
#define CK(x) do { if (x) { fprintf(stderr, "build: %s failed: %s\n", #x, cg_get_error()); exit(3); } } while (0)
static void build_common_node(void) {       /* children every node context accepts */
    CK(cg_descriptor_write("Note", "text of the note"));
}
static void build(const char *backend, const char *state, const char *path) {
    int fn, B, Z, i, k; cgsize_t size[9] = {3,3,3,2,2,2,0,0,0}; double x[27]; float f3[3] = {0.f, 0.f, 1.f}, g3[3] = {1.f, 0.f, 0.f};
    cg_set_file_type(!strcmp(backend, "hdf5") ? CG_FILE_HDF5 : CG_FILE_ADF);
    unlink(path);
    CK(cg_open(path, CG_MODE_WRITE, &fn));
    CK(cg_base_write(fn, "Base", 3, 3, &B));
    for (i = 0; i < 27; i++) x[i] = 0.25 * i;
    if (!strcmp(state, "bare")) {
        CK(cg_zone_write(fn, B, "Zone1", size, CGNS_ENUMV(Structured), &Z));
        CK(cg_goto(fn, B, "Zone_t", Z, "end")); CK(cg_user_data_write("UD1"));
        CK(cg_close(fn)); return;
    }
    if (!strcmp(state, "unstr")) {
        cgsize_t usz[3] = {8, 1, 0}, hexa[8] = {1,2,3,4,5,6,7,8}, tri[6] = {1,2,3, 2,3,4}, pd[8] = {1,1,0,0,1,2,0,0};
        cgsize_t ngon[8] = {1,2,3,4, 5,6,7,8}, off[3] = {0,4,8}, mixed[10] = {5,1,2,3, 7,1,2,3,4, 0}, moff[3] = {0,4,9};
        int S;
        CK(cg_zone_write(fn, B, "Zone1", usz, CGNS_ENUMV(Unstructured), &Z));
        CK(cg_coord_write(fn, B, Z, CGNS_ENUMV(RealDouble), "CoordinateX", x, &k));
        CK(cg_coord_write(fn, B, Z, CGNS_ENUMV(RealDouble), "CoordinateY", x, &k));
        CK(cg_coord_write(fn, B, Z, CGNS_ENUMV(RealDouble), "CoordinateZ", x, &k));
        CK(cg_section_write(fn, B, Z, "Hexa", CGNS_ENUMV(HEXA_8), 1, 1, 0, hexa, &S));
        CK(cg_section_write(fn, B, Z, "Tris", CGNS_ENUMV(TRI_3), 2, 3, 0, tri, &S));
        CK(cg_parent_data_write(fn, B, Z, S, pd));
        CK(cg_poly_section_write(fn, B, Z, "Ngons", CGNS_ENUMV(NGON_n), 4, 5, 0, ngon, off, &S));
        CK(cg_poly_section_write(fn, B, Z, "Mixed", CGNS_ENUMV(MIXED), 6, 7, 0, mixed, moff, &S));
        CK(cg_sol_write(fn, B, Z, "Sol", CGNS_ENUMV(Vertex), &S));
        CK(cg_field_write(fn, B, Z, S, CGNS_ENUMV(RealDouble), "Density", x, &k));
        { cgsize_t pl[2] = {1, 2}; CK(cg_boco_write(fn, B, Z, "BC1", CGNS_ENUMV(BCWall), CGNS_ENUMV(PointList), 2, pl, &k)); }
        CK(cg_goto(fn, B, "Zone_t", Z, "end")); CK(cg_user_data_write("UD1")); build_common_node();
        CK(cg_goto(fn, B, "Zone_t", Z, "UserDefinedData_t", 1, "end")); build_common_node();
        { cgsize_t d1 = 3; CK(cg_array_write("Arr1", CGNS_ENUMV(RealDouble), 1, &d1, x)); }
        CK(cg_close(fn)); return;
    }
    /* rich: one of (almost) everything under a structured zone */
    {   int S, F, BC, Dset, G, P, I, C; cgsize_t pr[6] = {1,1,1,3,3,1}, dr[6] = {1,1,3,3,3,3}, d1 = 3; int tr[3] = {1,2,3}, rind[6] = {0,0,0,0,0,0};
        CK(cg_zone_write(fn, B, "Zone1", size, CGNS_ENUMV(Structured), &Z));
        CK(cg_zone_write(fn, B, "Zone2", size, CGNS_ENUMV(Structured), &k));
        CK(cg_coord_write(fn, B, Z, CGNS_ENUMV(RealDouble), "CoordinateX", x, &k));
        CK(cg_coord_write(fn, B, Z, CGNS_ENUMV(RealDouble), "CoordinateY", x, &k));
        CK(cg_coord_write(fn, B, Z, CGNS_ENUMV(RealDouble), "CoordinateZ", x, &k));
        CK(cg_grid_write(fn, B, Z, "Grid2", &G));
        CK(cg_sol_write(fn, B, Z, "Sol", CGNS_ENUMV(Vertex), &S));
        CK(cg_goto(fn, B, "Zone_t", Z, "FlowSolution_t", S, "end")); CK(cg_rind_write(rind)); build_common_node();
        CK(cg_field_write(fn, B, Z, S, CGNS_ENUMV(RealDouble), "Density", x, &k));
        CK(cg_field_write(fn, B, Z, S, CGNS_ENUMV(RealDouble), "Pressure", x, &k));
        CK(cg_boco_write(fn, B, Z, "BC1", CGNS_ENUMV(BCWall), CGNS_ENUMV(PointRange), 2, pr, &BC));
        CK(cg_dataset_write(fn, B, Z, BC, "DS1", CGNS_ENUMV(BCWall), &Dset));
        CK(cg_bcdata_write(fn, B, Z, BC, Dset, CGNS_ENUMV(Dirichlet)));
        CK(cg_bc_wallfunction_write(fn, B, Z, BC, CGNS_ENUMV(Generic)));
        CK(cg_bc_area_write(fn, B, Z, BC, CGNS_ENUMV(BleedArea), 1.0f, "Region"));
        CK(cg_goto(fn, B, "Zone_t", Z, "ZoneBC_t", 1, "BC_t", BC, "end")); build_common_node();
        CK(cg_1to1_write(fn, B, Z, "One2One", "Zone2", pr, dr, tr, &I));
        CK(cg_1to1_periodic_write(fn, B, Z, I, f3, f3, g3));
        CK(cg_1to1_average_write(fn, B, Z, I, CGNS_ENUMV(AverageAll)));
        { cgsize_t pl[3] = {1,1,3}, dl[3] = {1,1,1};
          CK(cg_conn_write(fn, B, Z, "Conn1", CGNS_ENUMV(Vertex), CGNS_ENUMV(Abutting1to1), CGNS_ENUMV(PointList), 1, pl, "Zone2",
                           CGNS_ENUMV(Structured), CGNS_ENUMV(PointListDonor), CGNS_ENUMV(Integer), 1, dl, &C)); }
        CK(cg_conn_periodic_write(fn, B, Z, C, f3, f3, g3));
        CK(cg_conn_average_write(fn, B, Z, C, CGNS_ENUMV(AverageAll)));
        CK(cg_hole_write(fn, B, Z, "Hole1", CGNS_ENUMV(Vertex), CGNS_ENUMV(PointRange), 1, 2, pr, &k));
        CK(cg_discrete_write(fn, B, Z, "Disc1", &k));
        CK(cg_goto(fn, B, "Zone_t", Z, "DiscreteData_t", 1, "end")); { cgsize_t d3[3] = {3,3,3}; CK(cg_array_write("DArr", CGNS_ENUMV(RealDouble), 3, d3, x)); }
        CK(cg_rigid_motion_write(fn, B, Z, "Rigid1", CGNS_ENUMV(ConstantRate), &k));
        CK(cg_goto(fn, B, "Zone_t", Z, "RigidGridMotion_t", 1, "end"));
        { cgsize_t d2[2] = {3, 2}; CK(cg_array_write("OriginLocation", CGNS_ENUMV(RealDouble), 2, d2, x)); }
        CK(cg_arbitrary_motion_write(fn, B, Z, "Arb1", CGNS_ENUMV(DeformingGrid), &k));
        CK(cg_ziter_write(fn, B, Z, "ZIter"));
        CK(cg_subreg_ptset_write(fn, B, Z, "SubReg1", 3, CGNS_ENUMV(Vertex), CGNS_ENUMV(PointRange), 2, pr, &k));
        CK(cg_biter_write(fn, B, "BIter", 2));
        CK(cg_simulation_type_write(fn, B, CGNS_ENUMV(TimeAccurate)));
        CK(cg_gravity_write(fn, B, f3));
        CK(cg_family_write(fn, B, "Fam1", &F));
        CK(cg_fambc_write(fn, B, F, "FamBC", CGNS_ENUMV(BCWall), &k));
        CK(cg_geo_write(fn, B, F, "Geo1", "file.igs", "CAD", &G));
        CK(cg_part_write(fn, B, F, G, "Part1", &P));
        CK(cg_family_name_write(fn, B, F, "FamName1", "Fam1"));
        CK(cg_goto(fn, B, "Family_t", F, "FamilyBC_t", 1, "end")); CK(cg_bcdataset_write("FDS1", CGNS_ENUMV(BCWall), CGNS_ENUMV(Dirichlet)));
        CK(cg_goto(fn, B, "Family_t", F, "end")); build_common_node(); CK(cg_user_data_write("UDF"));
        /* base level */
        CK(cg_goto(fn, B, "end")); build_common_node();
        CK(cg_dataclass_write(CGNS_ENUMV(Dimensional)));
        CK(cg_units_write(CGNS_ENUMV(Kilogram), CGNS_ENUMV(Meter), CGNS_ENUMV(Second), CGNS_ENUMV(Kelvin), CGNS_ENUMV(Degree)));
        CK(cg_state_write("reference state")); CK(cg_convergence_write(10, "norms")); CK(cg_integral_write("Integral1"));
        CK(cg_equationset_write(3)); CK(cg_user_data_write("UDB"));
        CK(cg_goto(fn, B, "FlowEquationSet_t", 1, "end")); CK(cg_governing_write(CGNS_ENUMV(Euler)));
        CK(cg_model_write("GasModel_t", CGNS_ENUMV(Ideal)));
        CK(cg_goto(fn, B, "FlowEquationSet_t", 1, "GoverningEquations_t", 1, "end")); { int dm[6] = {1,1,1,0,0,0}; CK(cg_diffusion_write(dm)); }
        /* zone level */
        CK(cg_goto(fn, B, "Zone_t", Z, "end")); build_common_node();
        CK(cg_user_data_write("UD1")); CK(cg_user_data_write("UD2")); CK(cg_ordinal_write(7)); CK(cg_famname_write("Fam1"));
        CK(cg_multifam_write("AddFam", "Fam1"));
        CK(cg_rotating_write(f3, g3));
        CK(cg_goto(fn, B, "Zone_t", Z, "UserDefinedData_t", 1, "end")); build_common_node();
        CK(cg_array_write("Arr1", CGNS_ENUMV(RealDouble), 1, &d1, x));
        CK(cg_array_write("Arr2", CGNS_ENUMV(Integer), 1, &d1, tr));
        CK(cg_gridlocation_write(CGNS_ENUMV(Vertex))); CK(cg_ordinal_write(3)); CK(cg_famname_write("Fam1"));
        CK(cg_ptset_write(CGNS_ENUMV(PointRange), 2, pr)); CK(cg_user_data_write("UDsub"));
        CK(cg_dataclass_write(CGNS_ENUMV(Dimensional)));
        CK(cg_units_write(CGNS_ENUMV(Kilogram), CGNS_ENUMV(Meter), CGNS_ENUMV(Second), CGNS_ENUMV(Kelvin), CGNS_ENUMV(Degree)));
        CK(cg_goto(fn, B, "Zone_t", Z, "UserDefinedData_t", 1, "DataArray_t", 1, "end"));
        { double e5[5] = {1,0,0,0,0}, cv[2] = {1.0, 0.0};
          CK(cg_exponents_write(CGNS_ENUMV(RealDouble), e5)); CK(cg_conversion_write(CGNS_ENUMV(RealDouble), cv)); build_common_node();
          CK(cg_dataclass_write(CGNS_ENUMV(Dimensional))); }
        CK(cg_close(fn));
    }
}

/* ------------------------------------------------------------------------------------------------ running calls */
static const char *msg_class(int st, const char *m) {
    if (!st) return "-";
    if (!m || !*m) return "EMPTY";
    if (strstr(m, "not open for writing") || strstr(m, "not open for reading") || strstr(m, "must be opened in mode modify") ||
        strstr(m, "read only") || strstr(m, "read-only") || strstr(m, "ead only")) return "mode";
    return "other";
}
static char g_msg[512], g_mc[16];
static const char *last_msg(int is_cgio, int st) {
    g_msg[0] = 0;
    if (is_cgio) { if (st) cgio_error_message(g_msg); }
    else { const char *m = cg_get_error(); if (m) snprintf(g_msg, sizeof g_msg, "%s", m); }
    return g_msg;
}
extern char cgns_error_mess[];               /* src/cgns_error.c: cleared before a call so that "non-empty" means "set by it" */
static void clear_err(void) { cgns_error_mess[0] = 0; }

static int open_handles(const char *work, int mode, int want_cgio) {
    g_fn = g_cgio = 0;
    if (want_cgio) {
        int nch = 0, got = 0; double ids[8];
        if (cgio_open_file(work, mode == CG_MODE_READ ? CGIO_MODE_READ : CGIO_MODE_MODIFY, CGIO_FILE_NONE, &g_cgio)) return 1;
        cgio_get_root_id(g_cgio, &g_root);
        cgio_number_children(g_cgio, g_root, &nch);
        cgio_children_ids(g_cgio, g_root, 1, nch > 8 ? 8 : nch, &got, ids);
        g_node = got > 0 ? ids[got - 1] : g_root; g_node2 = got > 1 ? ids[0] : g_node;
        {   /* g_node := the base, g_node2 := its first child (a node with a parent that is not the root) */
            int n2 = 0, g2 = 0; double id2[4];
            cgio_number_children(g_cgio, g_node, &n2);
            if (n2 > 0) { cgio_children_ids(g_cgio, g_node, 1, 1, &g2, id2); if (g2 > 0) g_node2 = id2[0]; }
        }
        return 0;
    }
    return cg_open(work, mode, &g_fn);
}
static void close_handles(void) { if (g_fn) { cg_close(g_fn); g_fn = 0; } if (g_cgio) { cgio_close_file(g_cgio); g_cgio = 0; } }

/* a handle that was valid and has been closed: open + close a scratch copy first so that the number was really issued */
static void make_closed(const char *work) {
    char p[1024]; int f;
    snprintf(p, sizeof p, "%s.closed", work);
    if (copy_file(work, p) == 0) {
        if (cg_open(p, CG_MODE_READ, &f) == 0) { g_closed = f; cg_close(f); }
        if (cgio_open_file(p, CGIO_MODE_READ, CGIO_FILE_NONE, &f) == 0) { g_cgio_closed = f; cgio_close_file(f); }
    }
}

static int run_ro(const char *tmpl, const char *work, int from, int to) {
    char h0[80], h1[80], v0[80], v1[80]; int i, open_is_cgio = -1;
    copy_file(tmpl, work); file_sha(work, h0);
    make_closed(work);
    for (i = from; i < to && i < NENTRIES; i++) {
        const entry_t *e = &entries[i]; int st, is_cgio = (e->flags & F_CGIO) != 0; const char *m;
        if (open_is_cgio != is_cgio) { close_handles(); if (open_handles(work, CG_MODE_READ, is_cgio)) { printf("R %s v=0 OPENFAIL %s\n", e->name, cg_get_error()); continue; } open_is_cgio = is_cgio; }
        if (!is_cgio) { view(g_fn, v0); set_ctx(g_fn, e->ctx); }
        printf("C %s v=0\n", e->name); fflush(stdout);
        clear_err(); reset_pp();
        st = e->call(0);
        m = last_msg(is_cgio, st);
        file_sha(work, h1);
        if (!is_cgio) view(g_fn, v1); else { strcpy(v0, "-"); strcpy(v1, "-"); }
        printf("R %s v=0 st=%d msg=%s file=%s view=%s\n", e->name, st, msg_class(st, m), strcmp(h0, h1) ? "CHANGED" : "same", is_cgio ? "-" : strcmp(v0, v1) ? "CHANGED" : "same");
        fflush(stdout);
        if (strcmp(h0, h1) || (!is_cgio && strcmp(v0, v1)) || (e->flags & F_REOPEN)) { close_handles(); open_is_cgio = -1; copy_file(tmpl, work); }
    }
    close_handles();
    file_sha(work, h1);
    printf("END file=%s\n", strcmp(h0, h1) ? "CHANGED" : "same");
    return 0;
}

/* as run_ro, with a SECOND file open in MODIFY mode and made the library's current file (a read of it) right before every
   call: whatever a call on the read-only handle / on a position inside the read-only file consults, it must be that
   file's own mode.  The other file must come out as a bare open + close in MODIFY mode leaves it. */
static int run_ro2(const char *tmpl, const char *work, int from, int to) {
    char h0[80], h1[80], v0[80], v1[80], other[1024], ctl[1024], t0[80], t1[80]; int i, f2 = 0, nb;
    snprintf(other, sizeof other, "%s.other", work); snprintf(ctl, sizeof ctl, "%s.ctl", work);
    copy_file(tmpl, work); file_sha(work, h0);
    copy_file(tmpl, ctl);
    if (cg_open(ctl, CG_MODE_MODIFY, &f2)) { printf("CONTROL OPENFAIL %s\n", cg_get_error()); return 1; }
    cg_close(f2); f2 = 0; tree_digest(ctl, t0);
    make_closed(work);
    for (i = from; i < to && i < NENTRIES; i++) {
        const entry_t *e = &entries[i]; int st; const char *m;
        if (e->flags & F_CGIO) continue;
        if (!g_fn) {
            copy_file(tmpl, other);
            if (open_handles(work, CG_MODE_READ, 0) || cg_open(other, CG_MODE_MODIFY, &f2)) { printf("R %s v=0 OPENFAIL %s\n", e->name, cg_get_error()); close_handles(); continue; }
        }
        view(g_fn, v0); set_ctx(g_fn, e->ctx);
        printf("C %s v=0\n", e->name); fflush(stdout);
        cg_nbases(f2, &nb);                               /* the library's current file is now the writable one */
        clear_err(); reset_pp();
        st = e->call(0);
        m = last_msg(0, st);
        { const char *mc = msg_class(st, m); snprintf(g_mc, sizeof g_mc, "%s", mc); }
        file_sha(work, h1);
        view(g_fn, v1);
        printf("R %s v=0 st=%d msg=%s file=%s view=%s\n", e->name, st, g_mc, strcmp(h0, h1) ? "CHANGED" : "same", strcmp(v0, v1) ? "CHANGED" : "same");
        fflush(stdout);
        if (strcmp(h0, h1) || strcmp(v0, v1) || (e->flags & F_REOPEN) || st == 0) {
            /* start again from fresh copies; the other file is judged first */
            close_handles(); if (f2) { cg_close(f2); f2 = 0; }
            tree_digest(other, t1);
            if (strcmp(t0, t1)) printf("O %s other=CHANGED\n", e->name);
            copy_file(tmpl, work);
        }
    }
    close_handles(); if (f2) cg_close(f2);
    tree_digest(other, t1);
    file_sha(work, h1);
    printf("END file=%s other=%s\n", strcmp(h0, h1) ? "CHANGED" : "same", strcmp(t0, t1) ? "CHANGED" : "same");
    return 0;
}

/* fresh copy per call; the tree of the file after close is compared with the tree after a bare open+close in that mode */
static int run_md(const char *tmpl, const char *work, int from, int to, int mode, int vfrom, int only_v0) {
    char t0[80], t1[80], v0[80], v1[80], h0[80], h1[80]; int i, v;
    copy_file(tmpl, work); make_closed(work);
    if (open_handles(work, mode, 0)) { printf("CONTROL OPENFAIL %s\n", cg_get_error()); return 1; }
    close_handles(); tree_digest(work, t0);
    for (i = from; i < to && i < NENTRIES; i++) {
        const entry_t *e = &entries[i]; int is_cgio = (e->flags & F_CGIO) != 0;
        int vmax = only_v0 ? 1 : e->nvar;
        for (v = vfrom; v < vmax; v++) {
            int st; const char *m; int viewable = !is_cgio && mode != CG_MODE_WRITE;
            copy_file(tmpl, work); file_sha(work, h0);
            if (open_handles(work, mode, is_cgio)) { printf("R %s v=%d OPENFAIL\n", e->name, v); continue; }
            if (!is_cgio) set_ctx(g_fn, e->ctx);
            if (viewable && v > 0) { view(g_fn, v0); set_ctx(g_fn, e->ctx); }
            printf("C %s v=%d\n", e->name, v); fflush(stdout);
            clear_err(); reset_pp();
            st = e->call(v);
            m = last_msg(is_cgio, st);
            printf("S %s v=%d st=%d\n", e->name, v, st); fflush(stdout);
            { const char *mc = msg_class(st, m); snprintf(g_mc, sizeof g_mc, "%s", mc); }
            if (viewable && v > 0) view(g_fn, v1); else { strcpy(v0, "-"); strcpy(v1, "-"); }
            close_handles();
            tree_digest(work, t1); file_sha(work, h1);
            printf("R %s v=%d st=%d msg=%s file=%s view=%s tree=%s desc=%s\n", e->name, v, st, g_mc, strcmp(h0, h1) ? "CHANGED" : "same", strcmp(v0, v1) ? "CHANGED" : (viewable && v > 0 ? "same" : "-"),
                   strcmp(t0, t1) ? "CHANGED" : "same", e->vdesc ? e->vdesc[v] : "valid");
            fflush(stdout);
        }
    }
    printf("END\n");
    return 0;
}

static int run_seq(const char *tmpl, const char *work, int mode, int n, char **idx) {
    char t0[80], t1[80], v0[80], v1[80]; int k;
    copy_file(tmpl, work);
    if (open_handles(work, mode, 0)) { printf("OPENFAIL\n"); return 1; }
    close_handles(); tree_digest(work, t0);
    copy_file(tmpl, work);
    if (open_handles(work, mode, 0)) { printf("OPENFAIL\n"); return 1; }
    strcpy(v0, "-"); strcpy(v1, "-");
    if (mode == CG_MODE_READ) view(g_fn, v0);
    for (k = 0; k < n; k++) { int i = atoi(idx[k]); const entry_t *e; int st;
        if (i < 0 || i >= NENTRIES) continue;
        e = &entries[i]; if (e->flags & F_CGIO) continue;
        set_ctx(g_fn, e->ctx);
        printf("C %s v=0\n", e->name); fflush(stdout);
        reset_pp();
        st = e->call(0); printf("R %s v=0 st=%d\n", e->name, st); fflush(stdout);
    }
    if (mode == CG_MODE_READ) view(g_fn, v1);
    close_handles(); tree_digest(work, t1);
    printf("END tree=%s view=%s\n", strcmp(t0, t1) ? "CHANGED" : "same", strcmp(v0, v1) ? "CHANGED" : "same");
    return 0;
}

/* C12: after cg_close(f1) while f2 stays open, a node-context call still uses cg/posit of the freed file */
static int run_uac(const char *w1, const char *w2, const char *backend) {
    int f1, f2, st;
    build(backend, "bare", w1); build(backend, "bare", w2);
    if (cg_open(w1, CG_MODE_MODIFY, &f1) || cg_open(w2, CG_MODE_MODIFY, &f2)) { printf("OPENFAIL\n"); return 1; }
    if (cg_goto(f1, 1, "Zone_t", 1, "end")) { printf("GOTOFAIL\n"); return 1; }
    printf("goto ok\n"); fflush(stdout);
    st = cg_close(f1); printf("close f1 st=%d\n", st); fflush(stdout);
    printf("descriptor_write "); fflush(stdout);
    st = cg_descriptor_write("D", "after close");                /* must fail cleanly: the current file is closed */
    printf("st=%d msg=%s\n", st, msg_class(st, cg_get_error())); fflush(stdout);
    cg_close(f2);
    printf("END\n");
    return 0;
}

int main(int argc, char **argv) {
    { int i; for (i = 0; i < 32; i++) g_lab[i] = g_labbuf[i]; }
    if (argc >= 4) { static char aux[1024]; g_work = argv[3]; snprintf(aux, sizeof aux, "%s.aux", argv[3]); g_aux = aux; }
    pools();
    cgio_error_abort(0);
    if (argc < 2) return 2;
    if (!strcmp(argv[1], "build") && argc >= 5) { build(argv[2], argv[3], argv[4]); return 0; }
    if (!strcmp(argv[1], "tree") && argc >= 3) { char t[80]; g_full = argc > 3; tree_digest(argv[2], t); printf("tree %s\n", t); return 0; }
    if (!strcmp(argv[1], "list")) { int i; for (i = 0; i < NENTRIES; i++) printf("%d %s %d %d\n", i, entries[i].name, entries[i].nvar, entries[i].flags); return 0; }
    if (!strcmp(argv[1], "ro") && argc >= 6) return run_ro(argv[2], argv[3], atoi(argv[4]), atoi(argv[5]));
    if (!strcmp(argv[1], "ro2") && argc >= 6) return run_ro2(argv[2], argv[3], atoi(argv[4]), atoi(argv[5]));
    if (!strcmp(argv[1], "md") && argc >= 6) return run_md(argv[2], argv[3], atoi(argv[4]), atoi(argv[5]), argc > 6 ? atoi(argv[6]) : CG_MODE_MODIFY, 0, 1);
    if (!strcmp(argv[1], "inv") && argc >= 7) return run_md(argv[2], argv[3], atoi(argv[5]), atoi(argv[6]), atoi(argv[4]), argc > 7 ? atoi(argv[7]) : 1, 0);
    if (!strcmp(argv[1], "seq") && argc >= 6) return run_seq(argv[2], argv[3], atoi(argv[4]), atoi(argv[5]), argv + 6);
    if (!strcmp(argv[1], "uac") && argc >= 5) return run_uac(argv[2], argv[3], argv[4]);
    return 2;
}
