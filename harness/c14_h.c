/* c14_h.c -- scenario programs of the C14 check (I/O fault injection): write and modify sessions at the cgio
   level and at the mid-level (MLL), every API status printed.
   usage:  c14_h run  <file>      script on stdin, one line "s <status>" per op (the session is ARMed for the
                                  interposer from the first op to the last)
           c14_h dump <file>...   canonical logical dump (c15_dump.c)
   script (paths are node paths such as /A/B; data is derived from <seed> by gen()):
     open <w|m|r> <adf|hdf5>        new <parent> <name> <label> <I4|R8|C1> <n> <seed>
     wr <path> <type> <n> <seed>    del <path>      setlabel <path> <label>    link <parent> <name> <file> <target>
     flush   compress   close
     cgopen <w|m> <adf|hdf5>   base <name>   zone <name> <n>   coord <name> <seed>   sol <name>   field <name> <seed>
     desc <name> <text>   cgdelsol <name>   cgdeldesc <name>   cgclose   zn <n> (size of the existing zone; no call) */
#include <stdio.h>
#include <stdlib.h>
#include <string.h>
#include <unistd.h>
#include "cgnslib.h"
#include "cgns_io.h"
#include "c15_dump.c"

static int cg = 0, fn = -1, B = 1, Z = 1, S = 1, zn = 2;
static double root;

static void *gen(const char *type, long n, unsigned long long seed, size_t *nbytes)
{
    long i;
    if (!strcmp(type, "I4")) {
        int *v = (int *)malloc(sizeof(int) * (n + 1));
        for (i = 0; i < n; i++) v[i] = (int)((seed * 31 + (unsigned long long)i * 3) & 0x7fffffff);
        *nbytes = 4 * n; return v;
    }
    if (!strcmp(type, "R8")) {
        double *v = (double *)malloc(sizeof(double) * (n + 1));
        for (i = 0; i < n; i++) v[i] = (double)((seed * 7 + (unsigned long long)i) % 1000) / 4.0;
        *nbytes = 8 * n; return v;
    }
    {
        char *v = (char *)malloc(n + 1);
        for (i = 0; i < n; i++) v[i] = (char)('a' + (seed + (unsigned long long)i * 5) % 26);
        *nbytes = n; return v;
    }
}

static int find(const char *path, double *id)
{
    if (!strcmp(path, "/")) { *id = root; return 0; }
    return cgio_get_node_id(cg, root, path, id);
}

int main(int argc, char **argv)
{
    static char line[4096], a[1024], b[1024], c[1024], d[1024], e[1024];
    long n; unsigned long long seed;
    if (argc >= 3 && !strcmp(argv[1], "dump")) {
        int i;
        for (i = 2; i < argc; i++) { char tag[16]; sprintf(tag, "%d", i - 2); dump_file(argv[i], tag); }
        return 0;
    }
    if (argc < 3 || strcmp(argv[1], "run")) return 2;
    access("//VERIF_IP_ARM", 0);
    while (fgets(line, sizeof line, stdin)) {
        int ier = -999;
        if (sscanf(line, "open %1023s %1023s", a, b) == 2) {
            int ft = !strcmp(b, "hdf5") ? CGIO_FILE_HDF5 : CGIO_FILE_ADF;
            ier = cgio_open_file(argv[2], a[0] == 'w' ? CGIO_MODE_WRITE : a[0] == 'm' ? CGIO_MODE_MODIFY : CGIO_MODE_READ,
                                 a[0] == 'w' ? ft : CGIO_FILE_NONE, &cg);
            if (!ier) ier = cgio_get_root_id(cg, &root);
        } else if (sscanf(line, "new %1023s %1023s %1023s %1023s %ld %llu", a, b, c, d, &n, &seed) == 6) {
            double pid, id; size_t nb; cgsize_t dim = n;
            void *v = gen(d, n, seed, &nb);
            ier = find(a, &pid);
            if (!ier) ier = cgio_new_node(cg, pid, b, c, d, 1, &dim, v, &id);
            free(v);
        } else if (sscanf(line, "wr %1023s %1023s %ld %llu", a, d, &n, &seed) == 4) {
            double id; size_t nb; cgsize_t dim = n;
            void *v = gen(d, n, seed, &nb);
            ier = find(a, &id);
            if (!ier) ier = cgio_set_dimensions(cg, id, d, 1, &dim);
            if (!ier) ier = cgio_write_all_data(cg, id, v);
            free(v);
        } else if (sscanf(line, "del %1023s", a) == 1) {
            double id, pid; char *sl;
            ier = find(a, &id);
            strcpy(b, a); sl = strrchr(b, '/'); if (sl == b) strcpy(b, "/"); else *sl = 0;
            if (!ier) ier = find(b, &pid);
            if (!ier) ier = cgio_delete_node(cg, pid, id);
        } else if (sscanf(line, "setlabel %1023s %1023s", a, b) == 2) {
            double id;
            ier = find(a, &id);
            if (!ier) ier = cgio_set_label(cg, id, b);
        } else if (sscanf(line, "link %1023s %1023s %1023s %1023s", a, b, c, d) == 4) {
            double pid, id;
            ier = find(a, &pid);
            if (!ier) ier = cgio_create_link(cg, pid, b, !strcmp(c, "-") ? "" : c, d, &id);
        } else if (!strncmp(line, "flush", 5)) ier = cgio_flush_to_disk(cg);
        else if (!strncmp(line, "compress", 8)) ier = cgio_compress_file(cg, argv[2]);
        else if (!strncmp(line, "close", 5)) ier = cgio_close_file(cg);
        else if (sscanf(line, "cgopen %1023s %1023s", a, b) == 2) {
            ier = cg_set_file_type(!strcmp(b, "hdf5") ? CG_FILE_HDF5 : CG_FILE_ADF);
            if (!ier) ier = cg_open(argv[2], a[0] == 'w' ? CG_MODE_WRITE : CG_MODE_MODIFY, &fn);
        } else if (sscanf(line, "base %1023s", a) == 1) ier = cg_base_write(fn, a, 3, 3, &B);
        else if (sscanf(line, "zone %1023s %ld", a, &n) == 2) {
            cgsize_t size[9] = {0};
            zn = (int)n;
            size[0] = size[1] = size[2] = n; size[3] = size[4] = size[5] = n - 1;
            ier = cg_zone_write(fn, B, a, size, CGNS_ENUMV(Structured), &Z);
        } else if (sscanf(line, "coord %1023s %llu", a, &seed) == 2) {
            size_t nb; int C; void *v = gen("R8", (long)zn * zn * zn, seed, &nb);
            ier = cg_coord_write(fn, B, Z, CGNS_ENUMV(RealDouble), a, v, &C); free(v);
        } else if (sscanf(line, "sol %1023s", a) == 1) ier = cg_sol_write(fn, B, Z, a, CGNS_ENUMV(Vertex), &S);
        else if (sscanf(line, "field %1023s %llu", a, &seed) == 2) {
            size_t nb; int F; void *v = gen("R8", (long)zn * zn * zn, seed, &nb);
            ier = cg_field_write(fn, B, Z, S, CGNS_ENUMV(RealDouble), a, v, &F); free(v);
        } else if (sscanf(line, "desc %1023s %1023s", a, b) == 2) {
            ier = cg_goto(fn, B, "end");
            if (!ier) ier = cg_descriptor_write(a, b);
        } else if (sscanf(line, "cgdelsol %1023s", a) == 1) {
            ier = cg_goto(fn, B, "Zone_t", Z, "end");
            if (!ier) ier = cg_delete_node(a);
        } else if (sscanf(line, "cgdeldesc %1023s", a) == 1) {
            ier = cg_goto(fn, B, "end");
            if (!ier) ier = cg_delete_node(a);
        } else if (!strncmp(line, "cgclose", 7)) ier = cg_close(fn);
        else if (sscanf(line, "zn %ld", &n) == 1) { zn = (int)n; continue; }    /* size of the existing zone, no library call */
        else continue;
        printf("s %d\n", ier);
        fflush(stdout);
        access("//VERIF_IP_MARK", 0);
    }
    access("//VERIF_IP_DISARM", 0);
    printf("end\n");
    return 0;
}
