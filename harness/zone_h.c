/* zone_h.c -- implementation side of the C18 API-level correspondence: zones / particle zones of one
   base driven through cg_zone_write / cg_particle_write / cg_delete_node / cg_gopath, the session
   view read back through cg_nzones / cg_zone_read (and the particle twins).
   usage: zone_h <file> <adf|hdf5> <zone|particle>     script on stdin, one canonical line per op */
#include <stdio.h>
#include <stdlib.h>
#include <string.h>
#include "cgnslib.h"

static int fn = -1, B = 1, particle = 0;
static void unhex(const char *h, char *out) {
    size_t n = 0;
    if (h[0] == '-' && h[1] == 0) { out[0] = 0; return; }
    while (h[0] && h[1]) { unsigned v; sscanf(h, "%2x", &v); out[n++] = (char)v; h += 2; }
    out[n] = 0;
}
static void hexout(const char *s) { if (!*s) printf("-"); for (; *s; s++) printf("%02x", (unsigned char)*s); }
static int count(void) { int n = 0; if (particle ? cg_nparticle_zones(fn, B, &n) : cg_nzones(fn, B, &n)) return -1; return n; }
static int readz(int i, char *name, long long *payload) {
    cgsize_t size[9]; int ier;
    memset(size, 0, sizeof size);
    ier = particle ? cg_particle_read(fn, B, i, name, size) : cg_zone_read(fn, B, i, name, size);
    *payload = (long long)size[0];
    return ier;
}
static void list(char tag) {
    int n = count(), i; char name[64]; long long p;
    printf("%c ", tag);
    if (n <= 0) printf("-");
    for (i = 1; i <= n; i++) {
        if (readz(i, name, &p)) { printf("?"); continue; }
        if (i > 1) printf(",");
        hexout(name);
        if (tag == 'L') printf(":%lld", p);
    }
    printf("\n");
}
int main(int argc, char **argv) {
    static char line[4096], a[2048], name[1024];
    long long v;
    if (argc < 4) return 2;
    particle = strcmp(argv[3], "particle") == 0;
    cg_set_file_type(strcmp(argv[2], "hdf5") == 0 ? CG_FILE_HDF5 : CG_FILE_ADF);
    if (cg_open(argv[1], CG_MODE_WRITE, &fn) || cg_base_write(fn, "Base", 3, 3, &B)) { printf("openfail %s\n", cg_get_error()); return 3; }
    if (cg_close(fn) || cg_open(argv[1], CG_MODE_MODIFY, &fn)) { printf("openfail %s\n", cg_get_error()); return 3; }
    while (fgets(line, sizeof line, stdin)) {
        if (sscanf(line, "zw %2047s %lld", a, &v) == 2) {
            int ier, Z = 0; cgsize_t size[3];
            unhex(a, name);
            size[0] = (cgsize_t)v; size[1] = (cgsize_t)v - 1; size[2] = 0;
            ier = particle ? cg_particle_write(fn, B, name, size[0], &Z) : cg_zone_write(fn, B, name, size, CGNS_ENUMV(Unstructured), &Z);
            printf("r %d\n", ier ? 0 : Z);
        } else if (sscanf(line, "zdel %2047s", a) == 1) {
            int ier;
            unhex(a, name);
            ier = cg_goto(fn, B, "end");
            if (!ier) ier = cg_delete_node(name);
            printf("r %d\n", ier ? 1 : 0);
        } else if (strncmp(line, "reopen", 6) == 0) {
            if (cg_close(fn) || cg_open(argv[1], CG_MODE_MODIFY, &fn)) { printf("reopenfail %s\n", cg_get_error()); return 3; }
            list('O');                      /* order in which the reopened file lists the zones */
        } else if (strncmp(line, "list", 4) == 0) {
            list('L');
        } else if (sscanf(line, "goto %2047s", a) == 1) {
            /* navigation by name: which zone does /Base/<name> reach? */
            char path[1200], *labels[CG_MAX_GOTO_DEPTH]; int nums[CG_MAX_GOTO_DEPTH], f, b, depth, i, ier;
            char zn[64]; long long p = 0;
            for (i = 0; i < CG_MAX_GOTO_DEPTH; i++) labels[i] = malloc(33);
            unhex(a, name);
            snprintf(path, sizeof path, "/Base/%s", name);
            ier = cg_gopath(fn, path);
            if (ier) printf("g absent\n");
            else if (cg_where(&f, &b, &depth, labels, nums) || depth != 1) printf("g where?\n");
            else { zn[0] = 0; if (readz(nums[0], zn, &p)) printf("g read?\n"); else { printf("g %d ", nums[0]); hexout(zn); printf(":%lld\n", p); } }
            for (i = 0; i < CG_MAX_GOTO_DEPTH; i++) free(labels[i]);
        } else if (line[0] == '\n') ;
        else printf("badline %s", line);
        fflush(stdout);
    }
    if (cg_close(fn)) { printf("closefail %s\n", cg_get_error()); return 3; }
    return 0;
}
