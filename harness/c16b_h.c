/* c16b_h.c -- implementation side of the C16 second layer (the three real handle tables).
   Drives cg_open / cg_close / a use of a RAW file number (MLL), and cgio_open_file / cgio_close_file / uses of a RAW cgio
   number (cgio + ADF), and prints after every operation the call's answer, the IDENTITY of the file a handle reached
   (every file carries its own number in a node name / label), and the handle tables:
     MLL   n_open, n_cgns_files, cgns_file_size, file_number_offset                  (globals of cgnslib.c)
     cgio  num_open, num_iolist, per slot the ADF file index                          (statics of cgns_io.c, #included)
     ADF   maximum_files, per slot in_use / name / links[]                            (ADF_file[])
   usage: c16b_h <dir> mll|io      script on stdin:
     mll:  mk <id> <adf|hdf5>            create data file M<id>.cgns (one base named B<id>) in a forked child
           prep <id> <garbage|badver|badbase> <adf|hdf5>     special files, forked child
           open <id> <r|m|w> [adf|hdf5|keep]  cg_open (w: cg_set_file_type(type) first; r/m: cg_set_file_type(ADF) first so
                                         that the type of the existing file is detected, unless "keep")  -> "open <0|1> <fn>"
           close <fn>                    cg_close(fn) with the raw number        -> "close <0|1>"
           get <fn>                      cg_get_cgio(fn) + name of the base node   -> "get <0|1> <base name or ->"
     io:   world <kinds> <links>         as harness/c17_io.c (kinds ok|okL|okB|okE = NATIVE / LEGACY / IEEE_BIG / IEEE_LITTLE layout,
                                         missing, garbage, badhdr); the node /D of file i has the label F<i>_t
           open <n> <r|m>                -> "open ok <c>" | "open err 0"
           close <c>                     -> "close <status>"
           use <c>                       cgio_get_root_id + cgio_get_node_id(/D) + cgio_get_label -> "use <0|1> <label or ->"
           walk <c> <n>                  label of /D/L<n> read through handle c (a link into file n) -> "walk <0|1> <label or ->"
           get <c>                       cgio_get_file_type (looks at nothing but get_cgnsio)      -> "get <status> <type>"  */
#include <stdio.h>
#include <stdlib.h>
#include <string.h>
#include <unistd.h>
#include <sys/types.h>
#include <sys/wait.h>
#include <sys/stat.h>
#include "cgnslib.h"
#include "cgns_io.c"
#include "adf/ADF.h"
#include "adf/ADF_internals.h"

extern int n_open, n_cgns_files, cgns_file_size, file_number_offset;
static char dir[600];

static void mpath(int id, char *out) { sprintf(out, "%s/M%d.cgns", dir, id); }
static void ipath(int n, char *out) { sprintf(out, "%s/F%d.cgio", dir, n); }

static int in_child(void (*fn)(int, const char *, const char *), int id, const char *a, const char *b)
{
    pid_t pid; int st = 0;
    fflush(stdout);
    pid = fork();
    if (pid == 0) { fn(id, a, b); fflush(stdout); _exit(0); }
    waitpid(pid, &st, 0);
    return WIFEXITED(st) && WEXITSTATUS(st) == 0;
}

static void mk_file(int id, const char *be, const char *unused)
{
    char p[700], nm[40]; int fn, B;
    (void)unused;
    mpath(id, p); sprintf(nm, "B%d", id);
    if (cg_set_file_type(!strcmp(be, "hdf5") ? CG_FILE_HDF5 : CG_FILE_ADF) || cg_open(p, CG_MODE_WRITE, &fn) ||
        cg_base_write(fn, nm, 3, 3, &B) || cg_close(fn)) { printf("mkfail %d\n", id); _exit(3); }
}

static void prep_file(int id, const char *kind, const char *be)
{
    char p[700]; int c, ft = !strcmp(be, "hdf5") ? CGIO_FILE_HDF5 : CGIO_FILE_ADF;
    double root, id1, id2; cgsize_t dim = 1; float v = 9.9f; int iv[8] = {3, 3, 3, 3, 3, 0, 0, 0};
    mpath(id, p);
    if (!strcmp(kind, "garbage")) { FILE *f = fopen(p, "wb"); int j; for (j = 0; j < 64; j++) fputc(33 + (j * 11) % 90, f); fclose(f); return; }
    if (cgio_open_file(p, 'w', ft, &c)) _exit(3);
    cgio_get_root_id(c, &root);
    if (!strcmp(kind, "badver")) cgio_new_node(c, root, "CGNSLibraryVersion", "CGNSLibraryVersion_t", "R4", 1, &dim, &v, &id1);
    else if (!strcmp(kind, "twovers")) {      /* two version nodes: refused by cg_version */
        v = 3.2f; cgio_new_node(c, root, "CGNSLibraryVersion", "CGNSLibraryVersion_t", "R4", 1, &dim, &v, &id1);
        cgio_new_node(c, root, "CGNSLibraryVersion2", "CGNSLibraryVersion_t", "R4", 1, &dim, &v, &id2);
    } else if (!strcmp(kind, "badzone")) {    /* a good base with a zone whose dimensions are wrong: refused deep inside cgi_read */
        double bid; cgsize_t d2 = 2;
        v = 3.2f; cgio_new_node(c, root, "CGNSLibraryVersion", "CGNSLibraryVersion_t", "R4", 1, &dim, &v, &id1);
        cgio_new_node(c, root, "Base", "CGNSBase_t", "I4", 1, &d2, iv, &bid);
        dim = 7; cgio_new_node(c, bid, "Zone", "Zone_t", "I4", 1, &dim, iv, &id2);
    } else {
        v = 3.2f; cgio_new_node(c, root, "CGNSLibraryVersion", "CGNSLibraryVersion_t", "R4", 1, &dim, &v, &id1);
        dim = 5; cgio_new_node(c, root, "Base", "CGNSBase_t", "I4", 1, &dim, iv, &id2);
    }
    if (cgio_close_file(c)) _exit(3);
}

static void make_world(int unused, const char *kinds_in, const char *links)
{
    char kinds[4096], *k[64], *save, *t; int nk = 0, i;
    (void)unused;
    strncpy(kinds, kinds_in, sizeof kinds - 1); kinds[sizeof kinds - 1] = 0;
    for (t = strtok_r(kinds, ",", &save); t && nk < 64; t = strtok_r(NULL, ",", &save)) k[nk++] = t;
    for (i = 0; i < nk; i++) {
        char p[700]; ipath(i, p);
        if (!strcmp(k[i], "garbage") || !strcmp(k[i], "badhdr")) {
            FILE *f = fopen(p, "wb"); int j;
            if (!strcmp(k[i], "badhdr")) fputs("@(#)ADF Database Version B02012>", f);
            for (j = 0; j < 64; j++) fputc(33 + (j * 7) % 90, f);
            fclose(f);
        } else if (!strcmp(k[i], "dir")) mkdir(p, 0777);
    }
    for (i = 0; i < nk; i++) {
        char p[700], ln[4096], lab[40], *s2, *e; double root, did, lid; int err;
        const char *fmt = !strcmp(k[i], "okL") ? "LEGACY" : !strcmp(k[i], "okB") ? "IEEE_BIG" : !strcmp(k[i], "okE") ? "IEEE_LITTLE" : "NATIVE";
        if (strncmp(k[i], "ok", 2)) continue;
        ipath(i, p); sprintf(lab, "F%d_t", i); remove(p);
        /* the ADF core interface takes the layout: NATIVE, LEGACY ("Version A": ASCII-hex pointers), IEEE_BIG, IEEE_LITTLE */
        ADF_Database_Open(p, "NEW", fmt, &root, &err);
        if (err != -1) _exit(3);
        ADF_Create(root, "D", &did, &err); ADF_Set_Label(did, lab, &err);
        strncpy(ln, links, sizeof ln - 1); ln[sizeof ln - 1] = 0;
        for (e = strtok_r(ln, ",", &s2); e; e = strtok_r(NULL, ",", &s2)) {
            int a, b; char nm[40], fn[40];
            if (sscanf(e, "%d>%d", &a, &b) != 2 || a != i) continue;
            sprintf(nm, "L%d", b); sprintf(fn, "F%d.cgio", b);
            ADF_Link(did, nm, fn, "/D", &lid, &err);
            if (err != -1) _exit(3);
        }
        ADF_Database_Close(root, &err);
        if (err != -1) _exit(3);
    }
}

static int name_id(const char *fn)
{
    const char *b;
    if (!fn) return -1;
    b = strrchr(fn, '/'); b = b ? b + 1 : fn;
    return (b[0] == 'F') ? atoi(b + 1) : -2;
}

static void dump_mll(void) { printf(" | mll %d %d %d %d\n", n_open, n_cgns_files, cgns_file_size, file_number_offset); fflush(stdout); }

static void dump_io(void)
{
    int i, j;
    printf(" | io %d %d ", num_open, num_iolist);
    for (i = 0; i < num_iolist; i++) {
        if (i) printf(",");
        if (iolist[i].type == CGIO_FILE_NONE) printf("-");
        else {
            unsigned int fi = 0; cgulong_t b, o; int err;
            ADFI_ID_2_file_block_offset(iolist[i].rootid, &fi, &b, &o, &err);
            if (err == NO_ERROR || err == BLOCK_OFFSET_OUT_OF_RANGE) printf("%u", fi); else printf("?");
        }
    }
    if (num_iolist == 0) printf("-");
    printf(" | adf %d ", maximum_files);
    for (i = 0; i < maximum_files; i++) {
        if (i) printf(";");
        printf("%d:%d:", ADF_file[i].in_use, ADF_file[i].in_use ? name_id(ADF_file[i].file_name) : -1);
        if (ADF_file[i].in_use == 0 || ADF_file[i].nlinks == 0) printf("-");
        else for (j = 0; j < ADF_file[i].nlinks; j++) printf("%s%u", j ? "," : "", ADF_file[i].links[j]);
        /* the per-file attributes of an entry in use: old_version, format, os_size, link_separator, version update pending */
        if (ADF_file[i].in_use) printf(":%d%c%c%c%d", ADF_file[i].old_version, ADF_file[i].format ? ADF_file[i].format : '0',
                                       ADF_file[i].os_size ? ADF_file[i].os_size : '0',
                                       ADF_file[i].link_separator == ' ' ? '_' : ADF_file[i].link_separator, ADF_file[i].version_update[0] != 0);
        else printf(":-");
    }
    if (maximum_files == 0) printf("-");
    printf("\n"); fflush(stdout);
}

int main(int argc, char **argv)
{
    static char line[8192], a[4096], b[4096];
    int mll, id, n, c; char m;
    if (argc < 3) return 2;
    strncpy(dir, argv[1], sizeof dir - 1);
    mll = !strcmp(argv[2], "mll");
    while (fgets(line, sizeof line, stdin)) {
        size_t L = strlen(line);
        while (L && (line[L - 1] == '\n' || line[L - 1] == '\r')) line[--L] = 0;
        if (!L || line[0] == '#') continue;
        if (mll) {
            if (sscanf(line, "mk %d %4095s", &id, a) == 2) {
                if (!in_child(mk_file, id, a, "")) { printf("mkfail\n"); return 3; }
                printf("mk 0"); dump_mll();
            } else if (sscanf(line, "prep %d %4095s %4095s", &id, a, b) == 3) {
                if (!in_child(prep_file, id, a, b)) { printf("prepfail\n"); return 3; }
                printf("prep 0"); dump_mll();
            } else if (sscanf(line, "open %d %c %4095s", &id, &m, a) >= 2) {
                char p[700]; int fn = -7, st;
                mpath(id, p);
                if (m == 'w') cg_set_file_type(!strcmp(a, "hdf5") ? CG_FILE_HDF5 : CG_FILE_ADF);
                else if (strcmp(a, "keep")) cg_set_file_type(CG_FILE_ADF);   /* any default but HDF5 lets cgio_open_file detect the
                    type of an EXISTING file; with the default left at HDF5 (after writing an HDF5 file) cg_open refuses every ADF
                    file -- "open <id> r keep" shows that (finding open:adf-file-refused-after-hdf5-default) */
                st = cg_open(p, m == 'w' ? CG_MODE_WRITE : m == 'm' ? CG_MODE_MODIFY : CG_MODE_READ, &fn);
                if (!st && m == 'w') { int B; char nm[40]; sprintf(nm, "B%d", id); cg_base_write(fn, nm, 3, 3, &B); }
                /* "left": what the call left in the caller's variable (initialised to -7): the number of the file, or, for a
                   refused open, whatever cg_open stored before it failed */
                printf("open %d %d left %d", st ? 1 : 0, st ? 0 : fn, fn); dump_mll();
            } else if (sscanf(line, "close %d", &n) == 1) {
                int st = cg_close(n);
                printf("close %d", st ? 1 : 0); dump_mll();
            } else if (sscanf(line, "get %d", &n) == 1) {
                /* a use that is legal in every mode: cg_get_cgio (cgi_get_file) -- ITS status is the answer: does the number
                   resolve? -- then the name of the base node as the file has it ("-" when the cgio calls fail) */
                int st, st2, cg_io = 0, cnt = 0, i; char nm[64] = "-"; double root; char names[10 * 33];
                st = cg_get_cgio(n, &cg_io);
                st2 = st;
                if (!st2) st2 = cgio_get_root_id(cg_io, &root);
                if (!st2) st2 = cgio_children_names(cg_io, root, 1, 10, 33, &cnt, names);
                if (!st2) {
                    for (i = 0; i < cnt; i++)
                        if (names[i * 33] == 'B' && names[i * 33 + 1] >= '0' && names[i * 33 + 1] <= '9') strcpy(nm, &names[i * 33]);
                }
                printf("get %d %s", st ? 1 : 0, nm); dump_mll();
            } else { printf("badline %s\n", line); fflush(stdout); }
        } else {
            if (sscanf(line, "world %4095s %4095s", a, b) == 2) {
                if (!in_child(make_world, 0, a, b)) { printf("worldfail\n"); return 3; }
                printf("world ok"); dump_io();
            } else if (sscanf(line, "open %d %c", &n, &m) == 2) {
                char p[700]; int st;
                ipath(n, p); c = 0;
                st = cgio_open_file(p, m, CGIO_FILE_NONE, &c);
                if (st) printf("open err 0"); else printf("open ok %d", c);
                dump_io();
            } else if (sscanf(line, "new %d", &n) == 1) {
                /* new <n>: create file F<n> afresh (ADF) and touch nothing else: ADF_Database_Open(NEW) leaves the file's first
                   block in the write buffer that all ADF files share */
                char p[700]; int st;
                ipath(n, p); c = 0;
                st = cgio_open_file(p, 'w', CGIO_FILE_ADF, &c);
                if (st) printf("new err 0"); else printf("new ok %d", c);
                dump_io();
            } else if (sscanf(line, "close %d", &c) == 1) {
                int st = cgio_close_file(c);
                printf("close %d", st); dump_io();
            } else if (sscanf(line, "use %d", &c) == 1) {
                double root = 0, idd = 0; char label[CGIO_MAX_LABEL_LENGTH + 1] = "-"; int st;
                st = cgio_get_root_id(c, &root);
                if (!st) st = cgio_get_node_id(c, root, "/D", &idd);
                if (!st) st = cgio_get_label(c, idd, label);
                printf("use %d %s", st ? 1 : 0, st ? "-" : label); dump_io();
            } else if (sscanf(line, "walk %d %d", &c, &n) == 2) {
                /* read through the link node /D/L<n> of the file behind handle c: must reach the node /D of file n */
                double root = 0, idd = 0; char label[CGIO_MAX_LABEL_LENGTH + 1] = "-", path[64]; int st;
                sprintf(path, "/D/L%d", n);
                st = cgio_get_root_id(c, &root);
                if (!st) st = cgio_get_node_id(c, root, path, &idd);
                if (!st) st = cgio_get_label(c, idd, label);
                printf("walk %d %s", st ? 1 : 0, st ? "-" : label); dump_io();
            } else if (sscanf(line, "put %d %d %d", &c, &n, &id) == 3) {
                /* put <c> <k> <v>: (over)write the 24 x I4 node /D/P<k> of the file behind handle c with the value v */
                double root = 0, idd = 0, pid = 0; char nm[40]; int st, q, buf[24]; cgsize_t dim = 24;
                sprintf(nm, "P%d", n);
                for (q = 0; q < 24; q++) buf[q] = id;
                st = cgio_get_root_id(c, &root);
                if (!st && cgio_get_node_id(c, root, "/D", &idd)) {          /* a file made by "new" has no /D yet */
                    st = cgio_create_node(c, root, "D", &idd);
                    if (!st) st = cgio_set_label(c, idd, "Fnew_t");
                }
                if (!st && cgio_get_node_id(c, idd, nm, &pid)) {
                    st = cgio_create_node(c, idd, nm, &pid);
                    if (!st) st = cgio_set_label(c, pid, "DataArray_t");
                    if (!st) st = cgio_set_dimensions(c, pid, "I4", 1, &dim);
                }
                if (!st) st = cgio_write_all_data(c, pid, buf);
                printf("put %d", st ? 1 : 0); dump_io();
            } else if (sscanf(line, "chk %d %d", &c, &n) == 2) {
                /* chk <c> <k>: read /D/P<k> back: "chk 0 <v>" when all 24 values are v, "chk 0 mixed:<first>:<last>" otherwise */
                double root = 0, idd = 0; char path[40]; int st, q, same = 1, buf[24];
                sprintf(path, "/D/P%d", n);
                memset(buf, 0, sizeof buf);
                st = cgio_get_root_id(c, &root);
                if (!st) st = cgio_get_node_id(c, root, path, &idd);
                if (!st) st = cgio_read_all_data_type(c, idd, "I4", buf);
                for (q = 1; q < 24; q++) if (buf[q] != buf[0]) same = 0;
                if (st) printf("chk 1 -"); else if (same) printf("chk 0 %d", buf[0]); else printf("chk 0 mixed:%d:%d", buf[0], buf[23]);
                dump_io();
            } else if (sscanf(line, "get %d", &c) == 1) {
                int ft = -1, st = cgio_get_file_type(c, &ft);
                printf("get %d %d", st ? 1 : 0, st ? -1 : ft); dump_io();
            } else { printf("badline %s\n", line); fflush(stdout); }
        }
    }
    return 0;
}
