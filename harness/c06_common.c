/* c06_common.c -- shared by the C06 harnesses (#included, not compiled alone): type names, hex <-> bytes, and THE
   ORACLE of property C06: plain C casts, written here independently of cgi_convert_data (the property says
   "equal C conversion"; this is the C conversion as the compiler of the build under test performs it). */
#include <stdio.h>
#include <stdlib.h>
#include <string.h>

enum { T_C1, T_I4, T_I8, T_R4, T_R8, T_X4, T_X8, T_NONE };
static const char *tnames[] = {"C1", "I4", "I8", "R4", "R8", "X4", "X8", "none"};
static const int tsize[] = {1, 4, 8, 4, 8, 8, 16, 0};
static int tparse(const char *s) { int i; for (i = 0; i < 7; i++) if (!strcmp(s, tnames[i])) return i; return T_NONE; }
static int t_is_cplx(int t) { return t == T_X4 || t == T_X8; }

static int hexval(int c) { return c >= '0' && c <= '9' ? c - '0' : c >= 'a' && c <= 'f' ? c - 'a' + 10 : c >= 'A' && c <= 'F' ? c - 'A' + 10 : -1; }
/* "-" = empty; returns number of bytes, buffer malloc'ed (at least 1 byte) */
static long unhex(const char *h, unsigned char **out) {
    size_t n = strlen(h), i;
    if (n == 1 && h[0] == '-') { *out = malloc(1); return 0; }
    *out = malloc(n / 2 + 1);
    for (i = 0; i + 1 < n; i += 2) (*out)[i / 2] = (unsigned char)(hexval(h[i]) * 16 + hexval(h[i + 1]));
    return (long)(n / 2);
}
static void puthex(const unsigned char *p, long n) { long i; if (n == 0) printf("-"); for (i = 0; i < n; i++) printf("%02x", p[i]); }

/* ---- the oracle: dst[i] = (T_to) src[i], nothing else ---- */
#define CAST_LOOP(TF, TT) { const TF *s_ = (const TF *)src; TT *d_ = (TT *)dst; for (i = 0; i < n; i++) d_[i] = (TT)s_[i]; return 0; }
#define CAST_FROM(TF) switch (to) { \
    case T_C1: CAST_LOOP(TF, char) case T_I4: CAST_LOOP(TF, int) case T_I8: CAST_LOOP(TF, long long) \
    case T_R4: CAST_LOOP(TF, float) case T_R8: CAST_LOOP(TF, double) default: return 1; }
static int oracle_cast(int from, int to, const void *src, void *dst, long n) {
    long i;
    if (t_is_cplx(from) != t_is_cplx(to)) return 1;       /* not a supported conversion */
    switch (from) {
    case T_C1: CAST_FROM(char)
    case T_I4: CAST_FROM(int)
    case T_I8: CAST_FROM(long long)
    case T_R4: CAST_FROM(float)
    case T_R8: CAST_FROM(double)
    case T_X4:
        if (to == T_X4) { memcpy(dst, src, (size_t)n * 8); return 0; }
        { const float *s_ = (const float *)src; double *d_ = (double *)dst; for (i = 0; i < 2 * n; i++) d_[i] = (double)s_[i]; return 0; }
    case T_X8:
        if (to == T_X8) { memcpy(dst, src, (size_t)n * 16); return 0; }
        { const double *s_ = (const double *)src; float *d_ = (float *)dst; for (i = 0; i < 2 * n; i++) d_[i] = (float)s_[i]; return 0; }
    }
    return 1;
}
