! c20f_cgio.f90 -- cgio_*_f operations of the Fortran driver.  Mirrors the `f` branches of harness/c20_wrap.c.
module c20f_cgio
  use c20f_m
  implicit none
contains

  subroutine op_io_open()
    character(len=:), allocatable :: m
    integer :: mode, pad, ft, num, ier, L
    m = tw(); pad = int(ti())
    mode = CGIO_MODE_READ
    if (m(1:1) == 'w') mode = CGIO_MODE_WRITE
    if (m(1:1) == 'm') mode = CGIO_MODE_MODIFY
    ft = CGIO_FILE_ADF
    if (backend == 1) ft = CGIO_FILE_HDF5
    L = len_trim(path2) + pad
    num = -1
    call cgio_open_file_f(path2(1:L), mode, ft, num, ier)
    cgio_n = num
    if (ier == 0) then
      call cgio_get_root_id_f(cgio_n, ids(0), ier)
      nids = 1; ier = 0
    end if
    call ier_out(ier); call nl()
  end subroutine

  subroutine op_io_close()
    integer :: ier
    call cgio_close_file_f(cgio_n, ier)
    call ier_out(ier); call nl()
  end subroutine

  subroutine op_io_create()
    type(fstr) :: n
    integer :: p, ier
    real(c_double) :: id
    p = int(ti()); call ts(n); id = 0
    call cgio_create_node_f(cgio_n, ids(p), n%p, id, ier)
    call ier_out(ier)
    if (ier == 0 .and. nids < 64) then
      ids(nids) = id; call kv('idx', int(nids, 8)); nids = nids + 1
    end if
    call nl()
  end subroutine

  subroutine op_io_new()
    type(fstr) :: n, l, dt
    integer :: p, nd, ier, i
    integer(cgsize_t) :: dim
    integer(c_int32_t) :: dat(64)
    real(c_double) :: id
    p = int(ti()); call ts(n); call ts(l); call ts(dt); dim = ti(); nd = 1; id = 0
    do i = 0, 63
      dat(i + 1) = 100 + i
    end do
    call cgio_new_node_f(cgio_n, ids(p), n%p, l%p, dt%p, nd, dim, dat, id, ier)
    call ier_out(ier)
    if (ier == 0 .and. nids < 64) then
      ids(nids) = id; call kv('idx', int(nids, 8)); nids = nids + 1
    end if
    call nl()
  end subroutine

  subroutine op_io_get_name()
    type(fout) :: o
    integer :: i, ier
    i = int(ti()); call fo(o, int(ti()))
    call cgio_get_name_f(cgio_n, ids(i), o%a(GUARD + 1:GUARD + o%n), ier)
    call ier_out(ier); call pf('name', o); call nl()
  end subroutine

  subroutine op_io_get_label()
    type(fout) :: o
    integer :: i, ier
    i = int(ti()); call fo(o, int(ti()))
    call cgio_get_label_f(cgio_n, ids(i), o%a(GUARD + 1:GUARD + o%n), ier)
    call ier_out(ier); call pf('label', o); call nl()
  end subroutine

  subroutine op_io_get_data_type()
    type(fout) :: o
    integer :: i, ier
    i = int(ti()); call fo(o, int(ti()))
    call cgio_get_data_type_f(cgio_n, ids(i), o%a(GUARD + 1:GUARD + o%n), ier)
    call ier_out(ier); call pf('dt', o); call nl()
  end subroutine

  subroutine op_io_set_name()
    type(fstr) :: n
    integer :: p, i, ier
    p = int(ti()); i = int(ti()); call ts(n)
    call cgio_set_name_f(cgio_n, ids(p), ids(i), n%p, ier)
    call ier_out(ier); call nl()
  end subroutine

  subroutine op_io_set_label()
    type(fstr) :: n
    integer :: i, ier
    i = int(ti()); call ts(n)
    call cgio_set_label_f(cgio_n, ids(i), n%p, ier)
    call ier_out(ier); call nl()
  end subroutine

  subroutine op_io_get_node_id()
    type(fstr) :: n
    integer :: p, ier, k, found, e2
    real(c_double) :: id
    character(len=32) :: a, b
    p = int(ti()); call ts(n); id = 0; found = -1
    call cgio_get_node_id_f(cgio_n, ids(p), n%p, id, ier)
    if (ier == 0) then
      a = ' '
      call cgio_get_name_f(cgio_n, id, a, e2)
      do k = 0, nids - 1
        b = ' '
        call cgio_get_name_f(cgio_n, ids(k), b, e2)
        if (a == b) found = k
      end do
    end if
    call ier_out(ier); if (ier == 0) call kv('idx', int(found, 8)); call nl()
  end subroutine

  subroutine op_io_set_dims()
    type(fstr) :: dt
    integer :: i, nd, ier
    integer(cgsize_t) :: dim
    i = int(ti()); call ts(dt); dim = ti(); nd = 1
    call cgio_set_dimensions_f(cgio_n, ids(i), dt%p, nd, dim, ier)       ! generic -> cgio_set_dimensions_f_0 (scalar dims)
    call ier_out(ier); call nl()
  end subroutine

  subroutine op_io_get_dims()
    integer :: i, nd, ier
    integer(cgsize_t) :: dims(12)
    i = int(ti()); dims = 0; nd = -1
    call cgio_get_dimensions_f(cgio_n, ids(i), nd, dims, ier)            ! generic -> cgio_get_dimensions_f_1 (array dims)
    call ier_out(ier)
    if (ier == 0) then
      call kv('nd', int(nd, 8)); call kv('d0', int(dims(1), 8))
    end if
    call nl()
  end subroutine

  subroutine op_io_nchildren()
    integer :: i, n, ier
    i = int(ti()); n = -1
    call cgio_number_children_f(cgio_n, ids(i), n, ier)
    call ier_out(ier); if (ier == 0) call kv('n', int(n, 8)); call nl()
  end subroutine

  subroutine op_io_children_names()
    type(fout) :: o
    integer :: i, st, mx, nlen, nr, ier
    i = int(ti()); st = int(ti()); mx = int(ti()); nlen = int(ti()); nr = -1
    call fo(o, mx * nlen)
    call cgio_children_names_f(cgio_n, ids(i), st, mx, nlen, nr, o%a(GUARD + 1:GUARD + o%n), ier)
    call ier_out(ier); if (ier == 0) call kv('nr', int(nr, 8)); call pf('names', o); call nl()
  end subroutine

  subroutine op_io_create_link()
    type(fstr) :: n, f, l
    integer :: p, ier
    real(c_double) :: id
    p = int(ti()); call ts(n); call ts(f); call ts(l); id = 0
    call cgio_create_link_f(cgio_n, ids(p), n%p, f%p, l%p, id, ier)
    call ier_out(ier)
    if (ier == 0 .and. nids < 64) then
      ids(nids) = id; call kv('idx', int(nids, 8)); nids = nids + 1
    end if
    call nl()
  end subroutine

  subroutine op_io_is_link()
    integer :: i, n, ier
    i = int(ti()); n = -1
    call cgio_is_link_f(cgio_n, ids(i), n, ier)
    call ier_out(ier); if (ier == 0) call kv('len', int(n, 8)); call nl()
  end subroutine

  subroutine op_io_link_size()
    integer :: i, a, b, ier
    i = int(ti()); a = -1; b = -1
    call cgio_link_size_f(cgio_n, ids(i), a, b, ier)
    call ier_out(ier)
    if (ier == 0) then
      call kv('fl', int(a, 8)); call kv('nl', int(b, 8))
    end if
    call nl()
  end subroutine

  subroutine op_io_get_link()
    type(fout) :: o, o2
    integer :: i, ier
    i = int(ti()); call fo(o, int(ti())); call fo(o2, int(ti()))
    call cgio_get_link_f(cgio_n, ids(i), o%a(GUARD + 1:GUARD + o%n), o2%a(GUARD + 1:GUARD + o2%n), ier)
    call ier_out(ier); call pf('file', o); call pf('path', o2); call nl()
  end subroutine

  subroutine op_io_write_all()
    integer :: i, k, ier
    integer(c_int32_t) :: dat(64)
    i = int(ti())
    do k = 0, 63
      dat(k + 1) = 7 * k + i
    end do
    call cgio_write_all_data_f(cgio_n, ids(i), dat, ier)
    call ier_out(ier); call nl()
  end subroutine

  subroutine op_io_read_all()
    type(fstr) :: dt
    integer :: i, n, ier
    integer(c_int32_t), target :: dat(80)
    i = int(ti()); call ts(dt); n = int(ti()); dat = 0
    call cgio_read_all_data_type_f(cgio_n, ids(i), dt%p, dat, ier)
    call ier_out(ier); if (ier == 0) call emit_h64('h', c20f_fnv(c_loc(dat), int(4 * min(n, 64), c_size_t))); call nl()
  end subroutine

  subroutine op_io_delete()
    integer :: p, i, ier
    p = int(ti()); i = int(ti())
    call cgio_delete_node_f(cgio_n, ids(p), ids(i), ier)
    call ier_out(ier); call nl()
  end subroutine

  subroutine op_io_error_message()
    type(fout) :: o
    integer :: ier
    call fo(o, int(ti()))
    call cgio_error_message_f(o%a(GUARD + 1:GUARD + o%n), ier)
    call ier_out(ier); call pf('msg', o); call nl()
  end subroutine

  subroutine op_io_library_version()
    type(fout) :: o
    integer :: ier
    call fo(o, int(ti()))
    call cgio_library_version_f(cgio_n, o%a(GUARD + 1:GUARD + o%n), ier)
    call ier_out(ier); call pf('ver', o); call nl()
  end subroutine

  subroutine op_io_file_version()  ! three CHARACTER outputs; the two dates vary with the clock: guard bytes only
    type(fout) :: o, o2, o3
    integer :: ier
    call fo(o, int(ti())); call fo(o2, int(ti())); call fo(o3, int(ti()))
    call cgio_file_version_f(cgio_n, o%a(GUARD + 1:GUARD + o%n), o2%a(GUARD + 1:GUARD + o2%n), o3%a(GUARD + 1:GUARD + o3%n), ier)
    call ier_out(ier); call pf('ver', o); call pfo('cdate', o2); call pfo('mdate', o3); call nl()
  end subroutine

  subroutine pfo(tag, o)           ! like pf, without the content
    character(len=*), intent(in) :: tag
    type(fout), intent(in) :: o
    integer :: a, b
    a = opos + len(tag) + 2
    call pf(tag, o)
    b = index(outl(a + 1:opos), '/oob:')
    if (b > 0) then
      outl(a + 1:a + (opos - (a + b - 1))) = outl(a + b:opos)
      opos = a + (opos - (a + b - 1))
    end if
  end subroutine

  subroutine op_io_check_file()
    integer :: pad, ft, ier, L
    pad = int(ti()); ft = -1
    L = len_trim(path2) + pad
    call cgio_check_file_f(path2(1:L), ft, ier)
    call ier_out(ier); if (ier == 0) call kv('ft', int(ft, 8)); call nl()
  end subroutine
end module c20f_cgio
