! c20f_mod2.f90 -- more Fortran-IMPLEMENTED wrappers (module procedures of cgns_f.F90): family names with family PATHS longer than 32,
! cg_discrete_ptset_write_f (output index), cg_configure_f, and the ParticleZone_t family whose read procedures size their C
! buffer from the caller's variable.  `fill 32` makes the output variables blank before the call (what a caller usually has).
! Reference: harness/c20f_ref_mod.h (direct C calls in both modes: there is no C wrapper for these).
module c20f_mod2
  use c20f_m
  implicit none
contains

  subroutine op_fill()
    fillb = int(ti())
    call emit('fill'); call nl()
  end subroutine

  subroutine op_family_name_write()
    type(fstr) :: n, f
    integer :: B, Fa, ier
    B = int(ti()); Fa = int(ti()); call ts(n); call ts(f)
    call cg_family_name_write_f(fn, B, Fa, n%p, f%p, ier)
    call ier_out(ier); call nl()
  end subroutine

  subroutine op_nfamily_names()
    integer :: B, Fa, n, ier
    B = int(ti()); Fa = int(ti()); n = -1
    call cg_nfamily_names_f(fn, B, Fa, n, ier)
    call ier_out(ier); if (ier == 0) call kv('n', int(n, 8)); call nl()
  end subroutine

  subroutine op_family_name_read()
    type(fout) :: o, o2
    integer :: B, Fa, N, ier
    B = int(ti()); Fa = int(ti()); N = int(ti()); call fo(o, int(ti())); call fo(o2, int(ti()))
    call cg_family_name_read_f(fn, B, Fa, N, o%a(GUARD + 1:GUARD + o%n), o2%a(GUARD + 1:GUARD + o2%n), ier)
    call ier_out(ier); call pf('name', o); call pf('family', o2); call nl()
  end subroutine

  subroutine op_node_family_name_write()
    type(fstr) :: n, f
    integer :: ier
    call ts(n); call ts(f)
    call cg_node_family_name_write_f(n%p, f%p, ier)
    call ier_out(ier); call nl()
  end subroutine

  subroutine op_node_nfamily_names()
    integer :: n, ier
    n = -1
    call cg_node_nfamily_names_f(n, ier)
    call ier_out(ier); if (ier == 0) call kv('n', int(n, 8)); call nl()
  end subroutine

  subroutine op_node_family_name_read()
    type(fout) :: o, o2
    integer :: N, ier
    N = int(ti()); call fo(o, int(ti())); call fo(o2, int(ti()))
    call cg_node_family_name_read_f(N, o%a(GUARD + 1:GUARD + o%n), o2%a(GUARD + 1:GUARD + o2%n), ier)
    call ier_out(ier); call pf('name', o); call pf('family', o2); call nl()
  end subroutine

  subroutine op_discrete_ptset_write()
    type(fstr) :: n
    integer :: B, Z, D, ier, k, i
    integer(cgenum_t) :: loc, pt
    integer(cgsize_t) :: np
    integer(cgsize_t), allocatable :: p(:)
    B = int(ti()); Z = int(ti()); call ts(n); loc = int(ti(), cgenum_t); pt = int(ti(), cgenum_t); np = ti(); k = int(ti())
    allocate(p(max(k, 1) + 4)); p = 0
    do i = 1, k
      p(i) = ti()
    end do
    D = -1
    call cg_discrete_ptset_write_f(fn, B, Z, n%p, loc, pt, np, p(1), D, ier)      ! pnts is declared as a scalar INTEGER(cgsize_t)
    call ier_out(ier); if (ier == 0) call kv('D', int(D, 8)); call nl()
  end subroutine

  subroutine op_discrete_ptset_info()
    integer :: B, Z, D, ier
    integer(cgenum_t) :: pt
    integer(cgsize_t) :: np
    B = int(ti()); Z = int(ti()); D = int(ti()); pt = 0; np = -1
    call cg_discrete_ptset_info_f(fn, B, Z, D, pt, np, ier)
    call ier_out(ier)
    if (ier == 0) then
      call kv('pt', int(pt, 8)); call kv('np', int(np, 8))
    end if
    call nl()
  end subroutine

  ! cg_configure_f(what, C_LOC(value), ier) with value an INTEGER(C_INT) in an exact-size heap block (tests/cgwrite_f03.F90 passes
  ! C_LOC of a default INTEGER for CG_CONFIG_FILE_TYPE, _COMPRESS, _HDF5_DISKLESS ...), or an INTEGER(C_SIZE_T)
  subroutine op_configure()
    integer :: what, ier
    integer(c_int), pointer :: pv
    what = int(ti()); allocate(pv); pv = int(ti(), c_int)
    call cg_configure_f(what, c_loc(pv), ier)
    call ier_out(ier); call nl()
    deallocate(pv)
  end subroutine

  subroutine op_configure_size()
    integer :: what, ier
    integer(c_size_t), pointer :: pv
    what = int(ti()); allocate(pv); pv = int(ti(), c_size_t)
    call cg_configure_f(what, c_loc(pv), ier)
    call ier_out(ier); call nl()
    deallocate(pv)
  end subroutine

  ! ------------------------------------------------------------------ ParticleZone_t
  subroutine op_nparticle_zones()
    integer :: B, n, ier
    B = int(ti()); n = -1
    call cg_nparticle_zones_f(fn, B, n, ier)
    call ier_out(ier); if (ier == 0) call kv('n', int(n, 8)); call nl()
  end subroutine

  subroutine op_particle_write()
    type(fstr) :: n
    integer :: B, P, ier
    integer(cgsize_t) :: sz
    B = int(ti()); call ts(n); sz = ti(); P = -1
    call cg_particle_write_f(fn, B, n%p, sz, P, ier)
    call ier_out(ier); if (ier == 0) call kv('P', int(P, 8)); call nl()
  end subroutine

  subroutine op_particle_read()
    type(fout) :: o
    integer :: B, P, ier
    integer(cgsize_t) :: sz
    B = int(ti()); P = int(ti()); call fo(o, int(ti())); sz = -1
    call cg_particle_read_f(fn, B, P, o%a(GUARD + 1:GUARD + o%n), sz, ier)
    call ier_out(ier); if (ier == 0) call kv('size', int(sz, 8)); call pf('name', o); call nl()
  end subroutine

  subroutine op_pcoord_node_write()
    type(fstr) :: n
    integer :: B, P, C, ier
    B = int(ti()); P = int(ti()); call ts(n); C = -1
    call cg_particle_coord_node_write_f(fn, B, P, n%p, C, ier)
    call ier_out(ier); if (ier == 0) call kv('C', int(C, 8)); call nl()
  end subroutine

  subroutine op_pcoord_node_read()
    type(fout) :: o
    integer :: B, P, C, ier
    B = int(ti()); P = int(ti()); C = int(ti()); call fo(o, int(ti()))
    call cg_particle_coord_node_read_f(fn, B, P, C, o%a(GUARD + 1:GUARD + o%n), ier)
    call ier_out(ier); call pf('name', o); call nl()
  end subroutine

  subroutine op_pcoord_write()
    type(fstr) :: n
    integer :: B, P, C, ier, i
    integer(cgenum_t) :: ty
    type(c_ptr) :: ptr
    B = int(ti()); P = int(ti()); ty = int(ti(), cgenum_t); call ts(n); C = -1
    do i = 0, 4095
      dbuf(i + 1) = i * 0.75d0 + 1
    end do
    ptr = c_loc(dbuf)
    call cg_particle_coord_write_f(fn, B, P, ty, n%p, ptr, C, ier)
    call ier_out(ier); if (ier == 0) call kv('C', int(C, 8)); call nl()
  end subroutine

  subroutine op_pcoord_info()
    type(fout) :: o
    integer :: B, P, C, ier
    integer(cgenum_t) :: ty
    B = int(ti()); P = int(ti()); C = int(ti()); call fo(o, int(ti())); ty = 0
    call cg_particle_coord_info_f(fn, B, P, C, ty, o%a(GUARD + 1:GUARD + o%n), ier)
    call ier_out(ier); if (ier == 0) call kv('t', int(ty, 8)); call pf('name', o); call nl()
  end subroutine

  subroutine op_psol_write()
    type(fstr) :: n
    integer :: B, P, S, ier
    B = int(ti()); P = int(ti()); call ts(n); S = -1
    call cg_particle_sol_write_f(fn, B, P, n%p, S, ier)
    call ier_out(ier); if (ier == 0) call kv('S', int(S, 8)); call nl()
  end subroutine

  subroutine op_psol_info()
    type(fout) :: o
    integer :: B, P, S, ier
    B = int(ti()); P = int(ti()); S = int(ti()); call fo(o, int(ti()))
    call cg_particle_sol_info_f(fn, B, P, S, o%a(GUARD + 1:GUARD + o%n), ier)
    call ier_out(ier); call pf('name', o); call nl()
  end subroutine

  subroutine op_pfield_write()
    type(fstr) :: n
    integer :: B, P, S, F, ier, i
    integer(cgenum_t) :: ty
    type(c_ptr) :: ptr
    B = int(ti()); P = int(ti()); S = int(ti()); ty = int(ti(), cgenum_t); call ts(n); F = -1
    do i = 0, 4095
      dbuf(i + 1) = i * 1.5d0 - 2
    end do
    ptr = c_loc(dbuf)
    call cg_particle_field_write_f(fn, B, P, S, ty, n%p, ptr, F, ier)
    call ier_out(ier); if (ier == 0) call kv('F', int(F, 8)); call nl()
  end subroutine

  subroutine op_pfield_info()
    type(fout) :: o
    integer :: B, P, S, F, ier
    integer(cgenum_t) :: ty
    B = int(ti()); P = int(ti()); S = int(ti()); F = int(ti()); call fo(o, int(ti())); ty = 0
    call cg_particle_field_info_f(fn, B, P, S, F, ty, o%a(GUARD + 1:GUARD + o%n), ier)
    call ier_out(ier); if (ier == 0) call kv('t', int(ty, 8)); call pf('name', o); call nl()
  end subroutine

  subroutine op_piter_write()
    type(fstr) :: n
    integer :: B, P, ier
    B = int(ti()); P = int(ti()); call ts(n)
    call cg_piter_write_f(fn, B, P, n%p, ier)
    call ier_out(ier); call nl()
  end subroutine

  subroutine op_piter_read()
    type(fout) :: o
    integer :: B, P, ier
    B = int(ti()); P = int(ti()); call fo(o, int(ti()))
    call cg_piter_read_f(fn, B, P, o%a(GUARD + 1:GUARD + o%n), ier)
    call ier_out(ier); call pf('name', o); call nl()
  end subroutine

  subroutine op_pequationset_write()
    integer :: d, ier
    d = int(ti())
    call cg_particle_equationset_write_f(d, ier)
    call ier_out(ier); call nl()
  end subroutine

  subroutine op_pmodel_write()
    type(fstr) :: n
    integer :: ier
    integer(cgenum_t) :: t
    call ts(n); t = int(ti(), cgenum_t)
    call cg_particle_model_write_f(n%p, t, ier)
    call ier_out(ier); call nl()
  end subroutine

  subroutine op_pmodel_read()       ! ModelLabel is an INPUT of the C function (INTENT(INOUT) in the module procedure)
    type(fstr) :: n
    integer :: ier
    integer(cgenum_t) :: t
    call ts(n); t = 0
    call cg_particle_model_read_f(n%p, t, ier)
    call ier_out(ier); if (ier == 0) call kv('t', int(t, 8)); call nl()
  end subroutine
end module c20f_mod2
