/* c20f_help.c -- two C helpers of the Fortran driver harness/c20f_drv.f90 (kept in C so that the byte hash is
   bit-identical to fnv() of harness/c20_wrap.c and unsigned 64-bit arithmetic is not emulated in Fortran). */
#include <stddef.h>
#include <stdint.h>

/* FNV-1a over n bytes: the same function as fnv() in harness/c20_wrap.c */
int64_t c20f_fnv(const void *p, size_t n) {
    const unsigned char *b = (const unsigned char *)p; unsigned long long h = 1469598103934665603ULL; size_t i;
    for (i = 0; i < n; i++) { h ^= b[i]; h *= 1099511628211ULL; }
    return (int64_t)h;
}
