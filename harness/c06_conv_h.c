/* c06_conv_h.c -- conversion level of the C06 correspondence.
   usage: c06_conv_h lib|oracle      script on stdin:  conv <from> <to> <hex bytes of the source array | ->
   lib    : calls the library's cgi_convert_data (exact-size heap buffers, so ASan sees any over-read/-write)
   oracle : plain C casts (c06_common.c)
   output : c <hex bytes of the destination array>   |   c err */
#include "c06_common.c"
#include "cgnslib.h"
extern int cgi_convert_data(cgsize_t cnt, CGNS_ENUMT(DataType_t) from_type, const void *from_data,
                            CGNS_ENUMT(DataType_t) to_type, void *to_data);
static CGNS_ENUMT(DataType_t) tenum(int t) {
    switch (t) {
    case T_C1: return CGNS_ENUMV(Character); case T_I4: return CGNS_ENUMV(Integer); case T_I8: return CGNS_ENUMV(LongInteger);
    case T_R4: return CGNS_ENUMV(RealSingle); case T_R8: return CGNS_ENUMV(RealDouble);
    case T_X4: return CGNS_ENUMV(ComplexSingle); case T_X8: return CGNS_ENUMV(ComplexDouble);
    }
    return CGNS_ENUMV(DataTypeNull);
}
int main(int argc, char **argv) {
    static char line[1 << 20], a[16], b[16];
    static char blob[1 << 20];
    int lib;
    if (argc < 2) return 2;
    lib = strcmp(argv[1], "lib") == 0;
    while (fgets(line, sizeof line, stdin)) {
        if (sscanf(line, "conv %15s %15s %1048000s", a, b, blob) == 3) {
            int f = tparse(a), t = tparse(b), ier;
            unsigned char *src, *exact, *dst;
            long nb = unhex(blob, &src), n;
            if (f == T_NONE || t == T_NONE) { printf("badline %s", line); free(src); continue; }
            n = nb / tsize[f];
            exact = malloc((size_t)(n * tsize[f]) + (n == 0));
            memcpy(exact, src, (size_t)(n * tsize[f]));
            dst = malloc((size_t)(n * tsize[t]) + (n == 0));
            memset(dst, 0xEE, (size_t)(n * tsize[t]));
            ier = lib ? cgi_convert_data((cgsize_t)n, tenum(f), exact, tenum(t), dst) : oracle_cast(f, t, exact, dst, n);
            if (ier) printf("c err\n"); else { printf("c "); puthex(dst, n * tsize[t]); printf("\n"); }
            free(src); free(exact); free(dst);
        } else if (line[0] == '\n') ;
        else printf("badline %s", line);
        fflush(stdout);
    }
    return 0;
}
