/* c19_api.c -- implementation side of the C19 API-level correspondence and oracle runs.
   Linked against the freshly built libcgns.a; drives the public ADF_* entry points (and cgio_* for the
   NATIVE path and for reading foreign-format files the way the mid-level library does).
   Script language (one op per line, same as ocaml/eng_c19.ml sub-engine "api"); every op prints one line.
   Data are hex strings of the *memory* bytes; nothing is ever printed as a decimal float.

     open <path> <status> <format|NULL>       -> open err=<e>
     fmt                                      -> fmt <string|-> err=<e>
     close                                    -> close err=<e>
     patch <path> <offset> <hex>              -> patch ok|fail          (raw file edit, file must be closed)
     node <name> <type> <n>                   -> node err=<e>           (ADF_Create + Put_Dimension_Information, 1-D)
     redim <name> <type> <n>                  -> node err=<e>           (Put_Dimension_Information on an existing node:
                                                                         enlarging a written node adds a data chunk)
     wall <name> <hex>                        -> w err=<e>
     wblk <name> <b_start> <b_end> <hex>      -> w err=<e>
     wstr <name> <s0> <s1> <ss> <mn> <m0> <m1> <ms> <hex> -> w err=<e>
     rall <name> <nbytes>                     -> r err=<e> <hex>        (buffer pre-filled with 0xA5)
     rblk <name> <b_start> <b_end> <nbytes>   -> r err=<e> <hex>
     rstr <name> <s0> <s1> <ss> <mn> <m0> <m1> <ms> <nbytes> -> r err=<e> <hex>
     cgopen <path> <r|w|m>                    -> cgopen err=<e>
     cgread <name> <type> <nbytes>            -> r err=<e> <hex>        (cgio_read_all_data_type)
     cgwrite <name> <type> <n> <hex>          -> w err=<e>              (cgio_create_node+set_dimensions+write_all_data)
     cgclose                                  -> cgclose err=<e>
*/
#include <stdio.h>
#include <stdlib.h>
#include <string.h>
#include "adf/ADF.h"
#include "cgns_io.h"

static double root = 0;
static int is_open = 0;
static int cgn = -1;
static double cgroot = 0;

static size_t unhex(const char *h, unsigned char *out) {
    size_t n = 0;
    if (h[0] == '-' ) return 0;
    while (h[0] && h[1] && h[0] != '\n') {
        unsigned a = h[0] <= '9' ? h[0] - '0' : (h[0] | 32) - 'a' + 10;
        unsigned b = h[1] <= '9' ? h[1] - '0' : (h[1] | 32) - 'a' + 10;
        out[n++] = (unsigned char)(a * 16 + b); h += 2;
    }
    return n;
}
static void puthex(const unsigned char *p, size_t n) {
    static const char *d = "0123456789abcdef";
    if (n == 0) { putchar('-'); return; }
    for (size_t i = 0; i < n; i++) { putchar(d[p[i] >> 4]); putchar(d[p[i] & 15]); }
}
static double child(const char *name, int *err) {
    double id = 0;
    ADF_Get_Node_ID(root, name, &id, err);
    return id;
}

int main(void) {
    size_t cap = 1 << 23;
    char *line = malloc(cap);
    unsigned char *buf = malloc(cap / 2 + 64);
    char a[1024], b[64], c[64];
    long long v[8];
    int err, off;
    while (fgets(line, (int)cap, stdin)) {
        err = -1;
        if (sscanf(line, "open %1023s %63s %63s", a, b, c) == 3) {
            ADF_Database_Open(a, b, strcmp(c, "NULL") == 0 ? NULL : c, &root, &err);
            is_open = (err == -1);
            printf("open err=%d\n", err);
        } else if (strncmp(line, "fmt", 3) == 0) {
            char f[64]; memset(f, 0, sizeof f);
            ADF_Database_Get_Format(root, f, &err);
            printf("fmt %s err=%d\n", (err == -1 && f[0]) ? f : "-", err);
        } else if (strncmp(line, "close", 5) == 0) {
            ADF_Database_Close(root, &err); is_open = 0;
            printf("close err=%d\n", err);
        } else if (sscanf(line, "patch %1023s %lld %n", a, &v[0], &off) >= 2) {
            size_t n = unhex(line + off, buf);
            FILE *f = fopen(a, "r+b");
            int ok = f && fseek(f, (long)v[0], SEEK_SET) == 0 && fwrite(buf, 1, n, f) == n;
            if (f) fclose(f);
            printf("patch %s\n", ok ? "ok" : "fail");
        } else if (sscanf(line, "node %1023s %63s %lld", a, b, &v[0]) == 3) {
            double id; cgsize_t dims[1]; dims[0] = (cgsize_t)v[0];
            ADF_Create(root, a, &id, &err);
            if (err == -1) ADF_Put_Dimension_Information(id, b, 1, dims, &err);
            printf("node err=%d\n", err);
        } else if (sscanf(line, "redim %1023s %63s %lld", a, b, &v[0]) == 3) {
            double id = child(a, &err); cgsize_t dims[1]; dims[0] = (cgsize_t)v[0];
            if (err == -1) ADF_Put_Dimension_Information(id, b, 1, dims, &err);
            printf("node err=%d\n", err);
        } else if (sscanf(line, "wall %1023s %n", a, &off) >= 1) {
            double id = child(a, &err);
            unhex(line + off, buf);
            if (err == -1) ADF_Write_All_Data(id, (char *)buf, &err);
            printf("w err=%d\n", err);
        } else if (sscanf(line, "wblk %1023s %lld %lld %n", a, &v[0], &v[1], &off) >= 3) {
            double id = child(a, &err);
            unhex(line + off, buf);
            if (err == -1) ADF_Write_Block_Data(id, (cgsize_t)v[0], (cgsize_t)v[1], (char *)buf, &err);
            printf("w err=%d\n", err);
        } else if (sscanf(line, "wstr %1023s %lld %lld %lld %lld %lld %lld %lld %n", a, &v[0], &v[1], &v[2], &v[3],
                          &v[4], &v[5], &v[6], &off) >= 8) {
            double id = child(a, &err);
            cgsize_t s0 = v[0], s1 = v[1], ss = v[2], mn = v[3], m0 = v[4], m1 = v[5], ms = v[6];
            unhex(line + off, buf);
            if (err == -1) ADF_Write_Data(id, &s0, &s1, &ss, 1, &mn, &m0, &m1, &ms, (char *)buf, &err);
            printf("w err=%d\n", err);
        } else if (sscanf(line, "rall %1023s %lld", a, &v[0]) == 2) {
            double id = child(a, &err);
            memset(buf, 0xA5, (size_t)v[0]);
            if (err == -1) ADF_Read_All_Data(id, NULL, (char *)buf, &err);
            printf("r err=%d ", err); puthex(buf, (size_t)v[0]); putchar('\n');
        } else if (sscanf(line, "rblk %1023s %lld %lld %lld", a, &v[0], &v[1], &v[2]) == 4) {
            double id = child(a, &err);
            memset(buf, 0xA5, (size_t)v[2]);
            if (err == -1) ADF_Read_Block_Data(id, (cgsize_t)v[0], (cgsize_t)v[1], NULL, (char *)buf, &err);
            printf("r err=%d ", err); puthex(buf, (size_t)v[2]); putchar('\n');
        } else if (sscanf(line, "rstr %1023s %lld %lld %lld %lld %lld %lld %lld %lld", a, &v[0], &v[1], &v[2], &v[3],
                          &v[4], &v[5], &v[6], &v[7]) == 9) {
            double id = child(a, &err);
            cgsize_t s0 = v[0], s1 = v[1], ss = v[2], mn = v[3], m0 = v[4], m1 = v[5], ms = v[6];
            memset(buf, 0xA5, (size_t)v[7]);
            if (err == -1) ADF_Read_Data(id, &s0, &s1, &ss, 1, &mn, &m0, &m1, &ms, NULL, (char *)buf, &err);
            printf("r err=%d ", err); puthex(buf, (size_t)v[7]); putchar('\n');
        } else if (sscanf(line, "cgopen %1023s %63s", a, b) == 2) {
            int mode = b[0] == 'r' ? CGIO_MODE_READ : b[0] == 'w' ? CGIO_MODE_WRITE : CGIO_MODE_MODIFY;
            err = cgio_open_file(a, mode, CGIO_FILE_ADF, &cgn);
            if (err == 0) err = cgio_get_root_id(cgn, &cgroot);
            printf("cgopen err=%d\n", err == 0 ? -1 : err);
        } else if (sscanf(line, "cgread %1023s %63s %lld", a, b, &v[0]) == 3) {
            double id;
            memset(buf, 0xA5, (size_t)v[0]);
            err = cgio_get_node_id(cgn, cgroot, a, &id);
            if (err == 0) err = cgio_read_all_data_type(cgn, id, b, buf);
            printf("r err=%d ", err == 0 ? -1 : err); puthex(buf, (size_t)v[0]); putchar('\n');
        } else if (sscanf(line, "cgwrite %1023s %63s %lld %n", a, b, &v[0], &off) >= 3) {
            double id; cgsize_t dims[1]; dims[0] = (cgsize_t)v[0];
            unhex(line + off, buf);
            err = cgio_create_node(cgn, cgroot, a, &id);
            if (err == 0) err = cgio_set_dimensions(cgn, id, b, 1, dims);
            if (err == 0) err = cgio_write_all_data(cgn, id, buf);
            printf("w err=%d\n", err == 0 ? -1 : err);
        } else if (strncmp(line, "cgclose", 7) == 0) {
            err = cgio_close_file(cgn); cgn = -1;
            printf("cgclose err=%d\n", err == 0 ? -1 : err);
        } else if (line[0] == '\n') {
        } else printf("badline\n");
    }
    if (is_open) ADF_Database_Close(root, &err);
    free(line); free(buf);
    return 0;
}
