! c20f_drv.f90 -- Fortran side of the C20f correspondence: a REAL Fortran program (gfortran, `use cgns`) that reads the
! same line-oriented script as harness/c20_wrap.c and prints the same canonical lines, so that checks/C20f.py can
! compare   Fortran program  ==  C harness in wrapper mode (f)  ==  C harness in direct mode (c).
!
!   c20f_drv <file> <file2> <adf|hdf5>        (the script is read from stdin)
!
! What is exercised here and NOT by the C harness: the interface blocks / BIND(C) names / kinds of src/cgns_f.F90,
! the module procedures of cgns_f.F90 (cg_open_f, cg_base_write_f, cg_goto_f ... with their own string conversion), and
! the hidden-length convention gfortran really uses.  Input strings live in exact-size deferred-length heap
! variables (ASan sees a read past the hidden length), output strings are substrings of canaried buffers; the `dl_*`
! operations use CHARACTER variables of DECLARED lengths 1, 8, 31, 32, 33, 40, 80 (between guard fields of a SEQUENCE
! type) and CHARACTER*(n) arrays.
module c20f_m
  use iso_c_binding
  use cgns
  implicit none
  integer, parameter :: GUARD = 64
  integer, parameter :: MAXTOK = 80
  character(len=70000) :: line
  character(len=400000) :: outl
  integer :: opos = 0
  integer :: ntok = 0, itok = 1
  integer :: tks(MAXTOK), tke(MAXTOK)
  character(len=64) :: op
  integer :: fn = -1, fn_open = 0, cgio_n = -1, backend = 0, nids = 0
  integer :: fn2 = -1, fn2_open = 0
  integer :: fillb = 126           ! what an output variable holds before the call ('~'; `fill 32`: blanks, the usual case)
  real(c_double) :: ids(0:63)
  character(len=4096) :: path1, path2
  real(c_double), target :: dbuf(4100)
  real(c_float) :: fbuf(4100)

  type fstr
    character(len=:), allocatable :: p
    integer :: n = 0
  end type
  type fout
    character(len=:), allocatable :: a
    integer :: n = 0
  end type

  interface
    function c20f_fnv(p, n) bind(C, name="c20f_fnv") result(h)
      import :: c_ptr, c_size_t, c_int64_t
      type(c_ptr), value :: p
      integer(c_size_t), value :: n
      integer(c_int64_t) :: h
    end function
  end interface

contains

  subroutine tokenize()
    integer :: i, n
    ntok = 0; itok = 2
    n = len_trim(line)
    i = 1
    do while (i <= n)
      do while (i <= n)
        if (line(i:i) /= ' ' .and. line(i:i) /= achar(9) .and. line(i:i) /= achar(13)) exit
        i = i + 1
      end do
      if (i > n) exit
      if (ntok >= MAXTOK) exit
      ntok = ntok + 1
      tks(ntok) = i
      do while (i <= n)
        if (line(i:i) == ' ' .or. line(i:i) == achar(9) .or. line(i:i) == achar(13)) exit
        i = i + 1
      end do
      tke(ntok) = i - 1
    end do
  end subroutine

  function ti() result(v)          ! next token as an integer (0 when there is none)
    integer(8) :: v
    integer :: ios
    v = 0
    if (itok <= ntok) then
      read(line(tks(itok):tke(itok)), *, iostat=ios) v
      if (ios /= 0) v = 0
      itok = itok + 1
    end if
  end function

  function tw() result(w)          ! next token as a plain word
    character(len=:), allocatable :: w
    if (itok <= ntok) then
      w = line(tks(itok):tke(itok))
      itok = itok + 1
    else
      w = '-'
    end if
  end function

  integer function hexval(c)
    character(len=1), intent(in) :: c
    hexval = index('0123456789abcdef', c) - 1
    if (hexval < 0) hexval = index('0123456789ABCDEF', c) - 1
    if (hexval < 0) hexval = 0
  end function

  subroutine ts(s)                 ! hex token -> exact-size heap variable (no terminator, no padding)
    type(fstr), intent(out) :: s
    integer :: n, i, a, b
    n = 0
    if (itok <= ntok) then
      a = tks(itok); b = tke(itok)
      itok = itok + 1
      if (.not. (b == a .and. line(a:a) == '-')) n = (b - a + 1) / 2
    else
      a = 1
    end if
    allocate(character(len=n) :: s%p)
    s%n = n
    do i = 1, n
      s%p(i:i) = achar(16 * hexval(line(a + 2 * i - 2:a + 2 * i - 2)) + hexval(line(a + 2 * i - 1:a + 2 * i - 1)))
    end do
  end subroutine

  subroutine fo(o, n)              ! output string of length n between canaries
    type(fout), intent(out) :: o
    integer, intent(in) :: n
    integer :: m
    m = max(n, 0)
    allocate(character(len=m + 2 * GUARD) :: o%a)
    o%a = repeat(achar(165), m + 2 * GUARD)
    if (m > 0) o%a(GUARD + 1:GUARD + m) = repeat(achar(fillb), m)
    o%n = m
  end subroutine

  subroutine emit(s)
    character(len=*), intent(in) :: s
    if (len(s) == 0) return
    outl(opos + 1:opos + len(s)) = s
    opos = opos + len(s)
  end subroutine

  subroutine emit_i(v)
    integer(8), intent(in) :: v
    character(len=24) :: b
    write(b, '(I0)') v
    call emit(trim(b))
  end subroutine

  subroutine kv(key, v)            ! " key=<int>"
    character(len=*), intent(in) :: key
    integer(8), intent(in) :: v
    call emit(' ' // key // '=')
    call emit_i(v)
  end subroutine

  subroutine emit_hexbyte(c)
    character(len=1), intent(in) :: c
    character(len=16), parameter :: dg = '0123456789abcdef'
    integer :: v
    v = iachar(c)
    if (v < 0) v = v + 256
    call emit(dg(v / 16 + 1:v / 16 + 1) // dg(mod(v, 16) + 1:mod(v, 16) + 1))
  end subroutine

  subroutine emit_h64(key, v)      ! " key=%016llx"
    character(len=*), intent(in) :: key
    integer(c_int64_t), intent(in) :: v
    character(len=16), parameter :: dg = '0123456789abcdef'
    integer :: k, d
    call emit(' ' // key // '=')
    do k = 15, 0, -1
      d = int(ibits(v, 4 * k, 4))
      call emit(dg(d + 1:d + 1))
    end do
  end subroutine

  subroutine emit_h32(key, v)      ! " key=%08x"
    character(len=*), intent(in) :: key
    integer(c_int32_t), intent(in) :: v
    character(len=16), parameter :: dg = '0123456789abcdef'
    integer :: k, d
    call emit(' ' // key // '=')
    do k = 7, 0, -1
      d = int(ibits(v, 4 * k, 4))
      call emit(dg(d + 1:d + 1))
    end do
  end subroutine

  subroutine pbytes(tag, buf, n)   ! " tag=<hex of buf(GUARD+1:GUARD+n)>/oob:<indices of changed guard bytes>"
    character(len=*), intent(in) :: tag, buf
    integer, intent(in) :: n
    integer :: i
    logical :: first
    call emit(' ' // tag // '=')
    if (n == 0) call emit('-')
    do i = 1, n
      call emit_hexbyte(buf(GUARD + i:GUARD + i))
    end do
    call emit('/oob:')
    first = .true.
    do i = 0, GUARD - 1
      if (buf(i + 1:i + 1) /= achar(165)) then
        if (.not. first) call emit(',')
        call emit_i(int(i - GUARD, 8)); first = .false.
      end if
    end do
    do i = 0, GUARD - 1
      if (buf(GUARD + n + i + 1:GUARD + n + i + 1) /= achar(165)) then
        if (.not. first) call emit(',')
        call emit_i(int(n + i, 8)); first = .false.
      end if
    end do
    if (first) call emit('-')
  end subroutine

  subroutine pf(tag, o)
    character(len=*), intent(in) :: tag
    type(fout), intent(in) :: o
    call pbytes(tag, o%a, o%n)
  end subroutine

  subroutine ier_out(ier)          ! "<op> ier=<n>"
    integer, intent(in) :: ier
    call emit(trim(op) // ' ier=')
    call emit_i(int(ier, 8))
  end subroutine

  subroutine nl()
    write(*, '(A)') outl(1:opos)
    opos = 0
    flush(6)
  end subroutine

  logical function is_end(lab)
    character(len=*), intent(in) :: lab
    is_end = .false.
    if (len(lab) >= 3) is_end = (lab(1:3) == 'end' .or. lab(1:3) == 'END')
  end function
end module c20f_m
