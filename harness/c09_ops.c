/* c09_ops.c -- implementation side of C09 (copy / convert / compact / save-as preserve the tree).
   Script on stdin, one command per line; file names are plain paths (no blanks), node paths / names / labels are
   lowercase hex.

     dump <file> <mode>            independent walker over cgio reads (own size table, own recursion).
                                   mode 0: links reported, not followed; 1: links with a file name followed, internal
                                   links reported; 2: every link followed.  Output = the lines of ocaml/eng_c09.ml:
                                     N <path> <label> <type> <dims> <nbytes|nodata|?> <fnv1a64|->     L <path> <file> <target>
                                     D <path>   (a link that cannot be resolved, modes 1 and 2)
                                   closed by "E ok" / "E err:<code>".
     copyfile <src> <dst> <adf|hdf5> <follow> <r|m>     cgio_open_file x2, cgio_copy_file, cgio_close_file x2
     saveas <src> <dst> <adf|hdf5> <follow>            cg_open(READ), cg_save_as, cg_close
     compress <src> <out> <r|m> <nextra>                 cgio_compress_file with <nextra> other cgio files open
     mllcompress <src>                                   cg_configure(CG_CONFIG_COMPRESS,-1), cg_open(MODIFY), cg_close
     edit <file> <kind> <path> [args]                    one elementary edit (rename relabel retype redim databyte
                                                         setdata addchild delchild relink)
     vals <file> <path>                                  type and data bytes of one node (for the value oracle of -t)
   every command but dump answers "R <cmd> ok" or "R <cmd> err:<where>:<code>". */
#include <stdio.h>
#include <stdlib.h>
#include <string.h>
#include <ctype.h>
#include <unistd.h>
#include "cgnslib.h"
#include "cgns_io.h"

static size_t unhex(const char *s, char *out) {
    size_t n = 0;
    if (s[0] == '-' && s[1] == 0) { out[0] = 0; return 0; }
    while (s[0] && s[1]) { unsigned v; sscanf(s, "%2x", &v); out[n++] = (char)v; s += 2; }
    out[n] = 0;
    return n;
}
static void hexout(const char *s) { if (!*s) printf("-"); for (; *s; s++) printf("%02x", (unsigned char)*s); }
static unsigned long long fnv(const unsigned char *p, size_t n) {
    unsigned long long h = 0xcbf29ce484222325ULL; size_t i;
    for (i = 0; i < n; i++) { h ^= p[i]; h *= 0x100000001b3ULL; }
    return h;
}
/* the documented data types; case-insensitive because ADF stores the string it was given */
static int own_size(const char *t) {
    char a, b;
    if (strlen(t) != 2) return 0;
    a = (char)toupper((unsigned char)t[0]); b = t[1];
    if ((a == 'C' || a == 'B') && b == '1') return 1;
    if ((a == 'I' || a == 'U' || a == 'R') && b == '4') return 4;
    if ((a == 'I' || a == 'U' || a == 'R') && b == '8') return 8;
    if (a == 'X' && b == '4') return 8;
    if (a == 'X' && b == '8') return 16;
    return 0;
}
static int ftype(const char *s) { return !strcmp(s, "hdf5") ? CGIO_FILE_HDF5 : CGIO_FILE_ADF; }

struct ent { char name[CGIO_MAX_NAME_LENGTH + 1]; double id; };
static int ent_cmp(const void *a, const void *b) { return strcmp(((const struct ent *)a)->name, ((const struct ent *)b)->name); }

static int walk(int cg, double id, const char *path, int depth, int mode);

static int walk_kids(int cg, double id, const char *path, int depth, int mode) {
    int nchild = 0, i, ier;
    struct ent *e;
    if ((ier = cgio_number_children(cg, id, &nchild))) return ier;
    if (nchild <= 0) return 0;
    e = (struct ent *)calloc((size_t)nchild, sizeof *e);
    for (i = 0; i < nchild; i++) {
        int cnt = 0;
        if ((ier = cgio_children_ids(cg, id, i + 1, 1, &cnt, &e[i].id)) || cnt != 1 ||
            (ier = cgio_get_name(cg, e[i].id, e[i].name))) { free(e); return ier ? ier : -1; }
    }
    qsort(e, (size_t)nchild, sizeof *e, ent_cmp);
    for (i = 0; i < nchild; i++) {
        char *sub = (char *)malloc(strlen(path) + 2 * strlen(e[i].name) + 4), *q;
        const char *s;
        strcpy(sub, path); q = sub + strlen(sub); *q++ = '/';
        if (!e[i].name[0]) *q++ = '-';
        for (s = e[i].name; *s; s++) q += sprintf(q, "%02x", (unsigned char)*s);
        *q = 0;
        ier = walk(cg, e[i].id, sub, depth + 1, mode);
        free(sub);
        if (ier) { free(e); return ier; }
    }
    free(e);
    return 0;
}

static int walk(int cg, double id, const char *path, int depth, int mode) {
    char label[CGIO_MAX_LABEL_LENGTH + 1], dtype[CGIO_MAX_DATATYPE_LENGTH + 1];
    cgsize_t dims[CGIO_MAX_DIMENSIONS];
    int ndims = 0, i, len = 0, ier, followed = 0;
    if (depth > 200) return -2;
    if ((ier = cgio_is_link(cg, id, &len))) return ier;
    if (len > 0) {
        int fl = 0, nl = 0; char *lf, *ln;
        if ((ier = cgio_link_size(cg, id, &fl, &nl))) return ier;
        lf = (char *)calloc((size_t)(fl + nl + 4), 1); ln = lf + fl + 2;
        if ((ier = cgio_get_link(cg, id, lf, ln))) { free(lf); return ier; }
        lf[fl] = 0; ln[nl] = 0;
        if (mode == 0 || (mode == 1 && fl == 0)) {
            printf("L %s ", path); hexout(lf); printf(" "); hexout(ln); printf("\n");
            free(lf);
            return 0;
        }
        free(lf);
        followed = 1;
    }
    if (cgio_get_label(cg, id, label) || cgio_get_data_type(cg, id, dtype) || cgio_get_dimensions(cg, id, &ndims, dims)) {
        if (followed) { printf("D %s\n", path); return 0; }
        return -3;
    }
    printf("N %s ", path); hexout(label); printf(" "); hexout(dtype); printf(" ");
    if (ndims <= 0) printf("-");
    for (i = 0; i < ndims; i++) printf("%s%lld", i ? "," : "", (long long)dims[i]);
    if (!strcmp(dtype, "MT") || ndims <= 0) printf(" 0 -\n");
    else if (!own_size(dtype)) printf(" ? -\n");
    else {
        long long n = own_size(dtype); unsigned char *buf;
        for (i = 0; i < ndims; i++) n *= dims[i];
        if (n <= 0 || n > (1LL << 28)) { printf(" ? -\n"); return -4; }
        buf = (unsigned char *)malloc((size_t)n + 64);
        memset(buf, 0xA5, (size_t)n + 64);
        if (cgio_read_all_data_type(cg, id, dtype, buf)) printf(" nodata -\n");
        else printf(" %lld %016llx\n", n, fnv(buf, (size_t)n));
        free(buf);
    }
    return walk_kids(cg, id, path, depth, mode);
}

static void do_dump(const char *file, int mode) {
    int cg = 0, ier; double root;
    printf("B dump\n");
    ier = cgio_open_file(file, CGIO_MODE_READ, CGIO_FILE_NONE, &cg);
    if (ier) { printf("E err:open:%d\n", ier); return; }
    ier = cgio_get_root_id(cg, &root);
    if (!ier) ier = walk_kids(cg, root, "", 0, mode);
    { int c = cgio_close_file(cg); if (!ier && c) ier = c; }
    if (ier) printf("E err:%d\n", ier); else printf("E ok\n");
}

static int resolve(int cg, double root, const char *path, double *pid, double *id, char *leaf) {
    /* path = "/a/b/c": parent id, node id and last component */
    char buf[4096]; char *slash;
    strcpy(buf, path);
    slash = strrchr(buf, '/');
    if (!slash) return -1;
    strcpy(leaf, slash + 1);
    if (cgio_get_node_id(cg, root, path, id)) *id = 0;
    if (slash == buf) { *pid = root; return 0; }
    *slash = 0;
    return cgio_get_node_id(cg, root, buf, pid);
}

int main(void) {
    static char line[1 << 16], a[6][1 << 14];
    while (fgets(line, sizeof line, stdin)) {
        char cmd[32]; cmd[0] = 0; sscanf(line, "%31s", cmd);
        if (!strcmp(cmd, "dump")) {
            int mode = 0; sscanf(line, "%*s %s %d", a[0], &mode); do_dump(a[0], mode);
        } else if (!strcmp(cmd, "copyfile")) {
            int follow, ci, co, e; char md[8];
            sscanf(line, "%*s %s %s %s %d %7s", a[0], a[1], a[2], &follow, md);
            unlink(a[1]);
            if ((e = cgio_open_file(a[0], md[0] == 'm' ? CGIO_MODE_MODIFY : CGIO_MODE_READ, CGIO_FILE_NONE, &ci))) { printf("R copyfile err:open_src:%d\n", e); goto next; }
            if ((e = cgio_open_file(a[1], CGIO_MODE_WRITE, ftype(a[2]), &co))) { printf("R copyfile err:open_dst:%d\n", e); cgio_close_file(ci); goto next; }
            e = cgio_copy_file(ci, co, follow);
            { int c1 = cgio_close_file(ci), c2 = cgio_close_file(co);
              if (e) printf("R copyfile err:copy:%d\n", e); else if (c1 || c2) printf("R copyfile err:close:%d\n", c1 ? c1 : c2); else printf("R copyfile ok\n"); }
        } else if (!strcmp(cmd, "saveas")) {
            int follow, fn;
            sscanf(line, "%*s %s %s %s %d", a[0], a[1], a[2], &follow);
            unlink(a[1]);
            if (cg_open(a[0], CG_MODE_READ, &fn)) { printf("R saveas err:cg_open:1\n"); goto next; }
            if (cg_save_as(fn, a[1], !strcmp(a[2], "hdf5") ? CG_FILE_HDF5 : CG_FILE_ADF, follow)) { printf("R saveas err:cg_save_as:1\n"); cg_close(fn); goto next; }
            if (cg_close(fn)) printf("R saveas err:cg_close:1\n"); else printf("R saveas ok\n");
        } else if (!strcmp(cmd, "compress")) {
            int nextra = 0, ci, e, i, extra[64]; char md[8];
            sscanf(line, "%*s %s %s %7s %d", a[0], a[1], md, &nextra);
            if ((e = cgio_open_file(a[0], md[0] == 'm' ? CGIO_MODE_MODIFY : CGIO_MODE_READ, CGIO_FILE_NONE, &ci))) { printf("R compress err:open_src:%d\n", e); goto next; }
            for (i = 0; i < nextra && i < 64; i++) {
                char fn[5000]; sprintf(fn, "%s.x%d", a[0], i); unlink(fn);
                if (cgio_open_file(fn, CGIO_MODE_WRITE, CGIO_FILE_ADF, &extra[i])) { printf("R compress err:open_extra:%d\n", i); goto next; }
            }
            e = cgio_compress_file(ci, a[1]);
            for (i = 0; i < nextra && i < 64; i++) { char fn[5000]; cgio_close_file(extra[i]); sprintf(fn, "%s.x%d", a[0], i); unlink(fn); }
            if (e) printf("R compress err:compress:%d\n", e); else printf("R compress ok\n");
        } else if (!strcmp(cmd, "mllcompress")) {
            int fn;
            sscanf(line, "%*s %s", a[0]);
            if (cg_configure(CG_CONFIG_COMPRESS, (void *)(size_t)-1)) { printf("R mllcompress err:configure:1\n"); goto next; }
            if (cg_open(a[0], CG_MODE_MODIFY, &fn)) { printf("R mllcompress err:cg_open:1 %s\n", cg_get_error()); goto next; }
            if (cg_close(fn)) printf("R mllcompress err:cg_close:1\n"); else printf("R mllcompress ok\n");
            cg_configure(CG_CONFIG_COMPRESS, (void *)0);
        } else if (!strcmp(cmd, "edit")) {
            int cg, e = 0, nf; double root, pid, id, nid; char kind[32], leaf[64], path[4096], arg1[8192], arg2[8192];
            a[3][0] = a[4][0] = 0;
            nf = sscanf(line, "%*s %s %31s %s %s %s", a[0], kind, a[2], a[3], a[4]);
            unhex(a[2], path);
            if (nf >= 4) unhex(a[3], arg1);
            if (nf >= 5) unhex(a[4], arg2);
            if ((e = cgio_open_file(a[0], CGIO_MODE_MODIFY, CGIO_FILE_NONE, &cg))) { printf("R edit err:open:%d\n", e); goto next; }
            cgio_get_root_id(cg, &root);
            if (resolve(cg, root, path, &pid, &id, leaf)) { printf("R edit err:resolve:0\n"); cgio_close_file(cg); goto next; }
            if (!strcmp(kind, "rename")) e = cgio_set_name(cg, pid, id, arg1);
            else if (!strcmp(kind, "relabel")) e = cgio_set_label(cg, id, arg1);
            else if (!strcmp(kind, "addchild")) e = cgio_create_node(cg, id, arg1, &nid);
            else if (!strcmp(kind, "delchild")) e = cgio_delete_node(cg, pid, id);
            else if (!strcmp(kind, "relink")) { e = cgio_delete_node(cg, pid, id); if (!e) e = cgio_create_link(cg, pid, leaf, arg1, arg2, &nid); }
            else if (!strcmp(kind, "setdata")) {          /* arg = the node's new data (hex), same type and dimensions */
                static unsigned char nb[1 << 13];
                size_t n = unhex(a[3], (char *)nb);
                char ty[CGIO_MAX_DATATYPE_LENGTH + 1]; cgsize_t dims[CGIO_MAX_DIMENSIONS]; int nd = 0, i; long long want;
                if (cgio_get_data_type(cg, id, ty) || cgio_get_dimensions(cg, id, &nd, dims) || nd <= 0) e = -8;
                else {
                    want = own_size(ty); for (i = 0; i < nd; i++) want *= dims[i];
                    e = ((long long)n != want) ? -8 : cgio_write_all_data(cg, id, nb);
                }
            }
            else if (!strcmp(kind, "retype") || !strcmp(kind, "redim") || !strcmp(kind, "databyte")) {
                char ty[CGIO_MAX_DATATYPE_LENGTH + 1]; cgsize_t dims[CGIO_MAX_DIMENSIONS], nd2[CGIO_MAX_DIMENSIONS];
                int nd = 0, i, n2 = 0; long long n, m; unsigned char *buf;
                if (cgio_get_data_type(cg, id, ty) || cgio_get_dimensions(cg, id, &nd, dims) || nd <= 0 || !own_size(ty)) { printf("R edit err:notdata:0\n"); cgio_close_file(cg); goto next; }
                n = own_size(ty); for (i = 0; i < nd; i++) n *= dims[i];
                m = n;
                if (!strcmp(kind, "redim")) {
                    const char *s = a[3]; m = own_size(ty);          /* arg = csv of the new dimensions (plain text) */
                    while (*s) { nd2[n2++] = (cgsize_t)strtoll(s, (char **)&s, 10); if (*s == ',') s++; }
                    for (i = 0; i < n2; i++) m *= nd2[i];
                }
                buf = (unsigned char *)calloc((size_t)(n > m ? n : m) + 64, 1);
                if ((e = cgio_read_all_data_type(cg, id, ty, buf))) { printf("R edit err:read:%d\n", e); cgio_close_file(cg); goto next; }
                if (!strcmp(kind, "retype")) { e = cgio_set_dimensions(cg, id, a[3], nd, dims); if (!e) e = cgio_write_all_data(cg, id, buf); }
                else if (!strcmp(kind, "redim")) { e = cgio_set_dimensions(cg, id, ty, n2, nd2); if (!e) e = cgio_write_all_data(cg, id, buf); }
                else { long long off = atoll(a[3]); buf[off % n] ^= 0x01; e = cgio_write_all_data(cg, id, buf); }
                free(buf);
            } else e = -9;
            { int c = cgio_close_file(cg); if (e) printf("R edit err:%s:%d\n", kind, e); else if (c) printf("R edit err:close:%d\n", c); else printf("R edit ok\n"); }
        } else if (!strcmp(cmd, "vals")) {               /* vals <file> <path hex>: type, dimensions and the data bytes of one node */
            int cg, e, nd = 0, i; double root, id; char path[4096], ty[CGIO_MAX_DATATYPE_LENGTH + 1]; cgsize_t dims[CGIO_MAX_DIMENSIONS];
            sscanf(line, "%*s %s %s", a[0], a[2]); unhex(a[2], path);
            if ((e = cgio_open_file(a[0], CGIO_MODE_READ, CGIO_FILE_NONE, &cg))) { printf("R vals err:open:%d\n", e); goto next; }
            cgio_get_root_id(cg, &root);
            if (cgio_get_node_id(cg, root, path, &id) || cgio_get_data_type(cg, id, ty) || cgio_get_dimensions(cg, id, &nd, dims) || nd <= 0 || !own_size(ty))
                printf("R vals err:node:0\n");
            else {
                long long n = own_size(ty); unsigned char *buf;
                for (i = 0; i < nd; i++) n *= dims[i];
                buf = (unsigned char *)calloc((size_t)n + 16, 1);
                if (n > (1 << 20) || cgio_read_all_data_type(cg, id, ty, buf)) printf("R vals err:read:0\n");
                else { printf("R vals ok %s ", ty); for (i = 0; i < n; i++) printf("%02x", buf[i]); printf("\n"); }
                free(buf);
            }
            cgio_close_file(cg);
        } else if (line[0] == '\n' || line[0] == '#') ;
        else printf("badline %s", line);
    next:
        fflush(stdout);
    }
    return 0;
}
