/* hashmap_h.c -- implementation side of the C18 map-level correspondence.
   Includes /repo/src/cg_hashmap.c textually so that the static internals
   (index table, entry array, hash) are visible without any source hook.
   Reads the script language of ocaml/eng_hashmap.ml and prints the same lines. */
#include "cg_hashmap.c"
#include <stdio.h>

static void unhex(const char *h, char *out) {
    size_t n = 0;
    if (h[0] == '-' && h[1] == 0) { out[0] = 0; return; }
    while (h[0] && h[1]) { unsigned v; sscanf(h, "%2x", &v); out[n++] = (char)v; h += 2; }
    out[n] = 0;
}
static void dump(cgns_hashmap_object *mp) {
    cgns_hashmap_keyobject *k = mp->ma_keys;
    int is_static = (k == MAP_EMPTY_KEYS);
    printf("D static=%d size=%lld usable=%lld nentries=%lld used=%lld | ", is_static,
           (long long)k->table_size, (long long)k->map_usable, (long long)k->map_nentries, (long long)mp->ma_used);
    if (is_static) printf("-");
    else for (map_ssize_t i = 0; i < k->table_size; i++)
        printf("%s%lld", i ? "," : "", (long long)cgi_hashmap_get_index(k, i));
    printf(" | ");
    cgns_hashmap_entry *ep = MAP_ENTRIES(k);
    for (map_ssize_t i = 0; i < k->map_nentries; i++) {
        printf("%s%llx:%lld:", i ? ";" : "", (unsigned long long)ep[i].me_hash, (long long)ep[i].me_value);
        if (ep[i].me_key[0] == 0) printf("-");
        else for (const unsigned char *p = (const unsigned char *)ep[i].me_key; *p; p++) printf("%02x", *p);
    }
    printf("\n");
}
int main(void) {
    static char line[4096], a[2048], key[1024];
    long long v;
    cgns_hashmap_object *mp = cgi_new_hashmap();
    while (fgets(line, sizeof line, stdin)) {
        if (sscanf(line, "set %2047s %lld", a, &v) == 2) { unhex(a, key); printf("r %d\n", cgi_map_set_item(mp, key, v)); }
        else if (sscanf(line, "get %2047s", a) == 1) { unhex(a, key); printf("r %lld\n", (long long)cgi_map_get_item(mp, key)); }
        else if (sscanf(line, "hash %2047s", a) == 1) { unhex(a, key); printf("h %llx\n", (unsigned long long)cgi_hash_cstr(key)); }
        else if (sscanf(line, "has %2047s", a) == 1) { unhex(a, key); printf("r %d\n", cgi_map_contains(mp, key)); }
        else if (sscanf(line, "del %2047s", a) == 1) { unhex(a, key); printf("r %d\n", cgi_map_del_shift_item(mp, key)); }
        else if (strncmp(line, "clear", 5) == 0) {
            /* cgi_hashmap_clear frees the keys object; on the static empty keys that would be free() of a
               static object, which no caller does on a map that never held an item */
            if (mp->ma_keys != MAP_EMPTY_KEYS) cgi_hashmap_clear(mp);
            printf("r 0\n"); }
        else if (sscanf(line, "presize %lld", &v) == 1) {
            if (mp->ma_keys != MAP_EMPTY_KEYS) cgi_hashmap_clear(mp);
            free(mp); mp = cgi_new_presized_hashmap(v); printf("r 0\n"); }
        else if (strncmp(line, "dump", 4) == 0) dump(mp);
        else if (line[0] == '\n') ;
        else printf("badline %s", line);
    }
    if (mp->ma_keys != MAP_EMPTY_KEYS) cgi_hashmap_clear(mp);
    free(mp);
    return 0;
}
