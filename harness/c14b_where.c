/* c14b_where.c -- LD_PRELOAD companion of interpose.c for the C14b check: WHERE does a system call come from?
 *
 * Loaded AFTER interpose.so (LD_PRELOAD="libasan.so:interpose.so:c14b_where.so"), so that the interposer's
 * dlsym(RTLD_NEXT, ..) resolves to the functions below: every read/write/lseek/close/fsync/ftruncate call that the
 * interposer FORWARDS passes through here.  For each one a line
 *      bt <name> <hex offset> <hex offset> ...
 * is appended to $VERIF_IP_TRACE *before* the call is made: the return addresses of the frames that lie in the main
 * executable (the harness statically linked with the freshly built libcgns.a), innermost first, as offsets from the
 * executable's load address (ready for addr2line -e <harness>).  The interposer writes its own trace line after the
 * call, so in the trace every tracked call is preceded by its `bt` line.  Nothing is injected or changed here.
 * Built WITHOUT sanitizers:  cc -O2 -fPIC -shared -o c14b_where.so c14b_where.c -ldl
 */
#define _GNU_SOURCE
#include <dlfcn.h>
#include <execinfo.h>
#include <fcntl.h>
#include <link.h>
#include <stdio.h>
#include <stdlib.h>
#include <string.h>
#include <sys/syscall.h>
#include <sys/types.h>
#include <unistd.h>

static int w_inited, w_fd = -1, w_busy;
static unsigned long exe_lo, exe_hi, exe_base;

static int phdr_cb(struct dl_phdr_info *info, size_t size, void *data)
{
    int i;
    (void)size; (void)data;
    if (info->dlpi_name && info->dlpi_name[0]) return 0;      /* the main program has an empty name */
    exe_base = (unsigned long)info->dlpi_addr;
    for (i = 0; i < info->dlpi_phnum; i++)
        if (info->dlpi_phdr[i].p_type == PT_LOAD) {
            unsigned long lo = exe_base + info->dlpi_phdr[i].p_vaddr, hi = lo + info->dlpi_phdr[i].p_memsz;
            if (!exe_lo || lo < exe_lo) exe_lo = lo;
            if (hi > exe_hi) exe_hi = hi;
        }
    return 1;
}

static void w_init(void)
{
    const char *s;
    if (w_inited) return;
    w_inited = 1;
    s = getenv("VERIF_IP_TRACE");
    if (!s || !*s || !getenv("VERIF_WHERE")) return;
    dl_iterate_phdr(phdr_cb, NULL);
    w_fd = (int)syscall(SYS_openat, AT_FDCWD, s, O_WRONLY | O_CREAT | O_APPEND, 0666);
    if (w_fd >= 0 && w_fd < 710) {
        int nfd = (int)syscall(SYS_fcntl, w_fd, F_DUPFD, 710);
        if (nfd >= 0) { syscall(SYS_close, w_fd); w_fd = nfd; }
    }
}

static void where(const char *name)
{
    void *fr[64];
    char line[64 * 18 + 64];
    int n, i, k;
    w_init();
    if (w_fd < 0 || w_busy) return;
    w_busy = 1;                                /* backtrace() may allocate / read files on its first use */
    n = backtrace(fr, 64);
    k = snprintf(line, sizeof line, "bt %s", name);
    for (i = 0; i < n; i++) {
        unsigned long a = (unsigned long)fr[i];
        if (a >= exe_lo && a < exe_hi && k < (int)sizeof line - 20)
            k += snprintf(line + k, sizeof line - k, " %lx", a - exe_base);
    }
    line[k++] = '\n';
    syscall(SYS_write, w_fd, line, (size_t)k);
    w_busy = 0;
}

#define NEXT(ret, name, ...) \
    static ret (*next_##name)(__VA_ARGS__); \
    if (!next_##name) next_##name = (ret (*)(__VA_ARGS__)) dlsym(RTLD_NEXT, #name)

ssize_t write(int fd, const void *b, size_t n) { NEXT(ssize_t, write, int, const void *, size_t); where("write"); return next_write(fd, b, n); }
ssize_t read(int fd, void *b, size_t n) { NEXT(ssize_t, read, int, void *, size_t); where("read"); return next_read(fd, b, n); }
ssize_t pwrite(int fd, const void *b, size_t n, off_t o) { NEXT(ssize_t, pwrite, int, const void *, size_t, off_t); where("pwrite"); return next_pwrite(fd, b, n, o); }
ssize_t pwrite64(int fd, const void *b, size_t n, off_t o) { NEXT(ssize_t, pwrite64, int, const void *, size_t, off_t); where("pwrite"); return next_pwrite64(fd, b, n, o); }
ssize_t pread(int fd, void *b, size_t n, off_t o) { NEXT(ssize_t, pread, int, void *, size_t, off_t); where("pread"); return next_pread(fd, b, n, o); }
ssize_t pread64(int fd, void *b, size_t n, off_t o) { NEXT(ssize_t, pread64, int, void *, size_t, off_t); where("pread"); return next_pread64(fd, b, n, o); }
off_t lseek(int fd, off_t o, int wh) { NEXT(off_t, lseek, int, off_t, int); where("lseek"); return next_lseek(fd, o, wh); }
off_t lseek64(int fd, off_t o, int wh) { NEXT(off_t, lseek64, int, off_t, int); where("lseek"); return next_lseek64(fd, o, wh); }
int close(int fd) { NEXT(int, close, int); where("close"); return next_close(fd); }
int fsync(int fd) { NEXT(int, fsync, int); where("fsync"); return next_fsync(fd); }
int fdatasync(int fd) { NEXT(int, fdatasync, int); where("fdatasync"); return next_fdatasync(fd); }
int ftruncate(int fd, off_t len) { NEXT(int, ftruncate, int, off_t); where("ftruncate"); return next_ftruncate(fd, len); }
int ftruncate64(int fd, off_t len) { NEXT(int, ftruncate64, int, off_t); where("ftruncate"); return next_ftruncate64(fd, len); }
