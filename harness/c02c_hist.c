/* c02c_hist.c -- implementation side of the C02c tie (ADF data chunks and data-chunk tables of ONE node).

   usage:  c02c_hist            script on stdin, one operation per line:
       new <path>                            create the ADF file, node "N" under the root
       pad <k>                               one more sibling node with k bytes of C1 data (moves the end of file, so that
                                             the next chunk of N starts at a chosen offset inside its block)
       dims <TY> <rank> <d1> .. <dr>         cgio_set_dimensions
       wall <hex>                            cgio_write_all_data
       wblk <b_start> <b_end> <hex>          cgio_write_block_data
       wsel <rank> <s e st>*rank <hex>       cgio_write_data, memory side contiguous (1-D, 1..N, stride 1)
       rall | rblk <b_start> <b_end> | rsel <rank> <s e st>*rank      the three readers (cgio_read_*_data_type)
       reopen                                cgio_close_file + cgio_open_file(modify); the node id is looked up again
       arm | disarm                          open / close a window for harness/interpose.c (fault injection leg of the check)
   output, per operation:
       OP <the line>
       ST <cgio status>                      0 or the ADF error code
       DATA <hex>                            reads with status 0
       RAW <address> <hex>                   after new / dims / w* / reopen / pad: bytes of the file READ WITH pread():
                                             the 246-byte node header, the whole data-chunk table, every data chunk with both
                                             tags (up to the farther of the table's and the chunk's own end pointer).  The few
                                             fields decoded here only LOCATE what is dumped; ocaml/eng_c02c.ml decodes
                                             everything again with the extracted AdfCodec decoders.
       END
   Every mutator of the ADF core ends with the modification-date write, which flushes the write buffer, so the file read
   with pread() is current after each successful call. */
#include <stdio.h>
#include <stdlib.h>
#include <string.h>
#include <unistd.h>
#include <fcntl.h>
#include "ADF.h"
#include "ADF_internals.h"
#include "cgns_io.h"

static int cg = -1, rawfd = -1, npad = 0, armed = 0;
static double root_id, nid;
static char path[2048];
static long long naddr = -1;

static unsigned long long lev(const unsigned char *p, int n) { unsigned long long v = 0; int i; for (i = n - 1; i >= 0; i--) v = v * 256 + p[i]; return v; }
static unsigned long long hexv(const unsigned char *p, int n) { unsigned long long v = 0; int i; for (i = 0; i < n; i++) { int c = p[i]; v = v * 16 + (c >= '0' && c <= '9' ? c - '0' : c >= 'A' && c <= 'F' ? c - 'A' + 10 : c >= 'a' && c <= 'f' ? c - 'a' + 10 : 0); } return v; }
/* address of a disk pointer; -1 for a block number no file can have (garbage after a failed call) */
static long long ptr_at(const unsigned char *p) { unsigned long long b = lev(p, 8); return b >> 40 ? -1 : (long long)(b * 4096ULL + lev(p + 8, 4)); }

static void raw(long long a, long long n)
{
    unsigned char *b; long long got, i;
    if (a < 0 || n <= 0 || n > (8LL << 20)) return;
    b = (unsigned char *)malloc(n);
    got = pread(rawfd, b, n, a);
    if (got < 0) got = 0;
    printf("RAW %lld ", a);
    if (got == 0) printf("-");
    for (i = 0; i < got; i++) printf("%02x", b[i]);
    printf("\n");
    free(b);
}

static void dump_chunk(long long s, long long e_tab)
{
    unsigned char c16[16]; long long own, hi;
    if (pread(rawfd, c16, 16, s) != 16) { raw(s, 16); return; }
    own = ptr_at(c16 + 4);
    hi = own > e_tab ? own : e_tab;
    if (hi <= s || hi - s > (8LL << 20)) hi = s + 16 - 4;
    raw(s, hi + 4 - s);
}

static void dump(void)
{
    unsigned char h[246]; long long nch, dc;
    if (rawfd < 0 || naddr < 0 || armed) return;       /* no reads of our own inside a fault-injection window */
    if (pread(rawfd, h, 246, naddr) != 246) { raw(naddr, 246); return; }
    raw(naddr, 246);
    nch = (long long)hexv(h + 226, 4);
    dc = ptr_at(h + 230);
    if (nch == 1) dump_chunk(dc, -1);
    else if (nch >= 2) {
        unsigned char t16[16]; long long tend, n, i; unsigned char *t;
        if (pread(rawfd, t16, 16, dc) != 16) { raw(dc, 16); return; }
        tend = ptr_at(t16 + 4);
        if (tend <= dc || tend - dc > (1LL << 20)) { raw(dc, 16); return; }
        raw(dc, tend + 4 - dc);
        n = (tend - dc - 16) / 24;
        t = (unsigned char *)malloc(n * 24 + 1);
        if (pread(rawfd, t, n * 24, dc + 16) == n * 24)
            for (i = 0; i < n; i++) dump_chunk(ptr_at(t + 24 * i), ptr_at(t + 24 * i + 12));
        free(t);
    }
}

static int hexbytes(const char *s, unsigned char **out)
{
    int n, i;
    if (!s || !strcmp(s, "-")) { *out = (unsigned char *)calloc(1, 1); return 0; }
    n = (int)strlen(s) / 2; *out = (unsigned char *)malloc(n + 1);
    for (i = 0; i < n; i++) { unsigned v; sscanf(s + 2 * i, "%2x", &v); (*out)[i] = (unsigned char)v; }
    return n;
}

static void locate(void)
{
    unsigned int fi; cgulong_t b, o; int err;
    ADFI_ID_2_file_block_offset(nid, &fi, &b, &o, &err);
    naddr = err == NO_ERROR ? (long long)b * 4096 + (long long)o : -1;
}

static int tsize(const char *t)
{
    if (!strcmp(t, "MT")) return 0;
    if (!strcmp(t, "C1") || !strcmp(t, "B1")) return 1;
    if (!strcmp(t, "I4") || !strcmp(t, "U4") || !strcmp(t, "R4")) return 4;
    if (!strcmp(t, "X8")) return 16;
    return 8;
}

/* current type and element count of N as the library reports them */
static int cur_type(char *ty, long long *count)
{
    int nd, i; cgsize_t d[12];
    *count = 0; ty[0] = 0;
    if (cgio_get_data_type(cg, nid, ty)) return 1;
    if (cgio_get_dimensions(cg, nid, &nd, d)) return 1;
    *count = nd > 0 ? 1 : 0;
    for (i = 0; i < nd; i++) *count *= d[i];
    return 0;
}

int main(void)
{
    static char line[1 << 24];
    while (fgets(line, sizeof line, stdin)) {
        char *tok[64]; int nt = 0, st = 0; char *save = NULL, *p;
        size_t L = strlen(line);
        while (L && (line[L - 1] == '\n' || line[L - 1] == '\r')) line[--L] = 0;
        if (!L) continue;
        printf("OP %s\n", line);
        for (p = strtok_r(line, " ", &save); p && nt < 64; p = strtok_r(NULL, " ", &save)) tok[nt++] = p;
        if (!strcmp(tok[0], "new")) {
            strncpy(path, tok[1], sizeof path - 1); remove(path);
            st = cgio_open_file(path, 'w', CGIO_FILE_ADF, &cg);
            if (!st) st = cgio_get_root_id(cg, &root_id);
            if (!st) st = cgio_create_node(cg, root_id, "N", &nid);
            rawfd = open(path, O_RDONLY); locate();
            printf("ST %d\n", st); dump();
        } else if (!strcmp(tok[0], "pad")) {
            char nm[33]; double pid; cgsize_t d[1]; unsigned char *z;
            d[0] = atoll(tok[1]); z = (unsigned char *)calloc(d[0] + 1, 1);
            sprintf(nm, "P%d", npad++);
            st = cgio_create_node(cg, root_id, nm, &pid);
            if (!st) st = cgio_set_dimensions(cg, pid, "C1", 1, d);
            if (!st) st = cgio_write_all_data(cg, pid, z);
            free(z);
            printf("ST %d\n", st); dump();
        } else if (!strcmp(tok[0], "dims")) {
            cgsize_t d[64]; int r = atoi(tok[2]), i;
            for (i = 0; i < r && 3 + i < nt; i++) d[i] = atoll(tok[3 + i]);
            st = cgio_set_dimensions(cg, nid, tok[1], r, d);
            printf("ST %d\n", st); dump();
        } else if (!strcmp(tok[0], "wall")) {
            unsigned char *b; hexbytes(tok[1], &b);
            st = cgio_write_all_data(cg, nid, b); free(b);
            printf("ST %d\n", st); dump();
        } else if (!strcmp(tok[0], "wblk")) {
            unsigned char *b; hexbytes(tok[3], &b);
            st = cgio_write_block_data(cg, nid, atoll(tok[1]), atoll(tok[2]), b); free(b);
            printf("ST %d\n", st); dump();
        } else if (!strcmp(tok[0], "wsel") || !strcmp(tok[0], "rsel")) {
            int w = tok[0][0] == 'w', r = atoi(tok[1]), i; char ty[64]; long long cnt, n = 1;
            cgsize_t s[12], e[12], sd[12], md[1], ms[1], me[1], mst[1];
            for (i = 0; i < r && i < 12; i++) {
                s[i] = atoll(tok[2 + 3 * i]); e[i] = atoll(tok[3 + 3 * i]); sd[i] = atoll(tok[4 + 3 * i]);
                if (sd[i] > 0 && e[i] >= s[i]) n *= (e[i] - s[i]) / sd[i] + 1; else n = 0;
            }
            cur_type(ty, &cnt);
            if (n < 1) n = 1;
            md[0] = n; ms[0] = 1; me[0] = n; mst[0] = 1;
            if (w) {
                unsigned char *b; int nb = hexbytes(tok[2 + 3 * r], &b);
                if (tsize(ty) > 0 && nb / tsize(ty) >= 1) { md[0] = nb / tsize(ty); me[0] = md[0]; }
                st = cgio_write_data(cg, nid, s, e, sd, 1, md, ms, me, mst, b); free(b);
                printf("ST %d\n", st); dump();
            } else {
                long long nb = n * (tsize(ty) ? tsize(ty) : 1), k; unsigned char *b = (unsigned char *)malloc(nb + 16);
                memset(b, 0xEE, nb + 16);
                st = cgio_read_data_type(cg, nid, s, e, sd, ty, 1, md, ms, me, mst, b);
                printf("ST %d\n", st);
                if (!st) { printf("DATA "); for (k = 0; k < nb; k++) printf("%02x", b[k]); printf("\n"); }
                free(b);
            }
        } else if (!strcmp(tok[0], "rall") || !strcmp(tok[0], "rblk")) {
            char ty[64]; long long cnt, nb, k; unsigned char *b;
            cur_type(ty, &cnt);
            if (tok[0][1] == 'a') nb = cnt * tsize(ty);
            else nb = (atoll(tok[2]) - atoll(tok[1]) + 1) * tsize(ty);
            if (nb < 0) nb = 0;
            b = (unsigned char *)malloc(nb + 64); memset(b, 0xEE, nb + 64);
            if (tok[0][1] == 'a') st = cgio_read_all_data_type(cg, nid, ty, b);
            else st = cgio_read_block_data_type(cg, nid, atoll(tok[1]), atoll(tok[2]), ty, b);
            printf("ST %d\n", st);
            if (!st) { printf("DATA "); if (!nb) printf("-"); for (k = 0; k < nb; k++) printf("%02x", b[k]); printf("\n"); }
            free(b);
        } else if (!strcmp(tok[0], "reopen")) {
            long long before = naddr;
            st = cgio_close_file(cg);
            if (!st) st = cgio_open_file(path, 'm', CGIO_FILE_ADF, &cg);
            if (!st) st = cgio_get_root_id(cg, &root_id);
            if (!st) st = cgio_get_node_id(cg, root_id, "N", &nid);
            if (rawfd >= 0) close(rawfd);
            rawfd = open(path, O_RDONLY); locate();
            if (!st && before != naddr) st = -7;
            printf("ST %d\n", st); dump();
        } else if (!strcmp(tok[0], "arm")) {
            /* harness/interpose.c (LD_PRELOAD) counts / fails the system calls made between arm and disarm */
            armed = 1; access("//VERIF_IP_ARM", 0); printf("ST 0\n");
        } else if (!strcmp(tok[0], "disarm")) {
            access("//VERIF_IP_DISARM", 0); armed = 0; printf("ST 0\n");
        } else if (!strcmp(tok[0], "close")) {
            st = cgio_close_file(cg); cg = -1;
            printf("ST %d\n", st);
        } else printf("ST -99\n");
        printf("END\n");
        fflush(stdout);
    }
    if (cg >= 0) cgio_close_file(cg);
    return 0;
}
