/* c17_mll.c -- sessions at the mid-level library (MLL) for the C17 check, with the resource probes of c17_common.c.
   Every line of the script is one API call (or a short fixed group); the harness prints
       <op> <status> | fds <descriptors beyond baseline> h5 <open HDF5 ids> user <files the script holds open>
                     [| mll <n_open> <n_cgns_files> <cgns_file_size> <file_number_offset> <fn>]      (open / close only)
   and, at "cycle <k>", the exact number of heap bytes currently allocated.  Nothing here decides anything: the verdicts
   are taken by checks/C17.py.

   usage: c17_mll <dir>          script on stdin:
     ftype adf|hdf5                                   cg_set_file_type
     prep <id> <kind> <adf|hdf5>                      create the special file M<id>.cgns in a forked child; kinds:
          garbage   64 arbitrary bytes                 (not a CGNS file at all)
          badver    CGNSLibraryVersion = 9.9           (opens at the cgio level, cg_open fails on the version)
          twovers   two CGNSLibraryVersion_t nodes     (opens at the cgio level, cg_open fails in cg_version)
          badbase   CGNSBase_t node with I4 data of dimension 5   (opens at the cgio level, cgi_read fails)
          badzone   a good base with a Zone_t node whose data has the wrong shape (cgi_read fails deep in the tree)
          dir       a directory
     open <h> <id> <r|w|m>      close <h>
     base <h> <name>            zone <h> <B> <name> <n>       coord <h> <B> <Z> <name>
     sol <h> <B> <Z> <name>     field <h> <B> <Z> <S> <name>  desc <h> <B> <name> <text>
     link <h> <B> <Z> <name> <id> <path>      (Z = 0: under the base)  cg_goto + cg_link_write(name, "M<id>.cgns", path)
     nbases <h>   nzones <h> <B>   rzone <h> <B> <Z>   ncoords <h> <B> <Z>   rcoord <h> <B> <Z> <name>
     nsols <h> <B> <Z>   rfield <h> <B> <Z> <S> <name>   ndesc <h> <B>   rdesc <h> <B> <D>
     gopath <h> <path>   where   delete <h> <B> <name>   save <h> <id> <adf|hdf5> <follow>
     tdata <h> <B> <coord|field|pcoord|pfield> <DataType>   write an array of that stored type through the typed writer
     rtypes <h> <B> <array|coord|field|pcoord|pfield> <name>  read it through every reading entry point with every memory type
     fill <h> <B> <kind> <n>   create n children: zone pzone family desc user (of the base), sol grid discrete integral zuser (of
                               zone 1), field (of solution 1 of zone 1)
     drain <h> <B> <kind>      delete EVERY child of that kind (cg_delete_node by name)
     array <h> <B> <name> <DataType name> <n>      cg_array_write + cg_array_read_as under /Base/U (UserDefinedData_t)
     cycle <k>
*/
#include "c17_common.c"
#include "cgnslib.h"
#include "cgns_io.h"

extern int n_open, n_cgns_files, cgns_file_size, file_number_offset;

static char dir[600];
static int fd0 = 0;
static int fns[64];
static int isopen[64];
static int zsize[64];

static void path_of(int id, char *out) { sprintf(out, "%s/M%d.cgns", dir, id); }
static int users(void) { int i, n = 0; for (i = 0; i < 64; i++) n += isopen[i]; return n; }

static int last_ier = 0;
static void tail(int mll, int fn)
{
    printf(" | fds %d h5 %ld user %d", fd_count() - fd0, h5_count(), users());
    if (mll) printf(" | mll %d %d %d %d %d", n_open, n_cgns_files, cgns_file_size, file_number_offset, fn);
    if (mll && last_ier) {            /* the library's message, for the reader of a replay file only (never compared) */
        char msg[120]; const char *e = cg_get_error(); size_t i;
        for (i = 0; e && e[i] && i < sizeof msg - 1; i++) msg[i] = (e[i] == '|' || e[i] == '\n') ? ' ' : e[i];
        msg[i] = 0;
        printf(" | err %s", msg);
    }
    printf("\n");
    fflush(stdout);
}

static void prep(int id, const char *kind, const char *be)
{
    char p[700]; int c, ft = !strcmp(be, "hdf5") ? CGIO_FILE_HDF5 : CGIO_FILE_ADF;
    double root, id1, id2; cgsize_t dim = 1; float v = 9.9f; int iv[8] = {3, 3, 3, 3, 3, 0, 0, 0};
    path_of(id, p);
    if (!strcmp(kind, "garbage")) { FILE *f = fopen(p, "wb"); int j; for (j = 0; j < 64; j++) fputc(33 + (j * 11) % 90, f); fclose(f); return; }
    if (!strcmp(kind, "dir")) { mkdir(p, 0777); return; }
    if (!strcmp(kind, "empty")) { FILE *f = fopen(p, "wb"); if (f) fclose(f); return; }
    if (!strcmp(kind, "h5plain")) {             /* a valid HDF5 file that is neither a CGNS nor a cgio (ADFH) file */
        hid_t f = H5Fcreate(p, H5F_ACC_TRUNC, H5P_DEFAULT, H5P_DEFAULT), g;
        if (f < 0) { printf("prepfail h5plain\n"); exit(3); }
        g = H5Gcreate2(f, "Stuff", H5P_DEFAULT, H5P_DEFAULT, H5P_DEFAULT); if (g >= 0) H5Gclose(g);
        H5Fclose(f); return;
    }
    if (cgio_open_file(p, 'w', ft, &c)) { printf("prepfail open\n"); exit(3); }
    cgio_get_root_id(c, &root);
    if (!strcmp(kind, "ivers")) {            /* the version node holds an integer */
        cgio_new_node(c, root, "CGNSLibraryVersion", "CGNSLibraryVersion_t", "I4", 1, &dim, iv, &id1);
    } else if (!strcmp(kind, "badver")) {
        cgio_new_node(c, root, "CGNSLibraryVersion", "CGNSLibraryVersion_t", "R4", 1, &dim, &v, &id1);
    } else if (!strcmp(kind, "twovers")) {
        v = 3.2f;
        cgio_new_node(c, root, "CGNSLibraryVersion", "CGNSLibraryVersion_t", "R4", 1, &dim, &v, &id1);
        cgio_new_node(c, root, "CGNSLibraryVersion2", "CGNSLibraryVersion_t", "R4", 1, &dim, &v, &id2);
    } else if (!strcmp(kind, "badbase")) {
        v = 3.2f;
        cgio_new_node(c, root, "CGNSLibraryVersion", "CGNSLibraryVersion_t", "R4", 1, &dim, &v, &id1);
        dim = 5;
        cgio_new_node(c, root, "Base", "CGNSBase_t", "I4", 1, &dim, iv, &id2);
    } else if (!strcmp(kind, "badzone")) {
        double bid, zid; cgsize_t d2 = 2;
        v = 3.2f;
        cgio_new_node(c, root, "CGNSLibraryVersion", "CGNSLibraryVersion_t", "R4", 1, &dim, &v, &id1);
        cgio_new_node(c, root, "Base", "CGNSBase_t", "I4", 1, &d2, iv, &bid);
        dim = 7;
        cgio_new_node(c, bid, "GoodFamily", "Family_t", "MT", 0, &dim, NULL, &id2);
        cgio_new_node(c, bid, "Zone", "Zone_t", "I4", 1, &dim, iv, &zid);
    }
    if (cgio_close_file(c)) { printf("prepfail close\n"); exit(3); }
}

static double *gen(long n) { long i; double *v = (double *)malloc(sizeof(double) * (n + 1)); for (i = 0; i < n; i++) v[i] = (double)(i % 97) / 8.0; return v; }

int main(int argc, char **argv)
{
    static char line[4096], a[1024], b[1024], c[1024];
    int h, id, B, Z, S, D, n;
    if (argc < 2) return 2;
    strncpy(dir, argv[1], sizeof dir - 1);
    fd0 = fd_count();
    while (fgets(line, sizeof line, stdin)) {
        int ier = -999; char m;
        size_t L = strlen(line);
        while (L && (line[L - 1] == '\n' || line[L - 1] == '\r')) line[--L] = 0;
        if (!L || line[0] == '#') continue;
        if (sscanf(line, "ftype %1023s", a) == 1) { ier = cg_set_file_type(!strcmp(a, "hdf5") ? CG_FILE_HDF5 : CG_FILE_ADF); printf("ftype %d", ier); tail(0, 0); }
        else if (sscanf(line, "prep %d %1023s %1023s", &id, a, b) == 3) {
            pid_t pid; int st = 0;
            fflush(stdout);
            pid = fork();
            if (pid == 0) { prep(id, a, b); fflush(stdout); _exit(0); }
            waitpid(pid, &st, 0);
            if (!WIFEXITED(st) || WEXITSTATUS(st) != 0) { printf("prepfail child %d\n", st); return 3; }
            printf("prep 0"); tail(0, 0);
        }
        else if (sscanf(line, "open %d %d %c", &h, &id, &m) == 3) {
            static char p[2400]; int fn = -7;
            path_of(id, p);
            if (id == 99) { size_t q = strlen(dir); memset(p + q + 1, 'L', 1500); strcpy(p + q + 1501, ".cgns"); }   /* name too long */
            ier = cg_open(p, m == 'w' ? CG_MODE_WRITE : m == 'm' ? CG_MODE_MODIFY : m == 'r' ? CG_MODE_READ : 77, &fn);
            if (!ier && h >= 0 && h < 64) { fns[h] = fn; isopen[h] = 1; }
            last_ier = ier; printf("open %d", ier); tail(1, ier ? 0 : fn);
        }
        else if (sscanf(line, "close %d", &h) == 1) {
            ier = cg_close(h >= 0 && h < 64 ? fns[h] : h);
            if (!ier && h >= 0 && h < 64) isopen[h] = 0;
            last_ier = ier; printf("close %d", ier); tail(1, 0);
        }
        else if (sscanf(line, "base %d %1023s", &h, a) == 2) { ier = cg_base_write(fns[h], a, 3, 3, &B); printf("base %d", ier); tail(0, 0); }
        else if (sscanf(line, "zone %d %d %1023s %d", &h, &B, a, &n) == 4) {
            cgsize_t size[9] = {0};
            size[0] = size[1] = size[2] = n; size[3] = size[4] = size[5] = n - 1; zsize[h] = n;
            ier = cg_zone_write(fns[h], B, a, size, CGNS_ENUMV(Structured), &Z); printf("zone %d", ier); tail(0, 0);
        }
        else if (sscanf(line, "coord %d %d %d %1023s", &h, &B, &Z, a) == 4) {
            int C; long k = zsize[h] ? zsize[h] : 2; double *v = gen(k * k * k);
            ier = cg_coord_write(fns[h], B, Z, CGNS_ENUMV(RealDouble), a, v, &C); free(v); printf("coord %d", ier); tail(0, 0);
        }
        else if (sscanf(line, "sol %d %d %d %1023s", &h, &B, &Z, a) == 4) { ier = cg_sol_write(fns[h], B, Z, a, CGNS_ENUMV(Vertex), &S); printf("sol %d", ier); tail(0, 0); }
        else if (sscanf(line, "field %d %d %d %d %1023s", &h, &B, &Z, &S, a) == 5) {
            int F; long k = zsize[h] ? zsize[h] : 2; double *v = gen(k * k * k);
            ier = cg_field_write(fns[h], B, Z, S, CGNS_ENUMV(RealDouble), a, v, &F); free(v); printf("field %d", ier); tail(0, 0);
        }
        else if (sscanf(line, "desc %d %d %1023s %1023s", &h, &B, a, b) == 4) {
            ier = cg_goto(fns[h], B, "end"); if (!ier) ier = cg_descriptor_write(a, b); printf("desc %d", ier); tail(0, 0);
        }
        else if (sscanf(line, "link %d %d %d %1023s %d %1023s", &h, &B, &Z, a, &id, b) == 6) {
            char fnm[64]; sprintf(fnm, "M%d.cgns", id);
            ier = Z ? cg_goto(fns[h], B, "Zone_t", Z, "end") : cg_goto(fns[h], B, "end");
            if (!ier) ier = cg_link_write(a, fnm, b);
            printf("link %d", ier); tail(0, 0);
        }
        else if (sscanf(line, "array %d %d %1023s %1023s %d", &h, &B, a, b, &n) == 5) {
            /* array <h> <B> <name> <Integer|LongInteger|RealSingle|RealDouble|Character|ComplexSingle|ComplexDouble> <n>:
               cg_goto(base, UserDefinedData_t "U" (created when missing)), cg_array_write, cg_array_read_as the same type */
            static double buf[4096]; cgsize_t dim = n > 100 ? 100 : n; int nu = 0, na = 0, i;
            CGNS_ENUMT(DataType_t) dt = CGNS_ENUMV(Integer);
            for (i = 0; i < NofValidDataTypes; i++) if (!strcmp(DataTypeName[i], b)) dt = (CGNS_ENUMT(DataType_t))i;
            memset(buf, 0x21, sizeof buf);
            ier = cg_goto(fns[h], B, "end");
            if (!ier) ier = cg_nuser_data(&nu);
            if (!ier && nu == 0) ier = cg_user_data_write("U");
            if (!ier) ier = cg_goto(fns[h], B, "UserDefinedData_t", 1, "end");
            if (!ier) ier = cg_array_write(a, dt, 1, &dim, buf);
            if (!ier) ier = cg_narrays(&na);
            for (i = 1; !ier && i <= na; i++) {
                char nm[64]; CGNS_ENUMT(DataType_t) t2; int nd; cgsize_t dv[12];
                ier = cg_array_info(i, nm, &t2, &nd, dv);
                if (!ier && !strcmp(nm, a)) { ier = cg_array_read_as(i, t2, buf); break; }
            }
            printf("array %d", ier); tail(0, 0);
        }
        else if (sscanf(line, "tdata %d %d %1023s %1023s", &h, &B, a, b) == 4) {
            /* tdata <h> <B> <coord|field|pcoord|pfield> <DataType name>: write an array of that STORED type through the typed writer:
               coordinate T_<type> of zone 1, field T_<type> of solution 1 of zone 1, coordinate / field T_<type> of particle zone 1
               (its solution 1: op psol).  Types the writer refuses give an error (that is a refused call too). */
            static double buf[8192]; int idx, i, ns = 0; char nm[40];
            CGNS_ENUMT(DataType_t) dt = CGNS_ENUMV(Integer);
            for (i = 0; i < NofValidDataTypes; i++) if (!strcmp(DataTypeName[i], b)) dt = (CGNS_ENUMT(DataType_t))i;
            memset(buf, 0, sizeof buf);
            sprintf(nm, "T_%s", b);
            if (!strcmp(a, "coord")) ier = cg_coord_write(fns[h], B, 1, dt, nm, buf, &idx);
            else if (!strcmp(a, "field")) ier = cg_field_write(fns[h], B, 1, 1, dt, nm, buf, &idx);
            else if (!strcmp(a, "pcoord")) ier = cg_particle_coord_write(fns[h], B, 1, dt, nm, buf, &idx);
            else ier = cg_particle_field_write(fns[h], B, 1, 1, dt, nm, buf, &idx);
            (void)ns;
            printf("tdata %d", ier); tail(0, 0);
        }
        else if (sscanf(line, "psol %d %d %1023s", &h, &B, a) == 3) { int idx; ier = cg_particle_sol_write(fns[h], B, 1, a, &idx); printf("psol %d", ier); tail(0, 0); }
        else if (sscanf(line, "rtypes %d %d %1023s %1023s", &h, &B, a, b) == 4) {
            /* rtypes <h> <B> <array|coord|field|pcoord|pfield> <name>: read the named array through EVERY reading entry point of its
               kind with EVERY memory data type (valid or not for the stored type): the typed reader over the full range, the
               general reader over the full range, over a part of the file range, and into a part of a larger memory array.
               The library accepts some pairs and refuses others; none may leave anything behind.  -> "rtypes 0 ok <n> refused <m>" */
            static double buf[16384]; int nok = 0, nref = 0, A = 0, na = 0, i, m, nd = 1, st = 0;
            cgsize_t lo[3] = {1, 1, 1}, hi[3] = {1, 1, 1}, plo[3] = {1, 1, 1}, phi[3] = {1, 1, 1}, md[3], mlo[3], mhi[3], bd[3], blo[3], bhi[3], sz[9];
            char nm[64]; CGNS_ENUMT(DataType_t) t2;
            if (!strcmp(a, "array")) {
                st = cg_goto(fns[h], B, "UserDefinedData_t", 1, "end");
                if (!st) st = cg_narrays(&na);
                for (i = 1; !st && i <= na; i++) { cgsize_t dv[12]; st = cg_array_info(i, nm, &t2, &nd, dv); if (!st && !strcmp(nm, b)) { A = i; hi[0] = dv[0]; nd = 1; break; } }
                if (!st && !A) st = 1;
            } else if (a[0] == 'p') { st = cg_particle_read(fns[h], B, 1, nm, sz); hi[0] = sz[0]; nd = 1; }
            else { st = cg_zone_read(fns[h], B, 1, nm, sz); hi[0] = sz[0]; hi[1] = sz[1]; hi[2] = sz[2]; nd = 3; }
            for (i = 0; i < nd; i++) {
                phi[i] = hi[i] > 1 ? hi[i] - 1 : 1;                        /* part of the file range */
                md[i] = hi[i]; mlo[i] = 1; mhi[i] = hi[i];                 /* memory = file shape */
                bd[i] = hi[i] + 2; blo[i] = 2; bhi[i] = hi[i] + 1;         /* a part of a larger memory array */
            }
            for (m = 0; !st && m < NofValidDataTypes; m++) {
                CGNS_ENUMT(DataType_t) mt = (CGNS_ENUMT(DataType_t))m; int e[4] = {0, 0, 0, 0}, q;
                if (!strcmp(a, "array")) {
                    e[0] = cg_array_read_as(A, mt, buf);
                    e[1] = cg_array_general_read(A, lo, hi, mt, nd, md, mlo, mhi, buf);
                    e[2] = cg_array_general_read(A, plo, phi, mt, nd, md, mlo, phi, buf);
                    e[3] = cg_array_general_read(A, lo, hi, mt, nd, bd, blo, bhi, buf);
                } else if (!strcmp(a, "coord")) {
                    e[0] = cg_coord_read(fns[h], B, 1, b, mt, lo, hi, buf);
                    e[1] = cg_coord_general_read(fns[h], B, 1, b, lo, hi, mt, nd, md, mlo, mhi, buf);
                    e[2] = cg_coord_general_read(fns[h], B, 1, b, plo, phi, mt, nd, md, mlo, phi, buf);
                    e[3] = cg_coord_general_read(fns[h], B, 1, b, lo, hi, mt, nd, bd, blo, bhi, buf);
                } else if (!strcmp(a, "field")) {
                    e[0] = cg_field_read(fns[h], B, 1, 1, b, mt, lo, hi, buf);
                    e[1] = cg_field_general_read(fns[h], B, 1, 1, b, lo, hi, mt, nd, md, mlo, mhi, buf);
                    e[2] = cg_field_general_read(fns[h], B, 1, 1, b, plo, phi, mt, nd, md, mlo, phi, buf);
                    e[3] = cg_field_general_read(fns[h], B, 1, 1, b, lo, hi, mt, nd, bd, blo, bhi, buf);
                } else if (!strcmp(a, "pcoord")) {
                    e[0] = cg_particle_coord_read(fns[h], B, 1, b, mt, lo, hi, buf);
                    e[1] = cg_particle_coord_general_read(fns[h], B, 1, b, lo, hi, mt, md, mlo, mhi, buf);
                    e[2] = cg_particle_coord_general_read(fns[h], B, 1, b, plo, phi, mt, md, mlo, phi, buf);
                    e[3] = cg_particle_coord_general_read(fns[h], B, 1, b, lo, hi, mt, bd, blo, bhi, buf);
                } else {
                    e[0] = cg_particle_field_read(fns[h], B, 1, 1, b, mt, lo, hi, buf);
                    e[1] = cg_particle_field_general_read(fns[h], B, 1, 1, b, lo, hi, mt, md, mlo, mhi, buf);
                    e[2] = cg_particle_field_general_read(fns[h], B, 1, 1, b, plo, phi, mt, md, mlo, phi, buf);
                    e[3] = cg_particle_field_general_read(fns[h], B, 1, 1, b, lo, hi, mt, bd, blo, bhi, buf);
                }
                for (q = 0; q < 4; q++) if (e[q]) nref++; else nok++;
            }
            ier = st;
            printf("rtypes %d ok %d refused %d", st, nok, nref); tail(0, 0);
        }
        else if (sscanf(line, "fill %d %d %1023s %d", &h, &B, a, &n) == 4) {
            /* fill <h> <B> <kind> <n>: create n children of that kind (names <K><i>): zone pzone family desc user under the base;
               sol grid discrete integral zuser under zone 1; field under zone 1 / solution 1 */
            int i, idx; char nm[40]; cgsize_t size[9] = {2, 2, 2, 1, 1, 1, 0, 0, 0}, psize = 3; double v[8] = {0};
            ier = 0;
            for (i = 1; i <= n && !ier; i++) {
                sprintf(nm, "%c%d", toupper((unsigned char)a[0]), i);
                if (!strcmp(a, "zone")) ier = cg_zone_write(fns[h], B, nm, size, CGNS_ENUMV(Structured), &idx);
                else if (!strcmp(a, "pzone")) ier = cg_particle_write(fns[h], B, nm, psize, &idx);
                else if (!strcmp(a, "family")) ier = cg_family_write(fns[h], B, nm, &idx);
                else if (!strcmp(a, "sol")) ier = cg_sol_write(fns[h], B, 1, nm, CGNS_ENUMV(Vertex), &idx);
                else if (!strcmp(a, "grid")) ier = cg_grid_write(fns[h], B, 1, nm, &idx);
                else if (!strcmp(a, "discrete")) ier = cg_discrete_write(fns[h], B, 1, nm, &idx);
                else if (!strcmp(a, "field")) ier = cg_field_write(fns[h], B, 1, 1, CGNS_ENUMV(RealDouble), nm, v, &idx);
                else if (!strcmp(a, "integral") || !strcmp(a, "zuser")) {
                    ier = cg_goto(fns[h], B, "Zone_t", 1, "end"); if (!ier) ier = a[0] == 'i' ? cg_integral_write(nm) : cg_user_data_write(nm);
                }
                else { ier = cg_goto(fns[h], B, "end"); if (!ier) ier = !strcmp(a, "desc") ? cg_descriptor_write(nm, "text") : cg_user_data_write(nm); }
            }
            printf("fill %d", ier); tail(0, 0);
        }
        else if (sscanf(line, "drain %d %d %1023s", &h, &B, a) == 3) {
            /* drain <h> <B> <kind>: cg_delete_node of EVERY child of that kind, by the number and the names the library reports */
            int cnt = 0, i, under = 0; char (*names)[33] = NULL;
            ier = 0;
            if (!strcmp(a, "zone")) ier = cg_nzones(fns[h], B, &cnt);
            else if (!strcmp(a, "pzone")) ier = cg_nparticle_zones(fns[h], B, &cnt);
            else if (!strcmp(a, "family")) ier = cg_nfamilies(fns[h], B, &cnt);
            else if (!strcmp(a, "sol")) { under = 1; ier = cg_nsols(fns[h], B, 1, &cnt); }
            else if (!strcmp(a, "grid")) { under = 1; ier = cg_ngrids(fns[h], B, 1, &cnt); }
            else if (!strcmp(a, "discrete")) { under = 1; ier = cg_ndiscrete(fns[h], B, 1, &cnt); }
            else if (!strcmp(a, "field")) { under = 2; ier = cg_nfields(fns[h], B, 1, 1, &cnt); }
            else if (!strcmp(a, "integral") || !strcmp(a, "zuser")) {
                under = 1; ier = cg_goto(fns[h], B, "Zone_t", 1, "end"); if (!ier) ier = a[0] == 'i' ? cg_nintegrals(&cnt) : cg_nuser_data(&cnt);
            }
            else { ier = cg_goto(fns[h], B, "end"); if (!ier) ier = !strcmp(a, "desc") ? cg_ndescriptors(&cnt) : cg_nuser_data(&cnt); }
            if (!ier && cnt > 0) names = (char (*)[33])calloc(cnt, 33);
            for (i = 1; i <= cnt && !ier; i++) {
                cgsize_t sz[9]; int x, y; char *text = NULL;
                if (!strcmp(a, "sol")) { CGNS_ENUMT(GridLocation_t) loc; ier = cg_sol_info(fns[h], B, 1, i, names[i - 1], &loc); }
                else if (!strcmp(a, "grid")) ier = cg_grid_read(fns[h], B, 1, i, names[i - 1]);
                else if (!strcmp(a, "discrete")) ier = cg_discrete_read(fns[h], B, 1, i, names[i - 1]);
                else if (!strcmp(a, "field")) { CGNS_ENUMT(DataType_t) dt; ier = cg_field_info(fns[h], B, 1, 1, i, &dt, names[i - 1]); }
                else if (under) { ier = cg_goto(fns[h], B, "Zone_t", 1, "end"); if (!ier) ier = a[0] == 'i' ? cg_integral_read(i, names[i - 1]) : cg_user_data_read(i, names[i - 1]); }
                else if (!strcmp(a, "zone")) ier = cg_zone_read(fns[h], B, i, names[i - 1], sz);
                else if (!strcmp(a, "pzone")) ier = cg_particle_read(fns[h], B, i, names[i - 1], sz);
                else if (!strcmp(a, "family")) ier = cg_family_read(fns[h], B, i, names[i - 1], &x, &y);
                else if (!strcmp(a, "desc")) { ier = cg_goto(fns[h], B, "end"); if (!ier) ier = cg_descriptor_read(i, names[i - 1], &text); if (text) cg_free(text); }
                else { ier = cg_goto(fns[h], B, "end"); if (!ier) ier = cg_user_data_read(i, names[i - 1]); }
            }
            for (i = 0; i < cnt && !ier; i++) {
                ier = under == 2 ? cg_goto(fns[h], B, "Zone_t", 1, "FlowSolution_t", 1, "end") : under ? cg_goto(fns[h], B, "Zone_t", 1, "end") : cg_goto(fns[h], B, "end");
                if (!ier) ier = cg_delete_node(names[i]);
            }
            free(names);
            printf("drain %d %d", ier, cnt); tail(0, 0);
        }
        else if (sscanf(line, "nbases %d", &h) == 1) { ier = cg_nbases(fns[h], &n); printf("nbases %d %d", ier, ier ? 0 : n); tail(0, 0); }
        else if (sscanf(line, "nzones %d %d", &h, &B) == 2) { ier = cg_nzones(fns[h], B, &n); printf("nzones %d %d", ier, ier ? 0 : n); tail(0, 0); }
        else if (sscanf(line, "rzone %d %d %d", &h, &B, &Z) == 3) {
            char nm[64]; cgsize_t size[9]; ier = cg_zone_read(fns[h], B, Z, nm, size);
            if (!ier) zsize[h] = (int)size[0];
            printf("rzone %d %d", ier, ier ? 0 : (int)size[0]); tail(0, 0);
        }
        else if (sscanf(line, "ncoords %d %d %d", &h, &B, &Z) == 3) { ier = cg_ncoords(fns[h], B, Z, &n); printf("ncoords %d %d", ier, ier ? 0 : n); tail(0, 0); }
        else if (sscanf(line, "rcoord %d %d %d %1023s", &h, &B, &Z, a) == 4) {
            char nm[64]; cgsize_t size[9], lo[3] = {1, 1, 1}, hi[3]; double *v; long k;
            ier = cg_zone_read(fns[h], B, Z, nm, size);
            if (!ier) {
                k = (long)size[0]; hi[0] = hi[1] = hi[2] = k; v = gen(k * k * k);
                ier = cg_coord_read(fns[h], B, Z, a, CGNS_ENUMV(RealDouble), lo, hi, v); free(v);
            }
            printf("rcoord %d", ier); tail(0, 0);
        }
        else if (sscanf(line, "nsols %d %d %d", &h, &B, &Z) == 3) { ier = cg_nsols(fns[h], B, Z, &n); printf("nsols %d %d", ier, ier ? 0 : n); tail(0, 0); }
        else if (sscanf(line, "rfield %d %d %d %d %1023s", &h, &B, &Z, &S, a) == 5) {
            char nm[64]; cgsize_t size[9], lo[3] = {1, 1, 1}, hi[3]; double *v; long k;
            ier = cg_zone_read(fns[h], B, Z, nm, size);
            if (!ier) {
                k = (long)size[0]; hi[0] = hi[1] = hi[2] = k; v = gen(k * k * k);
                ier = cg_field_read(fns[h], B, Z, S, a, CGNS_ENUMV(RealDouble), lo, hi, v); free(v);
            }
            printf("rfield %d", ier); tail(0, 0);
        }
        else if (sscanf(line, "ndesc %d %d", &h, &B) == 2) {
            ier = cg_goto(fns[h], B, "end"); if (!ier) ier = cg_ndescriptors(&n); printf("ndesc %d %d", ier, ier ? 0 : n); tail(0, 0);
        }
        else if (sscanf(line, "rdesc %d %d %d", &h, &B, &D) == 3) {
            char nm[64]; char *text = NULL;
            ier = cg_goto(fns[h], B, "end"); if (!ier) ier = cg_descriptor_read(D, nm, &text);
            if (!ier && text) cg_free(text);
            printf("rdesc %d", ier); tail(0, 0);
        }
        else if (sscanf(line, "gopath %d %1023s", &h, a) == 2) { ier = cg_gopath(fns[h], a); printf("gopath %d", ier); tail(0, 0); }
        else if (!strncmp(line, "where", 5)) {
            int f2, b2, depth, num[CG_MAX_GOTO_DEPTH]; char *lab[CG_MAX_GOTO_DEPTH]; int i;
            for (i = 0; i < CG_MAX_GOTO_DEPTH; i++) lab[i] = (char *)malloc(33);
            ier = cg_where(&f2, &b2, &depth, lab, num);
            for (i = 0; i < CG_MAX_GOTO_DEPTH; i++) free(lab[i]);
            printf("where %d", ier); tail(0, 0);
        }
        else if (sscanf(line, "delete %d %d %1023s", &h, &B, a) == 3) {
            ier = cg_goto(fns[h], B, "end"); if (!ier) ier = cg_delete_node(a); printf("delete %d", ier); tail(0, 0);
        }
        else if (sscanf(line, "save %d %d %1023s %d", &h, &id, a, &n) == 4) {
            char p[700]; path_of(id, p);
            ier = cg_save_as(fns[h], p, !strcmp(a, "hdf5") ? CG_FILE_HDF5 : CG_FILE_ADF, n); printf("save %d", ier); tail(0, 0);
        }
        else if (sscanf(line, "cycle %d", &n) == 1) {
            char t[2000]; fd_targets(t, sizeof t);
            printf("cycle %d heap %lld fds %d h5 %ld user %d open[%s]\n", n, heap_bytes(), fd_count() - fd0, h5_count(), users(), t); fflush(stdout);
        }
        else { printf("badline %s\n", line); fflush(stdout); }
    }
    {
        int lk = leak_check();
        printf("end leaks %d\n", lk); fflush(stdout);
    }
    return 0;
}
