/* c02b_trace.c -- implementation side of the C02b tie (ADF block buffers, priority stack, sub-node tables).

   usage:  c02b_trace api    script of harness/cgio_h.c (checks/nodedb.py) on stdin: drives cgio_* on one to four
                              ADF files open together; the API result lines of cgio_h.c go to stdout unchanged and,
                              when the library carries the CGNS_VERIF trace hook (compile with -DC02B_HAVE_HOOK),
                              every ADFI_read_file / ADFI_write_file / ADFI_flush_buffers / ADFI_stack_control /
                              ADFI_add_2_sub_node_table / ADFI_delete_from_sub_node_table / ADFI_open_file call is
                              reported as a line "T ..." in between (format below).
           c02b_trace unit   drives the ADFI_* routines directly (no tree): lines
                                open <path> <NEW|OLD>        r <fi> <block> <off> <len>      w <fi> <block> <off> <hex>
                                f <fi> <mode>                c <fi>                           k <mode> <fi> <block> <off> <type> <len> <hex|->
                              and prints the same T lines (through the hook when present, else by hand, then
                              without the state fields).
   T lines (ocaml/eng_c02b.ml replays them through the extracted models):
     T O <fi> <size> <hash> <path-hex>                               a file slot taken; size/hash of the file now
     T R <fi> <block> <off> <len> <err> <how> <hex|-> S <state>       how: 0 buffer hit 1 from write buffer 2 disk 3 large
     T W <fi> <block> <off> <len> <err> <hex|-> S <state>
     T F <fi> <mode> <err> <size> <hash> S <state>                    size/hash only for mode 1 (FLUSH_CLOSE), else 0 0
     T K <mode> <fi> <block> <off> <type> <len> <ret> <hex|-> S <stackhash> <linkcache 0|1>
     T A|D <fi> <pblock> <poff> <caddr> <err> <cname-hex> <ccap> <num> <cap> <entries>   entries: name-hex:block:off,...
     T N <fi> <pblock> <poff> <old-hex> <new-hex> <num> <cap> <entries>                   (a successful cgio_set_name)
     T C <8 counters>                                                 at the end
   <state> = rd_block rd_file rd_num wr_block wr_file wr_flush hash(rd buffer) hash(wr buffer), or "-" without hook.
   X lines: the model-independent oracle -- the bytes a read or a stack GET hit returned differ from the
   authoritative bytes (pread of the file overlaid with the pending dirty write block):
     X R|K <fi> <address> <len> <first differing index> <returned-hex> <authoritative-hex>
     (a probe of a deleted node's old id was tried and dropped: on the UNCHANGED library cgio_get_label on such an id
      runs ADFI_stridx_c over the unterminated 246-byte header buffer -- ASan stack-buffer-overflow, C13 territory) */
#include <stdio.h>
#include <stdlib.h>
#include <string.h>
#include <unistd.h>
#include <fcntl.h>
#include <sys/stat.h>
#include "ADF.h"
#include "ADF_internals.h"

#include "cgns_io.h"
/* cgio_h.c calls cgio_set_name through this wrapper so that a successful rename can be reported (T N) */
static int c02b_set_name(int cgio_num, double pid, double id, const char *name);
#define main cgio_main
#define cgio_set_name c02b_set_name
#include "cgio_h.c"
#undef cgio_set_name
#undef main

#define HP 2147483647ULL
static unsigned long long hbytes(const unsigned char *p, long long n)
{ unsigned long long h = 7; long long i; for (i = 0; i < n; i++) h = (h * 131 + p[i] + 1) % HP; return h; }
static void hexs(const unsigned char *b, long long n) { long long i; if (n <= 0) printf("-"); for (i = 0; i < n; i++) printf("%02x", b[i]); }

#define MAXFI 64
static int vfd[MAXFI];
static char vpath[MAXFI][600];
static void file_sig(int fi, long long *size, unsigned long long *hash)
{
    struct stat sb; unsigned char *b; long long n = 0;
    *size = -1; *hash = 0;
    if (fi < 0 || fi >= MAXFI || vfd[fi] < 0 || fstat(vfd[fi], &sb)) return;
    b = (unsigned char *)malloc(sb.st_size + 1);
    if (sb.st_size) n = pread(vfd[fi], b, sb.st_size, 0);
    *size = n; *hash = hbytes(b, n); free(b);
}
static void own_open(int fi, const char *path)
{
    if (fi < 0 || fi >= MAXFI) return;
    if (vfd[fi] >= 0) close(vfd[fi]);
    vfd[fi] = open(path, O_RDONLY); strncpy(vpath[fi], path, 599);
}

#ifdef C02B_HAVE_HOOK
/* authoritative bytes of [addr, addr+len) of file fi: the file itself, overlaid with the pending write block */
static void auth(const ADFI_VERIF_STATE *st, int fi, long long addr, long long len, unsigned char *out, unsigned char *def)
{
    long long n = 0, i;
    memset(def, 0, len); memset(out, 0, len);
    if (fi >= 0 && fi < MAXFI && vfd[fi] >= 0 && len > 0) n = pread(vfd[fi], out, len, addr);
    for (i = 0; i < n; i++) def[i] = 1;
    if (st->wr_flush > 0 && st->wr_file == fi) {
        long long b0 = st->wr_block * 4096LL;
        for (i = 0; i < len; i++) if (addr + i >= b0 && addr + i < b0 + 4096) { out[i] = (unsigned char)st->wr_buf[addr + i - b0]; def[i] = 1; }
    }
}
static void oracle(const ADFI_VERIF_STATE *st, char kind, int fi, long long addr, long long len, const unsigned char *got)
{
    unsigned char *a = (unsigned char *)malloc(len + 1), *d = (unsigned char *)malloc(len + 1); long long i;
    auth(st, fi, addr, len, a, d);
    for (i = 0; i < len; i++) if (d[i] && a[i] != got[i]) {
        long long lo = i > 8 ? i - 8 : 0, hi = i + 40 < len ? i + 40 : len;
        printf("X %c %d %lld %lld %lld ", kind, fi, addr, len, i); hexs(got + lo, hi - lo); printf(" "); hexs(a + lo, hi - lo); printf("\n");
        break;
    }
    free(a); free(d);
}
static void pstate(const ADFI_VERIF_STATE *st)
{
    printf(" S %lld %lld %lld %lld %lld %lld %llu %llu", st->rd_block, st->rd_file, st->rd_num, st->wr_block, st->wr_file,
           st->wr_flush, hbytes((const unsigned char *)st->rd_buf, 4096), hbytes((const unsigned char *)st->wr_buf, 4096));
}
static unsigned long long stackhash(const ADFI_VERIF_STATE *st)
{
    unsigned long long h = 11; int i;
#define MIX(v) h = (h * 1000003ULL + (unsigned long long)(((long long)(v) + 2) % (long long)HP)) % HP
    for (i = 0; i < 50; i++) { MIX(st->stk[i].file_index); MIX((long long)(st->stk[i].block % HP)); MIX(st->stk[i].offset); MIX(st->stk[i].type); MIX(st->stk[i].priority); }
    return h;
}
static unsigned long long hexv(const unsigned char *p, int n) { unsigned long long v = 0; int i; for (i = 0; i < n; i++) { int c = p[i]; v = v * 16 + (c >= '0' && c <= '9' ? c - '0' : c >= 'A' && c <= 'F' ? c - 'A' + 10 : c >= 'a' && c <= 'f' ? c - 'a' + 10 : 0); } return v; }
static unsigned long long lev(const unsigned char *p, int n) { unsigned long long v = 0; int i; for (i = n - 1; i >= 0; i--) v = v * 256 + p[i]; return v; }
/* the parent's header fields and its whole sub-node table, decoded from the authoritative bytes (new-format files:
   counts in ASCII hex, disk pointers as 8 + 4 little-endian bytes) */
static void ptable(const ADFI_VERIF_STATE *st, int fi, long long paddr)
{
    unsigned char h[246], d[246]; long long num, cap, taddr, i;
    auth(st, fi, paddr, 246, h, d);
    num = (long long)hexv(h + 68, 8); cap = (long long)hexv(h + 76, 8);
    taddr = (long long)lev(h + 84, 8) * 4096 + (long long)lev(h + 92, 4);
    printf(" %lld %lld ", num, cap);
    if (cap <= 0 || cap > 100000) { printf("-"); return; }
    {
        unsigned char *t = (unsigned char *)malloc(cap * 44 + 16), *td = (unsigned char *)malloc(cap * 44 + 16);
        auth(st, fi, taddr + 16, cap * 44, t, td);
        for (i = 0; i < cap; i++) {
            if (i) printf(",");
            hexs(t + i * 44, 32); printf(":%llu:%llu", lev(t + i * 44 + 32, 8), lev(t + i * 44 + 40, 4));
        }
        free(t); free(td);
    }
}
static void trace_cb(int op, int fi, unsigned long block, unsigned long off, long long len, const char *data, int err)
{
    ADFI_VERIF_STATE st; int code = op & 0xff, detail = op >> 8;
    ADFI_verif_cache_state(&st);
    switch (code) {
    case ADFI_VT_OPEN: {
        long long sz; unsigned long long hh;
        own_open(fi, data ? data : ""); file_sig(fi, &sz, &hh);
        printf("T O %d %lld %llu ", fi, sz, hh); hexs((const unsigned char *)(data ? data : ""), data ? (long long)strlen(data) : 0); printf("\n");
        break; }
    case ADFI_VT_READ:
        printf("T R %d %lu %lu %lld %d %d ", fi, block, off, len, err, detail);
        if (err == NO_ERROR) hexs((const unsigned char *)data, len); else printf("-");
        pstate(&st); printf("\n");
        if (err == NO_ERROR) oracle(&st, 'R', fi, (long long)block * 4096 + (long long)off, len, (const unsigned char *)data);
        break;
    case ADFI_VT_WRITE:
        printf("T W %d %lu %lu %lld %d ", fi, block, off, len, err);
        hexs((const unsigned char *)data, len); pstate(&st); printf("\n");
        break;
    case ADFI_VT_FLUSH: {
        long long sz = 0; unsigned long long hh = 0;
        if (len == 1) file_sig(fi, &sz, &hh);
        printf("T F %d %lld %d %lld %llu", fi, len, err, sz, hh); pstate(&st); printf("\n");
        break; }
    case ADFI_VT_STACK: {
        int mode = detail & 15, type = detail >> 4;
        printf("T K %d %d %lu %lu %d %lld %d ", mode, fi, block, off, type, len, err);
        if (data && (mode == 5 || (mode == 4 && err == NO_ERROR))) hexs((const unsigned char *)data, len); else printf("-");
        printf(" S %llu %d\n", stackhash(&st), st.last_link_ID != 0.0);
        if (mode == 4 && err == NO_ERROR) oracle(&st, 'K', fi, (long long)block * 4096 + (long long)off, len, (const unsigned char *)data);
        break; }
    case ADFI_VT_ADD_CHILD: case ADFI_VT_DEL_CHILD: {
        unsigned char h[246], d[246];
        printf("T %c %d %lu %lu %lld %d ", code == ADFI_VT_ADD_CHILD ? 'A' : 'D', fi, block, off, len, err);
        auth(&st, fi, len, 246, h, d); hexs(h + 4, 32); printf(" %llu", hexv(h + 76, 8));
        ptable(&st, fi, (long long)block * 4096 + (long long)off); printf("\n");
        break; }
    }
}
static void after_rename(double pid, const char *oldn, const char *newn)
{
    ADFI_VERIF_STATE st; unsigned int afi; cgulong_t blk, off; int err;
    ADFI_verif_cache_state(&st);
    ADFI_ID_2_file_block_offset(pid, &afi, &blk, &off, &err);
    if (err != NO_ERROR) return;
    printf("T N %u %llu %llu ", afi, (unsigned long long)blk, (unsigned long long)off);
    hexs((const unsigned char *)oldn, (long long)strlen(oldn)); printf(" "); hexs((const unsigned char *)newn, (long long)strlen(newn));
    ptable(&st, (int)afi, (long long)blk * 4096 + (long long)off); printf("\n");
}
static void counters(void)
{
    ADFI_VERIF_STATE st; int i; ADFI_verif_cache_state(&st);
    printf("T C"); for (i = 0; i < 8; i++) printf(" %ld", st.counters[i]); printf("\n");
}
#endif

static int c02b_set_name(int cgio_num, double pid, double id, const char *name)
{
    char oldn[CGIO_MAX_NAME_LENGTH + 1]; int have = !cgio_get_name(cgio_num, id, oldn), r;
    r = cgio_set_name(cgio_num, pid, id, name);
#ifdef C02B_HAVE_HOOK
    if (!r && have) after_rename(pid, oldn, name);
#endif
    (void)have;
    return r;
}

/* ---------------------------------------------------------------- unit mode */
static int unit_main(void)
{
    static char line[2200000], hex[2100000]; static unsigned char buf[1100000];
    while (fgets(line, sizeof line, stdin)) {
        char path[600], status[32]; long long fi, b, o, n, mode, type; int err = NO_ERROR;
        if (sscanf(line, "open %599s %31s", path, status) == 2) {
            unsigned int idx = 0;
            if (!strcmp(status, "NEW")) unlink(path);
            ADFI_open_file(path, status, &idx, &err);
#ifndef C02B_HAVE_HOOK
            if (err == NO_ERROR) { long long sz; unsigned long long hh; own_open((int)idx, path); file_sig((int)idx, &sz, &hh);
                printf("T O %u %lld %llu ", idx, sz, hh); hexs((unsigned char *)path, (long long)strlen(path)); printf("\n"); }
#endif
            printf("u %d %u\n", err, idx);
        } else if (sscanf(line, "r %lld %lld %lld %lld", &fi, &b, &o, &n) == 4) {
            memset(buf, 0xEE, n + 1);
            ADFI_read_file((unsigned)fi, (cgulong_t)b, (cgulong_t)o, (cglong_t)n, (char *)buf, &err);
#ifndef C02B_HAVE_HOOK
            printf("T R %lld %lld %lld %lld %d %d ", fi, b, o, n, err, n + o > 4096 ? 3 : -1); if (err == NO_ERROR) hexs(buf, n); else printf("-"); printf(" S -\n");
#endif
            printf("u %d\n", err);
        } else if (sscanf(line, "w %lld %lld %lld %2099999s", &fi, &b, &o, hex) == 4) {
            n = (long long)unhex(hex, buf);
            ADFI_write_file((unsigned)fi, (cgulong_t)b, (cgulong_t)o, (cglong_t)n, (char *)buf, &err);
#ifndef C02B_HAVE_HOOK
            printf("T W %lld %lld %lld %lld %d ", fi, b, o, n, err); hexs(buf, n); printf(" S -\n");
#endif
            printf("u %d\n", err);
        } else if (sscanf(line, "f %lld %lld", &fi, &mode) == 2) {
            ADFI_flush_buffers((unsigned)fi, (int)mode, &err);
#ifndef C02B_HAVE_HOOK
            { long long sz = 0; unsigned long long hh = 0; if (mode == 1) file_sig((int)fi, &sz, &hh);
              printf("T F %lld %lld %d %lld %llu S -\n", fi, mode, err, sz, hh); }
#endif
            printf("u %d\n", err);
        } else if (sscanf(line, "c %lld", &fi) == 1) {
#ifndef C02B_HAVE_HOOK
            /* without the hook the FLUSH_CLOSE inside ADFI_close_file is invisible: report it after the close */
            ADFI_close_file((int)fi, &err);
            { long long sz = 0; unsigned long long hh = 0; file_sig((int)fi, &sz, &hh);
              printf("T F %lld 1 %d %lld %llu S -\n", fi, err, sz, hh); printf("T K 1 %lld 0 0 0 0 -1 - S -\n", fi); }
#else
            ADFI_close_file((int)fi, &err);
#endif
            printf("u %d\n", err);
        } else if (sscanf(line, "k %lld %lld %lld %lld %lld %lld %2099999s", &mode, &fi, &b, &o, &type, &n, hex) == 7) {
            int ret; size_t hn = unhex(hex, buf);
            if (mode == 4) memset(buf, 0xEE, n + 1);
            (void)hn;
            ret = ADFI_stack_control((unsigned)fi, (cgulong_t)b, (unsigned)o, (int)mode, (int)type, (unsigned)n, (mode == 4 || mode == 5) ? (char *)buf : NULL);
#ifndef C02B_HAVE_HOOK
            printf("T K %lld %lld %lld %lld %lld %lld %d ", mode, fi, b, o, type, n, ret);
            if (mode == 5 || (mode == 4 && ret == NO_ERROR)) hexs(buf, n); else printf("-"); printf(" S -\n");
#endif
            printf("u %d\n", ret);
        } else if (line[0] != '\n' && line[0] != '#') printf("badline %s", line);
        fflush(stdout);
    }
    return 0;
}

/* witness of the one discipline breach the traces show: ADFI_write_modification_date stores the date in the file
   header on disk but neither SETs nor DELs the cached FILE_STK entry, so the session keeps answering with the
   date cached earlier.  Prints what cgio_file_version says and what the file holds, 1.1 s after the first change. */
static int moddate_main(const char *path)
{
    int cg, fd; double root, id; char ver[64], cd[64], md[64], disk[29];
    unlink(path);
    if (cgio_open_file(path, CGIO_MODE_WRITE, CGIO_FILE_ADF, &cg) || cgio_get_root_id(cg, &root) ||
        cgio_create_node(cg, root, "A", &id)) { printf("moddate err\n"); return 0; }
    usleep(1100000);
    if (cgio_create_node(cg, root, "B", &id) || cgio_file_version(cg, ver, cd, md)) { printf("moddate err\n"); return 0; }
    memset(disk, 0, sizeof disk); fd = open(path, O_RDONLY); if (fd >= 0) { if (pread(fd, disk, 28, 68) < 0) disk[0] = 0; close(fd); }
    while (strlen(disk) && disk[strlen(disk) - 1] == ' ') disk[strlen(disk) - 1] = 0;
    printf("moddate %s\n", strcmp(md, disk) ? "stale" : "same");
    cgio_close_file(cg); unlink(path);
    return 0;
}

int main(int argc, char **argv)
{
    int i; for (i = 0; i < MAXFI; i++) vfd[i] = -1;
    if (argc > 2 && !strcmp(argv[1], "moddate")) return moddate_main(argv[2]);
#ifdef C02B_HAVE_HOOK
    ADFI_verif_trace = trace_cb;
    printf("hook 1\n");
#else
    printf("hook 0\n");
#endif
    if (argc > 1 && !strcmp(argv[1], "unit")) i = unit_main(); else i = cgio_main();
#ifdef C02B_HAVE_HOOK
    counters();
#endif
    return i;
}
