/* interpose.c -- LD_PRELOAD system-call interposer shared by the C14 (fault injection) and C15 (kill points)
 * checks.  No change to /repo: the library under test (and libhdf5) reach open/read/write/... through the PLT,
 * so this object, preloaded AFTER libasan.so, sees every call.  Built WITHOUT sanitizers:
 *     cc -O2 -fPIC -shared -o interpose.so interpose.c -ldl
 *     LD_PRELOAD="$(gcc -print-file-name=libasan.so):/path/interpose.so"
 *
 * Only calls on files whose absolute (not symlink-resolved) path starts with $VERIF_IP_DIR are "tracked";
 * everything else (ASan, stdout, /proc, shared objects) passes straight through and is never counted.
 *
 * Environment
 *   VERIF_IP_DIR=<prefix>        tracked directory (required for any effect)
 *   VERIF_IP_TRACE=<file>        append one line per tracked call made while armed
 *   VERIF_IP_ARMED=1             armed from process start (otherwise armed by  access("//VERIF_IP_ARM",0)
 *                                and disarmed by access("//VERIF_IP_DISARM",0) issued by the harness;
 *                                access("//VERIF_IP_MARK",0) writes an operation-boundary line into the trace)
 *   VERIF_IP_KILL=<k>            exit_group(86) immediately BEFORE the k-th (0-based) armed *mutating* tracked
 *                                call (open with O_CREAT/O_TRUNC, write, pwrite, ftruncate, close, fsync,
 *                                fdatasync, unlink, rename).  Kernel file state is kept, nothing is flushed by us.
 *   VERIF_IP_FAULT=<k>:<kind>[,<k>:<kind>...]
 *                                inject at the k-th (0-based) armed *faultable* tracked call (read, pread, write,
 *                                pwrite, lseek, close, fsync, fdatasync, ftruncate):
 *                                  eio | enospc : do not perform, return -1 with that errno
 *                                  eintr        : do not perform, return -1/EINTR        (read/write family only)
 *                                  short        : perform with the count cut to max(1,count/2)   (count >= 2 only)
 *                                  a trailing '*' (eio*, enospc*) makes the error sticky for all later calls
 *                                  of the write family (write/pwrite/ftruncate/fsync)
 *                                A close that is failed still closes the descriptor (Linux semantics).
 * Trace line:  <fidx|-> <midx|-> <name> <path> <a1> <a2> = <ret> [E<errno>] [INJ:<kind>]
 *   a1/a2: write/read: offset-before(or -1) count;  pwrite/pread: offset count;  lseek: offset whence;
 *          open: flags(hex) 0;  rename: path2 as <path>'>'<path2>;  others 0 0.
 */
#define _GNU_SOURCE
#include <dlfcn.h>
#include <errno.h>
#include <fcntl.h>
#include <stdarg.h>
#include <stdio.h>
#include <stdlib.h>
#include <string.h>
#include <sys/stat.h>
#include <sys/syscall.h>
#include <sys/types.h>
#include <unistd.h>

#define MAXFD 4096
#define MAXFAULT 16
static char *fdpath[MAXFD];
static char ip_dir[1024];
static size_t ip_dir_len;
static int inited, armed, trace_fd = -1;
static long kill_at = -1, n_fault = 0, n_mut = 0;
static struct { long k; int kind; int sticky; } faults[MAXFAULT];
static int nfaults, sticky_errno;
enum { K_EIO = 1, K_ENOSPC, K_EINTR, K_SHORT };

#define REAL(ret, name, ...) \
    static ret (*real_##name)(__VA_ARGS__); \
    if (!real_##name) real_##name = (ret (*)(__VA_ARGS__)) dlsym(RTLD_NEXT, #name)

static void ip_init(void)
{
    const char *s;
    if (inited) return;
    inited = 1;
    s = getenv("VERIF_IP_DIR");
    if (s && *s && strlen(s) < sizeof(ip_dir)) { strcpy(ip_dir, s); ip_dir_len = strlen(s); }
    s = getenv("VERIF_IP_ARMED");
    if (s && *s == '1') armed = 1;
    s = getenv("VERIF_IP_KILL");
    if (s && *s) kill_at = atol(s);
    s = getenv("VERIF_IP_FAULT");
    while (s && *s && nfaults < MAXFAULT) {
        char *e; long k = strtol(s, &e, 10);
        if (*e != ':') break;
        e++;
        faults[nfaults].k = k;
        if (!strncmp(e, "eio", 3)) { faults[nfaults].kind = K_EIO; e += 3; }
        else if (!strncmp(e, "enospc", 6)) { faults[nfaults].kind = K_ENOSPC; e += 6; }
        else if (!strncmp(e, "eintr", 5)) { faults[nfaults].kind = K_EINTR; e += 5; }
        else if (!strncmp(e, "short", 5)) { faults[nfaults].kind = K_SHORT; e += 5; }
        else break;
        if (*e == '*') { faults[nfaults].sticky = 1; e++; }
        nfaults++;
        if (*e == ',') e++;
        s = e;
    }
    s = getenv("VERIF_IP_TRACE");
    if (s && *s) {
        REAL(int, open, const char *, int, ...);
        trace_fd = real_open(s, O_WRONLY | O_CREAT | O_APPEND, 0666);
        if (trace_fd >= 0 && trace_fd < 700) {       /* keep it out of the way of the numbers the program sees */
            int nfd = fcntl(trace_fd, F_DUPFD, 700);
            if (nfd >= 0) { REAL(int, close, int); real_close(trace_fd); trace_fd = nfd; }
        }
    }
}

static const char *kindname(int k)
{
    return k == K_EIO ? "eio" : k == K_ENOSPC ? "enospc" : k == K_EINTR ? "eintr" : k == K_SHORT ? "short" : "?";
}

/* absolute path (textual; symlinks not resolved) if under the tracked directory, else NULL */
static char *tracked_path(const char *p, char *buf, size_t n)
{
    ip_init();
    if (!ip_dir_len || !p) return NULL;
    if (p[0] == '/') {
        if (strlen(p) >= n) return NULL;
        strcpy(buf, p);
    } else {
        if (!getcwd(buf, n)) return NULL;
        if (strlen(buf) + strlen(p) + 2 >= n) return NULL;
        strcat(buf, "/");
        strcat(buf, p[0] == '.' && p[1] == '/' ? p + 2 : p);
    }
    if (strncmp(buf, ip_dir, ip_dir_len) != 0) return NULL;
    return buf;
}

static void trace(long fidx, long midx, const char *name, const char *path, long long a1, long long a2,
                  long long ret, int err, int inj)
{
    char line[2600], f[24], m[24];
    int n;
    if (trace_fd < 0) return;
    if (fidx >= 0) snprintf(f, sizeof f, "%ld", fidx); else strcpy(f, "-");
    if (midx >= 0) snprintf(m, sizeof m, "%ld", midx); else strcpy(m, "-");
    n = snprintf(line, sizeof line, "%s %s %s %s %lld %lld = %lld", f, m, name, path + ip_dir_len, a1, a2, ret);
    if (ret < 0 && n < (int)sizeof line) n += snprintf(line + n, sizeof line - n, " E%d", err);
    if (inj && n < (int)sizeof line) n += snprintf(line + n, sizeof line - n, " INJ:%s", kindname(inj));
    if (n >= (int)sizeof line) n = sizeof line - 1;
    line[n++] = '\n';
    syscall(SYS_write, trace_fd, line, (size_t)n);
}

/* called before a mutating tracked call: the kill point */
static long mut_point(void)
{
    long i;
    if (!armed) return -1;
    i = n_mut++;
    if (kill_at >= 0 && i == kill_at) syscall(SYS_exit_group, 86);
    return i;
}

/* called before a faultable tracked call: returns the injected kind (0 = none) */
static long fault_point(int *kind, int wfamily, int rwfamily, long long count)
{
    long i; int j;
    *kind = 0;
    if (!armed) return -1;
    i = n_fault++;
    for (j = 0; j < nfaults; j++)
        if (faults[j].k == i) {
            int k = faults[j].kind;
            if (k == K_EINTR && !rwfamily) k = 0;
            if (k == K_SHORT && (!rwfamily || count < 2)) k = 0;
            if (k && faults[j].sticky && (k == K_EIO || k == K_ENOSPC)) sticky_errno = k == K_EIO ? EIO : ENOSPC;
            *kind = k;
        }
    if (!*kind && sticky_errno && wfamily) *kind = sticky_errno == EIO ? K_EIO : K_ENOSPC;
    return i;
}

static int kind_errno(int k) { return k == K_EIO ? EIO : k == K_ENOSPC ? ENOSPC : EINTR; }

static void remember(int fd, const char *abs)
{
    if (fd >= 0 && fd < MAXFD) {
        free(fdpath[fd]);
        fdpath[fd] = strdup(abs);
    }
}

static const char *fd_tracked(int fd)
{
    ip_init();
    return (fd >= 0 && fd < MAXFD) ? fdpath[fd] : NULL;
}

/* ------------------------------------------------------------------ open family */
static int do_open(const char *name, int (*fn)(const char *, int, ...), const char *path, int flags, mode_t mode)
{
    char buf[2048];
    char *abs = tracked_path(path, buf, sizeof buf);
    long m = -1;
    int fd, e;
    if (abs && (flags & (O_CREAT | O_TRUNC))) m = mut_point();
    fd = fn(path, flags, mode);
    e = errno;
    if (abs) {
        if (fd >= 0) remember(fd, abs);
        if (armed) trace(-1, m, name, abs, flags, 0, fd, e, 0);
    }
    errno = e;
    return fd;
}

int open(const char *path, int flags, ...)
{
    mode_t mode = 0;
    REAL(int, open, const char *, int, ...);
    if (flags & (O_CREAT | O_TMPFILE)) { va_list ap; va_start(ap, flags); mode = va_arg(ap, mode_t); va_end(ap); }
    return do_open("open", real_open, path, flags, mode);
}

int open64(const char *path, int flags, ...)
{
    mode_t mode = 0;
    REAL(int, open64, const char *, int, ...);
    if (flags & (O_CREAT | O_TMPFILE)) { va_list ap; va_start(ap, flags); mode = va_arg(ap, mode_t); va_end(ap); }
    return do_open("open", real_open64, path, flags, mode);
}

int creat(const char *path, mode_t mode)
{
    REAL(int, open, const char *, int, ...);
    return do_open("open", real_open, path, O_CREAT | O_WRONLY | O_TRUNC, mode);
}

/* ------------------------------------------------------------------ close / fsync / ftruncate */
int close(int fd)
{
    REAL(int, close, int);
    const char *p = fd_tracked(fd);
    int kind, r, e;
    long f, m;
    if (!p) return real_close(fd);
    m = mut_point();
    f = fault_point(&kind, 0, 0, 0);
    r = real_close(fd);
    e = errno;
    if (kind) { r = -1; e = kind_errno(kind); }
    if (armed) trace(f, m, "close", p, 0, 0, r, e, kind);
    free(fdpath[fd]); fdpath[fd] = NULL;
    errno = e;
    return r;
}

static int sync_like(const char *name, int (*fn)(int), int fd)
{
    const char *p = fd_tracked(fd);
    int kind, r, e;
    long f, m;
    if (!p) return fn(fd);
    m = mut_point();
    f = fault_point(&kind, 1, 0, 0);
    if (kind) { r = -1; e = kind_errno(kind); }
    else { r = fn(fd); e = errno; }
    if (armed) trace(f, m, name, p, 0, 0, r, e, kind);
    errno = e;
    return r;
}

int fsync(int fd) { REAL(int, fsync, int); return sync_like("fsync", real_fsync, fd); }
int fdatasync(int fd) { REAL(int, fdatasync, int); return sync_like("fdatasync", real_fdatasync, fd); }

static int do_ftruncate(int (*fn)(int, off_t), int fd, off_t len)
{
    const char *p = fd_tracked(fd);
    int kind, r, e;
    long f, m;
    if (!p) return fn(fd, len);
    m = mut_point();
    f = fault_point(&kind, 1, 0, 0);
    if (kind) { r = -1; e = kind_errno(kind); }
    else { r = fn(fd, len); e = errno; }
    if (armed) trace(f, m, "ftruncate", p, (long long)len, 0, r, e, kind);
    errno = e;
    return r;
}

int ftruncate(int fd, off_t len) { REAL(int, ftruncate, int, off_t); return do_ftruncate(real_ftruncate, fd, len); }
int ftruncate64(int fd, off_t len) { REAL(int, ftruncate64, int, off_t); return do_ftruncate(real_ftruncate64, fd, len); }

/* ------------------------------------------------------------------ read / write */
ssize_t write(int fd, const void *b, size_t n)
{
    REAL(ssize_t, write, int, const void *, size_t);
    const char *p = fd_tracked(fd);
    int kind, e;
    long f, m;
    ssize_t r;
    long long off;
    if (!p) return real_write(fd, b, n);
    m = mut_point();
    f = fault_point(&kind, 1, 1, (long long)n);
    off = (long long)syscall(SYS_lseek, fd, 0L, SEEK_CUR);
    if (kind == K_SHORT) { r = real_write(fd, b, n / 2 ? n / 2 : 1); e = errno; }
    else if (kind) { r = -1; e = kind_errno(kind); }
    else { r = real_write(fd, b, n); e = errno; }
    if (armed) trace(f, m, "write", p, off, (long long)n, r, e, kind);
    errno = e;
    return r;
}

ssize_t read(int fd, void *b, size_t n)
{
    REAL(ssize_t, read, int, void *, size_t);
    const char *p = fd_tracked(fd);
    int kind, e;
    long f;
    ssize_t r;
    long long off;
    if (!p) return real_read(fd, b, n);
    f = fault_point(&kind, 0, 1, (long long)n);
    off = (long long)syscall(SYS_lseek, fd, 0L, SEEK_CUR);
    if (kind == K_SHORT) { r = real_read(fd, b, n / 2 ? n / 2 : 1); e = errno; }
    else if (kind) { r = -1; e = kind_errno(kind); }
    else { r = real_read(fd, b, n); e = errno; }
    if (armed) trace(f, -1, "read", p, off, (long long)n, r, e, kind);
    errno = e;
    return r;
}

static ssize_t do_pwrite(ssize_t (*fn)(int, const void *, size_t, off_t), int fd, const void *b, size_t n, off_t o)
{
    const char *p = fd_tracked(fd);
    int kind, e;
    long f, m;
    ssize_t r;
    if (!p) return fn(fd, b, n, o);
    m = mut_point();
    f = fault_point(&kind, 1, 1, (long long)n);
    if (kind == K_SHORT) { r = fn(fd, b, n / 2 ? n / 2 : 1, o); e = errno; }
    else if (kind) { r = -1; e = kind_errno(kind); }
    else { r = fn(fd, b, n, o); e = errno; }
    if (armed) trace(f, m, "pwrite", p, (long long)o, (long long)n, r, e, kind);
    errno = e;
    return r;
}

ssize_t pwrite(int fd, const void *b, size_t n, off_t o)
{ REAL(ssize_t, pwrite, int, const void *, size_t, off_t); return do_pwrite(real_pwrite, fd, b, n, o); }
ssize_t pwrite64(int fd, const void *b, size_t n, off_t o)
{ REAL(ssize_t, pwrite64, int, const void *, size_t, off_t); return do_pwrite(real_pwrite64, fd, b, n, o); }

static ssize_t do_pread(ssize_t (*fn)(int, void *, size_t, off_t), int fd, void *b, size_t n, off_t o)
{
    const char *p = fd_tracked(fd);
    int kind, e;
    long f;
    ssize_t r;
    if (!p) return fn(fd, b, n, o);
    f = fault_point(&kind, 0, 1, (long long)n);
    if (kind == K_SHORT) { r = fn(fd, b, n / 2 ? n / 2 : 1, o); e = errno; }
    else if (kind) { r = -1; e = kind_errno(kind); }
    else { r = fn(fd, b, n, o); e = errno; }
    if (armed) trace(f, -1, "pread", p, (long long)o, (long long)n, r, e, kind);
    errno = e;
    return r;
}

ssize_t pread(int fd, void *b, size_t n, off_t o)
{ REAL(ssize_t, pread, int, void *, size_t, off_t); return do_pread(real_pread, fd, b, n, o); }
ssize_t pread64(int fd, void *b, size_t n, off_t o)
{ REAL(ssize_t, pread64, int, void *, size_t, off_t); return do_pread(real_pread64, fd, b, n, o); }

/* ------------------------------------------------------------------ lseek */
static off_t do_lseek(off_t (*fn)(int, off_t, int), int fd, off_t o, int wh)
{
    const char *p = fd_tracked(fd);
    int kind, e;
    long f;
    off_t r;
    if (!p) return fn(fd, o, wh);
    f = fault_point(&kind, 0, 0, 0);
    if (kind) { r = -1; e = kind_errno(kind); }
    else { r = fn(fd, o, wh); e = errno; }
    if (armed) trace(f, -1, "lseek", p, (long long)o, wh, (long long)r, e, kind);
    errno = e;
    return r;
}

off_t lseek(int fd, off_t o, int wh) { REAL(off_t, lseek, int, off_t, int); return do_lseek(real_lseek, fd, o, wh); }
off_t lseek64(int fd, off_t o, int wh) { REAL(off_t, lseek64, int, off_t, int); return do_lseek(real_lseek64, fd, o, wh); }

/* ------------------------------------------------------------------ directory operations */
int unlink(const char *path)
{
    REAL(int, unlink, const char *);
    char buf[2048];
    char *abs = tracked_path(path, buf, sizeof buf);
    long m;
    int r, e;
    if (!abs) return real_unlink(path);
    m = mut_point();
    r = real_unlink(path);
    e = errno;
    if (armed) trace(-1, m, "unlink", abs, 0, 0, r, e, 0);
    errno = e;
    return r;
}

int rename(const char *a, const char *b)
{
    REAL(int, rename, const char *, const char *);
    char buf[2048], buf2[2048], both[4200];
    char *absa = tracked_path(a, buf, sizeof buf);
    char *absb = tracked_path(b, buf2, sizeof buf2);
    long m;
    int r, e;
    if (!absa && !absb) return real_rename(a, b);
    m = mut_point();
    r = real_rename(a, b);
    e = errno;
    if (armed) {
        if (absa) snprintf(both, sizeof both, "%s>%s", absa, absb ? absb + ip_dir_len : b);
        else snprintf(both, sizeof both, "%s>%s", ip_dir, absb + ip_dir_len), memmove(both + ip_dir_len, both + ip_dir_len, 0);
        trace(-1, m, "rename", both, 0, 0, r, e, 0);
    }
    errno = e;
    return r;
}

ssize_t readlink(const char *path, char *out, size_t n)
{
    REAL(ssize_t, readlink, const char *, char *, size_t);
    char buf[2048];
    char *abs = tracked_path(path, buf, sizeof buf);
    ssize_t r = real_readlink(path, out, n);
    int e = errno;
    if (abs && armed) trace(-1, -1, "readlink", abs, 0, 0, r, e, 0);
    errno = e;
    return r;
}

static int do_lstat(const char *name, int (*fn)(const char *, struct stat *), const char *path, struct stat *st)
{
    char buf[2048];
    char *abs = tracked_path(path, buf, sizeof buf);
    int r = fn(path, st);
    int e = errno;
    if (abs && armed) trace(-1, -1, name, abs, 0, 0, r, e, 0);
    errno = e;
    return r;
}

int lstat(const char *path, struct stat *st)
{ REAL(int, lstat, const char *, struct stat *); return do_lstat("lstat", real_lstat, path, st); }
int lstat64(const char *path, struct stat64 *st)
{ REAL(int, lstat64, const char *, struct stat *); return do_lstat("lstat", real_lstat64, path, (struct stat *)st); }

/* the arming channel: access("//VERIF_IP_ARM") / access("//VERIF_IP_DISARM") from the harness */
int access(const char *path, int mode)
{
    REAL(int, access, const char *, int);
    ip_init();
    if (path && path[0] == '/' && path[1] == '/' && !strncmp(path, "//VERIF_IP_", 11)) {
        if (!strcmp(path, "//VERIF_IP_ARM")) { armed = 1; return 0; }
        if (!strcmp(path, "//VERIF_IP_DISARM")) { armed = 0; return 0; }
        if (!strcmp(path, "//VERIF_IP_MARK")) {      /* operation boundary: "- - mark <dir> <next fault index> <next mut index> = 0" */
            if (armed && ip_dir_len) trace(-1, -1, "mark", ip_dir, n_fault, n_mut, 0, 0, 0);
            return 0;
        }
    }
    return real_access(path, mode);
}
