/* c09_typed.c -- create an ADF file with one node /N1 (label "L", dimensions (2)) of an arbitrary ADF data-type string
   (lower case, compound, ...) and a child /N1/pad; data bytes are 1,2,3,...   usage: c09_typed <type> <file> <nbytes> */
#include <stdio.h>
#include <stdlib.h>
#include <string.h>
#include <unistd.h>
#include "cgns_io.h"
int main(int argc, char **argv) {
    int cg, i, n; double root, id, pad; cgsize_t d[1] = {2}; unsigned char buf[4096];
    char ty[64];
    if (argc < 4) return 2;
    n = atoi(argv[3]);
    for (i = 0; i < (int)sizeof buf; i++) buf[i] = (unsigned char)(i + 1);
    unlink(argv[2]);
    if (cgio_open_file(argv[2], CGIO_MODE_WRITE, CGIO_FILE_ADF, &cg) || cgio_get_root_id(cg, &root) ||
        cgio_create_node(cg, root, "N1", &id) || cgio_set_label(cg, id, "L") ||
        cgio_set_dimensions(cg, id, argv[1], 1, d) || cgio_write_all_data(cg, id, buf) ||
        cgio_create_node(cg, id, "pad", &pad) || cgio_get_data_type(cg, id, ty) || cgio_close_file(cg)) {
        printf("err\n"); return 1;
    }
    printf("ok %s %d\n", ty, n);
    return 0;
}
