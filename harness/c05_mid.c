/* c05_mid.c -- implementation side of the C05 mid-level correspondence: cg_coord_/cg_field_/cg_array_
   general_read/write, cg_*_partial_write, cg_coord_read / cg_field_read with ranges, cg_coord_write /
   cg_field_write, and the particle twins, with rind planes and both CG_CONFIG_RIND_* conventions.  User
   buffers are guard-patterned exactly as in c05_lo.c.  After every write the stored node is dumped through
   cgio_read_all_data_type (independent of the range logic under test).
   usage: c05_mid <file> <adf|hdf5>     script on stdin (see ocaml/eng_c05.ml), canonical lines on stdout. */
#include <stdio.h>
#include <stdlib.h>
#include <string.h>
#include "cgnslib.h"
#include "cgns_io.h"

#define GUARD 4
static int fn = -1, B = 1, Z = 1, P = 1, idim = 0;
static const char *path;

static int esize(const char *t) { return (t[1] == '4') ? 4 : 8; }
static void put(void *buf, const char *t, long j, long long v) {
    if (!strcmp(t, "I4")) ((int *)buf)[j] = (int)v;
    else if (!strcmp(t, "I8")) ((long long *)buf)[j] = v;
    else if (!strcmp(t, "R4")) ((float *)buf)[j] = (float)v;
    else ((double *)buf)[j] = (double)v;
}
static long long get(const void *buf, const char *t, long j) {
    if (!strcmp(t, "I4")) return ((const int *)buf)[j];
    if (!strcmp(t, "I8")) return ((const long long *)buf)[j];
    if (!strcmp(t, "R4")) return (long long)((const float *)buf)[j];
    return (long long)((const double *)buf)[j];
}
static CGNS_ENUMT(DataType_t) dtype(const char *t) {
    if (!strcmp(t, "I4")) return CGNS_ENUMV(Integer);
    if (!strcmp(t, "I8")) return CGNS_ENUMV(LongInteger);
    if (!strcmp(t, "R4")) return CGNS_ENUMV(RealSingle);
    return CGNS_ENUMV(RealDouble);
}
static int parse_ints(const char *s, cgsize_t *out) {
    int n = 0; char *e;
    if (s[0] == '-' && s[1] == 0) return 0;
    while (*s) { out[n++] = (cgsize_t)strtoll(s, &e, 10); s = e; if (*s == ',') s++; else break; }
    return n;
}
static int parse_ranges(const char *s, cgsize_t *a, cgsize_t *b) {     /* "a:b,a:b" */
    int n = 0; char *e;
    if (s[0] == '-' && s[1] == 0) return 0;
    while (*s) {
        a[n] = (cgsize_t)strtoll(s, &e, 10); s = e + 1;
        b[n] = (cgsize_t)strtoll(s, &e, 10); s = e; n++;
        if (*s == ',') s++; else break;
    }
    return n;
}
static long buflen(int n, const cgsize_t *d) { long p = 1; int i; for (i = 0; i < n; i++) p *= (d[i] > 1 ? d[i] : 1); return p; }
static void fill_guards(void *buf, const char *t, long n) {
    long j;
    for (j = 0; j < GUARD; j++) { put(buf, t, j, -(9000000 + j)); put(buf, t, GUARD + n + j, -(9500000 + j)); }
}
static void print_mem(const void *buf, const char *t, long n) {
    long j;
    printf("M ");
    for (j = 0; j < GUARD; j++) printf(j ? ",%lld" : "%lld", get(buf, t, j));
    printf("|");
    for (j = 0; j < n; j++) printf(j ? ",%lld" : "%lld", get(buf, t, GUARD + j));
    printf("|");
    for (j = 0; j < GUARD; j++) printf(j ? ",%lld" : "%lld", get(buf, t, GUARD + n + j));
    printf("\n");
}
/* dump a stored node by path through cgio */
static void dump_node(const char *npath) {
    int cgio, ndim, i; double root, id; cgsize_t dims[12]; char dt[40]; long n, j; void *buf;
    if (cg_get_cgio(fn, &cgio) || cg_root_id(fn, &root)) { printf("F cgiofail\n"); return; }
    if (cgio_get_node_id(cgio, root, npath, &id)) { printf("F none\n"); return; }
    if (cgio_get_dimensions(cgio, id, &ndim, dims) || cgio_get_data_type(cgio, id, dt)) { printf("F dimfail\n"); return; }
    n = buflen(ndim, dims);
    buf = malloc((size_t)n * 8);
    if (cgio_read_all_data_type(cgio, id, dt, buf)) { printf("F readfail\n"); free(buf); return; }
    printf("F ");
    for (i = 0; i < ndim; i++) printf(i ? ",%lld" : "%lld", (long long)dims[i]);
    printf("|");
    for (j = 0; j < n; j++) printf(j ? ",%lld" : "%lld", get(buf, dt, j));
    printf("\n"); free(buf);
}
/* solution name -> index: remembered from cg_sol_write (reading is not allowed in CG_MODE_WRITE), rebuilt after reopen */
static char solnames[8][40], psolnames[8][40];
static int solidx[8], psolidx[8], nsol = 0, npsol = 0, modify = 0;
static int sol_index(const char *name) {
    int n, s; char nm[40]; CGNS_ENUMT(GridLocation_t) loc;
    if (!modify) { for (s = 0; s < nsol; s++) if (!strcmp(solnames[s], name)) return solidx[s]; return 0; }
    if (cg_nsols(fn, B, Z, &n)) return 0;
    for (s = 1; s <= n; s++) if (!cg_sol_info(fn, B, Z, s, nm, &loc) && !strcmp(nm, name)) return s;
    return 0;
}
static int psol_index(const char *name) {
    int n, s; char nm[40];
    if (!modify) { for (s = 0; s < npsol; s++) if (!strcmp(psolnames[s], name)) return psolidx[s]; return 0; }
    if (cg_particle_nsols(fn, B, P, &n)) return 0;
    for (s = 1; s <= n; s++) if (!cg_particle_sol_info(fn, B, P, s, nm) && !strcmp(nm, name)) return s;
    return 0;
}
static int array_index(const char *name) {
    int n, a, dd; char nm[40]; CGNS_ENUMT(DataType_t) dt; cgsize_t dv[12];
    if (cg_narrays(&n)) return 0;
    for (a = 1; a <= n; a++) if (!cg_array_info(a, nm, &dt, &dd, dv) && !strcmp(nm, name)) return a;
    return 0;
}
#define FAIL(msg) do { printf("setupfail %s: %s\n", msg, cg_get_error()); fflush(stdout); return 3; } while (0)

int main(int argc, char **argv) {
    static char line[8192], target[80], name[40], api[16], ty[8], a_sd[512], a_rlo[512], a_s[1024], a_m[2048];
    long long base;
    if (argc < 3) return 2;
    path = argv[1];
    remove(path);
    cg_set_file_type(strcmp(argv[2], "hdf5") == 0 ? CG_FILE_HDF5 : CG_FILE_ADF);
    if (cg_open(path, CG_MODE_WRITE, &fn)) FAIL("open");
    while (fgets(line, sizeof line, stdin)) {
        if (line[0] == '#' || line[0] == '\n') continue;
        if (!strncmp(line, "zone ", 5)) {
            cgsize_t n[3], size[9]; int i;
            if (sscanf(line, "zone %d %511s", &idim, a_sd) != 2) FAIL("zone?");
            parse_ints(a_sd, n);
            for (i = 0; i < idim; i++) { size[i] = n[i]; size[idim + i] = n[i] - 1; size[2 * idim + i] = 0; }
            if (cg_base_write(fn, "Base", idim, idim, &B) ||
                cg_zone_write(fn, B, "Zone", size, CGNS_ENUMV(Structured), &Z)) FAIL("zone");
        } else if (!strncmp(line, "grid ", 5)) {
            int G, rind[6], i, k; cgsize_t r[6];
            sscanf(line, "grid %511s", a_sd);
            if (cg_grid_write(fn, B, Z, "GridCoordinates", &G)) FAIL("grid");
            if (strcmp(a_sd, "-")) {
                k = parse_ints(a_sd, r); for (i = 0; i < k; i++) rind[i] = (int)r[i];
                if (cg_goto(fn, B, "Zone_t", Z, "GridCoordinates_t", 1, "end") || cg_rind_write(rind)) FAIL("grid rind");
            }
        } else if (!strncmp(line, "sol ", 4)) {
            int S, rind[6], i, k; cgsize_t r[6]; char loc[8];
            sscanf(line, "sol %39s %7s %511s", name, loc, a_sd);
            if (cg_sol_write(fn, B, Z, name, loc[0] == 'c' ? CGNS_ENUMV(CellCenter) : CGNS_ENUMV(Vertex), &S)) FAIL("sol");
            strcpy(solnames[nsol], name); solidx[nsol++] = S;
            if (strcmp(a_sd, "-")) {
                k = parse_ints(a_sd, r); for (i = 0; i < k; i++) rind[i] = (int)r[i];
                if (cg_goto(fn, B, "Zone_t", Z, "FlowSolution_t", S, "end") || cg_rind_write(rind)) FAIL("sol rind");
            }
        } else if (!strncmp(line, "ud ", 3)) {
            sscanf(line, "ud %39s", name);
            if (cg_goto(fn, B, "Zone_t", Z, "end") || cg_user_data_write(name)) FAIL("ud");
        } else if (!strncmp(line, "pzone ", 6)) {
            long long sz; int C;
            sscanf(line, "pzone %lld", &sz);
            if (cg_particle_write(fn, B, "Particles", (cgsize_t)sz, &P) ||
                cg_particle_coord_node_write(fn, B, P, "ParticleCoordinates", &C)) FAIL("pzone");
        } else if (!strncmp(line, "psol ", 5)) {
            int S;
            sscanf(line, "psol %39s", name);
            if (cg_particle_sol_write(fn, B, P, name, &S)) FAIL("psol");
            strcpy(psolnames[npsol], name); psolidx[npsol++] = S;
        } else if (!strncmp(line, "reopen", 6)) {
            if (cg_close(fn) || cg_open(path, CG_MODE_MODIFY, &fn)) FAIL("reopen");
            modify = 1;
        } else if (!strncmp(line, "cfg ", 4)) {
            if (cg_configure(CG_CONFIG_RIND_INDEX, line[4] == 'z' ? CG_CONFIG_RIND_ZERO : CG_CONFIG_RIND_CORE)) FAIL("cfg");
            printf("cfg ok\n");
        } else if ((line[0] == 'w' || line[0] == 'r') &&
                   sscanf(line + 1, " %79s %39s %15s t=%7s sdims=%511s rlo=%511s s=%1023s m=%2047s %lld",
                          target, name, api, ty, a_sd, a_rlo, a_s, a_m, &base) == 9) {
            cgsize_t sdims[12], rmin[12], rmax[12], mdims[12], mrmin[12], mrmax[12];
            int snd, mnd, ier = 1, idx = 0; long n, j; char *semi, *buf, *data, T[4], npath[256], *sub;
            CGNS_ENUMT(DataType_t) dt;
            T[0] = (ty[0] == 'i') ? 'I' : 'R'; T[1] = ty[1]; T[2] = 0; dt = dtype(T);
            snd = parse_ints(a_sd, sdims);
            parse_ranges(a_s, rmin, rmax);
            semi = strchr(a_m, ';'); if (!semi) { printf("badline %s", line); continue; }
            *semi = 0; mnd = parse_ints(a_m, mdims); parse_ranges(semi + 1, mrmin, mrmax);
            n = buflen(mnd, mdims);
            buf = malloc((size_t)(n + 2 * GUARD) * esize(T));
            data = buf + (size_t)GUARD * esize(T);
            fill_guards(buf, T, n);
            sub = strchr(target, ':'); if (sub) *sub++ = 0;
            if (line[0] == 'w') {
                for (j = 0; j < n; j++) put(buf, T, GUARD + j, base + j);
                if (!strcmp(target, "coord")) {
                    if (!strcmp(api, "general")) ier = cg_coord_general_write(fn, B, Z, name, dt, rmin, rmax, dt, mnd, mdims, mrmin, mrmax, data, &idx);
                    else if (!strcmp(api, "partial")) ier = cg_coord_partial_write(fn, B, Z, dt, name, rmin, rmax, data, &idx);
                    else ier = cg_coord_write(fn, B, Z, dt, name, data, &idx);
                    snprintf(npath, sizeof npath, "/Base/Zone/GridCoordinates/%s", name);
                } else if (!strcmp(target, "field")) {
                    int S = sol_index(sub);
                    if (!strcmp(api, "general")) ier = cg_field_general_write(fn, B, Z, S, name, dt, rmin, rmax, dt, mnd, mdims, mrmin, mrmax, data, &idx);
                    else if (!strcmp(api, "partial")) ier = cg_field_partial_write(fn, B, Z, S, dt, name, rmin, rmax, data, &idx);
                    else ier = cg_field_write(fn, B, Z, S, dt, name, data, &idx);
                    snprintf(npath, sizeof npath, "/Base/Zone/%s/%s", sub, name);
                } else if (!strcmp(target, "array")) {
                    snprintf(npath, sizeof npath, "/Base/Zone/%s", sub);
                    ier = cg_gopath(fn, npath);
                    if (!ier) ier = cg_array_general_write(name, dt, snd, sdims, rmin, rmax, dt, mnd, mdims, mrmin, mrmax, data);
                    snprintf(npath, sizeof npath, "/Base/Zone/%s/%s", sub, name);
                } else if (!strcmp(target, "pcoord")) {
                    if (!strcmp(api, "general")) ier = cg_particle_coord_general_write(fn, B, P, name, dt, rmin, rmax, dt, mdims, mrmin, mrmax, data, &idx);
                    else if (!strcmp(api, "partial")) ier = cg_particle_coord_partial_write(fn, B, P, dt, name, rmin, rmax, data, &idx);
                    else ier = cg_particle_coord_write(fn, B, P, dt, name, data, &idx);
                    snprintf(npath, sizeof npath, "/Base/Particles/ParticleCoordinates/%s", name);
                } else if (!strcmp(target, "pfield")) {
                    int S = psol_index(sub);
                    if (!strcmp(api, "general")) ier = cg_particle_field_general_write(fn, B, P, S, name, dt, rmin, rmax, dt, mdims, mrmin, mrmax, data, &idx);
                    else if (!strcmp(api, "partial")) ier = cg_particle_field_partial_write(fn, B, P, S, dt, name, rmin, rmax, data, &idx);
                    else ier = cg_particle_field_write(fn, B, P, S, dt, name, data, &idx);
                    snprintf(npath, sizeof npath, "/Base/Particles/%s/%s", sub, name);
                } else { printf("badtarget\n"); free(buf); continue; }
                printf(ier ? "w err\n" : "w ok\n");
                for (j = 0; j < n; j++) if (get(buf, T, GUARD + j) != base + j) { printf("MEMCHANGED\n"); break; }
                for (j = 0; j < GUARD; j++) if (get(buf, T, j) != -(9000000 + j) || get(buf, T, GUARD + n + j) != -(9500000 + j)) { printf("MEMCHANGED\n"); break; }
                dump_node(npath);
            } else {
                for (j = 0; j < n; j++) put(buf, T, GUARD + j, -(base + j));
                if (!strcmp(target, "coord")) {
                    if (!strcmp(api, "general")) ier = cg_coord_general_read(fn, B, Z, name, rmin, rmax, dt, mnd, mdims, mrmin, mrmax, data);
                    else ier = cg_coord_read(fn, B, Z, name, dt, rmin, rmax, data);
                } else if (!strcmp(target, "field")) {
                    int S = sol_index(sub);
                    if (!strcmp(api, "general")) ier = cg_field_general_read(fn, B, Z, S, name, rmin, rmax, dt, mnd, mdims, mrmin, mrmax, data);
                    else ier = cg_field_read(fn, B, Z, S, name, dt, rmin, rmax, data);
                } else if (!strcmp(target, "array")) {
                    int A;
                    snprintf(npath, sizeof npath, "/Base/Zone/%s", sub);
                    ier = cg_gopath(fn, npath);
                    if (!ier) { A = array_index(name); ier = A ? cg_array_general_read(A, rmin, rmax, dt, mnd, mdims, mrmin, mrmax, data) : 1; }
                } else if (!strcmp(target, "pcoord")) {
                    if (!strcmp(api, "general")) ier = cg_particle_coord_general_read(fn, B, P, name, rmin, rmax, dt, mdims, mrmin, mrmax, data);
                    else ier = cg_particle_coord_read(fn, B, P, name, dt, rmin, rmax, data);
                } else if (!strcmp(target, "pfield")) {
                    int S = psol_index(sub);
                    if (!strcmp(api, "general")) ier = cg_particle_field_general_read(fn, B, P, S, name, rmin, rmax, dt, mdims, mrmin, mrmax, data);
                    else ier = cg_particle_field_read(fn, B, P, S, name, dt, rmin, rmax, data);
                } else { printf("badtarget\n"); free(buf); continue; }
                printf(ier ? "r err\n" : "r ok\n");
                print_mem(buf, T, n);
            }
            free(buf);
        } else printf("badline %s", line);
        fflush(stdout);
    }
    if (cg_close(fn)) { printf("closefail %s\n", cg_get_error()); return 3; }
    return 0;
}
