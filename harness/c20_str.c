/* c20_str.c -- implementation side of the C20 string-helper correspondence.
   Includes /repo/src/cg_ftoc.c and /repo/src/cgio_ftoc.c textually, so the four static helpers
   (string_2_C_string, string_2_F_string, to_c_string, to_f_string) are called directly; same script and the
   same canonical lines as ocaml/eng_c20.ml.  The destination buffer sits inside an arena with GUARD canary bytes
   on both sides: a write outside the buffer is reported as an index (oob=...), exactly like the model's
   oob_writes, instead of being undefined behaviour of the harness. */
#include "cg_ftoc.c"
#include "cgio_ftoc.c"
#include <stdio.h>
#include <stdint.h>

#define GUARD 96
#define MAXB 512
#define CANARY 0xA5

static int unhex(const char *h, unsigned char *out) {
    int n = 0;
    if (h[0] == '-' && h[1] == 0) return 0;
    while (h[0] && h[1]) { unsigned v; sscanf(h, "%2x", &v); out[n++] = (unsigned char)v; h += 2; }
    return n;
}
static void report(unsigned char *arena, int blen, long ret) {
    int i, first = 1;
    printf("r ");
    if (blen == 0) printf("-");
    for (i = 0; i < blen; i++) printf("%02x", arena[GUARD + i]);
    printf(" oob=");
    for (i = 0; i < GUARD; i++)
        if (arena[i] != CANARY) { printf("%s%d", first ? "" : ",", i - GUARD); first = 0; }
    for (i = 0; i < GUARD; i++)
        if (arena[GUARD + blen + i] != CANARY) { printf("%s%d", first ? "" : ",", blen + i); first = 0; }
    if (first) printf("-");
    printf(" ret=%ld\n", ret);
}
int main(void) {
    static char line[8192], op[16], a[4096], b[4096];
    static unsigned char src[MAXB + 8], arena[MAXB + 2 * GUARD];
    long n, m;
    while (fgets(line, sizeof line, stdin)) {
        if (sscanf(line, "%15s", op) != 1) continue;
        if (!strcmp(op, "toc") || !strcmp(op, "s2c")) {
            if (sscanf(line, "%*s %4095s %ld %ld %4095s", a, &n, &m, b) != 4) { printf("badline %s", line); continue; }
            int sl = unhex(a, src);
            memset(arena, CANARY, sizeof arena);
            int bl = unhex(b, arena + GUARD);
            (void)sl;
            if (op[0] == 't') {
                int r = to_c_string((char *)src, (int)n, (char *)arena + GUARD, (int)m);
                report(arena, bl, r);
            } else {
                cgint_f ierr = -77;
                string_2_C_string((char *)src, (int)n, (char *)arena + GUARD, (int)m, &ierr);
                report(arena, bl, (long)ierr);
            }
        } else if (!strcmp(op, "tof") || !strcmp(op, "s2f")) {
            if (sscanf(line, "%*s %4095s %ld %4095s", a, &n, b) != 3) { printf("badline %s", line); continue; }
            int sl = unhex(a, src);
            src[sl] = 0;                         /* the script always contains a NUL; belt and braces */
            memset(arena, CANARY, sizeof arena);
            int bl = unhex(b, arena + GUARD);
            if (op[0] == 't') {
                int r = to_f_string((char *)src, (char *)arena + GUARD, (int)n);
                report(arena, bl, r);
            } else {
                cgint_f ierr = -77;
                string_2_F_string((char *)src, (char *)arena + GUARD, (int)n, &ierr);
                report(arena, bl, (long)ierr);
            }
        } else if (!strcmp(op, "int32")) {
            unsigned long long v; sscanf(line, "%*s %llu", &v);
            size_t sz = (size_t)v; int iv = (int)sz;     /* the conversion at the call of string_2_C_string */
            printf("i %d\n", iv);
        } else if (line[0] != '\n') printf("badline %s", line);
    }
    return 0;
}
