/* c20f_ref_mod.h -- part of harness/c20f_ref.c: reference of harness/c20f_mod2.f90 (module procedures of cgns_f.F90 without a C
   wrapper: both modes are the direct C call with the equivalent arguments; an output string is the C result blank-padded / cut
   to the Fortran length, the C buffers have the documented sizes: 33, family path 20*33+1). */
static int fillb = FILL;
static fout fo2(int len) { fout o = fo(len); memset(o.a + GUARD, fillb, len); return o; }

static int extra_op3(const char *op) {
    cgint_f ier = -99;
    if (0) {}
    OP("fill") { fillb = ti(); printf("fill"); NL; }
    OP("family_name_write") { int B = ti(), F = ti(); fstr n = ts(), f = ts(); ier = cg_family_name_write(fn, B, F, eqv(n, 8000), eqv(f, 8000)); IER(ier); NL; }
    OP("nfamily_names") { int B = ti(), F = ti(), n = -1; ier = cg_nfamily_names(fn, B, F, &n); IER(ier); if (!ier) printf(" n=%d", n); NL; }
    OP("family_name_read") { int B = ti(), F = ti(), N = ti(); fout o = fo2(ti()), o2 = fo2(ti()); char c[33], fam[20 * 33 + 1];
        ier = cg_family_name_read(fn, B, F, N, c, fam); if (!ier) { fref(o, c); fref(o2, fam); } IER(ier); pf("name", o); pf("family", o2); NL; }
    OP("node_family_name_write") { fstr n = ts(), f = ts(); ier = cg_node_family_name_write(eqv(n, 8000), eqv(f, 8000)); IER(ier); NL; }
    OP("node_nfamily_names") { int n = -1; ier = cg_node_nfamily_names(&n); IER(ier); if (!ier) printf(" n=%d", n); NL; }
    OP("node_family_name_read") { int N = ti(); fout o = fo2(ti()), o2 = fo2(ti()); char c[33], fam[20 * 33 + 1];
        ier = cg_node_family_name_read(N, c, fam); if (!ier) { fref(o, c); fref(o2, fam); } IER(ier); pf("name", o); pf("family", o2); NL; }
    OP("discrete_ptset_write") { int B = ti(), Z = ti(); fstr n = ts(); CGNS_ENUMT(GridLocation_t) loc = (CGNS_ENUMT(GridLocation_t))ti(); CGNS_ENUMT(PointSetType_t) pt = (CGNS_ENUMT(PointSetType_t))ti();
        cgsize_t np = ti(); int k = ti(), i, D = -1; cgsize_t *p = (cgsize_t *)calloc(k + 5, sizeof(cgsize_t)); for (i = 0; i < k; i++) p[i] = ti();
        ier = cg_discrete_ptset_write(fn, B, Z, eqv(n, 8000), loc, pt, np, p, &D); IER(ier); if (!ier) printf(" D=%d", D); NL; }
    OP("discrete_ptset_info") { int B = ti(), Z = ti(), D = ti(); CGNS_ENUMT(PointSetType_t) pt = 0; cgsize_t np = -1;
        ier = cg_discrete_ptset_info(fn, B, Z, D, &pt, &np); IER(ier); if (!ier) printf(" pt=%d np=%lld", (int)pt, (long long)np); NL; }
    OP("configure") { int what = ti(); long v = ti(); ier = cg_configure(what, (void *)(size_t)v); IER(ier); NL; }
    OP("configure_size") { int what = ti(); long v = ti(); ier = cg_configure(what, (void *)(size_t)v); IER(ier); NL; }
    /* ParticleZone_t */
    OP("nparticle_zones") { int B = ti(), n = -1; ier = cg_nparticle_zones(fn, B, &n); IER(ier); if (!ier) printf(" n=%d", n); NL; }
    OP("particle_write") { int B = ti(); fstr n = ts(); cgsize_t sz = ti(); int P = -1; ier = cg_particle_write(fn, B, eqv(n, 8000), sz, &P); IER(ier); if (!ier) printf(" P=%d", P); NL; }
    OP("particle_read") { int B = ti(), P = ti(); fout o = fo2(ti()); char c[33]; cgsize_t sz = -1; ier = cg_particle_read(fn, B, P, c, &sz); if (!ier) fref(o, c);
        IER(ier); if (!ier) printf(" size=%lld", (long long)sz); pf("name", o); NL; }
    OP("pcoord_node_write") { int B = ti(), P = ti(); fstr n = ts(); int C = -1; ier = cg_particle_coord_node_write(fn, B, P, eqv(n, 8000), &C); IER(ier); if (!ier) printf(" C=%d", C); NL; }
    OP("pcoord_node_read") { int B = ti(), P = ti(), C = ti(); fout o = fo2(ti()); char c[33]; ier = cg_particle_coord_node_read(fn, B, P, C, c); if (!ier) fref(o, c); IER(ier); pf("name", o); NL; }
    OP("pcoord_write") { int B = ti(), P = ti(); CGNS_ENUMT(DataType_t) ty = (CGNS_ENUMT(DataType_t))ti(); fstr n = ts(); int C = -1, i; double *d = (double *)calloc(4100, sizeof(double));
        for (i = 0; i < 4096; i++) d[i] = i * 0.75 + 1; ier = cg_particle_coord_write(fn, B, P, ty, eqv(n, 8000), d, &C); IER(ier); if (!ier) printf(" C=%d", C); NL; }
    OP("pcoord_info") { int B = ti(), P = ti(), C = ti(); fout o = fo2(ti()); char c[33]; CGNS_ENUMT(DataType_t) ty = 0; ier = cg_particle_coord_info(fn, B, P, C, &ty, c); if (!ier) fref(o, c);
        IER(ier); if (!ier) printf(" t=%d", (int)ty); pf("name", o); NL; }
    OP("psol_write") { int B = ti(), P = ti(); fstr n = ts(); int S = -1; ier = cg_particle_sol_write(fn, B, P, eqv(n, 8000), &S); IER(ier); if (!ier) printf(" S=%d", S); NL; }
    OP("psol_info") { int B = ti(), P = ti(), S = ti(); fout o = fo2(ti()); char c[33]; ier = cg_particle_sol_info(fn, B, P, S, c); if (!ier) fref(o, c); IER(ier); pf("name", o); NL; }
    OP("pfield_write") { int B = ti(), P = ti(), S = ti(); CGNS_ENUMT(DataType_t) ty = (CGNS_ENUMT(DataType_t))ti(); fstr n = ts(); int F = -1, i; double *d = (double *)calloc(4100, sizeof(double));
        for (i = 0; i < 4096; i++) d[i] = i * 1.5 - 2; ier = cg_particle_field_write(fn, B, P, S, ty, eqv(n, 8000), d, &F); IER(ier); if (!ier) printf(" F=%d", F); NL; }
    OP("pfield_info") { int B = ti(), P = ti(), S = ti(), F = ti(); fout o = fo2(ti()); char c[33]; CGNS_ENUMT(DataType_t) ty = 0; ier = cg_particle_field_info(fn, B, P, S, F, &ty, c); if (!ier) fref(o, c);
        IER(ier); if (!ier) printf(" t=%d", (int)ty); pf("name", o); NL; }
    OP("piter_write") { int B = ti(), P = ti(); fstr n = ts(); ier = cg_piter_write(fn, B, P, eqv(n, 8000)); IER(ier); NL; }
    OP("piter_read") { int B = ti(), P = ti(); fout o = fo2(ti()); char c[33]; ier = cg_piter_read(fn, B, P, c); if (!ier) fref(o, c); IER(ier); pf("name", o); NL; }
    OP("pequationset_write") { int d = ti(); ier = cg_particle_equationset_write(d); IER(ier); NL; }
    OP("pmodel_write") { fstr n = ts(); CGNS_ENUMT(ParticleModelType_t) t = (CGNS_ENUMT(ParticleModelType_t))ti(); ier = cg_particle_model_write(eqv(n, 8000), t); IER(ier); NL; }
    OP("pmodel_read") { fstr n = ts(); CGNS_ENUMT(ParticleModelType_t) t = 0; ier = cg_particle_model_read(eqv(n, 8000), &t); IER(ier); if (!ier) printf(" t=%d", (int)t); NL; }
    else return 0;
    fflush(stdout);
    return 1;
}
