/* c05_lo.c -- implementation side of the C05 cgio-level correspondence: cgio_write_data / cgio_read_data_type
   on nodes of rank 1..12 with strides and reshaped memory, user buffers guard-patterned (GUARD canary elements
   before and after, every element of a read buffer pre-filled with its own canary value).
   usage: c05_lo <file> <adf|hdf5>      script on stdin (see ocaml/eng_c05.ml), canonical lines on stdout.
   Values are small integers (exact in I4/I8/R4/R8) and are printed as integers. */
#include <stdio.h>
#include <stdlib.h>
#include <string.h>
#include "cgns_io.h"

#define GUARD 4
#define MAXN 1024
typedef struct { char name[40]; char type[4]; int ndim; cgsize_t dims[12]; double id; } node_t;
static node_t nodes[MAXN];
static int nnodes = 0, cgio = -1;
static double rootid;

static int esize(const char *t) { return (t[1] == '4') ? 4 : 8; }
static void put(void *buf, const char *t, long j, long long v) {
    if (!strcmp(t, "I4")) ((int *)buf)[j] = (int)v;
    else if (!strcmp(t, "I8")) ((long long *)buf)[j] = v;
    else if (!strcmp(t, "R4")) ((float *)buf)[j] = (float)v;
    else ((double *)buf)[j] = (double)v;
}
static long long get(const void *buf, const char *t, long j) {
    if (!strcmp(t, "I4")) return ((const int *)buf)[j];
    if (!strcmp(t, "I8")) return ((const long long *)buf)[j];
    if (!strcmp(t, "R4")) return (long long)((const float *)buf)[j];
    return (long long)((const double *)buf)[j];
}
static void settype(char *dst, const char *s) {
    dst[0] = (s[0] == 'i') ? 'I' : 'R'; dst[1] = s[1]; dst[2] = 0;
}
static node_t *find(const char *name) {
    int i; for (i = 0; i < nnodes; i++) if (!strcmp(nodes[i].name, name)) return &nodes[i];
    return NULL;
}
static int parse_ints(const char *s, cgsize_t *out) {       /* "a,b,c" */
    int n = 0; char *e;
    if (s[0] == '-' && s[1] == 0) return 0;
    while (*s) { out[n++] = (cgsize_t)strtoll(s, &e, 10); s = e; if (*s == ',') s++; else break; }
    return n;
}
static int parse_ranges(const char *s, cgsize_t *a, cgsize_t *b, cgsize_t *c) {   /* "a:b:c,a:b:c" */
    int n = 0; char *e;
    if (s[0] == '-' && (s[1] == 0 || s[1] == ' ')) return 0;
    while (*s) {
        a[n] = (cgsize_t)strtoll(s, &e, 10); s = e + 1;
        b[n] = (cgsize_t)strtoll(s, &e, 10); s = e + 1;
        c[n] = (cgsize_t)strtoll(s, &e, 10); s = e; n++;
        if (*s == ',') s++; else break;
    }
    return n;
}
static long buflen(int n, const cgsize_t *d) { long p = 1; int i; for (i = 0; i < n; i++) p *= (d[i] > 1 ? d[i] : 1); return p; }
static void print_file(node_t *nd) {
    long n = buflen(nd->ndim, nd->dims), j; int ier;
    void *buf = malloc((size_t)n * esize(nd->type));
    ier = cgio_read_all_data_type(cgio, nd->id, nd->type, buf);
    if (ier) { printf("F readfail %d\n", ier); free(buf); return; }
    printf("F ");
    for (j = 0; j < n; j++) printf(j ? ",%lld" : "%lld", get(buf, nd->type, j));
    printf("\n"); free(buf);
}
static void print_mem(const void *buf, const char *t, long n) {
    long j;
    printf("M ");
    for (j = 0; j < GUARD; j++) printf(j ? ",%lld" : "%lld", get(buf, t, j));
    printf("|");
    if (n == 0) printf("-");
    for (j = 0; j < n; j++) printf(j ? ",%lld" : "%lld", get(buf, t, GUARD + j));
    printf("|");
    for (j = 0; j < GUARD; j++) printf(j ? ",%lld" : "%lld", get(buf, t, GUARD + n + j));
    printf("\n");
}
static void fill_guards(void *buf, const char *t, long n) {
    long j;
    for (j = 0; j < GUARD; j++) { put(buf, t, j, -(9000000 + j)); put(buf, t, GUARD + n + j, -(9500000 + j)); }
}

int main(int argc, char **argv) {
    static char line[8192], name[64], ty[16], a1[4096], a2[4096];
    long long base;
    int ftype;
    if (argc < 3) return 2;
    ftype = strcmp(argv[2], "hdf5") == 0 ? CGIO_FILE_HDF5 : CGIO_FILE_ADF;
    remove(argv[1]);
    if (cgio_open_file(argv[1], CGIO_MODE_WRITE, ftype, &cgio) || cgio_get_root_id(cgio, &rootid)) { printf("openfail\n"); return 3; }
    while (fgets(line, sizeof line, stdin)) {
        if (line[0] == '#' || line[0] == '\n') continue;
        if (sscanf(line, "node %39s %15s %4095s %lld", name, ty, a1, &base) == 4) {
            node_t *nd = &nodes[nnodes]; long n, j; void *buf; int ier;
            if (nnodes >= MAXN) { printf("toomany\n"); return 3; }
            strcpy(nd->name, name); settype(nd->type, ty);
            nd->ndim = parse_ints(a1, nd->dims);
            n = buflen(nd->ndim, nd->dims);
            buf = malloc((size_t)n * 8);
            for (j = 0; j < n; j++) put(buf, nd->type, j, base + j);
            ier = cgio_create_node(cgio, rootid, name, &nd->id);
            if (!ier) ier = cgio_set_label(cgio, nd->id, "DataArray_t");
            if (!ier) ier = cgio_set_dimensions(cgio, nd->id, nd->type, nd->ndim, nd->dims);
            if (!ier) ier = cgio_write_all_data(cgio, nd->id, buf);
            free(buf);
            if (ier) printf("node err %d\n", ier); else { printf("node ok\n"); nnodes++; }
        } else if (sscanf(line, "grow %39s %4095s %lld", name, a1, &base) == 3) {
            node_t *nd = find(name); long n, j; void *buf; int ier, i;
            cgsize_t st[12], en[12], sd[12];
            if (!nd) { printf("nonode\n"); continue; }
            nd->ndim = parse_ints(a1, nd->dims);
            n = buflen(nd->ndim, nd->dims);
            buf = malloc((size_t)n * 8);
            for (j = 0; j < n; j++) put(buf, nd->type, j, base + j);
            for (i = 0; i < nd->ndim; i++) { st[i] = 1; en[i] = nd->dims[i]; sd[i] = 1; }
            ier = cgio_set_dimensions(cgio, nd->id, nd->type, nd->ndim, nd->dims);
            if (!ier) ier = cgio_write_data(cgio, nd->id, st, en, sd, nd->ndim, nd->dims, st, en, sd, buf);
            free(buf);
            if (ier) printf("grow err %d\n", ier); else { printf("grow ok\n"); print_file(nd); }
        } else if ((line[0] == 'w' || line[0] == 'r') && sscanf(line + 1, " %39s s=%4095s m=%4095s %lld", name, a1, a2, &base) == 4) {
            node_t *nd = find(name); long n, j; char *buf, *copy; int ier, mnd, sn, mn; char *semi;
            cgsize_t ss[12], se[12], sst[12], md[12], ms[12], me[12], mst[12];
            size_t bytes;
            if (!nd) { printf("nonode\n"); continue; }
            sn = parse_ranges(a1, ss, se, sst);
            semi = strchr(a2, ';');
            if (!semi) { printf("badline %s", line); continue; }
            *semi = 0;
            mnd = parse_ints(a2, md);
            mn = parse_ranges(semi + 1, ms, me, mst);
            if (sn != nd->ndim || mn != mnd) { printf("badrank\n"); continue; }
            n = buflen(mnd, md);
            bytes = (size_t)(n + 2 * GUARD) * esize(nd->type);
            buf = malloc(bytes); copy = malloc(bytes);
            fill_guards(buf, nd->type, n);
            if (line[0] == 'w') {
                for (j = 0; j < n; j++) put(buf, nd->type, GUARD + j, base + j);
                memcpy(copy, buf, bytes);
                ier = cgio_write_data(cgio, nd->id, ss, se, sst, mnd, md, ms, me, mst, buf + (size_t)GUARD * esize(nd->type));
                if (ier) printf("w err %d\n", ier); else printf("w ok\n");
                if (memcmp(copy, buf, bytes)) printf("MEMCHANGED\n");
                print_file(nd);
            } else {
                for (j = 0; j < n; j++) put(buf, nd->type, GUARD + j, -(base + j));
                ier = cgio_read_data_type(cgio, nd->id, ss, se, sst, nd->type, mnd, md, ms, me, mst, buf + (size_t)GUARD * esize(nd->type));
                if (ier) printf("r err %d\n", ier); else printf("r ok\n");
                print_mem(buf, nd->type, n);
            }
            free(buf); free(copy);
        } else printf("badline %s", line);
        fflush(stdout);
    }
    if (cgio_close_file(cgio)) { printf("closefail\n"); return 3; }
    return 0;
}
