/* c10_elem_h.c -- implementation side of the C10 correspondence: one Elements_t section "S" of one
   unstructured zone, driven through the public element-section API (creation, partial/general writes,
   parent data, every read), in session and across cg_close + cg_open(MODIFY).
   usage: c10_elem_h <file> <adf|hdf5>          script on stdin, one canonical line per op.
   Every user buffer is malloc'ed with exactly the size the API contract asks for, so that ASan sees any
   over-read / over-write of user memory.  Output buffers are pre-filled with -555.
   Script (all integers decimal; <mt>/<dt> = 4 | 8 for Integer | LongInteger):
     secw  type start end n v1..vn                 cg_section_write
     psecw type start end ne e1.. no o1..          cg_poly_section_write
     secpw type start end                          cg_section_partial_write
     secgw type dt start end eds                   cg_section_general_write ; cg_section_initialize
     epw   start end n v..                         cg_elements_partial_write
     egw   mt start end n v..                      cg_elements_general_write
     ppw   start end ne e.. no o..                 cg_poly_elements_partial_write
     pgw   mt start end ne e.. no o..              cg_poly_elements_general_write
     pdw   n v..                                   cg_parent_data_write
     pdpw  start end n v..                         cg_parent_data_partial_write
     info                                          cg_section_read + cg_ElementDataSize
     psize start end                               cg_ElementPartialSize
     er p | per p                                  cg_elements_read / cg_poly_elements_read  (p=1: with parent data)
     epr start end p | ppr start end p             cg_elements_partial_read / cg_poly_elements_partial_read
     egr mt start end | pgr mt start end           cg_elements_general_read / cg_poly_elements_general_read
     pegr mt start end | pfgr mt start end         cg_parent_elements_general_read / .._position_general_read
     reopen                                        cg_close ; cg_open(CG_MODE_MODIFY)
     npe                                           the cg_npe table */
#include <stdio.h>
#include <stdlib.h>
#include <string.h>
#include "cgnslib.h"

static int fn = -1, B = 1, Z = 1, S = 1;
#define FILL (-555)

static char *tok(void) { return strtok(NULL, " \t\r\n"); }
static long long num(void) { char *t = tok(); return t ? strtoll(t, NULL, 10) : 0; }

/* read "n v1..vn" into an exactly sized buffer of cgsize_t (mt=8) or int (mt=4) */
static void *readvec(int mt, long long *n) {
    long long i;
    void *p;
    *n = num();
    p = malloc((size_t)(*n > 0 ? *n : 1) * (mt == 4 ? sizeof(int) : sizeof(cgsize_t)));
    if (*n <= 0) { free(p); p = malloc(1); }
    for (i = 0; i < *n; i++) {
        long long v = num();
        if (mt == 4) ((int *)p)[i] = (int)v; else ((cgsize_t *)p)[i] = (cgsize_t)v;
    }
    return p;
}
static void *outbuf(int mt, long long n) {
    long long i;
    void *p = malloc((size_t)(n > 0 ? n : 1) * (mt == 4 ? sizeof(int) : sizeof(cgsize_t)));
    if (n <= 0) { free(p); return malloc(1); }
    for (i = 0; i < n; i++) { if (mt == 4) ((int *)p)[i] = FILL; else ((cgsize_t *)p)[i] = FILL; }
    return p;
}
static void pvec(int mt, const void *p, long long n) {
    long long i;
    printf(" |");
    if (n <= 0) printf(" -");
    for (i = 0; i < n; i++) printf(" %lld", mt == 4 ? (long long)((const int *)p)[i] : (long long)((const cgsize_t *)p)[i]);
}
static CGNS_ENUMT(DataType_t) dt(int mt) { return mt == 4 ? CGNS_ENUMV(Integer) : CGNS_ENUMV(LongInteger); }

/* what the library itself reports about the section (sizes the buffers of the read calls) */
static int secinfo(CGNS_ENUMT(ElementType_t) *type, cgsize_t *start, cgsize_t *end, int *pflag, cgsize_t *eds) {
    char name[64]; int nb;
    if (cg_section_read(fn, B, Z, S, name, type, start, end, &nb, pflag)) return 1;
    if (cg_ElementDataSize(fn, B, Z, S, eds)) return 1;
    return 0;
}

int main(int argc, char **argv) {
    static char line[1 << 20];
    if (argc < 3) return 2;
    cg_set_file_type(strcmp(argv[2], "hdf5") == 0 ? CG_FILE_HDF5 : CG_FILE_ADF);
    {
        cgsize_t size[3] = {1000000, 1000000, 0};
        if (cg_open(argv[1], CG_MODE_WRITE, &fn) || cg_base_write(fn, "Base", 3, 3, &B) ||
            cg_zone_write(fn, B, "Zone", size, CGNS_ENUMV(Unstructured), &Z)) { printf("openfail %s\n", cg_get_error()); return 3; }
        if (cg_close(fn) || cg_open(argv[1], CG_MODE_MODIFY, &fn)) { printf("openfail %s\n", cg_get_error()); return 3; }
    }
    while (fgets(line, sizeof line, stdin)) {
        char *op = strtok(line, " \t\r\n");
        if (!op) continue;
        if (!strcmp(op, "secw")) {
            int type = (int)num(); cgsize_t s = num(), e = num(); long long n; void *v = readvec(8, &n);
            int ier = cg_section_write(fn, B, Z, "S", (CGNS_ENUMT(ElementType_t))type, s, e, 0, v, &S);
            printf("r %d\n", ier ? 1 : 0); free(v); if (ier) S = 1;
        } else if (!strcmp(op, "psecw")) {
            int type = (int)num(); cgsize_t s = num(), e = num(); long long n, m; void *v = readvec(8, &n); void *o = readvec(8, &m);
            int ier = cg_poly_section_write(fn, B, Z, "S", (CGNS_ENUMT(ElementType_t))type, s, e, 0, v, o, &S);
            printf("r %d\n", ier ? 1 : 0); free(v); free(o); if (ier) S = 1;
        } else if (!strcmp(op, "secpw")) {
            int type = (int)num(); cgsize_t s = num(), e = num();
            int ier = cg_section_partial_write(fn, B, Z, "S", (CGNS_ENUMT(ElementType_t))type, s, e, 0, &S);
            printf("r %d\n", ier ? 1 : 0); if (ier) S = 1;
        } else if (!strcmp(op, "secgw")) {
            int type = (int)num(); int d = (int)num(); cgsize_t s = num(), e = num(), eds = num();
            int ier = cg_section_general_write(fn, B, Z, "S", (CGNS_ENUMT(ElementType_t))type, dt(d), s, e, eds, 0, &S);
            if (!ier) ier = cg_section_initialize(fn, B, Z, S);
            printf("r %d\n", ier ? 1 : 0); if (ier) S = 1;
        } else if (!strcmp(op, "epw")) {
            cgsize_t s = num(), e = num(); long long n; void *v = readvec(8, &n);
            int ier = cg_elements_partial_write(fn, B, Z, S, s, e, v);
            printf("r %d\n", ier ? 1 : 0); free(v);
        } else if (!strcmp(op, "egw")) {
            int mt = (int)num(); cgsize_t s = num(), e = num(); long long n; void *v = readvec(mt, &n);
            int ier = cg_elements_general_write(fn, B, Z, S, s, e, dt(mt), v);
            printf("r %d\n", ier ? 1 : 0); free(v);
        } else if (!strcmp(op, "ppw")) {
            cgsize_t s = num(), e = num(); long long n, m; void *v = readvec(8, &n); void *o = readvec(8, &m);
            int ier = cg_poly_elements_partial_write(fn, B, Z, S, s, e, v, o);
            printf("r %d\n", ier ? 1 : 0); free(v); free(o);
        } else if (!strcmp(op, "pgw")) {
            int mt = (int)num(); cgsize_t s = num(), e = num(); long long n, m; void *v = readvec(mt, &n); void *o = readvec(mt, &m);
            int ier = cg_poly_elements_general_write(fn, B, Z, S, s, e, dt(mt), v, o);
            printf("r %d\n", ier ? 1 : 0); free(v); free(o);
        } else if (!strcmp(op, "pdw")) {
            long long n; void *v = readvec(8, &n);
            int ier = cg_parent_data_write(fn, B, Z, S, v);
            printf("r %d\n", ier ? 1 : 0); free(v);
        } else if (!strcmp(op, "pdpw")) {
            cgsize_t s = num(), e = num(); long long n; void *v = readvec(8, &n);
            int ier = cg_parent_data_partial_write(fn, B, Z, S, s, e, v);
            printf("r %d\n", ier ? 1 : 0); free(v);
        } else if (!strcmp(op, "info")) {
            CGNS_ENUMT(ElementType_t) type; cgsize_t s, e, eds; int pf;
            if (secinfo(&type, &s, &e, &pf, &eds)) printf("i 1\n");
            else printf("i 0 %d %lld %lld %d %lld\n", (int)type, (long long)s, (long long)e, pf, (long long)eds);
        } else if (!strcmp(op, "psize")) {
            cgsize_t s = num(), e = num(), sz = FILL;
            int ier = cg_ElementPartialSize(fn, B, Z, S, s, e, &sz);
            if (ier) printf("z 1\n"); else printf("z 0 %lld\n", (long long)sz);
        } else if (!strcmp(op, "er") || !strcmp(op, "per")) {
            int poly = op[0] == 'p', wantp = (int)num();
            CGNS_ENUMT(ElementType_t) type; cgsize_t s, e, eds; int pf;
            if (secinfo(&type, &s, &e, &pf, &eds)) { printf("E 1\n"); }
            else {
                long long ne = e - s + 1;
                cgsize_t *el = outbuf(8, eds), *of = outbuf(8, ne + 1), *pd = outbuf(8, 4 * ne);
                int ier;
                wantp = wantp && pf;
                ier = poly ? cg_poly_elements_read(fn, B, Z, S, el, of, wantp ? pd : NULL)
                               : cg_elements_read(fn, B, Z, S, el, wantp ? pd : NULL);
                if (ier) printf("E 1\n");
                else { printf("E 0"); pvec(8, el, eds); if (poly) pvec(8, of, ne + 1); if (wantp) pvec(8, pd, 4 * ne); printf("\n"); }
                free(el); free(of); free(pd);
            }
        } else if (!strcmp(op, "epr") || !strcmp(op, "ppr")) {
            int poly = op[0] == 'p'; cgsize_t s = num(), e = num(); int wantp = (int)num();
            cgsize_t sz = 0, r0, r1, eds; int pf = 0; CGNS_ENUMT(ElementType_t) type;
            if (secinfo(&type, &r0, &r1, &pf, &eds) || cg_ElementPartialSize(fn, B, Z, S, s, e, &sz)) { printf("E 1\n"); }
            else {
                long long ne = e - s + 1;
                cgsize_t *el = outbuf(8, sz), *of = outbuf(8, ne + 1), *pd = outbuf(8, 4 * ne);
                wantp = wantp && pf;
                int ier = poly ? cg_poly_elements_partial_read(fn, B, Z, S, s, e, el, of, wantp ? pd : NULL)
                               : cg_elements_partial_read(fn, B, Z, S, s, e, el, wantp ? pd : NULL);
                if (ier) printf("E 1\n");
                else { printf("E 0"); pvec(8, el, sz); if (poly) pvec(8, of, ne + 1); if (wantp) pvec(8, pd, 4 * ne); printf("\n"); }
                free(el); free(of); free(pd);
            }
        } else if (!strcmp(op, "egr") || !strcmp(op, "pgr")) {
            int poly = op[0] == 'p'; int mt = (int)num(); cgsize_t s = num(), e = num();
            cgsize_t sz = 0;
            if (cg_ElementPartialSize(fn, B, Z, S, s, e, &sz)) { printf("E 1\n"); }
            else {
                long long ne = e - s + 1;
                void *el = outbuf(mt, sz), *of = outbuf(mt, ne + 1);
                int ier = poly ? cg_poly_elements_general_read(fn, B, Z, S, s, e, dt(mt), el, of)
                               : cg_elements_general_read(fn, B, Z, S, s, e, dt(mt), el);
                if (ier) printf("E 1\n");
                else { printf("E 0"); pvec(mt, el, sz); if (poly) pvec(mt, of, ne + 1); printf("\n"); }
                free(el); free(of);
            }
        } else if (!strcmp(op, "pegr") || !strcmp(op, "pfgr")) {
            int face = op[1] == 'f'; int mt = (int)num(); cgsize_t s = num(), e = num();
            long long ne = e - s + 1;
            void *pd = outbuf(mt, ne > 0 ? 2 * ne : 0);
            int ier = face ? cg_parent_elements_position_general_read(fn, B, Z, S, s, e, dt(mt), pd)
                           : cg_parent_elements_general_read(fn, B, Z, S, s, e, dt(mt), pd);
            if (ier) printf("E 1\n"); else { printf("E 0"); pvec(mt, pd, 2 * ne); printf("\n"); }
            free(pd);
        } else if (!strcmp(op, "reopen")) {
            if (cg_close(fn) || cg_open(argv[1], CG_MODE_MODIFY, &fn)) { printf("reopenfail %s\n", cg_get_error()); return 3; }
            printf("r 0\n");
        } else if (!strcmp(op, "npe")) {
            int t, n;
            printf("N");
            for (t = 0; t < NofValidElementTypes; t++) { n = -9; cg_npe((CGNS_ENUMT(ElementType_t))t, &n); printf(" %d", n); }
            printf("\n");
        } else printf("badline %s\n", op);
        fflush(stdout);
    }
    if (cg_close(fn)) { printf("closefail %s\n", cg_get_error()); return 3; }
    return 0;
}
