/* c08_cgio.c -- implementation side of the link correspondence (C08): drives the cgio_* layer of the library rebuilt
   from /repo with the script language of ocaml/eng_c08.ml (coq/Links.v) and prints the same canonical lines.
   Adapted from cgio_h.c (which C08 may not edit): several files open at once, node handles are caller-chosen uids
   (0 = root), plus the link-specific operations:
     setenv NAME hex|-        pathadd hex        pathdel            chdir hex
     rd  h u hexpath|-        read THROUGH an id: id = H(u) (then cgio_get_node_id(id, path) when a path is given),
                              then name / label / data type / dimensions / data / number of children / child names,
                              each by its own cgio call -> one line  ok R:name:label:type:dims:data:nchild:names
     lnk h u                  cgio_is_link + cgio_link_size + cgio_get_link -> ok L:0 | ok L:1:file:path
     sub h u                  direct pre-order dump of the subtree below uid u that never follows a link (link nodes are
                              printed as links): a model-independent "hash" of a target before / after a link is deleted
   Every operation runs under alarm(): a hang prints "hang" and exits 97.  No pointers, no floats as decimals. */
#include <stdio.h>
#include <stdlib.h>
#include <string.h>
#include <unistd.h>
#include <signal.h>
#include "cgns_io.h"
#include "cgnslib.h"

#define MAXF 16
#define MAXH 4096
typedef struct { int alive; double id; int parent; char name[80]; } hnd;
typedef struct { int open, cgio, type; char path[2048]; double root; hnd *h; } fil;
static fil F[MAXF];
static char curop[64];

static void on_alarm(int s) { (void)s; printf("hang %s\n", curop); fflush(stdout); _exit(97); }

static size_t unhex(const char *s, unsigned char *out) {
    size_t n = 0;
    if (s[0] == '-' && s[1] == 0) { out[0] = 0; return 0; }
    while (s[0] && s[1]) { unsigned v; sscanf(s, "%2x", &v); out[n++] = (unsigned char)v; s += 2; }
    out[n] = 0;
    return n;
}
static void hexout(const unsigned char *b, size_t n) { if (!n) printf("-"); for (size_t i = 0; i < n; i++) printf("%02x", b[i]); }
static void hexstr(const char *s) { hexout((const unsigned char *)s, strlen(s)); }
static int tsize(const char *t) {
    if (!strcmp(t, "C1") || !strcmp(t, "B1")) return 1;
    if (!strcmp(t, "I4") || !strcmp(t, "U4") || !strcmp(t, "R4")) return 4;
    if (!strcmp(t, "I8") || !strcmp(t, "U8") || !strcmp(t, "R8") || !strcmp(t, "X4")) return 8;
    if (!strcmp(t, "X8")) return 16;
    return 0;
}
static int parse_csv(const char *s, cgsize_t *out) {
    int n = 0; if (s[0] == '-' ) return 0;
    while (*s) { out[n++] = (cgsize_t)strtoll(s, (char **)&s, 10); if (*s == ',') s++; }
    return n;
}
static const char *eclass(int e) {
    switch (e) {
    case 50: return "linkdepth";
    case 52: return "linktarget";
    case 53: return "linkfile";
    case 29: case 76: return "notfound";
    default: return "other";
    }
}
static void build_path(fil *f, int u, char *out) {
    if (u == 0) { out[0] = 0; return; }
    build_path(f, f->h[u].parent, out);
    strcat(out, "/"); strcat(out, f->h[u].name);
}
static void kill_subtree(fil *f, int u) {
    f->h[u].alive = 0;
    for (int i = 1; i < MAXH; i++) if (f->h[i].alive && f->h[i].parent == u) kill_subtree(f, i);
}
static int do_open(fil *f, int mode) {
    int m = mode == 'w' ? CGIO_MODE_WRITE : mode == 'm' ? CGIO_MODE_MODIFY : CGIO_MODE_READ;
    if (cgio_open_file(f->path, m, f->type, &f->cgio)) return 1;
    if (cgio_get_root_id(f->cgio, &f->root)) return 1;
    f->open = 1; f->h[0].alive = 1; f->h[0].id = f->root; f->h[0].parent = -1; f->h[0].name[0] = 0;
    return 0;
}
#define H(fi, u) (((u) >= 0 && (u) < MAXH && F[fi].h[u].alive) ? F[fi].h[u].id : -1.0)
#define BAD(fi) ((fi) < 0 || (fi) >= MAXF || !F[fi].open)

/* everything the property names, read through `id` with one cgio call each; returns 0 or the failing code */
static int read_through(int cg, double id, int with_name) {
    char nm[80], lb[80], ty[80]; int nd, nk, got = 0, e; cgsize_t d[CGIO_MAX_DIMENSIONS];
    static unsigned char data[2100000]; static char names[400 * (CGIO_MAX_NAME_LENGTH + 1)];
    long long n = 1;
    nm[0] = 0;
    if (with_name && (e = cgio_get_name(cg, id, nm))) return e;
    if ((e = cgio_get_label(cg, id, lb))) return e;
    if ((e = cgio_get_data_type(cg, id, ty))) return e;
    if ((e = cgio_get_dimensions(cg, id, &nd, d))) return e;
    for (int i = 0; i < nd; i++) n *= d[i];
    if (nd == 0 || tsize(ty) == 0) n = 0;
    n *= tsize(ty);
    if (n > 2000000) return -2;
    if (n > 0) { memset(data, 0xEE, n); if ((e = cgio_read_all_data_type(cg, id, ty, data))) return e; }
    if ((e = cgio_number_children(cg, id, &nk))) return e;
    if (nk > 399) return -3;
    if ((e = cgio_children_names(cg, id, 1, nk + 1, CGIO_MAX_NAME_LENGTH + 1, &got, names))) return e;
    printf("ok R:"); hexstr(nm); printf(":"); hexstr(lb); printf(":"); hexstr(ty); printf(":");
    if (!nd) printf("-"); for (int i = 0; i < nd; i++) printf("%s%lld", i ? "," : "", (long long)d[i]);
    printf(":"); hexout(data, (size_t)n); printf(":%d:", nk);
    if (!got) printf("-"); for (int i = 0; i < got; i++) { if (i) printf(","); hexstr(names + i * (CGIO_MAX_NAME_LENGTH + 1)); }
    printf("\n");
    return 0;
}

/* direct dump: never reads through a link */
static int dump_direct(int cg, double id, int depth) {
    char nm[80]; int len, e;
    if ((e = cgio_get_name(cg, id, nm))) return e;
    if ((e = cgio_is_link(cg, id, &len))) return e;
    printf("{"); hexstr(nm);
    if (len > 0) {
        static char fn[4200], pa[4200]; int fl, nl;
        if ((e = cgio_link_size(cg, id, &fl, &nl))) return e;
        if (fl > 4100 || nl > 4100) return -4;
        if ((e = cgio_get_link(cg, id, fn, pa))) return e;
        printf(" L "); hexstr(fn); printf(" "); hexstr(pa); printf("}");
        return 0;
    }
    char lb[80], ty[80]; int nd, nk, got; cgsize_t d[CGIO_MAX_DIMENSIONS]; long long n = 1;
    if ((e = cgio_get_label(cg, id, lb))) return e;
    if ((e = cgio_get_data_type(cg, id, ty))) return e;
    if ((e = cgio_get_dimensions(cg, id, &nd, d))) return e;
    for (int i = 0; i < nd; i++) n *= d[i];
    if (nd == 0 || tsize(ty) == 0) n = 0;
    n *= tsize(ty);
    printf(" "); hexstr(lb); printf(" %s ", ty);
    if (!nd) printf("-"); for (int i = 0; i < nd; i++) printf("%s%lld", i ? "," : "", (long long)d[i]);
    printf(" ");
    if (n > 0 && n <= 2000000) {
        unsigned char *data = malloc(n); memset(data, 0xEE, n);
        if ((e = cgio_read_all_data_type(cg, id, ty, data))) { free(data); printf("nodata"); }
        else { hexout(data, n); free(data); }
    } else printf("-");
    if ((e = cgio_number_children(cg, id, &nk))) return e;
    if (nk > 0 && depth < 40) {
        double *ids = malloc(sizeof(double) * nk);
        if ((e = cgio_children_ids(cg, id, 1, nk, &got, ids))) { free(ids); return e; }
        for (int i = 0; i < got; i++) if ((e = dump_direct(cg, ids[i], depth + 1))) { free(ids); return e; }
        free(ids);
    }
    printf("}");
    return 0;
}

int main(void) {
    static char line[4200000], a[4][2100000];
    static unsigned char buf[2100000];
    int fi, u, p, np;
    signal(SIGALRM, on_alarm);
    while (fgets(line, sizeof line, stdin)) {
        char cmd[32]; cmd[0] = 0; sscanf(line, "%31s", cmd);
        snprintf(curop, sizeof curop, "%.60s", line); for (char *q = curop; *q; q++) if (*q == '\n') *q = 0;
        alarm(20);
        if (!strcmp(cmd, "setenv")) {
            char nm[64]; sscanf(line, "%*s %63s %s", nm, a[0]);
            if (a[0][0] == '-' && !a[0][1]) unsetenv(nm); else { unhex(a[0], buf); setenv(nm, (char *)buf, 1); }
            printf("ok\n");
        } else if (!strcmp(cmd, "pathadd")) {
            sscanf(line, "%*s %s", a[0]); unhex(a[0], buf);
            printf(cgio_path_add((char *)buf) ? "err other\n" : "ok\n");
        } else if (!strcmp(cmd, "setpath") || !strcmp(cmd, "addpath") || !strcmp(cmd, "cfgset") || !strcmp(cmd, "cfgadd")) {
            /* the mid-level setters of the search path (they only manipulate the cgio list): argument hex | - (empty) | NULL */
            sscanf(line, "%*s %s", a[0]);
            const char *arg = NULL;
            if (strcmp(a[0], "NULL")) { unhex(a[0], buf); arg = (const char *)buf; }
            int e = !strcmp(cmd, "setpath") ? cg_set_path(arg) : !strcmp(cmd, "addpath") ? cg_add_path(arg) :
                    !strcmp(cmd, "cfgset") ? cg_configure(CG_CONFIG_SET_PATH, (void *)arg) : cg_configure(CG_CONFIG_ADD_PATH, (void *)arg);
            printf(e ? "err other\n" : "ok\n");
        } else if (!strcmp(cmd, "tryc")) {
            /* a create that is expected to be refused (e.g. under a dangling link): the handle is not kept */
            sscanf(line, "%*s %d %d %d %s", &fi, &p, &u, a[0]);
            if (BAD(fi) || H(fi, p) < 0) { printf("err other\n"); continue; }
            unhex(a[0], buf); double id;
            if (cgio_create_node(F[fi].cgio, H(fi, p), (char *)buf, &id)) printf("err other\n");
            else { cgio_release_id(F[fi].cgio, id); printf("ok\n"); }
        } else if (!strcmp(cmd, "pathdel")) {
            printf(cgio_path_delete(NULL) ? "err other\n" : "ok\n");
        } else if (!strcmp(cmd, "dbg") || !strcmp(cmd, "decoy")) {
            if (cmd[1] == 'b' && getenv("C08_DBG")) {      /* development aid: which descriptors are open (stderr only) */
                char lk[64], tg[600];
                for (int fd = 3; fd < 64; fd++) { snprintf(lk, sizeof lk, "/proc/self/fd/%d", fd); ssize_t k = readlink(lk, tg, sizeof tg - 1); if (k > 0) { tg[k] = 0; fprintf(stderr, "fd %d -> %s\n", fd, tg); } }
            }
            printf("ok\n");
        } else if (!strcmp(cmd, "junk")) {         /* a file that is not a CGNS database */
            sscanf(line, "%*s %s", a[0]); unhex(a[0], buf);
            FILE *fp = fopen((char *)buf, "wb");
            if (!fp) printf("err other\n"); else { fputs("this is not a CGNS database, just sixty-odd bytes of plain text.....\n", fp); fclose(fp); printf("ok\n"); }
        } else if (!strcmp(cmd, "unlinkf")) {
            sscanf(line, "%*s %s", a[0]); unhex(a[0], buf);
            printf(unlink((char *)buf) ? "err other\n" : "ok\n");
        } else if (!strcmp(cmd, "chdir")) {
            sscanf(line, "%*s %s", a[0]); unhex(a[0], buf);
            printf(chdir((char *)buf) ? "err other\n" : "ok\n");
        } else if (!strcmp(cmd, "file")) {
            char be[16], md[8];
            sscanf(line, "%*s %d %s %15s %7s", &fi, a[0], be, md);
            fil *f = &F[fi];
            if (!f->h) f->h = calloc(MAXH, sizeof(hnd));
            unhex(a[0], buf);
            /* a file opened again under the same name keeps its handle table: ids are re-resolved by path */
            if (md[0] == 'w' || strcmp(f->path, (char *)buf)) memset(f->h, 0, MAXH * sizeof(hnd));
            strncpy(f->path, (char *)buf, sizeof f->path - 1);
            f->type = !strcmp(be, "hdf5") ? CGIO_FILE_HDF5 : CGIO_FILE_ADF;
            if (md[0] == 'w') unlink(f->path);
            int bad = do_open(f, md[0]);
            if (!bad) for (int i = 1; i < MAXH; i++) if (f->h[i].alive) {
                static char path[8192]; build_path(f, i, path);
                if (cgio_get_node_id(f->cgio, f->root, path, &f->h[i].id)) { bad = 2; break; }
            }
            printf(bad ? "err other\n" : "ok\n");
        } else if (!strcmp(cmd, "closef")) {
            sscanf(line, "%*s %d", &fi);
            if (BAD(fi)) { printf("err other\n"); continue; }
            printf(cgio_close_file(F[fi].cgio) ? "err other\n" : "ok\n"); F[fi].open = 0;
        } else if (!strcmp(cmd, "reopen")) {
            char md[8]; sscanf(line, "%*s %d %7s", &fi, md);
            fil *f = &F[fi]; int bad = 0;
            if (f->open && cgio_close_file(f->cgio)) bad = 1;
            f->open = 0;
            if (!bad && do_open(f, md[0])) bad = 1;
            if (!bad) for (int i = 1; i < MAXH; i++) if (f->h[i].alive) {
                static char path[8192]; build_path(f, i, path);
                if (cgio_get_node_id(f->cgio, f->root, path, &f->h[i].id)) { bad = 2; break; }
            }
            printf(bad ? "err other\n" : "ok\n");
        } else if (!strcmp(cmd, "create")) {
            sscanf(line, "%*s %d %d %d %s", &fi, &p, &u, a[0]);
            if (BAD(fi)) { printf("err other\n"); continue; }
            unhex(a[0], buf); double id;
            if (u <= 0 || u >= MAXH || F[fi].h[u].alive || H(fi, p) < 0 ||
                cgio_create_node(F[fi].cgio, H(fi, p), (char *)buf, &id)) printf("err other\n");
            else { hnd *h = &F[fi].h[u]; h->alive = 1; h->id = id; h->parent = p; strncpy(h->name, (char *)buf, 79); printf("ok\n"); }
        } else if (!strcmp(cmd, "link")) {
            sscanf(line, "%*s %d %d %d %s %s %s", &fi, &p, &u, a[0], a[1], a[2]);
            if (BAD(fi)) { printf("err other\n"); continue; }
            static unsigned char fn[8192], pa[8192]; unhex(a[0], buf); unhex(a[1], fn); unhex(a[2], pa); double id;
            if (u <= 0 || u >= MAXH || F[fi].h[u].alive || H(fi, p) < 0 ||
                cgio_create_link(F[fi].cgio, H(fi, p), (char *)buf, (char *)fn, (char *)pa, &id)) printf("err other\n");
            else { hnd *h = &F[fi].h[u]; h->alive = 1; h->id = id; h->parent = p; strncpy(h->name, (char *)buf, 79); printf("ok\n"); }
        } else if (!strcmp(cmd, "delete")) {
            sscanf(line, "%*s %d %d %d", &fi, &p, &u);
            if (BAD(fi) || H(fi, p) < 0 || H(fi, u) < 0 || u == 0) { printf("err other\n"); continue; }
            if (cgio_delete_node(F[fi].cgio, H(fi, p), H(fi, u))) printf("err other\n");
            else { kill_subtree(&F[fi], u); printf("ok\n"); }
        } else if (!strcmp(cmd, "rename")) {
            sscanf(line, "%*s %d %d %d %s", &fi, &p, &u, a[0]);
            if (BAD(fi) || H(fi, p) < 0 || H(fi, u) < 0 || u == 0) { printf("err other\n"); continue; }
            unhex(a[0], buf);
            if (cgio_set_name(F[fi].cgio, H(fi, p), H(fi, u), (char *)buf)) printf("err other\n");
            else { strncpy(F[fi].h[u].name, (char *)buf, 79); printf("ok\n"); }
        } else if (!strcmp(cmd, "move")) {
            sscanf(line, "%*s %d %d %d %d", &fi, &p, &u, &np);
            if (BAD(fi) || H(fi, p) < 0 || H(fi, u) < 0 || H(fi, np) < 0 || u == 0) { printf("err other\n"); continue; }
            if (cgio_move_node(F[fi].cgio, H(fi, p), H(fi, u), H(fi, np))) printf("err other\n");
            else { F[fi].h[u].parent = np; printf("ok\n"); }
        } else if (!strcmp(cmd, "label")) {
            sscanf(line, "%*s %d %d %s", &fi, &u, a[0]);
            if (BAD(fi) || H(fi, u) < 0) { printf("err other\n"); continue; }
            unhex(a[0], buf);
            printf(cgio_set_label(F[fi].cgio, H(fi, u), (char *)buf) ? "err other\n" : "ok\n");
        } else if (!strcmp(cmd, "dims")) {
            char ty[16]; cgsize_t d[32]; sscanf(line, "%*s %d %d %15s %s", &fi, &u, ty, a[0]);
            if (BAD(fi) || H(fi, u) < 0) { printf("err other\n"); continue; }
            int nd = parse_csv(a[0], d);
            printf(cgio_set_dimensions(F[fi].cgio, H(fi, u), ty, nd, d) ? "err other\n" : "ok\n");
        } else if (!strcmp(cmd, "wall")) {
            sscanf(line, "%*s %d %d %s", &fi, &u, a[0]);
            if (BAD(fi) || H(fi, u) < 0) { printf("err other\n"); continue; }
            char ty[40]; int nd; cgsize_t d[CGIO_MAX_DIMENSIONS]; long long nb = 1; size_t n = unhex(a[0], buf);
            if (cgio_get_data_type(F[fi].cgio, H(fi, u), ty) || cgio_get_dimensions(F[fi].cgio, H(fi, u), &nd, d)) { printf("err other\n"); continue; }
            for (int i = 0; i < nd; i++) nb *= d[i];
            if (nd == 0 || tsize(ty) == 0) nb = 0;
            nb *= tsize(ty);
            if (nb == 0 || (long long)n != nb) { printf("err other\n"); continue; }
            printf(cgio_write_all_data(F[fi].cgio, H(fi, u), buf) ? "err other\n" : "ok\n");
        } else if (!strcmp(cmd, "rd")) {
            sscanf(line, "%*s %d %d %s", &fi, &u, a[0]);
            if (BAD(fi) || H(fi, u) < 0) { printf("err other\n"); continue; }
            double id = H(fi, u); int e = 0, mine = 0;
            if (!(a[0][0] == '-' && !a[0][1])) { unhex(a[0], buf); e = cgio_get_node_id(F[fi].cgio, id, (char *)buf, &id); mine = !e; }
            if (!e) e = read_through(F[fi].cgio, id, 1);
            if (e) printf("err %s\n", eclass(e));
            /* a well-behaved client: an id looked up for this read is given back (on HDF5 it may live in a linked-to
               file, which would otherwise stay open inside libhdf5 after every cgio_close_file) */
            if (mine) cgio_release_id(F[fi].cgio, id);
        } else if (!strcmp(cmd, "lnk")) {
            sscanf(line, "%*s %d %d", &fi, &u);
            if (BAD(fi) || H(fi, u) < 0) { printf("err other\n"); continue; }
            int len, fl, nl; static char fn[4200], pa[4200]; int cg = F[fi].cgio; double id = H(fi, u);
            if (cgio_is_link(cg, id, &len)) { printf("err other\n"); continue; }
            if (len <= 0) { printf("ok L:0\n"); continue; }
            if (cgio_link_size(cg, id, &fl, &nl) || fl > 4100 || nl > 4100 || cgio_get_link(cg, id, fn, pa)) { printf("err other\n"); continue; }
            if ((int)strlen(fn) > fl || (int)strlen(pa) > nl) { printf("err size\n"); continue; }   /* sizes are buffer hints: ADF = strlen, ADFH = strlen + 1 */
            printf("ok L:1:"); hexstr(fn); printf(":"); hexstr(pa); printf("\n");
        } else if (!strcmp(cmd, "sub")) {
            sscanf(line, "%*s %d %d", &fi, &u);
            if (BAD(fi) || H(fi, u) < 0) { printf("err other\n"); continue; }
            printf("ok S:");
            int e = dump_direct(F[fi].cgio, H(fi, u), 0);
            if (e) printf(" !err %s", eclass(e));
            printf("\n");
        } else if (line[0] == '\n' || line[0] == '#') ;
        else printf("badline %s", line);
        fflush(stdout);
    }
    alarm(60);
    for (fi = 0; fi < MAXF; fi++) if (F[fi].open) { snprintf(curop, sizeof curop, "final close %d", fi); cgio_close_file(F[fi].cgio); }
    return 0;
}
