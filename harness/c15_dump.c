/* c15_dump.c -- canonical logical dump of a CGNS/cgio file (included textually by c15_h.c and c14_h.c).
   One line per node, depth first, children sorted by name, links reported and NOT followed:
     N <path> <label-hex> <type> <ndims>:<d1,d2,..> <nbytes> <fnv1a64 of the data bytes>
     L <path> <file-hex> <target-hex>
   returns 0 when the whole tree could be walked and every datum read, else the cgio error code (or -1). */
#include <stdio.h>
#include <stdlib.h>
#include <string.h>
#include "cgns_io.h"

static void dump_hex(const char *s) { if (!*s) printf("-"); for (; *s; s++) printf("%02x", (unsigned char)*s); }

static unsigned long long dump_fnv(const unsigned char *p, size_t n)
{
    unsigned long long h = 0xcbf29ce484222325ULL;
    size_t i;
    for (i = 0; i < n; i++) { h ^= p[i]; h *= 0x100000001b3ULL; }
    return h;
}

struct dump_ent { char name[CGIO_MAX_NAME_LENGTH + 1]; double id; };
static int dump_cmp(const void *a, const void *b)
{ return strcmp(((const struct dump_ent *)a)->name, ((const struct dump_ent *)b)->name); }

static int dump_node(int cg, double id, const char *path, int depth)
{
    char label[CGIO_MAX_LABEL_LENGTH + 1], dtype[CGIO_MAX_DATATYPE_LENGTH + 1];
    cgsize_t dims[CGIO_MAX_DIMENSIONS];
    int ndims = 0, nchild = 0, i, len = 0, ier;
    cglong_t nbytes = 0;
    struct dump_ent *ents;

    if (depth > 64) return -1;
    if (depth > 0) {
        if ((ier = cgio_is_link(cg, id, &len))) return ier;
        if (len > 0) {
            int fl = 0, nl = 0;
            char *lf, *ln;
            if ((ier = cgio_link_size(cg, id, &fl, &nl))) return ier;
            lf = (char *)calloc(fl + nl + 4, 1);
            ln = lf + fl + 2;
            if ((ier = cgio_get_link(cg, id, lf, ln))) { free(lf); return ier; }
            lf[fl] = 0; ln[nl] = 0;
            printf("L %s ", path); dump_hex(lf); printf(" "); dump_hex(ln); printf("\n");
            free(lf);
            return 0;
        }
        if ((ier = cgio_get_label(cg, id, label))) return ier;
        if ((ier = cgio_get_data_type(cg, id, dtype))) return ier;
        if ((ier = cgio_get_dimensions(cg, id, &ndims, dims))) return ier;
        printf("N %s ", path); dump_hex(label); printf(" %s %d:", dtype, ndims);
        for (i = 0; i < ndims; i++) printf("%s%lld", i ? "," : "", (long long)dims[i]);
        if (strcmp(dtype, "MT") != 0 && strcmp(dtype, "LK") != 0 && ndims > 0) {
            unsigned char *buf;
            if ((ier = cgio_get_data_size(cg, id, &nbytes))) { printf(" ?\n"); return ier; }
            if (nbytes < 0 || nbytes > (cglong_t)1 << 28) { printf(" ?\n"); return -1; }
            buf = (unsigned char *)calloc((size_t)nbytes + 16, 1);
            if (nbytes > 0 && (ier = cgio_read_all_data_type(cg, id, dtype, buf))) { printf(" ?\n"); free(buf); return ier; }
            printf(" %lld %016llx\n", (long long)nbytes, dump_fnv(buf, (size_t)nbytes));
            free(buf);
        } else
            printf(" 0 -\n");
    }
    if ((ier = cgio_number_children(cg, id, &nchild))) return ier;
    if (nchild < 0 || nchild > 100000) return -1;
    if (nchild == 0) return 0;
    ents = (struct dump_ent *)calloc((size_t)nchild, sizeof *ents);
    for (i = 0; i < nchild; i++) {
        int cnt = 0;
        if ((ier = cgio_children_ids(cg, id, i + 1, 1, &cnt, &ents[i].id)) || cnt != 1 ||
            (ier = cgio_get_name(cg, ents[i].id, ents[i].name))) {
            free(ents);
            return ier ? ier : -1;
        }
    }
    qsort(ents, (size_t)nchild, sizeof *ents, dump_cmp);
    for (i = 0; i < nchild; i++) {
        char *sub = (char *)malloc(strlen(path) + strlen(ents[i].name) + 2);
        sprintf(sub, "%s/%s", path, ents[i].name);
        ier = dump_node(cg, ents[i].id, sub, depth + 1);
        free(sub);
        if (ier) { free(ents); return ier; }
    }
    free(ents);
    return 0;
}

/* open read-only, walk, close.  Prints "B <tag>" ... "E <tag> <status> <filetype>" */
static int dump_file(const char *path, const char *tag)
{
    int cg = 0, ier, ft = 0;
    double root;
    printf("B %s\n", tag);
    fflush(stdout);
    ier = cgio_open_file(path, CGIO_MODE_READ, CGIO_FILE_NONE, &cg);
    if (ier) { printf("E %s open:%d 0\n", tag, ier); fflush(stdout); return ier; }
    cgio_get_file_type(cg, &ft);
    ier = cgio_get_root_id(cg, &root);
    if (!ier) ier = dump_node(cg, root, "", 0);
    {
        int c = cgio_close_file(cg);
        if (!ier && c) ier = c;
    }
    printf("E %s %s%d %d\n", tag, ier ? "err:" : "ok:", ier, ft);
    fflush(stdout);
    return ier;
}
