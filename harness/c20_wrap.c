/* c20_wrap.c -- implementation side of the C20 wrapper correspondence / oracle.
   Compiles /repo/src/cg_ftoc.c and /repo/src/cgio_ftoc.c as C (textual include; no Fortran compiler needed) and
   drives them the way a Fortran compiler would: every argument by reference, character arguments as
   (pointer, hidden length) with NO terminator (input strings live in exact-size heap blocks so that ASan sees a
   read past the hidden length; output strings live between canaries).

     c20_wrap f <file> <file2> <adf|hdf5>   every op goes through the Fortran-callable wrapper
     c20_wrap c <file> <file2> <adf|hdf5>   every op is the direct C call with the EQUIVALENT arguments: an input
                                            string is the Fortran value (trailing blanks removed) cut to the
                                            documented limit, an output string is the C result blank-padded / cut
                                            to the Fortran length.  This reference conversion (eqv / fref below)
                                            is written independently of the code under test.
     c20_wrap dump <file>                   cgio tree walk: one line per node (path label type dims data-hash)

   Both modes read the same script and print the same canonical lines; checks/C20.py compares them, then
   compares the dumps of the two files.  Floats are never printed (data is hashed). */
#include "cg_ftoc.c"
#include "cgio_ftoc.c"
#include <stdio.h>
#include <stdint.h>
#include <ctype.h>

#define GUARD 64
#define CANARY 0xA5
#define FILL 0x7e

static int MODEF, fn = -1, fn_open = 0, cgio_n = -1, backend = CG_FILE_ADF;
static const char *path1, *path2;
static char *toks[80];
static int ntok, itok;
static double ids[64];
static int nids;
static long nvert = 27, ncell = 8;

static long ti(void) { return itok < ntok ? atol(toks[itok++]) : 0; }
typedef struct { char *p; int len; } fstr;
static fstr ts(void) {                 /* hex -> exact-size heap block (no terminator) */
    fstr s; const char *h = itok < ntok ? toks[itok++] : "-";
    int n = (h[0] == '-' && !h[1]) ? 0 : (int)strlen(h) / 2, i;
    s.p = (char *)malloc(n ? n : 1); s.len = n;
    for (i = 0; i < n; i++) { unsigned v; sscanf(h + 2 * i, "%2x", &v); s.p[i] = (char)v; }
    return s;
}
/* reference: Fortran value of s cut to limit, as a C string (rotating static buffers) */
static const char *eqv(fstr s, int limit) {
    static char buf[8][9000]; static int k; char *o = buf[k = (k + 1) % 8];
    int n = s.len;
    while (n > 0 && s.p[n - 1] == ' ') n--;
    if (n > limit) n = limit;
    memcpy(o, s.p, n); o[n] = 0;
    return o;
}
typedef struct { unsigned char *a; int len; } fout;
static fout fo(int len) {
    fout o; o.len = len; o.a = (unsigned char *)malloc(len + 2 * GUARD);
    memset(o.a, CANARY, len + 2 * GUARD); memset(o.a + GUARD, FILL, len); return o;
}
#define FP(o) ((char *)(o).a + GUARD)
static void fref(fout o, const char *c) {        /* reference Fortran assignment  var = c  */
    int n = (int)strlen(c), i;
    for (i = 0; i < o.len; i++) o.a[GUARD + i] = (unsigned char)(i < n ? c[i] : ' ');
}
static void pf(const char *tag, fout o) {
    int i, first = 1;
    printf(" %s=", tag);
    if (!o.len) printf("-");
    for (i = 0; i < o.len; i++) printf("%02x", o.a[GUARD + i]);
    printf("/oob:");
    for (i = 0; i < GUARD; i++) if (o.a[i] != CANARY) { printf("%s%d", first ? "" : ",", i - GUARD); first = 0; }
    for (i = 0; i < GUARD; i++) if (o.a[GUARD + o.len + i] != CANARY) { printf("%s%d", first ? "" : ",", o.len + i); first = 0; }
    if (first) printf("-");
}
static unsigned long long fnv(const void *p, size_t n) {
    const unsigned char *b = (const unsigned char *)p; unsigned long long h = 1469598103934665603ULL; size_t i;
    for (i = 0; i < n; i++) { h ^= b[i]; h *= 1099511628211ULL; }
    return h;
}
#define OP(name) else if (!strcmp(op, name))
#define IER(x) printf("%s ier=%d", op, (int)(x))
#define NL printf("\n")

static void dump_node(int cg, double id, const char *path) {
    char name[CGIO_MAX_NAME_LENGTH + 1], label[CGIO_MAX_LABEL_LENGTH + 1], dt[CGIO_MAX_DATATYPE_LENGTH + 1];
    int nd = 0, i, nch = 0, len = 0; cgsize_t dims[CGIO_MAX_DIMENSIONS]; char full[8192];
    cgio_get_name(cg, id, name); cgio_get_label(cg, id, label); cgio_get_data_type(cg, id, dt);
    snprintf(full, sizeof full, "%s/%s", path, name);
    if (cgio_is_link(cg, id, &len) == 0 && len > 0) {
        char f[CGIO_MAX_FILE_LENGTH + 1], l[CGIO_MAX_LINK_LENGTH + 1];
        cgio_get_link(cg, id, f, l);
        const char *bn = strrchr(f, '/'); bn = bn ? bn + 1 : f;
        printf("N %s LINK file=%s path=%s\n", full, *f ? "<f>" : "", l);
        (void)bn; return;
    }
    cgio_get_dimensions(cg, id, &nd, dims);
    printf("N %s %s %s", full, label, dt);
    for (i = 0; i < nd; i++) printf("%s%lld", i ? "," : " ", (long long)dims[i]);
    if (strcmp(dt, "MT") && strcmp(dt, "LK")) {
        cglong_t sz = 0; cgio_get_data_size(cg, id, &sz);
        if (sz > 0 && sz < (1 << 26)) {
            void *d = malloc((size_t)sz);
            if (cgio_read_all_data_type(cg, id, dt, d) == 0) {
                if (!strcmp(label, "CGNSLibraryVersion_t") || !strcmp(name, "CGNSLibraryVersion")) printf(" h=<ver>");
                else printf(" h=%016llx", fnv(d, (size_t)sz));
            } else printf(" h=<unreadable>");
            free(d);
        }
    }
    printf("\n");
    cgio_number_children(cg, id, &nch);
    for (i = 1; i <= nch; i++) {
        double cid; int got = 0;
        if (cgio_children_ids(cg, id, i, 1, &got, &cid) == 0 && got == 1) dump_node(cg, cid, full);
    }
}
static int do_dump(const char *p) {
    int cg, nch = 0, i; double root;
    if (cgio_open_file(p, CGIO_MODE_READ, CGIO_FILE_NONE, &cg)) { printf("DUMP cannot open\n"); return 0; }
    cgio_get_root_id(cg, &root);
    cgio_number_children(cg, root, &nch);
    for (i = 1; i <= nch; i++) {
        double cid; int got = 0;
        if (cgio_children_ids(cg, root, i, 1, &got, &cid) == 0 && got == 1) dump_node(cg, cid, "");
    }
    cgio_close_file(cg);
    return 0;
}

int main(int argc, char **argv) {
    static char line[70000], op[64];
    if (argc >= 3 && !strcmp(argv[1], "dump")) return do_dump(argv[2]);
    if (argc < 5) { fprintf(stderr, "usage\n"); return 2; }
    MODEF = argv[1][0] == 'f'; path1 = argv[2]; path2 = argv[3];
    backend = !strcmp(argv[4], "hdf5") ? CG_FILE_HDF5 : CG_FILE_ADF;
    while (fgets(line, sizeof line, stdin)) {
        ntok = 0; itok = 1;
        for (char *t = strtok(line, " \t\r\n"); t && ntok < 80; t = strtok(NULL, " \t\r\n")) toks[ntok++] = t;
        if (!ntok || toks[0][0] == '#') continue;
        strncpy(op, toks[0], 63); op[63] = 0;
        cgint_f ier = -99;
        if (0) {}
        /* ------------------------------------------------------------ set-up (no wrapper exists in cg_ftoc.c) */
        OP("open") { const char *m = toks[itok++]; cg_set_file_type(backend);
            ier = cg_open(path1, m[0] == 'w' ? CG_MODE_WRITE : m[0] == 'm' ? CG_MODE_MODIFY : CG_MODE_READ, &fn); if (!ier) fn_open = 1; IER(ier); NL; }
        OP("close") { ier = cg_close(fn); if (!ier) fn_open = 0; IER(ier); NL; }
        OP("base") { fstr n = ts(); int cd = ti(), pd = ti(), B = 0; IER(cg_base_write(fn, eqv(n, 64), cd, pd, &B)); printf(" B=%d", B); NL; }
        OP("zone") { fstr n = ts(); int B = ti(); const char *k = toks[itok++]; long m = ti(); int Z = 0; cgsize_t sz[9];
            if (k[0] == 's') { sz[0] = sz[1] = sz[2] = m; sz[3] = sz[4] = sz[5] = m - 1; sz[6] = sz[7] = sz[8] = 0; nvert = m * m * m; ncell = (m - 1) * (m - 1) * (m - 1); }
            else { sz[0] = m; sz[1] = m / 2; sz[2] = 0; nvert = m; ncell = m / 2; }
            IER(cg_zone_write(fn, B, eqv(n, 64), sz, k[0] == 's' ? CGNS_ENUMV(Structured) : CGNS_ENUMV(Unstructured), &Z)); printf(" Z=%d", Z); NL; }
        /* ------------------------------------------------------------ coordinates */
        OP("coord_write") { cgint_f B = ti(), Z = ti(); CGNS_ENUMT(DataType_t) ty = (CGNS_ENUMT(DataType_t))ti(); fstr n = ts();
            double *d = (double *)malloc(sizeof(double) * 4096); float *f = (float *)d; long i; int C = -1; cgint_f fC = -1, ffn = fn;
            for (i = 0; i < 4096; i++) { if (ty == CGNS_ENUMV(RealSingle)) f[i] = (float)(i * 0.5); else d[i] = i * 0.25 + n.len; }
            if (MODEF) { FMNAME(cg_coord_write_f, CG_COORD_WRITE_F)(&ffn, &B, &Z, &ty, n.p, d, &fC, &ier, (size_t)n.len); C = fC; }
            else ier = cg_coord_write(fn, B, Z, ty, eqv(n, 32), d, &C);
            IER(ier); if (!ier) printf(" C=%d", C); NL; free(d); }
        OP("coord_read") { cgint_f B = ti(), Z = ti(), ffn = fn; fstr n = ts(); long m = ti(); cgsize_t lo[3] = {1, 1, 1}, hi[3];
            CGNS_ENUMT(DataType_t) ty = CGNS_ENUMV(RealDouble); hi[0] = hi[1] = hi[2] = m;
            double *d = (double *)calloc(4096, sizeof(double));
            if (MODEF) FMNAME(cg_coord_read_f, CG_COORD_READ_F)(&ffn, &B, &Z, n.p, &ty, lo, hi, d, &ier, (size_t)n.len);
            else ier = cg_coord_read(fn, B, Z, eqv(n, 32), ty, lo, hi, d);
            IER(ier); if (!ier) printf(" h=%016llx", fnv(d, sizeof(double) * 4096)); NL; free(d); }
        /* ------------------------------------------------------------ element sections */
        OP("section_write") { cgint_f B = ti(), Z = ti(), ffn = fn; fstr n = ts(); CGNS_ENUMT(ElementType_t) et = (CGNS_ENUMT(ElementType_t))ti();
            cgsize_t st = ti(), en = ti(); cgint_f nb = ti(), fS = -1; int S = -1; long cnt = (en >= st ? en - st + 1 : 0) * 4, i;
            cgsize_t *e = (cgsize_t *)malloc(sizeof(cgsize_t) * (cnt + 4)); for (i = 0; i < cnt; i++) e[i] = 1 + (i % 4);
            if (MODEF) { FMNAME(cg_section_write_f, CG_SECTION_WRITE_F)(&ffn, &B, &Z, n.p, &et, &st, &en, &nb, e, &fS, &ier, (size_t)n.len); S = fS; }
            else ier = cg_section_write(fn, B, Z, eqv(n, 32), et, st, en, nb, e, &S);
            IER(ier); if (!ier) printf(" S=%d", S); NL; free(e); }
        OP("section_read") { cgint_f B = ti(), Z = ti(), E = ti(), ffn = fn; fout o = fo(ti()); CGNS_ENUMT(ElementType_t) et = 0; cgsize_t st = 0, en = 0;
            if (MODEF) { cgint_f nb = -1, pfl = -1; FMNAME(cg_section_read_f, CG_SECTION_READ_F)(&ffn, &B, &Z, &E, FP(o), &et, &st, &en, &nb, &pfl, &ier, (size_t)o.len);
                IER(ier); if (!ier) printf(" t=%d s=%lld e=%lld nb=%d pf=%d", (int)et, (long long)st, (long long)en, (int)nb, (int)pfl); }
            else { char c[33]; int nb = -1, pfl = -1; ier = cg_section_read(fn, B, Z, E, c, &et, &st, &en, &nb, &pfl); if (!ier) fref(o, c);
                IER(ier); if (!ier) printf(" t=%d s=%lld e=%lld nb=%d pf=%d", (int)et, (long long)st, (long long)en, nb, pfl); }
            pf("name", o); NL; }
        /* ------------------------------------------------------------ solutions and fields */
        OP("nsols") { cgint_f B = ti(), Z = ti(), ffn = fn, n = -1; int cn = -1;
            if (MODEF) cg_nsols_f(&ffn, &B, &Z, &n, &ier); else { ier = cg_nsols(fn, B, Z, &cn); n = cn; } IER(ier); if (!ier) printf(" n=%d", (int)n); NL; }
        OP("sol_write") { cgint_f B = ti(), Z = ti(), ffn = fn, fS = -1; fstr n = ts(); CGNS_ENUMT(GridLocation_t) loc = (CGNS_ENUMT(GridLocation_t))ti(); int S = -1;
            if (MODEF) { FMNAME(cg_sol_write_f, CG_SOL_WRITE_F)(&ffn, &B, &Z, n.p, &loc, &fS, &ier, (size_t)n.len); S = fS; }
            else ier = cg_sol_write(fn, B, Z, eqv(n, 32), loc, &S);
            IER(ier); if (!ier) printf(" S=%d", S); NL; }
        OP("sol_info") { cgint_f B = ti(), Z = ti(), S = ti(), ffn = fn; fout o = fo(ti()); CGNS_ENUMT(GridLocation_t) loc = 0;
            if (MODEF) FMNAME(cg_sol_info_f, CG_SOL_INFO_F)(&ffn, &B, &Z, &S, FP(o), &loc, &ier, (size_t)o.len);
            else { char c[33]; ier = cg_sol_info(fn, B, Z, S, c, &loc); if (!ier) fref(o, c); }
            IER(ier); if (!ier) printf(" loc=%d", (int)loc); pf("name", o); NL; }
        OP("nfields") { cgint_f B = ti(), Z = ti(), S = ti(), ffn = fn, n = -1; int cn = -1;
            if (MODEF) cg_nfields_f(&ffn, &B, &Z, &S, &n, &ier); else { ier = cg_nfields(fn, B, Z, S, &cn); n = cn; } IER(ier); if (!ier) printf(" n=%d", (int)n); NL; }
        OP("field_write") { cgint_f B = ti(), Z = ti(), S = ti(), ffn = fn, fF = -1; CGNS_ENUMT(DataType_t) ty = (CGNS_ENUMT(DataType_t))ti(); fstr n = ts();
            long cnt = 4096, i; double *d = (double *)malloc(sizeof(double) * (cnt + 1)); int F = -1; (void)ti(); for (i = 0; i < cnt; i++) d[i] = i + 0.5 * n.len;
            if (MODEF) { FMNAME(cg_field_write_f, CG_FIELD_WRITE_F)(&ffn, &B, &Z, &S, &ty, n.p, d, &fF, &ier, (size_t)n.len); F = fF; }
            else ier = cg_field_write(fn, B, Z, S, ty, eqv(n, 32), d, &F);
            IER(ier); if (!ier) printf(" F=%d", F); NL; free(d); }
        OP("field_info") { cgint_f B = ti(), Z = ti(), S = ti(), F = ti(), ffn = fn; fout o = fo(ti()); CGNS_ENUMT(DataType_t) ty = 0;
            if (MODEF) FMNAME(cg_field_info_f, CG_FIELD_INFO_F)(&ffn, &B, &Z, &S, &F, &ty, FP(o), &ier, (size_t)o.len);
            else { char c[33]; ier = cg_field_info(fn, B, Z, S, F, &ty, c); if (!ier) fref(o, c); }
            IER(ier); if (!ier) printf(" t=%d", (int)ty); pf("name", o); NL; }
        OP("field_read") { cgint_f B = ti(), Z = ti(), S = ti(), ffn = fn; fstr n = ts(); long m = ti(); cgsize_t lo[3] = {1, 1, 1}, hi[3]; hi[0] = hi[1] = hi[2] = m;
            CGNS_ENUMT(DataType_t) ty = CGNS_ENUMV(RealDouble); double *d = (double *)calloc(4096, sizeof(double));
            if (MODEF) FMNAME(cg_field_read_f, CG_FIELD_READ_F)(&ffn, &B, &Z, &S, n.p, &ty, lo, hi, d, &ier, (size_t)n.len);
            else ier = cg_field_read(fn, B, Z, S, eqv(n, 32), ty, lo, hi, d);
            IER(ier); if (!ier) printf(" h=%016llx", fnv(d, sizeof(double) * 4096)); NL; free(d); }
        /* ------------------------------------------------------------ boundary conditions */
        OP("nbocos") { cgint_f B = ti(), Z = ti(), ffn = fn, n = -1; int cn = -1;
            if (MODEF) cg_nbocos_f(&ffn, &B, &Z, &n, &ier); else { ier = cg_nbocos(fn, B, Z, &cn); n = cn; } IER(ier); if (!ier) printf(" n=%d", (int)n); NL; }
        OP("boco_write") { cgint_f B = ti(), Z = ti(), ffn = fn, fBC = -1; fstr n = ts(); CGNS_ENUMT(BCType_t) bt = (CGNS_ENUMT(BCType_t))ti();
            cgsize_t np = ti(), pts[64]; int i, BC = -1; CGNS_ENUMT(PointSetType_t) ps = CGNS_ENUMV(PointList); for (i = 0; i < 64; i++) pts[i] = i + 1;
            if (MODEF) { FMNAME(cg_boco_write_f, CG_BOCO_WRITE_F)(&ffn, &B, &Z, n.p, &bt, &ps, &np, pts, &fBC, &ier, (size_t)n.len); BC = fBC; }
            else ier = cg_boco_write(fn, B, Z, eqv(n, 32), bt, ps, np, pts, &BC);
            IER(ier); if (!ier) printf(" BC=%d", BC); NL; }
        OP("boco_info") { cgint_f B = ti(), Z = ti(), BC = ti(), ffn = fn; fout o = fo(ti()); CGNS_ENUMT(BCType_t) bt = 0; CGNS_ENUMT(PointSetType_t) ps = 0;
            cgsize_t np = 0, nls = 0; CGNS_ENUMT(DataType_t) ndt = 0;
            if (MODEF) { cgint_f ni[3] = {-7, -7, -7}, nds = -1; FMNAME(cg_boco_info_f, CG_BOCO_INFO_F)(&ffn, &B, &Z, &BC, FP(o), &bt, &ps, &np, ni, &nls, &ndt, &nds, &ier, (size_t)o.len);
                IER(ier); if (!ier) printf(" bt=%d ps=%d np=%lld ni=%d,%d,%d nls=%lld ndt=%d nds=%d", (int)bt, (int)ps, (long long)np, (int)ni[0], (int)ni[1], (int)ni[2], (long long)nls, (int)ndt, (int)nds); }
            else { char c[33]; int ni[3] = {-7, -7, -7}, nds = -1; ier = cg_boco_info(fn, B, Z, BC, c, &bt, &ps, &np, ni, &nls, &ndt, &nds); if (!ier) fref(o, c);
                IER(ier); if (!ier) printf(" bt=%d ps=%d np=%lld ni=%d,%d,%d nls=%lld ndt=%d nds=%d", (int)bt, (int)ps, (long long)np, ni[0], ni[1], ni[2], (long long)nls, (int)ndt, nds); }
            pf("name", o); NL; }
        OP("dataset_write") { cgint_f B = ti(), Z = ti(), BC = ti(), ffn = fn, fD = -1; fstr n = ts(); CGNS_ENUMT(BCType_t) bt = (CGNS_ENUMT(BCType_t))ti(); int D = -1;
            if (MODEF) { FMNAME(cg_dataset_write_f, CG_DATASET_WRITE_F)(&ffn, &B, &Z, &BC, n.p, &bt, &fD, &ier, (size_t)n.len); D = fD; }
            else ier = cg_dataset_write(fn, B, Z, BC, eqv(n, 32), bt, &D);
            IER(ier); if (!ier) printf(" D=%d", D); NL; }
        OP("dataset_read") { cgint_f B = ti(), Z = ti(), BC = ti(), DS = ti(), ffn = fn; fout o = fo(ti()); CGNS_ENUMT(BCType_t) bt = 0;
            if (MODEF) { cgint_f df = -1, nf = -1; FMNAME(cg_dataset_read_f, CG_DATASET_READ_F)(&ffn, &B, &Z, &BC, &DS, FP(o), &bt, &df, &nf, &ier, (size_t)o.len);
                IER(ier); if (!ier) printf(" bt=%d d=%d n=%d", (int)bt, (int)df, (int)nf); }
            else { char c[33]; int df = -1, nf = -1; ier = cg_dataset_read(fn, B, Z, BC, DS, c, &bt, &df, &nf); if (!ier) fref(o, c);
                IER(ier); if (!ier) printf(" bt=%d d=%d n=%d", (int)bt, df, nf); }
            pf("name", o); NL; }
        OP("bc_area_write") { cgint_f B = ti(), Z = ti(), BC = ti(), ffn = fn; CGNS_ENUMT(AreaType_t) at = (CGNS_ENUMT(AreaType_t))ti(); fstr n = ts(); float area = 2.5f;
            if (MODEF) FMNAME(cg_bc_area_write_f, CG_BC_AREA_WRITE_F)(&ffn, &B, &Z, &BC, &at, &area, n.p, &ier, (size_t)n.len);
            else ier = cg_bc_area_write(fn, B, Z, BC, at, area, eqv(n, 32));
            IER(ier); NL; }
        OP("bc_area_read") { cgint_f B = ti(), Z = ti(), BC = ti(), ffn = fn; fout o = fo(ti()); CGNS_ENUMT(AreaType_t) at = 0; float area = 0; uint32_t bits;
            if (MODEF) FMNAME(cg_bc_area_read_f, CG_BC_AREA_READ_F)(&ffn, &B, &Z, &BC, &at, &area, FP(o), &ier, (size_t)o.len);
            else { char c[33]; ier = cg_bc_area_read(fn, B, Z, BC, &at, &area, c); if (!ier) fref(o, c); }
            memcpy(&bits, &area, 4); IER(ier); if (!ier) printf(" at=%d area=%08x", (int)at, bits); pf("name", o); NL; }
        /* ------------------------------------------------------------ grids, connectivity */
        OP("grid_write") { cgint_f B = ti(), Z = ti(), ffn = fn, fG = -1; fstr n = ts(); int G = -1;
            if (MODEF) { FMNAME(cg_grid_write_f, CG_GRID_WRITE_F)(&ffn, &B, &Z, n.p, &fG, &ier, (size_t)n.len); G = fG; }
            else ier = cg_grid_write(fn, B, Z, eqv(n, 32), &G);
            IER(ier); if (!ier) printf(" G=%d", G); NL; }
        OP("grid_read") { cgint_f B = ti(), Z = ti(), G = ti(), ffn = fn; fout o = fo(ti());
            if (MODEF) FMNAME(cg_grid_read_f, CG_GRID_READ_F)(&ffn, &B, &Z, &G, FP(o), &ier, (size_t)o.len);
            else { char c[33]; ier = cg_grid_read(fn, B, Z, G, c); if (!ier) fref(o, c); }
            IER(ier); pf("name", o); NL; }
        OP("zconn_write") { cgint_f B = ti(), Z = ti(), ffn = fn, fC = -1; fstr n = ts(); int C = -1;
            if (MODEF) { FMNAME(cg_zconn_write_f, CG_ZCONN_WRITE_F)(&ffn, &B, &Z, n.p, &fC, &ier, (size_t)n.len); C = fC; }
            else ier = cg_zconn_write(fn, B, Z, eqv(n, 32), &C);
            IER(ier); if (!ier) printf(" C=%d", C); NL; }
        OP("zconn_read") { cgint_f B = ti(), Z = ti(), C = ti(), ffn = fn; fout o = fo(ti());
            if (MODEF) FMNAME(cg_zconn_read_f, CG_ZCONN_READ_F)(&ffn, &B, &Z, &C, FP(o), &ier, (size_t)o.len);
            else { char c[33]; ier = cg_zconn_read(fn, B, Z, C, c); if (!ier) fref(o, c); }
            IER(ier); pf("name", o); NL; }
        OP("conn_write_short") { cgint_f B = ti(), Z = ti(), ffn = fn, fI = -1; fstr n = ts(), dn = ts(); int I = -1; cgsize_t np = 3, pts[9] = {1, 1, 1, 2, 1, 1, 3, 1, 1};
            CGNS_ENUMT(GridLocation_t) loc = CGNS_ENUMV(Vertex); CGNS_ENUMT(GridConnectivityType_t) ct = CGNS_ENUMV(Abutting); CGNS_ENUMT(PointSetType_t) ps = CGNS_ENUMV(PointList);
            if (MODEF) { FMNAME(cg_conn_write_short_f, CG_CONN_WRITE_SHORT_F)(&ffn, &B, &Z, n.p, &loc, &ct, &ps, &np, pts, dn.p, &fI, &ier, (size_t)n.len, (size_t)dn.len); I = fI; }
            else ier = cg_conn_write_short(fn, B, Z, eqv(n, 32), loc, ct, ps, np, pts, eqv(dn, 32), &I);
            IER(ier); if (!ier) printf(" I=%d", I); NL; }
        OP("conn_info") { cgint_f B = ti(), Z = ti(), I = ti(), ffn = fn; fout o = fo(ti()), o2 = fo(ti()); CGNS_ENUMT(GridLocation_t) loc = 0; CGNS_ENUMT(GridConnectivityType_t) ct = 0;
            CGNS_ENUMT(PointSetType_t) ps = 0, dps = 0; CGNS_ENUMT(ZoneType_t) dz = 0; CGNS_ENUMT(DataType_t) ddt = 0; cgsize_t np = 0, nd = 0;
            if (MODEF) FMNAME(cg_conn_info_f, CG_CONN_INFO_F)(&ffn, &B, &Z, &I, FP(o), &loc, &ct, &ps, &np, FP(o2), &dz, &dps, &ddt, &nd, &ier, (size_t)o.len, (size_t)o2.len);
            else { char c[33], d[33]; ier = cg_conn_info(fn, B, Z, I, c, &loc, &ct, &ps, &np, d, &dz, &dps, &ddt, &nd); if (!ier) { fref(o, c); fref(o2, d); } }
            IER(ier); if (!ier) printf(" loc=%d ct=%d ps=%d np=%lld dz=%d dps=%d ddt=%d nd=%lld", (int)loc, (int)ct, (int)ps, (long long)np, (int)dz, (int)dps, (int)ddt, (long long)nd);
            pf("name", o); pf("donor", o2); NL; }
        OP("1to1_write") { cgint_f B = ti(), Z = ti(), ffn = fn, fI = -1; fstr n = ts(), dn = ts(); int I = -1; cgsize_t r[6] = {1, 1, 1, 1, 2, 2}, dr[6] = {1, 1, 1, 1, 2, 2};
            if (MODEF) { cgint_f tr[3] = {1, 2, 3}; FMNAME(cg_1to1_write_f, CG_1TO1_WRITE_F)(&ffn, &B, &Z, n.p, dn.p, r, dr, tr, &fI, &ier, (size_t)n.len, (size_t)dn.len); I = fI; }
            else { int tr[3] = {1, 2, 3}; ier = cg_1to1_write(fn, B, Z, eqv(n, 32), eqv(dn, 32), r, dr, tr, &I); }
            IER(ier); if (!ier) printf(" I=%d", I); NL; }
        OP("1to1_read") { cgint_f B = ti(), Z = ti(), I = ti(), ffn = fn; fout o = fo(ti()), o2 = fo(ti()); cgsize_t r[6] = {0}, dr[6] = {0};
            if (MODEF) { cgint_f tr[3] = {0, 0, 0}; FMNAME(cg_1to1_read_f, CG_1TO1_READ_F)(&ffn, &B, &Z, &I, FP(o), FP(o2), r, dr, tr, &ier, (size_t)o.len, (size_t)o2.len);
                IER(ier); if (!ier) printf(" tr=%d,%d,%d r5=%lld", (int)tr[0], (int)tr[1], (int)tr[2], (long long)r[5]); }
            else { char c[33], d[33]; int tr[3] = {0, 0, 0}; ier = cg_1to1_read(fn, B, Z, I, c, d, r, dr, tr); if (!ier) { fref(o, c); fref(o2, d); }
                IER(ier); if (!ier) printf(" tr=%d,%d,%d r5=%lld", tr[0], tr[1], tr[2], (long long)r[5]); }
            pf("name", o); pf("donor", o2); NL; }
        OP("n1to1_global") { cgint_f B = ti(), ffn = fn, n = -1; int cn = -1;
            if (MODEF) cg_n1to1_global_f(&ffn, &B, &n, &ier); else { ier = cg_n1to1_global(fn, B, &cn); n = cn; } IER(ier); if (!ier) printf(" n=%d", (int)n); NL; }
        OP("1to1_read_global") { cgint_f B = ti(), ffn = fn; int n = ti(), k, i; fout o = fo(32 * n), o2 = fo(32 * n), o3 = fo(32 * n);
            /* range / donor_range are INTEGER(2*Ndim, N), transform is INTEGER(Ndim, N) with Ndim = cell dimension of the base:
               all three arrays are compared in full (guard words behind them included) */
            cgsize_t *r = (cgsize_t *)calloc(6 * n + 6, sizeof(cgsize_t)), *dr = (cgsize_t *)calloc(6 * n + 6, sizeof(cgsize_t));
            cgint_f *tr = (cgint_f *)calloc(3 * n + 3, sizeof(cgint_f));
            if (MODEF) {
                FMNAME(cg_1to1_read_global_f, CG_1TO1_READ_GLOBAL_F)(&ffn, &B, FP(o), FP(o2), FP(o3), r, dr, tr, &ier, (size_t)32, (size_t)32, (size_t)32);
            } else { char **a = (char **)malloc(n * sizeof(char *)), **b = (char **)malloc(n * sizeof(char *)), **c = (char **)malloc(n * sizeof(char *));
                cgsize_t **rr = (cgsize_t **)malloc(n * sizeof(cgsize_t *)), **dd = (cgsize_t **)malloc(n * sizeof(cgsize_t *)); int **tt = (int **)malloc(n * sizeof(int *));
                int ng = 0, cd = 3, pd = 3; char bn[33]; cg_n1to1_global(fn, B, &ng); if (ng > n) ng = n;
                cg_base_read(fn, B, bn, &cd, &pd);
                for (k = 0; k < n; k++) { a[k] = (char *)calloc(33, 1); b[k] = (char *)calloc(33, 1); c[k] = (char *)calloc(33, 1); rr[k] = (cgsize_t *)calloc(6, sizeof(cgsize_t)); dd[k] = (cgsize_t *)calloc(6, sizeof(cgsize_t)); tt[k] = (int *)calloc(3, sizeof(int)); }
                ier = cg_1to1_read_global(fn, B, a, b, c, rr, dd, tt);
                if (!ier) for (k = 0; k < ng; k++) { fout e; e.len = 32; e.a = o.a + 32 * k; fref(e, a[k]); e.a = o2.a + 32 * k; fref(e, b[k]); e.a = o3.a + 32 * k; fref(e, c[k]);
                    for (i = 0; i < 2 * cd; i++) { r[2 * cd * k + i] = rr[k][i]; dr[2 * cd * k + i] = dd[k][i]; }
                    for (i = 0; i < cd; i++) tr[cd * k + i] = tt[k][i]; } }
            IER(ier); if (!ier) printf(" h=%016llx hd=%016llx ht=%016llx", fnv(r, sizeof(cgsize_t) * (6 * n + 6)), fnv(dr, sizeof(cgsize_t) * (6 * n + 6)), fnv(tr, sizeof(cgint_f) * (3 * n + 3)));
            pf("conn", o); pf("zone", o2); pf("donor", o3); NL; }
        /* 2-D structured zone and 1-to-1 interface (cell dimension 2: the packing of the global reader differs from 3-D) */
        OP("zone2") { fstr n = ts(); int B = ti(); long m = ti(); int Z = 0; cgsize_t sz[6];
            sz[0] = sz[1] = m; sz[2] = sz[3] = m - 1; sz[4] = sz[5] = 0;
            IER(cg_zone_write(fn, B, eqv(n, 64), sz, CGNS_ENUMV(Structured), &Z)); printf(" Z=%d", Z); NL; }
        OP("1to1_write2") { cgint_f B = ti(), Z = ti(), ffn = fn, fI = -1; fstr n = ts(), dn = ts(); int v = ti(); int I = -1;
            static const int T[4][2] = {{1, 2}, {-2, 1}, {2, -1}, {-1, -2}};
            /* equal extents (1,1) on both sides so that every transform is consistent; positions vary with v */
            cgsize_t r[4] = {1 + v % 2, 1 + (v / 2) % 2, 2 + v % 2, 2 + (v / 2) % 2}, dr[4] = {1 + v % 3, 1 + (v / 3) % 2, 2 + v % 3, 2 + (v / 3) % 2};
            if (MODEF) { cgint_f tr[2]; tr[0] = T[v & 3][0]; tr[1] = T[v & 3][1]; FMNAME(cg_1to1_write_f, CG_1TO1_WRITE_F)(&ffn, &B, &Z, n.p, dn.p, r, dr, tr, &fI, &ier, (size_t)n.len, (size_t)dn.len); I = fI; }
            else { int tr[2]; tr[0] = T[v & 3][0]; tr[1] = T[v & 3][1]; ier = cg_1to1_write(fn, B, Z, eqv(n, 32), eqv(dn, 32), r, dr, tr, &I); }
            IER(ier); if (!ier) printf(" I=%d", I); NL; }
        OP("hole_write") { cgint_f B = ti(), Z = ti(), ffn = fn, fI = -1, nps = 1; fstr n = ts(); int I = -1; cgsize_t np = 2, pts[6] = {1, 1, 1, 2, 2, 2};
            CGNS_ENUMT(GridLocation_t) loc = CGNS_ENUMV(Vertex); CGNS_ENUMT(PointSetType_t) ps = CGNS_ENUMV(PointList);
            if (MODEF) { FMNAME(cg_hole_write_f, CG_HOLE_WRITE_F)(&ffn, &B, &Z, n.p, &loc, &ps, &nps, &np, pts, &fI, &ier, (size_t)n.len); I = fI; }
            else ier = cg_hole_write(fn, B, Z, eqv(n, 32), loc, ps, 1, np, pts, &I);
            IER(ier); if (!ier) printf(" I=%d", I); NL; }
        OP("hole_info") { cgint_f B = ti(), Z = ti(), I = ti(), ffn = fn; fout o = fo(ti()); CGNS_ENUMT(GridLocation_t) loc = 0; CGNS_ENUMT(PointSetType_t) ps = 0; cgsize_t np = 0;
            if (MODEF) { cgsize_t nps = -1; FMNAME(cg_hole_info_f, CG_HOLE_INFO_F)(&ffn, &B, &Z, &I, FP(o), &loc, &ps, &nps, &np, &ier, (size_t)o.len);
                IER(ier); if (!ier) printf(" loc=%d ps=%d nps=%lld np=%lld", (int)loc, (int)ps, (long long)nps, (long long)np); }
            else { char c[33]; int nps = -1; ier = cg_hole_info(fn, B, Z, I, c, &loc, &ps, &nps, &np); if (!ier) fref(o, c);
                IER(ier); if (!ier) printf(" loc=%d ps=%d nps=%lld np=%lld", (int)loc, (int)ps, (long long)nps, (long long)np); }
            pf("name", o); NL; }
        /* ------------------------------------------------------------ iterative data, motion, subregions */
        OP("biter_write") { cgint_f B = ti(), ffn = fn; fstr n = ts(); cgint_f ns = ti();
            if (MODEF) FMNAME(cg_biter_write_f, CG_BITER_WRITE_F)(&ffn, &B, n.p, &ns, &ier, (size_t)n.len); else ier = cg_biter_write(fn, B, eqv(n, 32), ns);
            IER(ier); NL; }
        OP("biter_read") { cgint_f B = ti(), ffn = fn, ns = -1; fout o = fo(ti()); int cns = -1;
            if (MODEF) FMNAME(cg_biter_read_f, CG_BITER_READ_F)(&ffn, &B, FP(o), &ns, &ier, (size_t)o.len);
            else { char c[33]; ier = cg_biter_read(fn, B, c, &cns); ns = cns; if (!ier) fref(o, c); }
            IER(ier); if (!ier) printf(" ns=%d", (int)ns); pf("name", o); NL; }
        OP("ziter_write") { cgint_f B = ti(), Z = ti(), ffn = fn; fstr n = ts();
            if (MODEF) FMNAME(cg_ziter_write_f, CG_ZITER_WRITE_F)(&ffn, &B, &Z, n.p, &ier, (size_t)n.len); else ier = cg_ziter_write(fn, B, Z, eqv(n, 32));
            IER(ier); NL; }
        OP("ziter_read") { cgint_f B = ti(), Z = ti(), ffn = fn; fout o = fo(ti());
            if (MODEF) FMNAME(cg_ziter_read_f, CG_ZITER_READ_F)(&ffn, &B, &Z, FP(o), &ier, (size_t)o.len);
            else { char c[33]; ier = cg_ziter_read(fn, B, Z, c); if (!ier) fref(o, c); }
            IER(ier); pf("name", o); NL; }
        OP("rigid_write") { cgint_f B = ti(), Z = ti(), ffn = fn, fR = -1; fstr n = ts(); CGNS_ENUMT(RigidGridMotionType_t) t = (CGNS_ENUMT(RigidGridMotionType_t))ti(); int R = -1;
            if (MODEF) { FMNAME(cg_rigid_motion_write_f, CG_RIGID_MOTION_WRITE_F)(&ffn, &B, &Z, n.p, &t, &fR, &ier, (size_t)n.len); R = fR; }
            else ier = cg_rigid_motion_write(fn, B, Z, eqv(n, 32), t, &R);
            IER(ier); if (!ier) printf(" R=%d", R); NL; }
        OP("rigid_read") { cgint_f B = ti(), Z = ti(), R = ti(), ffn = fn; fout o = fo(ti()); CGNS_ENUMT(RigidGridMotionType_t) t = 0;
            if (MODEF) FMNAME(cg_rigid_motion_read_f, CG_RIGID_MOTION_READ_F)(&ffn, &B, &Z, &R, FP(o), &t, &ier, (size_t)o.len);
            else { char c[33]; ier = cg_rigid_motion_read(fn, B, Z, R, c, &t); if (!ier) fref(o, c); }
            IER(ier); if (!ier) printf(" t=%d", (int)t); pf("name", o); NL; }
        OP("arb_write") { cgint_f B = ti(), Z = ti(), ffn = fn, fA = -1; fstr n = ts(); CGNS_ENUMT(ArbitraryGridMotionType_t) t = (CGNS_ENUMT(ArbitraryGridMotionType_t))ti(); int A = -1;
            if (MODEF) { FMNAME(cg_arbitrary_motion_write_f, CG_ARBITRARY_MOTION_WRITE_F)(&ffn, &B, &Z, n.p, &t, &fA, &ier, (size_t)n.len); A = fA; }
            else ier = cg_arbitrary_motion_write(fn, B, Z, eqv(n, 32), t, &A);
            IER(ier); if (!ier) printf(" A=%d", A); NL; }
        OP("arb_read") { cgint_f B = ti(), Z = ti(), A = ti(), ffn = fn; fout o = fo(ti()); CGNS_ENUMT(ArbitraryGridMotionType_t) t = 0;
            if (MODEF) FMNAME(cg_arbitrary_motion_read_f, CG_ARBITRARY_MOTION_READ_F)(&ffn, &B, &Z, &A, FP(o), &t, &ier, (size_t)o.len);
            else { char c[33]; ier = cg_arbitrary_motion_read(fn, B, Z, A, c, &t); if (!ier) fref(o, c); }
            IER(ier); if (!ier) printf(" t=%d", (int)t); pf("name", o); NL; }
        OP("subreg_bcname_write") { cgint_f B = ti(), Z = ti(), ffn = fn, fS = -1; fstr n = ts(); cgint_f dim = ti(); fstr bc = ts(); int S = -1;
            if (MODEF) { FMNAME(cg_subreg_bcname_write_f, CG_SUBREG_BCNAME_WRITE_F)(&ffn, &B, &Z, n.p, &dim, bc.p, &fS, &ier, (size_t)n.len, (size_t)bc.len); S = fS; }
            else ier = cg_subreg_bcname_write(fn, B, Z, eqv(n, 32), dim, eqv(bc, 8000), &S);
            IER(ier); if (!ier) printf(" S=%d", S); NL; }
        OP("subreg_info") { cgint_f B = ti(), Z = ti(), S = ti(), ffn = fn; fout o = fo(ti()); CGNS_ENUMT(GridLocation_t) loc = 0; CGNS_ENUMT(PointSetType_t) ps = 0; cgsize_t np = 0;
            if (MODEF) { cgint_f dim = -1, bl = -1, gl = -1; FMNAME(cg_subreg_info_f, CG_SUBREG_INFO_F)(&ffn, &B, &Z, &S, FP(o), &dim, &loc, &ps, &np, &bl, &gl, &ier, (size_t)o.len);
                IER(ier); if (!ier) printf(" dim=%d loc=%d ps=%d np=%lld bl=%d gl=%d", (int)dim, (int)loc, (int)ps, (long long)np, (int)bl, (int)gl); }
            else { char c[33]; int dim = -1, bl = -1, gl = -1; ier = cg_subreg_info(fn, B, Z, S, c, &dim, &loc, &ps, &np, &bl, &gl); if (!ier) fref(o, c);
                IER(ier); if (!ier) printf(" dim=%d loc=%d ps=%d np=%lld bl=%d gl=%d", dim, (int)loc, (int)ps, (long long)np, bl, gl); }
            pf("name", o); NL; }
        OP("subreg_bcname_read") { cgint_f B = ti(), Z = ti(), S = ti(), ffn = fn; fout o = fo(ti());
            if (MODEF) FMNAME(cg_subreg_bcname_read_f, CG_SUBREG_BCNAME_READ_F)(&ffn, &B, &Z, &S, FP(o), &ier, (size_t)o.len);
            else { char c[9000]; ier = cg_subreg_bcname_read(fn, B, Z, S, c); if (!ier) fref(o, c); }
            IER(ier); pf("bcname", o); NL; }
        /* ------------------------------------------------------------ goto and node-context calls */
        OP("goto") { int B = ti(); const char *lab = toks[itok++]; int idx = ti();
            if (MODEF) ier = cg_goto_fc1(fn, B, (char *)lab, idx);
            else ier = (!strncmp(lab, "end", 3) || !strncmp(lab, "END", 3)) ? cg_goto(fn, B, "end") : cg_goto(fn, B, lab, idx, "end");
            IER(ier); printf(" open=%d", fn_open); NL; }
        OP("gorel") { const char *lab = toks[itok++]; int idx = ti();
            if (MODEF) ier = cg_gorel_fc1(fn, (char *)lab, idx);
            else ier = (!strncmp(lab, "end", 3) || !strncmp(lab, "END", 3)) ? cg_gorel(fn, "end") : cg_gorel(fn, lab, idx, "end");
            IER(ier); NL; }
        OP("descriptor_write") { fstr n = ts(), t = ts();
            if (MODEF) FMNAME(cg_descriptor_write_f, CG_DESCRIPTOR_WRITE_F)(n.p, t.p, &ier, (size_t)n.len, (size_t)t.len); else ier = cg_descriptor_write(eqv(n, 32), eqv(t, 8900));
            IER(ier); NL; }
        OP("ndescriptors") { cgint_f n = -1; int cn = -1; if (MODEF) cg_ndescriptors_f(&n, &ier); else { ier = cg_ndescriptors(&cn); n = cn; } IER(ier); if (!ier) printf(" n=%d", (int)n); NL; }
        OP("descriptor_size") { cgint_f D = ti(), sz = -1;
            if (MODEF) cg_descriptor_size_f(&D, &sz, &ier); else { char c[33], *t = 0; ier = cg_descriptor_read(D, c, &t); if (!ier) { sz = (cgint_f)strlen(t); cg_free(t); } }
            IER(ier); if (!ier) printf(" size=%d", (int)sz); NL; }
        OP("descriptor_read") { cgint_f D = ti(); fout o = fo(ti()), o2 = fo(ti());
            if (MODEF) FMNAME(cg_descriptor_read_f, CG_DESCRIPTOR_READ_F)(&D, FP(o), FP(o2), &ier, (size_t)o.len, (size_t)o2.len);
            else { char c[33], *t = 0; ier = cg_descriptor_read(D, c, &t); if (!ier) { fref(o, c); fref(o2, t); cg_free(t); } }
            IER(ier); pf("name", o); pf("text", o2); NL; }
        OP("famname_write") { fstr n = ts();
            if (MODEF) FMNAME(cg_famname_write_f, CG_FAMNAME_WRITE_F)(n.p, &ier, (size_t)n.len); else ier = cg_famname_write(eqv(n, 660));
            IER(ier); NL; }
        OP("famname_read") { fout o = fo(ti());
            if (MODEF) FMNAME(cg_famname_read_f, CG_FAMNAME_READ_F)(FP(o), &ier, (size_t)o.len);
            else { char c[700]; ier = cg_famname_read(c); if (!ier) fref(o, c); }
            IER(ier); pf("fam", o); NL; }
        OP("multifam_write") { fstr n = ts(), f = ts();
            if (MODEF) FMNAME(cg_multifam_write_f, CG_MULTIFAM_WRITE_F)(n.p, f.p, &ier, (size_t)n.len, (size_t)f.len); else ier = cg_multifam_write(eqv(n, 32), eqv(f, 660));
            IER(ier); NL; }
        OP("nmultifam") { cgint_f n = -1; int cn = -1; if (MODEF) cg_nmultifam_f(&n, &ier); else { ier = cg_nmultifam(&cn); n = cn; } IER(ier); if (!ier) printf(" n=%d", (int)n); NL; }
        OP("multifam_read") { cgint_f N = ti(); fout o = fo(ti()), o2 = fo(ti());
            if (MODEF) FMNAME(cg_multifam_read_f, CG_MULTIFAM_READ_F)(&N, FP(o), FP(o2), &ier, (size_t)o.len, (size_t)o2.len);
            else { char c[33], f[700]; ier = cg_multifam_read(N, c, f); if (!ier) { fref(o, c); fref(o2, f); } }
            IER(ier); pf("name", o); pf("fam", o2); NL; }
        OP("user_data_write") { fstr n = ts();
            if (MODEF) FMNAME(cg_user_data_write_f, CG_USER_DATA_WRITE_F)(n.p, &ier, (size_t)n.len); else ier = cg_user_data_write(eqv(n, 32));
            IER(ier); NL; }
        OP("nuser_data") { cgint_f n = -1; int cn = -1; if (MODEF) cg_nuser_data_f(&n, &ier); else { ier = cg_nuser_data(&cn); n = cn; } IER(ier); if (!ier) printf(" n=%d", (int)n); NL; }
        OP("user_data_read") { cgint_f i = ti(); fout o = fo(ti());
            if (MODEF) FMNAME(cg_user_data_read_f, CG_USER_DATA_READ_F)(&i, FP(o), &ier, (size_t)o.len);
            else { char c[33]; ier = cg_user_data_read(i, c); if (!ier) fref(o, c); }
            IER(ier); pf("name", o); NL; }
        OP("array_write") { fstr n = ts(); CGNS_ENUMT(DataType_t) ty = CGNS_ENUMV(RealDouble); cgsize_t dim = ti(); cgint_f nd = 1; long i; double *d = (double *)malloc(sizeof(double) * (dim + 1));
            for (i = 0; i < dim; i++) d[i] = 1.0 + i;
            if (MODEF) FMNAME(cg_array_write_f, CG_ARRAY_WRITE_F)(n.p, &ty, &nd, &dim, d, &ier, (size_t)n.len); else ier = cg_array_write(eqv(n, 32), ty, 1, &dim, d);
            IER(ier); NL; free(d); }
        OP("array_read") { cgint_f A = ti(); long dim = ti(); double *d = (double *)calloc(dim + 1, sizeof(double));
            if (MODEF) FMNAME(cg_array_read_f, CG_ARRAY_READ_F)(&A, d, &ier); else ier = cg_array_read(A, d);
            IER(ier); if (!ier) printf(" h=%016llx", fnv(d, sizeof(double) * dim)); NL; free(d); }
        OP("link_write") { fstr n = ts(), f = ts(), p = ts();
            if (MODEF) FMNAME(cg_link_write_f, CG_LINK_WRITE_F)(n.p, f.p, p.p, &ier, (size_t)n.len, (size_t)f.len, (size_t)p.len); else ier = cg_link_write(eqv(n, 32), eqv(f, 1024), eqv(p, 4096));
            IER(ier); NL; }
        OP("is_link") { cgint_f n = -1; int cn = -1; if (MODEF) cg_is_link_f(&n, &ier); else { ier = cg_is_link(&cn); n = cn; } IER(ier); if (!ier) printf(" len=%d", (int)n); NL; }
        OP("link_read") { fout o = fo(ti()), o2 = fo(ti());
            if (MODEF) FMNAME(cg_link_read_f, CG_LINK_READ_F)(FP(o), FP(o2), &ier, (size_t)o.len, (size_t)o2.len);
            else { char *f = 0, *p = 0; ier = cg_link_read(&f, &p); if (!ier) { fref(o, f); fref(o2, p); cg_free(f); cg_free(p); } }
            IER(ier); pf("file", o); pf("path", o2); NL; }
        OP("delete_node") { fstr n = ts();
            if (MODEF) FMNAME(cg_delete_node_f, CG_DELETE_NODE_F)(n.p, &ier, (size_t)n.len); else ier = cg_delete_node(eqv(n, 32));
            IER(ier); NL; }
        OP("state_write") { fstr t = ts();
            if (MODEF) FMNAME(cg_state_write_f, CG_STATE_WRITE_F)(t.p, &ier, (size_t)t.len); else ier = cg_state_write(eqv(t, 8900));
            IER(ier); NL; }
        OP("state_size") { cgint_f sz = -1; if (MODEF) cg_state_size_f(&sz, &ier); else { char *t = 0; ier = cg_state_read(&t); if (!ier) { sz = (cgint_f)strlen(t); cg_free(t); } }
            IER(ier); if (!ier) printf(" size=%d", (int)sz); NL; }
        OP("state_read") { fout o = fo(ti());
            if (MODEF) FMNAME(cg_state_read_f, CG_STATE_READ_F)(FP(o), &ier, (size_t)o.len);
            else { char *t = 0; ier = cg_state_read(&t); if (!ier) { fref(o, t); cg_free(t); } }
            IER(ier); pf("text", o); NL; }
        OP("convergence_write") { cgint_f it = ti(); fstr t = ts();
            if (MODEF) FMNAME(cg_convergence_write_f, CG_CONVERGENCE_WRITE_F)(&it, t.p, &ier, (size_t)t.len); else ier = cg_convergence_write(it, eqv(t, 8900));
            IER(ier); NL; }
        OP("convergence_read") { fout o = fo(ti()); cgint_f it = -1;
            if (MODEF) FMNAME(cg_convergence_read_f, CG_CONVERGENCE_READ_F)(&it, FP(o), &ier, (size_t)o.len);
            else { char *t = 0; int cit = -1; ier = cg_convergence_read(&cit, &t); it = cit; if (!ier) { fref(o, t); cg_free(t); } }
            IER(ier); if (!ier) printf(" it=%d", (int)it); pf("text", o); NL; }
        OP("integral_write") { fstr n = ts();
            if (MODEF) FMNAME(cg_integral_write_f, CG_INTEGRAL_WRITE_F)(n.p, &ier, (size_t)n.len); else ier = cg_integral_write(eqv(n, 32));
            IER(ier); NL; }
        OP("integral_read") { cgint_f i = ti(); fout o = fo(ti());
            if (MODEF) FMNAME(cg_integral_read_f, CG_INTEGRAL_READ_F)(&i, FP(o), &ier, (size_t)o.len);
            else { char c[33]; ier = cg_integral_read(i, c); if (!ier) fref(o, c); }
            IER(ier); pf("name", o); NL; }
        OP("model_write") { fstr n = ts(); CGNS_ENUMT(ModelType_t) t = (CGNS_ENUMT(ModelType_t))ti();
            if (MODEF) FMNAME(cg_model_write_f, CG_MODEL_WRITE_F)(n.p, &t, &ier, (size_t)n.len); else ier = cg_model_write(eqv(n, 32), t);
            IER(ier); NL; }
        OP("model_read") { fstr n = ts(); CGNS_ENUMT(ModelType_t) t = 0;
            if (MODEF) FMNAME(cg_model_read_f, CG_MODEL_READ_F)(n.p, &t, &ier, (size_t)n.len); else ier = cg_model_read(eqv(n, 32), &t);
            IER(ier); if (!ier) printf(" t=%d", (int)t); NL; }
        OP("equationset_write") { cgint_f d = ti(); if (MODEF) cg_equationset_write_f(&d, &ier); else ier = cg_equationset_write(d); IER(ier); NL; }
        OP("dataclass_write") { CGNS_ENUMT(DataClass_t) d = (CGNS_ENUMT(DataClass_t))ti(); if (MODEF) cg_dataclass_write_f(&d, &ier); else ier = cg_dataclass_write(d); IER(ier); NL; }
        OP("dataclass_read") { CGNS_ENUMT(DataClass_t) d = 0; if (MODEF) cg_dataclass_read_f(&d, &ier); else ier = cg_dataclass_read(&d); IER(ier); if (!ier) printf(" v=%d", (int)d); NL; }
        OP("ordinal_write") { cgint_f d = ti(); if (MODEF) cg_ordinal_write_f(&d, &ier); else ier = cg_ordinal_write(d); IER(ier); NL; }
        OP("ordinal_read") { cgint_f d = -1; int cd = -1; if (MODEF) cg_ordinal_read_f(&d, &ier); else { ier = cg_ordinal_read(&cd); d = cd; } IER(ier); if (!ier) printf(" v=%d", (int)d); NL; }
        OP("units_write") { CGNS_ENUMT(MassUnits_t) m = ti(); CGNS_ENUMT(LengthUnits_t) l = ti(); CGNS_ENUMT(TimeUnits_t) t = ti(); CGNS_ENUMT(TemperatureUnits_t) k = ti(); CGNS_ENUMT(AngleUnits_t) a = ti();
            if (MODEF) cg_units_write_f(&m, &l, &t, &k, &a, &ier); else ier = cg_units_write(m, l, t, k, a); IER(ier); NL; }
        OP("units_read") { CGNS_ENUMT(MassUnits_t) m = 0; CGNS_ENUMT(LengthUnits_t) l = 0; CGNS_ENUMT(TimeUnits_t) t = 0; CGNS_ENUMT(TemperatureUnits_t) k = 0; CGNS_ENUMT(AngleUnits_t) a = 0;
            if (MODEF) cg_units_read_f(&m, &l, &t, &k, &a, &ier); else ier = cg_units_read(&m, &l, &t, &k, &a);
            IER(ier); if (!ier) printf(" u=%d,%d,%d,%d,%d", (int)m, (int)l, (int)t, (int)k, (int)a); NL; }
        OP("gridlocation_write") { CGNS_ENUMT(GridLocation_t) g = (CGNS_ENUMT(GridLocation_t))ti(); if (MODEF) cg_gridlocation_write_f(&g, &ier); else ier = cg_gridlocation_write(g); IER(ier); NL; }
        OP("gridlocation_read") { CGNS_ENUMT(GridLocation_t) g = 0; if (MODEF) cg_gridlocation_read_f(&g, &ier); else ier = cg_gridlocation_read(&g); IER(ier); if (!ier) printf(" v=%d", (int)g); NL; }
        OP("rind_write") { cgint_f r[6]; int cr[6], i; for (i = 0; i < 6; i++) cr[i] = r[i] = ti();
            if (MODEF) cg_rind_write_f(r, &ier); else ier = cg_rind_write(cr); IER(ier); NL; }
        OP("rind_read") { cgint_f r[6] = {-1, -1, -1, -1, -1, -1}; int cr[6] = {-1, -1, -1, -1, -1, -1}, i;
            if (MODEF) cg_rind_read_f(r, &ier); else { ier = cg_rind_read(cr); for (i = 0; i < 6; i++) r[i] = cr[i]; }
            IER(ier); if (!ier) printf(" r=%d,%d,%d,%d,%d,%d", (int)r[0], (int)r[1], (int)r[2], (int)r[3], (int)r[4], (int)r[5]); NL; }
        OP("get_error") { fout o = fo(ti());
            if (MODEF) FMNAME(cg_get_error_f, CG_GET_ERROR_F)(FP(o), (size_t)o.len); else fref(o, cg_get_error());
            printf("%s", op); pf("msg", o); NL; }
        /* ------------------------------------------------------------ cgio level */
        OP("io_open") { const char *m = toks[itok++]; int mode = m[0] == 'w' ? CGIO_MODE_WRITE : m[0] == 'm' ? CGIO_MODE_MODIFY : CGIO_MODE_READ; int pad = ti();
            int ft = backend == CG_FILE_HDF5 ? CGIO_FILE_HDF5 : CGIO_FILE_ADF;
            if (MODEF) { int L = (int)strlen(path2) + pad; char *p = (char *)malloc(L ? L : 1); memset(p, ' ', L); memcpy(p, path2, strlen(path2));
                cgint_f fm = mode, fft = ft, num = -1; FMNAME(cgio_open_file_f, CGIO_OPEN_FILE_F)(p, &fm, &fft, &num, &ier, (size_t)L); cgio_n = num; }
            else ier = cgio_open_file(path2, mode, ft, &cgio_n);
            if (!ier) { cgio_get_root_id(cgio_n, &ids[0]); nids = 1; }
            IER(ier); NL; }
        OP("io_close") { cgint_f n = cgio_n; if (MODEF) cgio_close_file_f(&n, &ier); else ier = cgio_close_file(cgio_n); IER(ier); NL; }
        OP("io_create") { int p = ti(); fstr n = ts(); double id = 0; cgint_f num = cgio_n;
            if (MODEF) FMNAME(cgio_create_node_f, CGIO_CREATE_NODE_F)(&num, &ids[p], n.p, &id, &ier, (size_t)n.len); else ier = cgio_create_node(cgio_n, ids[p], eqv(n, 32), &id);
            IER(ier); if (!ier && nids < 64) { ids[nids] = id; printf(" idx=%d", nids++); } NL; }
        OP("io_new") { int p = ti(); fstr n = ts(), l = ts(), dt = ts(); cgsize_t dim = ti(); cgint_f nd = 1, num = cgio_n; double id = 0; int i; int32_t data[64]; for (i = 0; i < 64; i++) data[i] = 100 + i;
            if (MODEF) FMNAME(cgio_new_node_f, CGIO_NEW_NODE_F)(&num, &ids[p], n.p, l.p, dt.p, &nd, &dim, data, &id, &ier, (size_t)n.len, (size_t)l.len, (size_t)dt.len);
            else ier = cgio_new_node(cgio_n, ids[p], eqv(n, 32), eqv(l, 32), eqv(dt, 2), 1, &dim, data, &id);
            IER(ier); if (!ier && nids < 64) { ids[nids] = id; printf(" idx=%d", nids++); } NL; }
        OP("io_get_name") { int i = ti(); fout o = fo(ti()); cgint_f num = cgio_n;
            if (MODEF) FMNAME(cgio_get_name_f, CGIO_GET_NAME_F)(&num, &ids[i], FP(o), &ier, (size_t)o.len); else { char c[33]; ier = cgio_get_name(cgio_n, ids[i], c); if (!ier) fref(o, c); }
            IER(ier); pf("name", o); NL; }
        OP("io_get_label") { int i = ti(); fout o = fo(ti()); cgint_f num = cgio_n;
            if (MODEF) FMNAME(cgio_get_label_f, CGIO_GET_LABEL_F)(&num, &ids[i], FP(o), &ier, (size_t)o.len); else { char c[33]; ier = cgio_get_label(cgio_n, ids[i], c); if (!ier) fref(o, c); }
            IER(ier); pf("label", o); NL; }
        OP("io_get_data_type") { int i = ti(); fout o = fo(ti()); cgint_f num = cgio_n;
            if (MODEF) FMNAME(cgio_get_data_type_f, CGIO_GET_DATA_TYPE_F)(&num, &ids[i], FP(o), &ier, (size_t)o.len); else { char c[33]; ier = cgio_get_data_type(cgio_n, ids[i], c); if (!ier) fref(o, c); }
            IER(ier); pf("dt", o); NL; }
        OP("io_set_name") { int p = ti(), i = ti(); fstr n = ts(); cgint_f num = cgio_n;
            if (MODEF) FMNAME(cgio_set_name_f, CGIO_SET_NAME_F)(&num, &ids[p], &ids[i], n.p, &ier, (size_t)n.len); else ier = cgio_set_name(cgio_n, ids[p], ids[i], eqv(n, 32));
            IER(ier); NL; }
        OP("io_set_label") { int i = ti(); fstr n = ts(); cgint_f num = cgio_n;
            if (MODEF) FMNAME(cgio_set_label_f, CGIO_SET_LABEL_F)(&num, &ids[i], n.p, &ier, (size_t)n.len); else ier = cgio_set_label(cgio_n, ids[i], eqv(n, 32));
            IER(ier); NL; }
        OP("io_get_node_id") { int p = ti(); fstr n = ts(); double id = 0; cgint_f num = cgio_n; int k, found = -1;
            if (MODEF) FMNAME(cgio_get_node_id_f, CGIO_GET_NODE_ID_F)(&num, &ids[p], n.p, &id, &ier, (size_t)n.len); else ier = cgio_get_node_id(cgio_n, ids[p], eqv(n, 4000), &id);
            if (!ier) { char a[33] = "", b[33] = ""; cgio_get_name(cgio_n, id, a); for (k = 0; k < nids; k++) { cgio_get_name(cgio_n, ids[k], b); if (!strcmp(a, b)) found = k; } }
            IER(ier); if (!ier) printf(" idx=%d", found); NL; }
        OP("io_set_dims") { int i = ti(); fstr dt = ts(); cgsize_t dim = ti(); cgint_f nd = 1, num = cgio_n;
            if (MODEF) FMNAME(cgio_set_dimensions_f_0, CGIO_SET_DIMENSIONS_F_0)(&num, &ids[i], dt.p, &nd, &dim, &ier, (size_t)dt.len); else ier = cgio_set_dimensions(cgio_n, ids[i], eqv(dt, 2), 1, &dim);
            IER(ier); NL; }
        OP("io_get_dims") { int i = ti(); cgsize_t dims[12] = {0}; cgint_f nd = -1, num = cgio_n; int cnd = -1;
            if (MODEF) cgio_get_dimensions_f_0(&num, &ids[i], &nd, dims, &ier); else { ier = cgio_get_dimensions(cgio_n, ids[i], &cnd, dims); nd = cnd; }
            IER(ier); if (!ier) printf(" nd=%d d0=%lld", (int)nd, (long long)dims[0]); NL; }
        OP("io_nchildren") { int i = ti(); cgint_f n = -1, num = cgio_n; int cn = -1;
            if (MODEF) cgio_number_children_f(&num, &ids[i], &n, &ier); else { ier = cgio_number_children(cgio_n, ids[i], &cn); n = cn; }
            IER(ier); if (!ier) printf(" n=%d", (int)n); NL; }
        OP("io_children_names") { int i = ti(); cgint_f st = ti(), mx = ti(), nl = ti(), nr = -1, num = cgio_n; fout o = fo((int)(mx * nl)); int k;
            if (MODEF) FMNAME(cgio_children_names_f, CGIO_CHILDREN_NAMES_F)(&num, &ids[i], &st, &mx, &nl, &nr, FP(o), &ier, (size_t)1);
            else { char *c = (char *)calloc(mx + 1, 33); int cnr = -1; ier = cgio_children_names(cgio_n, ids[i], st, mx, 33, &cnr, c); nr = cnr;
                if (!ier) for (k = 0; k < cnr; k++) { fout e; e.len = nl; e.a = o.a + nl * k; fref(e, c + 33 * k); } }
            IER(ier); if (!ier) printf(" nr=%d", (int)nr); pf("names", o); NL; }
        OP("io_create_link") { int p = ti(); fstr n = ts(), f = ts(), l = ts(); double id = 0; cgint_f num = cgio_n;
            if (MODEF) FMNAME(cgio_create_link_f, CGIO_CREATE_LINK_F)(&num, &ids[p], n.p, f.p, l.p, &id, &ier, (size_t)n.len, (size_t)f.len, (size_t)l.len);
            /* contract of the cgio wrappers (new_c_string): an empty / blank link path is rejected with
               CGIO_ERR_NULL_STRING before the library is called; an empty file name means "this file" */
            else if (!*eqv(l, 8000)) ier = CGIO_ERR_NULL_STRING;
            else ier = cgio_create_link(cgio_n, ids[p], eqv(n, 32), eqv(f, 8000), eqv(l, 8000), &id);
            IER(ier); if (!ier && nids < 64) { ids[nids] = id; printf(" idx=%d", nids++); } NL; }
        OP("io_is_link") { int i = ti(); cgint_f n = -1, num = cgio_n; int cn = -1;
            if (MODEF) cgio_is_link_f(&num, &ids[i], &n, &ier); else { ier = cgio_is_link(cgio_n, ids[i], &cn); n = cn; } IER(ier); if (!ier) printf(" len=%d", (int)n); NL; }
        OP("io_link_size") { int i = ti(); cgint_f a = -1, b = -1, num = cgio_n; int ca = -1, cb = -1;
            if (MODEF) cgio_link_size_f(&num, &ids[i], &a, &b, &ier); else { ier = cgio_link_size(cgio_n, ids[i], &ca, &cb); a = ca; b = cb; } IER(ier); if (!ier) printf(" fl=%d nl=%d", (int)a, (int)b); NL; }
        OP("io_get_link") { int i = ti(); fout o = fo(ti()), o2 = fo(ti()); cgint_f num = cgio_n;
            if (MODEF) FMNAME(cgio_get_link_f, CGIO_GET_LINK_F)(&num, &ids[i], FP(o), FP(o2), &ier, (size_t)o.len, (size_t)o2.len);
            else { char f[CGIO_MAX_FILE_LENGTH + 1], l[CGIO_MAX_LINK_LENGTH + 1]; ier = cgio_get_link(cgio_n, ids[i], f, l); if (!ier) { fref(o, f); fref(o2, l); } }
            IER(ier); pf("file", o); pf("path", o2); NL; }
        OP("io_write_all") { int i = ti(); int32_t data[64]; int k; cgint_f num = cgio_n; for (k = 0; k < 64; k++) data[k] = 7 * k + i;
            if (MODEF) FMNAME(cgio_write_all_data_f, CGIO_WRITE_ALL_DATA_F)(&num, &ids[i], data, &ier); else ier = cgio_write_all_data(cgio_n, ids[i], data);
            IER(ier); NL; }
        OP("io_read_all") { int i = ti(); fstr dt = ts(); int n = ti(); int32_t data[80]; cgint_f num = cgio_n; memset(data, 0, sizeof data);
            if (MODEF) FMNAME(cgio_read_all_data_type_f, CGIO_READ_ALL_DATA_TYPE_F)(&num, &ids[i], dt.p, data, &ier, (size_t)dt.len); else ier = cgio_read_all_data_type(cgio_n, ids[i], eqv(dt, 2), data);
            IER(ier); if (!ier) printf(" h=%016llx", fnv(data, 4 * (size_t)(n < 64 ? n : 64))); NL; }
        OP("io_delete") { int p = ti(), i = ti(); cgint_f num = cgio_n;
            if (MODEF) cgio_delete_node_f(&num, &ids[p], &ids[i], &ier); else ier = cgio_delete_node(cgio_n, ids[p], ids[i]); IER(ier); NL; }
        OP("io_error_message") { fout o = fo(ti());
            if (MODEF) FMNAME(cgio_error_message_f, CGIO_ERROR_MESSAGE_F)(FP(o), &ier, (size_t)o.len); else { char c[CGIO_MAX_ERROR_LENGTH + 1]; ier = cgio_error_message(c); if (!ier) fref(o, c); }
            IER(ier); pf("msg", o); NL; }
        OP("io_library_version") { fout o = fo(ti()); cgint_f num = cgio_n;
            if (MODEF) FMNAME(cgio_library_version_f, CGIO_LIBRARY_VERSION_F)(&num, FP(o), &ier, (size_t)o.len); else { char c[CGIO_MAX_VERSION_LENGTH + 1]; ier = cgio_library_version(cgio_n, c); if (!ier) fref(o, c); }
            IER(ier); pf("ver", o); NL; }
        OP("io_check_file") { int pad = ti(); cgint_f ft = -1; int cft = -1;
            if (MODEF) { int L = (int)strlen(path2) + pad; char *p = (char *)malloc(L ? L : 1); memset(p, ' ', L); memcpy(p, path2, strlen(path2));
                FMNAME(cgio_check_file_f, CGIO_CHECK_FILE_F)(p, &ft, &ier, (size_t)L); }
            else { ier = cgio_check_file(path2, &cft); ft = cft; }
            IER(ier); if (!ier) printf(" ft=%d", (int)ft); NL; }
        else printf("badop %s\n", op);
        fflush(stdout);
    }
    return 0;
}
