! c20f_mll1.f90 -- mid-level-library operations of the Fortran driver, part 1 (file, base, zone, coordinates, sections,
! solutions, fields, boundary conditions).  Every operation mirrors the `f` branch of the same operation in
! harness/c20_wrap.c: same arguments, same canonical output line.
module c20f_mll1
  use c20f_m
  implicit none
contains

  subroutine op_open()
    character(len=:), allocatable :: m
    integer :: ier, mode, newfn, ft
    m = tw()
    mode = CG_MODE_READ
    if (m(1:1) == 'w') mode = CG_MODE_WRITE
    if (m(1:1) == 'm') mode = CG_MODE_MODIFY
    ft = CG_FILE_ADF
    if (backend == 1) ft = CG_FILE_HDF5
    call cg_set_file_type_f(ft, ier)
    newfn = fn
    call cg_open_f(trim(path1), mode, newfn, ier)
    fn = newfn                      ! as the C harness: whatever the library stored (cg_open stores the number early)
    if (ier == 0) fn_open = 1
    call ier_out(ier); call nl()
  end subroutine

  ! a SECOND file open at the same time (<file>.B): open2 / close2 act on the other handle, swap exchanges the two
  ! handles, so that every other operation can be given the handle of the file that does NOT hold the position
  subroutine op_open2()
    character(len=:), allocatable :: m
    integer :: ier, mode, newfn, ft
    m = tw()
    mode = CG_MODE_READ
    if (m(1:1) == 'w') mode = CG_MODE_WRITE
    if (m(1:1) == 'm') mode = CG_MODE_MODIFY
    ft = CG_FILE_ADF
    if (backend == 1) ft = CG_FILE_HDF5
    call cg_set_file_type_f(ft, ier)
    newfn = fn2
    call cg_open_f(trim(path1) // '.B', mode, newfn, ier)
    fn2 = newfn
    if (ier == 0) fn2_open = 1
    call ier_out(ier); call nl()
  end subroutine

  subroutine op_close2()
    integer :: ier
    call cg_close_f(fn2, ier)
    if (ier == 0) fn2_open = 0
    call ier_out(ier); call nl()
  end subroutine

  subroutine op_swap()
    integer :: t
    t = fn; fn = fn2; fn2 = t
    t = fn_open; fn_open = fn2_open; fn2_open = t
    call emit('swap'); call nl()
  end subroutine

  subroutine op_close()
    integer :: ier
    call cg_close_f(fn, ier)
    if (ier == 0) fn_open = 0
    call ier_out(ier); call nl()
  end subroutine

  subroutine op_base()
    type(fstr) :: n
    integer :: cd, pd, B, ier
    call ts(n); cd = int(ti()); pd = int(ti()); B = 0
    call cg_base_write_f(fn, n%p, cd, pd, B, ier)
    if (ier /= 0) B = 0
    call ier_out(ier); call kv('B', int(B, 8)); call nl()
  end subroutine

  subroutine op_zone()
    type(fstr) :: n
    integer :: B, Z, ier
    integer(8) :: m
    character(len=:), allocatable :: k
    integer(cgsize_t) :: sz(9)
    integer(cgenum_t) :: zt
    call ts(n); B = int(ti()); k = tw(); m = ti(); Z = 0
    if (k(1:1) == 's') then
      sz(1:3) = m; sz(4:6) = m - 1; sz(7:9) = 0; zt = Structured
    else
      sz = 0; sz(1) = m; sz(2) = m / 2; sz(3) = 0; zt = Unstructured
    end if
    call cg_zone_write_f(fn, B, n%p, sz, zt, Z, ier)
    if (ier /= 0) Z = 0
    call ier_out(ier); call kv('Z', int(Z, 8)); call nl()
  end subroutine

  subroutine op_zone2()
    type(fstr) :: n
    integer :: B, Z, ier
    integer(8) :: m
    integer(cgsize_t) :: sz(6)
    integer(cgenum_t) :: zt
    call ts(n); B = int(ti()); m = ti(); Z = 0
    sz(1:2) = m; sz(3:4) = m - 1; sz(5:6) = 0; zt = Structured
    call cg_zone_write_f(fn, B, n%p, sz, zt, Z, ier)
    if (ier /= 0) Z = 0
    call ier_out(ier); call kv('Z', int(Z, 8)); call nl()
  end subroutine

  ! ------------------------------------------------------------------ coordinates
  subroutine op_coord_write()
    type(fstr) :: n
    integer :: B, Z, C, ier, i
    integer(cgenum_t) :: ty
    B = int(ti()); Z = int(ti()); ty = int(ti(), cgenum_t); call ts(n); C = -1
    if (ty == RealSingle) then
      do i = 0, 4095
        fbuf(i + 1) = real(i * 0.5d0, c_float)
      end do
      dbuf(1:2048) = transfer(fbuf(1:4096), 1.0d0, 2048)
    else
      do i = 0, 4095
        dbuf(i + 1) = i * 0.25d0 + n%n
      end do
    end if
    call cg_coord_write_f(fn, B, Z, ty, n%p, dbuf, C, ier)
    call ier_out(ier); if (ier == 0) call kv('C', int(C, 8)); call nl()
  end subroutine

  subroutine op_coord_read()
    type(fstr) :: n
    integer :: B, Z, ier
    integer(8) :: m
    integer(cgsize_t) :: lo(3), hi(3)
    integer(cgenum_t) :: ty
    B = int(ti()); Z = int(ti()); call ts(n); m = ti()
    lo = 1; hi = m; ty = RealDouble; dbuf = 0.0d0
    call cg_coord_read_f(fn, B, Z, n%p, ty, lo, hi, dbuf, ier)
    call ier_out(ier); if (ier == 0) call emit_h64('h', c20f_fnv(c_loc(dbuf), int(8 * 4096, c_size_t))); call nl()
  end subroutine

  ! ------------------------------------------------------------------ element sections
  subroutine op_section_write()
    type(fstr) :: n
    integer :: B, Z, S, ier, nb
    integer(cgenum_t) :: et
    integer(cgsize_t) :: st, en
    integer(cgsize_t), allocatable :: e(:)
    integer(8) :: cnt, i
    B = int(ti()); Z = int(ti()); call ts(n); et = int(ti(), cgenum_t); st = ti(); en = ti(); nb = int(ti()); S = -1
    cnt = 0
    if (en >= st) cnt = (en - st + 1) * 4
    allocate(e(cnt + 4))
    e = 0
    do i = 0, cnt - 1
      e(i + 1) = 1 + mod(i, 4_8)
    end do
    call cg_section_write_f(fn, B, Z, n%p, et, st, en, nb, e, S, ier)
    call ier_out(ier); if (ier == 0) call kv('S', int(S, 8)); call nl()
  end subroutine

  subroutine op_section_read()
    type(fout) :: o
    integer :: B, Z, E, ier, nb, pfl
    integer(cgenum_t) :: et
    integer(cgsize_t) :: st, en
    B = int(ti()); Z = int(ti()); E = int(ti()); call fo(o, int(ti()))
    et = 0; st = 0; en = 0; nb = -1; pfl = -1
    call cg_section_read_f(fn, B, Z, E, o%a(GUARD + 1:GUARD + o%n), et, st, en, nb, pfl, ier)
    call ier_out(ier)
    if (ier == 0) then
      call kv('t', int(et, 8)); call kv('s', int(st, 8)); call kv('e', int(en, 8)); call kv('nb', int(nb, 8)); call kv('pf', int(pfl, 8))
    end if
    call pf('name', o); call nl()
  end subroutine

  ! ------------------------------------------------------------------ solutions and fields
  subroutine op_nsols()
    integer :: B, Z, n, ier
    B = int(ti()); Z = int(ti()); n = -1
    call cg_nsols_f(fn, B, Z, n, ier)
    call ier_out(ier); if (ier == 0) call kv('n', int(n, 8)); call nl()
  end subroutine

  subroutine op_sol_write()
    type(fstr) :: n
    integer :: B, Z, S, ier
    integer(cgenum_t) :: loc
    B = int(ti()); Z = int(ti()); call ts(n); loc = int(ti(), cgenum_t); S = -1
    call cg_sol_write_f(fn, B, Z, n%p, loc, S, ier)
    call ier_out(ier); if (ier == 0) call kv('S', int(S, 8)); call nl()
  end subroutine

  subroutine op_sol_info()
    type(fout) :: o
    integer :: B, Z, S, ier
    integer(cgenum_t) :: loc
    B = int(ti()); Z = int(ti()); S = int(ti()); call fo(o, int(ti())); loc = 0
    call cg_sol_info_f(fn, B, Z, S, o%a(GUARD + 1:GUARD + o%n), loc, ier)
    call ier_out(ier); if (ier == 0) call kv('loc', int(loc, 8)); call pf('name', o); call nl()
  end subroutine

  subroutine op_nfields()
    integer :: B, Z, S, n, ier
    B = int(ti()); Z = int(ti()); S = int(ti()); n = -1
    call cg_nfields_f(fn, B, Z, S, n, ier)
    call ier_out(ier); if (ier == 0) call kv('n', int(n, 8)); call nl()
  end subroutine

  subroutine op_field_write()
    type(fstr) :: n
    integer :: B, Z, S, F, ier, i
    integer(cgenum_t) :: ty
    integer(8) :: dummy
    B = int(ti()); Z = int(ti()); S = int(ti()); ty = int(ti(), cgenum_t); call ts(n); dummy = ti(); F = -1
    do i = 0, 4095
      dbuf(i + 1) = i + 0.5d0 * n%n
    end do
    call cg_field_write_f(fn, B, Z, S, ty, n%p, dbuf, F, ier)
    call ier_out(ier); if (ier == 0) call kv('F', int(F, 8)); call nl()
  end subroutine

  subroutine op_field_info()
    type(fout) :: o
    integer :: B, Z, S, F, ier
    integer(cgenum_t) :: ty
    B = int(ti()); Z = int(ti()); S = int(ti()); F = int(ti()); call fo(o, int(ti())); ty = 0
    call cg_field_info_f(fn, B, Z, S, F, ty, o%a(GUARD + 1:GUARD + o%n), ier)
    call ier_out(ier); if (ier == 0) call kv('t', int(ty, 8)); call pf('name', o); call nl()
  end subroutine

  subroutine op_field_read()
    type(fstr) :: n
    integer :: B, Z, S, ier
    integer(8) :: m
    integer(cgsize_t) :: lo(3), hi(3)
    integer(cgenum_t) :: ty
    B = int(ti()); Z = int(ti()); S = int(ti()); call ts(n); m = ti()
    lo = 1; hi = m; ty = RealDouble; dbuf = 0.0d0
    call cg_field_read_f(fn, B, Z, S, n%p, ty, lo, hi, dbuf, ier)
    call ier_out(ier); if (ier == 0) call emit_h64('h', c20f_fnv(c_loc(dbuf), int(8 * 4096, c_size_t))); call nl()
  end subroutine

  ! ------------------------------------------------------------------ boundary conditions
  subroutine op_nbocos()
    integer :: B, Z, n, ier
    B = int(ti()); Z = int(ti()); n = -1
    call cg_nbocos_f(fn, B, Z, n, ier)
    call ier_out(ier); if (ier == 0) call kv('n', int(n, 8)); call nl()
  end subroutine

  subroutine op_boco_write()
    type(fstr) :: n
    integer :: B, Z, BC, ier, i
    integer(cgenum_t) :: bt, ps
    integer(cgsize_t) :: np, pts(64)
    B = int(ti()); Z = int(ti()); call ts(n); bt = int(ti(), cgenum_t); np = ti(); BC = -1; ps = PointList
    do i = 1, 64
      pts(i) = i
    end do
    call cg_boco_write_f(fn, B, Z, n%p, bt, ps, np, pts, BC, ier)
    call ier_out(ier); if (ier == 0) call kv('BC', int(BC, 8)); call nl()
  end subroutine

  subroutine op_boco_info()
    type(fout) :: o
    integer :: B, Z, BC, ier, ni(3), nds
    integer(cgenum_t) :: bt, ps, ndt
    integer(cgsize_t) :: np, nls
    B = int(ti()); Z = int(ti()); BC = int(ti()); call fo(o, int(ti()))
    bt = 0; ps = 0; ndt = 0; np = 0; nls = 0; ni = -7; nds = -1
    call cg_boco_info_f(fn, B, Z, BC, o%a(GUARD + 1:GUARD + o%n), bt, ps, np, ni, nls, ndt, nds, ier)
    call ier_out(ier)
    if (ier == 0) then
      call kv('bt', int(bt, 8)); call kv('ps', int(ps, 8)); call kv('np', int(np, 8))
      call kv('ni', int(ni(1), 8)); call emit(','); call emit_i(int(ni(2), 8)); call emit(','); call emit_i(int(ni(3), 8))
      call kv('nls', int(nls, 8)); call kv('ndt', int(ndt, 8)); call kv('nds', int(nds, 8))
    end if
    call pf('name', o); call nl()
  end subroutine

  subroutine op_dataset_write()
    type(fstr) :: n
    integer :: B, Z, BC, D, ier
    integer(cgenum_t) :: bt
    B = int(ti()); Z = int(ti()); BC = int(ti()); call ts(n); bt = int(ti(), cgenum_t); D = -1
    call cg_dataset_write_f(fn, B, Z, BC, n%p, bt, D, ier)
    call ier_out(ier); if (ier == 0) call kv('D', int(D, 8)); call nl()
  end subroutine

  subroutine op_dataset_read()
    type(fout) :: o
    integer :: B, Z, BC, DS, ier, df, nf
    integer(cgenum_t) :: bt
    B = int(ti()); Z = int(ti()); BC = int(ti()); DS = int(ti()); call fo(o, int(ti())); bt = 0; df = -1; nf = -1
    call cg_dataset_read_f(fn, B, Z, BC, DS, o%a(GUARD + 1:GUARD + o%n), bt, df, nf, ier)
    call ier_out(ier)
    if (ier == 0) then
      call kv('bt', int(bt, 8)); call kv('d', int(df, 8)); call kv('n', int(nf, 8))
    end if
    call pf('name', o); call nl()
  end subroutine

  subroutine op_bc_area_write()
    type(fstr) :: n
    integer :: B, Z, BC, ier
    integer(cgenum_t) :: at
    real(c_float) :: area
    B = int(ti()); Z = int(ti()); BC = int(ti()); at = int(ti(), cgenum_t); call ts(n); area = 2.5
    call cg_bc_area_write_f(fn, B, Z, BC, at, area, n%p, ier)
    call ier_out(ier); call nl()
  end subroutine

  subroutine op_bc_area_read()
    type(fout) :: o
    integer :: B, Z, BC, ier
    integer(cgenum_t) :: at
    real(c_float) :: area
    B = int(ti()); Z = int(ti()); BC = int(ti()); call fo(o, int(ti())); at = 0; area = 0
    call cg_bc_area_read_f(fn, B, Z, BC, at, area, o%a(GUARD + 1:GUARD + o%n), ier)
    call ier_out(ier)
    if (ier == 0) then
      call kv('at', int(at, 8)); call emit_h32('area', transfer(area, 0_c_int32_t))
    end if
    call pf('name', o); call nl()
  end subroutine
end module c20f_mll1
