/* c08_mll.c -- mid-level tier of C08: cg_link_write / cg_is_link / cg_link_read, entity reads of linked subtrees after a
   reopen, cg_set_path / cg_add_path / cg_configure(CG_CONFIG_SET_PATH | CG_CONFIG_ADD_PATH) and the environment variables.
   Line-oriented script on stdin (strings in hex, '-' = empty), one canonical line per operation; doubles are printed
   as bit patterns.  Every operation runs under alarm(): a hang prints "hang" and exits 97. */
#include <stdio.h>
#include <stdlib.h>
#include <string.h>
#include <unistd.h>
#include <signal.h>
#include "cgnslib.h"

static char curop[64];
static void on_alarm(int s) { (void)s; printf("hang %s\n", curop); fflush(stdout); _exit(97); }
static size_t unhex(const char *s, char *out) {
    size_t n = 0;
    if (s[0] == '-' && s[1] == 0) { out[0] = 0; return 0; }
    while (s[0] && s[1]) { unsigned v; sscanf(s, "%2x", &v); out[n++] = (char)v; s += 2; }
    out[n] = 0;
    return n;
}
static void hexout(const unsigned char *b, size_t n) { if (!n) printf("-"); for (size_t i = 0; i < n; i++) printf("%02x", b[i]); }
static void hexstr(const char *s) { hexout((const unsigned char *)s, strlen(s)); }
#define MAXH 8
static int FN[MAXH], OPEN[MAXH];
#define ERR() do { printf("err %s\n", "cg"); goto next; } while (0)

static double val(unsigned seed, int z, int c, int i) { return (double)((seed * 2654435761u + z * 40503u + c * 977u + i * 31u) % 100003u) / 7.0; }

static int mkfile(const char *path, int nz, unsigned seed, int with_coords, int with_sol) {
    int fn, B, Z, G, S, F, C; cgsize_t size[9] = {3, 3, 3, 2, 2, 2, 0, 0, 0}; double buf[27]; char nm[40];
    unlink(path);
    if (cg_open(path, CG_MODE_WRITE, &fn)) return 1;
    if (cg_base_write(fn, "Base", 3, 3, &B)) return 1;
    for (int z = 1; z <= nz; z++) {
        sprintf(nm, "Zone%d", z);
        if (cg_zone_write(fn, B, nm, size, CGNS_ENUMV(Structured), &Z)) return 1;
        if (with_coords) {
            static const char *cn[3] = {"CoordinateX", "CoordinateY", "CoordinateZ"};
            for (int c = 0; c < 3; c++) {
                for (int i = 0; i < 27; i++) buf[i] = val(seed, z, c, i);
                if (cg_coord_write(fn, B, Z, CGNS_ENUMV(RealDouble), cn[c], buf, &C)) return 1;
            }
        }
        if (with_sol) {
            if (cg_sol_write(fn, B, Z, "Sol", CGNS_ENUMV(Vertex), &S)) return 1;
            for (int i = 0; i < 27; i++) buf[i] = val(seed, z, 7, i);
            if (cg_field_write(fn, B, Z, S, CGNS_ENUMV(RealDouble), "Density", buf, &F)) return 1;
        }
    }
    (void)G;
    return cg_close(fn);
}

int main(void) {
    static char line[70000], a[5][16000], b[5][8000];
    int h, B, Z;
    signal(SIGALRM, on_alarm);
    while (fgets(line, sizeof line, stdin)) {
        char cmd[32]; cmd[0] = 0; sscanf(line, "%31s", cmd);
        snprintf(curop, sizeof curop, "%.60s", line); for (char *q = curop; *q; q++) if (*q == '\n') *q = 0;
        alarm(30);
        if (!strcmp(cmd, "ftype")) {
            sscanf(line, "%*s %s", a[0]);
            printf(cg_set_file_type(!strcmp(a[0], "hdf5") ? CG_FILE_HDF5 : CG_FILE_ADF) ? "err cg\n" : "ok\n");
        } else if (!strcmp(cmd, "setenv")) {
            char nm[64]; sscanf(line, "%*s %63s %s", nm, a[0]);
            if (a[0][0] == '-' && !a[0][1]) unsetenv(nm); else { unhex(a[0], b[0]); setenv(nm, b[0], 1); }
            printf("ok\n");
        } else if (!strcmp(cmd, "setpath") || !strcmp(cmd, "addpath") || !strcmp(cmd, "cfgset") || !strcmp(cmd, "cfgadd")) {
            sscanf(line, "%*s %s", a[0]); unhex(a[0], b[0]);
            int e = !strcmp(cmd, "setpath") ? cg_set_path(b[0]) : !strcmp(cmd, "addpath") ? cg_add_path(b[0]) :
                    !strcmp(cmd, "cfgset") ? cg_configure(CG_CONFIG_SET_PATH, b[0]) : cg_configure(CG_CONFIG_ADD_PATH, b[0]);
            printf(e ? "err cg\n" : "ok\n");
        } else if (!strcmp(cmd, "mkfile")) {
            int nz, wc, ws; unsigned seed; sscanf(line, "%*s %s %d %u %d %d", a[0], &nz, &seed, &wc, &ws); unhex(a[0], b[0]);
            printf(mkfile(b[0], nz, seed, wc, ws) ? "err cg\n" : "ok\n");
        } else if (!strcmp(cmd, "dbg")) {
            if (getenv("C08_DBG")) {      /* development aid: which descriptors are open (stderr only) */
                char lk[64], tg[600];
                for (int fd = 3; fd < 64; fd++) { snprintf(lk, sizeof lk, "/proc/self/fd/%d", fd); ssize_t k = readlink(lk, tg, sizeof tg - 1); if (k > 0) { tg[k] = 0; fprintf(stderr, "fd %d -> %s\n", fd, tg); } }
                fprintf(stderr, "--\n");
            }
            printf("ok\n");
        } else if (!strcmp(cmd, "unlinkf")) {
            sscanf(line, "%*s %s", a[0]); unhex(a[0], b[0]); printf(unlink(b[0]) ? "err cg\n" : "ok\n");
        } else if (!strcmp(cmd, "open")) {
            char md[8]; sscanf(line, "%*s %d %s %7s", &h, a[0], md); unhex(a[0], b[0]);
            int m = md[0] == 'w' ? CG_MODE_WRITE : md[0] == 'm' ? CG_MODE_MODIFY : CG_MODE_READ;
            if (h < 0 || h >= MAXH || OPEN[h] || cg_open(b[0], m, &FN[h])) { if (getenv("C08_DBG")) fprintf(stderr, "cg_open: %s\n", cg_get_error()); printf("err open\n"); } else { OPEN[h] = 1; printf("ok\n"); }
        } else if (!strcmp(cmd, "close")) {
            sscanf(line, "%*s %d", &h);
            if (h < 0 || h >= MAXH || !OPEN[h]) { printf("err cg\n"); continue; }
            OPEN[h] = 0; printf(cg_close(FN[h]) ? "err cg\n" : "ok\n");
        } else if (!strcmp(cmd, "linkw")) {
            sscanf(line, "%*s %d %s %s %s %s", &h, a[0], a[1], a[2], a[3]);
            if (h < 0 || h >= MAXH || !OPEN[h]) { printf("err cg\n"); continue; }
            unhex(a[0], b[0]); unhex(a[1], b[1]); unhex(a[2], b[2]); unhex(a[3], b[3]);
            if (cg_gopath(FN[h], b[0]) || cg_link_write(b[1], b[2], b[3])) printf("err cg\n"); else printf("ok\n");
        } else if (!strcmp(cmd, "islink")) {
            int len; sscanf(line, "%*s %d %s", &h, a[0]); unhex(a[0], b[0]);
            if (h < 0 || h >= MAXH || !OPEN[h] || cg_gopath(FN[h], b[0]) || cg_is_link(&len)) printf("err cg\n"); else printf("ok %d\n", len > 0);
        } else if (!strcmp(cmd, "linkr")) {
            char *fl = 0, *pa = 0; sscanf(line, "%*s %d %s", &h, a[0]); unhex(a[0], b[0]);
            if (h < 0 || h >= MAXH || !OPEN[h] || cg_gopath(FN[h], b[0]) || cg_link_read(&fl, &pa)) printf("err cg\n");
            else { printf("ok L:"); hexstr(fl); printf(":"); hexstr(pa); printf("\n"); cg_free(fl); cg_free(pa); }
        } else if (!strcmp(cmd, "nzones")) {
            int n; sscanf(line, "%*s %d %d", &h, &B);
            if (h < 0 || h >= MAXH || !OPEN[h] || cg_nzones(FN[h], B, &n)) printf("err cg\n"); else printf("ok %d\n", n);
        } else if (!strcmp(cmd, "zone")) {
            char nm[40]; cgsize_t sz[9]; CGNS_ENUMT(ZoneType_t) zt; sscanf(line, "%*s %d %d %d", &h, &B, &Z);
            if (h < 0 || h >= MAXH || !OPEN[h] || cg_zone_read(FN[h], B, Z, nm, sz) || cg_zone_type(FN[h], B, Z, &zt)) printf("err cg\n");
            else { printf("ok Z:"); hexstr(nm); printf(":%d", (int)zt); for (int i = 0; i < 9; i++) printf(":%lld", (long long)sz[i]); printf("\n"); }
        } else if (!strcmp(cmd, "coords")) {
            int n; sscanf(line, "%*s %d %d %d", &h, &B, &Z);
            if (h < 0 || h >= MAXH || !OPEN[h] || cg_ncoords(FN[h], B, Z, &n)) { printf("err cg\n"); continue; }
            cgsize_t lo[3] = {1, 1, 1}, hi[3] = {3, 3, 3}; double buf[27]; int bad = 0;
            static char out[20000]; out[0] = 0; char *o = out;
            o += sprintf(o, "ok C:%d", n);
            for (int c = 1; c <= n && !bad; c++) {
                CGNS_ENUMT(DataType_t) dt; char nm[40];
                if (cg_coord_info(FN[h], B, Z, c, &dt, nm) || cg_coord_read(FN[h], B, Z, nm, CGNS_ENUMV(RealDouble), lo, hi, buf)) { bad = 1; break; }
                o += sprintf(o, ":%s/%d=", nm, (int)dt);
                for (size_t i = 0; i < sizeof buf; i++) o += sprintf(o, "%02x", ((unsigned char *)buf)[i]);
            }
            if (bad) printf("err cg\n"); else printf("%s\n", out);
        } else if (!strcmp(cmd, "sol")) {
            int n; sscanf(line, "%*s %d %d %d", &h, &B, &Z);
            if (h < 0 || h >= MAXH || !OPEN[h] || cg_nsols(FN[h], B, Z, &n)) { printf("err cg\n"); continue; }
            cgsize_t lo[3] = {1, 1, 1}, hi[3] = {3, 3, 3}; double buf[27]; int bad = 0;
            static char out[40000]; char *o = out;
            o += sprintf(o, "ok S:%d", n);
            for (int s = 1; s <= n && !bad; s++) {
                char nm[40]; CGNS_ENUMT(GridLocation_t) loc; int nf;
                if (cg_sol_info(FN[h], B, Z, s, nm, &loc) || cg_nfields(FN[h], B, Z, s, &nf)) { bad = 1; break; }
                o += sprintf(o, ":%s/%d/%d", nm, (int)loc, nf);
                for (int f = 1; f <= nf; f++) {
                    CGNS_ENUMT(DataType_t) dt; char fnm[40];
                    if (cg_field_info(FN[h], B, Z, s, f, &dt, fnm) || cg_field_read(FN[h], B, Z, s, fnm, CGNS_ENUMV(RealDouble), lo, hi, buf)) { bad = 1; break; }
                    o += sprintf(o, ",%s=", fnm);
                    for (size_t i = 0; i < sizeof buf; i++) o += sprintf(o, "%02x", ((unsigned char *)buf)[i]);
                }
            }
            if (bad) printf("err cg\n"); else printf("%s\n", out);
        } else if (!strcmp(cmd, "delnode")) {
            sscanf(line, "%*s %d %s %s", &h, a[0], a[1]); unhex(a[0], b[0]); unhex(a[1], b[1]);
            if (h < 0 || h >= MAXH || !OPEN[h] || cg_gopath(FN[h], b[0]) || cg_delete_node(b[1])) printf("err cg\n"); else printf("ok\n");
        } else if (line[0] == '\n' || line[0] == '#') ;
        else printf("badline %s", line);
        fflush(stdout);
    }
    alarm(60);
    for (h = 0; h < MAXH; h++) if (OPEN[h]) cg_close(FN[h]);
    return 0;
}
