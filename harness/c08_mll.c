/* c08_mll.c -- mid-level tier of C08: cg_link_write / cg_is_link / cg_link_read, entity reads of linked subtrees after a
   reopen, cg_set_path / cg_add_path / cg_configure(CG_CONFIG_SET_PATH | CG_CONFIG_ADD_PATH) and the environment variables.
   Line-oriented script on stdin (strings in hex, '-' = empty), one canonical line per operation; doubles are printed
   as bit patterns.  Every operation runs under alarm(): a hang prints "hang" and exits 97. */
#include <stdio.h>
#include <stdlib.h>
#include <string.h>
#include <unistd.h>
#include <signal.h>
#include "cgnslib.h"

static char curop[64];
static void on_alarm(int s) { (void)s; printf("hang %s\n", curop); fflush(stdout); _exit(97); }
static size_t unhex(const char *s, char *out) {
    size_t n = 0;
    if (s[0] == '-' && s[1] == 0) { out[0] = 0; return 0; }
    while (s[0] && s[1]) { unsigned v; sscanf(s, "%2x", &v); out[n++] = (char)v; s += 2; }
    out[n] = 0;
    return n;
}
static void hexout(const unsigned char *b, size_t n) { if (!n) printf("-"); for (size_t i = 0; i < n; i++) printf("%02x", b[i]); }
static void hexstr(const char *s) { hexout((const unsigned char *)s, strlen(s)); }
#define MAXH 8
static int FN[MAXH], OPEN[MAXH];
#define ERR() do { printf("err %s\n", "cg"); goto next; } while (0)

static double val(unsigned seed, int z, int c, int i) { return (double)((seed * 2654435761u + z * 40503u + c * 977u + i * 31u) % 100003u) / 7.0; }

static int mkfile(const char *path, int nz, unsigned seed, int with_coords, int with_sol) {
    int fn, B, Z, G, S, F, C; cgsize_t size[9] = {3, 3, 3, 2, 2, 2, 0, 0, 0}; double buf[27]; char nm[40];
    unlink(path);
    if (cg_open(path, CG_MODE_WRITE, &fn)) return 1;
    if (cg_base_write(fn, "Base", 3, 3, &B)) return 1;
    for (int z = 1; z <= nz; z++) {
        sprintf(nm, "Zone%d", z);
        if (cg_zone_write(fn, B, nm, size, CGNS_ENUMV(Structured), &Z)) return 1;
        if (with_coords) {
            static const char *cn[3] = {"CoordinateX", "CoordinateY", "CoordinateZ"};
            for (int c = 0; c < 3; c++) {
                for (int i = 0; i < 27; i++) buf[i] = val(seed, z, c, i);
                if (cg_coord_write(fn, B, Z, CGNS_ENUMV(RealDouble), cn[c], buf, &C)) return 1;
            }
        }
        if (with_sol) {
            if (cg_sol_write(fn, B, Z, "Sol", CGNS_ENUMV(Vertex), &S)) return 1;
            for (int i = 0; i < 27; i++) buf[i] = val(seed, z, 7, i);
            if (cg_field_write(fn, B, Z, S, CGNS_ENUMV(RealDouble), "Density", buf, &F)) return 1;
        }
    }
    (void)G;
    return cg_close(fn);
}


#include "cgns_io.h"

/* ---- a "rich" target file: units, family + FamilyBC + dataset, an unstructured zone with MIXED / QUAD_4 (+ parent data) /
        NGON_n / NFACE_n sections, a solution, a BC with a data set and a family name, and a structured zone ---- */
static int mkrich(const char *path, unsigned seed) {
    int fn, B, Z, S, F, C, BC, DS, Fam, FBC;
    cgsize_t usize[3] = {8, 2, 0}, ssize[9] = {3, 3, 3, 2, 2, 2, 0, 0, 0};
    double buf[27];
    static const char *cn[3] = {"CoordinateX", "CoordinateY", "CoordinateZ"};
    cgsize_t mixed[14] = {CGNS_ENUMV(HEXA_8), 1, 2, 3, 4, 5, 6, 7, 8, CGNS_ENUMV(TETRA_4), 1, 2, 3, 5}, moff[3] = {0, 9, 14};
    cgsize_t quads[8] = {1, 2, 3, 4, 5, 6, 7, 8}, pdata[8] = {1, 1, 0, 0, 1, 6, 0, 0};
    cgsize_t ngon[24] = {1,2,3,4, 5,6,7,8, 1,2,6,5, 2,3,7,6, 3,4,8,7, 4,1,5,8}, noff[7] = {0, 4, 8, 12, 16, 20, 24};
    cgsize_t nface[6] = {5, 6, 7, 8, 9, 10}, foff[2] = {0, 6}, pts[4] = {1, 2, 3, 4};
    unlink(path);
    if (cg_open(path, CG_MODE_WRITE, &fn)) return 1;
    if (cg_base_write(fn, "Base", 3, 3, &B)) return 1;
    if (cg_goto(fn, B, "end") || cg_units_write(CGNS_ENUMV(Kilogram), CGNS_ENUMV(Meter), CGNS_ENUMV(Second), CGNS_ENUMV(Celsius), CGNS_ENUMV(Degree))) return 1;
    if (cg_family_write(fn, B, "Fam", &Fam) || cg_fambc_write(fn, B, Fam, "FBC", CGNS_ENUMV(BCWall), &FBC)) return 1;
    if (cg_goto(fn, B, "Family_t", Fam, "FamilyBC_t", FBC, "end") || cg_bcdataset_write("FDS", CGNS_ENUMV(BCWall), CGNS_ENUMV(Dirichlet))) return 1;
    if (cg_zone_write(fn, B, "ZoneU", usize, CGNS_ENUMV(Unstructured), &Z)) return 1;
    for (int c = 0; c < 3; c++) { for (int i = 0; i < 8; i++) buf[i] = val(seed, 9, c, i); if (cg_coord_write(fn, B, Z, CGNS_ENUMV(RealDouble), cn[c], buf, &C)) return 1; }
    if (cg_goto(fn, B, "Zone_t", Z, "end") || cg_famname_write("Fam")) return 1;
    if (cg_units_write(CGNS_ENUMV(Kilogram), CGNS_ENUMV(Meter), CGNS_ENUMV(Second), CGNS_ENUMV(Celsius), CGNS_ENUMV(Degree))) return 1;
    if (cg_poly_section_write(fn, B, Z, "Mixed", CGNS_ENUMV(MIXED), 1, 2, 0, mixed, moff, &S)) return 1;
    if (cg_section_write(fn, B, Z, "Quads", CGNS_ENUMV(QUAD_4), 3, 4, 0, quads, &S)) return 1;
    if (cg_parent_data_write(fn, B, Z, S, pdata)) return 1;
    if (cg_poly_section_write(fn, B, Z, "Ngon", CGNS_ENUMV(NGON_n), 5, 10, 0, ngon, noff, &S)) return 1;
    if (cg_poly_section_write(fn, B, Z, "Nface", CGNS_ENUMV(NFACE_n), 11, 11, 0, nface, foff, &S)) return 1;
    if (cg_sol_write(fn, B, Z, "Sol", CGNS_ENUMV(Vertex), &S)) return 1;
    for (int i = 0; i < 8; i++) buf[i] = val(seed, 9, 7, i);
    if (cg_field_write(fn, B, Z, S, CGNS_ENUMV(RealDouble), "Density", buf, &F)) return 1;
    if (cg_boco_write(fn, B, Z, "Wall", CGNS_ENUMV(BCWall), CGNS_ENUMV(PointList), 4, pts, &BC)) return 1;
    if (cg_dataset_write(fn, B, Z, BC, "DS", CGNS_ENUMV(BCWall), &DS)) return 1;
    if (cg_goto(fn, B, "Zone_t", Z, "ZoneBC_t", 1, "BC_t", BC, "end") || cg_famname_write("Fam")) return 1;
    if (cg_zone_write(fn, B, "ZoneS", ssize, CGNS_ENUMV(Structured), &Z)) return 1;
    for (int c = 0; c < 3; c++) { for (int i = 0; i < 27; i++) buf[i] = val(seed, 2, c, i); if (cg_coord_write(fn, B, Z, CGNS_ENUMV(RealDouble), cn[c], buf, &C)) return 1; }
    if (cg_sol_write(fn, B, Z, "Sol", CGNS_ENUMV(Vertex), &S)) return 1;
    for (int i = 0; i < 27; i++) buf[i] = val(seed, 2, 7, i);
    if (cg_field_write(fn, B, Z, S, CGNS_ENUMV(RealDouble), "Density", buf, &F)) return 1;
    return cg_close(fn);
}

/* ---- the file that links into it: whole zones and a family by link, and a zone of its own whose children are links ---- */
static int mklinks(const char *path, const char *target, int flags) {      /* 1: NGON_n / NFACE_n links too, 2: DimensionalUnits_t linked directly */
    int with_poly = flags & 1;
    int fn, B, Z; cgsize_t usize[3] = {8, 2, 0};
    static const char *kids[] = {"GridCoordinates", "Mixed", "Quads", "Sol", "ZoneBC", "Ngon", "Nface"};
    char tp[200];
    unlink(path);
    if (cg_open(path, CG_MODE_WRITE, &fn)) return 1;
    if (cg_base_write(fn, "Base", 3, 3, &B)) return 1;
    if (cg_goto(fn, B, "end")) return 1;
    if (cg_link_write("ZoneU", target, "/Base/ZoneU") || cg_link_write("ZoneS", target, "/Base/ZoneS") ||
        cg_link_write("Fam", target, "/Base/Fam")) return 1;
    if (cg_zone_write(fn, B, "Own", usize, CGNS_ENUMV(Unstructured), &Z)) return 1;
    if (cg_goto(fn, B, "Zone_t", Z, "end")) return 1;
    for (int i = 0; i < (with_poly ? 7 : 5); i++) { sprintf(tp, "/Base/ZoneU/%s", kids[i]); if (cg_link_write(kids[i], target, tp)) return 1; }
    if ((flags & 2) && cg_link_write("DimensionalUnits", target, "/Base/DimensionalUnits")) return 1;
    return cg_close(fn);
}

static unsigned long long fnv(unsigned long long h, const void *p, size_t n) {
    const unsigned char *c = p; while (n--) { h ^= *c++; h *= 1099511628211ULL; } return h;
}
#define HS(s) h = fnv(h, (s), strlen(s))
#define HV(v) h = fnv(h, &(v), sizeof(v))

/* ---- read broadly through whatever the file holds; one digest line; reading errors are counted, not fatal ---- */
static void readall(int fn) {
    unsigned long long h = 1469598103934665603ULL; int nerr = 0, items = 0, nb = 0;
    char nm[64], fam[200];
    if (cg_nbases(fn, &nb)) { printf("err cg\n"); return; }
    for (int B = 1; B <= nb; B++) {
        int cd, pd, nz = 0, nf = 0;
        if (cg_base_read(fn, B, nm, &cd, &pd)) { nerr++; continue; }
        HS(nm); HV(cd); HV(pd); items++;
        if (!cg_goto(fn, B, "end")) {
            CGNS_ENUMT(MassUnits_t) m; CGNS_ENUMT(LengthUnits_t) l; CGNS_ENUMT(TimeUnits_t) t; CGNS_ENUMT(TemperatureUnits_t) te; CGNS_ENUMT(AngleUnits_t) a;
            if (!cg_units_read(&m, &l, &t, &te, &a)) { HV(m); HV(l); HV(t); HV(te); HV(a); items++; }
        }
        if (cg_nfamilies(fn, B, &nf)) nerr++;
        for (int F = 1; F <= nf; F++) {
            int nfb, ngeo;
            if (cg_family_read(fn, B, F, nm, &nfb, &ngeo)) { nerr++; continue; }
            HS(nm); HV(nfb); items++;
            for (int k = 1; k <= nfb; k++) {
                CGNS_ENUMT(BCType_t) bt; int nds = 0;
                if (cg_fambc_read(fn, B, F, k, nm, &bt)) { nerr++; continue; }
                HS(nm); HV(bt); items++;
                if (cg_goto(fn, B, "Family_t", F, "FamilyBC_t", k, "end") || cg_bcdataset_info(&nds)) { nerr++; continue; }
                for (int d = 1; d <= nds; d++) { int df, nf2; if (cg_bcdataset_read(d, nm, &bt, &df, &nf2)) nerr++; else { HS(nm); HV(bt); HV(df); HV(nf2); items++; } }
            }
        }
        if (cg_nzones(fn, B, &nz)) { nerr++; continue; }
        for (int Z = 1; Z <= nz; Z++) {
            cgsize_t sz[9] = {0}; CGNS_ENUMT(ZoneType_t) zt; int nc = 0, ns = 0, nsol = 0, nbc = 0, idim = 1; cgsize_t npts = 1;
            if (cg_zone_read(fn, B, Z, nm, sz) || cg_zone_type(fn, B, Z, &zt)) { nerr++; continue; }
            h = fnv(h, sz, sizeof sz); HV(zt); items++;     /* the zone's own name is the link's, not hashed */
            if (zt == CGNS_ENUMV(Structured)) { idim = 3; npts = sz[0] * sz[1] * sz[2]; } else npts = sz[0];
            if (!cg_goto(fn, B, "Zone_t", Z, "end") && !cg_famname_read(fam)) { HS(fam); items++; }
            if (!cg_goto(fn, B, "Zone_t", Z, "end")) {
                CGNS_ENUMT(MassUnits_t) m; CGNS_ENUMT(LengthUnits_t) l; CGNS_ENUMT(TimeUnits_t) t; CGNS_ENUMT(TemperatureUnits_t) te; CGNS_ENUMT(AngleUnits_t) a;
                if (!cg_units_read(&m, &l, &t, &te, &a)) { HV(m); HV(l); HV(t); HV(te); HV(a); items++; }
            }
            cgsize_t lo[3] = {1, 1, 1}, hi[3] = {sz[0], sz[1], sz[2]};
            if (idim == 1) hi[0] = npts;
            if (cg_ncoords(fn, B, Z, &nc)) nerr++;
            for (int c = 1; c <= nc; c++) {
                CGNS_ENUMT(DataType_t) dt; double *b = malloc(sizeof(double) * (size_t)npts);
                if (cg_coord_info(fn, B, Z, c, &dt, nm) || cg_coord_read(fn, B, Z, nm, CGNS_ENUMV(RealDouble), lo, hi, b)) nerr++;
                else { HS(nm); h = fnv(h, b, sizeof(double) * (size_t)npts); items++; }
                free(b);
            }
            if (cg_nsections(fn, B, Z, &ns)) nerr++;
            for (int S = 1; S <= ns; S++) {
                CGNS_ENUMT(ElementType_t) et; cgsize_t st, en, dsz = 0; int nb2, pf;
                if (cg_section_read(fn, B, Z, S, nm, &et, &st, &en, &nb2, &pf) || cg_ElementDataSize(fn, B, Z, S, &dsz)) { nerr++; continue; }
                HS(nm); HV(et); HV(st); HV(en); HV(pf); HV(dsz); items++;
                cgsize_t ne = en - st + 1, *el = malloc(sizeof(cgsize_t) * (size_t)(dsz + 1)), *off = malloc(sizeof(cgsize_t) * (size_t)(ne + 2)), *par = pf ? malloc(sizeof(cgsize_t) * (size_t)(4 * ne)) : NULL;
                int e = (et == CGNS_ENUMV(MIXED) || et == CGNS_ENUMV(NGON_n) || et == CGNS_ENUMV(NFACE_n)) ?
                        cg_poly_elements_read(fn, B, Z, S, el, off, par) : cg_elements_read(fn, B, Z, S, el, par);
                if (e) nerr++;
                else {
                    h = fnv(h, el, sizeof(cgsize_t) * (size_t)dsz);
                    if (et == CGNS_ENUMV(MIXED) || et == CGNS_ENUMV(NGON_n) || et == CGNS_ENUMV(NFACE_n)) h = fnv(h, off, sizeof(cgsize_t) * (size_t)(ne + 1));
                    if (par) h = fnv(h, par, sizeof(cgsize_t) * (size_t)(4 * ne));
                    items++;
                }
                free(el); free(off); free(par);
            }
            if (cg_nsols(fn, B, Z, &nsol)) nerr++;
            for (int S = 1; S <= nsol; S++) {
                CGNS_ENUMT(GridLocation_t) loc; int nfl = 0;
                if (cg_sol_info(fn, B, Z, S, nm, &loc) || cg_nfields(fn, B, Z, S, &nfl)) { nerr++; continue; }
                HS(nm); HV(loc); items++;
                for (int f = 1; f <= nfl; f++) {
                    CGNS_ENUMT(DataType_t) dt; double *b = malloc(sizeof(double) * (size_t)npts);
                    if (cg_field_info(fn, B, Z, S, f, &dt, nm) || cg_field_read(fn, B, Z, S, nm, CGNS_ENUMV(RealDouble), lo, hi, b)) nerr++;
                    else { HS(nm); h = fnv(h, b, sizeof(double) * (size_t)npts); items++; }
                    free(b);
                }
            }
            if (cg_nbocos(fn, B, Z, &nbc)) nerr++;
            for (int k = 1; k <= nbc; k++) {
                CGNS_ENUMT(BCType_t) bt; CGNS_ENUMT(PointSetType_t) pt; cgsize_t np, nls; int nidx[3], nds; CGNS_ENUMT(DataType_t) ndt;
                if (cg_boco_info(fn, B, Z, k, nm, &bt, &pt, &np, nidx, &nls, &ndt, &nds)) { nerr++; continue; }
                HS(nm); HV(bt); HV(pt); HV(np); HV(nds); items++;
                cgsize_t *pp = malloc(sizeof(cgsize_t) * (size_t)(np * idim + 1));
                if (cg_boco_read(fn, B, Z, k, pp, NULL)) nerr++; else { h = fnv(h, pp, sizeof(cgsize_t) * (size_t)(np * idim)); items++; }
                free(pp);
                for (int d = 1; d <= nds; d++) { int df, nf2; if (cg_dataset_read(fn, B, Z, k, d, nm, &bt, &df, &nf2)) nerr++; else { HS(nm); HV(bt); HV(df); HV(nf2); items++; } }
                if (!cg_goto(fn, B, "Zone_t", Z, "ZoneBC_t", 1, "BC_t", k, "end") && !cg_famname_read(fam)) { HS(fam); items++; }
            }
        }
    }
    printf("ok A:%d:%016llx:%d\n", items, h, nerr);
}

/* ---- a complete cgio dump of a file, links recorded and never followed: one line ---- */
static int io_dump_node(int cg, double id, int depth) {
    char nm[80], lb[80], ty[80]; int len, nd, nk, got; cgsize_t d[CGIO_MAX_DIMENSIONS]; cglong_t size = 0;
    if (cgio_get_name(cg, id, nm) || cgio_is_link(cg, id, &len)) return 1;
    printf("{"); hexstr(nm);
    if (len > 0) {
        static char fl[4200], pa[4200];
        if (cgio_get_link(cg, id, fl, pa)) return 1;
        printf(" L "); hexstr(fl); printf(" "); hexstr(pa); printf("}"); return 0;
    }
    if (cgio_get_label(cg, id, lb) || cgio_get_data_type(cg, id, ty) || cgio_get_dimensions(cg, id, &nd, d)) return 1;
    printf(" "); hexstr(lb); printf(" %s ", ty);
    if (!nd) printf("-"); for (int i = 0; i < nd; i++) printf("%s%lld", i ? "," : "", (long long)d[i]);
    printf(" ");
    if (strcmp(ty, "MT") && nd > 0 && !cgio_get_data_size(cg, id, &size) && size > 0 && size < 4000000) {
        unsigned char *b = malloc((size_t)size);
        if (cgio_read_all_data_type(cg, id, ty, b)) printf("nodata"); else hexout(b, (size_t)size);
        free(b);
    } else printf("-");
    if (cgio_number_children(cg, id, &nk)) return 1;
    if (nk > 0 && depth < 30) {
        double *ids = malloc(sizeof(double) * nk);
        if (cgio_children_ids(cg, id, 1, nk, &got, ids)) { free(ids); return 1; }
        for (int i = 0; i < got; i++) if (io_dump_node(cg, ids[i], depth + 1)) { free(ids); return 1; }
        free(ids);
    }
    printf("}");
    return 0;
}
static int IO = 0, IOOPEN = 0;
static int io_node(const char *path, double *id) { double root; return cgio_get_root_id(IO, &root) || cgio_get_node_id(IO, root, path, id); }

int main(void) {
    static char line[70000], a[5][16000], b[5][8000];
    int h, B, Z;
    signal(SIGALRM, on_alarm);
    while (fgets(line, sizeof line, stdin)) {
        char cmd[32]; cmd[0] = 0; sscanf(line, "%31s", cmd);
        snprintf(curop, sizeof curop, "%.60s", line); for (char *q = curop; *q; q++) if (*q == '\n') *q = 0;
        alarm(30);
        if (!strcmp(cmd, "ftype")) {
            sscanf(line, "%*s %s", a[0]);
            printf(cg_set_file_type(!strcmp(a[0], "hdf5") ? CG_FILE_HDF5 : CG_FILE_ADF) ? "err cg\n" : "ok\n");
        } else if (!strcmp(cmd, "setenv")) {
            char nm[64]; sscanf(line, "%*s %63s %s", nm, a[0]);
            if (a[0][0] == '-' && !a[0][1]) unsetenv(nm); else { unhex(a[0], b[0]); setenv(nm, b[0], 1); }
            printf("ok\n");
        } else if (!strcmp(cmd, "setpath") || !strcmp(cmd, "addpath") || !strcmp(cmd, "cfgset") || !strcmp(cmd, "cfgadd")) {
            sscanf(line, "%*s %s", a[0]); unhex(a[0], b[0]);
            char *arg = strcmp(a[0], "NULL") ? b[0] : NULL;          /* NULL = a NULL pointer, - = the empty string */
            int e = !strcmp(cmd, "setpath") ? cg_set_path(arg) : !strcmp(cmd, "addpath") ? cg_add_path(arg) :
                    !strcmp(cmd, "cfgset") ? cg_configure(CG_CONFIG_SET_PATH, arg) : cg_configure(CG_CONFIG_ADD_PATH, arg);
            printf(e ? "err cg\n" : "ok\n");
        } else if (!strcmp(cmd, "mkfile")) {
            int nz, wc, ws; unsigned seed; sscanf(line, "%*s %s %d %u %d %d", a[0], &nz, &seed, &wc, &ws); unhex(a[0], b[0]);
            printf(mkfile(b[0], nz, seed, wc, ws) ? "err cg\n" : "ok\n");
        } else if (!strcmp(cmd, "mkrich")) {
            unsigned seed; sscanf(line, "%*s %s %u", a[0], &seed); unhex(a[0], b[0]);
            printf(mkrich(b[0], seed) ? "err cg\n" : "ok\n");
        } else if (!strcmp(cmd, "mklinks")) {
            int wp; sscanf(line, "%*s %s %s %d", a[0], a[1], &wp); unhex(a[0], b[0]); unhex(a[1], b[1]);
            printf(mklinks(b[0], b[1], wp) ? "err cg\n" : "ok\n");
        } else if (!strcmp(cmd, "readall")) {
            sscanf(line, "%*s %d", &h);
            if (h < 0 || h >= MAXH || !OPEN[h]) printf("err cg\n"); else readall(FN[h]);
        } else if (!strcmp(cmd, "io.dump")) {
            int cg; double root; sscanf(line, "%*s %s", a[0]); unhex(a[0], b[0]);
            if (cgio_open_file(b[0], CGIO_MODE_READ, CGIO_FILE_NONE, &cg) || cgio_get_root_id(cg, &root)) { printf("err io\n"); continue; }
            printf("ok D:"); int e = io_dump_node(cg, root, 0); printf(e ? " !err\n" : "\n"); cgio_close_file(cg);
        } else if (!strcmp(cmd, "io.open")) {
            sscanf(line, "%*s %s", a[0]); unhex(a[0], b[0]);
            if (IOOPEN || cgio_open_file(b[0], CGIO_MODE_MODIFY, CGIO_FILE_NONE, &IO)) printf("err io\n"); else { IOOPEN = 1; printf("ok\n"); }
        } else if (!strcmp(cmd, "io.close")) {
            if (!IOOPEN) { printf("err io\n"); continue; }
            IOOPEN = 0; printf(cgio_close_file(IO) ? "err io\n" : "ok\n");
        } else if (!strcmp(cmd, "io.del")) {
            double id, pid; sscanf(line, "%*s %s", a[0]); unhex(a[0], b[0]);
            char *sl = strrchr(b[0], '/'); strcpy(b[1], b[0]); b[1][sl - b[0] ? sl - b[0] : 1] = 0;
            if (!IOOPEN || io_node(b[0], &id) || io_node(b[1], &pid) || cgio_delete_node(IO, pid, id)) printf("err io\n"); else printf("ok\n");
        } else if (!strcmp(cmd, "io.set")) {
            double id; char ty[16]; cgsize_t d[12]; int nd = 0; sscanf(line, "%*s %s %15s %s %s", a[0], ty, a[1], a[2]); unhex(a[0], b[0]);
            for (char *q = a[1]; *q && *q != '-'; ) { d[nd++] = (cgsize_t)strtoll(q, &q, 10); if (*q == ',') q++; }
            static char data[8000]; unhex(a[2], data);
            if (!IOOPEN || io_node(b[0], &id) || cgio_set_dimensions(IO, id, ty, nd, d) || (nd && cgio_write_all_data(IO, id, data))) printf("err io\n"); else printf("ok\n");
        } else if (!strcmp(cmd, "io.new")) {
            double id, pid; char ty[16]; cgsize_t d[12]; int nd = 0;
            sscanf(line, "%*s %s %s %s %15s %s %s", a[0], a[1], a[2], ty, a[3], a[4]); unhex(a[0], b[0]); unhex(a[1], b[1]); unhex(a[2], b[2]);
            for (char *q = a[3]; *q && *q != '-'; ) { d[nd++] = (cgsize_t)strtoll(q, &q, 10); if (*q == ',') q++; }
            static char data[8000]; unhex(a[4], data);
            if (!IOOPEN || io_node(b[0], &pid) || cgio_create_node(IO, pid, b[1], &id) || cgio_set_label(IO, id, b[2]) ||
                cgio_set_dimensions(IO, id, ty, nd, d) || (nd && cgio_write_all_data(IO, id, data))) printf("err io\n"); else printf("ok\n");
        } else if (!strcmp(cmd, "io.label") || !strcmp(cmd, "io.rename")) {
            double id, pid; sscanf(line, "%*s %s %s", a[0], a[1]); unhex(a[0], b[0]); unhex(a[1], b[2]);
            char *sl = strrchr(b[0], '/'); strcpy(b[1], b[0]); b[1][sl - b[0] ? sl - b[0] : 1] = 0;
            if (!IOOPEN || io_node(b[0], &id) || io_node(b[1], &pid) ||
                (cmd[3] == 'l' ? cgio_set_label(IO, id, b[2]) : cgio_set_name(IO, pid, id, b[2]))) printf("err io\n"); else printf("ok\n");
        } else if (!strcmp(cmd, "dbg")) {
            if (getenv("C08_DBG")) {      /* development aid: which descriptors are open (stderr only) */
                char lk[64], tg[600];
                for (int fd = 3; fd < 64; fd++) { snprintf(lk, sizeof lk, "/proc/self/fd/%d", fd); ssize_t k = readlink(lk, tg, sizeof tg - 1); if (k > 0) { tg[k] = 0; fprintf(stderr, "fd %d -> %s\n", fd, tg); } }
                fprintf(stderr, "--\n");
            }
            printf("ok\n");
        } else if (!strcmp(cmd, "unlinkf")) {
            sscanf(line, "%*s %s", a[0]); unhex(a[0], b[0]); printf(unlink(b[0]) ? "err cg\n" : "ok\n");
        } else if (!strcmp(cmd, "open")) {
            char md[8]; sscanf(line, "%*s %d %s %7s", &h, a[0], md); unhex(a[0], b[0]);
            int m = md[0] == 'w' ? CG_MODE_WRITE : md[0] == 'm' ? CG_MODE_MODIFY : CG_MODE_READ;
            if (h < 0 || h >= MAXH || OPEN[h] || cg_open(b[0], m, &FN[h])) { if (getenv("C08_DBG")) fprintf(stderr, "cg_open: %s\n", cg_get_error()); printf("err open\n"); } else { OPEN[h] = 1; printf("ok\n"); }
        } else if (!strcmp(cmd, "close")) {
            sscanf(line, "%*s %d", &h);
            if (h < 0 || h >= MAXH || !OPEN[h]) { printf("err cg\n"); continue; }
            OPEN[h] = 0; printf(cg_close(FN[h]) ? "err cg\n" : "ok\n");
        } else if (!strcmp(cmd, "linkw")) {
            sscanf(line, "%*s %d %s %s %s %s", &h, a[0], a[1], a[2], a[3]);
            if (h < 0 || h >= MAXH || !OPEN[h]) { printf("err cg\n"); continue; }
            unhex(a[0], b[0]); unhex(a[1], b[1]); unhex(a[2], b[2]); unhex(a[3], b[3]);
            if (cg_gopath(FN[h], b[0]) || cg_link_write(b[1], b[2], b[3])) printf("err cg\n"); else printf("ok\n");
        } else if (!strcmp(cmd, "islink")) {
            int len; sscanf(line, "%*s %d %s", &h, a[0]); unhex(a[0], b[0]);
            if (h < 0 || h >= MAXH || !OPEN[h] || cg_gopath(FN[h], b[0]) || cg_is_link(&len)) printf("err cg\n"); else printf("ok %d\n", len > 0);
        } else if (!strcmp(cmd, "linkr")) {
            char *fl = 0, *pa = 0; sscanf(line, "%*s %d %s", &h, a[0]); unhex(a[0], b[0]);
            if (h < 0 || h >= MAXH || !OPEN[h] || cg_gopath(FN[h], b[0]) || cg_link_read(&fl, &pa)) printf("err cg\n");
            else { printf("ok L:"); hexstr(fl); printf(":"); hexstr(pa); printf("\n"); cg_free(fl); cg_free(pa); }
        } else if (!strcmp(cmd, "nzones")) {
            int n; sscanf(line, "%*s %d %d", &h, &B);
            if (h < 0 || h >= MAXH || !OPEN[h] || cg_nzones(FN[h], B, &n)) printf("err cg\n"); else printf("ok %d\n", n);
        } else if (!strcmp(cmd, "zone")) {
            char nm[40]; cgsize_t sz[9]; CGNS_ENUMT(ZoneType_t) zt; sscanf(line, "%*s %d %d %d", &h, &B, &Z);
            if (h < 0 || h >= MAXH || !OPEN[h] || cg_zone_read(FN[h], B, Z, nm, sz) || cg_zone_type(FN[h], B, Z, &zt)) printf("err cg\n");
            else { printf("ok Z:"); hexstr(nm); printf(":%d", (int)zt); for (int i = 0; i < 9; i++) printf(":%lld", (long long)sz[i]); printf("\n"); }
        } else if (!strcmp(cmd, "coords")) {
            int n; sscanf(line, "%*s %d %d %d", &h, &B, &Z);
            if (h < 0 || h >= MAXH || !OPEN[h] || cg_ncoords(FN[h], B, Z, &n)) { printf("err cg\n"); continue; }
            cgsize_t lo[3] = {1, 1, 1}, hi[3] = {3, 3, 3}; double buf[27]; int bad = 0;
            static char out[20000]; out[0] = 0; char *o = out;
            o += sprintf(o, "ok C:%d", n);
            for (int c = 1; c <= n && !bad; c++) {
                CGNS_ENUMT(DataType_t) dt; char nm[40];
                if (cg_coord_info(FN[h], B, Z, c, &dt, nm) || cg_coord_read(FN[h], B, Z, nm, CGNS_ENUMV(RealDouble), lo, hi, buf)) { bad = 1; break; }
                o += sprintf(o, ":%s/%d=", nm, (int)dt);
                for (size_t i = 0; i < sizeof buf; i++) o += sprintf(o, "%02x", ((unsigned char *)buf)[i]);
            }
            if (bad) printf("err cg\n"); else printf("%s\n", out);
        } else if (!strcmp(cmd, "sol")) {
            int n; sscanf(line, "%*s %d %d %d", &h, &B, &Z);
            if (h < 0 || h >= MAXH || !OPEN[h] || cg_nsols(FN[h], B, Z, &n)) { printf("err cg\n"); continue; }
            cgsize_t lo[3] = {1, 1, 1}, hi[3] = {3, 3, 3}; double buf[27]; int bad = 0;
            static char out[40000]; char *o = out;
            o += sprintf(o, "ok S:%d", n);
            for (int s = 1; s <= n && !bad; s++) {
                char nm[40]; CGNS_ENUMT(GridLocation_t) loc; int nf;
                if (cg_sol_info(FN[h], B, Z, s, nm, &loc) || cg_nfields(FN[h], B, Z, s, &nf)) { bad = 1; break; }
                o += sprintf(o, ":%s/%d/%d", nm, (int)loc, nf);
                for (int f = 1; f <= nf; f++) {
                    CGNS_ENUMT(DataType_t) dt; char fnm[40];
                    if (cg_field_info(FN[h], B, Z, s, f, &dt, fnm) || cg_field_read(FN[h], B, Z, s, fnm, CGNS_ENUMV(RealDouble), lo, hi, buf)) { bad = 1; break; }
                    o += sprintf(o, ",%s=", fnm);
                    for (size_t i = 0; i < sizeof buf; i++) o += sprintf(o, "%02x", ((unsigned char *)buf)[i]);
                }
            }
            if (bad) printf("err cg\n"); else printf("%s\n", out);
        } else if (!strcmp(cmd, "delnode")) {
            sscanf(line, "%*s %d %s %s", &h, a[0], a[1]); unhex(a[0], b[0]); unhex(a[1], b[1]);
            if (h < 0 || h >= MAXH || !OPEN[h] || cg_gopath(FN[h], b[0]) || cg_delete_node(b[1])) printf("err cg\n"); else printf("ok\n");
        } else if (line[0] == '\n' || line[0] == '#') ;
        else printf("badline %s", line);
        fflush(stdout);
    }
    alarm(60);
    for (h = 0; h < MAXH; h++) if (OPEN[h]) cg_close(FN[h]);
    return 0;
}
