/* c20f_ref.c -- C reference of the C20f correspondence.  It IS harness/c20_wrap.c (textual include, its main()
   renamed) plus the operations that only the Fortran driver harness/c20f_*.f90 has, i.e. the MODULE PROCEDURES of
   src/cgns_f.F90 that call the C API directly with their own string conversion.  For those there is no wrapper in
   cg_ftoc.c: both modes (f, c) are the direct C call with the EQUIVALENT arguments -- an input string is the Fortran
   value without trailing blanks (NOT cut to 32: cgns_f.F90 passes TRIM(name)//C_NULL_CHAR, the C function rejects what
   is too long), an output string is the C result blank-padded / cut to the Fortran length (fref of c20_wrap.c).
   gotov / gorelv (cg_goto_f / cg_gorel_f with several label/index pairs): mode f replays what the module procedure
   does (cg_goto_fc1 then cg_gorel_fc1 per pair, stop at the first error), mode c is one variadic cg_goto / cg_gorel.

   Every other line is handed, one at a time, to the unchanged main loop of c20_wrap.c (stdin is pointed at a
   one-line memory stream); its file-scope state (open file, node ids ...) persists between the calls.

     c20f_ref f|c <file> <file2> <adf|hdf5>        c20f_ref dump <file>                                         */
#define _GNU_SOURCE
#define main c20_wrap_main
#include "c20_wrap.c"
#undef main

static int fn2 = -1, fn2_open = 0;
static void pfo(const char *tag, fout o) {        /* like pf, without the content (dates) */
    int i, first = 1;
    printf(" %s=/oob:", tag);
    for (i = 0; i < GUARD; i++) if (o.a[i] != CANARY) { printf("%s%d", first ? "" : ",", i - GUARD); first = 0; }
    for (i = 0; i < GUARD; i++) if (o.a[GUARD + o.len + i] != CANARY) { printf("%s%d", first ? "" : ",", o.len + i); first = 0; }
    if (first) printf("-");
}

static int extra_op(const char *op) {
    cgint_f ier = -99;
    if (0) {}
    /* a second file open at the same time; swap exchanges the handles */
    OP("open2") { const char *m = toks[itok++]; static char p2[4200]; snprintf(p2, sizeof p2, "%s.B", path1); cg_set_file_type(backend);
        ier = cg_open(p2, m[0] == 'w' ? CG_MODE_WRITE : m[0] == 'm' ? CG_MODE_MODIFY : CG_MODE_READ, &fn2); if (!ier) fn2_open = 1; IER(ier); NL; }
    OP("close2") { ier = cg_close(fn2); if (!ier) fn2_open = 0; IER(ier); NL; }
    OP("swap") { int t = fn; fn = fn2; fn2 = t; t = fn_open; fn_open = fn2_open; fn2_open = t; printf("swap"); NL; }
    OP("where") { int f2 = 0, B = 0, depth = 0, num[CG_MAX_GOTO_DEPTH], i; char lab[CG_MAX_GOTO_DEPTH][33]; char *labs[CG_MAX_GOTO_DEPTH];
        for (i = 0; i < CG_MAX_GOTO_DEPTH; i++) { labs[i] = lab[i]; lab[i][0] = 0; }
        ier = cg_where(&f2, &B, &depth, labs, num);
        IER(ier); if (!ier) { printf(" same=%d B=%d depth=%d", f2 == fn, B, depth); for (i = 0; i < depth; i++) printf(" %s:%d", labs[i], num[i]); } NL; }
    OP("io_file_version") { fout o = fo(ti()), o2 = fo(ti()), o3 = fo(ti()); cgint_f num = cgio_n;
        if (MODEF) FMNAME(cgio_file_version_f, CGIO_FILE_VERSION_F)(&num, FP(o), FP(o2), FP(o3), &ier, (size_t)o.len, (size_t)o2.len, (size_t)o3.len);
        else { char a[CGIO_MAX_VERSION_LENGTH + 1], b[CGIO_MAX_VERSION_LENGTH + 1], c[CGIO_MAX_VERSION_LENGTH + 1];
            ier = cgio_file_version(cgio_n, a, b, c); if (!ier) { fref(o, a); fref(o2, b); fref(o3, c); } }
        IER(ier); pf("ver", o); pfo("cdate", o2); pfo("mdate", o3); NL; }
    OP("nbases") { int n = -1; ier = cg_nbases(fn, &n); IER(ier); if (!ier) printf(" n=%d", n); NL; }
    OP("base_read") { int B = ti(); fout o = fo(ti()); char c[33]; int cd = -1, pd = -1;
        ier = cg_base_read(fn, B, c, &cd, &pd); if (!ier) fref(o, c);
        IER(ier); if (!ier) printf(" cd=%d pd=%d", cd, pd); pf("name", o); NL; }
    OP("nzones") { int B = ti(), n = -1; ier = cg_nzones(fn, B, &n); IER(ier); if (!ier) printf(" n=%d", n); NL; }
    OP("zone_read") { int B = ti(), Z = ti(); fout o = fo(ti()); char c[33]; cgsize_t sz[9] = {0};
        ier = cg_zone_read(fn, B, Z, c, sz); if (!ier) fref(o, c);
        IER(ier); if (!ier) printf(" s0=%lld s1=%lld s2=%lld", (long long)sz[0], (long long)sz[1], (long long)sz[2]); pf("name", o); NL; }
    OP("ncoords") { int B = ti(), Z = ti(), n = -1; ier = cg_ncoords(fn, B, Z, &n); IER(ier); if (!ier) printf(" n=%d", n); NL; }
    OP("coord_info") { int B = ti(), Z = ti(), C = ti(); fout o = fo(ti()); char c[33]; CGNS_ENUMT(DataType_t) ty = 0;
        ier = cg_coord_info(fn, B, Z, C, &ty, c); if (!ier) fref(o, c);
        IER(ier); if (!ier) printf(" t=%d", (int)ty); pf("name", o); NL; }
    OP("family_write") { int B = ti(); fstr n = ts(); int F = -1;
        ier = cg_family_write(fn, B, eqv(n, 8000), &F); IER(ier); if (!ier) printf(" F=%d", F); NL; }
    OP("family_read") { int B = ti(), F = ti(); fout o = fo(ti()); char c[33]; int nb = -1, ng = -1;
        ier = cg_family_read(fn, B, F, c, &nb, &ng); if (!ier) fref(o, c);
        IER(ier); if (!ier) printf(" nb=%d ng=%d", nb, ng); pf("name", o); NL; }
    OP("discrete_write") { int B = ti(), Z = ti(); fstr n = ts(); int D = -1;
        ier = cg_discrete_write(fn, B, Z, eqv(n, 8000), &D); IER(ier); if (!ier) printf(" D=%d", D); NL; }
    OP("discrete_read") { int B = ti(), Z = ti(), D = ti(); fout o = fo(ti()); char c[33];
        ier = cg_discrete_read(fn, B, Z, D, c); if (!ier) fref(o, c); IER(ier); pf("name", o); NL; }
    OP("narrays") { int n = -1; ier = cg_narrays(&n); IER(ier); if (!ier) printf(" n=%d", n); NL; }
    OP("array_info") { int A = ti(); fout o = fo(ti()); char c[33]; CGNS_ENUMT(DataType_t) ty = 0; int nd = -1; cgsize_t dv[12] = {0};
        ier = cg_array_info(A, c, &ty, &nd, dv); if (!ier) fref(o, c);
        IER(ier); if (!ier) printf(" t=%d nd=%d d0=%lld", (int)ty, nd, (long long)dv[0]); pf("name", o); NL; }
    OP("field_id") { cgint_f B = ti(), Z = ti(), S = ti(), F = ti(), ffn = fn; double id = 0;
        if (MODEF) cg_field_id_f(&ffn, &B, &Z, &S, &F, &id, &ier); else ier = cg_field_id(fn, B, Z, S, F, &id);
        IER(ier); if (!ier) printf(" nz=%d", id != 0); NL; }
    OP("1to1_id") { cgint_f B = ti(), Z = ti(), I = ti(), ffn = fn; double id = 0;
        if (MODEF) cg_1to1_id_f(&ffn, &B, &Z, &I, &id, &ier); else ier = cg_1to1_id(fn, B, Z, I, &id);
        IER(ier); if (!ier) printf(" nz=%d", id != 0); NL; }
    OP("gopath") { fstr p = ts(); ier = cg_gopath(fn, eqv(p, 8000)); IER(ier); NL; }
    OP("geo_write") { int B = ti(), F = ti(); fstr n = ts(), f = ts(), c = ts(); int G = -1;
        ier = cg_geo_write(fn, B, F, eqv(n, 8000), eqv(f, 8000), eqv(c, 8000), &G); IER(ier); if (!ier) printf(" G=%d", G); NL; }
    OP("geo_read") { int B = ti(), F = ti(), G = ti(); fout o = fo(ti()), o2 = fo(ti()), o3 = fo(ti()); char c[33], cad[33], *file = 0; int np = -1;
        ier = cg_geo_read(fn, B, F, G, c, &file, cad, &np); if (!ier) { fref(o, c); fref(o2, file ? file : ""); fref(o3, cad); if (file) cg_free(file); }
        IER(ier); if (!ier) printf(" np=%d", np); pf("name", o); pf("file", o2); pf("cad", o3); NL; }
    /* cg_goto_f / cg_gorel_f with 0..20 pairs.  mode f: what the module procedure does (cg_goto_fc1, then cg_gorel_fc1 per
       pair, stop at the first error); mode c: ONE variadic cg_goto / cg_gorel with all twenty slots, the unused ones "end" */
    OP("gotov") { int B = ti(), k = ti(), i, x[20]; const char *l[20]; static char lb[20][8200];   /* eqv() rotates 8 buffers only */
        for (i = 0; i < 20; i++) { l[i] = "end"; x[i] = 0; }
        for (i = 0; i < k && i < 20; i++) { fstr s = ts(); strcpy(lb[i], eqv(s, 8000)); l[i] = lb[i]; x[i] = ti(); }
        if (MODEF) { if (k < 1) ier = cg_goto_fc1(fn, B, "end", 0);
            else { ier = cg_goto_fc1(fn, B, (char *)l[0], x[0]); for (i = 1; i < k && i < 20 && !ier; i++) ier = cg_gorel_fc1(fn, (char *)l[i], x[i]); } }
        else ier = cg_goto(fn, B, l[0], x[0], l[1], x[1], l[2], x[2], l[3], x[3], l[4], x[4], l[5], x[5], l[6], x[6], l[7], x[7], l[8], x[8], l[9], x[9],
                           l[10], x[10], l[11], x[11], l[12], x[12], l[13], x[13], l[14], x[14], l[15], x[15], l[16], x[16], l[17], x[17], l[18], x[18],
                           l[19], x[19], "end");
        IER(ier); NL; }
    OP("gorelv") { int k = ti(), i, x[20]; const char *l[20]; static char lb[20][8200];
        for (i = 0; i < 20; i++) { l[i] = "end"; x[i] = 0; }
        for (i = 0; i < k && i < 20; i++) { fstr s = ts(); strcpy(lb[i], eqv(s, 8000)); l[i] = lb[i]; x[i] = ti(); }
        if (MODEF) { if (k < 1) ier = cg_gorel_fc1(fn, "end", 0);
            else { ier = 0; for (i = 0; i < k && i < 20 && !ier; i++) ier = cg_gorel_fc1(fn, (char *)l[i], x[i]); } }
        else ier = cg_gorel(fn, l[0], x[0], l[1], x[1], l[2], x[2], l[3], x[3], l[4], x[4], l[5], x[5], l[6], x[6], l[7], x[7], l[8], x[8], l[9], x[9],
                            l[10], x[10], l[11], x[11], l[12], x[12], l[13], x[13], l[14], x[14], l[15], x[15], l[16], x[16], l[17], x[17], l[18], x[18],
                            l[19], x[19], "end");
        IER(ier); NL; }
    else return 0;
    fflush(stdout);
    return 1;
}

#include "c20f_ref_impl.h"
#include "c20f_ref_mod.h"

int main(int argc, char **argv) {
    static char big[70000], copy[70000];
    FILE *in = stdin;
    if (argc >= 3 && !strcmp(argv[1], "dump")) return c20_wrap_main(argc, argv);
    if (argc < 5) { fprintf(stderr, "usage\n"); return 2; }
    MODEF = argv[1][0] == 'f'; path1 = argv[2]; path2 = argv[3];
    backend = !strcmp(argv[4], "hdf5") ? CG_FILE_HDF5 : CG_FILE_ADF;
    while (fgets(big, sizeof big, in)) {
        static char op[64];
        strcpy(copy, big);
        ntok = 0; itok = 1;
        for (char *t = strtok(copy, " \t\r\n"); t && ntok < 80; t = strtok(NULL, " \t\r\n")) toks[ntok++] = t;
        if (!ntok || toks[0][0] == '#') continue;
        strncpy(op, toks[0], 63); op[63] = 0;
        if (extra_op(op)) continue;
        itok = 1;
        if (extra_op2(op)) continue;
        itok = 1;
        if (extra_op3(op)) continue;          /* OP() / IER() of c20_wrap.c refer to a variable called op */
        {
            FILE *one = fmemopen(big, strlen(big), "r");
            if (!one) return 3;
            stdin = one;
            c20_wrap_main(argc, argv);
            fclose(one);
            stdin = in;
        }
    }
    return 0;
}
