! c20f_dl2.f90 -- written out once from a table of (routine, arguments, call) and kept as a plain source: the second part of
! the declared-length battery.  Every routine of the binding layer with TWO OR MORE CHARACTER arguments is called with
! CHARACTER variables of DIFFERENT declared lengths per argument, in all orderings: the triple T selects the lengths
!   T:  1=(8,32,40) 2=(8,40,32) 3=(32,8,40) 4=(32,40,8) 5=(40,8,32) 6=(40,32,8) 7=(1,33,80) 8=(80,31,1)
! (two-string routines use the first two).  The variables are the fields of c20f_extra::v, each between two 64-byte guard
! fields, so a copy-back made with the OTHER argument's length shows as /oob: or as unpadded fill bytes.
! Line:  dl2_<op> T <non-string arguments of the plain operation> <hex value per INPUT string>
module c20f_dl2
  use c20f_m
  use c20f_extra
  implicit none
  integer, parameter :: TRIPLES(3, 8) = reshape((/ 8, 32, 40, 8, 40, 32, 32, 8, 40, 32, 40, 8, 40, 8, 32, 40, 32, 8, 1, 33, 80, 80, 31, 1 /), (/ 3, 8 /))
contains

  subroutine op_dl2_conn_info()
    integer :: T, L(3)
    integer :: B, Z, I, ier
    integer(cgenum_t) :: loc, ct, ps, dps, dz, ddt
    integer(cgsize_t) :: np, nd
    T = int(ti()); if (T < 1 .or. T > 8) T = 1
    L = TRIPLES(:, T); ier = -99
    B = int(ti()); Z = int(ti()); I = int(ti()); loc = 0; ct = 0; ps = 0; dps = 0; dz = 0; ddt = 0; np = 0; nd = 0
    call dl_reset()
    select case (T)
    case (1); call cg_conn_info_f(fn, B, Z, I, v%c8, loc, ct, ps, np, v%c32, dz, dps, ddt, nd, ier)
    case (2); call cg_conn_info_f(fn, B, Z, I, v%c8, loc, ct, ps, np, v%c40, dz, dps, ddt, nd, ier)
    case (3); call cg_conn_info_f(fn, B, Z, I, v%c32, loc, ct, ps, np, v%c8, dz, dps, ddt, nd, ier)
    case (4); call cg_conn_info_f(fn, B, Z, I, v%c32, loc, ct, ps, np, v%c40, dz, dps, ddt, nd, ier)
    case (5); call cg_conn_info_f(fn, B, Z, I, v%c40, loc, ct, ps, np, v%c8, dz, dps, ddt, nd, ier)
    case (6); call cg_conn_info_f(fn, B, Z, I, v%c40, loc, ct, ps, np, v%c32, dz, dps, ddt, nd, ier)
    case (7); call cg_conn_info_f(fn, B, Z, I, v%c1, loc, ct, ps, np, v%c33, dz, dps, ddt, nd, ier)
    case (8); call cg_conn_info_f(fn, B, Z, I, v%c80, loc, ct, ps, np, v%c31, dz, dps, ddt, nd, ier)
    end select
    op = 'conn_info'
    call ier_out(ier)
    if (ier == 0) then
      call kv('loc', int(loc, 8)); call kv('ct', int(ct, 8)); call kv('ps', int(ps, 8)); call kv('np', int(np, 8))
      call kv('dz', int(dz, 8)); call kv('dps', int(dps, 8)); call kv('ddt', int(ddt, 8)); call kv('nd', int(nd, 8))
    end if
    call dl_print('name', L(1)); call dl_print('donor', L(2))
    call nl()
  end subroutine

  subroutine op_dl2_one21_read()
    integer :: T, L(3)
    integer :: B, Z, I, ier, tr(3)
    integer(cgsize_t) :: r(6), dr(6)
    T = int(ti()); if (T < 1 .or. T > 8) T = 1
    L = TRIPLES(:, T); ier = -99
    B = int(ti()); Z = int(ti()); I = int(ti()); r = 0; dr = 0; tr = 0
    call dl_reset()
    select case (T)
    case (1); call cg_1to1_read_f(fn, B, Z, I, v%c8, v%c32, r, dr, tr, ier)
    case (2); call cg_1to1_read_f(fn, B, Z, I, v%c8, v%c40, r, dr, tr, ier)
    case (3); call cg_1to1_read_f(fn, B, Z, I, v%c32, v%c8, r, dr, tr, ier)
    case (4); call cg_1to1_read_f(fn, B, Z, I, v%c32, v%c40, r, dr, tr, ier)
    case (5); call cg_1to1_read_f(fn, B, Z, I, v%c40, v%c8, r, dr, tr, ier)
    case (6); call cg_1to1_read_f(fn, B, Z, I, v%c40, v%c32, r, dr, tr, ier)
    case (7); call cg_1to1_read_f(fn, B, Z, I, v%c1, v%c33, r, dr, tr, ier)
    case (8); call cg_1to1_read_f(fn, B, Z, I, v%c80, v%c31, r, dr, tr, ier)
    end select
    op = '1to1_read'
    call ier_out(ier)
    if (ier == 0) then
      call kv('tr', int(tr(1), 8)); call emit(','); call emit_i(int(tr(2), 8)); call emit(','); call emit_i(int(tr(3), 8))
      call kv('r5', int(r(6), 8))
    end if
    call dl_print('name', L(1)); call dl_print('donor', L(2))
    call nl()
  end subroutine

  subroutine op_dl2_multifam_read()
    integer :: T, L(3)
    integer :: N, ier
    T = int(ti()); if (T < 1 .or. T > 8) T = 1
    L = TRIPLES(:, T); ier = -99
    N = int(ti())
    call dl_reset()
    select case (T)
    case (1); call cg_multifam_read_f(N, v%c8, v%c32, ier)
    case (2); call cg_multifam_read_f(N, v%c8, v%c40, ier)
    case (3); call cg_multifam_read_f(N, v%c32, v%c8, ier)
    case (4); call cg_multifam_read_f(N, v%c32, v%c40, ier)
    case (5); call cg_multifam_read_f(N, v%c40, v%c8, ier)
    case (6); call cg_multifam_read_f(N, v%c40, v%c32, ier)
    case (7); call cg_multifam_read_f(N, v%c1, v%c33, ier)
    case (8); call cg_multifam_read_f(N, v%c80, v%c31, ier)
    end select
    op = 'multifam_read'
    call ier_out(ier); call dl_print('name', L(1)); call dl_print('fam', L(2))
    call nl()
  end subroutine

  subroutine op_dl2_descriptor_read()
    integer :: T, L(3)
    integer :: D, ier
    T = int(ti()); if (T < 1 .or. T > 8) T = 1
    L = TRIPLES(:, T); ier = -99
    D = int(ti())
    call dl_reset()
    select case (T)
    case (1); call cg_descriptor_read_f(D, v%c8, v%c32, ier)
    case (2); call cg_descriptor_read_f(D, v%c8, v%c40, ier)
    case (3); call cg_descriptor_read_f(D, v%c32, v%c8, ier)
    case (4); call cg_descriptor_read_f(D, v%c32, v%c40, ier)
    case (5); call cg_descriptor_read_f(D, v%c40, v%c8, ier)
    case (6); call cg_descriptor_read_f(D, v%c40, v%c32, ier)
    case (7); call cg_descriptor_read_f(D, v%c1, v%c33, ier)
    case (8); call cg_descriptor_read_f(D, v%c80, v%c31, ier)
    end select
    op = 'descriptor_read'
    call ier_out(ier); call dl_print('name', L(1)); call dl_print('text', L(2))
    call nl()
  end subroutine

  subroutine op_dl2_link_read()
    integer :: T, L(3)
    integer :: ier
    T = int(ti()); if (T < 1 .or. T > 8) T = 1
    L = TRIPLES(:, T); ier = -99
    call dl_reset()
    select case (T)
    case (1); call cg_link_read_f(v%c8, v%c32, ier)
    case (2); call cg_link_read_f(v%c8, v%c40, ier)
    case (3); call cg_link_read_f(v%c32, v%c8, ier)
    case (4); call cg_link_read_f(v%c32, v%c40, ier)
    case (5); call cg_link_read_f(v%c40, v%c8, ier)
    case (6); call cg_link_read_f(v%c40, v%c32, ier)
    case (7); call cg_link_read_f(v%c1, v%c33, ier)
    case (8); call cg_link_read_f(v%c80, v%c31, ier)
    end select
    op = 'link_read'
    call ier_out(ier); call dl_print('file', L(1)); call dl_print('path', L(2))
    call nl()
  end subroutine

  subroutine op_dl2_io_get_link()
    integer :: T, L(3)
    integer :: i, ier
    T = int(ti()); if (T < 1 .or. T > 8) T = 1
    L = TRIPLES(:, T); ier = -99
    i = int(ti())
    call dl_reset()
    select case (T)
    case (1); call cgio_get_link_f(cgio_n, ids(i), v%c8, v%c32, ier)
    case (2); call cgio_get_link_f(cgio_n, ids(i), v%c8, v%c40, ier)
    case (3); call cgio_get_link_f(cgio_n, ids(i), v%c32, v%c8, ier)
    case (4); call cgio_get_link_f(cgio_n, ids(i), v%c32, v%c40, ier)
    case (5); call cgio_get_link_f(cgio_n, ids(i), v%c40, v%c8, ier)
    case (6); call cgio_get_link_f(cgio_n, ids(i), v%c40, v%c32, ier)
    case (7); call cgio_get_link_f(cgio_n, ids(i), v%c1, v%c33, ier)
    case (8); call cgio_get_link_f(cgio_n, ids(i), v%c80, v%c31, ier)
    end select
    op = 'io_get_link'
    call ier_out(ier); call dl_print('file', L(1)); call dl_print('path', L(2))
    call nl()
  end subroutine

  subroutine op_dl2_io_file_version()
    integer :: T, L(3)
    integer :: ier
    T = int(ti()); if (T < 1 .or. T > 8) T = 1
    L = TRIPLES(:, T); ier = -99
    call dl_reset()
    select case (T)
    case (1); call cgio_file_version_f(cgio_n, v%c8, v%c32, v%c40, ier)
    case (2); call cgio_file_version_f(cgio_n, v%c8, v%c40, v%c32, ier)
    case (3); call cgio_file_version_f(cgio_n, v%c32, v%c8, v%c40, ier)
    case (4); call cgio_file_version_f(cgio_n, v%c32, v%c40, v%c8, ier)
    case (5); call cgio_file_version_f(cgio_n, v%c40, v%c8, v%c32, ier)
    case (6); call cgio_file_version_f(cgio_n, v%c40, v%c32, v%c8, ier)
    case (7); call cgio_file_version_f(cgio_n, v%c1, v%c33, v%c80, ier)
    case (8); call cgio_file_version_f(cgio_n, v%c80, v%c31, v%c1, ier)
    end select
    op = 'io_file_version'
    call ier_out(ier); call dl_print('ver', L(1)); call dl_print_oob('cdate', L(2)); call dl_print_oob('mdate', L(3))
    call nl()
  end subroutine

  subroutine op_dl2_geo_read()
    integer :: T, L(3)
    integer :: B, Fa, G, np, ier
    T = int(ti()); if (T < 1 .or. T > 8) T = 1
    L = TRIPLES(:, T); ier = -99
    B = int(ti()); Fa = int(ti()); G = int(ti()); np = -1
    call dl_reset()
    select case (T)
    case (1); call cg_geo_read_f(fn, B, Fa, G, v%c8, v%c32, v%c40, np, ier)
    case (2); call cg_geo_read_f(fn, B, Fa, G, v%c8, v%c40, v%c32, np, ier)
    case (3); call cg_geo_read_f(fn, B, Fa, G, v%c32, v%c8, v%c40, np, ier)
    case (4); call cg_geo_read_f(fn, B, Fa, G, v%c32, v%c40, v%c8, np, ier)
    case (5); call cg_geo_read_f(fn, B, Fa, G, v%c40, v%c8, v%c32, np, ier)
    case (6); call cg_geo_read_f(fn, B, Fa, G, v%c40, v%c32, v%c8, np, ier)
    case (7); call cg_geo_read_f(fn, B, Fa, G, v%c1, v%c33, v%c80, np, ier)
    case (8); call cg_geo_read_f(fn, B, Fa, G, v%c80, v%c31, v%c1, np, ier)
    end select
    op = 'geo_read'
    call ier_out(ier); if (ier == 0) call kv('np', int(np, 8)); call dl_print('name', L(1)); call dl_print('file', L(2)); call dl_print('cad', L(3))
    call nl()
  end subroutine

  subroutine op_dl2_one21_write()
    integer :: T, L(3)
    integer :: B, Z, I, ier, tr(3)
    integer(cgsize_t) :: r(6), dr(6)
    type(fstr) :: sv(3)
    T = int(ti()); if (T < 1 .or. T > 8) T = 1
    L = TRIPLES(:, T); ier = -99
    B = int(ti()); Z = int(ti()); I = -1; r = (/ 1, 1, 1, 1, 2, 2 /); dr = r; tr = (/ 1, 2, 3 /)
    call dl_reset()
    call ts(sv(1)); call dl_assign(L(1), sv(1)%p)
    call ts(sv(2)); call dl_assign(L(2), sv(2)%p)
    select case (T)
    case (1); call cg_1to1_write_f(fn, B, Z, v%c8, v%c32, r, dr, tr, I, ier)
    case (2); call cg_1to1_write_f(fn, B, Z, v%c8, v%c40, r, dr, tr, I, ier)
    case (3); call cg_1to1_write_f(fn, B, Z, v%c32, v%c8, r, dr, tr, I, ier)
    case (4); call cg_1to1_write_f(fn, B, Z, v%c32, v%c40, r, dr, tr, I, ier)
    case (5); call cg_1to1_write_f(fn, B, Z, v%c40, v%c8, r, dr, tr, I, ier)
    case (6); call cg_1to1_write_f(fn, B, Z, v%c40, v%c32, r, dr, tr, I, ier)
    case (7); call cg_1to1_write_f(fn, B, Z, v%c1, v%c33, r, dr, tr, I, ier)
    case (8); call cg_1to1_write_f(fn, B, Z, v%c80, v%c31, r, dr, tr, I, ier)
    end select
    op = '1to1_write'
    call ier_out(ier); if (ier == 0) call kv('I', int(I, 8))
    call nl()
  end subroutine

  subroutine op_dl2_conn_write_short()
    integer :: T, L(3)
    integer :: B, Z, I, ier
    integer(cgenum_t) :: loc, ct, ps
    integer(cgsize_t) :: np, pts(9)
    type(fstr) :: sv(3)
    T = int(ti()); if (T < 1 .or. T > 8) T = 1
    L = TRIPLES(:, T); ier = -99
    B = int(ti()); Z = int(ti()); I = -1; np = 3; pts = (/ 1, 1, 1, 2, 1, 1, 3, 1, 1 /); loc = Vertex; ct = Abutting; ps = PointList
    call dl_reset()
    call ts(sv(1)); call dl_assign(L(1), sv(1)%p)
    call ts(sv(2)); call dl_assign(L(2), sv(2)%p)
    select case (T)
    case (1); call cg_conn_write_short_f(fn, B, Z, v%c8, loc, ct, ps, np, pts(1), v%c32, I, ier)
    case (2); call cg_conn_write_short_f(fn, B, Z, v%c8, loc, ct, ps, np, pts(1), v%c40, I, ier)
    case (3); call cg_conn_write_short_f(fn, B, Z, v%c32, loc, ct, ps, np, pts(1), v%c8, I, ier)
    case (4); call cg_conn_write_short_f(fn, B, Z, v%c32, loc, ct, ps, np, pts(1), v%c40, I, ier)
    case (5); call cg_conn_write_short_f(fn, B, Z, v%c40, loc, ct, ps, np, pts(1), v%c8, I, ier)
    case (6); call cg_conn_write_short_f(fn, B, Z, v%c40, loc, ct, ps, np, pts(1), v%c32, I, ier)
    case (7); call cg_conn_write_short_f(fn, B, Z, v%c1, loc, ct, ps, np, pts(1), v%c33, I, ier)
    case (8); call cg_conn_write_short_f(fn, B, Z, v%c80, loc, ct, ps, np, pts(1), v%c31, I, ier)
    end select
    op = 'conn_write_short'
    call ier_out(ier); if (ier == 0) call kv('I', int(I, 8))
    call nl()
  end subroutine

  subroutine op_dl2_multifam_write()
    integer :: T, L(3)
    integer :: ier
    type(fstr) :: sv(3)
    T = int(ti()); if (T < 1 .or. T > 8) T = 1
    L = TRIPLES(:, T); ier = -99
    call dl_reset()
    call ts(sv(1)); call dl_assign(L(1), sv(1)%p)
    call ts(sv(2)); call dl_assign(L(2), sv(2)%p)
    select case (T)
    case (1); call cg_multifam_write_f(v%c8, v%c32, ier)
    case (2); call cg_multifam_write_f(v%c8, v%c40, ier)
    case (3); call cg_multifam_write_f(v%c32, v%c8, ier)
    case (4); call cg_multifam_write_f(v%c32, v%c40, ier)
    case (5); call cg_multifam_write_f(v%c40, v%c8, ier)
    case (6); call cg_multifam_write_f(v%c40, v%c32, ier)
    case (7); call cg_multifam_write_f(v%c1, v%c33, ier)
    case (8); call cg_multifam_write_f(v%c80, v%c31, ier)
    end select
    op = 'multifam_write'
    call ier_out(ier)
    call nl()
  end subroutine

  subroutine op_dl2_descriptor_write()
    integer :: T, L(3)
    integer :: ier
    type(fstr) :: sv(3)
    T = int(ti()); if (T < 1 .or. T > 8) T = 1
    L = TRIPLES(:, T); ier = -99
    call dl_reset()
    call ts(sv(1)); call dl_assign(L(1), sv(1)%p)
    call ts(sv(2)); call dl_assign(L(2), sv(2)%p)
    select case (T)
    case (1); call cg_descriptor_write_f(v%c8, v%c32, ier)
    case (2); call cg_descriptor_write_f(v%c8, v%c40, ier)
    case (3); call cg_descriptor_write_f(v%c32, v%c8, ier)
    case (4); call cg_descriptor_write_f(v%c32, v%c40, ier)
    case (5); call cg_descriptor_write_f(v%c40, v%c8, ier)
    case (6); call cg_descriptor_write_f(v%c40, v%c32, ier)
    case (7); call cg_descriptor_write_f(v%c1, v%c33, ier)
    case (8); call cg_descriptor_write_f(v%c80, v%c31, ier)
    end select
    op = 'descriptor_write'
    call ier_out(ier)
    call nl()
  end subroutine

  subroutine op_dl2_subreg_bcname_write()
    integer :: T, L(3)
    integer :: B, Z, S, dim, ier
    type(fstr) :: sv(3)
    T = int(ti()); if (T < 1 .or. T > 8) T = 1
    L = TRIPLES(:, T); ier = -99
    B = int(ti()); Z = int(ti()); dim = int(ti()); S = -1
    call dl_reset()
    call ts(sv(1)); call dl_assign(L(1), sv(1)%p)
    call ts(sv(2)); call dl_assign(L(2), sv(2)%p)
    select case (T)
    case (1); call cg_subreg_bcname_write_f(fn, B, Z, v%c8, dim, v%c32, S, ier)
    case (2); call cg_subreg_bcname_write_f(fn, B, Z, v%c8, dim, v%c40, S, ier)
    case (3); call cg_subreg_bcname_write_f(fn, B, Z, v%c32, dim, v%c8, S, ier)
    case (4); call cg_subreg_bcname_write_f(fn, B, Z, v%c32, dim, v%c40, S, ier)
    case (5); call cg_subreg_bcname_write_f(fn, B, Z, v%c40, dim, v%c8, S, ier)
    case (6); call cg_subreg_bcname_write_f(fn, B, Z, v%c40, dim, v%c32, S, ier)
    case (7); call cg_subreg_bcname_write_f(fn, B, Z, v%c1, dim, v%c33, S, ier)
    case (8); call cg_subreg_bcname_write_f(fn, B, Z, v%c80, dim, v%c31, S, ier)
    end select
    op = 'subreg_bcname_write'
    call ier_out(ier); if (ier == 0) call kv('S', int(S, 8))
    call nl()
  end subroutine

  subroutine op_dl2_link_write()
    integer :: T, L(3)
    integer :: ier
    type(fstr) :: sv(3)
    T = int(ti()); if (T < 1 .or. T > 8) T = 1
    L = TRIPLES(:, T); ier = -99
    call dl_reset()
    call ts(sv(1)); call dl_assign(L(1), sv(1)%p)
    call ts(sv(2)); call dl_assign(L(2), sv(2)%p)
    call ts(sv(3)); call dl_assign(L(3), sv(3)%p)
    select case (T)
    case (1); call cg_link_write_f(v%c8, v%c32, v%c40, ier)
    case (2); call cg_link_write_f(v%c8, v%c40, v%c32, ier)
    case (3); call cg_link_write_f(v%c32, v%c8, v%c40, ier)
    case (4); call cg_link_write_f(v%c32, v%c40, v%c8, ier)
    case (5); call cg_link_write_f(v%c40, v%c8, v%c32, ier)
    case (6); call cg_link_write_f(v%c40, v%c32, v%c8, ier)
    case (7); call cg_link_write_f(v%c1, v%c33, v%c80, ier)
    case (8); call cg_link_write_f(v%c80, v%c31, v%c1, ier)
    end select
    op = 'link_write'
    call ier_out(ier)
    call nl()
  end subroutine

  subroutine op_dl2_io_create_link()
    integer :: T, L(3)
    integer :: p, ier
    real(c_double) :: id
    type(fstr) :: sv(3)
    T = int(ti()); if (T < 1 .or. T > 8) T = 1
    L = TRIPLES(:, T); ier = -99
    p = int(ti()); id = 0
    call dl_reset()
    call ts(sv(1)); call dl_assign(L(1), sv(1)%p)
    call ts(sv(2)); call dl_assign(L(2), sv(2)%p)
    call ts(sv(3)); call dl_assign(L(3), sv(3)%p)
    select case (T)
    case (1); call cgio_create_link_f(cgio_n, ids(p), v%c8, v%c32, v%c40, id, ier)
    case (2); call cgio_create_link_f(cgio_n, ids(p), v%c8, v%c40, v%c32, id, ier)
    case (3); call cgio_create_link_f(cgio_n, ids(p), v%c32, v%c8, v%c40, id, ier)
    case (4); call cgio_create_link_f(cgio_n, ids(p), v%c32, v%c40, v%c8, id, ier)
    case (5); call cgio_create_link_f(cgio_n, ids(p), v%c40, v%c8, v%c32, id, ier)
    case (6); call cgio_create_link_f(cgio_n, ids(p), v%c40, v%c32, v%c8, id, ier)
    case (7); call cgio_create_link_f(cgio_n, ids(p), v%c1, v%c33, v%c80, id, ier)
    case (8); call cgio_create_link_f(cgio_n, ids(p), v%c80, v%c31, v%c1, id, ier)
    end select
    op = 'io_create_link'
    call ier_out(ier)
    if (ier == 0 .and. nids < 64) then
      ids(nids) = id; call kv('idx', int(nids, 8)); nids = nids + 1
    end if
    call nl()
  end subroutine

  subroutine op_dl2_io_new()
    integer :: T, L(3)
    integer :: p, nd, ier, k
    integer(cgsize_t) :: dim
    integer(c_int32_t) :: dat(64)
    real(c_double) :: id
    type(fstr) :: sv(3)
    T = int(ti()); if (T < 1 .or. T > 8) T = 1
    L = TRIPLES(:, T); ier = -99
    p = int(ti()); dim = ti(); nd = 1; id = 0
    do k = 0, 63
      dat(k + 1) = 100 + k
    end do
    call dl_reset()
    call ts(sv(1)); call dl_assign(L(1), sv(1)%p)
    call ts(sv(2)); call dl_assign(L(2), sv(2)%p)
    call ts(sv(3)); call dl_assign(L(3), sv(3)%p)
    select case (T)
    case (1); call cgio_new_node_f(cgio_n, ids(p), v%c8, v%c32, v%c40, nd, dim, dat, id, ier)
    case (2); call cgio_new_node_f(cgio_n, ids(p), v%c8, v%c40, v%c32, nd, dim, dat, id, ier)
    case (3); call cgio_new_node_f(cgio_n, ids(p), v%c32, v%c8, v%c40, nd, dim, dat, id, ier)
    case (4); call cgio_new_node_f(cgio_n, ids(p), v%c32, v%c40, v%c8, nd, dim, dat, id, ier)
    case (5); call cgio_new_node_f(cgio_n, ids(p), v%c40, v%c8, v%c32, nd, dim, dat, id, ier)
    case (6); call cgio_new_node_f(cgio_n, ids(p), v%c40, v%c32, v%c8, nd, dim, dat, id, ier)
    case (7); call cgio_new_node_f(cgio_n, ids(p), v%c1, v%c33, v%c80, nd, dim, dat, id, ier)
    case (8); call cgio_new_node_f(cgio_n, ids(p), v%c80, v%c31, v%c1, nd, dim, dat, id, ier)
    end select
    op = 'io_new'
    call ier_out(ier)
    if (ier == 0 .and. nids < 64) then
      ids(nids) = id; call kv('idx', int(nids, 8)); nids = nids + 1
    end if
    call nl()
  end subroutine

  subroutine op_dl2_geo_write()
    integer :: T, L(3)
    integer :: B, Fa, G, ier
    type(fstr) :: sv(3)
    T = int(ti()); if (T < 1 .or. T > 8) T = 1
    L = TRIPLES(:, T); ier = -99
    B = int(ti()); Fa = int(ti()); G = -1
    call dl_reset()
    call ts(sv(1)); call dl_assign(L(1), sv(1)%p)
    call ts(sv(2)); call dl_assign(L(2), sv(2)%p)
    call ts(sv(3)); call dl_assign(L(3), sv(3)%p)
    select case (T)
    case (1); call cg_geo_write_f(fn, B, Fa, v%c8, v%c32, v%c40, G, ier)
    case (2); call cg_geo_write_f(fn, B, Fa, v%c8, v%c40, v%c32, G, ier)
    case (3); call cg_geo_write_f(fn, B, Fa, v%c32, v%c8, v%c40, G, ier)
    case (4); call cg_geo_write_f(fn, B, Fa, v%c32, v%c40, v%c8, G, ier)
    case (5); call cg_geo_write_f(fn, B, Fa, v%c40, v%c8, v%c32, G, ier)
    case (6); call cg_geo_write_f(fn, B, Fa, v%c40, v%c32, v%c8, G, ier)
    case (7); call cg_geo_write_f(fn, B, Fa, v%c1, v%c33, v%c80, G, ier)
    case (8); call cg_geo_write_f(fn, B, Fa, v%c80, v%c31, v%c1, G, ier)
    end select
    op = 'geo_write'
    call ier_out(ier); if (ier == 0) call kv('G', int(G, 8))
    call nl()
  end subroutine

end module c20f_dl2
