! c20f_mll3.f90 -- mid-level-library operations of the Fortran driver, part 3: cg_goto_f / cg_gorel_f (module procedures
! with OPTIONAL label/index pairs) and the node-context calls.  Mirrors the `f` branches of harness/c20_wrap.c.
module c20f_mll3
  use c20f_m
  implicit none
contains

  subroutine op_goto()
    integer :: B, idx, ier
    character(len=:), allocatable :: lab
    B = int(ti()); lab = tw(); idx = int(ti())
    if (is_end(lab)) then
      call cg_goto_f(fn, B, ier, 'end')
    else
      call cg_goto_f(fn, B, ier, lab, idx, 'end')
    end if
    call ier_out(ier); call kv('open', int(fn_open, 8)); call nl()
  end subroutine

  subroutine op_gorel()
    integer :: idx, ier
    character(len=:), allocatable :: lab
    lab = tw(); idx = int(ti())
    if (is_end(lab)) then
      call cg_gorel_f(fn, ier, 'end')
    else
      call cg_gorel_f(fn, ier, lab, idx, 'end')
    end if
    call ier_out(ier); call nl()
  end subroutine

  subroutine op_descriptor_write()
    type(fstr) :: n, t
    integer :: ier
    call ts(n); call ts(t)
    call cg_descriptor_write_f(n%p, t%p, ier)
    call ier_out(ier); call nl()
  end subroutine

  subroutine op_ndescriptors()
    integer :: n, ier
    n = -1
    call cg_ndescriptors_f(n, ier)
    call ier_out(ier); if (ier == 0) call kv('n', int(n, 8)); call nl()
  end subroutine

  subroutine op_descriptor_size()
    integer :: D, sz, ier
    D = int(ti()); sz = -1
    call cg_descriptor_size_f(D, sz, ier)
    call ier_out(ier); if (ier == 0) call kv('size', int(sz, 8)); call nl()
  end subroutine

  subroutine op_descriptor_read()
    type(fout) :: o, o2
    integer :: D, ier
    D = int(ti()); call fo(o, int(ti())); call fo(o2, int(ti()))
    call cg_descriptor_read_f(D, o%a(GUARD + 1:GUARD + o%n), o2%a(GUARD + 1:GUARD + o2%n), ier)
    call ier_out(ier); call pf('name', o); call pf('text', o2); call nl()
  end subroutine

  subroutine op_famname_write()
    type(fstr) :: n
    integer :: ier
    call ts(n)
    call cg_famname_write_f(n%p, ier)
    call ier_out(ier); call nl()
  end subroutine

  subroutine op_famname_read()
    type(fout) :: o
    integer :: ier
    call fo(o, int(ti()))
    call cg_famname_read_f(o%a(GUARD + 1:GUARD + o%n), ier)
    call ier_out(ier); call pf('fam', o); call nl()
  end subroutine

  subroutine op_multifam_write()
    type(fstr) :: n, f
    integer :: ier
    call ts(n); call ts(f)
    call cg_multifam_write_f(n%p, f%p, ier)
    call ier_out(ier); call nl()
  end subroutine

  subroutine op_nmultifam()
    integer :: n, ier
    n = -1
    call cg_nmultifam_f(n, ier)
    call ier_out(ier); if (ier == 0) call kv('n', int(n, 8)); call nl()
  end subroutine

  subroutine op_multifam_read()
    type(fout) :: o, o2
    integer :: N, ier
    N = int(ti()); call fo(o, int(ti())); call fo(o2, int(ti()))
    call cg_multifam_read_f(N, o%a(GUARD + 1:GUARD + o%n), o2%a(GUARD + 1:GUARD + o2%n), ier)
    call ier_out(ier); call pf('name', o); call pf('fam', o2); call nl()
  end subroutine

  subroutine op_user_data_write()
    type(fstr) :: n
    integer :: ier
    call ts(n)
    call cg_user_data_write_f(n%p, ier)
    call ier_out(ier); call nl()
  end subroutine

  subroutine op_nuser_data()
    integer :: n, ier
    n = -1
    call cg_nuser_data_f(n, ier)
    call ier_out(ier); if (ier == 0) call kv('n', int(n, 8)); call nl()
  end subroutine

  subroutine op_user_data_read()
    type(fout) :: o
    integer :: i, ier
    i = int(ti()); call fo(o, int(ti()))
    call cg_user_data_read_f(i, o%a(GUARD + 1:GUARD + o%n), ier)
    call ier_out(ier); call pf('name', o); call nl()
  end subroutine

  subroutine op_array_write()
    type(fstr) :: n
    integer :: nd, ier
    integer(cgenum_t) :: ty
    integer(cgsize_t) :: dim
    integer(8) :: i
    real(c_double), allocatable :: d(:)
    call ts(n); ty = RealDouble; dim = ti(); nd = 1
    allocate(d(max(dim, 0_8) + 1))
    do i = 0, dim - 1
      d(i + 1) = 1.0d0 + i
    end do
    call cg_array_write_f(n%p, ty, nd, dim, d, ier)
    call ier_out(ier); call nl()
  end subroutine

  subroutine op_array_read()
    integer :: A, ier
    integer(8) :: dim
    real(c_double), allocatable, target :: d(:)
    A = int(ti()); dim = ti()
    allocate(d(max(dim, 0_8) + 1)); d = 0.0d0
    call cg_array_read_f(A, d, ier)
    call ier_out(ier); if (ier == 0) call emit_h64('h', c20f_fnv(c_loc(d), int(8 * dim, c_size_t))); call nl()
  end subroutine

  subroutine op_link_write()
    type(fstr) :: n, f, p
    integer :: ier
    call ts(n); call ts(f); call ts(p)
    call cg_link_write_f(n%p, f%p, p%p, ier)
    call ier_out(ier); call nl()
  end subroutine

  subroutine op_is_link()
    integer :: n, ier
    n = -1
    call cg_is_link_f(n, ier)
    call ier_out(ier); if (ier == 0) call kv('len', int(n, 8)); call nl()
  end subroutine

  subroutine op_link_read()
    type(fout) :: o, o2
    integer :: ier
    call fo(o, int(ti())); call fo(o2, int(ti()))
    call cg_link_read_f(o%a(GUARD + 1:GUARD + o%n), o2%a(GUARD + 1:GUARD + o2%n), ier)
    call ier_out(ier); call pf('file', o); call pf('path', o2); call nl()
  end subroutine

  subroutine op_delete_node()
    type(fstr) :: n
    integer :: ier
    call ts(n)
    call cg_delete_node_f(n%p, ier)
    call ier_out(ier); call nl()
  end subroutine

  subroutine op_state_write()
    type(fstr) :: t
    integer :: ier
    call ts(t)
    call cg_state_write_f(t%p, ier)
    call ier_out(ier); call nl()
  end subroutine

  subroutine op_state_size()
    integer :: sz, ier
    sz = -1
    call cg_state_size_f(sz, ier)
    call ier_out(ier); if (ier == 0) call kv('size', int(sz, 8)); call nl()
  end subroutine

  subroutine op_state_read()
    type(fout) :: o
    integer :: ier
    call fo(o, int(ti()))
    call cg_state_read_f(o%a(GUARD + 1:GUARD + o%n), ier)
    call ier_out(ier); call pf('text', o); call nl()
  end subroutine

  subroutine op_convergence_write()
    type(fstr) :: t
    integer :: it, ier
    it = int(ti()); call ts(t)
    call cg_convergence_write_f(it, t%p, ier)
    call ier_out(ier); call nl()
  end subroutine

  subroutine op_convergence_read()
    type(fout) :: o
    integer :: it, ier
    call fo(o, int(ti())); it = -1
    call cg_convergence_read_f(it, o%a(GUARD + 1:GUARD + o%n), ier)
    call ier_out(ier); if (ier == 0) call kv('it', int(it, 8)); call pf('text', o); call nl()
  end subroutine

  subroutine op_integral_write()
    type(fstr) :: n
    integer :: ier
    call ts(n)
    call cg_integral_write_f(n%p, ier)
    call ier_out(ier); call nl()
  end subroutine

  subroutine op_integral_read()
    type(fout) :: o
    integer :: i, ier
    i = int(ti()); call fo(o, int(ti()))
    call cg_integral_read_f(i, o%a(GUARD + 1:GUARD + o%n), ier)
    call ier_out(ier); call pf('name', o); call nl()
  end subroutine

  subroutine op_model_write()
    type(fstr) :: n
    integer :: ier
    integer(cgenum_t) :: t
    call ts(n); t = int(ti(), cgenum_t)
    call cg_model_write_f(n%p, t, ier)
    call ier_out(ier); call nl()
  end subroutine

  subroutine op_model_read()
    type(fstr) :: n
    integer :: ier
    integer(cgenum_t) :: t
    call ts(n); t = 0
    call cg_model_read_f(n%p, t, ier)
    call ier_out(ier); if (ier == 0) call kv('t', int(t, 8)); call nl()
  end subroutine

  subroutine op_equationset_write()
    integer :: d, ier
    d = int(ti())
    call cg_equationset_write_f(d, ier)
    call ier_out(ier); call nl()
  end subroutine

  subroutine op_dataclass_write()
    integer :: ier
    integer(cgenum_t) :: d
    d = int(ti(), cgenum_t)
    call cg_dataclass_write_f(d, ier)
    call ier_out(ier); call nl()
  end subroutine

  subroutine op_dataclass_read()
    integer :: ier
    integer(cgenum_t) :: d
    d = 0
    call cg_dataclass_read_f(d, ier)
    call ier_out(ier); if (ier == 0) call kv('v', int(d, 8)); call nl()
  end subroutine

  subroutine op_ordinal_write()
    integer :: d, ier
    d = int(ti())
    call cg_ordinal_write_f(d, ier)
    call ier_out(ier); call nl()
  end subroutine

  subroutine op_ordinal_read()
    integer :: d, ier
    d = -1
    call cg_ordinal_read_f(d, ier)
    call ier_out(ier); if (ier == 0) call kv('v', int(d, 8)); call nl()
  end subroutine

  subroutine op_units_write()
    integer :: ier
    integer(cgenum_t) :: m, l, t, k, a
    m = int(ti(), cgenum_t); l = int(ti(), cgenum_t); t = int(ti(), cgenum_t); k = int(ti(), cgenum_t); a = int(ti(), cgenum_t)
    call cg_units_write_f(m, l, t, k, a, ier)
    call ier_out(ier); call nl()
  end subroutine

  subroutine op_units_read()
    integer :: ier
    integer(cgenum_t) :: m, l, t, k, a
    m = 0; l = 0; t = 0; k = 0; a = 0
    call cg_units_read_f(m, l, t, k, a, ier)
    call ier_out(ier)
    if (ier == 0) then
      call kv('u', int(m, 8)); call emit(','); call emit_i(int(l, 8)); call emit(','); call emit_i(int(t, 8))
      call emit(','); call emit_i(int(k, 8)); call emit(','); call emit_i(int(a, 8))
    end if
    call nl()
  end subroutine

  subroutine op_gridlocation_write()
    integer :: ier
    integer(cgenum_t) :: g
    g = int(ti(), cgenum_t)
    call cg_gridlocation_write_f(g, ier)
    call ier_out(ier); call nl()
  end subroutine

  subroutine op_gridlocation_read()
    integer :: ier
    integer(cgenum_t) :: g
    g = 0
    call cg_gridlocation_read_f(g, ier)
    call ier_out(ier); if (ier == 0) call kv('v', int(g, 8)); call nl()
  end subroutine

  subroutine op_rind_write()
    integer :: r(6), ier, i
    do i = 1, 6
      r(i) = int(ti())
    end do
    call cg_rind_write_f(r, ier)
    call ier_out(ier); call nl()
  end subroutine

  subroutine op_rind_read()
    integer :: r(6), ier, i
    r = -1
    call cg_rind_read_f(r, ier)
    call ier_out(ier)
    if (ier == 0) then
      call kv('r', int(r(1), 8))
      do i = 2, 6
        call emit(','); call emit_i(int(r(i), 8))
      end do
    end if
    call nl()
  end subroutine

  subroutine op_get_error()
    type(fout) :: o
    call fo(o, int(ti()))
    call cg_get_error_f(o%a(GUARD + 1:GUARD + o%n))
    call emit(trim(op)); call pf('msg', o); call nl()
  end subroutine
end module c20f_mll3
