/* c17_io.c -- implementation side of the C17 correspondence at the cgio / ADF level.
   Drives cgio_open_file / cgio_get_node_id + cgio_get_label (link traversal) / cgio_close_file of the library rebuilt from the
   working tree with the script the extracted Refcount model runs, and after EVERY operation prints
     - the result of the call,
     - the cgio handle table (num_open, num_iolist, per slot the ADF file index it refers to),
     - the ADF file table ADF_file[0..maximum_files) (in_use, descriptor present, file name, links[]),
     - the number of descriptors of this process beyond the baseline taken before the session (/proc/self/fd),
     - the number of open HDF5 identifiers (H5Fget_obj_count(H5F_OBJ_ALL, H5F_OBJ_ALL)).
   cgns_io.c is #included (from the tree under test) so that its static handle table can be read; every other object
   comes from the freshly built libcgns.a.

   usage: c17_io <dir> <adf|hdf5>        script on stdin:
     world <kinds> <links>   kinds = csv of ok|okL|okB|okE|missing|garbage|badhdr|dir|empty|x... (x...: file supplied by the driver) (file F<i>.cgio has kind number i; ok* =
                             valid files in the NATIVE / LEGACY / IEEE_BIG / IEEE_LITTLE layout);
                             links = csv of a>b (file a has, under its node /D, a link node L<b> to F<b>.cgio:/D) or -
                             (files are created in a forked child; the descriptor baseline is taken afterwards)
     open <n> <r|m>          cgio_open_file(F<n>, mode, CGIO_FILE_NONE)       -> "open ok <cgio number>" | "open err 0"
     walk <c> <n1> <n2> ..   cgio_get_node_id(c, root, "/D/L<n1>/L<n2>..") then cgio_get_label of it  -> "walk <ok|err>"
     node <c> <n1> <n2> ..   the same for the ordinary child X of the last linked-to node ("/D/L<n1>/../X"): for the ADF
                             bookkeeping this is the same traversal, for HDF5 the identifier returned lives in the last file
     close <c>               cgio_close_file(c)                               -> "close <status>"
     data <c> <type> <n> <all|block|strided>   node /T_<type> (C1 B1 I4 U4 I8 U8 R4 R8 X4 X8): set dimensions, write, read back
     bad <c> <entry> <class>  a data call with an invalid argument (see the op's comment): every cgio data entry point x every
                             class of argument that is rejected after objects were opened
     multi <c> <type> <n1> <n2> <reps>   successful writes / reads of a node with several data chunks (see the op's comment)
     strand <c> <kind>       (HDF5) abandon an open identifier of kind dataset|group|attr|datatype on a node of the file
     badnode <c> <call>      a refused node-level call (see the op's comment)
     cycle <k>               (oracle runs) marks the end of one repetition of the session: prints heap / fds / h5
                             (h5 counts file-less identifiers too: see c17_common.c)
   a link "a>b!" / a walk step "b!" is the link node X<b> whose stored path /Nope does not exist in F<b> (dangling path)
*/
#include "c17_common.c"
#include "cgns_io.c"
#include "adf/ADF.h"
#include "adf/ADF_internals.h"

static char dir[600];
static int is_h5 = 0;
static int fd0 = 0;
static int last_ec = 0;

static void path_of(int n, char *out) { sprintf(out, "%s/F%d.cgio", dir, n); }

/* an ADF file in one of the layouts the library can write: ok = NATIVE, okL = LEGACY ("ADF Database Version A": ASCII-hex
   disk pointers, 32-bit dimensions), okB = IEEE_BIG, okE = IEEE_LITTLE -- only the ADF core interface takes the format */
static void make_adf_file(int i, const char *p, const char *kind, const char *links)
{
    const char *fmt = !strcmp(kind, "okL") ? "LEGACY" : !strcmp(kind, "okB") ? "IEEE_BIG" : !strcmp(kind, "okE") ? "IEEE_LITTLE" : "NATIVE";
    char ln[4096], *s2, *e; double root, did, lid; int err;
    remove(p);
    ADF_Database_Open(p, "NEW", fmt, &root, &err);
    if (err != -1) { printf("worldfail adfopen %d %d\n", i, err); exit(3); }
    ADF_Create(root, "D", &did, &err); ADF_Set_Label(did, "Data_t", &err);
    ADF_Create(did, "X", &lid, &err); ADF_Set_Label(lid, "Data_t", &err);
    strncpy(ln, links, sizeof ln - 1); ln[sizeof ln - 1] = 0;
    for (e = strtok_r(ln, ",", &s2); e; e = strtok_r(NULL, ",", &s2)) {
        int a, b, dang; char nm[40], fn[40];
        if (sscanf(e, "%d>%d", &a, &b) != 2 || a != i) continue;
        dang = e[strlen(e) - 1] == '!';                 /* a>b! : the file F<b> may exist, the stored path never does */
        sprintf(nm, "%c%d", dang ? 'X' : 'L', b); sprintf(fn, "F%d.cgio", b);
        ADF_Link(did, nm, fn, dang ? "/Nope" : "/D", &lid, &err);
        if (err != -1) { printf("worldfail link %d>%d %d\n", a, b, err); exit(3); }
    }
    ADF_Database_Close(root, &err);
    if (err != -1) { printf("worldfail adfclose %d %d\n", i, err); exit(3); }
}

static void make_world(char *kinds, char *links)
{
    char *k[64], *save, *t; int nk = 0, i;
    for (t = strtok_r(kinds, ",", &save); t && nk < 64; t = strtok_r(NULL, ",", &save)) k[nk++] = t;
    for (i = 0; i < nk; i++) {
        char p[700]; path_of(i, p);
        if (!strcmp(k[i], "garbage") || !strcmp(k[i], "badhdr")) {
            FILE *f = fopen(p, "wb"); int j;
            if (!strcmp(k[i], "badhdr")) fputs("@(#)ADF Database Version B02012>", f);
            for (j = 0; j < 64; j++) fputc(33 + (j * 7) % 90, f);
            fclose(f);
        } else if (!strcmp(k[i], "dir")) mkdir(p, 0777);
        else if (!strcmp(k[i], "empty")) { FILE *f = fopen(p, "wb"); if (f) fclose(f); }
        /* kinds starting with 'x': the file F<i>.cgio was put there by the driver (a file some open path refuses: checks/C17.py
           refused_pool -- header mutants and truncations derived with the C13 machinery) */
    }
    for (i = 0; i < nk; i++) {
        char p[700], ln[4096], *s2, *e; int c; double root, did, lid;
        if (strncmp(k[i], "ok", 2)) continue;
        path_of(i, p);
        if (!is_h5) { make_adf_file(i, p, k[i], links); continue; }
        if (cgio_open_file(p, 'w', CGIO_FILE_HDF5, &c)) { printf("worldfail open %d\n", i); exit(3); }
        cgio_get_root_id(c, &root);
        if (cgio_create_node(c, root, "D", &did) || cgio_set_label(c, did, "Data_t") ||
            cgio_create_node(c, did, "X", &lid) || cgio_set_label(c, lid, "Data_t")) { printf("worldfail node %d\n", i); exit(3); }
        strncpy(ln, links, sizeof ln - 1); ln[sizeof ln - 1] = 0;
        for (e = strtok_r(ln, ",", &s2); e; e = strtok_r(NULL, ",", &s2)) {
            int a, b, dang; char nm[40], fn[40];
            if (sscanf(e, "%d>%d", &a, &b) != 2 || a != i) continue;
            dang = e[strlen(e) - 1] == '!';                 /* a>b! : the file F<b> may exist, the stored path never does */
            sprintf(nm, "%c%d", dang ? 'X' : 'L', b); sprintf(fn, "F%d.cgio", b);
            if (cgio_create_link(c, did, nm, fn, dang ? "/Nope" : "/D", &lid)) { printf("worldfail link %d>%d\n", a, b); exit(3); }
        }
        if (cgio_close_file(c)) { printf("worldfail close %d\n", i); exit(3); }
    }
}

static int name_id(const char *fn)
{
    const char *b;
    if (!fn) return -1;
    b = strrchr(fn, '/'); b = b ? b + 1 : fn;
    return (b[0] == 'F') ? atoi(b + 1) : -2;
}

static void dump_state(void)
{
    int i, j;
    printf(" | io %d %d ", num_open, num_iolist);
    for (i = 0; i < num_iolist; i++) {
        if (i) printf(",");
        if (iolist[i].type == CGIO_FILE_NONE) printf("-");
        else if (iolist[i].type == CGIO_FILE_HDF5) printf("H");
        else {
            unsigned int fi = 0; cgulong_t b, o; int err;
            ADFI_ID_2_file_block_offset(iolist[i].rootid, &fi, &b, &o, &err);
            if (err == NO_ERROR || err == BLOCK_OFFSET_OUT_OF_RANGE) printf("%u", fi); else printf("?");
        }
    }
    if (num_iolist == 0) printf("-");
    printf(" | adf %d ", maximum_files);
    for (i = 0; i < maximum_files; i++) {
        if (i) printf(";");
        printf("%d:%d:%d:", ADF_file[i].in_use, ADF_file[i].in_use ? (ADF_file[i].file >= 0) : 0,
               ADF_file[i].in_use ? name_id(ADF_file[i].file_name) : -1);
        if (ADF_file[i].in_use == 0 || ADF_file[i].nlinks == 0) printf("-");
        else for (j = 0; j < ADF_file[i].nlinks; j++) printf("%s%u", j ? "," : "", ADF_file[i].links[j]);
        /* the per-file attributes of an entry in use: old_version, format, os_size, link_separator, version update pending */
        if (ADF_file[i].in_use) printf(":%d%c%c%c%d", ADF_file[i].old_version, ADF_file[i].format ? ADF_file[i].format : '0',
                                       ADF_file[i].os_size ? ADF_file[i].os_size : '0',
                                       ADF_file[i].link_separator == ' ' ? '_' : ADF_file[i].link_separator, ADF_file[i].version_update[0] != 0);
        else printf(":-");
    }
    if (maximum_files == 0) printf("-");
    printf(" | fds %d h5 %ld", fd_count() - fd0, h5_count());
    if (last_ec) { printf(" | ec %d", last_ec); last_ec = 0; }      /* the error code of a refused open (never compared with the model) */
    if (is_h5) {
        /* identifier census by kind (datatypes,datasets,attributes,groups): of the whole process, then of the file of every
           open cgio handle (ids opened through that file: what ADFH_Database_Close will look at) */
        static const unsigned kinds[4] = {H5F_OBJ_DATATYPE, H5F_OBJ_DATASET, H5F_OBJ_ATTR, H5F_OBJ_GROUP};
        printf(" | h5k");
        for (j = 0; j < 4; j++) printf("%s%ld", j ? "," : " ", (long)H5Fget_obj_count((hid_t)H5F_OBJ_ALL, kinds[j]));
        for (i = 0; i < num_iolist; i++) {
            hid_t hid, fid;
            if (iolist[i].type != CGIO_FILE_HDF5) continue;
            to_HDF_ID(iolist[i].rootid, hid);
            fid = H5Iget_file_id(hid);
            if (fid < 0) { printf(" %d=?", i + 1); continue; }
            printf(" %d=", i + 1);
            for (j = 0; j < 4; j++) printf("%s%ld", j ? "," : "", (long)H5Fget_obj_count(fid, kinds[j] | H5F_OBJ_LOCAL));
            H5Fclose(fid);
        }
    }
    printf("\n");
    fflush(stdout);
}

int main(int argc, char **argv)
{
    char line[8192];
    if (argc < 3) return 2;
    strncpy(dir, argv[1], sizeof dir - 1);
    is_h5 = !strcmp(argv[2], "hdf5");
    fd0 = fd_count();
    while (fgets(line, sizeof line, stdin)) {
        char a[4096], b[4096]; int n, c, st0 = 0, k0 = 0; char m;
        size_t L = strlen(line);
        while (L && (line[L - 1] == '\n' || line[L - 1] == '\r')) line[--L] = 0;
        if (!L || line[0] == '#') continue;
        if (sscanf(line, "world %4095s %4095s", a, b) == 2) {
            pid_t pid; int st = 0;
            fflush(stdout);
            pid = fork();
            if (pid == 0) { make_world(a, b); fflush(stdout); _exit(0); }
            waitpid(pid, &st, 0);
            if (!WIFEXITED(st) || WEXITSTATUS(st) != 0) { printf("worldfail child %d\n", st); return 3; }
            fd0 = fd_count();
            printf("world ok"); dump_state();
        } else if (sscanf(line, "open %d %c", &n, &m) == 2) {
            static char p[2400]; int st;
            path_of(n, p); c = 0;
            if (n == 63) {      /* a file name longer than any the library accepts (CGIO_MAX_FILE_LENGTH / ADF_FILENAME_LENGTH) */
                size_t q = strlen(dir); memset(p + q + 1, 'L', 1500); strcpy(p + q + 1501, ".cgio");
            }
            st = cgio_open_file(p, m, CGIO_FILE_NONE, &c);
            last_ec = 0;
            if (st) { int ft = 0; cgio_error_code(&last_ec, &ft); }
            if (st) printf("open err 0"); else printf("open ok %d", c); dump_state();
        } else if (!strncmp(line, "walk ", 5) || !strncmp(line, "node ", 5)) {
            char path[4096] = "/D", *s, *t; int st; double root = 0, id = 0; char label[CGIO_MAX_LABEL_LENGTH + 1];
            int leaf = line[0] == 'n';
            t = strtok_r(line + 5, " ", &s); c = t ? atoi(t) : 0;
            for (t = strtok_r(NULL, " ", &s); t; t = strtok_r(NULL, " ", &s)) {
                size_t tl = strlen(t);
                if (tl && t[tl - 1] == '!') { strcat(path, "/X"); strncat(path, t, tl - 1); }      /* the dangling-path link to that file */
                else { strcat(path, "/L"); strcat(path, t); }
            }
            if (leaf) strcat(path, "/X");
            st = cgio_get_root_id(c, &root);
            if (!st) st = cgio_get_node_id(c, root, path, &id);
            if (!st) st = cgio_get_label(c, id, label);
            if (!st && strcmp(label, "Data_t")) { printf("walk wronglabel[%s]", label); dump_state(); continue; }
            printf("walk %s", st ? "err" : "ok"); dump_state();
        } else if (sscanf(line, "data %d %7s %d %15s", &c, a, &n, b) == 4) {
            /* data <c> <type> <n> <all|block|strided>: node /T_<type> of the file behind handle c: (create,) set dimensions,
               write and read back in the given manner.  No effect on any handle table; exercises every data type of the back ends */
            double root = 0, id = 0; char path[40]; cgsize_t dim = n, one = 1, half = n / 2 ? n / 2 : 1, two = 2, last, mcount; int st;
            static double buf[4096];
            memset(buf, 0x11, sizeof buf);
            if (n > 200) n = 200;
            dim = n; last = n; mcount = (n + 1) / 2;
            sprintf(path, "T_%s", a);
            st = cgio_get_root_id(c, &root);
            if (!st && cgio_get_node_id(c, root, path, &id)) st = cgio_create_node(c, root, path, &id);
            if (!st) st = cgio_set_dimensions(c, id, a, 1, &dim);
            if (!st && !strcmp(b, "all")) { st = cgio_write_all_data(c, id, buf); if (!st) st = cgio_read_all_data_type(c, id, a, buf); }
            else if (!st && !strcmp(b, "block")) { st = cgio_write_block_data(c, id, one, half, buf); if (!st) st = cgio_read_block_data_type(c, id, one, half, a, buf); }
            else if (!st) {
                st = cgio_write_data(c, id, &one, &last, &two, 1, &mcount, &one, &mcount, &one, buf);
                if (!st) st = cgio_read_data_type(c, id, &one, &last, &two, a, 1, &mcount, &one, &mcount, &one, buf);
            }
            printf("data %s", st ? "err" : "ok"); dump_state();
        } else if (sscanf(line, "multi %d %7s %d %d %d", &c, a, &n, &st0, &k0) == 5) {
            /* multi <c> <type> <n1> <n2> <reps>: a node whose data lives in TWO OR MORE data chunks (ADF), the recipe of the C02c
               layer: write n1 elements, enlarge in place with cgio_set_dimensions (same type and rank) to n2 > n1, write again (a
               further chunk is added), enlarge to n2 + n1 and write (a third); then <reps> times: rewrite everything at its size,
               read everything, rewrite and read a block that spans the chunk boundary, a strided write and read.  All calls
               are valid and must succeed; nothing may stay allocated behind them. */
            double root = 0, id = 0; char path[40]; int st, r; cgsize_t d1 = n, d2 = st0, d3 = (cgsize_t)n + st0, one = 1, two = 2, lo, hi, mc;
            static double buf[8192];
            memset(buf, 0x22, sizeof buf);
            if (d3 > 2000) { printf("multi toolarge"); dump_state(); continue; }
            sprintf(path, "M_%s", a);
            st = cgio_get_root_id(c, &root);
            if (!st && !cgio_get_node_id(c, root, path, &id)) st = cgio_delete_node(c, root, id);
            if (!st) st = cgio_create_node(c, root, path, &id);
            if (!st) st = cgio_set_dimensions(c, id, a, 1, &d1);
            if (!st) st = cgio_write_all_data(c, id, buf);
            if (!st) st = cgio_set_dimensions(c, id, a, 1, &d2);
            if (!st) st = cgio_write_all_data(c, id, buf);
            if (!st) st = cgio_set_dimensions(c, id, a, 1, &d3);
            if (!st) st = cgio_write_all_data(c, id, buf);
            lo = d1 > 2 ? d1 - 1 : 1; hi = d2 + 1 <= d3 ? d2 + 1 : d3; mc = (d3 + 1) / 2;
            for (r = 0; r < k0 && !st; r++) {
                st = cgio_write_all_data(c, id, buf);
                if (!st) st = cgio_read_all_data_type(c, id, a, buf);
                if (!st) st = cgio_write_block_data(c, id, lo, hi, buf);
                if (!st) st = cgio_read_block_data_type(c, id, lo, hi, a, buf);
                if (!st) st = cgio_write_data(c, id, &one, &d3, &two, 1, &mc, &one, &mc, &one, buf);
                if (!st) st = cgio_read_data_type(c, id, &one, &d3, &two, a, 1, &mc, &one, &mc, &one, buf);
            }
            printf("multi %s", st ? "err" : "ok"); dump_state();
        } else if (sscanf(line, "strand %d %15s", &c, a) == 2) {
            /* strand <c> <dataset|group|attr|datatype>: (HDF5) open one more identifier of that kind on the node /T_R8 of the file
               behind handle c with libhdf5 directly and abandon it -- what a call that fails half-way does.  The close of the
               file "frees up all open accesses" (ADFH_Database_Close): identifiers of every kind. */
            double root = 0, id = 0; static double buf[8]; int st; cgsize_t dim = 8; hid_t hid, x = -1; long q;
            if (!is_h5) { printf("strand na"); dump_state(); continue; }
            st = cgio_get_root_id(c, &root);
            if (!st && cgio_get_node_id(c, root, "T_R8", &id)) {
                st = cgio_create_node(c, root, "T_R8", &id);
                if (!st) st = cgio_set_dimensions(c, id, "R8", 1, &dim);
                if (!st) st = cgio_write_all_data(c, id, buf);
            }
            if (st) { printf("strand setup"); dump_state(); continue; }
            to_HDF_ID(id, hid);
            q = h5_count();
            if (!strcmp(a, "dataset")) x = H5Dopen2(hid, " data", H5P_DEFAULT);
            else if (!strcmp(a, "group")) x = H5Gopen2(hid, ".", H5P_DEFAULT);
            else if (!strcmp(a, "attr")) x = H5Aopen(hid, "name", H5P_DEFAULT);
            else {      /* a committed datatype whose link is removed at once: the object lives as long as the identifier */
                x = H5Tcopy(H5T_NATIVE_INT);
                if (x >= 0 && H5Tcommit2(hid, " strand", x, H5P_DEFAULT, H5P_DEFAULT, H5P_DEFAULT) < 0) { H5Tclose(x); x = -1; }
                if (x >= 0) H5Ldelete(hid, " strand", H5P_DEFAULT);
            }
            printf("strand %s ids+%ld", x >= 0 ? "ok" : "err", h5_count() - q); dump_state();
        } else if (sscanf(line, "badnode %d %23s", &c, a) == 2) {
            /* badnode <c> <call>: a node-level cgio call that is refused (or has nothing to return) on the tree /D (children X and
               the link nodes) of the file behind handle c; like "bad", the HDF5 identifiers are counted around the call itself.
               calls: kids_leaf kids_past names_leaf names_past  (children ids / names of a childless node, of a range past the end)
                      getid_missing label_long name_dup name_long dims_type dims_rank linksize_nolink getlink_nolink
                      newnode_dup newnode_type move_missing delete_notchild */
            double root = 0, did = 0, xid = 0, tmp = 0, ids[8]; int st, cnt = 0, l1 = 0, l2 = 0; long q; char names[8 * 33], f1[64], f2[64];
            cgsize_t dim = 3, dims13[13] = {1,1,1,1,1,1,1,1,1,1,1,1,1};
            st = cgio_get_root_id(c, &root);
            if (!st) st = cgio_get_node_id(c, root, "D", &did);
            if (!st) st = cgio_get_node_id(c, did, "X", &xid);
            if (!st && !strcmp(a, "name_dup") && cgio_get_node_id(c, did, "Y", &tmp)) cgio_create_node(c, did, "Y", &tmp);   /* (fails read-only) */
            if (st) { printf("badnode setup"); dump_state(); continue; }
            q = h5_count();
            if (!strcmp(a, "kids_leaf")) st = cgio_children_ids(c, xid, 1, 8, &cnt, ids);
            else if (!strcmp(a, "kids_past")) st = cgio_children_ids(c, did, 50, 8, &cnt, ids);
            else if (!strcmp(a, "names_leaf")) st = cgio_children_names(c, xid, 1, 8, 33, &cnt, names);
            else if (!strcmp(a, "names_past")) st = cgio_children_names(c, did, 50, 8, 33, &cnt, names);
            else if (!strcmp(a, "getid_missing")) st = cgio_get_node_id(c, did, "NoSuchChild/Deeper", &tmp);
            else if (!strcmp(a, "label_long")) st = cgio_set_label(c, xid, "ALabelThatIsLongerThanThirtyTwoCharacters");
            else if (!strcmp(a, "name_dup")) st = cgio_set_name(c, did, tmp, "X");
            else if (!strcmp(a, "name_long")) st = cgio_set_name(c, did, xid, "ANameThatIsLongerThanThirtyTwoCharacters");
            else if (!strcmp(a, "dims_type")) st = cgio_set_dimensions(c, xid, "Q9", 1, &dim);
            else if (!strcmp(a, "dims_rank")) st = cgio_set_dimensions(c, xid, "I4", 13, dims13);
            else if (!strcmp(a, "linksize_nolink")) st = cgio_link_size(c, xid, &l1, &l2);
            else if (!strcmp(a, "getlink_nolink")) st = cgio_get_link(c, xid, f1, f2);
            else if (!strcmp(a, "newnode_dup")) st = cgio_new_node(c, did, "X", "Data_t", "I4", 1, &dim, dims13, &tmp);
            else if (!strcmp(a, "newnode_type")) st = cgio_new_node(c, did, "Z9", "Data_t", "Q9", 1, &dim, dims13, &tmp);
            else if (!strcmp(a, "move_missing")) st = cgio_move_node(c, xid, did, root);          /* D is not a child of X */
            else st = cgio_delete_node(c, xid, did);                                            /* D is not a child of X */
            printf("badnode %s ids+%ld", st ? "err" : "ok", h5_count() - q); dump_state();
        } else if (sscanf(line, "bad %d %15s %15s", &c, a, b) == 3) {
            /* bad <c> <entry> <class>: a data call with an invalid argument of the given class on the node /T_R8 (8 x R8) of the
               file behind handle c -- the call must fail (or be harmless) and leave nothing behind that survives the close.
               entries: rall rblock rdata wall wallt wblock wdata wdatat      (cgio_read_all_data_type, cgio_read_block_data_type,
                        cgio_read_data_type, cgio_write_all_data, cgio_write_all_data_type, cgio_write_block_data, cgio_write_data,
                        cgio_write_data_type)
               classes: badtype (a type name that does not exist), nulltype (no type name), mismatch (character type for numeric data), start0, endbig,
                        startgtend, stride0 (file range), mstart0, mendbig, mstride0 (memory range), rank0, rank2 (memory rank 2
                        holding 4 elements for 8), msmall (memory range larger than the memory dimensions) */
            double root = 0, id = 0; static double buf[64]; int st; cgsize_t dim = 8;
            cgsize_t s1[16], e1[16], d1[16], mdim[16], ms[16], me[16], md[16], bs = 2, be = 5; int rank = 1, q;
            const char *ty = "R8";
            memset(buf, 0x11, sizeof buf);
            for (q = 0; q < 16; q++) { s1[q] = 1; e1[q] = q ? 1 : 8; d1[q] = 1; mdim[q] = q ? 1 : 8; ms[q] = 1; me[q] = q ? 1 : 8; md[q] = 1; }
            st = cgio_get_root_id(c, &root);
            if (!st && cgio_get_node_id(c, root, "T_R8", &id)) {
                st = cgio_create_node(c, root, "T_R8", &id);
                if (!st) st = cgio_set_dimensions(c, id, "R8", 1, &dim);
                if (!st) st = cgio_write_all_data(c, id, buf);
            }
            if (!strcmp(b, "badtype")) ty = "Q9";
            else if (!strcmp(b, "nulltype")) ty = NULL;
            else if (!strcmp(b, "mismatch")) ty = "C1";
            else if (!strcmp(b, "start0")) { s1[0] = 0; bs = 0; }
            else if (!strcmp(b, "endbig")) { e1[0] = 99; be = 99; }
            else if (!strcmp(b, "startgtend")) { s1[0] = 6; e1[0] = 3; bs = 6; be = 3; }
            else if (!strcmp(b, "stride0")) d1[0] = 0;
            else if (!strcmp(b, "mstart0")) ms[0] = 0;
            else if (!strcmp(b, "mendbig")) me[0] = 99;
            else if (!strcmp(b, "mstride0")) md[0] = 0;
            else if (!strcmp(b, "rank0")) rank = 0;
            else if (!strcmp(b, "rank2")) { rank = 2; mdim[0] = mdim[1] = 2; me[0] = me[1] = 2; }   /* 4 elements for 8 */
            else if (!strcmp(b, "rank13")) rank = 13;           /* probe only: above the 12 dimensions the arrays may have */
            else if (!strcmp(b, "msmall")) mdim[0] = 2;
            if (st) { printf("bad setup"); dump_state(); continue; }
            q = h5_count();
            if (!strcmp(a, "rall")) st = cgio_read_all_data_type(c, id, ty, buf);
            else if (!strcmp(a, "rblock")) st = cgio_read_block_data_type(c, id, bs, be, ty, buf);
            else if (!strcmp(a, "rdata")) st = cgio_read_data_type(c, id, s1, e1, d1, ty, rank, mdim, ms, me, md, buf);
            else if (!strcmp(a, "wall")) st = cgio_write_all_data(c, id, buf);
            else if (!strcmp(a, "wallt")) st = cgio_write_all_data_type(c, id, ty, buf);
            else if (!strcmp(a, "wblock")) st = cgio_write_block_data(c, id, bs, be, buf);
            else if (!strcmp(a, "wdata")) st = cgio_write_data(c, id, s1, e1, d1, rank, mdim, ms, me, md, buf);
            else st = cgio_write_data_type(c, id, s1, e1, d1, ty, rank, mdim, ms, me, md, buf);
            /* ids+<k>: HDF5 identifiers the call itself left open (0 on ADF) */
            printf("bad %s ids+%d", st ? "err" : "ok", h5_count() - q); dump_state();
        } else if (sscanf(line, "close %d", &c) == 1) {
            int st = cgio_close_file(c);
            printf("close %d", st); dump_state();
        } else if (sscanf(line, "cycle %d", &n) == 1) {
            char t[2000]; fd_targets(t, sizeof t);
            printf("cycle %d heap %lld fds %d h5 %ld open[%s]\n", n, heap_bytes(), fd_count() - fd0, h5_count(), t); fflush(stdout);
        } else { printf("badline %s\n", line); fflush(stdout); }
    }
    {
        int lk = leak_check();
        printf("end leaks %d\n", lk); fflush(stdout);
    }
    return 0;
}
