/* c13_adf.c -- implementation side of the C13 correspondence: the same read-only walk as coq/AdfWalk.v
   (walk / visit), performed with the public ADF API of the freshly built libcgns.a, printing the same
   canonical lines as ocaml/eng_c13.ml.

     c13_adf dec              stdin: "hex MN MX HEXBYTES" / "dp HEXBYTES" lines -> decoder-level results
     c13_adf walk FILE FUEL   ADF_Database_Open(FILE,"READ_ONLY","NATIVE") + walk
     c13_adf probe FILE NAME  open + ADF_Get_Node_ID(root, NAME)   (the section-6 #12 witness path)
     c13_adf walk2 A B FUEL   open A, one query, close; then the walk of B (must print what "walk B" prints)

   Numbers that may exceed 62 bits are printed in lower-case hex, byte strings as hex ("-" when empty). */
#include <stdio.h>
#include <stdlib.h>
#include <string.h>
#include "ADF.h"
#include "ADF_internals.h"

/* make a failing assert() inside the library visible on stdout (run_impl keeps stdout and sanitizer stderr) */
void __assert_fail(const char *a, const char *f, unsigned int l, const char *fn)
{
    printf("ASSERT %s\n", fn ? fn : "?");
    fflush(stdout);
    abort();
}

static void hx(const unsigned char *s, size_t n)
{
    size_t i;
    if (n == 0) { printf("-"); return; }
    for (i = 0; i < n; i++) printf("%02x", s[i]);
}
static void hxs(const char *s) { hx((const unsigned char *)s, strlen(s)); }

static int unhex(const char *s, unsigned char *out, int max)
{
    int n = 0;
    if (strcmp(s, "-") == 0) return 0;
    while (s[0] && s[1] && n < max) {
        unsigned int v;
        sscanf(s, "%2x", &v);
        out[n++] = (unsigned char)v;
        s += 2;
    }
    return n;
}

static void pid(double id)
{
    unsigned int fi; cgulong_t b, o; int err;
    ADFI_ID_2_file_block_offset(id, &fi, &b, &o, &err);
    if (err != NO_ERROR) printf("?id%d", err);
    else printf("%llx:%llx", (unsigned long long)b, (unsigned long long)o);
}

/* ADF_Database_Version into buffers of the documented sizes (ADF_VERSION_LENGTH / ADF_DATE_LENGTH + 1) */
static void version(double root)
{
    char ver[ADF_VERSION_LENGTH + 1], cd[ADF_DATE_LENGTH + 1], md[ADF_DATE_LENGTH + 1];
    int err;
    ADF_Database_Version(root, ver, cd, md, &err);
    if (err != NO_ERROR) printf("VER err %d\n", err);
    else { printf("VER "); hxs(ver); printf("\n"); }
    fflush(stdout);
}

static long fuel;
static int stop;
#define DATA_CAP 65536
#define KIDS_CAP 512

static int mach_size(const char *t)
{
    if (strlen(t) != 2) return 0;
    if ((t[0] == 'C' || t[0] == 'B') && t[1] == '1') return 1;
    if ((t[0] == 'I' || t[0] == 'U' || t[0] == 'R') && t[1] == '4') return 4;
    if ((t[0] == 'I' || t[0] == 'U' || t[0] == 'R') && t[1] == '8') return 8;
    if (t[0] == 'X' && t[1] == '4') return 8;
    if (t[0] == 'X' && t[1] == '8') return 16;
    return 0;
}

static unsigned int cksum(const unsigned char *d, size_t n)
{
    unsigned int h = 7; size_t i;
    for (i = 0; i < n; i++) h = h * 31u + d[i];
    return h;
}

static void visit(double id, int depth)
{
    char name[ADF_NAME_LENGTH + 1], label[ADF_LABEL_LENGTH + 1], type[ADF_DATA_TYPE_LENGTH + 1];
    static char lfile[5200], lpath[5200];
    int err, len, nd, nc, i, n, nret;
    cgsize_t dims[ADF_MAX_DIMENSIONS];
    char *names; double *ids;

    ADF_Get_Name(id, name, &err);
    if (err != NO_ERROR) { printf("N %d err %d\n", depth, err); fflush(stdout); return; }
    printf("N %d ", depth); hxs(name); printf("\n"); fflush(stdout);

    ADF_Is_Link(id, &len, &err);
    if (err != NO_ERROR) { printf("K0 err %d\n", err); fflush(stdout); return; }
    printf("K0 %d\n", len); fflush(stdout);
    if (len > 0) {
        ADF_Get_Link_Path(id, lfile, lpath, &err);
        if (err != NO_ERROR) { printf("K err %d\n", err); fflush(stdout); return; }
        printf("K "); hxs(lfile); printf(" "); hxs(lpath); printf("\n"); fflush(stdout);
        if (lfile[0]) return;                       /* external link: not followed */
    }

    ADF_Get_Label(id, label, &err);
    if (err != NO_ERROR) { printf("L err %d\n", err); fflush(stdout); return; }
    printf("L "); hxs(label); printf("\n"); fflush(stdout);
    ADF_Get_Data_Type(id, type, &err);
    if (err != NO_ERROR) { printf("T err %d\n", err); fflush(stdout); return; }
    printf("T "); hxs(type); printf("\n");
    ADF_Get_Number_of_Dimensions(id, &nd, &err);
    if (err != NO_ERROR) { printf("D err %d\n", err); fflush(stdout); return; }
    printf("D %d\n", nd);
    if (nd > 0) {
        ADF_Get_Dimension_Values(id, dims, &err);
        if (err != NO_ERROR) { printf("V err %d\n", err); fflush(stdout); return; }
        printf("V ");
        for (i = 0; i < nd; i++) printf("%s%llx", i ? "," : "", (unsigned long long)dims[i]);
        printf("\n");
    }
    ADF_Number_of_Children(id, &nc, &err);
    if (err != NO_ERROR) { printf("C err %d\n", err); fflush(stdout); return; }
    printf("C %d\n", nc); fflush(stdout);

    {   /* data, when small and of a simple type (the same rule as the model's [visit_chased]) */
        int ms = mach_size(type), want = ms > 0 && nd > 0;
        long long cnt = 1;
        for (i = 0; want && i < nd; i++) {
            if (dims[i] <= 0 || dims[i] > DATA_CAP) want = 0;
            else { cnt *= dims[i]; if (cnt * ms > DATA_CAP) want = 0; }
        }
        if (want) {
            unsigned char *buf = (unsigned char *)calloc((size_t)(cnt * ms), 1);
            /* like cgio_read_all_data_type, the only in-tree client of ADF_Read_All_Data, the walk passes the type
               it was told by ADF_Get_Data_Type (with NULL the library does not compare types at all) */
            ADF_Read_All_Data(id, type, (char *)buf, &err);
            if (err != NO_ERROR) printf("X err %d\n", err);
            else printf("X ok %lld %x\n", cnt * ms, cksum(buf, (size_t)(cnt * ms)));
            fflush(stdout);
            free(buf);
        }
    }

    if (nc <= 0) return;
    n = nc < KIDS_CAP ? nc : KIDS_CAP;
    names = (char *)malloc((size_t)n * (ADF_NAME_LENGTH + 1));
    ids = (double *)malloc((size_t)n * sizeof(double));
    ADF_Children_Names(id, 1, n, ADF_NAME_LENGTH, &nret, names, &err);
    if (err != NO_ERROR) { printf("M err %d\n", err); fflush(stdout); free(names); free(ids); return; }
    printf("M %d ", nret);
    for (i = 0; i < nret; i++) { if (i) printf(","); hxs(names + i * (ADF_NAME_LENGTH + 1)); }
    printf("\n"); fflush(stdout);
    {
        int nr2;
        ADF_Children_IDs(id, 1, n, &nr2, ids, &err);
        if (err != NO_ERROR) printf("I err %d\n", err);
        else {
            printf("I ");
            if (nr2 == 0) printf("-");
            for (i = 0; i < nr2; i++) { if (i) printf(","); pid(ids[i]); }
            printf("\n");
        }
        fflush(stdout);
    }
    for (i = 0; i < nret && !stop; i++) {
        double cid;
        if (fuel <= 0) { printf("FUEL\n"); fflush(stdout); stop = 1; break; }
        fuel--;
        ADF_Get_Node_ID(id, names + i * (ADF_NAME_LENGTH + 1), &cid, &err);
        if (err != NO_ERROR) { printf("G err %d\n", err); fflush(stdout); continue; }
        printf("G "); pid(cid); printf("\n"); fflush(stdout);
        visit(cid, depth + 1);
    }
    free(names); free(ids);
}

int main(int argc, char **argv)
{
    static char line[70000];
    static unsigned char buf[32768];
    if (argc < 2) return 2;
    if (strcmp(argv[1], "dec") == 0) {
        while (fgets(line, sizeof line, stdin)) {
            char a[64], b[64], c[64], d[66000];
            int k = sscanf(line, "%63s %63s %63s %65999s", a, b, c, d);
            if (k == 4 && strcmp(a, "hex") == 0) {
                unsigned int num = 0; int err;
                unsigned int mn = (unsigned int)strtoull(b, NULL, 16), mx = (unsigned int)strtoull(c, NULL, 16);
                int n = unhex(d, buf, sizeof buf);
                ADFI_ASCII_Hex_2_unsigned_int(mn, mx, (unsigned int)n, (char *)buf, &num, &err);
                if (err != NO_ERROR) printf("r err %d\n", err); else printf("r ok %x\n", num);
            } else if (k == 2 && strcmp(a, "dp") == 0) {
                struct DISK_POINTER p; int err;
                unhex(b, buf, sizeof buf);
                ADFI_disk_pointer_from_ASCII_Hex((char *)buf, (char *)buf + 8, &p, &err);
                if (err != NO_ERROR) printf("r err %d\n", err);
                else printf("r ok %llx:%llx\n", (unsigned long long)p.block, (unsigned long long)p.offset);
            } else printf("badline\n");
            fflush(stdout);
        }
        return 0;
    }
    if (strcmp(argv[1], "walk") == 0 && argc >= 4) {
        double root; int err;
        fuel = atol(argv[3]);
        ADF_Database_Open(argv[2], "READ_ONLY", "NATIVE", &root, &err);
        if (err != NO_ERROR) { printf("open err %d\nEND\n", err); return 0; }
        printf("open ok "); pid(root); printf("\n"); fflush(stdout);
        version(root);
        visit(root, 0);
        printf("END\n"); fflush(stdout);
        ADF_Database_Close(root, &err);
        return 0;
    }
    if (strcmp(argv[1], "walk2") == 0 && argc >= 5) {
        /* history independence: read the first block of FILE_A (open, one query, close), then walk FILE_B;
           the output must be that of "walk FILE_B" */
        double root; int err; char name[ADF_NAME_LENGTH + 1];
        ADF_Database_Open(argv[2], "READ_ONLY", "NATIVE", &root, &err);
        if (err == NO_ERROR) { ADF_Get_Name(root, name, &err); ADF_Database_Close(root, &err); }
        fuel = atol(argv[4]);
        ADF_Database_Open(argv[3], "READ_ONLY", "NATIVE", &root, &err);
        if (err != NO_ERROR) { printf("open err %d\nEND\n", err); return 0; }
        printf("open ok "); pid(root); printf("\n"); fflush(stdout);
        version(root);
        visit(root, 0);
        printf("END\n"); fflush(stdout);
        ADF_Database_Close(root, &err);
        return 0;
    }
    if (strcmp(argv[1], "probe") == 0 && argc >= 4) {
        double root, id; int err;
        ADF_Database_Open(argv[2], "READ_ONLY", "NATIVE", &root, &err);
        if (err != NO_ERROR) { printf("open err %d\n", err); return 0; }
        ADF_Get_Node_ID(root, argv[3], &id, &err);
        if (err != NO_ERROR) printf("G err %d\n", err); else { printf("G "); pid(id); printf("\n"); }
        fflush(stdout);
        ADF_Database_Close(root, &err);
        return 0;
    }
    return 2;
}
