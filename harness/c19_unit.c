/* c19_unit.c -- implementation side of the C19 unit-level correspondence.
   Includes /repo/src/adf/ADF_internals.c textually (statics machine_sizes, ADF_this_machine_format, the leaf
   converters and the chunk loops become reachable without any source hook); not linked with libcgns.a.
   Same script language as ocaml/eng_c19.ml sub-engine "unit"; one line of output per op.

     sizes                                              -> sizes r0|r1|r2|r3|r4   (rows of machine_sizes, comma separated)
     figure <format|NULL>                               -> figure err=<e> machine=<c> use=<c> os=<c>
     header <fmtchar> <oschar>                          -> header err=<e> <hex of header bytes 100..129>
     conv <ff> <fos> <tf> <tos> <dir> <ty> <fsz> <msz> <len> <count> <hex>  -> conv err=<e> <hex|->
     wt <mf> <mo> <ff> <fo> <ty> <fsz> <msz> <count> <hex>   -> wt err=<e> <hex of the bytes that reached the file|->
     rt <mf> <mo> <ff> <fo> <ty> <fsz> <msz> <count> <hex>   -> rt err=<e> <hex of the bytes delivered|->
   dir: 0 = TO_FILE_FORMAT, 1 = FROM_FILE_FORMAT.  argv[1] = scratch file path for wt / rt. */
#include "adf/ADF_internals.c"

/* symbols of ADF_interface.c referenced by the link-chasing code (never reached here) */
int ADF_sys_err = 0;
void ADF_Database_Open(const char *a, const char *b, const char *c, double *d, int *e) { *e = 1; }
void ADF_Get_Link_Path(const double a, char *b, char *c, int *e) { *e = 1; }
void ADF_Get_Node_ID(const double a, const char *b, double *c, int *e) { *e = 1; }
int cgio_find_file(const char *parent, const char *name, int type, int max, char *out) { return 1; }

static size_t unhex(const char *h, unsigned char *out) {
    size_t n = 0;
    if (h[0] == '-') return 0;
    while (h[0] && h[1] && h[0] != '\n') {
        unsigned a = h[0] <= '9' ? h[0] - '0' : (h[0] | 32) - 'a' + 10;
        unsigned b = h[1] <= '9' ? h[1] - '0' : (h[1] | 32) - 'a' + 10;
        out[n++] = (unsigned char)(a * 16 + b); h += 2;
    }
    return n;
}
static void puthex(const unsigned char *p, size_t n) {
    static const char *d = "0123456789abcdef";
    if (n == 0) { putchar('-'); return; }
    for (size_t i = 0; i < n; i++) { putchar(d[p[i] >> 4]); putchar(d[p[i] & 15]); }
}
static void mktok(struct TOKENIZED_DATA_TYPE *tok, const char *ty, int fsz, int msz, unsigned len) {
    memset(tok, 0, 2 * sizeof *tok);
    tok[0].type[0] = ty[0]; tok[0].type[1] = ty[1];
    tok[0].file_type_size = fsz; tok[0].machine_type_size = msz; tok[0].length = len;
    tok[1].type[0] = 0; tok[1].type[1] = 0;
    tok[1].file_type_size = fsz * (int)len; tok[1].machine_type_size = msz * (int)len;
}

int main(int argc, char **argv) {
    size_t cap = 1 << 23;
    char *line = malloc(cap);
    unsigned char *in = malloc(cap / 2 + 64), *out = malloc(cap + 64);
    const char *scratch = argc > 1 ? argv[1] : "c19_unit_scratch.bin";
    char a[64], ty[8], c1[4], c2[4], c3[4], c4[4];
    long long v[8];
    int err, off;
    /* initialise ADF_this_machine_format the way the first ADF_Database_Open does */
    { char mf, fu, ou; ADFI_figure_machine_format("NATIVE", &mf, &fu, &ou, &err); }
    const char host_f = ADF_this_machine_format, host_o = ADF_this_machine_os_size;
    while (fgets(line, (int)cap, stdin)) {
        err = NO_ERROR;
        if (strncmp(line, "sizes", 5) == 0) {
            printf("sizes ");
            for (int i = 0; i < NUMBER_KNOWN_MACHINES; i++) {
                for (int j = 0; j < 16; j++) printf("%s%d", j ? "," : "", (int)machine_sizes[i][j]);
                if (i + 1 < NUMBER_KNOWN_MACHINES) putchar('|');
            }
            putchar('\n');
        } else if (sscanf(line, "figure %63s", a) == 1) {
            char mf = '?', fu = '?', ou = '?';
            ADFI_figure_machine_format(strcmp(a, "NULL") == 0 ? NULL : a, &mf, &fu, &ou, &err);
            printf("figure err=%d machine=%c use=%c os=%c\n", err, mf, fu, ou);
        } else if (sscanf(line, "header %1s %1s", c1, c2) == 2) {
            struct FILE_HEADER h; memset(&h, 0, sizeof h);
            ADFI_fill_initial_file_header(c1[0], c2[0], "x", &h, &err);
            printf("header err=%d ", err);
            if (err == NO_ERROR) {
                unsigned s[12] = { h.sizeof_char, h.sizeof_short, h.sizeof_int, h.sizeof_long, h.sizeof_float,
                                   h.sizeof_double, h.sizeof_char_p, h.sizeof_short_p, h.sizeof_int_p,
                                   h.sizeof_long_p, h.sizeof_float_p, h.sizeof_double_p };
                unsigned char b[30]; int e2;
                b[0] = h.numeric_format; b[1] = h.os_size; memcpy(b + 2, "AdF3", 4);
                for (int k = 0; k < 12; k++)
                    ADFI_unsigned_int_2_ASCII_Hex(s[k], 0, 255, 2, (char *)b + 6 + 2 * k, &e2);
                puthex(b, 30);
            } else putchar('-');
            putchar('\n');
        } else if (sscanf(line, "conv %1s %1s %1s %1s %lld %7s %lld %lld %lld %lld %n", c1, c2, c3, c4, &v[0], ty,
                          &v[1], &v[2], &v[3], &v[4], &off) >= 10) {
            struct TOKENIZED_DATA_TYPE tok[2];
            size_t n = unhex(line + off, in);
            int dir = v[0] ? FROM_FILE_FORMAT : TO_FILE_FORMAT;
            size_t dto = (size_t)(dir == FROM_FILE_FORMAT ? v[2] : v[1]);
            size_t outn = dto * (size_t)v[3] * (size_t)v[4];
            mktok(tok, ty, (int)v[1], (int)v[2], (unsigned)v[3]);
            memset(out, 0xEE, outn + 64);
            ADFI_convert_number_format(c1[0], c2[0], c3[0], c4[0], dir, tok, (unsigned)v[4], in, out, &err);
            printf("conv err=%d ", err);
            if (err == NO_ERROR) puthex(out, outn); else putchar('-');
            putchar('\n'); (void)n;
        } else if (sscanf(line, "wt %1s %1s %1s %1s %7s %lld %lld %lld %n", c1, c2, c3, c4, ty, &v[1], &v[2], &v[4],
                          &off) >= 8) {
            struct TOKENIZED_DATA_TYPE tok[2];
            unsigned idx; int e2;
            unhex(line + off, in);
            mktok(tok, ty, (int)v[1], (int)v[2], 1);
            remove(scratch);
            ADFI_open_file(scratch, "NEW", &idx, &err);
            if (err != NO_ERROR) { printf("wt err=%d open\n", err); continue; }
            ADF_file[idx].format = c3[0]; ADF_file[idx].os_size = c4[0];
            ADF_this_machine_format = c1[0]; ADF_this_machine_os_size = c2[0];
            ADFI_write_data_translated(idx, 0, 0, tok, (int)v[1], (cglong_t)(v[1] * v[4]), (char *)in, &err);
            ADF_this_machine_format = host_f; ADF_this_machine_os_size = host_o;
            ADFI_flush_buffers(idx, FLUSH, &e2);
            ADFI_close_file(idx, &e2);
            printf("wt err=%d ", err);
            { FILE *f = fopen(scratch, "rb"); size_t n = f ? fread(out, 1, cap, f) : 0; size_t want = (size_t)(v[1] * v[4]); if (f) fclose(f);
              puthex(out, n < want ? n : want); }
            putchar('\n');
        } else if (sscanf(line, "rt %1s %1s %1s %1s %7s %lld %lld %lld %n", c1, c2, c3, c4, ty, &v[1], &v[2], &v[4],
                          &off) >= 8) {
            struct TOKENIZED_DATA_TYPE tok[2];
            unsigned idx; int e2;
            size_t n = unhex(line + off, in);
            size_t outn = (size_t)(v[2] * v[4]);
            mktok(tok, ty, (int)v[1], (int)v[2], 1);
            { FILE *f = fopen(scratch, "wb"); if (f) { fwrite(in, 1, n, f); fclose(f); } }
            ADFI_open_file(scratch, "OLD", &idx, &err);
            if (err != NO_ERROR) { printf("rt err=%d open\n", err); continue; }
            ADF_file[idx].format = c3[0]; ADF_file[idx].os_size = c4[0];
            ADF_this_machine_format = c1[0]; ADF_this_machine_os_size = c2[0];
            memset(out, 0xA5, outn + 64);
            ADFI_read_data_translated(idx, 0, 0, tok, (int)v[1], (cglong_t)(v[1] * v[4]), (char *)out, &err);
            ADF_this_machine_format = host_f; ADF_this_machine_os_size = host_o;
            ADFI_close_file(idx, &e2);
            printf("rt err=%d ", err);
            if (err == NO_ERROR) puthex(out, outn); else putchar('-');
            putchar('\n');
        } else if (line[0] == '\n') {
        } else printf("badline\n");
    }
    remove(scratch);
    free(line); free(in); free(out);
    return 0;
}
