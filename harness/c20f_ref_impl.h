/* c20f_ref_impl.h -- part of harness/c20f_ref.c: reference of the operations that drive the wrappers of cg_ftoc.c / cgio_ftoc.c
   which src/cgns_f.F90 does NOT declare (a Fortran caller reaches them through an implicit interface, F77 convention: for
   these the real-Fortran driver harness/c20f_impl.f90 is the only tie between what a caller passes and what the C side
   reads).  mode f: the wrapper with every argument by reference and the hidden lengths appended; mode c: the C function.
   INTEGER(cgsize_t) / default INTEGER array arguments carry values that are NOT invariant under a width mix-up (negative,
   non-zero second and third elements, above 2^31 where the library does not validate them). */

static cgsize_t *tlist(int n) {                 /* n values from the script into a fresh array with 4 guard words */
    cgsize_t *a = (cgsize_t *)calloc(n + 4, sizeof(cgsize_t)); int i;
    for (i = 0; i < n; i++) a[i] = (cgsize_t)atoll(itok < ntok ? toks[itok++] : "0");
    return a;
}
typedef struct { int nd; cgsize_t *dims, *lo, *hi; } mspace;
static mspace tms(void) { mspace m; m.nd = ti(); m.dims = tlist(m.nd); m.lo = tlist(m.nd); m.hi = tlist(m.nd); return m; }
static double *ddata(int kind) {                /* 4096 doubles, or the same bytes as 8192 floats */
    double *d = (double *)calloc(4100, sizeof(double)); float *f = (float *)d; int i;
    if (kind == 3) for (i = 0; i < 8192; i++) f[i] = (float)(i * 0.25 + 3);
    else for (i = 0; i < 4096; i++) d[i] = i * 0.125 + 7;
    return d;
}
#define HASHZ(tag, p, n) printf(" " tag "=%016llx", fnv((p), sizeof(cgsize_t) * (size_t)((n) + 4)))

static int extra_op2(const char *op) {
    cgint_f ier = -99, ffn = fn;
    if (0) {}
    /* ------------------------------------------------------------ coordinates, fields */
    OP("coord_partial_write") { cgint_f B = ti(), Z = ti(), fC = -1; CGNS_ENUMT(DataType_t) ty = (CGNS_ENUMT(DataType_t))ti(); fstr n = ts();
        cgsize_t *lo = tlist(3), *hi = tlist(3); double *d = ddata(ty); int C = -1;
        if (MODEF) { FMNAME(cg_coord_partial_write_f, CG_COORD_PARTIAL_WRITE_F)(&ffn, &B, &Z, &ty, n.p, lo, hi, d, &fC, &ier, (size_t)n.len); C = fC; }
        else ier = cg_coord_partial_write(fn, B, Z, ty, eqv(n, 32), lo, hi, d, &C);
        IER(ier); if (!ier) printf(" C=%d", C); NL; }
    OP("coord_general_write") { cgint_f B = ti(), Z = ti(), fC = -1; fstr n = ts(); CGNS_ENUMT(DataType_t) sty = (CGNS_ENUMT(DataType_t))ti();
        cgsize_t *lo = tlist(3), *hi = tlist(3); CGNS_ENUMT(DataType_t) mty = (CGNS_ENUMT(DataType_t))ti(); mspace m = tms(); double *d = ddata(mty); int C = -1; cgint_f mnd = m.nd;
        if (MODEF) { FMNAME(cg_coord_general_write_f, CG_COORD_GENERAL_WRITE_F)(&ffn, &B, &Z, n.p, &sty, lo, hi, &mty, &mnd, m.dims, m.lo, m.hi, d, &fC, &ier, (size_t)n.len); C = fC; }
        else ier = cg_coord_general_write(fn, B, Z, eqv(n, 32), sty, lo, hi, mty, m.nd, m.dims, m.lo, m.hi, d, &C);
        IER(ier); if (!ier) printf(" C=%d", C); NL; }
    OP("coord_general_read") { cgint_f B = ti(), Z = ti(); fstr n = ts(); cgsize_t *lo = tlist(3), *hi = tlist(3);
        CGNS_ENUMT(DataType_t) mty = (CGNS_ENUMT(DataType_t))ti(); mspace m = tms(); double *d = (double *)calloc(4100, sizeof(double)); cgint_f mnd = m.nd;
        if (MODEF) FMNAME(cg_coord_general_read_f, CG_COORD_GENERAL_READ_F)(&ffn, &B, &Z, n.p, lo, hi, &mty, &mnd, m.dims, m.lo, m.hi, d, &ier, (size_t)n.len);
        else ier = cg_coord_general_read(fn, B, Z, eqv(n, 32), lo, hi, mty, m.nd, m.dims, m.lo, m.hi, d);
        IER(ier); if (!ier) printf(" h=%016llx", fnv(d, 8 * 4096)); NL; }
    OP("field_partial_write") { cgint_f B = ti(), Z = ti(), S = ti(), fF = -1; CGNS_ENUMT(DataType_t) ty = (CGNS_ENUMT(DataType_t))ti(); fstr n = ts();
        cgsize_t *lo = tlist(3), *hi = tlist(3); double *d = ddata(ty); int F = -1;
        if (MODEF) { FMNAME(cg_field_partial_write_f, CG_FIELD_PARTIAL_WRITE_F)(&ffn, &B, &Z, &S, &ty, n.p, lo, hi, d, &fF, &ier, (size_t)n.len); F = fF; }
        else ier = cg_field_partial_write(fn, B, Z, S, ty, eqv(n, 32), lo, hi, d, &F);
        IER(ier); if (!ier) printf(" F=%d", F); NL; }
    OP("field_general_write") { cgint_f B = ti(), Z = ti(), S = ti(), fF = -1; fstr n = ts(); CGNS_ENUMT(DataType_t) sty = (CGNS_ENUMT(DataType_t))ti();
        cgsize_t *lo = tlist(3), *hi = tlist(3); CGNS_ENUMT(DataType_t) mty = (CGNS_ENUMT(DataType_t))ti(); mspace m = tms(); double *d = ddata(mty); int F = -1; cgint_f mnd = m.nd;
        if (MODEF) { FMNAME(cg_field_general_write_f, CG_FIELD_GENERAL_WRITE_F)(&ffn, &B, &Z, &S, n.p, &sty, lo, hi, &mty, &mnd, m.dims, m.lo, m.hi, d, &fF, &ier, (size_t)n.len); F = fF; }
        else ier = cg_field_general_write(fn, B, Z, S, eqv(n, 32), sty, lo, hi, mty, m.nd, m.dims, m.lo, m.hi, d, &F);
        IER(ier); if (!ier) printf(" F=%d", F); NL; }
    OP("field_general_read") { cgint_f B = ti(), Z = ti(), S = ti(); fstr n = ts(); cgsize_t *lo = tlist(3), *hi = tlist(3);
        CGNS_ENUMT(DataType_t) mty = (CGNS_ENUMT(DataType_t))ti(); mspace m = tms(); double *d = (double *)calloc(4100, sizeof(double)); cgint_f mnd = m.nd;
        if (MODEF) FMNAME(cg_field_general_read_f, CG_FIELD_GENERAL_READ_F)(&ffn, &B, &Z, &S, n.p, lo, hi, &mty, &mnd, m.dims, m.lo, m.hi, d, &ier, (size_t)n.len);
        else ier = cg_field_general_read(fn, B, Z, S, eqv(n, 32), lo, hi, mty, m.nd, m.dims, m.lo, m.hi, d);
        IER(ier); if (!ier) printf(" h=%016llx", fnv(d, 8 * 4096)); NL; }
    /* ------------------------------------------------------------ element sections */
    OP("elements_read") { cgint_f B = ti(), Z = ti(), E = ti(); int n = ti(), np = ti(); cgsize_t *e = tlist(0), *p; e = (cgsize_t *)calloc(n + 4, sizeof(cgsize_t)); p = (cgsize_t *)calloc(np + 4, sizeof(cgsize_t));
        if (MODEF) FMNAME(cg_elements_read_f, CG_ELEMENTS_READ_F)(&ffn, &B, &Z, &E, e, p, &ier); else ier = cg_elements_read(fn, B, Z, E, e, p);
        IER(ier); if (!ier) { HASHZ("he", e, n); HASHZ("hp", p, np); } NL; }
    OP("poly_elements_read") { cgint_f B = ti(), Z = ti(), E = ti(); int n = ti(), no = ti(), np = ti();
        cgsize_t *e = (cgsize_t *)calloc(n + 4, sizeof(cgsize_t)), *o = (cgsize_t *)calloc(no + 4, sizeof(cgsize_t)), *p = (cgsize_t *)calloc(np + 4, sizeof(cgsize_t));
        if (MODEF) FMNAME(cg_poly_elements_read_f, CG_POLY_ELEMENTS_READ_F)(&ffn, &B, &Z, &E, e, o, p, &ier); else ier = cg_poly_elements_read(fn, B, Z, E, e, o, p);
        IER(ier); if (!ier) { HASHZ("he", e, n); HASHZ("ho", o, no); HASHZ("hp", p, np); } NL; }
    OP("poly_section_write") { cgint_f B = ti(), Z = ti(), fS = -1; fstr n = ts(); CGNS_ENUMT(ElementType_t) et = (CGNS_ENUMT(ElementType_t))ti(); cgsize_t st = ti(), en = ti(); cgint_f nb = ti();
        int ne = ti(); cgsize_t *e = tlist(ne); int no = ti(); cgsize_t *o = tlist(no); int S = -1;
        if (MODEF) { FMNAME(cg_poly_section_write_f, CG_POLY_SECTION_WRITE_F)(&ffn, &B, &Z, n.p, &et, &st, &en, &nb, e, o, &fS, &ier, (size_t)n.len); S = fS; }
        else ier = cg_poly_section_write(fn, B, Z, eqv(n, 32), et, st, en, nb, e, o, &S);
        IER(ier); if (!ier) printf(" S=%d", S); NL; }
    OP("section_general_write") { cgint_f B = ti(), Z = ti(), fS = -1; fstr n = ts(); CGNS_ENUMT(ElementType_t) et = (CGNS_ENUMT(ElementType_t))ti(); CGNS_ENUMT(DataType_t) edt = (CGNS_ENUMT(DataType_t))ti();
        cgsize_t st = ti(), en = ti(), esz = ti(); cgint_f nb = ti(); int S = -1;
        if (MODEF) { FMNAME(cg_section_general_write_f, CG_SECTION_GENERAL_WRITE_F)(&ffn, &B, &Z, n.p, &et, &edt, &st, &en, &esz, &nb, &fS, &ier, (size_t)n.len); S = fS; }
        else ier = cg_section_general_write(fn, B, Z, eqv(n, 32), et, edt, st, en, esz, nb, &S);
        IER(ier); if (!ier) printf(" S=%d", S); NL; }
    OP("section_initialize") { cgint_f B = ti(), Z = ti(), S = ti();
        if (MODEF) FMNAME(cg_section_initialize_f, CG_SECTION_INITIALIZE_F)(&ffn, &B, &Z, &S, &ier); else ier = cg_section_initialize(fn, B, Z, S);
        IER(ier); NL; }
    OP("parent_data_write") { cgint_f B = ti(), Z = ti(), S = ti(); int n = ti(); cgsize_t *p = tlist(n);
        if (MODEF) FMNAME(cg_parent_data_write_f, CG_PARENT_DATA_WRITE_F)(&ffn, &B, &Z, &S, p, &ier); else ier = cg_parent_data_write(fn, B, Z, S, p);
        IER(ier); NL; }
    OP("elements_partial_write") { cgint_f B = ti(), Z = ti(), S = ti(); cgsize_t lo = ti(), hi = ti(); int n = ti(); cgsize_t *e = tlist(n);
        if (MODEF) FMNAME(cg_elements_partial_write_f, CG_ELEMENTS_PARTIAL_WRITE_F)(&ffn, &B, &Z, &S, &lo, &hi, e, &ier); else ier = cg_elements_partial_write(fn, B, Z, S, lo, hi, e);
        IER(ier); NL; }
    OP("elements_general_write") { cgint_f B = ti(), Z = ti(), S = ti(); cgsize_t lo = ti(), hi = ti(); CGNS_ENUMT(DataType_t) mt = (CGNS_ENUMT(DataType_t))ti(); int n = ti(), i; cgsize_t *e = tlist(n);
        int32_t *e4 = (int32_t *)calloc(n + 4, 4); for (i = 0; i < n; i++) e4[i] = (int32_t)e[i];
        void *d = mt == CGNS_ENUMV(Integer) ? (void *)e4 : (void *)e;
        if (MODEF) FMNAME(cg_elements_general_write_f, CG_ELEMENTS_GENERAL_WRITE_F)(&ffn, &B, &Z, &S, &lo, &hi, &mt, d, &ier); else ier = cg_elements_general_write(fn, B, Z, S, lo, hi, mt, d);
        IER(ier); NL; }
    OP("poly_elements_partial_write") { cgint_f B = ti(), Z = ti(), S = ti(); cgsize_t lo = ti(), hi = ti(); int ne = ti(); cgsize_t *e = tlist(ne); int no = ti(); cgsize_t *o = tlist(no);
        if (MODEF) FMNAME(cg_poly_elements_partial_write_f, CG_POLY_ELEMENTS_PARTIAL_WRITE_F)(&ffn, &B, &Z, &S, &lo, &hi, e, o, &ier); else ier = cg_poly_elements_partial_write(fn, B, Z, S, lo, hi, e, o);
        IER(ier); NL; }
    OP("poly_elements_general_write") { cgint_f B = ti(), Z = ti(), S = ti(); cgsize_t lo = ti(), hi = ti(); CGNS_ENUMT(DataType_t) mt = (CGNS_ENUMT(DataType_t))ti(); int ne = ti(), i; cgsize_t *e = tlist(ne); int no = ti(); cgsize_t *o = tlist(no);
        int32_t *e4 = (int32_t *)calloc(ne + 4, 4), *o4 = (int32_t *)calloc(no + 4, 4); for (i = 0; i < ne; i++) e4[i] = (int32_t)e[i]; for (i = 0; i < no; i++) o4[i] = (int32_t)o[i];
        void *de = mt == CGNS_ENUMV(Integer) ? (void *)e4 : (void *)e, *dof = mt == CGNS_ENUMV(Integer) ? (void *)o4 : (void *)o;
        if (MODEF) FMNAME(cg_poly_elements_general_write_f, CG_POLY_ELEMENTS_GENERAL_WRITE_F)(&ffn, &B, &Z, &S, &lo, &hi, &mt, de, dof, &ier); else ier = cg_poly_elements_general_write(fn, B, Z, S, lo, hi, mt, de, dof);
        IER(ier); NL; }
    OP("parent_data_partial_write") { cgint_f B = ti(), Z = ti(), S = ti(); cgsize_t lo = ti(), hi = ti(); int n = ti(); cgsize_t *p = tlist(n);
        if (MODEF) FMNAME(cg_parent_data_partial_write_f, CG_PARENT_DATA_PARTIAL_WRITE_F)(&ffn, &B, &Z, &S, &lo, &hi, p, &ier); else ier = cg_parent_data_partial_write(fn, B, Z, S, lo, hi, p);
        IER(ier); NL; }
    OP("elements_partial_read") { cgint_f B = ti(), Z = ti(), S = ti(); cgsize_t lo = ti(), hi = ti(); int n = ti(), np = ti();
        cgsize_t *e = (cgsize_t *)calloc(n + 4, sizeof(cgsize_t)), *p = (cgsize_t *)calloc(np + 4, sizeof(cgsize_t));
        if (MODEF) FMNAME(cg_elements_partial_read_f, CG_ELEMENTS_PARTIAL_READ_F)(&ffn, &B, &Z, &S, &lo, &hi, e, p, &ier); else ier = cg_elements_partial_read(fn, B, Z, S, lo, hi, e, p);
        IER(ier); if (!ier) { HASHZ("he", e, n); HASHZ("hp", p, np); } NL; }
    OP("poly_elements_partial_read") { cgint_f B = ti(), Z = ti(), S = ti(); cgsize_t lo = ti(), hi = ti(); int n = ti(), no = ti(), np = ti();
        cgsize_t *e = (cgsize_t *)calloc(n + 4, sizeof(cgsize_t)), *o = (cgsize_t *)calloc(no + 4, sizeof(cgsize_t)), *p = (cgsize_t *)calloc(np + 4, sizeof(cgsize_t));
        if (MODEF) FMNAME(cg_poly_elements_partial_read_f, CG_POLY_ELEMENTS_PARTIAL_READ_F)(&ffn, &B, &Z, &S, &lo, &hi, e, o, p, &ier); else ier = cg_poly_elements_partial_read(fn, B, Z, S, lo, hi, e, o, p);
        IER(ier); if (!ier) { HASHZ("he", e, n); HASHZ("ho", o, no); HASHZ("hp", p, np); } NL; }
    OP("elements_general_read") { cgint_f B = ti(), Z = ti(), S = ti(); cgsize_t lo = ti(), hi = ti(); CGNS_ENUMT(DataType_t) mt = (CGNS_ENUMT(DataType_t))ti(); int n = ti();
        cgsize_t *e = (cgsize_t *)calloc(n + 4, sizeof(cgsize_t));
        if (MODEF) FMNAME(cg_elements_general_read_f, CG_ELEMENTS_GENERAL_READ_F)(&ffn, &B, &Z, &S, &lo, &hi, &mt, e, &ier); else ier = cg_elements_general_read(fn, B, Z, S, lo, hi, mt, e);
        IER(ier); if (!ier) HASHZ("he", e, n); NL; }
    OP("poly_elements_general_read") { cgint_f B = ti(), Z = ti(), S = ti(); cgsize_t lo = ti(), hi = ti(); CGNS_ENUMT(DataType_t) mt = (CGNS_ENUMT(DataType_t))ti(); int n = ti(), no = ti();
        cgsize_t *e = (cgsize_t *)calloc(n + 4, sizeof(cgsize_t)), *o = (cgsize_t *)calloc(no + 4, sizeof(cgsize_t));
        if (MODEF) FMNAME(cg_poly_elements_general_read_f, CG_POLY_ELEMENTS_GENERAL_READ_F)(&ffn, &B, &Z, &S, &lo, &hi, &mt, e, o, &ier); else ier = cg_poly_elements_general_read(fn, B, Z, S, lo, hi, mt, e, o);
        IER(ier); if (!ier) { HASHZ("he", e, n); HASHZ("ho", o, no); } NL; }
    OP("parent_elements_general_read") { cgint_f B = ti(), Z = ti(), S = ti(); cgsize_t lo = ti(), hi = ti(); CGNS_ENUMT(DataType_t) mt = (CGNS_ENUMT(DataType_t))ti(); int n = ti();
        cgsize_t *e = (cgsize_t *)calloc(n + 4, sizeof(cgsize_t));
        if (MODEF) FMNAME(cg_parent_elements_general_read_f, CG_PARENT_ELEMENTS_GENERAL_READ_F)(&ffn, &B, &Z, &S, &lo, &hi, &mt, e, &ier); else ier = cg_parent_elements_general_read(fn, B, Z, S, lo, hi, mt, e);
        IER(ier); if (!ier) HASHZ("he", e, n); NL; }
    OP("parent_elements_position_general_read") { cgint_f B = ti(), Z = ti(), S = ti(); cgsize_t lo = ti(), hi = ti(); CGNS_ENUMT(DataType_t) mt = (CGNS_ENUMT(DataType_t))ti(); int n = ti();
        cgsize_t *e = (cgsize_t *)calloc(n + 4, sizeof(cgsize_t));
        if (MODEF) FMNAME(cg_parent_elements_position_general_read_f, CG_PARENT_ELEMENTS_POSITION_GENERAL_READ_F)(&ffn, &B, &Z, &S, &lo, &hi, &mt, e, &ier); else ier = cg_parent_elements_position_general_read(fn, B, Z, S, lo, hi, mt, e);
        IER(ier); if (!ier) HASHZ("he", e, n); NL; }
    /* ------------------------------------------------------------ boundary conditions, grids */
    OP("boco_read") { cgint_f B = ti(), Z = ti(), BC = ti(); int n = ti(), nn = ti(); cgsize_t *p = (cgsize_t *)calloc(n + 4, sizeof(cgsize_t)); double *nl = (double *)calloc(nn + 4, sizeof(double));
        if (MODEF) FMNAME(cg_boco_read_f, CG_BOCO_READ_F)(&ffn, &B, &Z, &BC, p, nl, &ier); else ier = cg_boco_read(fn, B, Z, BC, p, nl);
        IER(ier); if (!ier) { HASHZ("hp", p, n); printf(" hn=%016llx", fnv(nl, 8 * (size_t)(nn + 4))); } NL; }
    OP("boco_normal_write") { cgint_f B = ti(), Z = ti(), BC = ti(); cgsize_t *ni = tlist(3); cgint_f flag = ti(); CGNS_ENUMT(DataType_t) dt = (CGNS_ENUMT(DataType_t))ti(); double *d = ddata(dt);
        if (MODEF) FMNAME(cg_boco_normal_write_f, CG_BOCO_NORMAL_WRITE_F)(&ffn, &B, &Z, &BC, ni, &flag, &dt, d, &ier);
        else { int ci[3]; ci[0] = (int)ni[0]; ci[1] = (int)ni[1]; ci[2] = (int)ni[2]; ier = cg_boco_normal_write(fn, B, Z, BC, ci, flag, dt, d); }
        IER(ier); NL; }
    OP("grid_bbox_write") { cgint_f B = ti(), Z = ti(), G = ti(); CGNS_ENUMT(DataType_t) dt = (CGNS_ENUMT(DataType_t))ti(); double *d = ddata(dt);
        if (MODEF) FMNAME(cg_grid_bounding_box_write_f, CG_GRID_BOUNDING_BOX_WRITE_F)(&ffn, &B, &Z, &G, &dt, d, &ier); else ier = cg_grid_bounding_box_write(fn, B, Z, G, dt, d);
        IER(ier); NL; }
    OP("grid_bbox_read") { cgint_f B = ti(), Z = ti(), G = ti(); CGNS_ENUMT(DataType_t) dt = (CGNS_ENUMT(DataType_t))ti(); double *d = (double *)calloc(16, sizeof(double));
        if (MODEF) FMNAME(cg_grid_bounding_box_read_f, CG_GRID_BOUNDING_BOX_READ_F)(&ffn, &B, &Z, &G, &dt, d, &ier); else ier = cg_grid_bounding_box_read(fn, B, Z, G, dt, d);
        IER(ier); printf(" h=%016llx", fnv(d, 8 * 8)); NL; }
    /* ------------------------------------------------------------ node-context calls */
    OP("ptset_write") { CGNS_ENUMT(PointSetType_t) pt = (CGNS_ENUMT(PointSetType_t))ti(); cgsize_t np = ti(); int n = ti(); cgsize_t *p = tlist(n);
        if (MODEF) FMNAME(cg_ptset_write_f, CG_PTSET_WRITE_F)(&pt, &np, p, &ier); else ier = cg_ptset_write(pt, np, p);
        IER(ier); NL; }
    OP("ptset_read") { int n = ti(); cgsize_t *p = (cgsize_t *)calloc(n + 4, sizeof(cgsize_t));
        if (MODEF) FMNAME(cg_ptset_read_f, CG_PTSET_READ_F)(p, &ier); else ier = cg_ptset_read(p);
        IER(ier); if (!ier) HASHZ("hp", p, n); NL; }
    OP("array_read_as") { cgint_f A = ti(); CGNS_ENUMT(DataType_t) ty = (CGNS_ENUMT(DataType_t))ti(); int n = ti(); double *d = (double *)calloc(n + 4, sizeof(double));
        if (MODEF) FMNAME(cg_array_read_as_f, CG_ARRAY_READ_AS_F)(&A, &ty, d, &ier); else ier = cg_array_read_as(A, ty, d);
        IER(ier); if (!ier) printf(" h=%016llx", fnv(d, 8 * (size_t)(n + 4))); NL; }
    OP("array_general_read") { cgint_f A = ti(); int snd = ti(); cgsize_t *lo = tlist(snd), *hi = tlist(snd); CGNS_ENUMT(DataType_t) mty = (CGNS_ENUMT(DataType_t))ti(); mspace m = tms();
        double *d = (double *)calloc(4100, sizeof(double)); cgint_f mnd = m.nd;
        if (MODEF) FMNAME(cg_array_general_read_f, CG_ARRAY_GENERAL_READ_F)(&A, lo, hi, &mty, &mnd, m.dims, m.lo, m.hi, d, &ier);
        else ier = cg_array_general_read(A, lo, hi, mty, m.nd, m.dims, m.lo, m.hi, d);
        IER(ier); if (!ier) printf(" h=%016llx", fnv(d, 8 * 4096)); NL; }
    OP("array_general_write") { fstr n = ts(); CGNS_ENUMT(DataType_t) sty = (CGNS_ENUMT(DataType_t))ti(); int snd = ti(); cgsize_t *sd = tlist(snd), *lo = tlist(snd), *hi = tlist(snd);
        CGNS_ENUMT(DataType_t) mty = (CGNS_ENUMT(DataType_t))ti(); mspace m = tms(); double *d = ddata(mty); cgint_f mnd = m.nd, fsnd = snd;
        if (MODEF) FMNAME(cg_array_general_write_f, CG_ARRAY_GENERAL_WRITE_F)(n.p, &sty, &fsnd, sd, lo, hi, &mty, &mnd, m.dims, m.lo, m.hi, d, &ier, (size_t)n.len);
        else ier = cg_array_general_write(eqv(n, 32), sty, snd, sd, lo, hi, mty, m.nd, m.dims, m.lo, m.hi, d);
        IER(ier); NL; }
    OP("exponents_write") { CGNS_ENUMT(DataType_t) dt = (CGNS_ENUMT(DataType_t))ti(); double *d = ddata(dt);
        if (MODEF) FMNAME(cg_exponents_write_f, CG_EXPONENTS_WRITE_F)(&dt, d, &ier); else ier = cg_exponents_write(dt, d); IER(ier); NL; }
    OP("expfull_write") { CGNS_ENUMT(DataType_t) dt = (CGNS_ENUMT(DataType_t))ti(); double *d = ddata(dt);
        if (MODEF) FMNAME(cg_expfull_write_f, CG_EXPFULL_WRITE_F)(&dt, d, &ier); else ier = cg_expfull_write(dt, d); IER(ier); NL; }
    OP("conversion_write") { CGNS_ENUMT(DataType_t) dt = (CGNS_ENUMT(DataType_t))ti(); double *d = ddata(dt);
        if (MODEF) FMNAME(cg_conversion_write_f, CG_CONVERSION_WRITE_F)(&dt, d, &ier); else ier = cg_conversion_write(dt, d); IER(ier); NL; }
    OP("exponents_read") { double *d = (double *)calloc(16, sizeof(double));
        if (MODEF) FMNAME(cg_exponents_read_f, CG_EXPONENTS_READ_F)(d, &ier); else ier = cg_exponents_read(d); IER(ier); if (!ier) printf(" h=%016llx", fnv(d, 8 * 12)); NL; }
    OP("expfull_read") { double *d = (double *)calloc(16, sizeof(double));
        if (MODEF) FMNAME(cg_expfull_read_f, CG_EXPFULL_READ_F)(d, &ier); else ier = cg_expfull_read(d); IER(ier); if (!ier) printf(" h=%016llx", fnv(d, 8 * 12)); NL; }
    OP("conversion_read") { double *d = (double *)calloc(16, sizeof(double));
        if (MODEF) FMNAME(cg_conversion_read_f, CG_CONVERSION_READ_F)(d, &ier); else ier = cg_conversion_read(d); IER(ier); if (!ier) printf(" h=%016llx", fnv(d, 8 * 12)); NL; }
    /* ------------------------------------------------------------ cgio data access */
    OP("io_write_block") { int i = ti(); cgsize_t lo = ti(), hi = ti(); int32_t data[64]; int k; cgint_f num = cgio_n; for (k = 0; k < 64; k++) data[k] = 1000 - 3 * k;
        if (MODEF) FMNAME(cgio_write_block_data_f, CGIO_WRITE_BLOCK_DATA_F)(&num, &ids[i], &lo, &hi, data, &ier); else ier = cgio_write_block_data(cgio_n, ids[i], lo, hi, data);
        IER(ier); NL; }
    OP("io_read_block") { int i = ti(); cgsize_t lo = ti(), hi = ti(); fstr dt = ts(); int32_t data[80]; cgint_f num = cgio_n; memset(data, 0, sizeof data);
        if (MODEF) FMNAME(cgio_read_block_data_type_f, CGIO_READ_BLOCK_DATA_TYPE_F)(&num, &ids[i], &lo, &hi, dt.p, data, &ier, (size_t)dt.len);
        else ier = cgio_read_block_data_type(cgio_n, ids[i], lo, hi, eqv(dt, 2), data);
        IER(ier); if (!ier) printf(" h=%016llx", fnv(data, 4 * 64)); NL; }
    OP("io_write_data") { int i = ti(); cgsize_t ss = ti(), se = ti(), st = ti(), md = ti(), ms = ti(), me = ti(), mt = ti(), mnd = 1; int32_t data[64]; int k; cgint_f num = cgio_n;
        for (k = 0; k < 64; k++) data[k] = -500 + 11 * k;
        if (MODEF) FMNAME(cgio_write_data_f, CGIO_WRITE_DATA_F)(&num, &ids[i], &ss, &se, &st, &mnd, &md, &ms, &me, &mt, data, &ier);
        else ier = cgio_write_data(cgio_n, ids[i], &ss, &se, &st, 1, &md, &ms, &me, &mt, data);
        IER(ier); NL; }
    OP("io_read_data") { int i = ti(); cgsize_t ss = ti(), se = ti(), st = ti(); fstr dt = ts(); cgsize_t md = ti(), ms = ti(), me = ti(), mt = ti(); cgint_f mnd = 1, num = cgio_n; int32_t data[80]; memset(data, 0, sizeof data);
        if (MODEF) FMNAME(cgio_read_data_type_f, CGIO_READ_DATA_TYPE_F)(&num, &ids[i], &ss, &se, &st, dt.p, &mnd, &md, &ms, &me, &mt, data, &ier, (size_t)dt.len);
        else ier = cgio_read_data_type(cgio_n, ids[i], &ss, &se, &st, eqv(dt, 2), 1, &md, &ms, &me, &mt, data);
        IER(ier); if (!ier) printf(" h=%016llx", fnv(data, 4 * 64)); NL; }
    else return 0;
    fflush(stdout);
    return 1;
}
