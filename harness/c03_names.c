/* c03_names.c -- implementation side of the C03 node-name correspondence.
   usage: c03_names <file> <adf|hdf5>, script on stdin (same as ocaml/eng_c03.ml):
     create <hex name>  : cgio_create_node under the root of a FRESH file, then cgio_get_name of the new node
     rename <hex name>  : create node "base" in a fresh file, cgio_set_name to the name, then cgio_get_name
     common <hex name>  : answered by the model only; the harness prints "-"
   output: ok <hex stored name> | err <ADF error code> */
#include <stdio.h>
#include <stdlib.h>
#include <string.h>
#include "cgns_io.h"

static size_t unhex(const char *h, unsigned char *out) {
    size_t n = 0;
    while (h[0] && h[1] && h[0] != '\n') {
        unsigned a = h[0] <= '9' ? h[0] - '0' : (h[0] | 32) - 'a' + 10;
        unsigned b = h[1] <= '9' ? h[1] - '0' : (h[1] | 32) - 'a' + 10;
        out[n++] = (unsigned char)(a * 16 + b); h += 2;
    }
    out[n] = 0;
    return n;
}
static void puthex(const char *p) { if (!*p) putchar('-'); for (; *p; p++) printf("%02x", (unsigned char)*p); }

int main(int argc, char **argv) {
    char line[4096], op[16], hex[4000]; unsigned char name[2048]; char got[256];
    int type, cg, err; double root, id;
    if (argc < 3) return 2;
    type = strcmp(argv[2], "hdf5") == 0 ? CGIO_FILE_HDF5 : CGIO_FILE_ADF;
    while (fgets(line, sizeof line, stdin)) {
        if (sscanf(line, "%15s %3999s", op, hex) != 2) { if (line[0] != '\n') printf("badline\n"); continue; }
        if (!strcmp(op, "common")) { printf("-\n"); continue; }
        if (strcmp(hex, "-") == 0) name[0] = 0; else unhex(hex, name);
        remove(argv[1]);
        if (cgio_open_file(argv[1], CGIO_MODE_WRITE, type, &cg) || cgio_get_root_id(cg, &root)) { printf("setupfail\n"); return 3; }
        memset(got, 0, sizeof got);
        if (!strcmp(op, "create")) {
            err = cgio_create_node(cg, root, (const char *)name, &id);
        } else {
            if (cgio_create_node(cg, root, "base", &id)) { printf("setupfail\n"); return 3; }
            err = cgio_set_name(cg, root, id, (const char *)name);
        }
        if (err) printf("err %d\n", err);
        else {
            /* the id of a renamed HDF5 node may be stale: look the children of the root up again */
            int n = 0, len = 0; char names[33 * 4];
            if (cgio_number_children(cg, root, &n) || n != 1 || cgio_children_names(cg, root, 1, 1, 33, &len, names) || len != 1)
                printf("err -1\n");
            else { printf("ok "); puthex(names); putchar('\n'); }
        }
        cgio_close_file(cg);
        fflush(stdout);
    }
    remove(argv[1]);
    return 0;
}
