/* c07_modes.c -- read-only sessions that the per-entry-point driver (c07_drv.c) cannot express:
     c07_modes compress <adf|hdf5> <path>   for CG_CONFIG_COMPRESS in {-1, 0, 1, 1000}: cg_open(CG_MODE_READ), reads, cg_close on a
                                            file that HAS deleted space; the bytes and the inode must not change
     c07_modes spell <adf|hdf5> <path>      cgio_open_file with every spelling of the read mode (CGIO_MODE_READ, 'r', 'R'): every
                                            cgio mutator must fail, what later reads return on the same handle must not change,
                                            and the bytes must not change
   one line per observation: "<what> ok" or "<what> BAD <detail>" */
#include <stdio.h>
#include <stdlib.h>
#include <string.h>
#include <sys/stat.h>
#include "cgnslib.h"
#include "cgns_io.h"

static unsigned long long fhash(const char *p, long *size, unsigned long *ino) {
    FILE *f = fopen(p, "rb"); unsigned long long h = 1469598103934665603ULL; int c; struct stat st;
    *size = -1; *ino = 0;
    if (!f) return 0;
    while ((c = fgetc(f)) != EOF) { h ^= (unsigned char)c; h *= 1099511628211ULL; }
    fclose(f);
    if (!stat(p, &st)) { *size = (long)st.st_size; *ino = (unsigned long)st.st_ino; }
    return h;
}
static int build(const char *path, int type) {
    int fn, B, Z, S, F, C; cgsize_t sz[9] = {5, 4, 3, 4, 3, 2, 0, 0, 0}; static double x[60]; int i;
    for (i = 0; i < 60; i++) x[i] = i * 0.5;
    remove(path);
    if (cg_set_file_type(type) || cg_open(path, CG_MODE_WRITE, &fn)) return 1;
    if (cg_base_write(fn, "Base", 3, 3, &B) || cg_zone_write(fn, B, "Zone", sz, CGNS_ENUMV(Structured), &Z) ||
        cg_coord_write(fn, B, Z, CGNS_ENUMV(RealDouble), "CoordinateX", x, &C) ||
        cg_coord_write(fn, B, Z, CGNS_ENUMV(RealDouble), "CoordinateY", x, &C) ||
        cg_sol_write(fn, B, Z, "Sol", CGNS_ENUMV(Vertex), &S) ||
        cg_field_write(fn, B, Z, S, CGNS_ENUMV(RealDouble), "Density", x, &F) ||
        cg_goto(fn, B, "end") || cg_descriptor_write("Info", "some text") || cg_close(fn)) return 1;
    /* leave deleted space behind, without compacting it */
    if (cg_configure(CG_CONFIG_COMPRESS, (void *)0) || cg_open(path, CG_MODE_MODIFY, &fn)) return 1;
    if (cg_goto(fn, 1, "Zone_t", 1, "GridCoordinates_t", 1, "end") || cg_delete_node("CoordinateY") || cg_close(fn)) return 1;
    return 0;
}
/* digest of what the cgio read API returns for the whole tree */
static unsigned long long walk(int cg, double id, unsigned long long h) {
    char name[64] = "", label[64] = "", dt[64] = ""; int nd = 0, nc = 0, i, len; cgsize_t dims[12]; const char *p;
    cgio_get_name(cg, id, name); cgio_get_label(cg, id, label); cgio_get_data_type(cg, id, dt);
    cgio_get_dimensions(cg, id, &nd, dims); cgio_number_children(cg, id, &nc);
    for (p = name; *p; p++) { h ^= (unsigned char)*p; h *= 1099511628211ULL; }
    for (p = label; *p; p++) { h ^= (unsigned char)*p; h *= 1099511628211ULL; }
    for (p = dt; *p; p++) { h ^= (unsigned char)*p; h *= 1099511628211ULL; }
    h ^= (unsigned)nd; h *= 1099511628211ULL; h ^= (unsigned)nc; h *= 1099511628211ULL;
    for (i = 0; i < nd; i++) { h ^= (unsigned long long)dims[i]; h *= 1099511628211ULL; }
    if (nd > 0 && strcmp(dt, "MT") && strcmp(dt, "LK")) {
        cgsize_t n = 1; int w = (dt[1] == '8' || !strcmp(dt, "X4")) ? 8 : (dt[1] == '4' ? 4 : 1); char *buf;
        if (!strcmp(dt, "X8")) w = 16;
        for (i = 0; i < nd; i++) n *= dims[i];
        buf = calloc((size_t)n + 1, (size_t)w);
        if (!cgio_read_all_data_type(cg, id, dt, buf)) for (i = 0; i < n * w; i++) { h ^= (unsigned char)buf[i]; h *= 1099511628211ULL; }
        free(buf);
    }
    for (i = 1; i <= nc; i++) { double *ids = malloc(sizeof(double)); if (!cgio_children_ids(cg, id, i, 1, &len, ids) && len == 1) h = walk(cg, ids[0], h); free(ids); }
    return h;
}

int main(int argc, char **argv) {
    int type; const char *path; long s0, s1; unsigned long i0, i1; unsigned long long h0, h1;
    if (argc < 4) return 2;
    type = strcmp(argv[2], "hdf5") == 0 ? CG_FILE_HDF5 : CG_FILE_ADF; path = argv[3];
    if (!strcmp(argv[1], "compress")) {
        static const long vals[4] = {-1, 0, 1, 1000}; int k;
        for (k = 0; k < 4; k++) {
            int fn, nb = 0, nz = 0; char nm[40]; int cd, pd; static double x[60];
            cgsize_t rmin[3] = {1, 1, 1}, rmax[3] = {5, 4, 3};
            if (build(path, type)) { printf("compress %ld BAD setup: %s\n", vals[k], cg_get_error()); continue; }
            h0 = fhash(path, &s0, &i0);
            if (cg_configure(CG_CONFIG_COMPRESS, (void *)vals[k])) { printf("compress %ld BAD configure\n", vals[k]); continue; }
            if (cg_open(path, CG_MODE_READ, &fn)) { printf("compress %ld BAD open: %s\n", vals[k], cg_get_error()); continue; }
            cg_nbases(fn, &nb); cg_base_read(fn, 1, nm, &cd, &pd); cg_nzones(fn, 1, &nz);
            cg_coord_read(fn, 1, 1, "CoordinateX", CGNS_ENUMV(RealDouble), rmin, rmax, x);
            if (cg_close(fn)) { printf("compress %ld BAD close: %s\n", vals[k], cg_get_error()); continue; }
            h1 = fhash(path, &s1, &i1);
            if (h0 == h1 && s0 == s1 && i0 == i1) printf("compress %ld ok\n", vals[k]);
            else printf("compress %ld BAD a CG_MODE_READ session changed the file: size %ld -> %ld, inode %s\n", vals[k], s0, s1, i0 == i1 ? "same" : "changed");
        }
        cg_configure(CG_CONFIG_COMPRESS, (void *)0);
        remove(path);
    } else {
        static const int modes[3] = {CGIO_MODE_READ, 'r', 'R'}; static const char *mn[3] = {"CGIO_MODE_READ", "'r'", "'R'"}; int k;
        for (k = 0; k < 3; k++) {
            int cg, st, n = 0; double root, base, zone, id; unsigned long long t0, t1; cgsize_t d1[1] = {3}, lo[1] = {1}, hi[1] = {2}, one[1] = {1};
            static double buf[64]; char msg[256];
            if (build(path, type)) { printf("spell %s BAD setup\n", mn[k]); continue; }
            h0 = fhash(path, &s0, &i0);
            if (cgio_open_file(path, modes[k], type == CG_FILE_HDF5 ? CGIO_FILE_HDF5 : CGIO_FILE_ADF, &cg)) { printf("spell %s BAD open\n", mn[k]); continue; }
            if (cgio_get_root_id(cg, &root) || cgio_get_node_id(cg, root, "Base", &base) || cgio_get_node_id(cg, base, "Zone", &zone)) { printf("spell %s BAD lookup\n", mn[k]); continue; }
            t0 = walk(cg, root, 1469598103934665603ULL);
#define MUT(name, call) do { st = (call); n++; if (st == 0) printf("spell %s BAD %s succeeded on a read-only database\n", mn[k], name); else printf("spell %s %s ok\n", mn[k], name); } while (0)
            MUT("create_node", cgio_create_node(cg, base, "NewNode", &id));
            MUT("new_node", cgio_new_node(cg, base, "NewNode2", "Lbl_t", "R8", 1, d1, buf, &id));
            MUT("set_label", cgio_set_label(cg, zone, "Mutated_t"));
            MUT("set_name", cgio_set_name(cg, base, zone, "Renamed"));
            MUT("set_dimensions", cgio_set_dimensions(cg, zone, "I4", 1, d1));
            MUT("write_all_data", cgio_write_all_data(cg, zone, buf));
            MUT("write_all_data_type", cgio_write_all_data_type(cg, zone, "I8", buf));
            MUT("write_block_data", cgio_write_block_data(cg, zone, 1, 2, buf));
            MUT("write_data", cgio_write_data(cg, zone, lo, hi, one, 1, d1, lo, hi, one, buf));
            MUT("write_data_type", cgio_write_data_type(cg, zone, lo, hi, one, "I8", 1, d1, lo, hi, one, buf));
            MUT("move_node", cgio_move_node(cg, base, zone, root));
            MUT("create_link", cgio_create_link(cg, base, "Lnk", "", "/Base/Zone", &id));
            MUT("delete_node", cgio_delete_node(cg, base, zone));
            (void)msg;
            /* ids may have been invalidated by a mutator that wrongly went through: look everything up again */
            if (cgio_get_root_id(cg, &root)) printf("spell %s BAD root lost\n", mn[k]);
            t1 = walk(cg, root, 1469598103934665603ULL);
            printf(t0 == t1 ? "spell %s view ok\n" : "spell %s BAD what the read API returns on the same handle changed after refused mutators\n", mn[k]);
            cgio_close_file(cg);
            h1 = fhash(path, &s1, &i1);
            printf(h0 == h1 && s0 == s1 ? "spell %s file ok\n" : "spell %s BAD file bytes changed\n", mn[k]);
        }
        remove(path);
    }
    return 0;
}
