/* c06_api_h.c -- API level of the C06 correspondence.
   usage: c06_api_h impl|oracle <file> <adf|hdf5> <N>      script on stdin, one canonical line per op
   impl   : drives the real library (coordinates / solution fields of an unstructured zone with N vertices, generic
            arrays under a UserDefinedData_t node; the file is created, closed and reopened in modify mode)
   oracle : no CGNS at all -- an ideal in-memory array store whose conversions are the plain C casts of
            c06_common.c.  It states what the PROPERTY demands: the declared type is the requested file type, a write
            stores the cast values in the addressed range, a read returns the cast of the stored values; a request
            the property cannot grant (unsupported pair, other file type than the existing node's, ADF conversion
            with a partial memory range, Character array read as number through cg_array_*) is an error that
            changes nothing (except that a new node stays created, see notes/C06.md).
   ops  w <entry> <name> <s> <sdim> <rmin> <rmax> <m> <mdim> <mrmin> <mrmax> <hex of the memory array>   -> r ok|err
          entry: coord field array (cg_*_general_write) | coordwrite fieldwrite arraywrite (cg_*_write, s = m, full)
        r <entry> <name> <rmin> <rmax> <m> <mdim> <mrmin> <mrmax>         -> d ok <hex of the memory array> | d err
          entry: coord field array (cg_*_general_read) | coordread fieldread (cg_*_read) | arrayread (cg_array_read)
                 | readas (cg_array_read_as);  the memory array starts zero-filled
        i <entry> <name>                                                  -> t <declared type> <dim> | t none
        reopen                                                            -> reopened */
#include "c06_common.c"
#include "cgnslib.h"

static int oracle_mode, hdf5, N;
static int fn = -1, B = 1, Z = 1, S = 1;
static const char *path;

static CGNS_ENUMT(DataType_t) tenum(int t) {
    switch (t) {
    case T_C1: return CGNS_ENUMV(Character); case T_I4: return CGNS_ENUMV(Integer); case T_I8: return CGNS_ENUMV(LongInteger);
    case T_R4: return CGNS_ENUMV(RealSingle); case T_R8: return CGNS_ENUMV(RealDouble);
    case T_X4: return CGNS_ENUMV(ComplexSingle); case T_X8: return CGNS_ENUMV(ComplexDouble);
    }
    return CGNS_ENUMV(DataTypeNull);
}
static int tfrom(CGNS_ENUMT(DataType_t) e) { int i; for (i = 0; i < 7; i++) if (tenum(i) == e) return i; return T_NONE; }
static int group(const char *entry) { return !strncmp(entry, "coord", 5) ? 0 : !strncmp(entry, "field", 5) ? 1 : 2; }

/* ------------------------------------------------------------------ oracle: ideal store */
typedef struct { char name[40]; int grp, type; long dim; unsigned char *data; } oarr;
static oarr store[512]; static int nstore;
static oarr *ofind(int grp, const char *name) { int i; for (i = 0; i < nstore; i++) if (store[i].grp == grp && !strcmp(store[i].name, name)) return &store[i]; return NULL; }

static int o_write(const char *entry, const char *name, int s, long sdim, long rmin, long rmax, int m, long mdim, long mrmin, long mrmax, const unsigned char *mem) {
    oarr *a = ofind(group(entry), name);
    long n = rmax - rmin + 1;
    unsigned char *tmp;
    if (rmin < 1 || rmin > rmax || rmax > sdim || mdim < 1 || mrmin < 1 || mrmin > mrmax || mrmax > mdim || n != mrmax - mrmin + 1) return 1;
    if (a && (a->dim != sdim || a->type != s)) return 1;          /* the stored type / shape never changes */
    if (t_is_cplx(s) != t_is_cplx(m)) return 1;
    if (s != m && !hdf5 && !(mrmin == 1 && mrmax == mdim)) return 1;   /* documented ADF restriction */
    if (!a) {                                                       /* new node: requested FILE type */
        a = &store[nstore++]; strncpy(a->name, name, 39); a->grp = group(entry); a->type = s; a->dim = sdim;
        a->data = calloc((size_t)sdim, (size_t)tsize[s]);
    }
    tmp = malloc((size_t)n * tsize[s]);
    if (oracle_cast(m, s, mem + (mrmin - 1) * tsize[m], tmp, n)) { free(tmp); return 1; }
    memcpy(a->data + (rmin - 1) * tsize[s], tmp, (size_t)n * tsize[s]);
    free(tmp);
    return 0;
}
static int o_read(const char *entry, const char *name, long rmin, long rmax, int m, long mdim, long mrmin, long mrmax, unsigned char *mem, int *mtype) {
    oarr *a = ofind(group(entry), name);
    long n;
    int s;
    if (!a) return 1;
    s = a->type;
    if (!strcmp(entry, "arrayread")) { m = s; }
    *mtype = m;
    if (!strcmp(entry, "readas")) {
        if ((m == T_C1) != (s == T_C1)) return 1;
        if (t_is_cplx(s) != t_is_cplx(m)) return 1;
        return oracle_cast(s, m, a->data, mem, a->dim);
    }
    if (!strcmp(entry, "array") && m != T_C1 && s == T_C1) return 1;
    n = rmax - rmin + 1;
    if (n == a->dim && rmin != 1) { rmin = 1; rmax = a->dim; }    /* a range spanning the whole array may be given in any indexing */
    if (rmin < 1 || rmin > rmax || rmax > a->dim || mdim < 1 || mrmin < 1 || mrmin > mrmax || mrmax > mdim || n != mrmax - mrmin + 1) return 1;
    if (t_is_cplx(s) != t_is_cplx(m)) return 1;
    if (s != m && !hdf5 && !(mrmin == 1 && mrmax == mdim)) return 1;
    return oracle_cast(s, m, a->data + (rmin - 1) * tsize[s], mem + (mrmin - 1) * tsize[m], n);
}

/* ------------------------------------------------------------------ implementation */
static int goto_user(void) { return cg_goto(fn, B, "Zone_t", Z, "UserDefinedData_t", 1, "end"); }
static int open_file(int create) {
    if (create) {
        cgsize_t size[3];
        size[0] = N; size[1] = N > 1 ? N - 1 : 1; size[2] = 0;
        if (cg_set_file_type(hdf5 ? CG_FILE_HDF5 : CG_FILE_ADF)) return 1;
        if (cg_open(path, CG_MODE_WRITE, &fn) || cg_base_write(fn, "Base", 3, 3, &B) ||
            cg_zone_write(fn, B, "Zone", size, CGNS_ENUMV(Unstructured), &Z) ||
            cg_sol_write(fn, B, Z, "Sol", CGNS_ENUMV(Vertex), &S) ||
            cg_goto(fn, B, "Zone_t", Z, "end") || cg_user_data_write("U") || cg_close(fn)) return 1;
    }
    return cg_open(path, CG_MODE_MODIFY, &fn);
}
static int coord_index(const char *name) {
    int n = 0, i; char nm[64]; CGNS_ENUMT(DataType_t) dt;
    if (cg_ncoords(fn, B, Z, &n)) return 0;
    for (i = 1; i <= n; i++) if (!cg_coord_info(fn, B, Z, i, &dt, nm) && !strcmp(nm, name)) return i;
    return 0;
}
static int field_index(const char *name) {
    int n = 0, i; char nm[64]; CGNS_ENUMT(DataType_t) dt;
    if (cg_nfields(fn, B, Z, S, &n)) return 0;
    for (i = 1; i <= n; i++) if (!cg_field_info(fn, B, Z, S, i, &dt, nm) && !strcmp(nm, name)) return i;
    return 0;
}
static int array_index(const char *name, int *type, long *dim) {
    int n = 0, i, nd; char nm[64]; CGNS_ENUMT(DataType_t) dt; cgsize_t dv[12];
    if (goto_user() || cg_narrays(&n)) return 0;
    for (i = 1; i <= n; i++) if (!cg_array_info(i, nm, &dt, &nd, dv) && !strcmp(nm, name)) { if (type) *type = tfrom(dt); if (dim) *dim = nd == 1 ? (long)dv[0] : -nd; return i; }
    return 0;
}
static int i_write(const char *entry, const char *name, int s, long sdim, long rmin_, long rmax_, int m, long mdim_, long mrmin_, long mrmax_, const unsigned char *mem) {
    cgsize_t rmin = rmin_, rmax = rmax_, mdim = mdim_, mrmin = mrmin_, mrmax = mrmax_, sd = sdim;
    int idx = 0;
    if (!strcmp(entry, "coord")) return cg_coord_general_write(fn, B, Z, name, tenum(s), &rmin, &rmax, tenum(m), 1, &mdim, &mrmin, &mrmax, mem, &idx);
    if (!strcmp(entry, "field")) return cg_field_general_write(fn, B, Z, S, name, tenum(s), &rmin, &rmax, tenum(m), 1, &mdim, &mrmin, &mrmax, mem, &idx);
    if (!strcmp(entry, "array")) { if (goto_user()) return 1; return cg_array_general_write(name, tenum(s), 1, &sd, &rmin, &rmax, tenum(m), 1, &mdim, &mrmin, &mrmax, mem); }
    if (!strcmp(entry, "coordwrite")) return cg_coord_write(fn, B, Z, tenum(s), name, mem, &idx);
    if (!strcmp(entry, "fieldwrite")) return cg_field_write(fn, B, Z, S, tenum(s), name, mem, &idx);
    if (!strcmp(entry, "arraywrite")) { if (goto_user()) return 1; return cg_array_write(name, tenum(s), 1, &sd, mem); }
    return 1;
}
static int i_read(const char *entry, const char *name, long rmin_, long rmax_, int m, long mdim_, long mrmin_, long mrmax_, unsigned char *mem, int *mtype) {
    cgsize_t rmin = rmin_, rmax = rmax_, mdim = mdim_, mrmin = mrmin_, mrmax = mrmax_;
    *mtype = m;
    if (!strcmp(entry, "coord")) return cg_coord_general_read(fn, B, Z, name, &rmin, &rmax, tenum(m), 1, &mdim, &mrmin, &mrmax, mem);
    if (!strcmp(entry, "field")) return cg_field_general_read(fn, B, Z, S, name, &rmin, &rmax, tenum(m), 1, &mdim, &mrmin, &mrmax, mem);
    if (!strcmp(entry, "coordread")) return cg_coord_read(fn, B, Z, name, tenum(m), &rmin, &rmax, mem);
    if (!strcmp(entry, "fieldread")) return cg_field_read(fn, B, Z, S, name, tenum(m), &rmin, &rmax, mem);
    {
        int t = T_NONE, A = array_index(name, &t, NULL);
        if (!A) return 1;
        if (!strcmp(entry, "array")) return cg_array_general_read(A, &rmin, &rmax, tenum(m), 1, &mdim, &mrmin, &mrmax, mem);
        if (!strcmp(entry, "arrayread")) { *mtype = t; return cg_array_read(A, mem); }
        if (!strcmp(entry, "readas")) return cg_array_read_as(A, tenum(m), mem);
    }
    return 1;
}

int main(int argc, char **argv) {
    static char line[1 << 20], entry[32], name[64], a[8], b[8], blob[1 << 20];
    long sdim, rmin, rmax, mdim, mrmin, mrmax;
    if (argc < 5) return 2;
    oracle_mode = strcmp(argv[1], "oracle") == 0;
    path = argv[2];
    hdf5 = strcmp(argv[3], "hdf5") == 0;
    N = atoi(argv[4]);
    if (!oracle_mode && open_file(1)) { printf("openfail %s\n", cg_get_error()); return 3; }
    while (fgets(line, sizeof line, stdin)) {
        if (sscanf(line, "w %31s %63s %7s %ld %ld %ld %7s %ld %ld %ld %1048000s", entry, name, a, &sdim, &rmin, &rmax, b, &mdim, &mrmin, &mrmax, blob) == 11) {
            int s = tparse(a), m = tparse(b), ier;
            unsigned char *raw, *mem;
            long nb = unhex(blob, &raw);
            if (s == T_NONE || m == T_NONE || mdim < 1 || nb != mdim * tsize[m]) { printf("badline %s", line); free(raw); continue; }
            mem = malloc((size_t)nb); memcpy(mem, raw, (size_t)nb); free(raw);     /* exact size: ASan sees over-reads */
            ier = oracle_mode ? o_write(entry, name, s, sdim, rmin, rmax, m, mdim, mrmin, mrmax, mem)
                              : i_write(entry, name, s, sdim, rmin, rmax, m, mdim, mrmin, mrmax, mem);
            printf(ier ? "r err\n" : "r ok\n");
            free(mem);
        } else if (sscanf(line, "r %31s %63s %ld %ld %7s %ld %ld %ld", entry, name, &rmin, &rmax, b, &mdim, &mrmin, &mrmax) == 8) {
            int m = tparse(b), mt = m, ier;
            long cap;
            unsigned char *mem;
            if (m == T_NONE || mdim < 1) { printf("badline %s", line); continue; }
            cap = mdim * 16;                                   /* arrayread may deliver a wider type than announced */
            mem = calloc((size_t)cap, 1);
            ier = oracle_mode ? o_read(entry, name, rmin, rmax, m, mdim, mrmin, mrmax, mem, &mt)
                              : i_read(entry, name, rmin, rmax, m, mdim, mrmin, mrmax, mem, &mt);
            if (ier || mt == T_NONE) printf("d err\n"); else { printf("d ok "); puthex(mem, mdim * tsize[mt]); printf("\n"); }
            free(mem);
        } else if (sscanf(line, "i %31s %63s", entry, name) == 2) {
            int t = T_NONE; long dim = 0;
            if (oracle_mode) { oarr *o = ofind(group(entry), name); if (o) { t = o->type; dim = o->dim; } }
            else if (group(entry) == 0) { int c = coord_index(name); char nm[64]; CGNS_ENUMT(DataType_t) dt; if (c && !cg_coord_info(fn, B, Z, c, &dt, nm)) { t = tfrom(dt); dim = N; } }
            else if (group(entry) == 1) { int f = field_index(name); char nm[64]; CGNS_ENUMT(DataType_t) dt; if (f && !cg_field_info(fn, B, Z, S, f, &dt, nm)) { t = tfrom(dt); dim = N; } }
            else array_index(name, &t, &dim);
            if (t == T_NONE) printf("t none\n"); else printf("t %s %ld\n", tnames[t], dim);
        } else if (!strncmp(line, "reopen", 6)) {
            if (!oracle_mode && (cg_close(fn) || open_file(0))) { printf("reopenfail %s\n", cg_get_error()); return 3; }
            printf("reopened\n");
        } else if (line[0] == '\n') ;
        else printf("badline %s", line);
        fflush(stdout);
    }
    if (!oracle_mode && cg_close(fn)) { printf("closefail %s\n", cg_get_error()); return 3; }
    return 0;
}
