/* c14_adfi.c -- implementation side of the C14 model correspondence: drives the ADF core's buffered block I/O
   (ADFI_write_file / ADFI_read_file / ADFI_flush_buffers / ADFI_fflush_file / ADFI_close_file of
   src/adf/ADF_internals.c, linked from the freshly built libcgns.a) with the script the extracted AdfIO model runs.
   usage: c14_adfi <file> <initial-size> <seed>     script on stdin:
     w <block> <off> <len> <seed>   r <block> <off> <len>   f   y   c
   output: one line "s <status>[ <fnv of bytes read>]" per op, then "disk <size> <fnv>".
   The interposer is armed around the script only (the file is prepared and opened before). */
#include <stdio.h>
#include <stdlib.h>
#include <string.h>
#include <fcntl.h>
#include <unistd.h>
#include "ADF.h"
#include "ADF_internals.h"

static unsigned char gen(unsigned long long seed, unsigned long long i) { return (unsigned char)((seed * 131 + i * 7 + (i >> 8) * 13) & 0xff); }
static unsigned long long fnv(const unsigned char *p, size_t n)
{ unsigned long long h = 0xcbf29ce484222325ULL; size_t i; for (i = 0; i < n; i++) { h ^= p[i]; h *= 0x100000001b3ULL; } return h; }

int main(int argc, char **argv)
{
    char line[256];
    unsigned int fi = 0;
    int err = 0, closed = 0;
    long long n0, i;
    unsigned long long seed0;
    if (argc < 4) return 2;
    n0 = atoll(argv[2]); seed0 = strtoull(argv[3], 0, 10);
    {
        int fd = open(argv[1], O_WRONLY | O_CREAT | O_TRUNC, 0666);
        unsigned char *b = (unsigned char *)malloc(n0 + 1);
        for (i = 0; i < n0; i++) b[i] = gen(seed0, i);
        if (fd < 0 || write(fd, b, n0) != n0) return 3;
        close(fd); free(b);
    }
    ADFI_open_file(argv[1], "OLD", &fi, &err);
    if (err != NO_ERROR) { printf("openfail %d\n", err); return 3; }
    access("//VERIF_IP_ARM", 0);
    while (fgets(line, sizeof line, stdin)) {
        long long b, o, n; unsigned long long sd;
        if (sscanf(line, "w %lld %lld %lld %llu", &b, &o, &n, &sd) == 4) {
            unsigned char *d = (unsigned char *)malloc(n + 1);
            for (i = 0; i < n; i++) d[i] = gen(sd, i);
            ADFI_write_file(fi, (cgulong_t)b, (cgulong_t)o, (cglong_t)n, (char *)d, &err);
            printf("s %d\n", err); free(d);
        } else if (sscanf(line, "r %lld %lld %lld", &b, &o, &n) == 3) {
            unsigned char *d = (unsigned char *)calloc(n + 1, 1);
            ADFI_read_file(fi, (cgulong_t)b, (cgulong_t)o, (cglong_t)n, (char *)d, &err);
            if (err == NO_ERROR) printf("s %d %016llx\n", err, fnv(d, n)); else printf("s %d\n", err);
            free(d);
        } else if (line[0] == 'f') { ADFI_flush_buffers(fi, 0 /* FLUSH */, &err); printf("s %d\n", err); }
        else if (line[0] == 'y') { ADFI_fflush_file(fi, &err); printf("s %d\n", err); }
        else if (line[0] == 'c') { ADFI_close_file(fi, &err); printf("s %d\n", err); closed = 1; }
        fflush(stdout);
    }
    access("//VERIF_IP_DISARM", 0);
    (void)closed;
    {
        FILE *f = fopen(argv[1], "rb");
        unsigned char *b; long sz;
        if (!f) { printf("disk -1 0\n"); return 0; }
        fseek(f, 0, SEEK_END); sz = ftell(f); fseek(f, 0, SEEK_SET);
        b = (unsigned char *)malloc(sz + 1);
        if (fread(b, 1, sz, f) != (size_t)sz) sz = -2;
        fclose(f);
        printf("disk %ld %016llx\n", sz, sz >= 0 ? fnv(b, sz) : 0ULL);
    }
    return 0;
}
