/* c11_nav.c -- implementation-side driver of property C11 (all ways of addressing a node agree).
 *
 * Reads a line-oriented script on stdin (words separated by blanks; names contain no blanks) and prints one
 * canonical line per command.  Three groups of commands:
 *   build      base/zone/family/... through the mid-level API, and node-context writers at the current position
 *              (user, array, integral, state, converg, eqset, governing, model, rotating, famdataset, nodefamily ...)
 *              -> "c <status>"
 *   navigate   goto B (label index)* | gorel (label index)* | golist B depth (label index)* | gopath <path> |
 *              wherereplay  (cg_where followed by cg_golist of its output)            -> "n <status>"
 *   observe    where      -> "w <status> <B> <depth> label:index ..."
 *              mark NAME  -> cg_descriptor_write(NAME, "m") at the position; on success the marker is located by an
 *                            INDEPENDENT low-level cgio walk of the file and its parent's path is printed:
 *                            "m <status> <path of the node that received the marker>"
 *              readmark   -> the names of the Descriptor_t children at the position that start with 'M', read
 *                            through cg_ndescriptors / cg_descriptor_read: "r <status> name,name,..."
 *              delete NAME-> cg_delete_node(NAME)                                       -> "d <status>"
 *              counts     -> cg_nuser_data / cg_narrays / cg_ndescriptors at the position -> "k <st> <n> <st> <n> <st> <n>"
 *              probe      -> read-only node-context calls whose answers depend on the context of the position
 *                            (cg_ptset_info, cg_rind_read, cg_gridlocation_read, cg_diffusion_read, cg_ordinal_read,
 *                            cg_dataclass_read, counts): "p ..." -- compared between two spellings of the same node
 *   files      ft adf|hdf5 ; open r|w|m FILE ; close
 * Never prints pointers, ids, floats or error texts. */
#include <stdio.h>
#include <stdlib.h>
#include <string.h>
#include "cgnslib.h"
#include "cgns_io.h"

static int fn = -1;
static char *W[64];
static int NW;

static int split(char *line)
{
    NW = 0;
    for (char *p = strtok(line, " \t\r\n"); p && NW < 64; p = strtok(NULL, " \t\r\n")) W[NW++] = p;
    return NW;
}

/* ---- independent walk: find the node called `name` with label Descriptor_t; print the path of its parent */
static int walk(int cgio, double id, const char *name, char *path, size_t plen, int depth)
{
    int n, i, got;
    if (depth > 30) return 0;
    if (cgio_number_children(cgio, id, &n)) return 0;
    for (i = 1; i <= n; i++) {
        char cname[CGIO_MAX_NAME_LENGTH + 1], label[CGIO_MAX_LABEL_LENGTH + 1];
        double cid;
        if (cgio_children_names(cgio, id, i, 1, CGIO_MAX_NAME_LENGTH + 1, &got, cname) || got != 1) continue;
        if (cgio_get_node_id(cgio, id, cname, &cid)) continue;
        if (cgio_get_label(cgio, cid, label)) continue;
        if (0 == strcmp(cname, name) && 0 == strcmp(label, "Descriptor_t")) return 1;
        size_t l = strlen(path);
        if (l + strlen(cname) + 2 >= plen) continue;
        path[l] = '/'; strcpy(path + l + 1, cname);
        if (walk(cgio, cid, name, path, plen, depth + 1)) return 1;
        path[l] = 0;
    }
    return 0;
}

static void locate(const char *name, char *out, size_t olen)
{
    int cgio; double root;
    out[0] = 0;
    if (cg_get_cgio(fn, &cgio) || cg_root_id(fn, &root)) { strcpy(out, "?"); return; }
    if (!walk(cgio, root, name, out, olen, 0)) strcpy(out, "?");
    else if (!out[0]) strcpy(out, "/");
}

static int parse_pairs(int from, char **label, int *index)
{
    int n = 0;
    for (int i = from; i + 1 < NW && n < 40; i += 2) { label[n] = W[i]; index[n] = atoi(W[i + 1]); n++; }
    return n;
}

/* call cg_goto / cg_gorel with n (label, index) pairs followed by "end" */
#define P(k) l[k], x[k]
static int call_goto(int B, int n, char **l, int *x)
{
    switch (n) {
    case 0: return cg_goto(fn, B, "end");
    case 1: return cg_goto(fn, B, P(0), "end");
    case 2: return cg_goto(fn, B, P(0), P(1), "end");
    case 3: return cg_goto(fn, B, P(0), P(1), P(2), "end");
    case 4: return cg_goto(fn, B, P(0), P(1), P(2), P(3), "end");
    case 5: return cg_goto(fn, B, P(0), P(1), P(2), P(3), P(4), "end");
    case 6: return cg_goto(fn, B, P(0), P(1), P(2), P(3), P(4), P(5), "end");
    case 7: return cg_goto(fn, B, P(0), P(1), P(2), P(3), P(4), P(5), P(6), "end");
    case 8: return cg_goto(fn, B, P(0), P(1), P(2), P(3), P(4), P(5), P(6), P(7), "end");
    case 9: return cg_goto(fn, B, P(0), P(1), P(2), P(3), P(4), P(5), P(6), P(7), P(8), "end");
    case 10: return cg_goto(fn, B, P(0), P(1), P(2), P(3), P(4), P(5), P(6), P(7), P(8), P(9), "end");
    case 11: return cg_goto(fn, B, P(0), P(1), P(2), P(3), P(4), P(5), P(6), P(7), P(8), P(9), P(10), "end");
    case 12: return cg_goto(fn, B, P(0), P(1), P(2), P(3), P(4), P(5), P(6), P(7), P(8), P(9), P(10), P(11), "end");
    default:
        /* 13..22 pairs: pass 22 pairs, the unused ones being the terminator (the library stops at the first) */
        { char *e = "end"; char *ll[24]; int xx[24];
          for (int i = 0; i < 24; i++) { ll[i] = i < n ? l[i] : e; xx[i] = i < n ? x[i] : 0; }
          return cg_goto(fn, B, ll[0], xx[0], ll[1], xx[1], ll[2], xx[2], ll[3], xx[3], ll[4], xx[4], ll[5], xx[5], ll[6], xx[6],
                         ll[7], xx[7], ll[8], xx[8], ll[9], xx[9], ll[10], xx[10], ll[11], xx[11], ll[12], xx[12], ll[13], xx[13],
                         ll[14], xx[14], ll[15], xx[15], ll[16], xx[16], ll[17], xx[17], ll[18], xx[18], ll[19], xx[19],
                         ll[20], xx[20], ll[21], xx[21], "end"); }
    }
}
static int call_gorel(int n, char **l, int *x)
{
    char *e = "end"; char *ll[24]; int xx[24];
    for (int i = 0; i < 24; i++) { ll[i] = i < n ? l[i] : e; xx[i] = i < n ? x[i] : 0; }
    return cg_gorel(fn, ll[0], xx[0], ll[1], xx[1], ll[2], xx[2], ll[3], xx[3], ll[4], xx[4], ll[5], xx[5], ll[6], xx[6],
                    ll[7], xx[7], ll[8], xx[8], ll[9], xx[9], ll[10], xx[10], ll[11], xx[11], ll[12], xx[12], ll[13], xx[13],
                    ll[14], xx[14], ll[15], xx[15], ll[16], xx[16], ll[17], xx[17], ll[18], xx[18], ll[19], xx[19],
                    ll[20], xx[20], ll[21], xx[21], "end");
}

int main(void)
{
    static char line[8192];
    double d27[64]; cgsize_t conn8[8] = {1, 2, 3, 4, 5, 6, 7, 8};
    for (int i = 0; i < 64; i++) d27[i] = i;
    /* C11_OTHER=<path>:<adf|hdf5> : a second file is created, kept open read-only for the whole run and READ
       (cg_nbases) before every command: whatever the library's "current file" is after a call on another file,
       navigation and node-context calls on the file under test must behave as if that call had not happened */
    int ofn = 0;
    {
        const char *oth = getenv("C11_OTHER");
        if (oth && strchr(oth, ':')) {
            char op[1024]; int ob, k = (int)(strrchr(oth, ':') - oth);
            snprintf(op, sizeof op, "%.*s", k, oth);
            remove(op);
            if (cg_set_file_type(!strcmp(oth + k + 1, "hdf5") ? CG_FILE_HDF5 : CG_FILE_ADF) || cg_open(op, CG_MODE_WRITE, &ofn) ||
                cg_base_write(ofn, "OtherBase", 3, 3, &ob) || cg_close(ofn) || cg_open(op, CG_MODE_READ, &ofn)) {
                fprintf(stderr, "other file: %s\n", cg_get_error()); return 7;
            }
        }
    }
    while (fgets(line, sizeof line, stdin)) {
        if (!split(line)) continue;
        const char *c = W[0];
        int rc = -7, out = 0;
        if (ofn > 0 && strcmp(c, "ft") && strcmp(c, "open")) { int onb; cg_nbases(ofn, &onb); }
#define A(k) atoi(W[k])
        if (!strcmp(c, "ft")) { rc = cg_set_file_type(!strcmp(W[1], "hdf5") ? CG_FILE_HDF5 : CG_FILE_ADF); printf("c %d\n", rc); }
        else if (!strcmp(c, "open")) {
            int mode = W[1][0] == 'r' ? CG_MODE_READ : W[1][0] == 'w' ? CG_MODE_WRITE : CG_MODE_MODIFY;
            rc = cg_open(W[2], mode, &fn); printf("c %d\n", rc);
        }
        else if (!strcmp(c, "close")) { rc = cg_close(fn); printf("c %d\n", rc); }
        /* ---------------------------------------------------------------- build: explicit indices */
        else if (!strcmp(c, "base")) { rc = cg_base_write(fn, W[1], 3, 3, &out); printf("c %d\n", rc); }
        else if (!strcmp(c, "zone")) {
            cgsize_t ss[9] = {3, 3, 3, 2, 2, 2, 0, 0, 0}, su[3] = {8, 1, 0};
            rc = W[3][0] == 's' ? cg_zone_write(fn, A(1), W[2], ss, CGNS_ENUMV(Structured), &out)
                                : cg_zone_write(fn, A(1), W[2], su, CGNS_ENUMV(Unstructured), &out);
            printf("c %d\n", rc);
        }
        else if (!strcmp(c, "family")) { rc = cg_family_write(fn, A(1), W[2], &out); printf("c %d\n", rc); }
        else if (!strcmp(c, "biter")) { rc = cg_biter_write(fn, A(1), W[2], 3); printf("c %d\n", rc); }
        else if (!strcmp(c, "pzone")) { rc = cg_particle_write(fn, A(1), W[2], 4, &out); printf("c %d\n", rc); }
        else if (!strcmp(c, "gravity")) { float g[3] = {0, 0, 1}; rc = cg_gravity_write(fn, A(1), g); printf("c %d\n", rc); }
        else if (!strcmp(c, "coord")) { rc = cg_coord_write(fn, A(1), A(2), CGNS_ENUMV(RealDouble), W[3], d27, &out); printf("c %d\n", rc); }
        else if (!strcmp(c, "grid")) { rc = cg_grid_write(fn, A(1), A(2), W[3], &out); printf("c %d\n", rc); }
        else if (!strcmp(c, "section")) { rc = cg_section_write(fn, A(1), A(2), W[3], CGNS_ENUMV(HEXA_8), 1, 1, 0, conn8, &out); printf("c %d\n", rc); }
        else if (!strcmp(c, "sol")) { rc = cg_sol_write(fn, A(1), A(2), W[3], CGNS_ENUMV(Vertex), &out); printf("c %d\n", rc); }
        else if (!strcmp(c, "field")) { rc = cg_field_write(fn, A(1), A(2), A(3), CGNS_ENUMV(RealDouble), W[4], d27, &out); printf("c %d\n", rc); }
        else if (!strcmp(c, "boco")) {
            cgsize_t pr[6] = {1, 1, 1, 2, 2, 1}, pu[2] = {1, 2};
            rc = cg_boco_write(fn, A(1), A(2), W[3], CGNS_ENUMV(BCWall), CGNS_ENUMV(PointRange), 2, W[4][0] == 's' ? pr : pu, &out);
            printf("c %d\n", rc);
        }
        else if (!strcmp(c, "dataset")) { rc = cg_dataset_write(fn, A(1), A(2), A(3), W[4], CGNS_ENUMV(BCWall), &out); printf("c %d\n", rc); }
        else if (!strcmp(c, "bcdata")) { rc = cg_bcdata_write(fn, A(1), A(2), A(3), A(4), (CGNS_ENUMT(BCDataType_t))A(5)); printf("c %d\n", rc); }
        else if (!strcmp(c, "bcwall")) { rc = cg_bc_wallfunction_write(fn, A(1), A(2), A(3), CGNS_ENUMV(Generic)); printf("c %d\n", rc); }
        else if (!strcmp(c, "bcarea")) { rc = cg_bc_area_write(fn, A(1), A(2), A(3), CGNS_ENUMV(BleedArea), 1.0f, "region"); printf("c %d\n", rc); }
        else if (!strcmp(c, "conn")) {
            cgsize_t p[3] = {1, 1, 1}, dp[3] = {1, 1, 1};
            rc = cg_conn_write(fn, A(1), A(2), W[3], CGNS_ENUMV(Vertex), CGNS_ENUMV(Abutting1to1), CGNS_ENUMV(PointList), 1, p,
                               W[4], W[5][0] == 's' ? CGNS_ENUMV(Structured) : CGNS_ENUMV(Unstructured),
                               CGNS_ENUMV(PointListDonor), CGNS_ENUMV(LongInteger), 1, dp, &out);
            printf("c %d\n", rc);
        }
        else if (!strcmp(c, "cperio")) { float a[3] = {0, 0, 0}; rc = cg_conn_periodic_write(fn, A(1), A(2), A(3), a, a, a); printf("c %d\n", rc); }
        else if (!strcmp(c, "caverage")) { rc = cg_conn_average_write(fn, A(1), A(2), A(3), CGNS_ENUMV(AverageAll)); printf("c %d\n", rc); }
        else if (!strcmp(c, "one21")) {
            cgsize_t r[6] = {1, 1, 1, 1, 3, 3}, dr[6] = {3, 1, 1, 3, 3, 3}; int tr[3] = {1, 2, 3};
            rc = cg_1to1_write(fn, A(1), A(2), W[3], W[4], r, dr, tr, &out); printf("c %d\n", rc);
        }
        else if (!strcmp(c, "hole")) {
            cgsize_t p[3] = {1, 1, 1};
            rc = cg_hole_write(fn, A(1), A(2), W[3], CGNS_ENUMV(Vertex), CGNS_ENUMV(PointList), 1, 1, p, &out); printf("c %d\n", rc);
        }
        else if (!strcmp(c, "discrete")) { rc = cg_discrete_write(fn, A(1), A(2), W[3], &out); printf("c %d\n", rc); }
        else if (!strcmp(c, "rigid")) { rc = cg_rigid_motion_write(fn, A(1), A(2), W[3], CGNS_ENUMV(ConstantRate), &out); printf("c %d\n", rc); }
        else if (!strcmp(c, "arb")) { rc = cg_arbitrary_motion_write(fn, A(1), A(2), W[3], CGNS_ENUMV(NonDeformingGrid), &out); printf("c %d\n", rc); }
        else if (!strcmp(c, "ziter")) { rc = cg_ziter_write(fn, A(1), A(2), W[3]); printf("c %d\n", rc); }
        else if (!strcmp(c, "subreg")) { rc = cg_subreg_bcname_write(fn, A(1), A(2), W[3], 2, "bcname", &out); printf("c %d\n", rc); }
        else if (!strcmp(c, "fambc")) { rc = cg_fambc_write(fn, A(1), A(2), W[3], CGNS_ENUMV(BCWall), &out); printf("c %d\n", rc); }
        else if (!strcmp(c, "geo")) { rc = cg_geo_write(fn, A(1), A(2), W[3], "file.cad", "cadsys", &out); printf("c %d\n", rc); }
        else if (!strcmp(c, "pcoord")) { rc = cg_particle_coord_write(fn, A(1), A(2), CGNS_ENUMV(RealDouble), W[3], d27, &out); printf("c %d\n", rc); }
        else if (!strcmp(c, "psol")) { rc = cg_particle_sol_write(fn, A(1), A(2), W[3], &out); printf("c %d\n", rc); }
        else if (!strcmp(c, "pfield")) { rc = cg_particle_field_write(fn, A(1), A(2), A(3), CGNS_ENUMV(RealDouble), W[4], d27, &out); printf("c %d\n", rc); }
        else if (!strcmp(c, "piter")) { rc = cg_piter_write(fn, A(1), A(2), W[3]); printf("c %d\n", rc); }
        /* ---------------------------------------------------------------- build: node-context writers */
        else if (!strcmp(c, "user")) { rc = cg_user_data_write(W[1]); printf("c %d\n", rc); }
        else if (!strcmp(c, "array")) { int v[2] = {1, 2}; cgsize_t dim = 1; rc = cg_array_write(W[1], CGNS_ENUMV(Integer), 1, &dim, v); printf("c %d\n", rc); }
        else if (!strcmp(c, "timevalues")) { cgsize_t dim = 3; rc = cg_array_write("TimeValues", CGNS_ENUMV(RealDouble), 1, &dim, d27); printf("c %d\n", rc); }
        else if (!strcmp(c, "origin")) { cgsize_t dims[2] = {3, 2}; rc = cg_array_write("OriginLocation", CGNS_ENUMV(RealDouble), 2, dims, d27); printf("c %d\n", rc); }
        else if (!strcmp(c, "integral")) { rc = cg_integral_write(W[1]); printf("c %d\n", rc); }
        else if (!strcmp(c, "state")) { rc = cg_state_write("refstate"); printf("c %d\n", rc); }
        else if (!strcmp(c, "converg")) { rc = cg_convergence_write(5, "norms"); printf("c %d\n", rc); }
        else if (!strcmp(c, "eqset")) { rc = cg_equationset_write(3); printf("c %d\n", rc); }
        else if (!strcmp(c, "governing")) { rc = cg_governing_write(CGNS_ENUMV(NSTurbulent)); printf("c %d\n", rc); }
        else if (!strcmp(c, "model")) { rc = cg_model_write(W[1], CGNS_ENUMV(ModelTypeUserDefined)); printf("c %d\n", rc); }
        else if (!strcmp(c, "peqset")) { rc = cg_particle_equationset_write(3); printf("c %d\n", rc); }
        else if (!strcmp(c, "pgoverning")) { rc = cg_particle_governing_write(CGNS_ENUMV(DEM)); printf("c %d\n", rc); }
        else if (!strcmp(c, "pmodel")) { rc = cg_particle_model_write(W[1], CGNS_ENUMV(ParticleModelTypeUserDefined)); printf("c %d\n", rc); }
        else if (!strcmp(c, "rotating")) { float r[3] = {1, 0, 0}; rc = cg_rotating_write(r, r); printf("c %d\n", rc); }
        else if (!strcmp(c, "famdataset")) { rc = cg_bcdataset_write(W[1], CGNS_ENUMV(BCWall), CGNS_ENUMV(Dirichlet)); printf("c %d\n", rc); }
        else if (!strcmp(c, "nodefamily")) { rc = cg_node_family_write(W[1], &out); printf("c %d\n", rc); }
        /* ---------------------------------------------------------------- navigate */
        else if (!strcmp(c, "goto")) { char *l[40]; int x[40]; int n = parse_pairs(2, l, x); rc = call_goto(A(1), n, l, x); printf("n %d\n", rc); }
        else if (!strcmp(c, "gorel")) { char *l[40]; int x[40]; int n = parse_pairs(1, l, x); rc = call_gorel(n, l, x); printf("n %d\n", rc); }
        else if (!strcmp(c, "golist")) {
            char *l[40]; int x[40]; static char *empty = "";
            int n = parse_pairs(3, l, x);
            for (int i = n; i < 40; i++) { l[i] = empty; x[i] = 0; }
            rc = cg_golist(fn, A(1), A(2), l, x); printf("n %d\n", rc);
        }
        else if (!strcmp(c, "gopath")) { rc = cg_gopath(fn, NW > 1 ? (strcmp(W[1], "<empty>") ? W[1] : "") : NULL); printf("n %d\n", rc); }
        else if (!strcmp(c, "wherereplay")) {
            int f2, B, depth, num[CG_MAX_GOTO_DEPTH]; char lab[CG_MAX_GOTO_DEPTH][33]; char *labs[CG_MAX_GOTO_DEPTH];
            for (int i = 0; i < CG_MAX_GOTO_DEPTH; i++) labs[i] = lab[i];
            rc = cg_where(&f2, &B, &depth, labs, num);
            if (rc == 0) rc = cg_golist(f2, B, depth, labs, num);
            printf("n %d\n", rc);
        }
        /* ---------------------------------------------------------------- observe */
        else if (!strcmp(c, "where")) {
            int f2 = 0, B = 0, depth = 0, num[CG_MAX_GOTO_DEPTH]; char lab[CG_MAX_GOTO_DEPTH][33]; char *labs[CG_MAX_GOTO_DEPTH];
            for (int i = 0; i < CG_MAX_GOTO_DEPTH; i++) labs[i] = lab[i];
            rc = cg_where(&f2, &B, &depth, labs, num);
            printf("w %d", rc);
            if (rc == 0) { printf(" %d %d", B, depth); for (int i = 0; i < depth; i++) printf(" %s:%d", labs[i], num[i]); }
            printf("\n");
        }
        else if (!strcmp(c, "mark")) {
            static char path[4096];
            rc = cg_descriptor_write(W[1], "m");
            if (rc == 0) { locate(W[1], path, sizeof path); printf("m 0 %s\n", path); }
            else printf("m %d\n", rc);
        }
        else if (!strcmp(c, "readmark")) {
            int n = 0; static char names[64][33]; int k = 0;
            rc = cg_ndescriptors(&n);
            if (rc) { printf("r %d\n", rc); }
            else {
                for (int i = 1; i <= n && k < 64; i++) {
                    char nm[33]; char *text = NULL;
                    if (cg_descriptor_read(i, nm, &text)) { rc = -3; break; }
                    if (text) cg_free(text);
                    if (nm[0] == 'M') strcpy(names[k++], nm);
                }
                qsort(names, k, 33, (int (*)(const void *, const void *))strcmp);
                printf("r %d ", rc);
                for (int i = 0; i < k; i++) printf("%s%s", i ? "," : "", names[i]);
                if (!k) printf("-");
                printf("\n");
            }
        }
        else if (!strcmp(c, "delete")) { rc = cg_delete_node(W[1]); printf("d %d\n", rc); }
        else if (!strcmp(c, "counts")) {
            int a = -1, b = -1, d = -1;
            int r1 = cg_nuser_data(&a), r2 = cg_narrays(&b), r3 = cg_ndescriptors(&d);
            printf("k %d %d %d %d %d %d\n", r1, r1 ? -1 : a, r2, r2 ? -1 : b, r3, r3 ? -1 : d);
        }
        else if (!strcmp(c, "probe")) {
            /* read-only node-context calls whose answer depends on the CONTEXT of the position (zone, index dimension,
               parent kind), not only on the node: they must answer the same however the position was reached */
            CGNS_ENUMT(PointSetType_t) pt = 0; cgsize_t np = -1; int rind[12], diff[12], i, ord = -7, a = -1, b = -1, d = -1;
            CGNS_ENUMT(GridLocation_t) loc = 0; CGNS_ENUMT(DataClass_t) dc = 0;
            int r1, r2, r3, r4, r5, r6, r7, r8, r9;
            for (i = 0; i < 12; i++) { rind[i] = -7; diff[i] = -7; }
            r1 = cg_ptset_info(&pt, &np); r2 = cg_rind_read(rind); r3 = cg_gridlocation_read(&loc);
            r4 = cg_diffusion_read(diff); r5 = cg_ordinal_read(&ord); r6 = cg_dataclass_read(&dc);
            r7 = cg_nuser_data(&a); r8 = cg_narrays(&b); r9 = cg_ndescriptors(&d);
            printf("p pt=%d:%d:%lld rind=%d", r1, r1 ? 0 : (int)pt, r1 ? 0LL : (long long)np, r2);
            if (!r2) for (i = 0; i < 6; i++) printf(",%d", rind[i]);
            printf(" loc=%d:%d diff=%d", r3, r3 ? 0 : (int)loc, r4);
            if (!r4) for (i = 0; i < 6; i++) printf(",%d", diff[i]);
            printf(" ord=%d:%d dc=%d:%d n=%d:%d,%d:%d,%d:%d\n", r5, r5 ? 0 : ord, r6, r6 ? 0 : (int)dc, r7, r7 ? -1 : a, r8, r8 ? -1 : b, r9, r9 ? -1 : d);
        }
        else printf("badline %s\n", c);
        if (rc > 0 && getenv("C11_DEBUG")) fprintf(stderr, "[%s] -> %d: %s\n", c, rc, cg_get_error());
        fflush(stdout);
    }
    return 0;
}
