/* c15_h.c -- implementation side of the C15 (compaction) check.
   usage:
     c15_h make  <path> <adf|hdf5> <cgio|cgiolinks|mll> <seed>   build a source file (content derived from seed);
                                                                 cgiolinks also writes <dir>/ext_<seed>.cgns
     c15_h dump  <path> [<path2> ...]                            canonical logical dump(s), see c15_dump.c
     c15_h compress <path> <r|m> [<name-given-to-compress>]      cgio_open_file + ARM + cgio_compress_file + DISARM
     c15_h closecompress <path> <0|1>                            cg_open(MODIFY) + delete a node + cg_configure(
                                                                 COMPRESS, 0|1) + ARM + cg_close + DISARM
   The interposer (harness/interpose.c), when preloaded, counts / kills only between ARM and DISARM. */
#include <stdio.h>
#include <stdlib.h>
#include <string.h>
#include <unistd.h>
#include "cgnslib.h"
#include "cgns_io.h"
#include "c15_dump.c"

static unsigned long long rs;
static unsigned rnd(void) { rs = rs * 6364136223846793005ULL + 1442695040888963407ULL; return (unsigned)(rs >> 33); }

#define CK(x) do { int e_ = (x); if (e_) { char m_[CGIO_MAX_ERROR_LENGTH + 1]; cgio_error_message(m_); \
    printf("fail %s -> %d %s\n", #x, e_, m_); exit(3); } } while (0)
#define CG(x) do { if (x) { printf("fail %s -> %s\n", #x, cg_get_error()); exit(3); } } while (0)

static double new_i4(int cg, double pid, const char *name, const char *label, int n)
{
    double id;
    cgsize_t d = n;
    int i, *v = (int *)malloc(sizeof(int) * (n + 1));
    for (i = 0; i < n; i++) v[i] = (int)rnd();
    CK(cgio_new_node(cg, pid, name, label, "I4", 1, &d, v, &id));
    free(v);
    return id;
}

static double new_r8(int cg, double pid, const char *name, const char *label, int n)
{
    double id;
    cgsize_t d = n;
    int i;
    double *v = (double *)malloc(sizeof(double) * (n + 1));
    for (i = 0; i < n; i++) v[i] = (double)(int)(rnd() % 100000) / 8.0;
    CK(cgio_new_node(cg, pid, name, label, "R8", 1, &d, v, &id));
    free(v);
    return id;
}

static double new_c1(int cg, double pid, const char *name, const char *label, int n)
{
    double id;
    cgsize_t d = n;
    int i;
    char *v = (char *)malloc(n + 1);
    for (i = 0; i < n; i++) v[i] = (char)('a' + rnd() % 26);
    CK(cgio_new_node(cg, pid, name, label, "C1", 1, &d, v, &id));
    free(v);
    return id;
}

static void make_cgio(const char *path, int ft, int links, unsigned long long seed)
{
    int cg, i, nkeep, ndel;
    double root, a, b, c, e, tmp;
    char name[64];
    if (links) {
        char ext[2048], *sl;
        int cgx;
        double rx, x;
        strcpy(ext, path);
        sl = strrchr(ext, '/');
        sprintf(sl ? sl + 1 : ext, "ext_%llu.cgns", seed);
        unlink(ext);
        CK(cgio_open_file(ext, CGIO_MODE_WRITE, ft, &cgx));
        CK(cgio_get_root_id(cgx, &rx));
        x = new_r8(cgx, rx, "X", "ExtTarget_t", 20 + rnd() % 30);
        new_i4(cgx, x, "XC", "Child_t", 5);
        CK(cgio_close_file(cgx));
    }
    unlink(path);
    CK(cgio_open_file(path, CGIO_MODE_WRITE, ft, &cg));
    CK(cgio_get_root_id(cg, &root));
    a = new_c1(cg, root, "A", "Descr_t", 1 + rnd() % 60);
    b = new_i4(cg, root, "B", "Array_t", 1500 + rnd() % 1500);          /* > one 4096-byte ADF block */
    c = new_r8(cg, b, "C", "Sub_t", 1 + rnd() % 9);
    CK(cgio_create_node(cg, root, "D", &tmp));
    CK(cgio_set_label(cg, tmp, "Empty_t"));
    nkeep = 2 + rnd() % 4;
    for (i = 0; i < nkeep; i++) {
        sprintf(name, "K%d", i);
        e = new_r8(cg, root, name, "Keep_t", 10 + rnd() % 700);
        if (rnd() % 2) new_c1(cg, e, "note", "Descr_t", 5 + rnd() % 90);
    }
    /* garbage to be squeezed out */
    ndel = 1 + rnd() % 3;
    for (i = 0; i < ndel; i++) {
        sprintf(name, "G%d", i);
        e = new_i4(cg, i % 2 ? a : root, name, "Garbage_t", 300 + rnd() % 2500);
        new_c1(cg, e, "gc", "Descr_t", 40);
    }
    for (i = 0; i < ndel; i++) {
        double pid = i % 2 ? a : root;
        sprintf(name, "G%d", i);
        CK(cgio_get_node_id(cg, pid, name, &e));
        CK(cgio_delete_node(cg, pid, e));
    }
    if (links) {
        char ext[64];
        sprintf(ext, "ext_%llu.cgns", seed);
        CK(cgio_create_link(cg, root, "LnkInt", "", "/B/C", &tmp));
        CK(cgio_create_link(cg, a, "LnkExt", ext, "/X", &tmp));
    }
    (void)c;
    CK(cgio_close_file(cg));
}

static void make_mll(const char *path, int ft, unsigned long long seed)
{
    int fn, B, Z, S, F, Cx, i, n;
    cgsize_t size[9];
    double *x;
    unlink(path);
    CG(cg_set_file_type(ft == CGIO_FILE_HDF5 ? CG_FILE_HDF5 : CG_FILE_ADF));
    CG(cg_open(path, CG_MODE_WRITE, &fn));
    CG(cg_base_write(fn, "Base", 3, 3, &B));
    CG(cg_goto(fn, B, "end"));
    CG(cg_descriptor_write("Info", "compaction source"));
    CG(cg_descriptor_write("Scratch", "to be deleted before compress-on-close"));
    n = 4 + rnd() % 5;
    size[0] = n; size[1] = n; size[2] = n; size[3] = n - 1; size[4] = n - 1; size[5] = n - 1; size[6] = size[7] = size[8] = 0;
    CG(cg_zone_write(fn, B, "Zone1", size, CGNS_ENUMV(Structured), &Z));
    x = (double *)malloc(sizeof(double) * n * n * n);
    for (i = 0; i < n * n * n; i++) x[i] = (double)(int)(rnd() % 4096) / 16.0;
    CG(cg_coord_write(fn, B, Z, CGNS_ENUMV(RealDouble), "CoordinateX", x, &Cx));
    for (i = 0; i < n * n * n; i++) x[i] = (double)(int)(rnd() % 4096) / 16.0;
    CG(cg_coord_write(fn, B, Z, CGNS_ENUMV(RealDouble), "CoordinateY", x, &Cx));
    for (i = 0; i < n * n * n; i++) x[i] = (double)(int)(rnd() % 4096) / 16.0;
    CG(cg_coord_write(fn, B, Z, CGNS_ENUMV(RealDouble), "CoordinateZ", x, &Cx));
    CG(cg_sol_write(fn, B, Z, "Sol", CGNS_ENUMV(Vertex), &S));
    CG(cg_field_write(fn, B, Z, S, CGNS_ENUMV(RealDouble), "Density", x, &F));
    CG(cg_sol_write(fn, B, Z, "SolScratch", CGNS_ENUMV(Vertex), &S));
    CG(cg_field_write(fn, B, Z, S, CGNS_ENUMV(RealDouble), "Pressure", x, &F));
    free(x);
    CG(cg_close(fn));
}

int main(int argc, char **argv)
{
    if (argc >= 6 && !strcmp(argv[1], "make")) {
        int ft = !strcmp(argv[3], "hdf5") ? CGIO_FILE_HDF5 : CGIO_FILE_ADF;
        unsigned long long seed = strtoull(argv[5], 0, 10);
        rs = seed * 2654435761ULL + 12345;
        if (!strcmp(argv[4], "mll")) make_mll(argv[2], ft, seed);
        else make_cgio(argv[2], ft, !strcmp(argv[4], "cgiolinks"), seed);
        printf("made\n");
        return 0;
    }
    if (argc >= 3 && !strcmp(argv[1], "dump")) {
        int i;
        for (i = 2; i < argc; i++) {
            char tag[16];
            sprintf(tag, "%d", i - 2);
            dump_file(argv[i], tag);
        }
        return 0;
    }
    if (argc >= 4 && !strcmp(argv[1], "compress")) {
        int cg, ier;
        const char *given = argc >= 5 ? argv[4] : argv[2];
        CK(cgio_open_file(argv[2], argv[3][0] == 'm' ? CGIO_MODE_MODIFY : CGIO_MODE_READ, CGIO_FILE_NONE, &cg));
        access("//VERIF_IP_ARM", 0);
        ier = cgio_compress_file(cg, given);
        access("//VERIF_IP_DISARM", 0);
        printf("compress %d\n", ier);
        return 0;
    }
    if (argc >= 4 && !strcmp(argv[1], "closecompress")) {
        int fn, ier;
        CG(cg_open(argv[2], CG_MODE_MODIFY, &fn));
        CG(cg_goto(fn, 1, "end"));
        CG(cg_delete_node("Scratch"));
        CG(cg_goto(fn, 1, "Zone_t", 1, "end"));
        CG(cg_delete_node("SolScratch"));
        CG(cg_configure(CG_CONFIG_COMPRESS, (void *)(size_t)(argv[3][0] == '1' ? 1 : 0)));
        access("//VERIF_IP_ARM", 0);
        ier = cg_close(fn);
        access("//VERIF_IP_DISARM", 0);
        printf("close %d\n", ier);
        return 0;
    }
    fprintf(stderr, "usage: see the head of c15_h.c\n");
    return 2;
}
