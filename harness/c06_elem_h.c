/* c06_elem_h.c -- element connectivity / offsets / parent data with 32- and 64-bit memory and file types (C06).
   usage: c06_elem_h impl|oracle <file> <adf|hdf5>      script on stdin, one canonical line per op
   ops  sec <name> <s:I4|I8> <tri|ngon> <start> <end> <datasize>      cg_section_general_write (+ cg_section_initialize for ngon)  -> s ok|err
        ew  <name> <start> <end> <m> <hex elems>                      cg_elements_general_write                 -> r ok|err
        pw  <name> <start> <end> <m> <hex elems> <hex offsets>        cg_poly_elements_general_write            -> r ok|err
        er  <name> <start> <end> <m>                                  cg_elements_general_read                  -> d ok <hex> | d err
        pr  <name> <start> <end> <m>                                  cg_poly_elements_general_read             -> d ok <hex elems> <hex offsets>
        ea  <name>                                                    cg_elements_read / cg_poly_elements_read (cgsize_t, cgi_read_int_data) -> d ok <hex I8> [<hex offs I8>]
        pdw <name> <hex I8 parent data, 4*n values>                   cg_parent_data_write                      -> r ok|err
        epr <name> <start> <end>                                      cg_elements_partial_read with parent data (cgsize_t; fixed-size sections that have parent data) -> d ok <hex I8 elems> <hex I8 parents>
        pdpw <name> <start> <end> <hex I8 parent data, 4*(end-start+1) values>   cg_parent_data_partial_write (inside the range)  -> r ok|err
        pdr <name> <start> <end> <m>                                  cg_parent_elements_general_read + _position_general_read -> d ok <hex> <hex>
        ei  <name>                                                    -> t <declared type of ElementConnectivity> <range start> <range end> <ElementDataSize>
        reopen
   oracle mode: an ideal element store in plain C (values kept as long long, converted with the casts of c06_common.c).
   Only the shapes the generator produces are supported by the oracle: tri = TRI_3 with replace-in-range, extension
   with overlap or gap (gap elements are zero); ngon with replace-in-range and append directly after the last element. */
#include "c06_common.c"
#include "cgnslib.h"
#include "cgns_io.h"

static int oracle_mode, hdf5, fn = -1, B = 1, Z = 1;
static const char *path;
static CGNS_ENUMT(DataType_t) tenum(int t) { return t == T_I4 ? CGNS_ENUMV(Integer) : t == T_I8 ? CGNS_ENUMV(LongInteger) : CGNS_ENUMV(DataTypeNull); }

/* memory array of type m (I4/I8) <-> long long values, through the oracle casts */
static long long *to_ll(int m, const unsigned char *mem, long n) { long long *v = malloc((size_t)(n + 1) * 8); oracle_cast(m, T_I8, mem, v, n); return v; }
static void put_as(int via, int m, const long long *v, long n) {
    /* what a reader of type m sees of values stored with type `via` */
    unsigned char *a = malloc((size_t)(n + 1) * 8), *b = malloc((size_t)(n + 1) * 8);
    oracle_cast(T_I8, via, v, a, n); oracle_cast(via, m, a, b, n); puthex(b, n * tsize[m]); free(a); free(b);
}

typedef struct { char name[40]; int s, poly; long start, end; long long *el; long nel; long long *off; long long *pd; int has_pd; } osec;
static osec secs[64]; static int nsecs;
static osec *sfind(const char *n) { int i; for (i = 0; i < nsecs; i++) if (!strcmp(secs[i].name, n)) return &secs[i]; return NULL; }

static int sec_index(const char *name) {
    int n = 0, i, nb, pf; char nm[64]; CGNS_ENUMT(ElementType_t) et; cgsize_t st, en;
    if (cg_nsections(fn, B, Z, &n)) return 0;
    for (i = 1; i <= n; i++) if (!cg_section_read(fn, B, Z, i, nm, &et, &st, &en, &nb, &pf) && !strcmp(nm, name)) return i;
    return 0;
}
static int open_file(int create) {
    if (create) {
        cgsize_t size[3] = {1000, 999, 0};
        if (cg_set_file_type(hdf5 ? CG_FILE_HDF5 : CG_FILE_ADF)) return 1;
        if (cg_open(path, CG_MODE_WRITE, &fn) || cg_base_write(fn, "Base", 3, 3, &B) ||
            cg_zone_write(fn, B, "Zone", size, CGNS_ENUMV(Unstructured), &Z) || cg_close(fn)) return 1;
    }
    return cg_open(path, CG_MODE_MODIFY, &fn);
}

int main(int argc, char **argv) {
    static char line[1 << 20], name[64], a[8], kind[8], blob[1 << 19], blob2[1 << 19];
    long start, end, dsize;
    if (argc < 4) return 2;
    oracle_mode = strcmp(argv[1], "oracle") == 0; path = argv[2]; hdf5 = strcmp(argv[3], "hdf5") == 0;
    if (!oracle_mode && open_file(1)) { printf("openfail %s\n", cg_get_error()); return 3; }
    while (fgets(line, sizeof line, stdin)) {
        if (sscanf(line, "sec %63s %7s %7s %ld %ld %ld", name, a, kind, &start, &end, &dsize) == 6) {
            int s = tparse(a), poly = !strcmp(kind, "ngon"), S = 0, ier;
            if (oracle_mode) {
                osec *o = &secs[nsecs++]; long n = end - start + 1, i;
                memset(o, 0, sizeof *o); strncpy(o->name, name, 39); o->s = s; o->poly = poly; o->start = start; o->end = end;
                o->nel = poly ? dsize : 3 * n; o->el = calloc((size_t)o->nel + 1, 8);
                if (poly) { o->off = calloc((size_t)n + 2, 8); for (i = 0; i <= n; i++) o->off[i] = 2 * i; for (i = 0; i < o->nel; i++) o->el[i] = 0; }
                ier = 0;
            } else {
                ier = cg_section_general_write(fn, B, Z, name, poly ? CGNS_ENUMV(NGON_n) : CGNS_ENUMV(TRI_3), tenum(s), start, end, dsize, 0, &S);
                if (!ier && poly) ier = cg_section_initialize(fn, B, Z, S);
            }
            printf(ier ? "s err\n" : "s ok\n");
        } else if (sscanf(line, "ew %63s %ld %ld %7s %524000s", name, &start, &end, a, blob) == 5) {
            int m = tparse(a), ier; unsigned char *raw, *mem; long nb = unhex(blob, &raw), n = end - start + 1;
            if (nb != 3 * n * tsize[m]) { printf("badline %s", line); free(raw); continue; }
            mem = malloc((size_t)nb + 1); memcpy(mem, raw, (size_t)nb); free(raw);
            if (oracle_mode) {
                osec *o = sfind(name); ier = 1;
                if (o && !o->poly) {
                    long ns = start < o->start ? start : o->start, ne = end > o->end ? end : o->end, i;
                    long long *nv = calloc((size_t)(ne - ns + 1) * 3 + 1, 8), *v = to_ll(m, mem, 3 * n);
                    for (i = 0; i < 3 * (o->end - o->start + 1); i++) nv[3 * (o->start - ns) + i] = o->el[i];
                    for (i = 0; i < 3 * n; i++) nv[3 * (start - ns) + i] = v[i];
                    free(v); free(o->el); o->el = nv; o->start = ns; o->end = ne; o->nel = 3 * (ne - ns + 1); ier = 0;
                }
            } else { int S = sec_index(name); ier = S ? cg_elements_general_write(fn, B, Z, S, start, end, tenum(m), mem) : 1; }
            printf(ier ? "r err\n" : "r ok\n"); free(mem);
        } else if (sscanf(line, "pw %63s %ld %ld %7s %524000s %524000s", name, &start, &end, a, blob, blob2) == 6) {
            int m = tparse(a), ier; unsigned char *raw, *mem, *omem; long nb = unhex(blob, &raw), n = end - start + 1, nb2, ne;
            mem = malloc((size_t)nb + 1); memcpy(mem, raw, (size_t)nb); free(raw);
            nb2 = unhex(blob2, &raw); omem = malloc((size_t)nb2 + 1); memcpy(omem, raw, (size_t)nb2); free(raw);
            ne = nb / tsize[m];
            if (nb2 != (n + 1) * tsize[m]) { printf("badline %s", line); free(mem); free(omem); continue; }
            if (oracle_mode) {
                osec *o = sfind(name); ier = 1;
                if (o && o->poly && start >= o->start && start <= o->end + 1) {
                    long long *v = to_ll(m, mem, ne), *ov = to_ll(m, omem, n + 1);
                    long cnt = o->end - o->start + 1, e2 = end > o->end ? end : o->end, ncnt = e2 - o->start + 1, i, k = 0, j;
                    long long *noff = calloc((size_t)ncnt + 2, 8), *nel = calloc((size_t)(o->nel + ne) + 1, 8);
                    /* elements before start, then the new ones, then the old ones after end */
                    for (i = 0; i < start - o->start; i++) { for (j = o->off[i]; j < o->off[i + 1]; j++) nel[k++] = o->el[j]; noff[i + 1] = k; }
                    for (i = 0; i < n; i++) { for (j = ov[i] - ov[0]; j < ov[i + 1] - ov[0]; j++) nel[k++] = v[j]; noff[start - o->start + i + 1] = k; }
                    for (i = end - o->start + 1; i < cnt; i++) { for (j = o->off[i]; j < o->off[i + 1]; j++) nel[k++] = o->el[j]; noff[i + 1] = k; }
                    free(o->el); free(o->off); o->el = nel; o->off = noff; o->nel = k; o->end = e2; free(v); free(ov); ier = 0;
                }
            } else { int S = sec_index(name); ier = S ? cg_poly_elements_general_write(fn, B, Z, S, start, end, tenum(m), mem, omem) : 1; }
            printf(ier ? "r err\n" : "r ok\n"); free(mem); free(omem);
        } else if (sscanf(line, "er %63s %ld %ld %7s", name, &start, &end, a) == 4) {
            int m = tparse(a); long n = end - start + 1;
            if (oracle_mode) {
                osec *o = sfind(name);
                if (!o || o->poly || start < o->start || end > o->end || n < 1) printf("d err\n");
                else { printf("d ok "); put_as(o->s, m, o->el + 3 * (start - o->start), 3 * n); printf("\n"); }
            } else {
                int S = sec_index(name); unsigned char *mem = calloc((size_t)(3 * n > 0 ? 3 * n : 1), (size_t)tsize[m]);
                if (!S || cg_elements_general_read(fn, B, Z, S, start, end, tenum(m), mem)) printf("d err\n");
                else { printf("d ok "); puthex(mem, 3 * n * tsize[m]); printf("\n"); }
                free(mem);
            }
        } else if (sscanf(line, "pr %63s %ld %ld %7s", name, &start, &end, a) == 4) {
            int m = tparse(a); long n = end - start + 1;
            if (oracle_mode) {
                osec *o = sfind(name);
                if (!o || !o->poly || start < o->start || end > o->end || n < 1) printf("d err\n");
                else {
                    long i0 = start - o->start, i; long long *ro = calloc((size_t)n + 2, 8);
                    for (i = 0; i <= n; i++) ro[i] = o->off[i0 + i] - o->off[i0];
                    printf("d ok "); put_as(o->s, m, o->el + o->off[i0], (long)(o->off[i0 + n] - o->off[i0])); printf(" ");
                    put_as(o->s, m, ro, n + 1); printf("\n"); free(ro);
                }
            } else {
                int S = sec_index(name); cgsize_t ds = 0; unsigned char *mem, *omem;
                if (!S || cg_ElementPartialSize(fn, B, Z, S, start, end, &ds)) { printf("d err\n"); continue; }
                mem = calloc((size_t)ds + 1, (size_t)tsize[m]); omem = calloc((size_t)n + 2, (size_t)tsize[m]);
                if (cg_poly_elements_general_read(fn, B, Z, S, start, end, tenum(m), mem, omem)) printf("d err\n");
                else {
                    /* the elements the returned offsets describe (a whole-range query may report reserved space too) */
                    long long used = m == T_I4 ? (long long)((int *)omem)[n] : ((long long *)omem)[n];
                    if (used < 0 || used > (long long)ds) used = (long long)ds;
                    printf("d ok "); puthex(mem, (long)used * tsize[m]); printf(" "); puthex(omem, (n + 1) * tsize[m]); printf("\n");
                }
                free(mem); free(omem);
            }
        } else if (sscanf(line, "ea %63s", name) == 1 && !strncmp(line, "ea ", 3)) {
            if (oracle_mode) {
                osec *o = sfind(name);
                if (!o) printf("d err\n");
                else { long cnt = o->end - o->start + 1; printf("d ok "); put_as(o->s, T_I8, o->el, o->poly ? (long)o->off[cnt] : o->nel);
                       if (o->poly) { printf(" "); put_as(o->s, T_I8, o->off, cnt + 1); } printf("\n"); }
            } else {
                int S = sec_index(name), nb, pf; char nm[64]; CGNS_ENUMT(ElementType_t) et; cgsize_t st, en, ds = 0; cgsize_t *mem, *omem;
                if (!S || cg_section_read(fn, B, Z, S, nm, &et, &st, &en, &nb, &pf) || cg_ElementDataSize(fn, B, Z, S, &ds)) { printf("d err\n"); continue; }
                mem = calloc((size_t)ds + 1, sizeof(cgsize_t)); omem = calloc((size_t)(en - st + 2), sizeof(cgsize_t));
                if (et == CGNS_ENUMV(NGON_n)) {
                    if (cg_poly_elements_read(fn, B, Z, S, mem, omem, NULL)) printf("d err\n");
                    else { printf("d ok "); puthex((unsigned char *)mem, (long)omem[en - st + 1] * 8); printf(" "); puthex((unsigned char *)omem, (long)(en - st + 2) * 8); printf("\n"); }
                } else {
                    if (cg_elements_read(fn, B, Z, S, mem, NULL)) printf("d err\n");
                    else { printf("d ok "); puthex((unsigned char *)mem, (long)ds * 8); printf("\n"); }
                }
                free(mem); free(omem);
            }
        } else if (sscanf(line, "pdw %63s %524000s", name, blob) == 2) {
            unsigned char *raw; long nb = unhex(blob, &raw); int ier;
            if (oracle_mode) {
                osec *o = sfind(name); long cnt = o ? o->end - o->start + 1 : 0; ier = 1;
                if (o && nb == 4 * cnt * 8) { free(o->pd); o->pd = malloc((size_t)nb + 8); memcpy(o->pd, raw, (size_t)nb); o->has_pd = 1; ier = 0; }
            } else {
                int S = sec_index(name); cgsize_t *mem = malloc((size_t)nb + 8); memcpy(mem, raw, (size_t)nb);
                ier = S ? cg_parent_data_write(fn, B, Z, S, mem) : 1; free(mem);
            }
            free(raw); printf(ier ? "r err\n" : "r ok\n");
        } else if (sscanf(line, "epr %63s %ld %ld", name, &start, &end) == 3 && !strncmp(line, "epr ", 4)) {
            long n = end - start + 1;
            if (oracle_mode) {
                osec *o = sfind(name);
                if (!o || o->poly || !o->has_pd || start < o->start || end > o->end || n < 1) printf("d err\n");
                else {
                    long cnt = o->end - o->start + 1, i0 = start - o->start, i, k; long long *pv = calloc((size_t)4 * n + 1, 8);
                    for (k = 0; k < 4; k++) for (i = 0; i < n; i++) pv[k * n + i] = o->pd[k * cnt + i0 + i];
                    printf("d ok "); put_as(o->s, T_I8, o->el + 3 * i0, 3 * n); printf(" "); put_as(o->s, T_I8, pv, 4 * n); printf("\n"); free(pv);
                }
            } else {
                int S = sec_index(name); cgsize_t *mem = calloc((size_t)(3 * n > 0 ? 3 * n : 1) + 1, sizeof(cgsize_t)), *pm = calloc((size_t)(4 * n > 0 ? 4 * n : 1) + 1, sizeof(cgsize_t));
                if (!S || n < 1 || cg_elements_partial_read(fn, B, Z, S, start, end, mem, pm)) printf("d err\n");
                else { printf("d ok "); puthex((unsigned char *)mem, 3 * n * 8); printf(" "); puthex((unsigned char *)pm, 4 * n * 8); printf("\n"); }
                free(mem); free(pm);
            }
        } else if (sscanf(line, "pdpw %63s %ld %ld %524000s", name, &start, &end, blob) == 4) {
            unsigned char *raw; long nb = unhex(blob, &raw), n = end - start + 1; int ier;
            if (oracle_mode) {
                osec *o = sfind(name); long cnt = o ? o->end - o->start + 1 : 0, i, k; ier = 1;
                if (o && o->has_pd && n >= 1 && start >= o->start && end <= o->end && nb == 4 * n * 8) {
                    const long long *v = (const long long *)raw;
                    for (k = 0; k < 4; k++) for (i = 0; i < n; i++) o->pd[k * cnt + (start - o->start) + i] = v[k * n + i];
                    ier = 0;
                }
            } else {
                int S = sec_index(name); cgsize_t *mem = malloc((size_t)nb + 8); memcpy(mem, raw, (size_t)nb);
                ier = S ? cg_parent_data_partial_write(fn, B, Z, S, start, end, mem) : 1; free(mem);
            }
            free(raw); printf(ier ? "r err\n" : "r ok\n");
        } else if (sscanf(line, "pdr %63s %ld %ld %7s", name, &start, &end, a) == 4) {
            int m = tparse(a); long n = end - start + 1;
            if (oracle_mode) {
                osec *o = sfind(name);
                if (!o || !o->has_pd || start < o->start || end > o->end || n < 1) printf("d err\n");
                else {
                    long cnt = o->end - o->start + 1, i0 = start - o->start, i; long long *pe = calloc((size_t)2 * n + 1, 8), *pp = calloc((size_t)2 * n + 1, 8);
                    for (i = 0; i < n; i++) { pe[i] = o->pd[i0 + i]; pe[n + i] = o->pd[cnt + i0 + i]; pp[i] = o->pd[2 * cnt + i0 + i]; pp[n + i] = o->pd[3 * cnt + i0 + i]; }
                    printf("d ok "); put_as(o->s, m, pe, 2 * n); printf(" "); put_as(o->s, m, pp, 2 * n); printf("\n"); free(pe); free(pp);
                }
            } else {
                int S = sec_index(name); unsigned char *pe = calloc((size_t)2 * n + 1, 8), *pp = calloc((size_t)2 * n + 1, 8);
                if (!S || cg_parent_elements_general_read(fn, B, Z, S, start, end, tenum(m), pe) ||
                    cg_parent_elements_position_general_read(fn, B, Z, S, start, end, tenum(m), pp)) printf("d err\n");
                else { printf("d ok "); puthex(pe, 2 * n * tsize[m]); printf(" "); puthex(pp, 2 * n * tsize[m]); printf("\n"); }
                free(pe); free(pp);
            }
        } else if (sscanf(line, "ei %63s", name) == 1 && !strncmp(line, "ei ", 3)) {
            if (oracle_mode) {
                osec *o = sfind(name);
                if (!o) printf("t none\n"); else printf("t %s %ld %ld %ld\n", tnames[o->s], o->start, o->end, o->poly ? (long)o->off[o->end - o->start + 1] : o->nel);
            } else {
                int S = sec_index(name), nb, pf, cgio; char nm[64], p[256], dt[40] = ""; CGNS_ENUMT(ElementType_t) et; cgsize_t st, en, ds = 0; double root, id;
                if (!S || cg_section_read(fn, B, Z, S, nm, &et, &st, &en, &nb, &pf) || cg_ElementDataSize(fn, B, Z, S, &ds) || cg_get_cgio(fn, &cgio) ||
                    cgio_get_root_id(cgio, &root)) { printf("t none\n"); continue; }
                snprintf(p, sizeof p, "/Base/Zone/%s/ElementConnectivity", name);
                if (cgio_get_node_id(cgio, root, p, &id) || cgio_get_data_type(cgio, id, dt)) { printf("t none\n"); continue; }
                printf("t %s %ld %ld %ld\n", dt, (long)st, (long)en, (long)ds);
            }
        } else if (!strncmp(line, "reopen", 6)) {
            if (!oracle_mode && (cg_close(fn) || open_file(0))) { printf("reopenfail %s\n", cg_get_error()); return 3; }
            printf("reopened\n");
        } else if (line[0] == '\n') ;
        else printf("badline %s", line);
        fflush(stdout);
    }
    if (!oracle_mode && cg_close(fn)) { printf("closefail %s\n", cg_get_error()); return 3; }
    return 0;
}
