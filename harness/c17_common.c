/* c17_common.c -- resource probes shared by the C17 harnesses (included, not linked).
   fd_count()   : number of entries of /proc/self/fd (the directory stream's own descriptor excluded)
   h5_count()   : H5Fget_obj_count(H5F_OBJ_ALL, H5F_OBJ_ALL) -- every open HDF5 identifier of the kinds files, groups,
                  datasets, datatypes, attributes, process wide.  With H5F_OBJ_ALL as the file, libhdf5 also counts
                  identifiers that belong to NO file (a transient datatype that was never closed), which the per-file
                  counts with H5F_OBJ_LOCAL never see.  (H5Inmembers cannot be used: it refuses library types.)
   heap_bytes() : bytes currently allocated according to the sanitizer allocator (exact, not a high-water mark)
   leak_check() : LeakSanitizer recoverable check now (reports unreachable blocks with their allocation stacks on stderr);
                  returns 1 when a leak was reported.  Only meaningful when ASAN_OPTIONS has detect_leaks=1. */
#include <stdio.h>
#include <stdlib.h>
#include <string.h>
#include <dirent.h>
#include <unistd.h>
#include <sys/types.h>
#include <sys/wait.h>
#include <sys/stat.h>
/* exported by libasan (gcc 12 ships no allocator_interface.h) */
extern size_t __sanitizer_get_current_allocated_bytes(void);
extern int __lsan_do_recoverable_leak_check(void);
#include "hdf5.h"

static int fd_count(void)
{
    DIR *d = opendir("/proc/self/fd");
    struct dirent *e;
    int n = 0;
    if (!d) return -1;
    while ((e = readdir(d)) != NULL) {
        if (e->d_name[0] == '.') continue;
        if (atoi(e->d_name) == dirfd(d)) continue;
        n++;
    }
    closedir(d);
    return n;
}

/* names of the descriptors that are open beyond the first `from` ones: for diagnostics only (never compared) */
static void fd_targets(char *out, size_t cap)
{
    DIR *d = opendir("/proc/self/fd");
    struct dirent *e;
    out[0] = 0;
    if (!d) return;
    while ((e = readdir(d)) != NULL) {
        char p[300], t[300]; ssize_t k; const char *b;
        if (e->d_name[0] == '.' || atoi(e->d_name) == dirfd(d) || atoi(e->d_name) < 3) continue;
        snprintf(p, sizeof p, "/proc/self/fd/%s", e->d_name);
        k = readlink(p, t, sizeof t - 1);
        if (k < 0) continue;
        t[k] = 0;
        b = strrchr(t, '/'); b = b ? b + 1 : t;
        if (strlen(out) + strlen(b) + 2 < cap) { strcat(out, out[0] ? "," : ""); strcat(out, b); }
    }
    closedir(d);
}

static long h5_count(void)
{
    return (long)H5Fget_obj_count((hid_t)H5F_OBJ_ALL, H5F_OBJ_ALL);
}

static long long heap_bytes(void)
{
    return (long long)__sanitizer_get_current_allocated_bytes();
}

static int leak_check(void)
{
    return __lsan_do_recoverable_leak_check();
}
