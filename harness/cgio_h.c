/* cgio_h.c -- implementation side of the node-database correspondence (C02, C03, C08, C09, C16):
   drives the cgio_* layer of the library rebuilt from /repo with the script language of ocaml/eng_c02.ml
   (TreeDB model) and prints the same canonical lines.  Several files may be open at once.
   Node handles are the caller's uids (0 = root of the file); the harness keeps uid -> (cgio id, parent uid, name)
   so that ids can be re-resolved by path after a close/reopen. */
#include <stdio.h>
#include <stdlib.h>
#include <string.h>
#include <unistd.h>
#include "cgns_io.h"

#define MAXF 16
#define MAXH 4096
typedef struct { int alive; double id; int parent; char name[80]; } hnd;
typedef struct { int open, cgio, type; char path[512]; double root; hnd *h; } fil;
static fil F[MAXF];

static size_t unhex(const char *s, unsigned char *out) {
    size_t n = 0;
    if (s[0] == '-' && s[1] == 0) { out[0] = 0; return 0; }
    while (s[0] && s[1]) { unsigned v; sscanf(s, "%2x", &v); out[n++] = (unsigned char)v; s += 2; }
    out[n] = 0;
    return n;
}
static void hexout(const unsigned char *b, size_t n) { if (!n) printf("-"); for (size_t i = 0; i < n; i++) printf("%02x", b[i]); }
static void hexstr(const char *s) { hexout((const unsigned char *)s, strlen(s)); }
static int tsize(const char *t) {
    if (!strcmp(t, "C1") || !strcmp(t, "B1")) return 1;
    if (!strcmp(t, "I4") || !strcmp(t, "U4") || !strcmp(t, "R4")) return 4;
    if (!strcmp(t, "I8") || !strcmp(t, "U8") || !strcmp(t, "R8") || !strcmp(t, "X4")) return 8;
    if (!strcmp(t, "X8")) return 16;
    return 0;
}
static int parse_csv(const char *s, cgsize_t *out) {
    int n = 0; if (s[0] == '-' ) return 0;
    while (*s) { out[n++] = (cgsize_t)strtoll(s, (char **)&s, 10); if (*s == ',') s++; }
    return n;
}
static int parse_sel(const char *s, cgsize_t *st, cgsize_t *en, cgsize_t *sd) {
    int n = 0; if (s[0] == '-') return 0;
    while (*s) {
        st[n] = (cgsize_t)strtoll(s, (char **)&s, 10); s++;
        en[n] = (cgsize_t)strtoll(s, (char **)&s, 10); s++;
        sd[n] = (cgsize_t)strtoll(s, (char **)&s, 10); n++;
        if (*s == ',') s++;
    }
    return n;
}
static int bp_depth;
static void build_path(fil *f, int u, char *out) {
    if (u == 0) { out[0] = 0; return; }
    if (++bp_depth > 64) { bp_depth--; strcpy(out, "/<parent cycle>"); return; }   /* a move the library accepted made a cycle */
    build_path(f, f->h[u].parent, out);
    bp_depth--;
    if (strlen(out) < 7000) { strcat(out, "/"); strcat(out, f->h[u].name); }
}
static void kill_subtree(fil *f, int u) {
    if (!f->h[u].alive) return;
    f->h[u].alive = 0;
    for (int i = 1; i < MAXH; i++) if (f->h[i].alive && f->h[i].parent == u) kill_subtree(f, i);
}
static int do_open(fil *f, int mode) {
    int m = mode == 'w' ? CGIO_MODE_WRITE : mode == 'm' ? CGIO_MODE_MODIFY : CGIO_MODE_READ;
    if (cgio_open_file(f->path, m, f->type, &f->cgio)) return 1;
    if (cgio_get_root_id(f->cgio, &f->root)) return 1;
    f->open = 1; f->h[0].alive = 1; f->h[0].id = f->root; f->h[0].parent = -1; f->h[0].name[0] = 0;
    return 0;
}
static int node_bytes(fil *f, double id, char *type, long long *nbytes, long long *nelem) {
    int nd; cgsize_t dims[CGIO_MAX_DIMENSIONS];
    if (cgio_get_data_type(f->cgio, id, type)) return 1;
    if (cgio_get_dimensions(f->cgio, id, &nd, dims)) return 1;
    long long n = 1; for (int i = 0; i < nd; i++) n *= dims[i];
    if (nd == 0 || tsize(type) == 0) n = 0;
    *nelem = n; *nbytes = n * tsize(type);
    return 0;
}
#define H(fi, u) (((u) >= 0 && (u) < MAXH && F[fi].h[u].alive) ? F[fi].h[u].id : -1.0)
#define BAD(fi) ((fi) < 0 || (fi) >= MAXF || !F[fi].open)

int main(void) {
    static char line[4200000], a[4][2100000];
    static unsigned char buf[2100000], buf2[2100000];
    int fi, u, p, np; long long x, y;
    while (fgets(line, sizeof line, stdin)) {
        char cmd[32]; cmd[0] = 0; sscanf(line, "%31s", cmd);
        if (!strcmp(cmd, "file")) {
            char be[16], md[8];
            sscanf(line, "%*s %d %511s %15s %7s", &fi, a[0], be, md);
            fil *f = &F[fi];
            if (!f->h) f->h = calloc(MAXH, sizeof(hnd));
            memset(f->h, 0, MAXH * sizeof(hnd));
            strcpy(f->path, a[0]); f->type = !strcmp(be, "hdf5") ? CGIO_FILE_HDF5 : CGIO_FILE_ADF;
            if (md[0] == 'w') unlink(f->path);
            printf(do_open(f, md[0]) ? "err\n" : "ok\n");
        } else if (!strcmp(cmd, "closef")) {
            sscanf(line, "%*s %d", &fi);
            if (BAD(fi)) { printf("err\n"); continue; }
            printf(cgio_close_file(F[fi].cgio) ? "err\n" : "ok\n"); F[fi].open = 0;
        } else if (!strcmp(cmd, "reopen")) {
            char md[8]; sscanf(line, "%*s %d %7s", &fi, md);
            fil *f = &F[fi]; int bad = 0;
            if (f->open && cgio_close_file(f->cgio)) bad = 1;
            f->open = 0;
            if (!bad && do_open(f, md[0])) bad = 1;
            if (!bad) for (int i = 1; i < MAXH; i++) if (f->h[i].alive) {
                static char path[8192]; build_path(f, i, path);
                if (cgio_get_node_id(f->cgio, f->root, path, &f->h[i].id)) { bad = 2; break; }
            }
            printf(bad ? "err\n" : "ok\n");
        } else if (!strcmp(cmd, "create")) {
            sscanf(line, "%*s %d %d %d %s", &fi, &p, &u, a[0]);
            if (BAD(fi)) { printf("err\n"); continue; }
            unhex(a[0], buf); double id;
            if (u <= 0 || u >= MAXH || F[fi].h[u].alive || H(fi, p) < 0 ||
                cgio_create_node(F[fi].cgio, H(fi, p), (char *)buf, &id)) printf("err\n");
            else { hnd *h = &F[fi].h[u]; h->alive = 1; h->id = id; h->parent = p; strncpy(h->name, (char *)buf, 79); printf("ok\n"); }
        } else if (!strcmp(cmd, "link")) {
            sscanf(line, "%*s %d %d %d %s %s %s", &fi, &p, &u, a[0], a[1], a[2]);
            if (BAD(fi)) { printf("err\n"); continue; }
            static unsigned char fn[4096], pa[4096]; unhex(a[0], buf); unhex(a[1], fn); unhex(a[2], pa); double id;
            if (u <= 0 || u >= MAXH || F[fi].h[u].alive || H(fi, p) < 0 ||
                cgio_create_link(F[fi].cgio, H(fi, p), (char *)buf, (char *)fn, (char *)pa, &id)) printf("err\n");
            else { hnd *h = &F[fi].h[u]; h->alive = 1; h->id = id; h->parent = p; strncpy(h->name, (char *)buf, 79); printf("ok\n"); }
        } else if (!strcmp(cmd, "delete")) {
            sscanf(line, "%*s %d %d %d", &fi, &p, &u);
            if (BAD(fi) || H(fi, p) < 0 || H(fi, u) < 0 || u == 0) { printf("err\n"); continue; }
            if (cgio_delete_node(F[fi].cgio, H(fi, p), H(fi, u))) printf("err\n");
            else { kill_subtree(&F[fi], u); printf("ok\n"); }
        } else if (!strcmp(cmd, "rename")) {
            sscanf(line, "%*s %d %d %d %s", &fi, &p, &u, a[0]);
            if (BAD(fi) || H(fi, p) < 0 || H(fi, u) < 0 || u == 0) { printf("err\n"); continue; }
            unhex(a[0], buf);
            if (cgio_set_name(F[fi].cgio, H(fi, p), H(fi, u), (char *)buf)) printf("err\n");
            else { strncpy(F[fi].h[u].name, (char *)buf, 79); printf("ok\n"); }
        } else if (!strcmp(cmd, "move")) {
            sscanf(line, "%*s %d %d %d %d", &fi, &p, &u, &np);
            if (BAD(fi) || H(fi, p) < 0 || H(fi, u) < 0 || H(fi, np) < 0 || u == 0) { printf("err\n"); continue; }
            if (cgio_move_node(F[fi].cgio, H(fi, p), H(fi, u), H(fi, np))) printf("err\n");
            else { F[fi].h[u].parent = np; printf("ok\n"); }
        } else if (!strcmp(cmd, "label")) {
            sscanf(line, "%*s %d %d %s", &fi, &u, a[0]);
            if (BAD(fi) || H(fi, u) < 0) { printf("err\n"); continue; }
            unhex(a[0], buf);
            printf(cgio_set_label(F[fi].cgio, H(fi, u), (char *)buf) ? "err\n" : "ok\n");
        } else if (!strcmp(cmd, "dims")) {
            char ty[16]; cgsize_t d[32]; sscanf(line, "%*s %d %d %15s %s", &fi, &u, ty, a[0]);
            if (BAD(fi) || H(fi, u) < 0) { printf("err\n"); continue; }
            int nd = parse_csv(a[0], d);
            printf(cgio_set_dimensions(F[fi].cgio, H(fi, u), ty, nd, d) ? "err\n" : "ok\n");
        } else if (!strcmp(cmd, "wall")) {
            sscanf(line, "%*s %d %d %s", &fi, &u, a[0]);
            if (BAD(fi) || H(fi, u) < 0) { printf("err\n"); continue; }
            char ty[40]; long long nb, ne; size_t n = unhex(a[0], buf);
            if (node_bytes(&F[fi], H(fi, u), ty, &nb, &ne) || nb == 0 || (long long)n != nb) { printf("err\n"); continue; }
            printf(cgio_write_all_data(F[fi].cgio, H(fi, u), buf) ? "err\n" : "ok\n");
        } else if (!strcmp(cmd, "wblock")) {
            sscanf(line, "%*s %d %d %lld %lld %s", &fi, &u, &x, &y, a[0]);
            if (BAD(fi) || H(fi, u) < 0) { printf("err\n"); continue; }
            char ty[40]; long long nb, ne; size_t n = unhex(a[0], buf);
            if (node_bytes(&F[fi], H(fi, u), ty, &nb, &ne) || nb == 0 || x > y || (long long)n != (y - x + 1) * tsize(ty)) { printf("err\n"); continue; }
            printf(cgio_write_block_data(F[fi].cgio, H(fi, u), (cgsize_t)x, (cgsize_t)y, buf) ? "err\n" : "ok\n");
        } else if (!strcmp(cmd, "wsel") || !strcmp(cmd, "rsel")) {
            cgsize_t s[32], e[32], t[32], md[32], ms[32], me[32], mt[32];
            sscanf(line, "%*s %d %d %s %s %s %s", &fi, &u, a[0], a[1], a[2], a[3]);
            if (BAD(fi) || H(fi, u) < 0) { printf("err\n"); continue; }
            int nd = parse_sel(a[0], s, e, t), mnd = parse_csv(a[1], md), mnd2 = parse_sel(a[2], ms, me, mt);
            size_t n = unhex(a[3], buf); char ty[40]; long long nb, ne, mtot = 1;
            int fnd; cgsize_t fd[CGIO_MAX_DIMENSIONS];
            if (node_bytes(&F[fi], H(fi, u), ty, &nb, &ne) || nb == 0 || mnd != mnd2 || mnd < 1 || mnd > 12 ||
                cgio_get_dimensions(F[fi].cgio, H(fi, u), &fnd, fd) || fnd != nd) { printf("err\n"); continue; }
            for (int i = 0; i < mnd; i++) mtot *= md[i];
            if ((long long)n != mtot * tsize(ty)) { printf("err\n"); continue; }
            if (cmd[0] == 'w') printf(cgio_write_data(F[fi].cgio, H(fi, u), s, e, t, mnd, md, ms, me, mt, buf) ? "err\n" : "ok\n");
            else {
                if (cgio_read_data_type(F[fi].cgio, H(fi, u), s, e, t, ty, mnd, md, ms, me, mt, buf)) printf("err\n");
                else { printf("ok d:"); hexout(buf, n); printf("\n"); }
            }
        } else if (!strcmp(cmd, "rall")) {
            sscanf(line, "%*s %d %d", &fi, &u);
            if (BAD(fi) || H(fi, u) < 0) { printf("err\n"); continue; }
            char ty[40]; long long nb, ne;
            if (node_bytes(&F[fi], H(fi, u), ty, &nb, &ne) || nb == 0 || nb > 2000000) { printf("err\n"); continue; }
            memset(buf, 0xEE, nb);
            if (cgio_read_all_data_type(F[fi].cgio, H(fi, u), ty, buf)) printf("err\n");
            else { printf("ok d:"); hexout(buf, nb); printf("\n"); }
        } else if (!strcmp(cmd, "rblock")) {
            sscanf(line, "%*s %d %d %lld %lld", &fi, &u, &x, &y);
            if (BAD(fi) || H(fi, u) < 0) { printf("err\n"); continue; }
            char ty[40]; long long nb, ne;
            if (node_bytes(&F[fi], H(fi, u), ty, &nb, &ne) || nb == 0 || x > y || x < 1 || y > ne) { printf("err\n"); continue; }
            long long n = (y - x + 1) * tsize(ty); memset(buf, 0xEE, n);
            if (cgio_read_block_data_type(F[fi].cgio, H(fi, u), (cgsize_t)x, (cgsize_t)y, ty, buf)) printf("err\n");
            else { printf("ok d:"); hexout(buf, n); printf("\n"); }
        } else if (!strcmp(cmd, "nchild")) {
            sscanf(line, "%*s %d %d", &fi, &u); int n;
            if (BAD(fi) || H(fi, u) < 0 || cgio_number_children(F[fi].cgio, H(fi, u), &n)) printf("err\n"); else printf("ok %d\n", n);
        } else if (!strcmp(cmd, "names")) {
            sscanf(line, "%*s %d %d %lld %lld", &fi, &u, &x, &y);
            if (BAD(fi) || H(fi, u) < 0 || x < 1 || y < 0 || y > 4000) { printf("err\n"); continue; }
            int got = 0; char *nm = calloc((size_t)(y + 1), CGIO_MAX_NAME_LENGTH + 1);
            if (cgio_children_names(F[fi].cgio, H(fi, u), (int)x, (int)y, CGIO_MAX_NAME_LENGTH + 1, &got, nm)) printf("err\n");
            else { printf("ok n:"); if (!got) printf("-"); for (int i = 0; i < got; i++) { if (i) printf(","); hexstr(nm + i * (CGIO_MAX_NAME_LENGTH + 1)); } printf("\n"); }
            free(nm);
        } else if (!strcmp(cmd, "lookup")) {
            sscanf(line, "%*s %d %d %s", &fi, &u, a[0]);
            if (BAD(fi) || H(fi, u) < 0) { printf("err\n"); continue; }
            unhex(a[0], buf); double id; char nm[80], lb[80];
            if (cgio_get_node_id(F[fi].cgio, H(fi, u), (char *)buf, &id) || cgio_get_name(F[fi].cgio, id, nm) ||
                cgio_get_label(F[fi].cgio, id, lb)) printf("err\n");
            else { printf("ok N:"); hexstr(nm); printf(":"); hexstr(lb); printf("\n"); }
        } else if (!strcmp(cmd, "info")) {
            int what; sscanf(line, "%*s %d %d %d", &fi, &u, &what);
            if (BAD(fi) || H(fi, u) < 0) { printf("err\n"); continue; }
            double id = H(fi, u); char s[80]; int cg = F[fi].cgio;
            if (what == 0) { if (cgio_get_name(cg, id, s)) printf("err\n"); else { printf("ok b:"); hexstr(s); printf("\n"); } }
            else if (what == 1) { if (cgio_get_label(cg, id, s)) printf("err\n"); else { printf("ok b:"); hexstr(s); printf("\n"); } }
            else if (what == 2) { if (cgio_get_data_type(cg, id, s)) printf("err\n"); else { printf("ok b:"); hexstr(s); printf("\n"); } }
            else if (what == 3) { int nd; cgsize_t d[CGIO_MAX_DIMENSIONS];
                if (cgio_get_dimensions(cg, id, &nd, d)) printf("err\n");
                else { printf("ok i:"); if (!nd) printf("-"); for (int i = 0; i < nd; i++) printf("%s%lld", i ? "," : "", (long long)d[i]); printf("\n"); } }
            else if (what == 4) { int len; if (cgio_is_link(cg, id, &len)) printf("err\n"); else printf("ok %d\n", len > 0 ? 1 : 0); }
            else { int fl, nl; static char fn[4096], pa[4096];
                if (cgio_link_size(cg, id, &fl, &nl) || (fl == 0 && nl == 0) || cgio_get_link(cg, id, fn, pa)) printf("err\n");
                else { printf("ok L:"); hexstr(fn); printf(":"); hexstr(pa); printf("\n"); } }
        } else if (line[0] == '\n' || line[0] == '#') ;
        else printf("badline %s", line);
        fflush(stdout);
    }
    for (fi = 0; fi < MAXF; fi++) if (F[fi].open) cgio_close_file(F[fi].cgio);
    return 0;
}
