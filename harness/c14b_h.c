/* c14b_h.c -- scenario programs of the C14b check (error propagation through ADF_internals.c / ADF_interface.c /
   cgns_io.c): cgio-level sessions, every API status printed.  Same conventions as c14_h.c (ARM / MARK / DISARM for
   harness/interpose.c, canonical dump through c15_dump.c), with the operations needed to reach the rarely used
   entry points (move, rename, partial and block writes, reads, copies into a second file, link queries).
   usage:  c14b_h run  <file>      script on stdin, one line "s <status>" per op
           c14b_h dump <file>...   canonical logical dump (c15_dump.c)
   script (paths are node paths such as /A/B; data is derived from <seed> by gen()):
     open <w|m|r> <adf|hdf5>        new <parent> <name> <label> <I4|R8|C1> <n> <seed>
     wr <path> <type> <n> <seed>    del <path>      setlabel <path> <label>    link <parent> <name> <file|-> <target>
     move <path> <newparent>        rename <path> <newname>
     wrpart <path> <first> <last> <seed>   (cgio_write_data, I4 elements first..last, 1-based)
     wrblock <path> <first> <last> <seed>  (cgio_write_block_data)
     rd <path>                      (label, type, dimensions, all data; prints only the status)
     rdpart <path> <first> <last>   (cgio_read_data_type / cgio_read_block_data_type on an I4 node)
     ls <path>                      (number of children, names, ids)
     lnk <path>                     (cgio_is_link / cgio_link_size / cgio_get_link)
     open2 <file> <adf|hdf5>        second file, write mode      copy2 <path> <name>   (new node under the root of
                                    file 2 + cgio_copy_node)      copyfile2   (cgio_copy_file)     close2
     version   flush   compress   close
     cgopen <w|m> <adf|hdf5>   base <name>   zone <name> <n>   coord <name> <seed>   sol <name>   field <name> <seed>
     desc <name> <text>   cgclose      (mid-level sessions, as in c14_h.c)
     adfnew <format>                an empty ADF database in number format IEEE_BIG_32|IEEE_BIG_64|IEEE_LITTLE_32|IEEE_LITTLE_64|
                                    CRAY|NATIVE (ADF_Database_Open NEW + close): a file as it comes from another machine
     cgopen r adf                   read-only      cgsel <B> <Z> <next element number>   (used by the operations below; after cgopen m)
     uzone <name> <nvert> <ncell>   unstructured zone
     ngon <name> <ne> <npe> <seed>  cg_poly_section_write NGON_n, ne faces of npe nodes, appended after the last section
     ngon4 <name> <ne> <npe> <seed> the same stored as 32-bit integers (cg_section_general_write + initialize + general_write)
     mixed <name> <ne> <seed>       cg_poly_section_write MIXED, alternating TRI_3 / QUAD_4
     elems <name> <ne> <seed>       cg_section_write TETRA_4
     secpart <name> <ne>            cg_section_partial_write TETRA_4 (section initialised with zeros)
     polypart <S> <first> <last> <npe> <seed>   cg_poly_elements_partial_write on an NGON_n section (faces of npe nodes)
     mixpart <S> <first> <last> <3|4> <seed>    cg_poly_elements_partial_write on a MIXED section (all TRI_3 or all QUAD_4)
     elempart <S> <first> <last> <seed>         cg_elements_partial_write (TETRA_4)
     parentpart <S> <first> <last> <seed>       cg_parent_data_partial_write
     coordpart <name> <lo> <hi> <seed>          cg_coord_partial_write on i-planes lo..hi of the structured zone
     fieldpart <name> <lo> <hi> <seed>          cg_field_partial_write
     bbox <seed>                    cg_grid_bounding_box_write
     getcoord <name>   getfield <name>   getelems <S>   (whole-array reads; status only)
     saveas <file> <adf|hdf5>       cg_save_as        cgdeldesc <name>   (cg_delete_node of a child of the base)
     cgcompress <n>                 cg_configure(CG_CONFIG_COMPRESS, n): cg_close rewrites the file when n nodes were deleted (-1: always) */
#include <stdio.h>
#include <stdlib.h>
#include <string.h>
#include <unistd.h>
#include "cgnslib.h"
#include "cgns_io.h"
#include "adf/ADF.h"
#include "c15_dump.c"

static int cg = 0, cg2 = 0, fn = -1, B = 1, Z = 1, S = 1, zn = 2;
static cgsize_t next_elem = 1, nvert = 1000;

static CGNS_ENUMT(DataType_t) cgi_datatype_of_size(void) { return sizeof(cgsize_t) == 8 ? CGNS_ENUMV(LongInteger) : CGNS_ENUMV(Integer); }
static cgsize_t node_of(unsigned long long seed, cgsize_t e, int j) { return (cgsize_t)((seed * 17 + (unsigned long long)e * 7 + j * 13) % (unsigned long long)nvert) + 1; }

/* connectivity (+ offsets) of faces first..last with npe nodes each; mixed: element type token in front */
static void poly(cgsize_t first, cgsize_t last, int npe, int mixed, unsigned long long seed, cgsize_t **conn, cgsize_t **offs)
{
    cgsize_t ne = last - first + 1, e, k = 0; int j;
    *conn = (cgsize_t *)malloc(sizeof(cgsize_t) * (size_t)(ne * ((npe > 4 ? npe : 4) + 1) + 1));
    *offs = (cgsize_t *)malloc(sizeof(cgsize_t) * (size_t)(ne + 1));
    (*offs)[0] = 0;
    for (e = first; e <= last; e++) {
        int np = npe ? npe : ((e & 1) ? 3 : 4);
        if (mixed) (*conn)[k++] = np == 3 ? CGNS_ENUMV(TRI_3) : CGNS_ENUMV(QUAD_4);
        for (j = 0; j < np; j++) (*conn)[k++] = node_of(seed, e, j);
        (*offs)[e - first + 1] = k;
    }
}
static double root, root2;

static void *gen(const char *type, long n, unsigned long long seed, size_t *nbytes)
{
    long i;
    if (!strcmp(type, "I4")) {
        int *v = (int *)malloc(sizeof(int) * (n + 1));
        for (i = 0; i < n; i++) v[i] = (int)((seed * 31 + (unsigned long long)i * 3) & 0x7fffffff);
        *nbytes = 4 * n; return v;
    }
    if (!strcmp(type, "R8")) {
        double *v = (double *)malloc(sizeof(double) * (n + 1));
        for (i = 0; i < n; i++) v[i] = (double)((seed * 7 + (unsigned long long)i) % 1000) / 4.0;
        *nbytes = 8 * n; return v;
    }
    {
        char *v = (char *)malloc(n + 1);
        for (i = 0; i < n; i++) v[i] = (char)('a' + (seed + (unsigned long long)i * 5) % 26);
        *nbytes = n; return v;
    }
}

static int find(const char *path, double *id)
{
    if (!strcmp(path, "/")) { *id = root; return 0; }
    return cgio_get_node_id(cg, root, path, id);
}

static int parent_of(const char *path, double *pid)
{
    char b[1024]; char *sl;
    strcpy(b, path); sl = strrchr(b, '/');
    if (sl == b) strcpy(b, "/"); else *sl = 0;
    return find(b, pid);
}

int main(int argc, char **argv)
{
    static char line[4096], a[1024], b[1024], c[1024], d[1024];
    long n, n2, n3; unsigned long long seed;
    if (argc >= 3 && !strcmp(argv[1], "dump")) {
        int i;
        for (i = 2; i < argc; i++) { char tag[16]; sprintf(tag, "%d", i - 2); dump_file(argv[i], tag); }
        return 0;
    }
    if (argc < 3 || strcmp(argv[1], "run")) return 2;
    access("//VERIF_IP_ARM", 0);
    while (fgets(line, sizeof line, stdin)) {
        int ier = -999;
        if (sscanf(line, "open2 %1023s %1023s", a, b) == 2) {
            ier = cgio_open_file(a, CGIO_MODE_WRITE, !strcmp(b, "hdf5") ? CGIO_FILE_HDF5 : CGIO_FILE_ADF, &cg2);
            if (!ier) ier = cgio_get_root_id(cg2, &root2);
        } else if (sscanf(line, "open %1023s %1023s", a, b) == 2) {
            int ft = !strcmp(b, "hdf5") ? CGIO_FILE_HDF5 : CGIO_FILE_ADF;
            ier = cgio_open_file(argv[2], a[0] == 'w' ? CGIO_MODE_WRITE : a[0] == 'm' ? CGIO_MODE_MODIFY : CGIO_MODE_READ,
                                 a[0] == 'w' ? ft : CGIO_FILE_NONE, &cg);
            if (!ier) ier = cgio_get_root_id(cg, &root);
        } else if (sscanf(line, "new %1023s %1023s %1023s %1023s %ld %llu", a, b, c, d, &n, &seed) == 6) {
            double pid, id; size_t nb; cgsize_t dim = n;
            void *v = gen(d, n, seed, &nb);
            ier = find(a, &pid);
            if (!ier) ier = cgio_new_node(cg, pid, b, c, d, 1, &dim, v, &id);
            free(v);
        } else if (sscanf(line, "wrpart %1023s %ld %ld %llu", a, &n, &n2, &seed) == 4) {
            double id; size_t nb; cgsize_t s = n, e = n2, st = 1, md = n2 - n + 1, ms = 1;
            void *v = gen("I4", n2 - n + 1, seed, &nb);
            ier = find(a, &id);
            if (!ier) ier = cgio_write_data(cg, id, &s, &e, &st, 1, &md, &ms, &md, &st, v);
            free(v);
        } else if (sscanf(line, "wrblock %1023s %ld %ld %llu", a, &n, &n2, &seed) == 4) {
            double id; size_t nb;
            void *v = gen("I4", n2 - n + 1, seed, &nb);
            ier = find(a, &id);
            if (!ier) ier = cgio_write_block_data(cg, id, (cgsize_t)n, (cgsize_t)n2, v);
            free(v);
        } else if (sscanf(line, "wr %1023s %1023s %ld %llu", a, d, &n, &seed) == 4) {
            double id; size_t nb; cgsize_t dim = n;
            void *v = gen(d, n, seed, &nb);
            ier = find(a, &id);
            if (!ier) ier = cgio_set_dimensions(cg, id, d, 1, &dim);
            if (!ier) ier = cgio_write_all_data(cg, id, v);
            free(v);
        } else if (sscanf(line, "del %1023s", a) == 1) {
            double id, pid;
            ier = find(a, &id);
            if (!ier) ier = parent_of(a, &pid);
            if (!ier) ier = cgio_delete_node(cg, pid, id);
        } else if (sscanf(line, "setlabel %1023s %1023s", a, b) == 2) {
            double id;
            ier = find(a, &id);
            if (!ier) ier = cgio_set_label(cg, id, b);
        } else if (sscanf(line, "link %1023s %1023s %1023s %1023s", a, b, c, d) == 4) {
            double pid, id;
            ier = find(a, &pid);
            if (!ier) ier = cgio_create_link(cg, pid, b, !strcmp(c, "-") ? "" : c, d, &id);
        } else if (sscanf(line, "move %1023s %1023s", a, b) == 2) {
            double id, pid, npid;
            ier = find(a, &id);
            if (!ier) ier = parent_of(a, &pid);
            if (!ier) ier = find(b, &npid);
            if (!ier) ier = cgio_move_node(cg, pid, id, npid);
        } else if (sscanf(line, "rename %1023s %1023s", a, b) == 2) {
            double id, pid;
            ier = find(a, &id);
            if (!ier) ier = parent_of(a, &pid);
            if (!ier) ier = cgio_set_name(cg, pid, id, b);
        } else if (sscanf(line, "rdpart %1023s %ld %ld", a, &n, &n2) == 3) {
            double id; cgsize_t s = n, e = n2, st = 1, md = n2 - n + 1, ms = 1;
            int *v = (int *)malloc(sizeof(int) * (n2 - n + 2));
            ier = find(a, &id);
            if (!ier) ier = cgio_read_data_type(cg, id, &s, &e, &st, "I4", 1, &md, &ms, &md, &st, v);
            if (!ier) ier = cgio_read_block_data_type(cg, id, (cgsize_t)n, (cgsize_t)n2, "I4", v);
            free(v);
        } else if (sscanf(line, "rd %1023s", a) == 1) {
            double id; char lab[CGIO_MAX_LABEL_LENGTH + 1], nm[CGIO_MAX_NAME_LENGTH + 1], dt[CGIO_MAX_DATATYPE_LENGTH + 1];
            int nd; cgsize_t dims[CGIO_MAX_DIMENSIONS]; cglong_t sz = 0;
            ier = find(a, &id);
            if (!ier) ier = cgio_get_name(cg, id, nm);
            if (!ier) ier = cgio_get_label(cg, id, lab);
            if (!ier) ier = cgio_get_data_type(cg, id, dt);
            if (!ier) ier = cgio_get_dimensions(cg, id, &nd, dims);
            if (!ier) ier = cgio_get_data_size(cg, id, &sz);
            if (!ier && sz > 0) { void *v = malloc((size_t)sz + 16); ier = cgio_read_all_data_type(cg, id, dt, v); free(v); }
        } else if (sscanf(line, "ls %1023s", a) == 1) {
            double id; int nc = 0, nr = 0;
            ier = find(a, &id);
            if (!ier) ier = cgio_number_children(cg, id, &nc);
            if (!ier && nc > 0) {
                char *names = (char *)malloc((size_t)nc * (CGIO_MAX_NAME_LENGTH + 1));
                double *ids = (double *)malloc(sizeof(double) * nc);
                ier = cgio_children_names(cg, id, 1, nc, CGIO_MAX_NAME_LENGTH + 1, &nr, names);
                if (!ier) ier = cgio_children_ids(cg, id, 1, nc, &nr, ids);
                free(names); free(ids);
            }
        } else if (sscanf(line, "lnk %1023s", a) == 1) {
            double id, pid; int ll = 0, fl = 0, nl = 0; char *nm = strrchr(a, '/');
            /* the id of the link node itself: its parent's child of that name, without following the link */
            ier = parent_of(a, &pid);
            if (!ier) ier = cgio_get_node_id(cg, pid, nm + 1, &id);
            if (!ier) ier = cgio_is_link(cg, id, &ll);
            if (!ier && ll > 0) {
                ier = cgio_link_size(cg, id, &fl, &nl);
                if (!ier) { char *f = (char *)malloc(fl + 2), *t = (char *)malloc(nl + 2); ier = cgio_get_link(cg, id, f, t); free(f); free(t); }
            }
        } else if (sscanf(line, "copy2 %1023s %1023s", a, b) == 2) {
            double id, nid; char lab[CGIO_MAX_LABEL_LENGTH + 1];
            ier = find(a, &id);
            if (!ier) ier = cgio_get_label(cg, id, lab);
            if (!ier) ier = cgio_create_node(cg2, root2, b, &nid);
            if (!ier) ier = cgio_copy_node(cg, id, cg2, nid);
        } else if (!strncmp(line, "copyfile2", 9)) ier = cgio_copy_file(cg, cg2, 1);
        else if (!strncmp(line, "close2", 6)) ier = cgio_close_file(cg2);
        else if (!strncmp(line, "version", 7)) { char v[64], cd[64], md[64]; ier = cgio_file_version(cg, v, cd, md); }
        else if (!strncmp(line, "flush", 5)) ier = cgio_flush_to_disk(cg);
        else if (!strncmp(line, "compress", 8)) ier = cgio_compress_file(cg, argv[2]);
        else if (!strncmp(line, "close", 5)) ier = cgio_close_file(cg);
        else if (sscanf(line, "cgopen %1023s %1023s", a, b) == 2) {
            ier = cg_set_file_type(!strcmp(b, "hdf5") ? CG_FILE_HDF5 : CG_FILE_ADF);
            if (!ier) ier = cg_open(argv[2], a[0] == 'w' ? CG_MODE_WRITE : a[0] == 'r' ? CG_MODE_READ : CG_MODE_MODIFY, &fn);
        } else if (sscanf(line, "base %1023s", a) == 1) ier = cg_base_write(fn, a, 3, 3, &B);
        else if (sscanf(line, "zone %1023s %ld", a, &n) == 2) {
            cgsize_t size[9] = {0};
            zn = (int)n;
            size[0] = size[1] = size[2] = n; size[3] = size[4] = size[5] = n - 1;
            ier = cg_zone_write(fn, B, a, size, CGNS_ENUMV(Structured), &Z);
        } else if (sscanf(line, "coord %1023s %llu", a, &seed) == 2) {
            size_t nb; int C; void *v = gen("R8", (long)zn * zn * zn, seed, &nb);
            ier = cg_coord_write(fn, B, Z, CGNS_ENUMV(RealDouble), a, v, &C); free(v);
        } else if (sscanf(line, "sol %1023s", a) == 1) ier = cg_sol_write(fn, B, Z, a, CGNS_ENUMV(Vertex), &S);
        else if (sscanf(line, "field %1023s %llu", a, &seed) == 2) {
            size_t nb; int F; void *v = gen("R8", (long)zn * zn * zn, seed, &nb);
            ier = cg_field_write(fn, B, Z, S, CGNS_ENUMV(RealDouble), a, v, &F); free(v);
        } else if (sscanf(line, "desc %1023s %1023s", a, b) == 2) {
            ier = cg_goto(fn, B, "end");
            if (!ier) ier = cg_descriptor_write(a, b);
        } else if (!strncmp(line, "cgclose", 7)) ier = cg_close(fn);
        else if (sscanf(line, "cgcompress %ld", &n) == 1) ier = cg_configure(CG_CONFIG_COMPRESS, (void *)(size_t)n);   /* compress-on-close */
        else if (sscanf(line, "zn %ld", &n) == 1) { zn = (int)n; ier = 0; }      /* size of the existing structured zone; no library call */
        else if (sscanf(line, "cgdeldesc %1023s", a) == 1) {
            ier = cg_goto(fn, B, "end");
            if (!ier) ier = cg_delete_node(a);
        } else if (sscanf(line, "adfnew %1023s", a) == 1) {
            double rid; int err = -1;
            unlink(argv[2]);
            ADF_Database_Open(argv[2], "NEW", a, &rid, &err);
            ier = err > 0 ? err : 0;
            if (!ier) { ADF_Database_Close(rid, &err); ier = err > 0 ? err : 0; }
        } else if (sscanf(line, "cgsel %ld %ld %ld", &n, &n2, &n3) == 3) { B = (int)n; Z = (int)n2; next_elem = n3; ier = 0; }
        else if (sscanf(line, "uzone %1023s %ld %ld", a, &n, &n2) == 3) {
            cgsize_t size[3]; size[0] = n; size[1] = n2; size[2] = 0; nvert = n; next_elem = 1;
            ier = cg_zone_write(fn, B, a, size, CGNS_ENUMV(Unstructured), &Z);
        } else if (sscanf(line, "ngon %1023s %ld %ld %llu", a, &n, &n2, &seed) == 4 || sscanf(line, "mixed %1023s %ld %llu", a, &n, &seed) == 3) {
            int mx = line[0] == 'm'; cgsize_t *c, *o;
            poly(next_elem, next_elem + n - 1, mx ? 0 : (int)n2, mx, seed, &c, &o);
            ier = cg_poly_section_write(fn, B, Z, a, mx ? CGNS_ENUMV(MIXED) : CGNS_ENUMV(NGON_n), next_elem, next_elem + n - 1, 0, c, o, &S);
            if (!ier) next_elem += n;
            free(c); free(o);
        } else if (sscanf(line, "ngon4 %1023s %ld %ld %llu", a, &n, &n2, &seed) == 4) {
            /* an NGON_n section whose arrays are stored as 32-bit integers (a file from a 32-bit build): every later
               write from cgsize_t memory converts ("handle different data_type in files") */
            cgsize_t *c, *o;
            poly(next_elem, next_elem + n - 1, (int)n2, 0, seed, &c, &o);
            ier = cg_section_general_write(fn, B, Z, a, CGNS_ENUMV(NGON_n), CGNS_ENUMV(Integer), next_elem, next_elem + n - 1, n * n2, 0, &S);
            if (!ier) ier = cg_section_initialize(fn, B, Z, S);
            if (!ier) ier = cg_poly_elements_general_write(fn, B, Z, S, next_elem, next_elem + n - 1, cgi_datatype_of_size(), c, o);
            if (!ier) next_elem += n;
            free(c); free(o);
        } else if (sscanf(line, "elems %1023s %ld %llu", a, &n, &seed) == 3) {
            cgsize_t *c, *o;
            poly(next_elem, next_elem + n - 1, 4, 0, seed, &c, &o);
            ier = cg_section_write(fn, B, Z, a, CGNS_ENUMV(TETRA_4), next_elem, next_elem + n - 1, 0, c, &S);
            if (!ier) next_elem += n;
            free(c); free(o);
        } else if (sscanf(line, "secpart %1023s %ld", a, &n) == 2) {
            ier = cg_section_partial_write(fn, B, Z, a, CGNS_ENUMV(TETRA_4), next_elem, next_elem + n - 1, 0, &S);
            if (!ier) next_elem += n;
        } else if (sscanf(line, "polypart %ld %ld %ld %1023s %llu", &n, &n2, &n3, a, &seed) == 5 ||
                   sscanf(line, "mixpart %ld %ld %ld %1023s %llu", &n, &n2, &n3, a, &seed) == 5) {
            cgsize_t *c, *o;
            poly(n2, n3, atoi(a), line[0] == 'm', seed, &c, &o);
            ier = cg_poly_elements_partial_write(fn, B, Z, (int)n, n2, n3, c, o);
            free(c); free(o);
        } else if (sscanf(line, "elempart %ld %ld %ld %llu", &n, &n2, &n3, &seed) == 4) {
            cgsize_t *c, *o;
            poly(n2, n3, 4, 0, seed, &c, &o);
            ier = cg_elements_partial_write(fn, B, Z, (int)n, n2, n3, c);
            free(c); free(o);
        } else if (sscanf(line, "parentpart %ld %ld %ld %llu", &n, &n2, &n3, &seed) == 4) {
            cgsize_t *c, *o;
            poly(n2, n3, 4, 0, seed, &c, &o);         /* 4 values per element: two parents, two parent faces */
            ier = cg_parent_data_partial_write(fn, B, Z, (int)n, n2, n3, c);
            free(c); free(o);
        } else if (sscanf(line, "coordpart %1023s %ld %ld %llu", a, &n, &n2, &seed) == 4 ||
                   sscanf(line, "fieldpart %1023s %ld %ld %llu", a, &n, &n2, &seed) == 4) {
            size_t nb; int C; cgsize_t lo[3], hi[3]; void *v = gen("R8", (long)zn * zn * zn, seed, &nb);
            lo[0] = n; lo[1] = 1; lo[2] = 1; hi[0] = n2; hi[1] = zn; hi[2] = zn;
            if (line[0] == 'c') ier = cg_coord_partial_write(fn, B, Z, CGNS_ENUMV(RealDouble), a, lo, hi, v, &C);
            else ier = cg_field_partial_write(fn, B, Z, S, CGNS_ENUMV(RealDouble), a, lo, hi, v, &C);
            free(v);
        } else if (sscanf(line, "bbox %llu", &seed) == 1) {
            double bb[6]; int i; for (i = 0; i < 6; i++) bb[i] = (double)((seed + i * 3) % 100) / 4.0;
            ier = cg_grid_bounding_box_write(fn, B, Z, 1, CGNS_ENUMV(RealDouble), bb);
        } else if (sscanf(line, "getcoord %1023s", a) == 1 || sscanf(line, "getfield %1023s", a) == 1) {
            cgsize_t lo[3] = {1, 1, 1}, hi[3]; double *v = (double *)malloc(sizeof(double) * (size_t)zn * zn * zn + 8);
            hi[0] = hi[1] = hi[2] = zn;
            if (line[3] == 'c') ier = cg_coord_read(fn, B, Z, a, CGNS_ENUMV(RealDouble), lo, hi, v);
            else ier = cg_field_read(fn, B, Z, S, a, CGNS_ENUMV(RealDouble), lo, hi, v);
            free(v);
        } else if (sscanf(line, "getelems %ld", &n) == 1) {
            cgsize_t sz = 0;
            ier = cg_ElementDataSize(fn, B, Z, (int)n, &sz);
            if (!ier) {
                char nm[64]; CGNS_ENUMT(ElementType_t) et; cgsize_t st, en; int nb_, pf;
                cgsize_t *c = (cgsize_t *)malloc(sizeof(cgsize_t) * (size_t)(sz + 1)), *o;
                ier = cg_section_read(fn, B, Z, (int)n, nm, &et, &st, &en, &nb_, &pf);
                o = (cgsize_t *)malloc(sizeof(cgsize_t) * (size_t)(en - st + 3));
                if (!ier) ier = (et == CGNS_ENUMV(NGON_n) || et == CGNS_ENUMV(NFACE_n) || et == CGNS_ENUMV(MIXED))
                                ? cg_poly_elements_read(fn, B, Z, (int)n, c, o, NULL) : cg_elements_read(fn, B, Z, (int)n, c, NULL);
                free(c); free(o);
            }
        } else if (sscanf(line, "saveas %1023s %1023s", a, b) == 2)
            ier = cg_save_as(fn, a, !strcmp(b, "hdf5") ? CG_FILE_HDF5 : CG_FILE_ADF, 0);
        else continue;
        printf("s %d\n", ier);
        fflush(stdout);
        access("//VERIF_IP_MARK", 0);
    }
    access("//VERIF_IP_DISARM", 0);
    printf("end\n");
    return 0;
}
